/-
  Lemmas/ColsAssign.lean — Assign._simplify_up: which keys survive, what the pruned input contains, values
-/
import DxModel.Cols
import DxModel.Lemmas.Cols
import DxModel.Lemmas.ColsSem
namespace Dx.Cols

theorem length_dedup_le (l : List Name) : (dedup l).length ≤ l.length := by
  induction l with
  | nil => exact Nat.le_refl _
  | cons x xs ih =>
    unfold dedup
    split
    · exact Nat.le_trans ih (Nat.le_succ _)
    · simp only [List.length_cons]; exact Nat.succ_le_succ ih

/-- the two outcomes of the Assign rule -/
inductive AssignOut (frame keys : List Name) (p : Parent) (deps : List Dep) (rw : Rw) : Prop where
  /-- none of the assigned columns is used: the Assign disappears -/
  | gone (hg : rw.gone = true) (hc : rw.childs = [none]) (hk : rw.keep = true)
      (hno : ∀ k, k ∈ keys → k ∉ unionCols p deps [])
  /-- the used keys survive, the input keeps the requested non-key columns -/
  | pruned (newKeys : List Name) (hg : rw.gone = false) (hk : rw.keep = true) (hkeys : rw.keys = some newKeys)
      (hc : rw.childs = [some (.many (sortKeep (frame.filter
              (((unionCols p deps []).filter (fun c => !keys.contains c)).contains ·))))])
      (hnew : ∀ k, k ∈ newKeys ↔ k ∈ keys ∧ k ∈ unionCols p deps [])

theorem assign_spec {frame keys : List Name} {p : Parent} {deps : List Dep} {rw : Rw}
    (h : assign frame keys p deps = some rw) : AssignOut frame keys p deps rw := by
  unfold assign at h
  simp only [detProj_toList] at h
  split at h
  · cases h
  · split at h
    · rename_i hlen
      cases h
      refine .gone rfl rfl rfl ?_
      -- |dedup keys filtered| = |keys| forces every key to be outside the requested columns
      have h1 := List.length_filter_le (fun k => !(unionCols p deps []).contains k) (dedup keys)
      have h2 := length_dedup_le keys
      have h3 : ((dedup keys).filter (fun k => !(unionCols p deps []).contains k)).length = (dedup keys).length := by omega
      rw [List.length_filter_eq_length_iff] at h3
      intro k hk hin
      have := h3 k (mem_dedup.mpr hk)
      rw [List.contains_iff_mem.mpr hin] at this
      cases this
    · cases h
      refine .pruned _ rfl rfl rfl rfl ?_
      intro k
      split
      · rw [List.mem_filter, List.contains_iff_mem]
      · rename_i hpos
        have hnil : (dedup keys).filter (fun k => !(unionCols p deps []).contains k) = [] := by
          apply List.eq_nil_of_length_eq_zero; omega
        rw [List.filter_eq_nil_iff] at hnil
        constructor
        · intro hk
          refine ⟨hk, ?_⟩
          have := hnil k (mem_dedup.mpr hk)
          simpa using this
        · exact fun hk => hk.1

/-- the pruned input of an Assign: non-key requested columns are there, nothing else is invented -/
theorem assign_child_adequate (frame keys : List Name) (p : Parent) (deps : List Dep) :
    Adequate frame [] (p.cols.filter (fun c => !keys.contains c))
      (sortKeep (frame.filter (((unionCols p deps []).filter (fun c => !keys.contains c)).contains ·))) := by
  apply adequate_perm _ (sortKeep_perm _)
  apply adequate_filter
  · intro k hk; cases hk
  · intro c hc
    rw [List.mem_filter] at hc
    rw [List.contains_iff_mem, List.mem_filter]
    exact ⟨parent_mem_union hc.1, hc.2⟩

variable {γ : Type}

/-- value of the rewritten Assign expression -/
def evalAssign (A : AssignOp γ) (kv : List (Name × γ)) (P : List Name) (rw : Rw) (F : Frame γ) : Frame γ :=
  if rw.gone then F.select P
  else
    let inp := match rw.childs with
      | [some s] => F.select s.toList
      | _ => F
    (A.op (kv.filter (fun e => (rw.keys.getD []).contains e.1)) inp).select P

theorem find_last_filter (kv : List (Name × γ)) (q : Name → Bool) (c : Name) (hq : q c = true) :
    ((kv.filter (fun e => q e.1)).reverse.find? (fun e => e.1 == c)) = (kv.reverse.find? (fun e => e.1 == c)) := by
  rw [← List.filter_reverse, List.find?_filter]
  congr 1
  funext e
  by_cases he : (e.1 == c) = true
  · have : e.1 = c := by simpa using he
    simp [this, hq]
  · have he' : (e.1 == c) = false := by simpa using he
    simp [he']

theorem assign_values (A : AssignOp γ) (kv : List (Name × γ)) (F : Frame γ) (p : Parent) (deps : List Dep) (rw : Rw)
    (h : assign F.cols (kv.map (·.1)) p deps = some rw)
    (c : Name) (hc : c ∈ p.cols) (hwf : c ∈ (A.op kv F).cols) :
    (evalAssign A kv p.cols rw F).val c = ((A.op kv F).select p.cols).val c := by
  have hcu : c ∈ unionCols p deps [] := parent_mem_union hc
  rw [select_val_mem hc]
  cases assign_spec h with
  | gone hg hch hk hno =>
    have hnk : (kv.map (·.1)).contains c = false := by
      by_cases hh : (kv.map (·.1)).contains c = true
      · exact absurd hcu (hno c (List.contains_iff_mem.mp hh))
      · simpa using hh
    simp only [evalAssign, hg, if_true]
    rw [select_val_mem hc, A.op_other kv F c hnk]
  | pruned newKeys hg hk hkeys hch hnew =>
    simp only [evalAssign, hg, hkeys, hch, Option.getD_some, Sel.toList, Bool.false_eq_true, if_false]
    rw [select_val_mem hc]
    by_cases hkey : (kv.map (·.1)).contains c = true
    · -- an assigned column: the last pair for it survives the key filter
      have hcn : newKeys.contains c = true :=
        List.contains_iff_mem.mpr ((hnew c).mpr ⟨List.contains_iff_mem.mp hkey, hcu⟩)
      have hkey' : ((kv.filter (fun e => newKeys.contains e.1)).map (·.1)).contains c = true := by
        rw [List.contains_iff_mem, List.mem_map] at hkey ⊢
        obtain ⟨e, he, hec⟩ := hkey
        exact ⟨e, List.mem_filter.mpr ⟨he, by rw [hec]; exact hcn⟩, hec⟩
      rw [A.op_key _ _ c hkey', A.op_key kv F c hkey, find_last_filter kv newKeys.contains c hcn]
    · -- a passed-through column: it is in the pruned input
      have hkey0 : (kv.map (·.1)).contains c = false := by simpa using hkey
      have hkey' : ((kv.filter (fun e => newKeys.contains e.1)).map (·.1)).contains c = false := by
        by_cases hh : ((kv.filter (fun e => newKeys.contains e.1)).map (·.1)).contains c = true
        · rw [List.contains_iff_mem, List.mem_map] at hh
          obtain ⟨e, he, hec⟩ := hh
          exfalso; apply hkey
          rw [List.contains_iff_mem, List.mem_map]
          exact ⟨e, (List.mem_filter.mp he).1, hec⟩
        · simpa using hh
      rw [A.op_other _ _ c hkey', A.op_other kv F c hkey0]
      have hcF : c ∈ F.cols := by
        rw [A.op_cols, mem_assignLabels] at hwf
        rcases hwf with hh | hh
        · exact hh
        · exact absurd (List.contains_iff_mem.mpr hh) hkey
      apply select_val_mem
      apply (assign_child_adequate F.cols (kv.map (·.1)) p deps).req c _ hcF
      rw [List.mem_filter]
      exact ⟨hc, by rw [hkey0]; rfl⟩

end Dx.Cols
