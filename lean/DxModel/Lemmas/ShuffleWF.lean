/-
  Lemmas/ShuffleWF.lean — well-formedness of the three shuffle layers: every referenced key is
  defined or an input (`Closed`), and an explicit rank decreases along references (`Ranked`, hence
  acyclic and `run_stable` applies).  Used by C09 / C05.
-/
import DxModel.Lemmas.ShuffleStaged
import DxModel.Lemmas.ShuffleExamples
namespace Dx
open Shuffle

/-! ### SimpleShuffle -/

def simpleRank : Key → Nat
  | .out _ _ => 2
  | .ssplit _ _ => 1
  | _ => 0

theorem simple_closed (p : Params) (rows : Nat → List Row) : Closed (simpleTask p) (inputs rows) := by
  intro k t h d hd
  cases k with
  | out n j =>
    cases n with
    | self =>
      simp only [simpleTask] at h
      split at h
      · rename_i hj
        cases h
        simp only [Tsk.refs, List.mem_map, List.mem_range] at hd
        obtain ⟨i, hi, rfl⟩ := hd
        left
        simp [simpleTask, hi, List.getElem_mem]
      · cases h
    | stage s => exact nomatch h
  | ssplit o i =>
    simp only [simpleTask] at h
    split at h
    · rename_i hc
      cases h
      simp only [Tsk.refs, List.mem_singleton] at hd
      subst hd
      left
      have hne : p.parts ≠ [] := by intro e; rw [e] at hc; exact nomatch hc.1
      simp [simpleTask, hc.2, hne]
    · cases h
  | sgroup i =>
    simp only [simpleTask] at h
    split at h
    · cases h
      simp only [Tsk.refs, List.mem_singleton] at hd
      subst hd
      right; rfl
    · cases h
  | _ => exact nomatch h

theorem simple_ranked (p : Params) : Ranked (simpleTask p) simpleRank := by
  intro k t h d hd _
  cases k with
  | out n j =>
    cases n with
    | self =>
      simp only [simpleTask] at h
      split at h
      · cases h
        simp only [Tsk.refs, List.mem_map, List.mem_range] at hd
        obtain ⟨i, _, rfl⟩ := hd
        simp [simpleRank]
      · cases h
    | stage s => exact nomatch h
  | ssplit o i =>
    simp only [simpleTask] at h
    split at h
    · cases h
      simp only [Tsk.refs, List.mem_singleton] at hd
      subst hd
      simp [simpleRank]
    · cases h
  | sgroup i =>
    simp only [simpleTask] at h
    split at h
    · cases h
      simp only [Tsk.refs, List.mem_singleton] at hd
      subst hd
      rename_i hdef
      exact nomatch hdef
    · cases h
  | _ => exact nomatch h

/-! ### DiskShuffle -/

def diskRank : Key → Nat
  | .out _ _ => 3
  | .barrier => 2
  | .dwrite _ => 1
  | _ => 0

theorem disk_closed (p : Params) (rows : Nat → List Row) : Closed (diskTask p) (inputs rows) := by
  intro k t h d hd
  cases k with
  | out n j =>
    cases n with
    | self =>
      simp only [diskTask] at h
      split at h
      · cases h
        simp only [Tsk.refs, List.mem_cons, List.mem_map, List.mem_range] at hd
        rcases hd with rfl | ⟨i, _, rfl⟩
        · left; rfl
        · right; rfl
      · cases h
    | stage s => exact nomatch h
  | partd => cases h; exact nomatch hd
  | dwrite i =>
    simp only [diskTask] at h
    split at h
    · cases h
      simp only [Tsk.refs, List.mem_singleton] at hd
      subst hd
      right; rfl
    · cases h
  | barrier =>
    cases h
    simp only [Tsk.refs, List.mem_map, List.mem_range] at hd
    obtain ⟨i, hi, rfl⟩ := hd
    left
    simp [diskTask, hi]
  | _ => exact nomatch h

theorem disk_ranked (p : Params) : Ranked (diskTask p) diskRank := by
  intro k t h d hd hdef
  cases k with
  | out n j =>
    cases n with
    | self =>
      simp only [diskTask] at h
      split at h
      · cases h
        simp only [Tsk.refs, List.mem_cons, List.mem_map, List.mem_range] at hd
        rcases hd with rfl | ⟨i, _, rfl⟩
        · simp [diskRank]
        · exact nomatch hdef
      · cases h
    | stage s => exact nomatch h
  | partd => cases h; exact nomatch hd
  | dwrite i =>
    simp only [diskTask] at h
    split at h
    · cases h
      simp only [Tsk.refs, List.mem_singleton] at hd
      subst hd
      exact nomatch hdef
    · cases h
  | barrier =>
    cases h
    simp only [Tsk.refs, List.mem_map, List.mem_range] at hd
    obtain ⟨i, _, rfl⟩ := hd
    simp [diskRank]
  | _ => exact nomatch h

/-! ### staged TaskShuffle -/

theorem stageOf_some (p : Params) (n : SName) (s : Nat) (h : stageOf p n = some s) :
    n = stageName p s ∧ s < p.stages := by
  cases n with
  | self =>
    simp only [stageOf] at h
    split at h
    · rename_i hc
      cases h
      exact ⟨(stageName_last p _ hc.2).symm, by omega⟩
    · cases h
  | stage s' =>
    simp only [stageOf] at h
    split at h
    · rename_i hc
      cases h
      refine ⟨(stageName_nonlast p _ ?_).symm, hc.1⟩
      simpa using hc.2
    · cases h

theorem requested_elim (p : Params) (s : Nat) (inp : List Nat) (h : requested p s inp = true) :
    ∃ q, q ∈ partsOut p s ∧ ∃ i, i < p.nsplits ∧ (digits p.nsplits p.stages q).set s i = inp := by
  simp only [requested, List.any_eq_true, List.mem_range, beq_iff_eq] at h
  exact h

/-- rank: 4 per stage (group < split < out), then regroup and final outputs -/
def stagedRank (p : Params) : Key → Nat
  | .empty _ _ => 1
  | .group n _ => 4 * (stageOf p n).getD 0 + 2
  | .split n _ _ => 4 * (stageOf p n).getD 0 + 3
  | .out n _ => match stageOf p n with
      | some s => 4 * s + 4
      | none => 4 * p.stages + 6
  | .rgroup _ _ => 4 * p.stages + 5
  | _ => 0

theorem staged_closed (p : Params) (rows : Nat → List Row)
    (harith : stageArithOK p.nin p.stages p.nsplits = true) (hnin : 0 < p.nin) :
    Closed (stagedTask p) (inputs rows) := by
  simp only [stageArithOK, Bool.and_eq_true, decide_eq_true_eq] at harith
  obtain ⟨⟨hs1, hk2⟩, hle⟩ := harith
  have hk : 0 < p.nsplits := by omega
  intro k t h d hd
  cases k with
  | out n j =>
    simp only [stagedTask] at h
    split at h
    · rename_i s hso
      obtain ⟨rfl, hs⟩ := stageOf_some p n s hso
      split at h
      · rename_i hj
        cases h
        simp only [Tsk.refs, List.mem_map, List.mem_range] at hd
        obtain ⟨i, hi, rfl⟩ := hd
        left
        rw [staged_split_def p s hs _ i (List.getElem_mem hj) hi]
        rfl
      · cases h
    · split at h
      · rename_i hc
        split at h
        · rename_i hj
          cases h
          simp only [Tsk.refs, List.mem_singleton] at hd
          subst hd
          left
          have hmod : p.parts[j] % p.nin < p.nin := Nat.mod_lt _ hnin
          simp [stagedTask, hc.2, hs1, hmod]
        · cases h
      · cases h
  | split n idx inp =>
    simp only [stagedTask] at h
    split at h
    · rename_i s hso
      obtain ⟨rfl, hs⟩ := stageOf_some p n s hso
      split at h
      · rename_i hc
        cases h
        simp only [Tsk.refs, List.mem_singleton] at hd
        subst hd
        left
        have hreq : requested p s inp = true := by
          simp only [List.any_eq_true, Bool.and_eq_true, List.mem_range, beq_iff_eq] at hc
          obtain ⟨q, hq, _, i, hi, e⟩ := hc
          simp only [requested, List.any_eq_true, List.mem_range, beq_iff_eq]
          exact ⟨q, hq, i, hi, e⟩
        rw [staged_group_def p s hs inp hreq]
        rfl
      · cases h
    · cases h
  | group n inp =>
    simp only [stagedTask] at h
    split at h
    · rename_i s hso
      obtain ⟨rfl, hs⟩ := stageOf_some p n s hso
      split at h
      · rename_i hreq
        cases h
        simp only [Tsk.refs, List.mem_singleton] at hd
        subst hd
        by_cases h0 : s = 0
        · subst h0
          by_cases hn : num p.nsplits inp < p.nin
          · right; simp [hn, inputs]
          · left
            simp only [hn, if_true, if_false]
            rw [staged_empty_def p hs inp hreq hn]
            rfl
        · left
          simp only [h0, if_false]
          obtain ⟨q, _, i, hi, rfl⟩ := requested_elim p s inp hreq
          obtain ⟨hlen, hval⟩ := set_digits_valid p.nsplits p.stages q s i hk hi
          have hnl : lastEq p (s - 1) = false := lastEq_of_lt p (s - 1) (by omega)
          have hj : num p.nsplits ((digits p.nsplits p.stages q).set s i) < (partsOut p (s - 1)).length := by
            rw [partsOut_length_nonlast p _ hnl]
            exact num_lt p.nsplits _ p.stages hlen hval
          rw [staged_out_def p (s - 1) (by omega) _ hj]
          rfl
      · cases h
    · cases h
  | empty n inp =>
    simp only [stagedTask] at h
    split at h
    · split at h
      · cases h; exact nomatch hd
      · cases h
    · cases h
  | rgroup n i =>
    simp only [stagedTask] at h
    split at h
    · rename_i hc
      cases h
      simp only [Tsk.refs, List.mem_singleton] at hd
      subst hd
      left
      obtain ⟨hne, _, rfl, hi⟩ := hc
      have hnl : lastEq p (p.stages - 1) = false := by simp [lastEq, hne]
      have hj : i < (partsOut p (p.stages - 1)).length := by
        rw [partsOut_length_nonlast p _ hnl]; exact Nat.lt_of_lt_of_le hi hle
      have := staged_out_def p (p.stages - 1) (by omega) i hj
      rw [stageName_nonlast p _ hnl] at this
      rw [this]
      rfl
    · cases h
  | _ => exact nomatch h

theorem stagedRank_out (p : Params) (s j : Nat) (hs : s < p.stages) :
    stagedRank p (.out (stageName p s) j) = 4 * s + 4 := by
  simp only [stagedRank, stageOf_stageName p s hs]

theorem staged_ranked (p : Params) : Ranked (stagedTask p) (stagedRank p) := by
  intro k t h d hd hdef
  cases k with
  | out n j =>
    simp only [stagedTask] at h
    split at h
    · rename_i s hso
      split at h
      · cases h
        simp only [Tsk.refs, List.mem_map, List.mem_range] at hd
        obtain ⟨i, _, rfl⟩ := hd
        simp [stagedRank, hso]
      · cases h
    · rename_i hso
      split at h
      · split at h
        · cases h
          simp only [Tsk.refs, List.mem_singleton] at hd
          subst hd
          simp [stagedRank, hso]
        · cases h
      · cases h
  | split n idx inp =>
    simp only [stagedTask] at h
    split at h
    · split at h
      · cases h
        simp only [Tsk.refs, List.mem_singleton] at hd
        subst hd
        simp [stagedRank]
      · cases h
    · cases h
  | group n inp =>
    simp only [stagedTask] at h
    split at h
    · rename_i s hso
      obtain ⟨rfl, hs⟩ := stageOf_some p n s hso
      split at h
      · cases h
        simp only [Tsk.refs, List.mem_singleton] at hd
        subst hd
        by_cases h0 : s = 0
        · subst h0
          by_cases hn : num p.nsplits inp < p.nin
          · simp only [hn, if_true] at hdef
            exact nomatch hdef
          · simp [hn, stagedRank]
        · simp only [h0, if_false]
          rw [stagedRank_out p (s - 1) _ (by omega)]
          simp only [stagedRank, hso, Option.getD_some]
          omega
      · cases h
    · cases h
  | empty n inp =>
    simp only [stagedTask] at h
    split at h
    · split at h
      · cases h; exact nomatch hd
      · cases h
    · cases h
  | rgroup n i =>
    simp only [stagedTask] at h
    split at h
    · rename_i hc
      cases h
      simp only [Tsk.refs, List.mem_singleton] at hd
      subst hd
      obtain ⟨hne, hs1, rfl, _⟩ := hc
      have hnl : lastEq p (p.stages - 1) = false := by simp [lastEq, hne]
      have := stagedRank_out p (p.stages - 1) i (by omega)
      rw [stageName_nonlast p _ hnl] at this
      rw [this]
      simp only [stagedRank]
      omega
    · cases h
  | _ => exact nomatch h

/-! ### the hypotheses are satisfiable (3-stage filtered shuffle; 2-stage shuffle with regrouping) -/
example (rows : Nat → List Row) : Closed (stagedTask C12Ex.pEq) (inputs rows) :=
  staged_closed C12Ex.pEq rows (by decide) (by decide)
example (rows : Nat → List Row) : Closed (stagedTask C12Ex.pNe) (inputs rows) :=
  staged_closed C12Ex.pNe rows (by decide) (by decide)

end Dx
