/-
  Lemmas/FragAssign.lean — soundness of the Assign rules of the fragment: `Assign._simplify_up` (from `C04_assign_wf`,
  `C04_assign_values`) and `Assign._simplify_down` (nested Assigns become one), and of `Projection._simplify_down`
  (from `C04_projdown_*`).
-/
import DxModel.Lemmas.FragRules
namespace Dx.Frag
open Dx Dx.Cols

variable {γ ι : Type}

/-! ### nodes with a frame and further operands -/

theorem map_some_cons {α : Type} {l : List (Option α)} {vs : List α} {x : Option α} (h : x :: l = vs.map some) :
    ∃ v vs', vs = v :: vs' ∧ x = some v ∧ l = vs'.map some := by
  cases vs with
  | nil => cases h
  | cons v vs' =>
    simp only [List.map_cons, List.cons.injEq] at h
    exact ⟨v, vs', rfl, h.1, h.2⟩

theorem den_cons_some {I : Interp γ ι} {e x : Expr} {rest : List Expr} {v : FVal γ} (ha : e.args = x :: rest)
    (h : den I e = some v) :
    ∃ vx vs, den I x = some vx ∧ rest.map (den I) = vs.map some ∧ semOp I e.op (vx :: vs) = some v := by
  obtain ⟨ws, hws, hs⟩ := den_some h
  rw [ha, List.map_cons] at hws
  obtain ⟨vx, vs, rfl, hx, hr⟩ := map_some_cons hws
  exact ⟨vx, vs, hx, hr, hs⟩

theorem den_cons_of {I : Interp γ ι} {e x : Expr} {rest : List Expr} {vx : FVal γ} {vs : List (FVal γ)}
    (ha : e.args = x :: rest) (hx : den I x = some vx) (hr : rest.map (den I) = vs.map some) :
    den I e = semOp I e.op (vx :: vs) := by
  apply den_of_args
  rw [ha, List.map_cons, hx, hr]; rfl

theorem map_fst_zip' {α β : Type} : ∀ (l : List α) (r : List β), l.length = r.length → (l.zip r).map (·.1) = l
  | [], [], _ => rfl
  | a :: l, b :: r, h => by
    simp only [List.zip_cons_cons, List.map_cons]
    rw [map_fst_zip' l r (by simpa using h)]
  | [], _ :: _, h => by cases h
  | _ :: _, [], h => by cases h

theorem semOp_assign_iff (I : Interp γ ι) (keys : List Name) (F : FVal γ) (vs : List (FVal γ)) (v : FVal γ) :
    semOp I (.assign keys) (F :: vs) = some v ↔
      F.ser = false ∧ (∀ w, w ∈ vs → w.ser = true) ∧ keys.length = vs.length ∧
        v = ⟨assignFrame (keys.zip (vs.map (FVal.col I))) F.fr, false⟩ := by
  have hsch : schOp (.assign keys) ((F :: vs).map FVal.sch) =
      if (!F.ser && (vs.map FVal.sch).all (·.ser) && keys.length == (vs.map FVal.sch).length) = true
        then some ⟨assignCols keys F.fr.cols, false⟩ else none := rfl
  have hcond : (!F.ser && (vs.map FVal.sch).all (·.ser) && keys.length == (vs.map FVal.sch).length) = true ↔
      F.ser = false ∧ (∀ w, w ∈ vs → w.ser = true) ∧ keys.length = vs.length := by
    simp only [Bool.and_eq_true, Bool.not_eq_true', List.all_eq_true, List.mem_map, forall_exists_index, and_imp,
      forall_apply_eq_imp_iff₂, List.length_map, beq_iff_eq, and_assoc]
    rfl
  have hval : ∀ (hl : keys.length = vs.length), schOp (.assign keys) ((F :: vs).map FVal.sch) = some ⟨assignCols keys F.fr.cols, false⟩ →
      semOp I (.assign keys) (F :: vs) = some ⟨assignFrame (keys.zip (vs.map (FVal.col I))) F.fr, false⟩ := by
    intro hl hs
    have hk : (keys.zip (vs.map (FVal.col I))).map (·.1) = keys := map_fst_zip' _ _ (by simpa using hl)
    have hc : (frameOp I (.assign keys) (F :: vs)).cols = assignCols keys F.fr.cols := by
      show assignCols ((keys.zip (vs.map (FVal.col I))).map (·.1)) F.fr.cols = _
      rw [hk]
    exact semOp_eq hs hc (normal_assignFrame _ _)
  constructor
  · intro h
    obtain ⟨s, hs, _⟩ := semOp_some h
    rw [hsch] at hs
    obtain ⟨hc, _⟩ := ite_some hs
    obtain ⟨h1, h2, h3⟩ := hcond.mp hc
    have hs' : schOp (.assign keys) ((F :: vs).map FVal.sch) = some ⟨assignCols keys F.fr.cols, false⟩ := by
      rw [hsch, if_pos hc]
    rw [hval h3 hs'] at h
    exact ⟨h1, h2, h3, (Option.some.inj h).symm⟩
  · rintro ⟨h1, h2, h3, h4⟩
    have hs' : schOp (.assign keys) ((F :: vs).map FVal.sch) = some ⟨assignCols keys F.fr.cols, false⟩ := by
      rw [hsch, if_pos (hcond.mpr ⟨h1, h2, h3⟩)]
    rw [hval h3 hs', h4]

/-! ### `Projection._simplify_down` -/

theorem projDown_ident {fc : List Name} {same : Bool} {self : Sel} {inner : Option Sel}
    (h : projDown fc same self inner = .ident) : fc = self.toList ∧ same = true := by
  unfold projDown at h
  split at h
  · rename_i hc
    simp only [Bool.and_eq_true, decide_eq_true_eq] at hc
    exact hc
  · cases inner with
    | none => cases h
    | some i =>
      cases i with
      | one _ => cases h
      | many a =>
        cases self with
        | many b => simp only at h; split at h <;> cases h
        | one c => simp only at h; split at h <;> cases h

theorem projDown_squash {fc : List Name} {same : Bool} {self b : Sel} {inner : Option Sel}
    (h : projDown fc same self inner = .squash b) :
    ∃ a, inner = some (.many a) ∧ b = self ∧ ∀ c, c ∈ self.toList → c ∈ a := by
  cases inner with
  | none =>
    unfold projDown at h
    split at h <;> cases h
  | some i =>
    cases i with
    | one _ =>
      unfold projDown at h
      split at h <;> cases h
    | many a =>
      obtain ⟨h1, h2⟩ := C04_projdown_squash fc same self a b h
      exact ⟨a, rfl, h1, h2⟩

/-- Projection._simplify_down: the identity selection disappears, `x[a][b]` becomes `x[b]` -/
theorem downProj_sound (I : Interp γ ι) {sel : Sel} {x e o : Expr} (he : e.op = .proj sel) (ha : e.args = [x])
    (h : downProj sel x e = some o) : ∀ v, den I e = some v → den I o = some v := by
  unfold downProj at h
  cases hsx : schemaOf x with
  | none => rw [hsx] at h; cases h
  | some sx =>
    cases hse : schemaOf e with
    | none => rw [hsx, hse] at h; cases h
    | some se =>
      rw [hsx, hse] at h
      simp only at h
      intro v hv
      have hv0 := hv
      rw [den_args1 I ha, he] at hv
      obtain ⟨vx, hvx, hv⟩ := bind_eq_some' hv
      obtain ⟨hser, hnd, hsub, hv⟩ := (semOp_proj_iff I sel vx v).mp hv
      have hsx' := schema_of_den hvx hsx
      have hse' := schema_of_den hv0 hse
      subst hsx'; subst hse'
      split at h
      · -- identity
        rename_i hid
        cases h
        obtain ⟨hc, hs⟩ := projDown_ident hid
        have hcols : vx.fr.cols = sel.toList := hc
        have hser' : v.sch.ser = vx.sch.ser := by
          have : (v.sch.ser == vx.sch.ser) = true := hs
          simpa using this
        rw [hvx, hv]
        have e1 : vx.fr.select sel.toList = vx.fr := by rw [← hcols]; exact select_self (den_normal hvx)
        have e2 : Sel.isOne sel = vx.ser := by rw [hv] at hser'; exact hser'
        rw [e1, e2]
      · -- squash
        rename_i b hsq
        obtain ⟨a, hinner, hb, hba⟩ := projDown_squash hsq
        subst hb
        -- the frame is itself a projection `y[a]`
        split at hinner
        · rename_i a' y' hxop hxargs
          cases hinner
          rw [hxargs] at h
          simp only at h
          cases h
          rw [den_args1 I hxargs, hxop] at hvx
          obtain ⟨vy, hvy, hvx'⟩ := bind_eq_some' hvx
          obtain ⟨hyser, _, hasub, hvx'⟩ := (semOp_proj_iff I (.many a) vy vx).mp hvx'
          subst hvx'
          rw [den_proj_some hvy hyser hnd (fun c hc => hasub c (hba c hc)), hv]
          congr 2
          apply select_congr
          intro c hc
          exact (select_val_mem (hba c hc)).symm
        · cases hinner
      · cases h

/-! ### `Assign._simplify_down` -/

theorem dedupFirst_append : ∀ (a b : List Name),
    dedupFirst (a ++ b) = dedupFirst a ++ (dedupFirst b).filter (fun y => !a.contains y)
  | [], b => by
    simp only [List.nil_append, dedupFirst]
    exact (List.filter_eq_self.mpr (fun _ _ => rfl)).symm
  | x :: a, b => by
    simp only [List.cons_append, dedupFirst, dedupFirst_append a b, List.filter_append, List.filter_filter]
    congr 2
    apply List.filter_congr
    intro y _
    by_cases hy : y = x
    · subst hy; simp
    · have : (y != x) = true := by simpa using hy
      simp [this, hy]

theorem contains_filter_fd (k0 f : List Name) (y : Name) :
    ((dedupFirst k0).filter (fun k => !f.contains k)).contains y = (k0.contains y && !f.contains y) := by
  rw [Bool.eq_iff_iff]
  simp only [List.mem_filter, mem_dedupFirst, Bool.and_eq_true, Bool.not_eq_true',
    List.contains_eq_mem, decide_eq_true_eq, decide_eq_false_iff_not]

theorem assignCols_assignCols (k k0 f : List Name) : assignCols k (assignCols k0 f) = assignCols (k0 ++ k) f := by
  unfold assignCols assignLabels
  rw [dedupFirst_append, List.filter_append, List.append_assoc]
  congr 2
  rw [List.filter_filter]
  apply List.filter_congr
  intro y _
  rw [List.contains_append, contains_filter_fd]
  cases f.contains y <;> cases k0.contains y <;> rfl

theorem find?_key_some {kv : List (Name × γ)} {c : Name} (h : (kv.map (·.1)).contains c = true) :
    ∃ e, kv.reverse.find? (fun e => e.1 == c) = some e := by
  rw [List.contains_iff_mem, List.mem_map] at h
  obtain ⟨e, he, hec⟩ := h
  cases hf : kv.reverse.find? (fun e => e.1 == c) with
  | some e' => exact ⟨e', rfl⟩
  | none =>
    rw [List.find?_eq_none] at hf
    exact absurd (by simp [hec]) (hf e (List.mem_reverse.mpr he))

theorem find?_key_none {kv : List (Name × γ)} {c : Name} (h : (kv.map (·.1)).contains c = false) :
    kv.reverse.find? (fun e => e.1 == c) = none := by
  rw [List.find?_eq_none]
  intro e he hec
  have : c ∈ kv.map (·.1) := List.mem_map.mpr ⟨e, List.mem_reverse.mp he, by simpa using hec⟩
  rw [List.contains_iff_mem.mpr this] at h
  cases h

/-- assigning twice = assigning the concatenated pairs -/
theorem assignFrame_assignFrame (kv0 kv : List (Name × γ)) (F : Frame γ) :
    assignFrame kv (assignFrame kv0 F) = assignFrame (kv0 ++ kv) F := by
  have hcols : (assignFrame kv (assignFrame kv0 F)).cols = (assignFrame (kv0 ++ kv) F).cols := by
    show assignCols (kv.map (·.1)) (assignCols (kv0.map (·.1)) F.cols) = assignCols ((kv0 ++ kv).map (·.1)) F.cols
    rw [assignCols_assignCols, List.map_append]
  refine frame_ext hcols (normal_assignFrame _ _) (normal_assignFrame _ _) ?_
  intro c hc
  have hc1 : (assignCols (kv.map (·.1)) (assignFrame kv0 F).cols).contains c = true :=
    List.contains_iff_mem.mpr hc
  have hc2 : (assignCols ((kv0 ++ kv).map (·.1)) F.cols).contains c = true := by
    have : c ∈ (assignFrame (kv0 ++ kv) F).cols := by rw [← hcols]; exact hc
    exact List.contains_iff_mem.mpr this
  show (if (assignCols (kv.map (·.1)) (assignFrame kv0 F).cols).contains c = true then _ else none) =
    (if (assignCols ((kv0 ++ kv).map (·.1)) F.cols).contains c = true then _ else none)
  rw [if_pos hc1, if_pos hc2, List.reverse_append, List.find?_append, List.map_append, List.contains_append]
  by_cases hk : (kv.map (·.1)).contains c = true
  · obtain ⟨e, he⟩ := find?_key_some hk
    simp only [hk, if_true, Bool.or_true, he]
    rfl
  · have hk' : (kv.map (·.1)).contains c = false := by simpa using hk
    rw [find?_key_none hk']
    simp only [hk', Bool.false_eq_true, if_false, Bool.or_false, Option.none_or]
    -- the inner assignment: `c` is one of its labels
    have hin : (assignCols (kv0.map (·.1)) F.cols).contains c = true := by
      have := mem_assignCols.mp hc
      rcases this with h | h
      · exact List.contains_iff_mem.mpr h
      · rw [List.contains_iff_mem.mpr h] at hk'; cases hk'
    show (if (assignCols (kv0.map (·.1)) F.cols).contains c = true then _ else none) = _
    rw [if_pos hin]

theorem zip_append' {α β : Type} : ∀ (a : List α) (b : List β) (c : List α) (d : List β), a.length = b.length →
    (a ++ c).zip (b ++ d) = a.zip b ++ c.zip d
  | [], [], _, _, _ => rfl
  | x :: a, y :: b, c, d, h => by
    simp only [List.cons_append, List.zip_cons_cons]
    rw [zip_append' a b c d (by simpa using h)]
  | [], _ :: _, _, _, h => by cases h
  | _ :: _, [], _, _, h => by cases h

theorem map_some_append {α : Type} {l1 l2 : List (Option α)} {v1 v2 : List α} (h1 : l1 = v1.map some)
    (h2 : l2 = v2.map some) : l1 ++ l2 = (v1 ++ v2).map some := by
  rw [h1, h2, List.map_append]

theorem map_some_length {α : Type} {β : Type} {l : List β} {f : β → Option α} {vs : List α} (h : l.map f = vs.map some) :
    l.length = vs.length := by
  have := congrArg List.length h
  simpa using this

/-- Assign._simplify_down -/
theorem downAssign_sound (I : Interp γ ι) {keys : List Name} {x e o : Expr} {vals : List Expr} (he : e.op = .assign keys)
    (ha : e.args = x :: vals) (h : downAssign keys x vals = some o) : ∀ v, den I e = some v → den I o = some v := by
  unfold downAssign at h
  split at h
  · rename_i keys0 x0 vals0 hxop hxargs
    split at h
    · cases h
    · cases h
      intro v hv
      obtain ⟨vx, vvs, hvx, hvvs, hs⟩ := den_cons_some ha hv
      rw [he] at hs
      obtain ⟨_, hsers, hlen, hvv⟩ := (semOp_assign_iff I keys vx vvs v).mp hs
      obtain ⟨v0, vvs0, hv0, hvvs0, hs0⟩ := den_cons_some hxargs hvx
      rw [hxop] at hs0
      obtain ⟨hser0, hsers0, hlen0, hvx'⟩ := (semOp_assign_iff I keys0 v0 vvs0 vx).mp hs0
      subst hvx'
      have hargs : (mk (.assign (keys0 ++ keys)) (x0 :: (vals0 ++ vals))).args = x0 :: (vals0 ++ vals) := rfl
      rw [den_cons_of hargs hv0 (vs := vvs0 ++ vvs) (by rw [List.map_append]; exact map_some_append hvvs0 hvvs), mk_op]
      rw [(semOp_assign_iff I _ v0 _ _).mpr ⟨hser0, ?_, ?_, rfl⟩, hvv]
      · congr 2
        rw [List.map_append, zip_append' _ _ _ _ (by simpa using hlen0), assignFrame_assignFrame]
      · intro w hw
        rcases List.mem_append.mp hw with h1 | h1
        · exact hsers0 w h1
        · exact hsers w h1
      · simp only [List.length_append, hlen0, hlen]
  · cases h

/-! ### `Assign._simplify_up` -/

/-- filtering the (key, value expression) pairs by key commutes with taking the values' denotations -/
theorem zip_filter_den (I : Interp γ ι) (q : Name → Bool) : ∀ (keys : List Name) (vals : List Expr) (vvs : List (FVal γ)),
    vals.map (den I) = vvs.map some →
    (((keys.zip vals).filter (fun e => q e.1)).map (·.2)).map (den I) =
        (((keys.zip vvs).filter (fun e => q e.1)).map (·.2)).map some ∧
    ((keys.zip vals).filter (fun e => q e.1)).map (·.1) = ((keys.zip vvs).filter (fun e => q e.1)).map (·.1)
  | [], _, _, _ => by simp
  | _ :: _, [], [], _ => by simp
  | _ :: _, [], _ :: _, h => by simp at h
  | _ :: _, _ :: _, [], h => by simp at h
  | k :: keys, x :: vals, v :: vvs, h => by
    simp only [List.map_cons, List.cons.injEq] at h
    obtain ⟨ih1, ih2⟩ := zip_filter_den I q keys vals vvs h.2
    simp only [List.zip_cons_cons, List.filter_cons]
    by_cases hq : q k = true
    · simp only [hq, if_true, List.map_cons, h.1, ih1, ih2, and_self]
    · simp only [hq, Bool.false_eq_true, if_false, ih1, ih2, and_self]

theorem zip_map_filter {α β : Type} (f : α → β) (q : Name → Bool) : ∀ (keys : List Name) (l : List α),
    (((keys.zip l).filter (fun e => q e.1)).map (·.1)).zip ((((keys.zip l).filter (fun e => q e.1)).map (·.2)).map f) =
      (keys.zip (l.map f)).filter (fun e => q e.1)
  | [], _ => by simp
  | _ :: _, [] => by simp
  | k :: keys, a :: l => by
    simp only [List.zip_cons_cons, List.filter_cons, List.map_cons]
    by_cases hq : q k = true
    · simp only [hq, if_true, List.map_cons, List.zip_cons_cons, zip_map_filter f q keys l]
    · simp only [hq, Bool.false_eq_true, if_false, zip_map_filter f q keys l]

theorem mem_filter_zip_snd {α : Type} (q : Name → Bool) : ∀ (keys : List Name) (l : List α) (w : α),
    w ∈ ((keys.zip l).filter (fun e => q e.1)).map (·.2) → w ∈ l := by
  intro keys l w h
  obtain ⟨e, he, rfl⟩ := List.mem_map.mp h
  exact (List.of_mem_zip (List.mem_filter.mp he).1).2

/-- Assign: `Projection(Assign(x, k…, v…), sel)` → `Projection(x, sel)` when no key is requested, else
    `Projection(Assign(x[child], surviving k…, v…), sel)` -/
theorem upAssign_sound (I : Interp γ ι) {keys : List Name} {x c p o : Expr} {vals : List Expr} {d : Deps}
    (hc : c.op = .assign keys) (ha : c.args = x :: vals) (h : upAssign keys x vals c p d = some o) :
    ∀ v, den I p = some v → den I o = some v := by
  unfold upAssign at h
  cases hpo : projOver p c with
  | none => rw [hpo] at h; cases h
  | some sel =>
    cases hsx : schemaOf x with
    | none => rw [hpo, hsx] at h; cases h
    | some sx =>
      rw [hpo, hsx] at h
      simp only at h
      cases hr : assign sx.cols keys (parentOf sel) (depsOf d c) with
      | none => rw [hr] at h; cases h
      | some rw =>
        rw [hr] at h
        simp only at h
        intro v hv
        obtain ⟨vc, hvc, _, hnd, hsub, rfl⟩ := projOver_den hpo hv
        obtain ⟨vx, vvs, hvx, hvvs, hs⟩ := den_cons_some ha hvc
        rw [hc] at hs
        obtain ⟨hxser, hsers, hlen, hvc'⟩ := (semOp_assign_iff I keys vx vvs vc).mp hs
        subst hvc'
        have hsx' := schema_of_den hvx hsx
        subst hsx'
        have hxc : vx.sch.cols = vx.fr.cols := rfl
        rw [hxc] at hr
        -- the (key, column) pairs of the original node
        have hkv : (keys.zip (vvs.map (FVal.col I))).map (·.1) = keys := map_fst_zip' _ _ (by simpa using hlen)
        have hr' : assign vx.fr.cols ((keys.zip (vvs.map (FVal.col I))).map (·.1)) (parentOf sel) (depsOf d c) = some rw := by
          rw [hkv]; exact hr
        have hsub' : ∀ y, y ∈ sel.toList → y ∈ vx.fr.cols ∨ y ∈ keys := by
          intro y hy
          have := hsub y hy
          have : y ∈ assignCols ((keys.zip (vvs.map (FVal.col I))).map (·.1)) vx.fr.cols := this
          rw [hkv] at this
          exact mem_assignCols.mp this
        have hvals := fun y (hy : y ∈ sel.toList) =>
          C04_assign_values assignA (keys.zip (vvs.map (FVal.col I))) vx.fr (parentOf sel) (depsOf d c) rw hr' y
            (by rw [parentOf_cols]; exact hy)
            ((mem_assignRaw_cols _ _ y).mpr (hsub y hy))
        obtain ⟨_, hcase⟩ := C04_assign_wf vx.fr.cols keys (parentOf sel) (depsOf d c) rw hr
        rcases hcase with ⟨hgone, hno⟩ | ⟨hgone, newKeys, child, hkeys, hch, hnk1, hnk2, had⟩
        · -- the Assign disappears
          rw [hgone] at h
          simp only [if_true] at h
          cases h
          rw [parentOf_cols] at hno
          have hreq : ∀ y, y ∈ sel.toList → y ∈ vx.fr.cols := by
            intro y hy
            rcases hsub' y hy with h1 | h1
            · exact h1
            · exact absurd hy (hno y h1)
          rw [den_proj_some hvx hxser hnd hreq]
          congr 2
          apply select_congr
          intro y hy
          have := hvals y hy
          simp only [evalAssign, hgone, if_true, parentOf_cols] at this
          rw [select_val_mem hy, select_val_mem hy] at this
          rw [this]
          exact (assignFrame_val _ _ y (hsub y hy)).symm
        · -- the used keys survive
          rw [hgone, hch, hkeys] at h
          simp only [Bool.false_eq_true, if_false] at h
          cases h
          rw [parentOf_cols] at hnk2 had
          have hpx := den_proj_some (s := .many child) hvx hxser (had.nodup (den_nodup hvx)) had.sub
          obtain ⟨hz1, hz2⟩ := zip_filter_den I newKeys.contains keys vals vvs hvvs
          have hargs : (mk (.assign (((keys.zip vals).filter (fun e => newKeys.contains e.1)).map (·.1)))
              (proj (.many child) x :: ((keys.zip vals).filter (fun e => newKeys.contains e.1)).map (·.2))).args =
              proj (.many child) x :: ((keys.zip vals).filter (fun e => newKeys.contains e.1)).map (·.2) := rfl
          have hnew : den I (mk (.assign (((keys.zip vals).filter (fun e => newKeys.contains e.1)).map (·.1)))
              (proj (.many child) x :: ((keys.zip vals).filter (fun e => newKeys.contains e.1)).map (·.2))) =
              some ⟨assignFrame ((keys.zip (vvs.map (FVal.col I))).filter (fun e => newKeys.contains e.1))
                (vx.fr.select child), false⟩ := by
            rw [den_cons_of hargs hpx hz1, mk_op, hz2]
            rw [(semOp_assign_iff I _ _ _ _).mpr ⟨rfl, ?_, ?_, rfl⟩]
            · congr 3
              exact zip_map_filter (FVal.col I) newKeys.contains keys vvs
            · intro w hw
              exact hsers w (mem_filter_zip_snd _ _ _ w hw)
            · simp only [List.length_map]
          -- labels of the new Assign
          have hkf : ((keys.zip (vvs.map (FVal.col I))).filter (fun e => newKeys.contains e.1)).map (·.1) =
              keys.filter (newKeys.contains ·) := by
            have : ∀ (ks : List Name) (l : List γ), ks.length = l.length →
                ((ks.zip l).filter (fun e => newKeys.contains e.1)).map (·.1) = ks.filter (newKeys.contains ·) := by
              intro ks
              induction ks with
              | nil => intro l _; simp
              | cons k ks ih =>
                intro l hl
                cases l with
                | nil => cases hl
                | cons a l =>
                  simp only [List.zip_cons_cons, List.filter_cons]
                  by_cases hq : newKeys.contains k = true
                  · simp only [hq, if_true, List.map_cons, ih l (by simpa using hl)]
                  · simp only [hq, Bool.false_eq_true, if_false, ih l (by simpa using hl)]
            exact this keys _ (by simpa using hlen)
          have hreq : ∀ y, y ∈ sel.toList →
              y ∈ assignCols (((keys.zip (vvs.map (FVal.col I))).filter (fun e => newKeys.contains e.1)).map (·.1)) child := by
            intro y hy
            rw [hkf, mem_assignCols]
            by_cases hyk : y ∈ keys
            · right
              exact List.mem_filter.mpr ⟨hyk, List.contains_iff_mem.mpr (hnk2 y hyk hy)⟩
            · left
              rcases hsub' y hy with h1 | h1
              · apply had.req y _ h1
                rw [List.mem_filter]
                exact ⟨hy, by simpa using hyk⟩
              · exact absurd h1 hyk
          rw [den_proj_some hnew rfl hnd hreq]
          congr 2
          apply select_congr
          intro y hy
          have := hvals y hy
          simp only [evalAssign, hgone, hch, hkeys, Option.getD_some, Sel.toList_many, Bool.false_eq_true, if_false,
            parentOf_cols] at this
          rw [select_val_mem hy, select_val_mem hy] at this
          rw [assignFrame_val _ _ y (hreq y hy), assignFrame_val _ _ y (hsub y hy)]
          exact this

end Dx.Frag
