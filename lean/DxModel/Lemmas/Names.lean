/-
  Lemmas/Names.lean — injectivity of Merkle names by structural induction over all trees.
-/
import DxModel.Names
namespace Dx.Names

variable {L τ : Type}

theorem keepIdx_nil (i : Nat) (cs : List (Canon L)) : keepIdx [] i cs = cs := by
  induction cs generalizing i with
  | nil => rfl
  | cons x xs ih => simp [keepIdx, ih]

theorem length_canonOps (S : Scheme L τ) (l : List (Operand L)) : (canonOps S l).length = l.length := by
  induction l with
  | nil => rfl
  | cons o os ih => simp [canonOps, ih]

theorem tokenInput_plain {r : Rule} (h : plain r = true) (c : L) (x : Canon L) (cs : List (Canon L)) :
    tokenInput r c x cs = cs := by
  simp only [plain, Bool.and_eq_true, Bool.not_eq_true', List.isEmpty_iff] at h
  obtain ⟨⟨h1, h2⟩, h3⟩ := h
  simp [tokenInput, h1, h2, h3, keepIdx_nil]

/-- same class, nothing dropped: equal token inputs have equal operand lists -/
theorem tokenInput_inj_same {r : Rule} (h : ownComplete r = true) (c : L) (x₁ x₂ : Canon L)
    (cs₁ cs₂ : List (Canon L)) (he : tokenInput r c x₁ cs₁ = tokenInput r c x₂ cs₂) : cs₁ = cs₂ := by
  simp only [ownComplete, List.isEmpty_iff] at h
  simp only [tokenInput, h, keepIdx_nil] at he
  have hl : ((if r.clsInTok then [Canon.lit c] else []) ++ (if r.extra then [x₁] else [])).length
      = ((if r.clsInTok then [Canon.lit c] else []) ++ (if r.extra then [x₂] else [])).length := by
    cases r.clsInTok <;> cases r.extra <;> simp
  exact (List.append_inj he hl).2

theorem arityDisjoint_spec {r₁ r₂ : Rule} (h : arityDisjoint r₁ r₂ = true) (n : Nat)
    (h₁ : arityOK r₁ n = true) (h₂ : arityOK r₂ n = true) : False := by
  unfold arityDisjoint at h
  unfold arityOK at h₁ h₂
  cases hv₁ : r₁.variadic <;> cases hv₂ : r₂.variadic <;> simp [hv₁, hv₂] at h h₁ h₂ <;> omega

/-- different classes that are `separated` never agree on prefix and token input -/
theorem separated_spec (S : Scheme L τ) (hcls : ∀ a b, S.clsCode a = S.clsCode b → a = b) {c₁ c₂ : Nat} (hne : c₁ ≠ c₂)
    (hs : separated (S.rules c₁) (S.rules c₂) = true) (cs₁ cs₂ : List (Canon L))
    (ha₁ : arityOK (S.rules c₁) cs₁.length = true) (ha₂ : arityOK (S.rules c₂) cs₂.length = true)
    (hp : prefixOf S c₁ cs₁ = prefixOf S c₂ cs₂)
    (ht : tokenInput (S.rules c₁) (S.clsCode c₁) (S.extraTok c₁ cs₁) cs₁
        = tokenInput (S.rules c₂) (S.clsCode c₂) (S.extraTok c₂ cs₂) cs₂) :
    False := by
  simp only [separated, Bool.or_eq_true, Bool.and_eq_true] at hs
  rcases hs with (hs | hs) | hs
  · -- constant prefixes differ
    unfold constPfxDiffer at hs
    unfold prefixOf at hp
    cases h₁ : (S.rules c₁).pfxConst with
    | none => simp [h₁] at hs
    | some p =>
      cases h₂ : (S.rules c₂).pfxConst with
      | none => simp [h₁, h₂] at hs
      | some q =>
        simp only [h₁, h₂] at hs hp
        subst hp
        simp at hs
  · -- both tokenize their class name first
    simp only [tokenInput, hs.1, hs.2, if_true, List.cons_append, List.nil_append, List.cons.injEq,
      Canon.lit.injEq] at ht
    exact hne (hcls _ _ ht.1)
  · -- both plain, operand counts can never coincide
    obtain ⟨⟨hp₁, hp₂⟩, hd⟩ := hs
    rw [tokenInput_plain hp₁, tokenInput_plain hp₂] at ht
    subst ht
    exact arityDisjoint_spec hd _ ha₁ ha₂

mutual
theorem injE (S : Scheme L τ) (good : Nat → Prop)
    (htok : ∀ a b, S.token a = S.token b → a = b) (hcode : ∀ a b, S.nameCode a = S.nameCode b → a = b)
    (hcls : ∀ a b, S.clsCode a = S.clsCode b → a = b)
    (hrule : NameRuleComplete S good) :
    ∀ e₁ e₂ : E L, AdmE S good e₁ → AdmE S good e₂ → nameOf S e₁ = nameOf S e₂ → e₁ = e₂
  | .node c₁ o₁, .node c₂ o₂, h₁, h₂, h => by
    simp only [nameOf, Name.mk.injEq] at h
    obtain ⟨hp, ht⟩ := h
    have ht := htok _ _ ht
    simp only [AdmE] at h₁ h₂
    obtain ⟨g₁, a₁, ad₁⟩ := h₁
    obtain ⟨g₂, a₂, ad₂⟩ := h₂
    by_cases hc : c₁ = c₂
    · subst hc
      have hcs := tokenInput_inj_same (hrule.1 c₁ g₁) _ _ _ _ _ ht
      rw [injOps S good htok hcode hcls hrule o₁ o₂ ad₁ ad₂ hcs]
    · exfalso
      refine separated_spec S hcls hc (hrule.2 c₁ c₂ g₁ g₂ hc) _ _ ?_ ?_ hp ht
      · rw [length_canonOps]; exact a₁
      · rw [length_canonOps]; exact a₂
theorem injO (S : Scheme L τ) (good : Nat → Prop)
    (htok : ∀ a b, S.token a = S.token b → a = b) (hcode : ∀ a b, S.nameCode a = S.nameCode b → a = b)
    (hcls : ∀ a b, S.clsCode a = S.clsCode b → a = b)
    (hrule : NameRuleComplete S good) :
    ∀ o₁ o₂ : Operand L, AdmO S good o₁ → AdmO S good o₂ → canon S o₁ = canon S o₂ → o₁ = o₂
  | .lit a, .lit b, _, _, h => by
      simp only [canon, Canon.lit.injEq] at h; rw [h]
  | .lit a, .sub e, h₁, _, h => by
      simp only [canon, Canon.lit.injEq] at h
      simp only [AdmO] at h₁
      exact absurd h (h₁ _)
  | .sub e, .lit a, _, h₂, h => by
      simp only [canon, Canon.lit.injEq] at h
      simp only [AdmO] at h₂
      exact absurd h.symm (h₂ _)
  | .sub a, .sub b, h₁, h₂, h => by
      simp only [canon, Canon.lit.injEq] at h
      simp only [AdmO] at h₁ h₂
      rw [injE S good htok hcode hcls hrule a b h₁ h₂ (hcode _ _ h)]
  | .seq a, .seq b, h₁, h₂, h => by
      simp only [canon, Canon.seq.injEq] at h
      simp only [AdmO] at h₁ h₂
      rw [injOps S good htok hcode hcls hrule a b h₁ h₂ h]
  | .lit _, .seq _, _, _, h => by simp [canon] at h
  | .sub _, .seq _, _, _, h => by simp [canon] at h
  | .seq _, .lit _, _, _, h => by simp [canon] at h
  | .seq _, .sub _, _, _, h => by simp [canon] at h
theorem injOps (S : Scheme L τ) (good : Nat → Prop)
    (htok : ∀ a b, S.token a = S.token b → a = b) (hcode : ∀ a b, S.nameCode a = S.nameCode b → a = b)
    (hcls : ∀ a b, S.clsCode a = S.clsCode b → a = b)
    (hrule : NameRuleComplete S good) :
    ∀ l₁ l₂ : List (Operand L), AdmOps S good l₁ → AdmOps S good l₂ → canonOps S l₁ = canonOps S l₂ → l₁ = l₂
  | [], [], _, _, _ => rfl
  | [], _ :: _, _, _, h => by simp [canonOps] at h
  | _ :: _, [], _, _, h => by simp [canonOps] at h
  | a :: as, b :: bs, h₁, h₂, h => by
      simp only [canonOps, List.cons.injEq] at h
      simp only [AdmOps] at h₁ h₂
      rw [injO S good htok hcode hcls hrule a b h₁.1 h₂.1 h.1, injOps S good htok hcode hcls hrule as bs h₁.2 h₂.2 h.2]
end

/-! ### `separated` is symmetric (the table is checked for ordered pairs only) -/

theorem arityDisjoint_symm (r₁ r₂ : Rule) : arityDisjoint r₁ r₂ = arityDisjoint r₂ r₁ := by
  unfold arityDisjoint
  cases r₁.variadic <;> cases r₂.variadic <;> simp [bne_comm]

theorem separated_symm (r₁ r₂ : Rule) : separated r₁ r₂ = separated r₂ r₁ := by
  unfold separated constPfxDiffer
  rw [arityDisjoint_symm r₁ r₂]
  cases r₁.pfxConst <;> cases r₂.pfxConst <;> simp [bne_comm, Bool.and_comm]

end Dx.Names
