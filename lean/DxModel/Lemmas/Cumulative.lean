/-
  Lemmas/Cumulative.lean — `run (CumulativeFinalize layer) = scan`, for every partition count and
  every partitioning including empty partitions; Closed / Ranked.
-/
import DxModel.Layers.Cumulative
namespace Dx
open Cum

/-- `op` is associative and commutative (`+`, `*`, `max`, `min`) -/
structure CumOp (op : Nat → Nat → Nat) : Prop where
  assoc : ∀ a b c, op (op a b) c = op a (op b c)
  comm : ∀ a b, op a b = op b a

theorem scanFrom_append (op : Nat → Nat → Nat) : ∀ (l₁ l₂ : List Row) (a : Option Nat),
    scanFrom op a (l₁ ++ l₂) = scanFrom op a l₁ ++ scanFrom op (acc op a l₁) l₂ := by
  intro l₁
  induction l₁ with
  | nil => intro l₂ a; cases l₂ <;> cases a <;> simp [scanFrom, acc]
  | cons r t ih =>
    intro l₂ a
    cases a with
    | none => simp [scanFrom, acc, ih]
    | some a => simp [scanFrom, acc, ih]

theorem acc_append (op : Nat → Nat → Nat) : ∀ (l₁ l₂ : List Row) (a : Option Nat),
    acc op a (l₁ ++ l₂) = acc op (acc op a l₁) l₂ := by
  intro l₁
  induction l₁ with
  | nil => intro l₂ a; cases a <;> simp [acc]
  | cons r t ih =>
    intro l₂ a
    cases a with
    | none => simp [acc, ih]
    | some a => simp [acc, ih]

theorem acc_none_eq_none (op : Nat → Nat → Nat) (l : List Row) : acc op none l = none ↔ l = [] := by
  cases l with
  | nil => simp [acc]
  | cons r t =>
    simp only [acc, reduceCtorEq, iff_false]
    have : ∀ (t : List Row) a, acc op (some a) t ≠ none := by
      intro t
      induction t with
      | nil => intro a; simp [acc]
      | cons r t ih => intro a; simp only [acc]; exact ih _
    exact this t _

/-- shifting the start value by `c` shifts the accumulated value by `c` (associativity) -/
theorem acc_some_shift (op : Nat → Nat → Nat) (h : CumOp op) (c : Nat) : ∀ (l : List Row) (a a' : Nat),
    acc op (some a) l = some a' → acc op (some (op c a)) l = some (op c a') := by
  intro l
  induction l with
  | nil => intro a a' e; simp only [acc, Option.some.injEq] at e ⊢; rw [e]
  | cons r t ih =>
    intro a a' e
    simp only [acc] at e ⊢
    rw [h.assoc]
    exact ih _ _ e

theorem acc_some_of_none (op : Nat → Nat → Nat) (h : CumOp op) (c : Nat) (l : List Row) (b : Nat)
    (e : acc op none l = some b) : acc op (some c) l = some (op c b) := by
  cases l with
  | nil => simp [acc] at e
  | cons r t =>
    simp only [acc] at e ⊢
    have h1 : acc op (some r.pay) t = some b := e
    -- acc (some (op c r.pay)) t = op c (acc (some r.pay) t)
    exact acc_some_shift op h c t r.pay b h1

/-- combining every row of a scan with a carry = scanning from the shifted start (assoc + comm) -/
theorem aggRows_scan_some (op : Nat → Nat → Nat) (h : CumOp op) (c : Row) : ∀ (l : List Row) (a : Nat),
    aggRows op (scanFrom op (some a) l) c = scanFrom op (some (op c.pay a)) l := by
  intro l
  induction l with
  | nil => intro a; rfl
  | cons r t ih =>
    intro a
    simp only [scanFrom, aggRows, List.map_cons] at ih ⊢
    have e : op (op a r.pay) c.pay = op (op c.pay a) r.pay := by
      rw [h.comm (op a r.pay) c.pay, h.assoc]
    rw [e, ih (op a r.pay), ← h.assoc]

theorem aggRows_scan_none (op : Nat → Nat → Nat) (h : CumOp op) (c : Row) (l : List Row) :
    aggRows op (scanFrom op none l) c = scanFrom op (some c.pay) l := by
  cases l with
  | nil => rfl
  | cons r t =>
    have := aggRows_scan_some op h c t r.pay
    simp only [scanFrom, aggRows, List.map_cons] at this ⊢
    rw [this, h.comm r.pay c.pay]

/-- a carried value `v` represents the accumulated value `a` -/
def IsCarry (v : V) (a : Option Nat) : Prop :=
  (v = .unit ∧ a = none) ∨ ∃ c : Row, v = .frame [c] ∧ a = some c.pay

theorem scanFrom_ne_nil (op : Nat → Nat → Nat) (a : Option Nat) (r : Row) (t : List Row) :
    scanFrom op a (r :: t) ≠ [] := by
  cases a <;> simp [scanFrom]

theorem scanFrom_getLast (op : Nat → Nat → Nat) : ∀ (l : List Row) (a : Option Nat)
    (hne : scanFrom op a l ≠ []), some ((scanFrom op a l).getLast hne).pay = acc op a l := by
  intro l
  induction l with
  | nil => intro a hne; simp [scanFrom] at hne
  | cons r t ih =>
    intro a hne
    cases t with
    | nil => cases a <;> simp [scanFrom, acc]
    | cons r' t' =>
      cases a with
      | none =>
        simp only [scanFrom, acc]
        have := ih (some r.pay) (scanFrom_ne_nil op _ r' t')
        simp only [scanFrom, acc] at this
        rw [List.getLast_cons (by simp)]
        exact this
      | some a =>
        simp only [scanFrom, acc]
        have := ih (some (op a r.pay)) (scanFrom_ne_nil op _ r' t')
        simp only [scanFrom, acc] at this
        rw [List.getLast_cons (by simp)]
        exact this

/-- `TakeLast` of the per-partition cumulative result carries the accumulated value of the partition -/
theorem takeLast_isCarry (op : Nat → Nat → Nat) (l : List Row) :
    IsCarry (takeLast (cum op l)) (acc op none l) := by
  cases l with
  | nil => left; exact ⟨rfl, rfl⟩
  | cons r t =>
    right
    have hne := scanFrom_ne_nil op none r t
    have hl := scanFrom_getLast op (r :: t) none hne
    unfold cum
    generalize hs : scanFrom op none (r :: t) = s at hne hl
    cases s with
    | nil => exact absurd rfl hne
    | cons r' t' => exact ⟨_, rfl, hl.symm⟩

/-- combining an older carry with the carry of the next partition -/
theorem cumAgg_carry (op : Nat → Nat → Nat) (h : CumOp op) (x y : V) (a : Option Nat) (l : List Row)
    (hx : IsCarry x a) (hy : IsCarry y (acc op none l)) :
    IsCarry (cumAggregateApply op x y) (acc op a l) := by
  rcases hy with ⟨rfl, hn⟩ | ⟨c, rfl, hc⟩
  · have : l = [] := (acc_none_eq_none op l).mp hn
    subst this
    have : cumAggregateApply op x .unit = x := by cases x <;> rfl
    rw [this]; exact hx
  · rcases hx with ⟨rfl, rfl⟩ | ⟨cx, rfl, rfl⟩
    · right; exact ⟨c, rfl, hc⟩
    · right
      refine ⟨{ cx with pay := op cx.pay c.pay }, rfl, ?_⟩
      exact acc_some_of_none op h cx.pay l c.pay hc

/-- combining the per-partition cumulative result with the carry of everything before -/
theorem cumAgg_out (op : Nat → Nat → Nat) (h : CumOp op) (y : V) (a : Option Nat) (l : List Row)
    (hy : IsCarry y a) :
    cumAggregateApply op (.frame (cum op l)) y = .frame (scanFrom op a l) := by
  rcases hy with ⟨rfl, rfl⟩ | ⟨c, rfl, rfl⟩
  · rfl
  · simp only [cumAggregateApply, cum]
    rw [aggRows_scan_none op h]

/-! ### evaluation of the layer -/

theorem cum_run_dep (I : Interp) (op : Nat → Nat → Nat) (n : Nat) (parts : Nat → List Row) (F i : Nat) :
    run I (layer n) (inputs op parts) F (.dep i) = .frame (cum op (parts i)) := by
  rw [run_undefined I (layer n) (inputs op parts) (.dep i) rfl]; rfl

theorem cum_run_prev (I : Interp) (op : Nat → Nat → Nat) (n : Nat) (parts : Nat → List Row) (F i : Nat) :
    run I (layer n) (inputs op parts) F (.prev i) = takeLast (cum op (parts i)) := by
  rw [run_undefined I (layer n) (inputs op parts) (.prev i) rfl]; rfl

theorem before_succ (parts : Nat → List Row) (i : Nat) : before parts (i+1) = before parts i ++ parts i := by
  simp [before, List.range_succ, List.flatMap_append]

/-- the intermediate key `i` carries the accumulated value of all partitions before `i` -/
theorem cum_run_inter (op : Nat → Nat → Nat) (h : CumOp op) (n : Nat) (parts : Nat → List Row) :
    ∀ i, i + 1 < n → ∀ F, i + 1 ≤ F →
      IsCarry (run (interp op) (layer n) (inputs op parts) F (.inter (i+1))) (acc op none (before parts (i+1))) := by
  intro i
  induction i with
  | zero =>
    intro hi F hF
    obtain ⟨F', rfl⟩ : ∃ F', F = F' + 1 := ⟨F - 1, by omega⟩
    have hg : layer n (.inter 1) = some (.alias (.prev 0)) := by simp [layer, hi]
    rw [run_defined _ _ _ F' _ _ hg]
    simp only [evalTsk, cum_run_prev]
    have : before parts 1 = parts 0 := by simp [before]
    rw [this]
    exact takeLast_isCarry op (parts 0)
  | succ i ih =>
    intro hi F hF
    obtain ⟨F', rfl⟩ : ∃ F', F = F' + 1 := ⟨F - 1, by omega⟩
    have hg : layer n (.inter (i+2)) = some (.apply aggFn [.inter (i+1), .prev (i+1)]) := by
      simp [layer, hi]
    rw [run_defined _ _ _ F' _ _ hg]
    simp only [evalTsk, List.map_cons, List.map_nil, cum_run_prev, aggFn, interp]
    rw [before_succ parts (i+1), acc_append]
    exact cumAgg_carry op h _ _ _ _ (ih (by omega) F' (by omega)) (takeLast_isCarry op (parts (i+1)))

/-- output partition `i` is the scan of input partition `i` started from the accumulated value of
    all rows before it -/
theorem cum_run_out (op : Nat → Nat → Nat) (h : CumOp op) (n : Nat) (parts : Nat → List Row)
    (i : Nat) (hi : i < n) (F : Nat) (hF : i + 1 ≤ F) :
    run (interp op) (layer n) (inputs op parts) F (.out i) =
      .frame (scanFrom op (acc op none (before parts i)) (parts i)) := by
  obtain ⟨F', rfl⟩ : ∃ F', F = F' + 1 := ⟨F - 1, by omega⟩
  cases i with
  | zero =>
    rw [run_defined _ _ _ F' _ _ (show layer n (.out 0) = some (.alias (.dep 0)) from rfl)]
    simp only [evalTsk, cum_run_dep]
    rfl
  | succ i =>
    have hg : layer n (.out (i+1)) = some (.apply aggFn [.dep (i+1), .inter (i+1)]) := by
      simp [layer, hi]
    rw [run_defined _ _ _ F' _ _ hg]
    simp only [evalTsk, List.map_cons, List.map_nil, cum_run_dep, aggFn, interp]
    exact cumAgg_out op h _ _ _ (cum_run_inter op h n parts i hi F' (by omega))

/-- concatenating the per-partition scans gives the scan of the concatenation -/
theorem scan_concat (op : Nat → Nat → Nat) (parts : Nat → List Row) (n : Nat) :
    (List.range n).flatMap (fun i => scanFrom op (acc op none (before parts i)) (parts i)) =
      cum op (before parts n) := by
  induction n with
  | zero => rfl
  | succ n ih =>
    rw [List.range_succ, List.flatMap_append, ih, before_succ]
    simp only [List.flatMap_cons, List.flatMap_nil, List.append_nil, cum]
    rw [scanFrom_append]

/-! ### well-formedness -/

def cumRank : Key → Nat
  | .dep _ => 0
  | .prev _ => 0
  | .inter i => i
  | .out i => i + 1

theorem cum_closed (op : Nat → Nat → Nat) (n : Nat) (parts : Nat → List Row) :
    Closed (layer n) (inputs op parts) := by
  intro k t h d hd
  cases k with
  | dep i => cases h
  | prev i => cases h
  | out i =>
    cases i with
    | zero =>
      simp only [layer, Option.some.injEq] at h
      subst h
      simp only [Tsk.refs, List.mem_singleton] at hd
      subst hd; right; rfl
    | succ i =>
      simp only [layer] at h
      split at h
      · rename_i hi
        cases h
        simp only [Tsk.refs, List.mem_cons, List.mem_nil_iff, or_false] at hd
        rcases hd with rfl | rfl
        · right; rfl
        · left
          cases i with
          | zero => simp [layer, hi]
          | succ i => simp [layer, hi]
      · cases h
  | inter i =>
    cases i with
    | zero => cases h
    | succ i =>
      cases i with
      | zero =>
        simp only [layer] at h
        split at h
        · cases h
          simp only [Tsk.refs, List.mem_singleton] at hd
          subst hd; right; rfl
        · cases h
      | succ i =>
        simp only [layer] at h
        split at h
        · rename_i hi
          cases h
          simp only [Tsk.refs, List.mem_cons, List.mem_nil_iff, or_false] at hd
          rcases hd with rfl | rfl
          · left
            cases i with
            | zero => simp [layer]; omega
            | succ i => simp [layer]; omega
          · right; rfl
        · cases h

theorem cum_ranked (n : Nat) : Ranked (layer n) cumRank := by
  intro k t h d hd _
  cases k with
  | dep i => cases h
  | prev i => cases h
  | out i =>
    cases i with
    | zero =>
      simp only [layer, Option.some.injEq] at h
      subst h
      simp only [Tsk.refs, List.mem_singleton] at hd
      subst hd; simp [cumRank]
    | succ i =>
      simp only [layer] at h
      split at h
      · cases h
        simp only [Tsk.refs, List.mem_cons, List.mem_nil_iff, or_false] at hd
        rcases hd with rfl | rfl <;> simp [cumRank]
      · cases h
  | inter i =>
    cases i with
    | zero => cases h
    | succ i =>
      cases i with
      | zero =>
        simp only [layer] at h
        split at h
        · cases h
          simp only [Tsk.refs, List.mem_singleton] at hd
          subst hd; simp [cumRank]
        · cases h
      | succ i =>
        simp only [layer] at h
        split at h
        · cases h
          simp only [Tsk.refs, List.mem_cons, List.mem_nil_iff, or_false] at hd
          rcases hd with rfl | rfl <;> simp [cumRank]
        · cases h

end Dx
