/-
  Lemmas/FusionTask.lean — the sub-graph built by `Fused._task(index)` (nested groups at any position,
  merged without their dependency placeholders; later writes win) binds every ordinary member's key
  to the member's own task, every nested group's keys to the chain leading to its first member, and
  every external key to its placeholder; evaluating it therefore computes what the unfused member
  tasks compute.
-/
import DxModel.FusionCheck
namespace Dx.Fusion
open Dx

/-! ### `lastWrite` -/

theorem lookup_none {β} (k : FKey) : ∀ (l : List (FKey × β)), (∀ b ∈ l, b.1 ≠ k) → l.lookup k = none := by
  intro l
  induction l with
  | nil => intro _; rfl
  | cons a t ih =>
    intro h
    obtain ⟨a1, a2⟩ := a
    have hne : (k == a1) = false := by
      have := h (a1, a2) (by simp)
      simpa using fun e => this e.symm
    simp only [List.lookup_cons, hne]
    exact ih (fun b hb => h b (List.mem_cons_of_mem _ hb))

theorem lookup_all {β} (k : FKey) (t : β) : ∀ (l : List (FKey × β)), (∃ b ∈ l, b.1 = k) →
    (∀ b ∈ l, b.1 = k → b.2 = t) → l.lookup k = some t := by
  intro l
  induction l with
  | nil => intro ⟨b, hb, _⟩ _; cases hb
  | cons a rest ih =>
    intro hex hall
    obtain ⟨a1, a2⟩ := a
    by_cases he : a1 = k
    · have : (k == a1) = true := by simp [he]
      simp only [List.lookup_cons, this]
      exact congrArg some (hall (a1, a2) (by simp) he)
    · have : (k == a1) = false := by simpa using fun e => he e.symm
      simp only [List.lookup_cons, this]
      apply ih
      · obtain ⟨b, hb, hk⟩ := hex
        rcases List.mem_cons.mp hb with rfl | hb
        · exact absurd hk he
        · exact ⟨b, hb, hk⟩
      · exact fun b hb => hall b (List.mem_cons_of_mem _ hb)

theorem lastWrite_append {β} (A B : List (FKey × β)) (k : FKey) :
    lastWrite (A ++ B) k = (lastWrite B k).or (lastWrite A k) := by
  unfold lastWrite
  rw [List.reverse_append, List.lookup_append]

theorem lastWrite_none {β} (ws : List (FKey × β)) (k : FKey) (h : ∀ b ∈ ws, b.1 ≠ k) :
    lastWrite ws k = none := by
  unfold lastWrite
  exact lookup_none k _ (fun b hb => h b (List.mem_reverse.mp hb))

theorem lastWrite_all {β} (ws : List (FKey × β)) (k : FKey) (t : β) (hex : ∃ b ∈ ws, b.1 = k)
    (hall : ∀ b ∈ ws, b.1 = k → b.2 = t) : lastWrite ws k = some t := by
  unfold lastWrite
  apply lookup_all
  · obtain ⟨b, hb, hk⟩ := hex
    exact ⟨b, List.mem_reverse.mpr hb, hk⟩
  · exact fun b hb => hall b (List.mem_reverse.mp hb)

/-- a binding survives appended writes that do not touch its key -/
theorem lastWrite_append_left {β} (A B : List (FKey × β)) (k : FKey) (h : ∀ b ∈ B, b.1 ≠ k) :
    lastWrite (A ++ B) k = lastWrite A k := by
  rw [lastWrite_append, lastWrite_none B k h]
  rfl

theorem lastWrite_append_right {β} (A B : List (FKey × β)) (k : FKey) (t : β)
    (h : lastWrite B k = some t) : lastWrite (A ++ B) k = some t := by
  rw [lastWrite_append, h]
  rfl

/-! ### unfolding the checker -/

theorem plainAt_spec {dag : Dag} {t : Nat} (h : plainAt dag t = true) :
    ∃ tn, getNode dag t = some tn ∧ tn.blockwise = true ∧ tn.members = [] ∧ tn.name = t := by
  unfold plainAt at h
  cases hg : getNode dag t with
  | none => simp [hg] at h
  | some tn =>
    simp only [hg, Bool.and_eq_true, List.isEmpty_iff, beq_iff_eq] at h
    exact ⟨tn, rfl, h.1.1, h.1.2, h.2⟩

structure Level (dag : Dag) (np fuel : Nat) (f : Node) : Prop where
  kall : f.kall = true
  npart : f.npart = np
  nonempty : f.members ≠ []
  member : ∀ m ∈ f.members, m < f.name ∧ ∃ mn, getNode dag m = some mn ∧ mn.blockwise = true ∧ mn.name = m ∧
    (mn.members ≠ [] → levelOK dag np fuel mn = true)
  head : ∃ rn, getNode dag (f.members.headD 0) = some rn ∧ rn.npart = np
  deps_out : ∀ d ∈ f.deps, d ∉ inner dag (fuel+1) f ∧ d ≠ f.name

theorem levelOK_spec {dag : Dag} {np fuel : Nat} {f : Node} (h : levelOK dag np (fuel+1) f = true) :
    Level dag np fuel f := by
  unfold levelOK at h
  simp only [Bool.and_eq_true, Bool.not_eq_true', List.all_eq_true, decide_eq_true_eq, beq_iff_eq,
    decide_eq_false_iff_not] at h
  obtain ⟨⟨⟨⟨⟨⟨_, hk⟩, hnp⟩, hne⟩, hmem⟩, hhead⟩, hdeps⟩ := h
  refine ⟨hk, hnp, ?_, ?_, ?_, ?_⟩
  · intro h0; rw [h0] at hne; simp at hne
  · intro m hm
    obtain ⟨hlt, hrest⟩ := hmem m hm
    refine ⟨hlt, ?_⟩
    cases hg : getNode dag m with
    | none => simp [hg] at hrest
    | some mn =>
      simp only [hg, Bool.and_eq_true, beq_iff_eq] at hrest
      refine ⟨mn, rfl, hrest.1.1, hrest.1.2, ?_⟩
      intro hne'
      have := hrest.2
      rw [if_pos hne'] at this
      exact this
  · cases hg : getNode dag (f.members.headD 0) with
    | none => rw [hg] at hhead; cases hhead
    | some rn =>
      rw [hg] at hhead
      exact ⟨rn, rfl, by simpa using hhead⟩
  · intro d hd
    exact hdeps d hd

/-! ### the writes other than the placeholders -/

def coreWrites (dag : Dag) (index : Nat) : Nat → Node → List (FKey × Tsk FKey)
  | 0, _ => []
  | fuel+1, f =>
    [(FKey.top f.name, Tsk.alias (FKey.part (f.members.headD 0) index))] ++
    f.members.flatMap (blockOf dag index (fun m => coreWrites dag index fuel m))

theorem core_noPh (dag : Dag) (index : Nat) : ∀ (fuel : Nat) (f : Node),
    ∀ w ∈ coreWrites dag index fuel f, isPh w.2 = false := by
  intro fuel
  induction fuel with
  | zero => intro f w hw; simp [coreWrites] at hw
  | succ fuel ih =>
    intro f w hw
    simp only [coreWrites, List.mem_append, List.mem_singleton, List.mem_flatMap] at hw
    rcases hw with rfl | ⟨m, _, hw⟩
    · rfl
    · unfold blockOf at hw
      cases hg : getNode dag m with
      | none => simp [hg] at hw
      | some mn =>
        simp only [hg] at hw
        by_cases hne : mn.members ≠ []
        · rw [if_pos hne] at hw
          rcases List.mem_append.mp hw with hw | hw
          · exact ih mn w hw
          · simp only [List.mem_singleton] at hw; subst hw; rfl
        · rw [if_neg hne] at hw
          simp only [List.mem_singleton] at hw; subst hw; rfl

theorem ph_isPh (dag : Dag) (f : Node) (index : Nat) : ∀ w ∈ phWrites dag f index, isPh w.2 = true := by
  intro w hw
  unfold phWrites at hw
  rw [List.mem_map] at hw
  obtain ⟨⟨j, d⟩, _, rfl⟩ := hw
  rfl

theorem filter_core (dag : Dag) (index : Nat) : ∀ (fuel : Nat) (f : Node),
    (fusedWrites dag index fuel f).filter (fun w => !isPh w.2) = coreWrites dag index fuel f := by
  intro fuel
  induction fuel with
  | zero => intro f; rfl
  | succ fuel ih =>
    intro f
    have hfun : (fun m => (fusedWrites dag index fuel m).filter (fun w => !isPh w.2)) =
        (fun m => coreWrites dag index fuel m) := funext ih
    simp only [fusedWrites, hfun]
    rw [List.filter_append]
    have h1 : ([(FKey.top f.name, Tsk.alias (FKey.part (f.members.headD 0) index))] ++
        f.members.flatMap (blockOf dag index (fun m => coreWrites dag index fuel m))).filter (fun w => !isPh w.2) =
        coreWrites dag index (fuel+1) f := by
      have hX : coreWrites dag index (fuel+1) f =
          [(FKey.top f.name, Tsk.alias (FKey.part (f.members.headD 0) index))] ++
            f.members.flatMap (blockOf dag index (fun m => coreWrites dag index fuel m)) := rfl
      rw [hX, List.filter_eq_self]
      intro w hw
      have := core_noPh dag index (fuel+1) f w (hX ▸ hw)
      simp [this]
    have h2 : (phWrites dag f index).filter (fun w => !isPh w.2) = [] := by
      rw [List.filter_eq_nil_iff]
      intro w hw
      simp [ph_isPh dag f index w hw]
    rw [h1, h2, List.append_nil]

/-- the dict = the core writes followed by this group's own placeholders -/
theorem writes_succ (dag : Dag) (index : Nat) (fuel : Nat) (f : Node) :
    fusedWrites dag index (fuel+1) f = coreWrites dag index (fuel+1) f ++ phWrites dag f index := by
  have hfun : (fun m => (fusedWrites dag index fuel m).filter (fun w => !isPh w.2)) =
      (fun m => coreWrites dag index fuel m) := funext (filter_core dag index fuel)
  simp only [fusedWrites, coreWrites, hfun]

/-- what a key is bound to, as a function of the key alone -/
def expectedTask (dag : Dag) (index : Nat) : FKey → Option (Tsk FKey)
  | .top n => (getNode dag n).map (fun nd => Tsk.alias (FKey.part (nd.members.headD 0) index))
  | .part x i =>
    match getNode dag x with
    | some nd => if nd.members ≠ [] then some (Tsk.alias (FKey.top x)) else some (plainTask dag nd i)
    | none => none
  | .ph _ => none

theorem core_expected (dag : Dag) (index np : Nat) : ∀ (fuel : Nat) (f : Node), levelOK dag np fuel f = true →
    getNode dag f.name = some f → ∀ w ∈ coreWrites dag index fuel f, expectedTask dag index w.1 = some w.2 := by
  intro fuel
  induction fuel with
  | zero => intro f h; simp [levelOK] at h
  | succ fuel ih =>
    intro f h hself w hw
    have L := levelOK_spec h
    simp only [coreWrites, List.mem_append, List.mem_singleton, List.mem_flatMap] at hw
    rcases hw with rfl | ⟨m, hm, hw⟩
    · simp [expectedTask, hself]
    · obtain ⟨_, mn, hg, _, hname, hnest⟩ := L.member m hm
      simp only [blockOf, hg] at hw
      by_cases hne : mn.members ≠ []
      · rw [if_pos hne] at hw
        rcases List.mem_append.mp hw with hw | hw
        · exact ih mn (hnest hne) (by rw [hname]; exact hg) w hw
        · simp only [List.mem_singleton] at hw; subst hw
          simp only [expectedTask, hname, hg]
          rw [if_pos hne]
      · rw [if_neg hne] at hw
        simp only [List.mem_singleton] at hw; subst hw
        simp only [plainWrite, expectedTask, hname, hg]
        rw [if_neg hne]

/-- names inside a fused node are smaller than its own -/
theorem inner_lt (dag : Dag) (np : Nat) : ∀ (fuel : Nat) (f : Node), levelOK dag np fuel f = true →
    ∀ x ∈ inner dag fuel f, x < f.name := by
  intro fuel
  induction fuel with
  | zero => intro f h; simp [levelOK] at h
  | succ fuel ih =>
    intro f h x hx
    have L := levelOK_spec h
    simp only [inner, List.mem_flatMap, List.mem_cons] at hx
    obtain ⟨m, hm, hx⟩ := hx
    obtain ⟨hlt, mn, hg, _, hname, hnest⟩ := L.member m hm
    rcases hx with rfl | hx
    · exact hlt
    · simp only [hg] at hx
      by_cases hne : mn.members ≠ []
      · rw [if_pos hne] at hx
        have := ih mn (hnest hne) x hx
        rw [hname] at this
        omega
      · rw [if_neg hne] at hx; cases hx

theorem flat_sub_inner (dag : Dag) : ∀ (fuel : Nat) (f : Node), ∀ x ∈ flat dag fuel f, x ∈ inner dag fuel f := by
  intro fuel
  induction fuel with
  | zero => intro f x hx; simp [flat] at hx
  | succ fuel ih =>
    intro f x hx
    simp only [flat, List.mem_flatMap] at hx
    obtain ⟨m, hm, hx⟩ := hx
    simp only [inner, List.mem_flatMap, List.mem_cons]
    refine ⟨m, hm, ?_⟩
    cases hg : getNode dag m with
    | none => simp only [hg, List.mem_singleton] at hx; exact Or.inl hx
    | some mn =>
      simp only [hg] at hx ⊢
      by_cases hne : mn.members ≠ []
      · rw [if_pos hne] at hx ⊢
        exact Or.inr (ih mn x hx)
      · rw [if_neg hne] at hx
        simp only [List.mem_singleton] at hx
        exact Or.inl hx

theorem nested_sub_inner (dag : Dag) : ∀ (fuel : Nat) (f : Node), ∀ x ∈ nested dag fuel f, x ∈ inner dag fuel f := by
  intro fuel
  induction fuel with
  | zero => intro f x hx; simp [nested] at hx
  | succ fuel ih =>
    intro f x hx
    simp only [nested, List.mem_flatMap] at hx
    obtain ⟨m, hm, hx⟩ := hx
    simp only [inner, List.mem_flatMap, List.mem_cons]
    refine ⟨m, hm, ?_⟩
    cases hg : getNode dag m with
    | none => simp [hg] at hx
    | some mn =>
      simp only [hg] at hx ⊢
      by_cases hne : mn.members ≠ []
      · rw [if_pos hne] at hx ⊢
        rcases List.mem_cons.mp hx with rfl | hx
        · exact Or.inl rfl
        · exact Or.inr (ih mn x hx)
      · rw [if_neg hne] at hx; cases hx

theorem phWrites_key {dag : Dag} {f : Node} {index : Nat} {b : FKey × Tsk FKey}
    (h : b ∈ phWrites dag f index) : ∃ d ∈ f.deps, b.1 = argKey dag f index d := by
  unfold phWrites at h
  rw [List.mem_map] at h
  obtain ⟨⟨j, d⟩, hjd, rfl⟩ := h
  refine ⟨d, ?_, rfl⟩
  have : ∀ (l : List Nat) (n : Nat) (p : Nat × Nat), p ∈ enumFrom n l → p.2 ∈ l := by
    intro l
    induction l with
    | nil => intro n p hp; simp [enumFrom] at hp
    | cons a t ih =>
      intro n p hp
      simp only [enumFrom, List.mem_cons] at hp
      rcases hp with rfl | hp
      · simp
      · exact List.mem_cons_of_mem _ (ih _ _ hp)
  exact this _ _ _ hjd

theorem argKey_name (dag : Dag) (c : Node) (i d : Nat) : ∃ j, argKey dag c i d = FKey.part d j := by
  unfold argKey
  cases getNode dag d with
  | none => exact ⟨i, rfl⟩
  | some dn => exact ⟨_, rfl⟩

/-- keys of the core writes: `top _`, or `part x _` with `x` inside `f` -/
theorem core_keys (dag : Dag) (index np : Nat) : ∀ (fuel : Nat) (f : Node), levelOK dag np fuel f = true →
    ∀ w ∈ coreWrites dag index fuel f,
      (∃ n, w.1 = FKey.top n) ∨ (∃ x i, w.1 = FKey.part x i ∧ x ∈ inner dag fuel f) := by
  intro fuel
  induction fuel with
  | zero => intro f h; simp [levelOK] at h
  | succ fuel ih =>
    intro f h w hw
    have L := levelOK_spec h
    simp only [coreWrites, List.mem_append, List.mem_singleton, List.mem_flatMap] at hw
    rcases hw with rfl | ⟨m, hm, hw⟩
    · exact Or.inl ⟨_, rfl⟩
    · obtain ⟨_, mn, hg, _, hname, hnest⟩ := L.member m hm
      have hin : ∀ x, (x = m ∨ (mn.members ≠ [] ∧ x ∈ inner dag fuel mn)) → x ∈ inner dag (fuel+1) f := by
        intro x hx
        simp only [inner, List.mem_flatMap, List.mem_cons]
        refine ⟨m, hm, ?_⟩
        rcases hx with rfl | ⟨hne, hx⟩
        · exact Or.inl rfl
        · simp only [hg]; rw [if_pos hne]; exact Or.inr hx
      simp only [blockOf, hg] at hw
      by_cases hne : mn.members ≠ []
      · rw [if_pos hne] at hw
        rcases List.mem_append.mp hw with hw | hw
        · rcases ih mn (hnest hne) w hw with h1 | ⟨x, i, h1, h2⟩
          · exact Or.inl h1
          · exact Or.inr ⟨x, i, h1, hin x (Or.inr ⟨hne, h2⟩)⟩
        · simp only [List.mem_singleton] at hw; subst hw
          exact Or.inr ⟨mn.name, index, rfl, hin _ (Or.inl hname)⟩
      · rw [if_neg hne] at hw
        simp only [List.mem_singleton] at hw; subst hw
        exact Or.inr ⟨mn.name, _, rfl, hin _ (Or.inl hname)⟩

/-- a key written by the core is bound, in the finished dict, to what the key determines -/
theorem fused_lookup (dag : Dag) (index : Nat) (fuel : Nat) (f : Node)
    (h : levelOK dag f.npart (fuel+1) f = true) (hself : getNode dag f.name = some f)
    (w : FKey × Tsk FKey) (hw : w ∈ coreWrites dag index (fuel+1) f) :
    lastWrite (fusedWrites dag index (fuel+1) f) w.1 = some w.2 := by
  have L := levelOK_spec h
  rw [writes_succ]
  rw [lastWrite_append_left]
  · apply lastWrite_all _ _ _ ⟨w, hw, rfl⟩
    intro b hb hk
    have e1 := core_expected dag index f.npart (fuel+1) f h hself b hb
    have e2 := core_expected dag index f.npart (fuel+1) f h hself w hw
    rw [hk, e2] at e1
    exact (Option.some.inj e1).symm
  · intro b hb heq
    obtain ⟨d, hd, hk⟩ := phWrites_key hb
    obtain ⟨j, hj⟩ := argKey_name dag f index d
    rw [hk, hj] at heq
    rcases core_keys dag index f.npart (fuel+1) f h w hw with ⟨n, h1⟩ | ⟨x, i, h1, h2⟩
    · rw [h1] at heq; cases heq
    · rw [h1] at heq
      simp only [FKey.part.injEq] at heq
      exact (L.deps_out d hd).1 (heq.1 ▸ h2)

/-! ### placeholders -/

theorem lastWrite_mem {β} (ws : List (FKey × β)) (k : FKey) (t : β) (h : lastWrite ws k = some t) :
    (k, t) ∈ ws := by
  unfold lastWrite at h
  have : ∀ (l : List (FKey × β)), l.lookup k = some t → (k, t) ∈ l := by
    intro l
    induction l with
    | nil => intro h; cases h
    | cons a rest ih =>
      intro h
      obtain ⟨a1, a2⟩ := a
      simp only [List.lookup_cons] at h
      by_cases he : (k == a1) = true
      · simp only [he] at h
        have : k = a1 := by simpa using he
        cases h
        simp [this]
      · have he' : (k == a1) = false := by simpa using he
        simp only [he'] at h
        exact List.mem_cons_of_mem _ (ih h)
  exact List.mem_reverse.mp (this _ h)

theorem enumFrom_get : ∀ (l : List Nat) (n j d : Nat), (j, d) ∈ enumFrom n l → n ≤ j ∧ l[j - n]? = some d := by
  intro l
  induction l with
  | nil => intro n j d h; simp [enumFrom] at h
  | cons a t ih =>
    intro n j d h
    simp only [enumFrom, List.mem_cons, Prod.mk.injEq] at h
    rcases h with ⟨rfl, rfl⟩ | h
    · simp
    · obtain ⟨h1, h2⟩ := ih (n+1) j d h
      refine ⟨by omega, ?_⟩
      have : j - n = (j - (n+1)) + 1 := by omega
      rw [this, List.getElem?_cons_succ]
      exact h2

theorem enumFrom_mem : ∀ (l : List Nat) (n d : Nat), d ∈ l → ∃ j, (j, d) ∈ enumFrom n l := by
  intro l
  induction l with
  | nil => intro n d h; cases h
  | cons a t ih =>
    intro n d h
    rcases List.mem_cons.mp h with rfl | h
    · exact ⟨n, by simp [enumFrom]⟩
    · obtain ⟨j, hj⟩ := ih (n+1) d h
      exact ⟨j, by simp [enumFrom, hj]⟩

/-- an external key is bound to a placeholder whose positional argument is that key -/
theorem ph_lookup (dag : Dag) (f : Node) (index : Nat) (A : List (FKey × Tsk FKey)) (d : Nat) (hd : d ∈ f.deps) :
    ∃ j, lastWrite (A ++ phWrites dag f index) (argKey dag f index d) = some (Tsk.alias (FKey.ph j)) ∧
      (fusedArgs dag f index)[j]? = some (argKey dag f index d) := by
  obtain ⟨j0, hj0⟩ := enumFrom_mem f.deps 0 d hd
  have hex : ∃ b ∈ phWrites dag f index, b.1 = argKey dag f index d :=
    ⟨(argKey dag f index d, Tsk.alias (FKey.ph j0)), by
      unfold phWrites; rw [List.mem_map]; exact ⟨(j0, d), hj0, rfl⟩, rfl⟩
  cases hl : lastWrite (phWrites dag f index) (argKey dag f index d) with
  | none =>
    exfalso
    obtain ⟨b, hb, hk⟩ := hex
    unfold lastWrite at hl
    have : ∀ (l : List (FKey × Tsk FKey)), l.lookup (argKey dag f index d) = none →
        ∀ b ∈ l, b.1 ≠ argKey dag f index d := by
      intro l
      induction l with
      | nil => intro _ b hb; cases hb
      | cons a rest ih =>
        intro h b hb
        obtain ⟨a1, a2⟩ := a
        simp only [List.lookup_cons] at h
        by_cases he : (argKey dag f index d == a1) = true
        · simp [he] at h
        · have he' : (argKey dag f index d == a1) = false := by simpa using he
          simp only [he'] at h
          rcases List.mem_cons.mp hb with rfl | hb
          · simpa using fun e => he (by simp [e])
          · exact ih h b hb
    exact this _ hl b (List.mem_reverse.mpr hb) hk
  | some t =>
    have hm := lastWrite_mem _ _ _ hl
    unfold phWrites at hm
    rw [List.mem_map] at hm
    obtain ⟨⟨j, d'⟩, hjd, heq⟩ := hm
    simp only [Prod.mk.injEq] at heq
    obtain ⟨hk, ht⟩ := heq
    refine ⟨j, ?_, ?_⟩
    · rw [lastWrite_append_right _ _ _ _ hl, ← ht]
    · obtain ⟨_, hget⟩ := enumFrom_get f.deps 0 j d' hjd
      simp only [Nat.sub_zero] at hget
      unfold fusedArgs
      rw [List.getElem?_map, hget]
      simp [hk]

theorem core_noph_key (dag : Dag) (index np : Nat) (fuel : Nat) (f : Node) (h : levelOK dag np fuel f = true) :
    ∀ w ∈ coreWrites dag index fuel f, ∀ j, w.1 ≠ FKey.ph j := by
  intro w hw j hj
  rcases core_keys dag index np fuel f h w hw with ⟨n, h1⟩ | ⟨x, i, h1, _⟩
  · rw [h1] at hj; cases hj
  · rw [h1] at hj; cases hj

/-! ### which keys the core writes -/

theorem flat_core (dag : Dag) (index : Nat) : ∀ (fuel : Nat) (f : Node),
    ∀ m ∈ flat dag fuel f, ∀ mn, getNode dag m = some mn → plainWrite dag mn index ∈ coreWrites dag index fuel f := by
  intro fuel
  induction fuel with
  | zero => intro f m hm; simp [flat] at hm
  | succ fuel ih =>
    intro f m hm mn hg
    simp only [flat, List.mem_flatMap] at hm
    obtain ⟨m', hm', hx⟩ := hm
    simp only [coreWrites, List.mem_append, List.mem_singleton, List.mem_flatMap]
    right
    refine ⟨m', hm', ?_⟩
    cases hg' : getNode dag m' with
    | none =>
      simp only [hg', List.mem_singleton] at hx
      subst hx
      rw [hg] at hg'; cases hg'
    | some mn' =>
      simp only [hg'] at hx
      simp only [blockOf, hg']
      by_cases hne : mn'.members ≠ []
      · rw [if_pos hne] at hx
        rw [if_pos hne]
        exact List.mem_append.mpr (Or.inl (ih mn' m hx mn hg))
      · rw [if_neg hne] at hx
        rw [if_neg hne]
        simp only [List.mem_singleton] at hx
        subst hx
        rw [hg] at hg'; cases hg'
        simp

/-- facts about the first member of a well-formed level -/
theorem head_info (dag : Dag) (np fuel : Nat) (f : Node) (h : levelOK dag np (fuel+1) f = true) :
    f.members.headD 0 < f.name ∧
    (f.members.headD 0 ∈ flat dag (fuel+1) f ∨ f.members.headD 0 ∈ nested dag (fuel+1) f) ∧
    ∃ rn, getNode dag (f.members.headD 0) = some rn ∧ rn.npart = np := by
  have L := levelOK_spec h
  obtain ⟨r, tail, hm⟩ : ∃ r tail, f.members = r :: tail := by
    cases hmm : f.members with
    | nil => exact absurd hmm L.nonempty
    | cons a t => exact ⟨a, t, rfl⟩
  have hr : f.members.headD 0 = r := by rw [hm]; rfl
  rw [hr]
  obtain ⟨hlt, mn, hg, _, _, _⟩ := L.member r (by rw [hm]; simp)
  refine ⟨hlt, ?_, ?_⟩
  · simp only [flat, nested, hm, List.flatMap_cons, hg, List.mem_append]
    by_cases hne : mn.members ≠ []
    · right; left; rw [if_pos hne]; simp
    · left; left; rw [if_neg hne]; simp
  · obtain ⟨rn, hgr, hnp⟩ := L.head
    rw [hr] at hgr
    exact ⟨rn, hgr, hnp⟩

/-- facts about a nested group (any level) of a well-formed node -/
structure NestedInfo (dag : Dag) (index np : Nat) (core : List (FKey × Tsk FKey)) (S Fs : List Nat)
    (F : Nat) (Fn : Node) : Prop where
  node : getNode dag F = some Fn
  fused : Fn.members ≠ []
  npart : Fn.npart = np
  top_write : (FKey.top F, Tsk.alias (FKey.part (Fn.members.headD 0) index)) ∈ core
  alias_write : (FKey.part F index, Tsk.alias (FKey.top F)) ∈ core
  head_lt : Fn.members.headD 0 < F
  head_in : Fn.members.headD 0 ∈ S ∨ Fn.members.headD 0 ∈ Fs
  head_np : ∃ rn, getNode dag (Fn.members.headD 0) = some rn ∧ rn.npart = np

theorem nested_info (dag : Dag) (index np : Nat) : ∀ (fuel : Nat) (f : Node), levelOK dag np fuel f = true →
    ∀ F ∈ nested dag fuel f, ∃ Fn, NestedInfo dag index np (coreWrites dag index fuel f)
      (flat dag fuel f) (nested dag fuel f) F Fn := by
  intro fuel
  induction fuel with
  | zero => intro f h; simp [levelOK] at h
  | succ fuel ih =>
    intro f h F hF
    have L := levelOK_spec h
    simp only [nested, List.mem_flatMap] at hF
    obtain ⟨m, hm, hF⟩ := hF
    obtain ⟨_, mn, hg, _, hname, hnest⟩ := L.member m hm
    simp only [hg] at hF
    by_cases hne : mn.members ≠ []
    · rw [if_pos hne] at hF
      have hlm := hnest hne
      -- everything of the nested node `mn` is part of `f`
      have hcore : ∀ w, w ∈ coreWrites dag index fuel mn ∨ w = (FKey.part mn.name index, Tsk.alias (FKey.top mn.name)) →
          w ∈ coreWrites dag index (fuel+1) f := by
        intro w hw
        simp only [coreWrites, List.mem_append, List.mem_singleton, List.mem_flatMap]
        right
        refine ⟨m, hm, ?_⟩
        simp only [blockOf, hg]
        rw [if_pos hne]
        rcases hw with hw | hw
        · exact List.mem_append.mpr (Or.inl hw)
        · exact List.mem_append.mpr (Or.inr (by simp [hw]))
      have hflat : ∀ x, x ∈ flat dag fuel mn → x ∈ flat dag (fuel+1) f := by
        intro x hx
        simp only [flat, List.mem_flatMap]
        exact ⟨m, hm, by simp only [hg]; rw [if_pos hne]; exact hx⟩
      have hnested : ∀ x, (x = m ∨ x ∈ nested dag fuel mn) → x ∈ nested dag (fuel+1) f := by
        intro x hx
        simp only [nested, List.mem_flatMap]
        refine ⟨m, hm, ?_⟩
        simp only [hg]; rw [if_pos hne]
        rcases hx with rfl | hx
        · simp
        · exact List.mem_cons_of_mem _ hx
      rcases List.mem_cons.mp hF with rfl | hF
      · -- the nested member itself
        cases fuel with
        | zero => simp [levelOK] at hlm
        | succ fuel' =>
          have Lm := levelOK_spec hlm
          obtain ⟨hhlt, hhin, hhnp⟩ := head_info dag np fuel' mn hlm
          refine ⟨mn, hg, hne, Lm.npart, ?_, ?_, ?_, ?_, hhnp⟩
          · apply hcore; left
            simp only [coreWrites, List.mem_append, List.mem_singleton]
            left; rw [hname]
          · apply hcore; right; rw [hname]
          · rw [hname] at hhlt; exact hhlt
          · rcases hhin with h1 | h1
            · exact Or.inl (hflat _ h1)
            · exact Or.inr (hnested _ (Or.inr h1))
      · obtain ⟨Fn, I⟩ := ih mn hlm F hF
        refine ⟨Fn, I.node, I.fused, I.npart, hcore _ (Or.inl I.top_write), hcore _ (Or.inl I.alias_write),
          I.head_lt, ?_, I.head_np⟩
        rcases I.head_in with h1 | h1
        · exact Or.inl (hflat _ h1)
        · exact Or.inr (hnested _ (Or.inr h1))
    · rw [if_neg hne] at hF; cases hF

/-! ### members -/

structure MemOK (dag : Dag) (f : Node) (S Fs : List Nat) (m : Nat) (mn : Node) : Prop where
  node : getNode dag m = some mn
  plain : mn.members = []
  name : mn.name = m
  npart : mn.npart = f.npart ∨ mn.npart = 1
  deps : ∀ d ∈ mn.deps, ∃ dn, getNode dag d = some dn ∧ (bcast mn dn = true ∨ dn.npart = mn.npart) ∧
    (d ∈ S ∨ d ∈ Fs → d < m) ∧ (¬ (d ∈ S ∨ d ∈ Fs) → d ∈ f.deps)

theorem membersOK_spec {dag : Dag} {f : Node} {S Fs : List Nat} (h : membersOK dag f S Fs = true) :
    ∀ m ∈ S, ∃ mn, MemOK dag f S Fs m mn := by
  intro m hm
  unfold membersOK at h
  rw [List.all_eq_true] at h
  have hmm := h m hm
  rw [Bool.and_eq_true] at hmm
  obtain ⟨hp, hrest⟩ := hmm
  obtain ⟨mn, hg, _, hmem, hname⟩ := plainAt_spec hp
  simp only [hg, Bool.and_eq_true, Bool.or_eq_true, beq_iff_eq, List.all_eq_true] at hrest
  refine ⟨mn, hg, hmem, hname, hrest.1, ?_⟩
  intro d hd
  obtain ⟨h1, h2⟩ := hrest.2 d hd
  cases hgd : getNode dag d with
  | none => simp [hgd] at h1
  | some dn =>
    simp only [hgd, Bool.and_eq_true, Bool.or_eq_true, beq_iff_eq] at h1
    refine ⟨dn, rfl, h1.2, ?_, ?_⟩
    · intro hin; rw [if_pos hin] at h2; simpa using h2
    · intro hnin; rw [if_neg hnin] at h2; simpa using h2

theorem bcast_npart {c d : Node} (h : bcast c d = true) : d.npart = 1 := by
  unfold bcast at h
  simp only [Bool.and_eq_true, beq_iff_eq] at h
  exact h.1

/-- a member's reference to another member is that member's key -/
theorem argKey_member {dag : Dag} {mn dn : Node} {d index : Nat} (hg : getNode dag d = some dn)
    (hwf : bcast mn dn = true ∨ dn.npart = mn.npart) :
    argKey dag mn (ixOf mn index) d = FKey.part d (ixOf dn index) := by
  unfold argKey
  simp only [hg]
  by_cases hb : bcast mn dn = true
  · simp [hb, ixOf, bcast_npart hb]
  · rcases hwf with h | h
    · exact absurd h hb
    · simp [hb, ixOf, h]

/-- a member's reference to an external expression is the key `Fused` binds to a placeholder -/
theorem argKey_external {dag : Dag} {f mn dn : Node} {d index : Nat} (hg : getNode dag d = some dn)
    (hk : f.kall = true) (hwf : bcast mn dn = true ∨ dn.npart = mn.npart) :
    argKey dag mn (ixOf mn index) d = argKey dag f index d := by
  unfold argKey
  simp only [hg]
  have hf : bcast f dn = (dn.npart == 1) := by simp [bcast, hk]
  rw [hf]
  by_cases hb : bcast mn dn = true
  · simp [hb, bcast_npart hb]
  · rcases hwf with h | h
    · exact absurd h hb
    · simp only [hb, ixOf, h]
      by_cases h1 : mn.npart = 1 <;> simp [h1]

/-- a member's reference to a nested group of the full partition count is the key `(name, index)` -/
theorem argKey_nested {dag : Dag} {f mn dn : Node} {d index : Nat} (hg : getNode dag d = some dn)
    (hnp : dn.npart = f.npart) (hi : index < f.npart) (hwf : bcast mn dn = true ∨ dn.npart = mn.npart) :
    argKey dag mn (ixOf mn index) d = FKey.part d index := by
  unfold argKey
  simp only [hg]
  by_cases hb : bcast mn dn = true
  · have := bcast_npart hb
    have : index = 0 := by omega
    simp [hb, this]
  · rcases hwf with h | h
    · exact absurd h hb
    · simp only [hb, ixOf]
      by_cases h1 : mn.npart = 1
      · have : index = 0 := by omega
        simp [h1, this]
      · simp [h1]

theorem ixOf_full {nd : Node} {np index : Nat} (h : nd.npart = np) (hi : index < np) : ixOf nd index = index := by
  unfold ixOf
  by_cases h1 : nd.npart = 1
  · have : index = 0 := by omega
    simp [h1, this]
  · simp [h1]

/-- evaluation of the member keys and of the nested groups' keys: the fused sub-graph and the unfused
    reference agree -/
theorem members_eval (I : Interp) (dag : Dag) (f : Node) (index : Nat) (S Fs : List Nat)
    (g : Graph FKey) (inp : FKey → Option V) (ev : FKey → V)
    (hmem : ∀ m ∈ S, ∃ mn, MemOK dag f S Fs m mn)
    (hk : f.kall = true) (hi : index < f.npart)
    (hg : ∀ m ∈ S, ∀ mn, getNode dag m = some mn →
      g (FKey.part m (ixOf mn index)) = some (plainTask dag mn (ixOf mn index)))
    (hFs : ∀ F ∈ Fs, ∃ Fn, getNode dag F = some Fn ∧ Fn.members ≠ [] ∧ Fn.npart = f.npart ∧
      g (FKey.part F index) = some (Tsk.alias (FKey.top F)) ∧
      g (FKey.top F) = some (Tsk.alias (FKey.part (Fn.members.headD 0) index)) ∧
      Fn.members.headD 0 < F ∧ (Fn.members.headD 0 ∈ S ∨ Fn.members.headD 0 ∈ Fs) ∧
      ∃ rn, getNode dag (Fn.members.headD 0) = some rn ∧ rn.npart = f.npart)
    (hext : ∀ d ∈ f.deps, ¬ (d ∈ S ∨ d ∈ Fs) → ∀ N, 1 ≤ N →
      run I g inp N (argKey dag f index d) = ev (argKey dag f index d)) :
    ∀ (n : Nat),
      (∀ m ∈ S, m < n → ∀ mn, getNode dag m = some mn → ∀ N N', 2 * n + 1 ≤ N → n ≤ N' →
        run I g inp N (FKey.part m (ixOf mn index)) =
          run I (memberGraph dag S Fs) (fun k => some (ev k)) N' (FKey.part m (ixOf mn index))) ∧
      (∀ F ∈ Fs, F < n → ∀ N N', 2 * n + 1 ≤ N → n ≤ N' →
        run I g inp N (FKey.part F index) =
          run I (memberGraph dag S Fs) (fun k => some (ev k)) N' (FKey.part F index)) := by
  intro n
  induction n with
  | zero => exact ⟨fun m _ hlt => by omega, fun F _ hlt => by omega⟩
  | succ n ih =>
    obtain ⟨ihS, ihF⟩ := ih
    -- a nested group cannot be an ordinary member
    have hdisj : ∀ F ∈ Fs, F ∉ S := by
      intro F hF hS
      obtain ⟨Fn, hgF, hne, _⟩ := hFs F hF
      obtain ⟨mn, M⟩ := hmem F hS
      rw [M.node] at hgF; cases hgF
      exact hne M.plain
    refine ⟨?_, ?_⟩
    · intro m hm hlt mn hgm N N' hN hN'
      obtain ⟨mn', M⟩ := hmem m hm
      rw [M.node] at hgm; cases hgm
      obtain ⟨N1, rfl⟩ : ∃ N1, N = N1 + 1 := ⟨N - 1, by omega⟩
      obtain ⟨N1', rfl⟩ : ∃ N1', N' = N1' + 1 := ⟨N' - 1, by omega⟩
      have hix : ixOf mn index < mn.npart := by
        unfold ixOf
        rcases M.npart with h | h
        · by_cases h1 : mn.npart = 1
          · simp [h1]
          · simp only [beq_iff_eq, h1, if_false]; omega
        · simp [h]
      have hU : memberGraph dag S Fs (FKey.part m (ixOf mn index)) = some (plainTask dag mn (ixOf mn index)) := by
        simp only [memberGraph, hm, if_true, M.node, hix]
      rw [run_defined I g inp N1 _ _ (hg m hm mn M.node), run_defined I _ _ N1' _ _ hU]
      apply evalTsk_congr
      intro k hk'
      simp only [plainTask, Tsk.refs, List.mem_map] at hk'
      obtain ⟨d, hd, rfl⟩ := hk'
      obtain ⟨dn, hgd, hwf, hin, hout⟩ := M.deps d hd
      by_cases hdS : d ∈ S
      · rw [argKey_member hgd hwf]
        have hdm := hin (Or.inl hdS)
        exact ihS d hdS (by omega) dn hgd N1 N1' (by omega) (by omega)
      · by_cases hdF : d ∈ Fs
        · obtain ⟨Fn, hgF, _, hFnp, _⟩ := hFs d hdF
          rw [hgd] at hgF; cases hgF
          rw [argKey_nested hgd hFnp hi hwf]
          have hdm := hin (Or.inr hdF)
          exact ihF d hdF (by omega) N1 N1' (by omega) (by omega)
        · have hno : ¬ (d ∈ S ∨ d ∈ Fs) := fun h => h.elim hdS hdF
          rw [argKey_external hgd hk hwf]
          rw [hext d (hout hno) hno N1 (by omega)]
          have hnone : memberGraph dag S Fs (argKey dag f index d) = none := by
            obtain ⟨j, hj⟩ := argKey_name dag f index d
            rw [hj]
            simp only [memberGraph, hdS, hdF, if_false]
          rw [run_undefined I _ _ _ hnone]
          rfl
    · intro F hF hlt N N' hN hN'
      obtain ⟨Fn, hgF, hne, hFnp, hg1, hg2, hrlt, hrin, rn, hgr, hrnp⟩ := hFs F hF
      obtain ⟨N2, rfl⟩ : ∃ N2, N = N2 + 2 := ⟨N - 2, by omega⟩
      obtain ⟨N1', rfl⟩ : ∃ N1', N' = N1' + 1 := ⟨N' - 1, by omega⟩
      have hU : memberGraph dag S Fs (FKey.part F index) =
          some (Tsk.alias (FKey.part (Fn.members.headD 0) index)) := by
        simp only [memberGraph, hdisj F hF, hF, if_true, if_false, hgF]
      rw [run_defined I g inp (N2+1) _ _ hg1]
      show run I g inp (N2+1) (FKey.top F) = _
      rw [run_defined I g inp N2 _ _ hg2, run_defined I _ _ N1' _ _ hU]
      show run I g inp N2 (FKey.part (Fn.members.headD 0) index) =
        run I (memberGraph dag S Fs) (fun k => some (ev k)) N1' (FKey.part (Fn.members.headD 0) index)
      rcases hrin with hrS | hrF
      · have := ihS _ hrS (by omega) rn hgr N2 N1' (by omega) (by omega)
        rw [ixOf_full hrnp hi] at this
        exact this
      · exact ihF _ hrF (by omega) N2 N1' (by omega) (by omega)

/-! ### the theorem -/

theorem fused_task_correct (I : Interp) (dag : Dag) (f : Node) (index : Nat) (ev : FKey → V)
    (hok : fusedOK dag f = true) (hi : index < f.npart) :
    ∀ N N', 2 * f.name + 2 ≤ N → f.name ≤ N' →
      fusedValue I dag f index ev N =
        run I (memberGraph dag (flat dag (f.name + 1) f) (nested dag (f.name + 1) f)) (fun k => some (ev k)) N'
          (FKey.part (f.members.headD 0) index) := by
  intro N N' hN hN'
  unfold fusedOK at hok
  simp only [Bool.and_eq_true] at hok
  obtain ⟨⟨hself0, hlevel⟩, hmembers⟩ := hok
  have hself : getNode dag f.name = some f := by
    cases hg : getNode dag f.name with
    | none => simp [hg] at hself0
    | some g => simp only [hg, decide_eq_true_eq] at hself0; rw [hself0]
  have L := levelOK_spec hlevel
  have hmem := membersOK_spec hmembers
  have hlook := fused_lookup dag index f.name f hlevel hself
  have hgraph : ∀ w ∈ coreWrites dag index (f.name+1) f, fusedGraph dag f index w.1 = some w.2 := hlook
  obtain ⟨hrlt, hrin, rn, hgr, hrnp⟩ := head_info dag f.npart f.name f hlevel
  -- the top key
  have htop : fusedGraph dag f index (FKey.top f.name) =
      some (Tsk.alias (FKey.part (f.members.headD 0) index)) :=
    hgraph (FKey.top f.name, _) (by simp [coreWrites])
  have hltS : ∀ m ∈ flat dag (f.name + 1) f, m < f.name :=
    fun m hm => inner_lt dag f.npart _ f hlevel m (flat_sub_inner dag _ f m hm)
  have hltF : ∀ F ∈ nested dag (f.name + 1) f, F < f.name :=
    fun F hF => inner_lt dag f.npart _ f hlevel F (nested_sub_inner dag _ f F hF)
  have key := members_eval I dag f index (flat dag (f.name + 1) f) (nested dag (f.name + 1) f)
    (fusedGraph dag f index) (phInputs (fusedArgs dag f index) ev) ev hmem L.kall hi ?_ ?_ ?_ f.name
  · obtain ⟨keyS, keyF⟩ := key
    unfold fusedValue
    obtain ⟨N1, rfl⟩ : ∃ N1, N = N1 + 1 := ⟨N - 1, by omega⟩
    rw [run_defined I _ _ N1 _ _ htop]
    show run I (fusedGraph dag f index) (phInputs (fusedArgs dag f index) ev) N1 (FKey.part (f.members.headD 0) index) = _
    rcases hrin with hrS | hrF
    · have := keyS _ hrS (hltS _ hrS) rn hgr N1 N' (by omega) hN'
      rw [ixOf_full hrnp hi] at this
      exact this
    · exact keyF _ hrF (hltF _ hrF) N1 N' (by omega) hN'
  · intro m hm mn hgm
    obtain ⟨mn', M⟩ := hmem m hm
    rw [M.node] at hgm; cases hgm
    have := hgraph _ (flat_core dag index _ f m hm mn M.node)
    simp only [plainWrite, M.name] at this
    exact this
  · intro F hF
    obtain ⟨Fn, NI⟩ := nested_info dag index f.npart _ f hlevel F hF
    exact ⟨Fn, NI.node, NI.fused, NI.npart, hgraph _ NI.alias_write, hgraph _ NI.top_write, NI.head_lt,
      NI.head_in, NI.head_np⟩
  · intro d hd hdS M hM
    rw [show fusedGraph dag f index = lastWrite (coreWrites dag index (f.name+1) f ++ phWrites dag f index) from by
      unfold fusedGraph; rw [writes_succ]]
    obtain ⟨j, hl, harg⟩ := ph_lookup dag f index (coreWrites dag index (f.name+1) f) d hd
    obtain ⟨M0, rfl⟩ : ∃ M0, M = M0 + 1 := ⟨M - 1, by omega⟩
    rw [run_defined I _ _ M0 _ _ hl]
    show run I (lastWrite (coreWrites dag index (f.name+1) f ++ phWrites dag f index))
      (phInputs (fusedArgs dag f index) ev) M0 (FKey.ph j) = _
    have hnone : lastWrite (coreWrites dag index (f.name+1) f ++ phWrites dag f index) (FKey.ph j) = none := by
      apply lastWrite_none
      intro b hb
      rcases List.mem_append.mp hb with hb | hb
      · exact core_noph_key dag index f.npart _ f hlevel b hb j
      · intro heq
        obtain ⟨d', _, hk⟩ := phWrites_key hb
        obtain ⟨i, hi'⟩ := argKey_name dag f index d'
        rw [hk, hi'] at heq
        cases heq
    rw [run_undefined I _ _ _ hnone]
    simp [inpVal, phInputs, harg]

end Dx.Fusion
