/-
  Lemmas/FusionTask.lean — the sub-graph built by `Fused._task(index)` (nested groups flattened by
  `graph.update`, later writes win) binds every member key to the member's own task, every external
  key to its placeholder, and the chain of name keys leads to the innermost first member.
-/
import DxModel.FusionCheck
namespace Dx.Fusion
open Dx

/-! ### `lastWrite` -/

theorem lookup_none {β} (k : FKey) : ∀ (l : List (FKey × β)), (∀ b ∈ l, b.1 ≠ k) → l.lookup k = none := by
  intro l
  induction l with
  | nil => intro _; rfl
  | cons a t ih =>
    intro h
    obtain ⟨a1, a2⟩ := a
    have hne : (k == a1) = false := by
      have := h (a1, a2) (by simp)
      simpa using fun e => this e.symm
    simp only [List.lookup_cons, hne]
    exact ih (fun b hb => h b (List.mem_cons_of_mem _ hb))

theorem lookup_all {β} (k : FKey) (t : β) : ∀ (l : List (FKey × β)), (∃ b ∈ l, b.1 = k) →
    (∀ b ∈ l, b.1 = k → b.2 = t) → l.lookup k = some t := by
  intro l
  induction l with
  | nil => intro ⟨b, hb, _⟩ _; cases hb
  | cons a rest ih =>
    intro hex hall
    obtain ⟨a1, a2⟩ := a
    by_cases he : a1 = k
    · have : (k == a1) = true := by simp [he]
      simp only [List.lookup_cons, this]
      exact congrArg some (hall (a1, a2) (by simp) he)
    · have : (k == a1) = false := by simpa using fun e => he e.symm
      simp only [List.lookup_cons, this]
      apply ih
      · obtain ⟨b, hb, hk⟩ := hex
        rcases List.mem_cons.mp hb with rfl | hb
        · exact absurd hk he
        · exact ⟨b, hb, hk⟩
      · exact fun b hb => hall b (List.mem_cons_of_mem _ hb)

theorem lastWrite_append {β} (A B : List (FKey × β)) (k : FKey) :
    lastWrite (A ++ B) k = (lastWrite B k).or (lastWrite A k) := by
  unfold lastWrite
  rw [List.reverse_append, List.lookup_append]

theorem lastWrite_none {β} (ws : List (FKey × β)) (k : FKey) (h : ∀ b ∈ ws, b.1 ≠ k) :
    lastWrite ws k = none := by
  unfold lastWrite
  exact lookup_none k _ (fun b hb => h b (List.mem_reverse.mp hb))

theorem lastWrite_all {β} (ws : List (FKey × β)) (k : FKey) (t : β) (hex : ∃ b ∈ ws, b.1 = k)
    (hall : ∀ b ∈ ws, b.1 = k → b.2 = t) : lastWrite ws k = some t := by
  unfold lastWrite
  apply lookup_all
  · obtain ⟨b, hb, hk⟩ := hex
    exact ⟨b, List.mem_reverse.mpr hb, hk⟩
  · exact fun b hb => hall b (List.mem_reverse.mp hb)

/-- a binding survives appended writes that do not touch its key -/
theorem lastWrite_append_left {β} (A B : List (FKey × β)) (k : FKey) (h : ∀ b ∈ B, b.1 ≠ k) :
    lastWrite (A ++ B) k = lastWrite A k := by
  rw [lastWrite_append, lastWrite_none B k h]
  rfl

theorem lastWrite_append_right {β} (A B : List (FKey × β)) (k : FKey) (t : β)
    (h : lastWrite B k = some t) : lastWrite (A ++ B) k = some t := by
  rw [lastWrite_append, h]
  rfl

/-! ### unfolding the checker -/

theorem plainAt_spec {dag : Dag} {t : Nat} (h : plainAt dag t = true) :
    ∃ tn, getNode dag t = some tn ∧ tn.blockwise = true ∧ tn.members = [] ∧ tn.name = t := by
  unfold plainAt at h
  cases hg : getNode dag t with
  | none => simp [hg] at h
  | some tn =>
    simp only [hg, Bool.and_eq_true, List.isEmpty_iff, beq_iff_eq] at h
    exact ⟨tn, rfl, h.1.1, h.1.2, h.2⟩

structure Level (dag : Dag) (fuel : Nat) (f : Node) (r : Nat) (tail : List Nat) (rn : Node) : Prop where
  members : f.members = r :: tail
  kall : f.kall = true
  tail_plain : ∀ t ∈ tail, plainAt dag t = true
  tail_lt : ∀ t ∈ tail, t < f.name
  r_lt : r < f.name
  r_node : getNode dag r = some rn
  r_bw : rn.blockwise = true
  r_name : rn.name = r
  r_npart : rn.npart = f.npart
  nested : rn.members ≠ [] → levelOK dag fuel rn = true ∧ ∀ t ∈ tail, t ∉ inner dag fuel rn
  deps_out : ∀ d ∈ f.deps, d ∉ inner dag (fuel+1) f ∧ d ≠ f.name

theorem levelOK_spec {dag : Dag} {fuel : Nat} {f : Node} (h : levelOK dag (fuel+1) f = true) :
    ∃ r tail rn, Level dag fuel f r tail rn := by
  unfold levelOK at h
  simp only [Bool.and_eq_true] at h
  obtain ⟨⟨⟨hbw, hkall⟩, hmem⟩, hdeps⟩ := h
  cases hm : f.members with
  | nil => simp [hm] at hmem
  | cons r tail =>
    simp only [hm, Bool.and_eq_true, List.all_eq_true, decide_eq_true_eq] at hmem
    obtain ⟨⟨htail, hr⟩, hrn⟩ := hmem
    cases hg : getNode dag r with
    | none => simp [hg] at hrn
    | some rn =>
      simp only [hg, Bool.and_eq_true, beq_iff_eq] at hrn
      obtain ⟨⟨⟨hrbw, hrname⟩, hrnp⟩, hnest⟩ := hrn
      refine ⟨r, tail, rn, ⟨hm, hkall, fun t ht => (htail t ht).1, fun t ht => (htail t ht).2, hr, hg,
        hrbw, hrname, hrnp, ?_, ?_⟩⟩
      · intro hne
        simp only [ne_eq, hne, not_false_eq_true, if_true, Bool.and_eq_true, List.all_eq_true, Bool.not_eq_true',
          decide_eq_false_iff_not, ne_eq, not_false_eq_true] at hnest
        exact hnest
      · intro d hd
        simp only [List.all_eq_true, Bool.and_eq_true, Bool.not_eq_true', decide_eq_false_iff_not] at hdeps
        exact hdeps d hd

/-! ### the expected bindings (everything `Fused._task` writes except the placeholders) -/

def bindings (dag : Dag) (index : Nat) : Nat → Node → List (FKey × Tsk FKey)
  | 0, _ => []
  | fuel+1, f =>
    [(FKey.top f.name, Tsk.alias (FKey.part (f.members.headD 0) index))] ++
    f.members.flatMap (blockOf dag index (fun m => bindings dag index fuel m))

theorem inner_unfold {dag : Dag} {fuel : Nat} {f : Node} {r : Nat} {tail : List Nat} {rn : Node}
    (L : Level dag fuel f r tail rn) :
    inner dag (fuel+1) f = (r :: tail) ++ (if rn.members ≠ [] then inner dag fuel rn else []) := by
  simp only [inner, L.members, L.r_node]

theorem flat_unfold {dag : Dag} {fuel : Nat} {f : Node} {r : Nat} {tail : List Nat} {rn : Node}
    (L : Level dag fuel f r tail rn) :
    flat dag (fuel+1) f = (if rn.members ≠ [] then flat dag fuel rn else [r]) ++ tail := by
  simp only [flat, L.members, L.r_node]

/-- names inside a fused node are smaller than its own -/
theorem inner_lt (dag : Dag) : ∀ (fuel : Nat) (f : Node), levelOK dag fuel f = true →
    ∀ x ∈ inner dag fuel f, x < f.name := by
  intro fuel
  induction fuel with
  | zero => intro f h; simp [levelOK] at h
  | succ fuel ih =>
    intro f h x hx
    obtain ⟨r, tail, rn, L⟩ := levelOK_spec h
    rw [inner_unfold L] at hx
    rcases List.mem_append.mp hx with hx | hx
    · rcases List.mem_cons.mp hx with rfl | hx
      · exact L.r_lt
      · exact L.tail_lt x hx
    · by_cases hne : rn.members ≠ []
      · simp only [ne_eq, hne, not_false_eq_true, if_true] at hx
        have := ih rn (L.nested hne).1 x hx
        have h2 := L.r_lt
        rw [← L.r_name] at h2
        omega
      · simp [hne] at hx

theorem flat_sub_inner (dag : Dag) : ∀ (fuel : Nat) (f : Node), levelOK dag fuel f = true →
    ∀ x ∈ flat dag fuel f, x ∈ inner dag fuel f := by
  intro fuel
  induction fuel with
  | zero => intro f h; simp [levelOK] at h
  | succ fuel ih =>
    intro f h x hx
    obtain ⟨r, tail, rn, L⟩ := levelOK_spec h
    rw [flat_unfold L] at hx
    rw [inner_unfold L]
    rcases List.mem_append.mp hx with hx | hx
    · by_cases hne : rn.members ≠ []
      · simp only [ne_eq, hne, not_false_eq_true, if_true] at hx ⊢
        exact List.mem_append.mpr (Or.inr (ih rn (L.nested hne).1 x hx))
      · simp only [hne, if_false, List.mem_singleton] at hx
        subst hx; simp
    · exact List.mem_append.mpr (Or.inl (List.mem_cons_of_mem _ hx))

/-- the tail of a level writes exactly the members' own tasks -/
theorem tail_block {dag : Dag} {index : Nat} {nested : Node → List (FKey × Tsk FKey)} {tail : List Nat}
    (hp : ∀ t ∈ tail, plainAt dag t = true) (b : FKey × Tsk FKey) :
    b ∈ tail.flatMap (blockOf dag index nested) ↔
      ∃ t ∈ tail, ∃ tn, getNode dag t = some tn ∧ b = plainWrite dag tn index := by
  rw [List.mem_flatMap]
  constructor
  · rintro ⟨t, ht, hb⟩
    obtain ⟨tn, hg, _, hmem, _⟩ := plainAt_spec (hp t ht)
    simp only [blockOf, hg, hmem, ne_eq, not_true_eq_false, if_false, List.mem_singleton] at hb
    exact ⟨t, ht, tn, hg, hb⟩
  · rintro ⟨t, ht, tn, hg, rfl⟩
    obtain ⟨tn', hg', _, hmem, _⟩ := plainAt_spec (hp t ht)
    rw [hg] at hg'; cases hg'
    exact ⟨t, ht, by simp [blockOf, hg, hmem]⟩

theorem phWrites_key {dag : Dag} {f : Node} {index : Nat} {b : FKey × Tsk FKey}
    (h : b ∈ phWrites dag f index) : ∃ d ∈ f.deps, b.1 = argKey dag f index d := by
  unfold phWrites at h
  rw [List.mem_map] at h
  obtain ⟨⟨j, d⟩, hjd, rfl⟩ := h
  refine ⟨d, ?_, rfl⟩
  have : ∀ (l : List Nat) (n : Nat) (p : Nat × Nat), p ∈ enumFrom n l → p.2 ∈ l := by
    intro l
    induction l with
    | nil => intro n p hp; simp [enumFrom] at hp
    | cons a t ih =>
      intro n p hp
      simp only [enumFrom, List.mem_cons] at hp
      rcases hp with rfl | hp
      · simp
      · exact List.mem_cons_of_mem _ (ih _ _ hp)
  exact this _ _ _ hjd

theorem argKey_name (dag : Dag) (c : Node) (i d : Nat) : ∃ j, argKey dag c i d = FKey.part d j := by
  unfold argKey
  cases getNode dag d with
  | none => exact ⟨i, rfl⟩
  | some dn => exact ⟨_, rfl⟩

/-- shape of the keys of the expected bindings: `top n` with `n ≤ f.name`, or `part x _` with `x`
    inside `f` -/
theorem bindings_keys (dag : Dag) (index : Nat) : ∀ (fuel : Nat) (f : Node), levelOK dag fuel f = true →
    ∀ b ∈ bindings dag index fuel f,
      (∃ n, b.1 = FKey.top n ∧ n ≤ f.name) ∨ (∃ x i, b.1 = FKey.part x i ∧ x ∈ inner dag fuel f) := by
  intro fuel
  induction fuel with
  | zero => intro f h; simp [levelOK] at h
  | succ fuel ih =>
    intro f h b hb
    obtain ⟨r, tail, rn, L⟩ := levelOK_spec h
    rw [inner_unfold L]
    simp only [bindings, L.members, List.flatMap_cons, List.mem_append, List.mem_singleton] at hb
    rcases hb with rfl | hb | hb
    · exact Or.inl ⟨f.name, rfl, Nat.le_refl _⟩
    · simp only [blockOf, L.r_node] at hb
      by_cases hne : rn.members ≠ []
      · simp only [ne_eq, hne, not_false_eq_true, if_true, List.mem_append, List.mem_singleton] at hb
        rcases hb with hb | rfl
        · rcases ih rn (L.nested hne).1 b hb with ⟨n, h1, h2⟩ | ⟨x, i, h1, h2⟩
          · have := L.r_lt; rw [← L.r_name] at this
            exact Or.inl ⟨n, h1, by omega⟩
          · exact Or.inr ⟨x, i, h1, by simp [hne, h2]⟩
        · exact Or.inr ⟨rn.name, index, rfl, by simp [L.r_name]⟩
      · simp only [hne, if_false, List.mem_singleton] at hb
        subst hb
        exact Or.inr ⟨rn.name, _, rfl, by simp [L.r_name]⟩
    · obtain ⟨t, ht, tn, hg, rfl⟩ := (tail_block L.tail_plain b).mp hb
      obtain ⟨tn', hg', _, _, hname⟩ := plainAt_spec (L.tail_plain t ht)
      rw [hg] at hg'; cases hg'
      exact Or.inr ⟨tn.name, _, rfl, by simp [hname, ht]⟩

/-- the same for all writes: `top n` keys have `n ≤ f.name` -/
theorem writes_top (dag : Dag) (index : Nat) : ∀ (fuel : Nat) (f : Node), levelOK dag fuel f = true →
    ∀ b ∈ fusedWrites dag index fuel f, ∀ n, b.1 = FKey.top n → n ≤ f.name := by
  intro fuel
  induction fuel with
  | zero => intro f h; simp [levelOK] at h
  | succ fuel ih =>
    intro f h b hb n hn
    obtain ⟨r, tail, rn, L⟩ := levelOK_spec h
    simp only [fusedWrites, L.members, List.flatMap_cons, List.mem_append, List.mem_singleton] at hb
    rcases hb with (rfl | hb | hb) | hb
    · simp only [FKey.top.injEq] at hn; omega
    · simp only [blockOf, L.r_node] at hb
      by_cases hne : rn.members ≠ []
      · simp only [ne_eq, hne, not_false_eq_true, if_true, List.mem_append, List.mem_singleton] at hb
        rcases hb with hb | rfl
        · have := ih rn (L.nested hne).1 b hb n hn
          have h2 := L.r_lt; rw [← L.r_name] at h2
          omega
        · cases hn
      · simp only [hne, if_false, List.mem_singleton] at hb
        subst hb
        simp [plainWrite] at hn
    · obtain ⟨t, ht, tn, hg, rfl⟩ := (tail_block L.tail_plain b).mp hb
      simp [plainWrite] at hn
    · obtain ⟨d, _, hk⟩ := phWrites_key hb
      obtain ⟨j, hj⟩ := argKey_name dag f index d
      rw [hk, hj] at hn
      cases hn

/-- every expected binding is what the finished dict holds (no later write replaces it) -/
theorem bindings_lookup (dag : Dag) (index : Nat) : ∀ (fuel : Nat) (f : Node), levelOK dag fuel f = true →
    ∀ b ∈ bindings dag index fuel f, lastWrite (fusedWrites dag index fuel f) b.1 = some b.2 := by
  intro fuel
  induction fuel with
  | zero => intro f h; simp [levelOK] at h
  | succ fuel ih =>
    intro f h b hb
    obtain ⟨r, tail, rn, L⟩ := levelOK_spec h
    have hinner := inner_unfold L
    -- the placeholder writes never touch a key inside `f`, nor a `top` key
    have hph : ∀ x i, x ∈ inner dag (fuel+1) f → ∀ c ∈ phWrites dag f index, c.1 ≠ FKey.part x i := by
      intro x i hx c hc heq
      obtain ⟨d, hd, hk⟩ := phWrites_key hc
      obtain ⟨j, hj⟩ := argKey_name dag f index d
      rw [hk, hj] at heq
      simp only [FKey.part.injEq] at heq
      exact (L.deps_out d hd).1 (heq.1 ▸ hx)
    have hphtop : ∀ n, ∀ c ∈ phWrites dag f index, c.1 ≠ FKey.top n := by
      intro n c hc heq
      obtain ⟨d, _, hk⟩ := phWrites_key hc
      obtain ⟨j, hj⟩ := argKey_name dag f index d
      rw [hk, hj] at heq
      cases heq
    -- tail writes
    have htailkey : ∀ c ∈ tail.flatMap (blockOf dag index (fun m => fusedWrites dag index fuel m)),
        ∃ t ∈ tail, ∃ tn, getNode dag t = some tn ∧ tn.name = t ∧ c = plainWrite dag tn index := by
      intro c hc
      obtain ⟨t, ht, tn, hg, rfl⟩ := (tail_block L.tail_plain c).mp hc
      obtain ⟨tn', hg', _, _, hname⟩ := plainAt_spec (L.tail_plain t ht)
      rw [hg] at hg'; cases hg'
      exact ⟨t, ht, tn, hg, hname, rfl⟩
    have hW : fusedWrites dag index (fuel+1) f =
        (([(FKey.top f.name, Tsk.alias (FKey.part (f.members.headD 0) index))] ++
          blockOf dag index (fun m => fusedWrites dag index fuel m) r) ++
          tail.flatMap (blockOf dag index (fun m => fusedWrites dag index fuel m))) ++
          phWrites dag f index := by
      simp only [fusedWrites, L.members, List.flatMap_cons, List.append_assoc]
    rw [hW]
    simp only [bindings, L.members, List.flatMap_cons, List.mem_append, List.mem_singleton] at hb
    rcases hb with rfl | hb | hb
    · -- the node's own name key
      rw [lastWrite_append_left _ _ _ (hphtop f.name)]
      rw [lastWrite_append_left]
      · rw [lastWrite_append_left]
        · exact lastWrite_all _ _ _ ⟨_, List.mem_singleton.mpr rfl, rfl⟩ (fun c hc _ => by rw [List.mem_singleton.mp hc]; try rw [L.members])
        · intro c hc heq
          simp only [blockOf, L.r_node] at hc
          by_cases hne : rn.members ≠ []
          · simp only [ne_eq, hne, not_false_eq_true, if_true, List.mem_append, List.mem_singleton] at hc
            rcases hc with hc | rfl
            · have := writes_top dag index fuel rn (L.nested hne).1 c hc f.name heq
              have h2 := L.r_lt; rw [← L.r_name] at h2
              omega
            · cases heq
          · simp only [hne, if_false, List.mem_singleton] at hc
            subst hc
            simp [plainWrite] at heq
      · intro c hc heq
        obtain ⟨t, _, tn, _, _, rfl⟩ := htailkey c hc
        simp [plainWrite] at heq
    · -- bindings of the first member
      simp only [blockOf, L.r_node] at hb
      by_cases hne : rn.members ≠ []
      · obtain ⟨hlr, hdisj⟩ := L.nested hne
        simp only [ne_eq, hne, not_false_eq_true, if_true, List.mem_append, List.mem_singleton] at hb
        have hblock : blockOf dag index (fun m => fusedWrites dag index fuel m) r =
            fusedWrites dag index fuel rn ++ [(FKey.part rn.name index, Tsk.alias (FKey.top rn.name))] := by
          simp only [blockOf, L.r_node, ne_eq, hne, not_false_eq_true, if_true]
        rw [hblock]
        rcases hb with hb | rfl
        · -- a binding of the nested group: nothing after its sub-graph touches the key
          have hkey := bindings_keys dag index fuel rn hlr b hb
          have hafter : ∀ c, (c = (FKey.part rn.name index, Tsk.alias (FKey.top rn.name)) ∨
              c ∈ tail.flatMap (blockOf dag index (fun m => fusedWrites dag index fuel m)) ∨
              c ∈ phWrites dag f index) → c.1 ≠ b.1 := by
            intro c hc heq
            rcases hkey with ⟨n, h1, _⟩ | ⟨x, i, h1, h2⟩
            · rw [h1] at heq
              rcases hc with rfl | hc | hc
              · cases heq
              · obtain ⟨t, _, tn, _, _, rfl⟩ := htailkey c hc
                simp [plainWrite] at heq
              · exact hphtop n c hc heq
            · rw [h1] at heq
              rcases hc with rfl | hc | hc
              · simp only [FKey.part.injEq] at heq
                have := inner_lt dag fuel rn hlr x h2
                omega
              · obtain ⟨t, ht, tn, _, hname, rfl⟩ := htailkey c hc
                simp only [plainWrite, FKey.part.injEq] at heq
                exact hdisj t ht (hname ▸ heq.1 ▸ h2)
              · exact hph x i (by rw [hinner]; simp [hne, h2]) c hc heq
          rw [lastWrite_append_left _ _ _ (fun c hc => hafter c (Or.inr (Or.inr hc)))]
          rw [lastWrite_append_left _ _ _ (fun c hc => hafter c (Or.inr (Or.inl hc)))]
          rw [← List.append_assoc]
          rw [lastWrite_append_left _ _ _ (fun c hc => hafter c (Or.inl (by simpa using hc)))]
          apply lastWrite_append_right
          exact ih rn hlr b hb
        · -- graph[(name, index)] = name
          have hrin : rn.name ∈ inner dag (fuel+1) f := by rw [hinner]; simp [L.r_name]
          rw [lastWrite_append_left _ _ _ (hph rn.name index hrin)]
          rw [lastWrite_append_left]
          · rw [← List.append_assoc]
            apply lastWrite_append_right
            exact lastWrite_all _ _ _ ⟨_, List.mem_singleton.mpr rfl, rfl⟩ (fun c hc _ => by rw [List.mem_singleton.mp hc]; try rw [L.members])
          · intro c hc heq
            obtain ⟨t, ht, tn, hg, hname, rfl⟩ := htailkey c hc
            simp only [plainWrite, FKey.part.injEq] at heq
            obtain ⟨tn', hg', _, hmem, _⟩ := plainAt_spec (L.tail_plain t ht)
            rw [hg] at hg'; cases hg'
            have : t = r := by rw [← hname, heq.1, L.r_name]
            subst this
            rw [L.r_node] at hg; cases hg
            exact hne hmem
      · -- ordinary first member
        simp only [hne, if_false, List.mem_singleton] at hb
        subst hb
        have hblock : blockOf dag index (fun m => fusedWrites dag index fuel m) r = [plainWrite dag rn index] := by
          simp only [blockOf, L.r_node, hne, if_false]
        rw [hblock]
        have hrin : rn.name ∈ inner dag (fuel+1) f := by rw [hinner]; simp [L.r_name]
        rw [lastWrite_append_left _ _ (plainWrite dag rn index).1 (hph rn.name _ hrin)]
        apply lastWrite_all
        · exact ⟨plainWrite dag rn index, by simp, rfl⟩
        · intro c hc heq
          simp only [List.mem_append, List.mem_singleton, List.mem_cons, List.not_mem_nil, or_false] at hc
          rcases hc with (rfl | rfl) | hc
          · simp [plainWrite] at heq
          · rfl
          · obtain ⟨t, ht, tn, hg, hname, rfl⟩ := htailkey c hc
            simp only [plainWrite, FKey.part.injEq] at heq
            have : t = r := by rw [← hname, heq.1, L.r_name]
            subst this
            rw [L.r_node] at hg; cases hg
            rfl
    · -- bindings of the other members
      obtain ⟨t, ht, tn, hg, hname, rfl⟩ := htailkey b (by
        have := (tail_block (nested := fun m => bindings dag index fuel m) L.tail_plain b).mp hb
        exact (tail_block L.tail_plain b).mpr this)
      have htin : tn.name ∈ inner dag (fuel+1) f := by rw [hinner]; simp [hname, ht]
      rw [lastWrite_append_left _ _ (plainWrite dag tn index).1 (hph tn.name _ htin)]
      apply lastWrite_append_right
      apply lastWrite_all
      · exact ⟨plainWrite dag tn index, (tail_block L.tail_plain _).mpr ⟨t, ht, tn, hg, rfl⟩, rfl⟩
      · intro c hc heq
        obtain ⟨t', ht', tn', hg', hname', rfl⟩ := htailkey c hc
        simp only [plainWrite, FKey.part.injEq] at heq
        have : t' = t := by rw [← hname', heq.1, hname]
        subst this
        rw [hg] at hg'; cases hg'
        rfl

/-! ### placeholders -/

theorem lastWrite_mem {β} (ws : List (FKey × β)) (k : FKey) (t : β) (h : lastWrite ws k = some t) :
    (k, t) ∈ ws := by
  unfold lastWrite at h
  have : ∀ (l : List (FKey × β)), l.lookup k = some t → (k, t) ∈ l := by
    intro l
    induction l with
    | nil => intro h; cases h
    | cons a rest ih =>
      intro h
      obtain ⟨a1, a2⟩ := a
      simp only [List.lookup_cons] at h
      by_cases he : (k == a1) = true
      · simp only [he] at h
        have : k = a1 := by simpa using he
        cases h
        simp [this]
      · have he' : (k == a1) = false := by simpa using he
        simp only [he'] at h
        exact List.mem_cons_of_mem _ (ih h)
  exact List.mem_reverse.mp (this _ h)

theorem enumFrom_get : ∀ (l : List Nat) (n j d : Nat), (j, d) ∈ enumFrom n l → n ≤ j ∧ l[j - n]? = some d := by
  intro l
  induction l with
  | nil => intro n j d h; simp [enumFrom] at h
  | cons a t ih =>
    intro n j d h
    simp only [enumFrom, List.mem_cons, Prod.mk.injEq] at h
    rcases h with ⟨rfl, rfl⟩ | h
    · simp
    · obtain ⟨h1, h2⟩ := ih (n+1) j d h
      refine ⟨by omega, ?_⟩
      have : j - n = (j - (n+1)) + 1 := by omega
      rw [this, List.getElem?_cons_succ]
      exact h2

theorem enumFrom_mem : ∀ (l : List Nat) (n d : Nat), d ∈ l → ∃ j, (j, d) ∈ enumFrom n l := by
  intro l
  induction l with
  | nil => intro n d h; cases h
  | cons a t ih =>
    intro n d h
    rcases List.mem_cons.mp h with rfl | h
    · exact ⟨n, by simp [enumFrom]⟩
    · obtain ⟨j, hj⟩ := ih (n+1) d h
      exact ⟨j, by simp [enumFrom, hj]⟩

/-- an external key is bound to a placeholder whose positional argument is that key -/
theorem ph_lookup (dag : Dag) (f : Node) (index : Nat) (A : List (FKey × Tsk FKey)) (d : Nat) (hd : d ∈ f.deps) :
    ∃ j, lastWrite (A ++ phWrites dag f index) (argKey dag f index d) = some (Tsk.alias (FKey.ph j)) ∧
      (fusedArgs dag f index)[j]? = some (argKey dag f index d) := by
  obtain ⟨j0, hj0⟩ := enumFrom_mem f.deps 0 d hd
  have hex : ∃ b ∈ phWrites dag f index, b.1 = argKey dag f index d :=
    ⟨(argKey dag f index d, Tsk.alias (FKey.ph j0)), by
      unfold phWrites; rw [List.mem_map]; exact ⟨(j0, d), hj0, rfl⟩, rfl⟩
  cases hl : lastWrite (phWrites dag f index) (argKey dag f index d) with
  | none =>
    exfalso
    obtain ⟨b, hb, hk⟩ := hex
    unfold lastWrite at hl
    have : ∀ (l : List (FKey × Tsk FKey)), l.lookup (argKey dag f index d) = none →
        ∀ b ∈ l, b.1 ≠ argKey dag f index d := by
      intro l
      induction l with
      | nil => intro _ b hb; cases hb
      | cons a rest ih =>
        intro h b hb
        obtain ⟨a1, a2⟩ := a
        simp only [List.lookup_cons] at h
        by_cases he : (argKey dag f index d == a1) = true
        · simp [he] at h
        · have he' : (argKey dag f index d == a1) = false := by simpa using he
          simp only [he'] at h
          rcases List.mem_cons.mp hb with rfl | hb
          · simpa using fun e => he (by simp [e])
          · exact ih h b hb
    exact this _ hl b (List.mem_reverse.mpr hb) hk
  | some t =>
    have hm := lastWrite_mem _ _ _ hl
    unfold phWrites at hm
    rw [List.mem_map] at hm
    obtain ⟨⟨j, d'⟩, hjd, heq⟩ := hm
    simp only [Prod.mk.injEq] at heq
    obtain ⟨hk, ht⟩ := heq
    refine ⟨j, ?_, ?_⟩
    · rw [lastWrite_append_right _ _ _ _ hl, ← ht]
    · obtain ⟨_, hget⟩ := enumFrom_get f.deps 0 j d' hjd
      simp only [Nat.sub_zero] at hget
      unfold fusedArgs
      rw [List.getElem?_map, hget]
      simp [hk]

theorem writes_noph (dag : Dag) (index : Nat) : ∀ (fuel : Nat) (f : Node), levelOK dag fuel f = true →
    ∀ b ∈ fusedWrites dag index fuel f, ∀ j, b.1 ≠ FKey.ph j := by
  intro fuel
  induction fuel with
  | zero => intro f h; simp [levelOK] at h
  | succ fuel ih =>
    intro f h b hb j hj
    obtain ⟨r, tail, rn, L⟩ := levelOK_spec h
    simp only [fusedWrites, L.members, List.flatMap_cons, List.mem_append, List.mem_singleton] at hb
    rcases hb with (rfl | hb | hb) | hb
    · cases hj
    · simp only [blockOf, L.r_node] at hb
      by_cases hne : rn.members ≠ []
      · simp only [ne_eq, hne, not_false_eq_true, if_true, List.mem_append, List.mem_singleton] at hb
        rcases hb with hb | rfl
        · exact ih rn (L.nested hne).1 b hb j hj
        · cases hj
      · simp only [hne, if_false, List.mem_singleton] at hb
        subst hb
        simp [plainWrite] at hj
    · obtain ⟨t, ht, tn, hg, rfl⟩ := (tail_block L.tail_plain b).mp hb
      simp [plainWrite] at hj
    · obtain ⟨d, _, hk⟩ := phWrites_key hb
      obtain ⟨i, hi⟩ := argKey_name dag f index d
      rw [hk, hi] at hj
      cases hj

/-! ### members -/

theorem flat_bindings (dag : Dag) (index : Nat) : ∀ (fuel : Nat) (f : Node), levelOK dag fuel f = true →
    ∀ m ∈ flat dag fuel f, ∀ mn, getNode dag m = some mn → plainWrite dag mn index ∈ bindings dag index fuel f := by
  intro fuel
  induction fuel with
  | zero => intro f h; simp [levelOK] at h
  | succ fuel ih =>
    intro f h m hm mn hg
    obtain ⟨r, tail, rn, L⟩ := levelOK_spec h
    rw [flat_unfold L] at hm
    simp only [bindings, L.members, List.flatMap_cons, List.mem_append, List.mem_singleton]
    rcases List.mem_append.mp hm with hm | hm
    · right; left
      simp only [blockOf, L.r_node]
      by_cases hne : rn.members ≠ []
      · rw [if_pos hne] at hm
        rw [if_pos hne]
        exact List.mem_append.mpr (Or.inl (ih rn (L.nested hne).1 m hm mn hg))
      · rw [if_neg hne] at hm
        rw [if_neg hne]
        simp only [List.mem_singleton] at hm
        subst hm
        rw [L.r_node] at hg; cases hg
        simp
    · right; right
      exact (tail_block L.tail_plain _).mpr ⟨m, hm, mn, hg, rfl⟩

structure MemOK (dag : Dag) (f : Node) (S : List Nat) (m : Nat) (mn : Node) : Prop where
  node : getNode dag m = some mn
  name : mn.name = m
  npart : mn.npart = f.npart ∨ mn.npart = 1
  deps : ∀ d ∈ mn.deps, ∃ dn, getNode dag d = some dn ∧ (bcast mn dn = true ∨ dn.npart = mn.npart) ∧
    (d ∈ S → d < m) ∧ (d ∉ S → d ∈ f.deps)

theorem membersOK_spec {dag : Dag} {f : Node} {S : List Nat} (h : membersOK dag f S = true) :
    ∀ m ∈ S, ∃ mn, MemOK dag f S m mn := by
  intro m hm
  unfold membersOK at h
  rw [List.all_eq_true] at h
  have hmm := h m hm
  rw [Bool.and_eq_true] at hmm
  obtain ⟨hp, hrest⟩ := hmm
  obtain ⟨mn, hg, _, _, hname⟩ := plainAt_spec hp
  simp only [hg, Bool.and_eq_true, Bool.or_eq_true, beq_iff_eq, List.all_eq_true] at hrest
  refine ⟨mn, hg, hname, hrest.1, ?_⟩
  intro d hd
  obtain ⟨h1, h2⟩ := hrest.2 d hd
  cases hgd : getNode dag d with
  | none => simp [hgd] at h1
  | some dn =>
    simp only [hgd, Bool.and_eq_true, Bool.or_eq_true, beq_iff_eq] at h1
    refine ⟨dn, rfl, h1.2, ?_, ?_⟩
    · intro hin; simpa [hin] using h2
    · intro hnin; simpa [hnin] using h2

theorem bcast_npart {c d : Node} (h : bcast c d = true) : d.npart = 1 := by
  unfold bcast at h
  simp only [Bool.and_eq_true, beq_iff_eq] at h
  exact h.1

/-- a member's reference to another member is that member's key -/
theorem argKey_member {dag : Dag} {mn dn : Node} {d index : Nat} (hg : getNode dag d = some dn)
    (hwf : bcast mn dn = true ∨ dn.npart = mn.npart) :
    argKey dag mn (ixOf mn index) d = FKey.part d (ixOf dn index) := by
  unfold argKey
  simp only [hg]
  by_cases hb : bcast mn dn = true
  · simp [hb, ixOf, bcast_npart hb]
  · rcases hwf with h | h
    · exact absurd h hb
    · simp [hb, ixOf, h]

/-- a member's reference to an external expression is the key `Fused` binds to a placeholder -/
theorem argKey_external {dag : Dag} {f mn dn : Node} {d index : Nat} (hg : getNode dag d = some dn)
    (hk : f.kall = true) (hwf : bcast mn dn = true ∨ dn.npart = mn.npart) :
    argKey dag mn (ixOf mn index) d = argKey dag f index d := by
  unfold argKey
  simp only [hg]
  have hf : bcast f dn = (dn.npart == 1) := by simp [bcast, hk]
  rw [hf]
  by_cases hb : bcast mn dn = true
  · simp [hb, bcast_npart hb]
  · rcases hwf with h | h
    · exact absurd h hb
    · simp only [hb, ixOf, h]
      by_cases h1 : mn.npart = 1 <;> simp [h1]

/-- evaluation of the member keys: the fused sub-graph and the unfused member tasks agree -/
theorem members_eval (I : Interp) (dag : Dag) (f : Node) (index : Nat) (S : List Nat)
    (g : Graph FKey) (inp : FKey → Option V) (ev : FKey → V)
    (hmem : ∀ m ∈ S, ∃ mn, MemOK dag f S m mn)
    (hk : f.kall = true) (hi : index < f.npart)
    (hg : ∀ m ∈ S, ∀ mn, getNode dag m = some mn →
      g (FKey.part m (ixOf mn index)) = some (plainTask dag mn (ixOf mn index)))
    (hext : ∀ d ∈ f.deps, d ∉ S → ∀ N, 1 ≤ N → run I g inp N (argKey dag f index d) = ev (argKey dag f index d)) :
    ∀ (n : Nat), ∀ m ∈ S, m < n → ∀ mn, getNode dag m = some mn → ∀ N N', n + 1 ≤ N → n ≤ N' →
      run I g inp N (FKey.part m (ixOf mn index)) =
        run I (memberGraph dag S) (fun k => some (ev k)) N' (FKey.part m (ixOf mn index)) := by
  intro n
  induction n with
  | zero => intro m _ hlt; omega
  | succ n ih =>
    intro m hm hlt mn hgm N N' hN hN'
    obtain ⟨mn', M⟩ := hmem m hm
    rw [M.node] at hgm; cases hgm
    obtain ⟨N1, rfl⟩ : ∃ N1, N = N1 + 1 := ⟨N - 1, by omega⟩
    obtain ⟨N1', rfl⟩ : ∃ N1', N' = N1' + 1 := ⟨N' - 1, by omega⟩
    have hix : ixOf mn index < mn.npart := by
      unfold ixOf
      rcases M.npart with h | h
      · by_cases h1 : mn.npart = 1
        · simp [h1]
        · simp only [beq_iff_eq, h1, if_false]; omega
      · simp [h]
    have hU : memberGraph dag S (FKey.part m (ixOf mn index)) = some (plainTask dag mn (ixOf mn index)) := by
      simp only [memberGraph, hm, if_true, M.node, hix]
    rw [run_defined I g inp N1 _ _ (hg m hm mn M.node), run_defined I _ _ N1' _ _ hU]
    apply evalTsk_congr
    intro k hk'
    simp only [plainTask, Tsk.refs, List.mem_map] at hk'
    obtain ⟨d, hd, rfl⟩ := hk'
    obtain ⟨dn, hgd, hwf, hin, hout⟩ := M.deps d hd
    by_cases hdS : d ∈ S
    · rw [argKey_member hgd hwf]
      have hdm := hin hdS
      exact ih d hdS (by omega) dn hgd N1 N1' (by omega) (by omega)
    · rw [argKey_external hgd hk hwf]
      rw [hext d (hout hdS) hdS N1 (by omega)]
      have hnone : memberGraph dag S (argKey dag f index d) = none := by
        obtain ⟨j, hj⟩ := argKey_name dag f index d
        rw [hj]
        simp only [memberGraph, hdS, if_false]
      rw [run_undefined I _ _ _ hnone]
      rfl

/-! ### the chain of name keys -/

theorem chain_eval (I : Interp) (dag : Dag) (index : Nat) (g : Graph FKey) (inp : FKey → Option V) :
    ∀ (fuel : Nat) (f : Node), levelOK dag fuel f = true →
      (∀ b ∈ bindings dag index fuel f, g b.1 = some b.2) →
      ∃ s rs rsn, s ≤ 2 * fuel ∧ (flat dag fuel f).head? = some rs ∧ getNode dag rs = some rsn ∧
        rsn.npart = f.npart ∧
        ∀ N, run I g inp (N + s) (FKey.top f.name) = run I g inp N (FKey.part rs index) := by
  intro fuel
  induction fuel with
  | zero => intro f h; simp [levelOK] at h
  | succ fuel ih =>
    intro f h hb
    obtain ⟨r, tail, rn, L⟩ := levelOK_spec h
    have htop : g (FKey.top f.name) = some (Tsk.alias (FKey.part r index)) := by
      have := hb (FKey.top f.name, Tsk.alias (FKey.part (f.members.headD 0) index)) (by simp [bindings])
      simpa [L.members] using this
    have hstep : ∀ N, run I g inp (N + 1) (FKey.top f.name) = run I g inp N (FKey.part r index) := by
      intro N
      rw [run_defined I g inp N _ _ htop]
      rfl
    by_cases hne : rn.members ≠ []
    · obtain ⟨hlr, _⟩ := L.nested hne
      have hsub : ∀ b ∈ bindings dag index fuel rn, g b.1 = some b.2 := by
        intro b hbb
        apply hb
        simp only [bindings, L.members, List.flatMap_cons, List.mem_append, List.mem_singleton]
        right; left
        simp only [blockOf, L.r_node]
        rw [if_pos hne]
        exact List.mem_append.mpr (Or.inl hbb)
      have halias : g (FKey.part r index) = some (Tsk.alias (FKey.top r)) := by
        have := hb (FKey.part rn.name index, Tsk.alias (FKey.top rn.name)) (by
          simp only [bindings, L.members, List.flatMap_cons, List.mem_append, List.mem_singleton]
          right; left
          simp only [blockOf, L.r_node]
          rw [if_pos hne]
          simp)
        simpa [L.r_name] using this
      obtain ⟨s, rs, rsn, hs, hhead, hgrs, hnp, hrun⟩ := ih rn hlr hsub
      refine ⟨s + 2, rs, rsn, by omega, ?_, hgrs, by rw [hnp, L.r_npart], ?_⟩
      · rw [flat_unfold L, if_pos hne]
        cases hfl : flat dag fuel rn with
        | nil => rw [hfl] at hhead; cases hhead
        | cons a t => rw [hfl] at hhead; simpa using hhead
      · intro N
        have : N + (s + 2) = (N + s + 1) + 1 := by omega
        rw [this, hstep, run_defined I g inp _ _ _ halias]
        show run I g inp (N + s) (FKey.top r) = _
        rw [← L.r_name]
        exact hrun N
    · refine ⟨1, r, rn, by omega, ?_, L.r_node, L.r_npart, hstep⟩
      rw [flat_unfold L, if_neg hne]
      rfl

/-! ### the theorem -/

theorem fused_task_correct (I : Interp) (dag : Dag) (f : Node) (index : Nat) (ev : FKey → V)
    (hok : fusedOK dag f = true) (hi : index < f.npart) :
    ∀ N N', 3 * f.name + 4 ≤ N → f.name ≤ N' →
      fusedValue I dag f index ev N =
        run I (memberGraph dag (flat dag (f.name + 1) f)) (fun k => some (ev k)) N'
          (FKey.part ((flat dag (f.name + 1) f).headD 0) index) := by
  intro N N' hN hN'
  unfold fusedOK at hok
  simp only [Bool.and_eq_true] at hok
  obtain ⟨hlevel, hmembers⟩ := hok
  obtain ⟨r, tail, rn, L⟩ := levelOK_spec hlevel
  have hmem := membersOK_spec hmembers
  have hlook := bindings_lookup dag index (f.name + 1) f hlevel
  -- the chain
  obtain ⟨s, rs, rsn, hs, hhead, hgrs, hnp, hrun⟩ :=
    chain_eval I dag index (fusedGraph dag f index) (phInputs (fusedArgs dag f index) ev) (f.name + 1) f hlevel hlook
  have hrsS : rs ∈ flat dag (f.name + 1) f := by
    cases hfl : flat dag (f.name + 1) f with
    | nil => rw [hfl] at hhead; cases hhead
    | cons a t => rw [hfl] at hhead; simp at hhead; simp [hhead]
  have hheadD : (flat dag (f.name + 1) f).headD 0 = rs := by
    cases hfl : flat dag (f.name + 1) f with
    | nil => rw [hfl] at hhead; cases hhead
    | cons a t => rw [hfl] at hhead; simp at hhead; simp [hhead]
  have hixrs : ixOf rsn index = index := by
    unfold ixOf
    by_cases h1 : rsn.npart = 1
    · simp only [h1, beq_self_eq_true, if_true]; omega
    · simp [h1]
  unfold fusedValue
  obtain ⟨N0, rfl⟩ : ∃ N0, N = N0 + s := ⟨N - s, by omega⟩
  rw [hrun N0, hheadD]
  have hlt : ∀ m ∈ flat dag (f.name + 1) f, m < f.name :=
    fun m hm => inner_lt dag _ f hlevel m (flat_sub_inner dag _ f hlevel m hm)
  have key := members_eval I dag f index (flat dag (f.name + 1) f) (fusedGraph dag f index)
    (phInputs (fusedArgs dag f index) ev) ev hmem L.kall hi ?_ ?_ f.name rs hrsS (hlt rs hrsS) rsn hgrs
    N0 N' (by omega) hN'
  · rw [hixrs] at key
    exact key
  · intro m hm mn hgm
    obtain ⟨mn', M⟩ := hmem m hm
    rw [M.node] at hgm; cases hgm
    have := hlook _ (flat_bindings dag index _ f hlevel m hm mn M.node)
    simp only [plainWrite, M.name] at this
    exact this
  · intro d hd hdS M hM
    obtain ⟨j, hl, harg⟩ := ph_lookup dag f index
      ([(FKey.top f.name, Tsk.alias (FKey.part (f.members.headD 0) index))] ++
        f.members.flatMap (blockOf dag index (fun m => fusedWrites dag index f.name m))) d hd
    have hgk : fusedGraph dag f index (argKey dag f index d) = some (Tsk.alias (FKey.ph j)) := by
      unfold fusedGraph
      simp only [fusedWrites]
      exact hl
    obtain ⟨M0, rfl⟩ : ∃ M0, M = M0 + 1 := ⟨M - 1, by omega⟩
    rw [run_defined I _ _ M0 _ _ hgk]
    show run I (fusedGraph dag f index) (phInputs (fusedArgs dag f index) ev) M0 (FKey.ph j) = _
    have hnone : fusedGraph dag f index (FKey.ph j) = none := by
      unfold fusedGraph
      apply lastWrite_none
      intro b hb
      exact writes_noph dag index _ f hlevel b hb j
    rw [run_undefined I _ _ _ hnone]
    simp [inpVal, phInputs, harg]

end Dx.Fusion
