/-
  Lemmas/ColsRules.lean — what each projection rule returns (shape) and why the child it builds is adequate
-/
import DxModel.Cols
import DxModel.Lemmas.Cols
namespace Dx.Cols

/-- Projection parents over a frame (the only parents the single-input rules are proven for) -/
def Parent.overFrame : Parent → Prop
  | .list _ => True
  | .scalar _ => True
  | _ => False

theorem Parent.operand_toList (p : Parent) : p.operand.toList = p.cols := by
  cases p <;> rfl

/-! ### plain_column_projection -/

theorem plainSel_adequate (frame : List Name) (p : Parent) (deps : List Dep) (extra : List Name) :
    Adequate frame extra p.cols (plainSel frame (detProj p deps extra)).toList := by
  cases hs : detProj p deps extra with
  | many l =>
    have h := adequate_union_contains frame p deps extra
    rw [hs] at h
    simpa [plainSel, Sel.toList] using h
  | one s =>
    obtain ⟨hu, _⟩ := detProj_one hs
    have hmem : ∀ c, c ∈ unionCols p deps extra → c = s := by
      intro c hc; rw [hu] at hc; simpa using hc
    unfold plainSel
    by_cases hf : frame.contains s = true
    · simp only [hf, if_true, Sel.toList]
      refine ⟨?_, ?_, ?_, ?_⟩
      · intro c hc
        have : c = s := by simpa using hc
        subst this; exact List.contains_iff_mem.mp hf
      · intro _; simp
      · intro k hk _
        have := hmem k (extra_mem_union hk)
        subst this; simp
      · intro c hc _
        have := hmem c (parent_mem_union hc)
        subst this; simp
    · simp only [hf, Sel.toList]
      have hnf : s ∉ frame := fun h => hf (List.contains_iff_mem.mpr h)
      refine ⟨?_, ?_, ?_, ?_⟩
      · intro c hc; cases hc
      · intro _; exact List.nodup_nil
      · intro k hk hkf
        have := hmem k (extra_mem_union hk)
        subst this; exact absurd hkf hnf
      · intro c hc hcf
        have := hmem c (parent_mem_union hc)
        subst this; exact absurd hcf hnf

/-- shape of a `plain` rewrite -/
theorem plain_spec {frame : List Name} {p : Parent} {deps : List Dep} {extra : List Name} {rw : Rw}
    (h : plain frame p deps extra = some rw) :
    rw = { childs := [some (plainSel frame (detProj p deps extra))],
           keep := !(decide (plainSel frame (detProj p deps extra) = p.operand)) } ∧
    plainSel frame (detProj p deps extra) ≠ .many frame := by
  unfold plain at h
  simp only at h
  split at h
  · cases h
  · rename_i hne
    cases h
    exact ⟨rfl, hne⟩

/-- a scalar child is only ever produced for the scalar selection of that very label -/
theorem plain_collapse {frame : List Name} {p : Parent} {deps : List Dep} {extra : List Name} {c : Name}
    (hp : p.overFrame) (h : plainSel frame (detProj p deps extra) = .one c) : p = .scalar c := by
  cases hs : detProj p deps extra with
  | many l => rw [hs] at h; simp [plainSel] at h
  | one s =>
    rw [hs] at h
    obtain ⟨hu, hn⟩ := detProj_one hs
    have hsc : s = c := by
      by_cases hf : frame.contains s = true
      · simp only [plainSel, hf, if_true] at h
        cases h; rfl
      · simp only [plainSel, hf] at h
        cases h
    subst hsc
    cases p with
    | list cs => cases hn
    | scalar c' =>
      have : c' ∈ unionCols (.scalar c') deps extra := parent_mem_union (by simp [Parent.cols])
      rw [hu] at this
      have : c' = s := by simpa using this
      subst this; rfl
    | listS cs => cases hp
    | scalarS c' => cases hp
    | index => cases hp

/-- when the parent projection is not re-applied the child *is* the parent's selection -/
theorem plain_nokeep {frame : List Name} {p : Parent} {deps : List Dep} {extra : List Name} {rw : Rw}
    (h : plain frame p deps extra = some rw) (hk : rw.keep = false) :
    plainSel frame (detProj p deps extra) = p.operand := by
  obtain ⟨hrw, _⟩ := plain_spec h
  rw [hrw] at hk
  simpa using hk

/-! ### rules that keep the parent -/

/-- common shape: one list child, parent kept -/
def Rw.isKeep1 (rw : Rw) (child : List Name) : Prop :=
  rw.childs = [some (.many child)] ∧ rw.keep = true ∧ rw.gone = false

theorem keyed_spec {frame keys : List Name} {p : Parent} {deps : List Dep} {rw : Rw}
    (h : keyed frame keys p deps = some rw) :
    rw.isKeep1 (frame.filter ((detProj p deps keys).toList.contains ·)) ∧
    frame.filter ((detProj p deps keys).toList.contains ·) ≠ frame := by
  unfold keyed at h
  simp only at h
  split at h
  · cases h
  · rename_i hne
    cases h
    exact ⟨⟨rfl, rfl, rfl⟩, hne⟩

theorem dropna_spec {frame : List Name} {subset : Option (List Name)} {p : Parent} {deps : List Dep} {rw : Rw}
    (h : dropna frame subset p deps = some rw) :
    ∃ s, subset = some s ∧ rw.isKeep1 (frame.filter (detProj p deps s).has) := by
  unfold dropna at h
  cases subset with
  | none => cases h
  | some s =>
    simp only at h
    split at h
    · cases h
    · cases h; exact ⟨s, rfl, rfl, rfl, rfl⟩

theorem dropDup_spec {frame : List Name} {subset : Option (List Name)} {p : Parent} {deps : List Dep} {rw : Rw}
    (h : dropDup frame subset p deps = some rw) :
    ∃ s, subset = some s ∧ rw.isKeep1 (frame.filter (detProj p deps s).has) := by
  unfold dropDup at h
  cases subset with
  | none => cases h
  | some s =>
    simp only at h
    split at h
    · cases h
    · cases h; exact ⟨s, rfl, rfl, rfl, rfl⟩

theorem shuffle_spec {frame pidx : List Name} {p : Parent} {deps : List Dep} {rw : Rw}
    (h : shuffle frame pidx p deps = some rw) :
    rw.isKeep1 (frame.filter (fun c => pidx.contains c || (detProj p deps []).has c)) := by
  unfold shuffle at h
  simp only at h
  split at h
  · cases h; exact ⟨rfl, rfl, rfl⟩
  · cases h

theorem shuffle_adequate (frame pidx : List Name) (p : Parent) (deps : List Dep) :
    Adequate frame pidx p.cols (frame.filter (fun c => pidx.contains c || (detProj p deps []).has c)) :=
  adequate_filter frame pidx p.cols _
    (fun k hk => by
      rw [Bool.or_eq_true]; exact Or.inl (List.contains_iff_mem.mpr hk))
    (fun c hc => by
      rw [Bool.or_eq_true]; exact Or.inr (detProj_has (parent_mem_union hc)))

theorem sib_spec {frame other : List Name} {p : Parent} {deps : List Dep} {rw : Rw}
    (h : setIndexBlockwise frame other p deps = some rw) :
    rw.isKeep1 (frame.filter (detProj p deps other).has) := by
  unfold setIndexBlockwise at h
  simp only at h
  split at h
  · cases h
  · cases h; exact ⟨rfl, rfl, rfl⟩

theorem ioAbsorb_spec {selfCols : List Name} {p : Parent} {deps : List Dep} {rw : Rw}
    (h : ioAbsorb selfCols p deps = some rw) :
    rw.childs = [some (.many (selfCols.filter ((detProj p deps []).toList.contains ·)))] ∧
    rw.keep = !(decide (Sel.many (selfCols.filter ((detProj p deps []).toList.contains ·)) = p.operand)) ∧
    rw.gone = false := by
  unfold ioAbsorb at h
  simp only at h
  split at h
  · cases h
  · cases h; exact ⟨rfl, rfl, rfl⟩

theorem combineFirst_spec {frame other : List Name} {p : Parent} {deps : List Dep} {rw : Rw}
    (h : combineFirst frame other p deps = some rw) :
    rw.childs = [some (.many (frame.filter (detProj p deps []).has)), some (.many (other.filter (detProj p deps []).has))] ∧
    rw.keep = true := by
  unfold combineFirst at h
  simp only at h
  split at h
  · cases h
  · cases h; exact ⟨rfl, rfl⟩

theorem opAlign_spec {frame : List Name} {other : Option (List Name)} {p : Parent} {deps : List Dep} {rw : Rw}
    (h : opAlign frame other p deps = some rw) :
    ∃ oc0, other = some oc0 ∧
      rw = { childs := [some (.many (frame.filter ((detProj p deps []).toList.contains ·))),
                        some (.many (oc0.filter ((detProj p deps []).toList.contains ·)))], keep := true } := by
  unfold opAlign at h
  cases other with
  | none => cases h
  | some oc0 =>
    simp only at h
    split at h
    · cases h
    · cases h; exact ⟨oc0, rfl, rfl⟩

theorem resetIndex_spec {frame : List Name} {drop named : Bool} {p : Parent} {deps : List Dep} {rw : Rw}
    (h : resetIndex frame drop named p deps = some rw) :
    (drop = true ∨ named = true ∨ "index" ∉ frame) ∧
    ∃ rw0, plain frame p deps = some rw0 ∧ rw = { rw0 with drop := if rw0.keep then drop else true } := by
  unfold resetIndex at h
  split at h
  · cases h
  · rename_i hg
    have hguard : drop = true ∨ named = true ∨ "index" ∉ frame := by
      cases drop <;> cases named <;> simp_all
    refine ⟨hguard, ?_⟩
    cases hp : plain frame p deps with
    | none => rw [hp] at h; cases h
    | some rw0 => rw [hp] at h; cases h; exact ⟨rw0, rfl, rfl⟩

theorem binop_spec {selfCols : List Name} {left right : Option (List Name)} {p : Parent} {deps : List Dep} {rw : Rw}
    (h : binop selfCols left right p deps = some rw) :
    rw = { childs := [binopSide (selfCols.filter ((detProj p deps []).toList.contains ·)) left,
                      binopSide (selfCols.filter ((detProj p deps []).toList.contains ·)) right], keep := true } := by
  unfold binop at h
  simp only at h
  split at h
  · cases h
  · cases h; rfl

theorem binopSide_some {columns : List Name} {o : Option (List Name)} {s : Sel} (h : binopSide columns o = some s) :
    s = .many columns ∧ ∃ lc, o = some lc := by
  cases o with
  | none => cases h
  | some lc =>
    simp only [binopSide] at h
    split at h
    · cases h
    · cases h; exact ⟨rfl, lc, rfl⟩

theorem binopSide_none_some {columns lc : List Name} (h : binopSide columns (some lc) = none) : lc = columns := by
  simp only [binopSide] at h
  split at h
  · assumption
  · cases h

/-- every column of the union that the input has is in the `plain` child -/
theorem plainSel_mem (frame : List Name) (p : Parent) (deps : List Dep) (extra : List Name) (c : Name)
    (hu : c ∈ unionCols p deps extra) (hf : c ∈ frame) : c ∈ (plainSel frame (detProj p deps extra)).toList := by
  cases hs : detProj p deps extra with
  | many l =>
    have ht := detProj_toList p deps extra
    rw [hs] at ht
    simp only [Sel.toList] at ht
    simp only [plainSel, Sel.toList, List.mem_filter, List.contains_iff_mem]
    exact ⟨hf, by rw [ht]; exact hu⟩
  | one s =>
    obtain ⟨hu1, _⟩ := detProj_one hs
    rw [hu1] at hu
    have : c = s := by simpa using hu
    subst this
    simp only [plainSel, List.contains_iff_mem.mpr hf, if_true, Sel.toList, List.mem_singleton]

theorem astype_spec {frame : List Name} {dkeys : Option (List Name)} {p : Parent} {deps : List Dep} {rw : Rw}
    (h : astype frame dkeys p deps = some rw) :
    (dkeys.map (·.filter ((detProj p deps []).toList.contains ·)) = some [] ∧ rw = { childs := [none], keep := true, gone := true }) ∨
    (dkeys.map (·.filter ((detProj p deps []).toList.contains ·)) ≠ some [] ∧
      ((∃ l, detProj p deps [] = .many l ∧
          rw = { childs := [some (.many (frame.filter (l.contains ·)))], keep := true,
                 keys := dkeys.map (·.filter ((detProj p deps []).toList.contains ·)) }) ∨
       (∃ s, detProj p deps [] = .one s ∧
          rw = { childs := [some (.one s)], keep := false,
                 keys := dkeys.map (·.filter ((detProj p deps []).toList.contains ·)) }))) := by
  unfold astype at h
  simp only at h
  split at h
  · rename_i hg; cases h; exact Or.inl ⟨hg, rfl⟩
  · rename_i hg
    right
    refine ⟨hg, ?_⟩
    cases hs : detProj p deps [] with
    | many l =>
      left
      rw [hs] at h
      simp only at h
      split at h
      · cases h
      · cases h; exact ⟨l, rfl, rfl⟩
    | one s =>
      right
      rw [hs] at h
      simp only at h
      split at h
      · cases h
      · cases h; exact ⟨s, rfl, rfl⟩

theorem merge_spec {m : MergeP} {L R : List Name} {p : Parent} {deps : List Dep} {rw : Rw}
    (h : merge m L R p deps = some rw) :
    rw = { childs := [some (.many (mergeLists m L R (detProj p deps []).toList).1),
                      some (.many (mergeLists m L R (detProj p deps []).toList).2)], keep := true } := by
  unfold merge at h
  simp only at h
  split at h
  · cases h; rfl
  · cases h

/-! ### rename -/

/-- the forward label map of `rename(columns=mapping)` -/
def renameFwd (mapping : List (Name × Name)) (c : Name) : Name :=
  match mapping.find? (fun kv => kv.1 == c) with
  | some kv => kv.2
  | none => c

theorem find_key_of_mem {mapping : List (Name × Name)} (hnd : (mapping.map (·.1)).Nodup) {kv : Name × Name}
    (h : kv ∈ mapping) : mapping.find? (fun e => e.1 == kv.1) = some kv := by
  induction mapping with
  | nil => cases h
  | cons e t ih =>
    simp only [List.map_cons, List.nodup_cons] at hnd
    rcases List.mem_cons.mp h with h | h
    · subst h; simp
    · have hne : e.1 ≠ kv.1 := by
        intro heq
        exact hnd.1 (heq ▸ List.mem_map_of_mem (f := (·.1)) h)
      rw [List.find?_cons_of_neg (by simpa using hne)]
      exact ih hnd.2 h

theorem renameFwd_of_mem {mapping : List (Name × Name)} (hnd : (mapping.map (·.1)).Nodup) {kv : Name × Name}
    (h : kv ∈ mapping) : renameFwd mapping kv.1 = kv.2 := by
  unfold renameFwd
  rw [find_key_of_mem hnd h]

/-- mapping a requested output label back finds its unique source column -/
theorem renameBack_fwd {frame : List Name} {mapping : List (Name × Name)} (hnd : (mapping.map (·.1)).Nodup)
    {c : Name} (hc : c ∈ frame)
    (hinj : ∀ c', c' ∈ frame → renameFwd mapping c' = renameFwd mapping c → c' = c) :
    renameBack frame mapping (renameFwd mapping c) = c := by
  unfold renameBack
  cases hf : ((mapping.filter (fun kv => frame.contains kv.1)).reverse).find? (fun kv => kv.2 == renameFwd mapping c) with
  | some kv =>
    have hmem := List.mem_of_find?_eq_some hf
    have hp := List.find?_some hf
    rw [List.mem_reverse, List.mem_filter] at hmem
    have hk : kv.1 ∈ frame := List.contains_iff_mem.mp hmem.2
    have hv : kv.2 = renameFwd mapping c := by simpa using hp
    have : renameFwd mapping kv.1 = renameFwd mapping c := by rw [renameFwd_of_mem hnd hmem.1, hv]
    exact hinj kv.1 hk this
  | none =>
    rw [List.find?_eq_none] at hf
    -- c is not a renamed column, hence maps to itself
    unfold renameFwd
    cases hm : mapping.find? (fun kv => kv.1 == c) with
    | none => rfl
    | some kv =>
      exfalso
      have hmem := List.mem_of_find?_eq_some hm
      have hk : kv.1 = c := by simpa using List.find?_some hm
      apply hf kv
      · rw [List.mem_reverse, List.mem_filter]
        exact ⟨hmem, by rw [hk]; exact List.contains_iff_mem.mpr hc⟩
      · simp [renameFwd, hm]

theorem rename_spec {frame : List Name} {mapping : List (Name × Name)} {p : Parent} {deps : List Dep} {rw : Rw}
    (h : rename frame mapping p deps = some rw) :
    rw.isKeep1 (frame.filter (((detProj p deps []).toList.map (renameBack frame mapping)).contains ·)) := by
  unfold rename at h
  simp only at h
  split at h
  · cases h
  · cases h; exact ⟨rfl, rfl, rfl⟩

/-- the pruned input of a rename keeps the source of every requested label -/
theorem rename_sources {frame : List Name} {mapping : List (Name × Name)} {p : Parent} {deps : List Dep}
    (hnd : (mapping.map (·.1)).Nodup) {c : Name} (hc : c ∈ frame)
    (hinj : ∀ c', c' ∈ frame → renameFwd mapping c' = renameFwd mapping c → c' = c)
    (hreq : renameFwd mapping c ∈ p.cols) :
    c ∈ frame.filter (((detProj p deps []).toList.map (renameBack frame mapping)).contains ·) := by
  rw [List.mem_filter]
  refine ⟨hc, ?_⟩
  rw [List.contains_iff_mem, List.mem_map]
  refine ⟨renameFwd mapping c, ?_, renameBack_fwd hnd hc hinj⟩
  rw [detProj_toList]
  exact parent_mem_union hreq

/-! ### add_prefix / add_suffix -/

theorem slicePrefix_append (pre c : String) : slicePrefix pre.length (pre ++ c) = c := by
  unfold slicePrefix
  rw [String.toList_append, ← String.length_toList, List.drop_left, String.ofList_toList]

theorem sliceSuffix_append (suf c : String) : sliceSuffix suf.length (c ++ suf) = c := by
  unfold sliceSuffix
  rw [String.toList_append, List.length_append, ← String.length_toList, Nat.add_sub_cancel,
    List.take_left, String.ofList_toList]

theorem affix_spec {isSuffix : Bool} {n : Nat} {frame : List Name} {p : Parent} {deps : List Dep} {rw : Rw}
    (h : affix isSuffix n frame p deps = some rw) :
    rw.isKeep1 (frame.filter
      (((detProj p deps []).toList.map (if isSuffix then sliceSuffix n else slicePrefix n)).contains ·)) := by
  cases isSuffix <;>
  · unfold affix at h
    simp only [Bool.false_eq_true, if_false, if_true] at h
    split at h
    · cases h
    · cases h; exact ⟨rfl, rfl, rfl⟩

theorem prefix_sources {pre : String} {frame : List Name} {p : Parent} {deps : List Dep} {c : Name}
    (hc : c ∈ frame) (hreq : pre ++ c ∈ p.cols) :
    c ∈ frame.filter (((detProj p deps []).toList.map (slicePrefix pre.length)).contains ·) := by
  rw [List.mem_filter]
  refine ⟨hc, ?_⟩
  rw [List.contains_iff_mem, List.mem_map]
  exact ⟨pre ++ c, by rw [detProj_toList]; exact parent_mem_union hreq, slicePrefix_append pre c⟩

theorem suffix_sources {suf : String} {frame : List Name} {p : Parent} {deps : List Dep}
    {c : Name} (hc : c ∈ frame) (hreq : c ++ suf ∈ p.cols) :
    c ∈ frame.filter (((detProj p deps []).toList.map (sliceSuffix suf.length)).contains ·) := by
  rw [List.mem_filter]
  refine ⟨hc, ?_⟩
  rw [List.contains_iff_mem, List.mem_map]
  exact ⟨c ++ suf, by rw [detProj_toList]; exact parent_mem_union hreq, sliceSuffix_append suf c⟩

/-! ### string cancellation, Concat -/

theorem append_left_inj' {pre a b : String} (h : pre ++ a = pre ++ b) : a = b := by
  have := congrArg String.toList h
  rw [String.toList_append, String.toList_append] at this
  have := List.append_cancel_left this
  rw [← String.ofList_toList (s := a), ← String.ofList_toList (s := b), this]

theorem append_right_inj' {suf a b : String} (h : a ++ suf = b ++ suf) : a = b := by
  have := congrArg String.toList h
  rw [String.toList_append, String.toList_append] at this
  have := List.append_cancel_right this
  rw [← String.ofList_toList (s := a), ← String.ofList_toList (s := b), this]

theorem concat_spec {axis1 inner : Bool} {frames : List (List Name)} {p : Parent} {deps : List Dep} {rw : Rw}
    (h : concat axis1 inner frames p deps = some rw) :
    rw.childs = frames.map (concatChild axis1 (detProj p deps []).toList) ∧
    rw.dropped = frames.map (concatDropped axis1 (detProj p deps []).toList) := by
  unfold concat at h
  simp only at h
  split at h
  · cases h
  · cases h; exact ⟨rfl, rfl⟩

theorem concatChild_cases (axis1 : Bool) (columns f : List Name) :
    concatChild axis1 columns f = none ∨
      concatChild axis1 columns f = some (.many (concatKeepCols axis1 columns f)) := by
  unfold concatChild
  simp only
  split
  · exact Or.inl rfl
  · exact Or.inr rfl

/-- what an input keeps is either its requested columns or, when it has none of them and rows are stacked, its
    first column -/
theorem concatKeepCols_cases (axis1 : Bool) (columns f : List Name) :
    concatKeepCols axis1 columns f = f.filter (columns.contains ·) ∨
      (axis1 = false ∧ f.filter (columns.contains ·) = [] ∧ concatKeepCols axis1 columns f = f.take 1) := by
  unfold concatKeepCols
  simp only
  split
  · rename_i h
    simp only [Bool.and_eq_true, Bool.not_eq_true', List.isEmpty_iff] at h
    exact Or.inr ⟨h.1, h.2, rfl⟩
  · exact Or.inl rfl

/-- a sub-schema that contains the requested columns of the input -/
theorem concatKeepCols_adequate (axis1 : Bool) (f : List Name) (p : Parent) (deps : List Dep) :
    Adequate f [] p.cols (concatKeepCols axis1 (detProj p deps []).toList f) := by
  rcases concatKeepCols_cases axis1 (detProj p deps []).toList f with h | ⟨_, hnil, h⟩
  · rw [h]; exact adequate_union_contains f p deps []
  · rw [h]
    have had := adequate_union_contains f p deps []
    rw [hnil] at had
    exact {
      sub := fun c hc => List.mem_of_mem_take hc
      nodup := fun hn => List.Nodup.sublist (List.take_sublist 1 f) hn
      keys := fun k hk _ => by cases hk
      req := fun c hc hf => by cases had.req c hc hf }

/-- D85: stacking rows, an input that has columns keeps at least one of them -/
theorem concatKeepCols_ne_nil (columns f : List Name) (hf : f ≠ []) : concatKeepCols false columns f ≠ [] := by
  rcases concatKeepCols_cases false columns f with h | ⟨_, _, h⟩
  · unfold concatKeepCols at h ⊢
    simp only [Bool.not_false, Bool.true_and] at h ⊢
    split
    · cases f with
      | nil => exact absurd rfl hf
      | cons a t => simp
    · rename_i hne
      simpa [List.isEmpty_iff] using hne
  · rw [h]
    cases f with
    | nil => exact absurd rfl hf
    | cons a t => simp

/-! ### the labels `Concat._meta` declares -/

theorem declaredFrames_of_nonempty {fs : List (List Name)} (h : ∀ f, f ∈ fs → f ≠ []) : declaredFrames fs = fs := by
  apply List.filter_eq_self.mpr
  intro f hf
  cases f with
  | nil => exact absurd rfl (h [] hf)
  | cons _ _ => rfl

theorem flatten_declaredFrames : ∀ fs : List (List Name), (declaredFrames fs).flatten = fs.flatten
  | [] => rfl
  | [] :: fs => by
    have := flatten_declaredFrames fs
    simpa [declaredFrames] using this
  | (a :: t) :: fs => by
    have := flatten_declaredFrames fs
    simp only [declaredFrames, List.filter_cons, List.isEmpty_cons, Bool.not_false, if_true, List.flatten_cons] at this ⊢
    rw [this]

/-- stacking rows with `join="outer"`: the first-seen union of all labels, whatever inputs have no columns -/
theorem concatCols_outer_flatten (fs : List (List Name)) :
    concatCols false false fs = fs.flatten.foldl (fun acc c => if acc.contains c then acc else acc ++ [c]) [] := by
  cases fs with
  | nil => rfl
  | cons f fs => simp only [concatCols, Bool.false_eq_true, if_false]

/-- … so leaving the inputs without columns out changes nothing -/
theorem concatLabels_outer (fs : List (List Name)) : concatLabels false false fs = concatCols false false fs := by
  unfold concatLabels
  rw [concatCols_outer_flatten, concatCols_outer_flatten, flatten_declaredFrames]

theorem concatLabels_of_nonempty (axis1 inner : Bool) {fs : List (List Name)} (h : ∀ f, f ∈ fs → f ≠ []) :
    concatLabels axis1 inner fs = concatCols axis1 inner fs := by
  unfold concatLabels
  rw [declaredFrames_of_nonempty h]

/-- the parent projection is dropped only when the labels the new Concat DECLARES are exactly the requested list -/
theorem concat_nokeep {axis1 inner : Bool} {frames : List (List Name)} {p : Parent} {deps : List Dep} {rw : Rw}
    (h : concat axis1 inner frames p deps = some rw) (hk : rw.keep = false) :
    concatLabels axis1 inner (((frames.filter (fun f => !concatDropped axis1 (detProj p deps []).toList f)).map
        (concatKeepCols axis1 (detProj p deps []).toList))) = p.cols ∧ p.ndim1 = false := by
  unfold concat at h
  simp only at h
  split at h
  · cases h
  · cases h
    simp only [Bool.not_eq_false', Bool.and_eq_true, decide_eq_true_eq, Bool.not_eq_true'] at hk
    exact ⟨by rw [hk.1, Parent.operand_toList], hk.2⟩

end Dx.Cols
