/-
  Lemmas/ColsMerge.lean — closed forms of the two loops of Merge._simplify_up and what the pushed lists contain
-/
import DxModel.Cols
import DxModel.Lemmas.Cols
import DxModel.Lemmas.ColsSem
namespace Dx.Cols

/-- left loop: a left column is kept -/
def mA (m : MergeP) (proj : List Name) (c : Name) : Bool :=
  m.leftOn.contains c || proj.contains c || proj.contains (c ++ m.ls)

/-- left loop: a right column is kept as the collision partner of a suffixed left column -/
def mB (m : MergeP) (R proj : List Name) (c : Name) : Bool :=
  !(m.leftOn.contains c || proj.contains c) && proj.contains (c ++ m.ls) && R.contains c

theorem leftPass_eq (m : MergeP) (R proj l pl pr : List Name) :
    mergeLeftPass m R proj l (pl, pr) = (pl ++ l.filter (mA m proj), pr ++ l.filter (mB m R proj)) := by
  induction l generalizing pl pr with
  | nil => simp [mergeLeftPass]
  | cons col rest ih =>
    unfold mergeLeftPass
    by_cases h1 : (m.leftOn.contains col || proj.contains col) = true
    · rw [if_pos h1, ih]
      have hA : mA m proj col = true := by simp only [mA, h1, Bool.true_or]
      have hB : mB m R proj col = false := by simp only [mB, h1, Bool.not_true, Bool.false_and]
      simp [hA, hB]
    · rw [if_neg h1]
      have h1' : (m.leftOn.contains col || proj.contains col) = false := by simpa using h1
      by_cases h2 : proj.contains (col ++ m.ls) = true
      · rw [if_pos h2]
        have hA : mA m proj col = true := by simp only [mA, h2, Bool.or_true]
        by_cases h3 : R.contains col = true
        · have hB : mB m R proj col = true := by simp only [mB, h1', h2, h3, Bool.not_false, Bool.and_self]
          rw [if_pos h3, ih]
          simp [hA, hB]
        · have h3' : R.contains col = false := by simpa using h3
          have hB : mB m R proj col = false := by simp only [mB, h3', Bool.and_false]
          rw [if_neg h3, ih]
          simp [hA, hB]
      · rw [if_neg h2, ih]
        have h2' : proj.contains (col ++ m.ls) = false := by simpa using h2
        have hA : mA m proj col = false := by simp only [mA, h1', h2', Bool.or_self]
        have hB : mB m R proj col = false := by simp only [mB, h2', Bool.and_false, Bool.false_and]
        simp [hA, hB]

/-- right loop: a right column is appended -/
def mH (m : MergeP) (proj pr0 : List Name) (c : Name) : Bool :=
  !pr0.contains c && (m.rightOn.contains c || proj.contains c || proj.contains (c ++ m.rs))

/-- right loop: a left column is appended as the collision partner of a suffixed right column -/
def mG (m : MergeP) (L proj pl0 pr0 : List Name) (c : Name) : Bool :=
  !pr0.contains c && !(m.rightOn.contains c || proj.contains c) && proj.contains (c ++ m.rs) &&
    L.contains c && !pl0.contains c

theorem filter_contains_false {l : List Name} {pred : Name → Bool} {c : Name} (h : pred c = false) :
    (l.filter pred).contains c = false := by
  by_cases hh : (l.filter pred).contains c = true
  · have := (List.mem_filter.mp (List.contains_iff_mem.mp hh)).2
    rw [h] at this; cases this
  · simpa using hh

theorem contains_snoc_ne {l : List Name} {x col : Name} (h : x ≠ col) : (l ++ [col]).contains x = l.contains x := by
  rw [List.contains_append]
  have : [col].contains x = false := by simpa using h
  rw [this, Bool.or_false]

theorem rightPass_eq (m : MergeP) (L proj rest pl pr : List Name) (hnd : rest.Nodup) :
    mergeRightPass m L proj rest (pl, pr) =
      (pl ++ rest.filter (mG m L proj pl pr), pr ++ rest.filter (mH m proj pr)) := by
  induction rest generalizing pl pr with
  | nil => simp [mergeRightPass]
  | cons col t ih =>
    rw [List.nodup_cons] at hnd
    obtain ⟨hcol, hnt⟩ := hnd
    have hne : ∀ x, x ∈ t → x ≠ col := fun x hx he => hcol (he ▸ hx)
    unfold mergeRightPass
    by_cases h0 : pr.contains col = true
    · rw [if_pos h0, ih pl pr hnt]
      have hG : mG m L proj pl pr col = false := by simp only [mG, h0, Bool.not_true, Bool.false_and]
      have hH : mH m proj pr col = false := by simp only [mH, h0, Bool.not_true, Bool.false_and]
      simp [hG, hH]
    · rw [if_neg h0]
      have h0' : pr.contains col = false := by simpa using h0
      -- appending `col` to either list is invisible to the later (distinct) columns
      have hHc : t.filter (mH m proj (pr ++ [col])) = t.filter (mH m proj pr) :=
        List.filter_congr (fun x hx => by simp only [mH, contains_snoc_ne (hne x hx)])
      by_cases h1 : (m.rightOn.contains col || proj.contains col) = true
      · rw [if_pos h1, ih pl (pr ++ [col]) hnt, hHc]
        have hGc : t.filter (mG m L proj pl (pr ++ [col])) = t.filter (mG m L proj pl pr) :=
          List.filter_congr (fun x hx => by simp only [mG, contains_snoc_ne (hne x hx)])
        have hG : mG m L proj pl pr col = false := by simp only [mG, h1, Bool.not_true, Bool.and_false, Bool.false_and]
        have hH : mH m proj pr col = true := by simp only [mH, h0', h1, Bool.not_false, Bool.true_or, Bool.and_self]
        rw [hGc]
        simp [hG, hH]
      · rw [if_neg h1]
        have h1' : (m.rightOn.contains col || proj.contains col) = false := by simpa using h1
        by_cases h2 : proj.contains (col ++ m.rs) = true
        · rw [if_pos h2]
          have hH : mH m proj pr col = true := by simp only [mH, h0', h2, Bool.not_false, Bool.or_true, Bool.and_self]
          by_cases h3 : (L.contains col && !pl.contains col) = true
          · rw [if_pos h3, ih (pl ++ [col]) (pr ++ [col]) hnt, hHc]
            have hGc : t.filter (mG m L proj (pl ++ [col]) (pr ++ [col])) = t.filter (mG m L proj pl pr) :=
              List.filter_congr (fun x hx => by simp only [mG, contains_snoc_ne (hne x hx)])
            have hG : mG m L proj pl pr col = true := by
              simp only [Bool.and_eq_true] at h3
              simp only [mG, h0', h1', h2, h3.1, h3.2, Bool.not_false, Bool.and_self]
            rw [hGc]
            simp [hG, hH]
          · rw [if_neg h3, ih pl (pr ++ [col]) hnt, hHc]
            have hGc : t.filter (mG m L proj pl (pr ++ [col])) = t.filter (mG m L proj pl pr) :=
              List.filter_congr (fun x hx => by simp only [mG, contains_snoc_ne (hne x hx)])
            have h3' : (L.contains col && !pl.contains col) = false := by simpa using h3
            have hG : mG m L proj pl pr col = false := by
              simp only [mG, Bool.and_assoc, h3', Bool.and_false]
            rw [hGc]
            simp [hG, hH]
        · rw [if_neg h2, ih pl pr hnt]
          have h2' : proj.contains (col ++ m.rs) = false := by simpa using h2
          have hG : mG m L proj pl pr col = false := by simp only [mG, h2', Bool.and_false, Bool.false_and]
          have hH : mH m proj pr col = false := by simp only [mH, h1', h2', Bool.or_self, Bool.and_false]
          simp [hG, hH]

/-- closed form of both pushed lists (right schema without duplicates) -/
theorem mergeLists_eq (m : MergeP) (L R proj : List Name) (hR : R.Nodup) :
    mergeLists m L R proj =
      (L.filter (mA m proj) ++ R.filter (mG m L proj (L.filter (mA m proj)) (L.filter (mB m R proj))),
       L.filter (mB m R proj) ++ R.filter (mH m proj (L.filter (mB m R proj)))) := by
  unfold mergeLists
  rw [leftPass_eq, List.nil_append, List.nil_append, rightPass_eq _ _ _ _ _ _ hR]

section props
variable (m : MergeP) (L R proj : List Name)

theorem mB_imp_mA {c : Name} (h : mB m R proj c = true) : mA m proj c = true := by
  simp only [mB, Bool.and_eq_true] at h
  simp only [mA, h.1.2, Bool.or_true]

theorem merge_left_sub (hR : R.Nodup) : ∀ c, c ∈ (mergeLists m L R proj).1 → c ∈ L := by
  rw [mergeLists_eq m L R proj hR]
  intro c hc
  rcases List.mem_append.mp hc with h | h
  · exact (List.mem_filter.mp h).1
  · have := (List.mem_filter.mp h).2
    simp only [mG, Bool.and_eq_true] at this
    exact List.contains_iff_mem.mp this.1.2

theorem merge_right_sub (hR : R.Nodup) : ∀ c, c ∈ (mergeLists m L R proj).2 → c ∈ R := by
  rw [mergeLists_eq m L R proj hR]
  intro c hc
  rcases List.mem_append.mp hc with h | h
  · have := (List.mem_filter.mp h).2
    simp only [mB, Bool.and_eq_true] at this
    exact List.contains_iff_mem.mp this.2
  · exact (List.mem_filter.mp h).1

theorem merge_left_nodup (hL : L.Nodup) (hR : R.Nodup) : (mergeLists m L R proj).1.Nodup := by
  rw [mergeLists_eq m L R proj hR, List.nodup_append]
  refine ⟨List.Nodup.sublist List.filter_sublist hL, List.Nodup.sublist List.filter_sublist hR, ?_⟩
  intro a ha b hb hab
  subst hab
  have := (List.mem_filter.mp hb).2
  simp only [mG, Bool.and_eq_true, Bool.not_eq_true'] at this
  have hc : (L.filter (mA m proj)).contains a = true := List.contains_iff_mem.mpr ha
  rw [this.2] at hc
  cases hc

theorem merge_right_nodup (hL : L.Nodup) (hR : R.Nodup) : (mergeLists m L R proj).2.Nodup := by
  rw [mergeLists_eq m L R proj hR, List.nodup_append]
  refine ⟨List.Nodup.sublist List.filter_sublist hL, List.Nodup.sublist List.filter_sublist hR, ?_⟩
  intro a ha b hb hab
  subst hab
  have := (List.mem_filter.mp hb).2
  simp only [mH, Bool.and_eq_true, Bool.not_eq_true'] at this
  have hc : (L.filter (mB m R proj)).contains a = true := List.contains_iff_mem.mpr ha
  rw [this.1] at hc
  cases hc

/-- join keys are always kept -/
theorem merge_left_keys (hR : R.Nodup) {k : Name} (hk : k ∈ m.leftOn) (hkL : k ∈ L) :
    k ∈ (mergeLists m L R proj).1 := by
  rw [mergeLists_eq m L R proj hR]
  apply List.mem_append_left
  rw [List.mem_filter]
  exact ⟨hkL, by simp only [mA, List.contains_iff_mem.mpr hk, Bool.true_or]⟩

theorem merge_right_keys (hR : R.Nodup) {k : Name} (hk : k ∈ m.rightOn) (hkR : k ∈ R) :
    k ∈ (mergeLists m L R proj).2 := by
  rw [mergeLists_eq m L R proj hR]
  by_cases h : (L.filter (mB m R proj)).contains k = true
  · exact List.mem_append_left _ (List.contains_iff_mem.mp h)
  · apply List.mem_append_right
    rw [List.mem_filter]
    have h' : (L.filter (mB m R proj)).contains k = false := by simpa using h
    exact ⟨hkR, by simp only [mH, h', List.contains_iff_mem.mpr hk, Bool.not_false, Bool.true_or, Bool.and_self]⟩

/-- anything mentioned in the request under its own name is kept on the right -/
theorem merge_right_of_proj (hR : R.Nodup) {c : Name} (hc : c ∈ R) (hp : proj.contains c = true) :
    c ∈ (mergeLists m L R proj).2 := by
  rw [mergeLists_eq m L R proj hR]
  by_cases h : (L.filter (mB m R proj)).contains c = true
  · exact List.mem_append_left _ (List.contains_iff_mem.mp h)
  · apply List.mem_append_right
    rw [List.mem_filter]
    have h' : (L.filter (mB m R proj)).contains c = false := by simpa using h
    exact ⟨hc, by simp only [mH, h', hp, Bool.not_false, Bool.or_true, Bool.true_or, Bool.and_self]⟩

/-- source of a requested left label is kept, and so is its collision partner:
    needs that a left join key which also names a right column is a key common to both sides (N1 otherwise) -/
theorem merge_left_source (hR : R.Nodup)
    (hkey : ∀ c, c ∈ m.leftOn → c ∈ R → commonKey m c = true)
    {c : Name} (hc : c ∈ L) (hreq : proj.contains (labelL m R c) = true) :
    c ∈ (mergeLists m L R proj).1 ∧
    ((R.contains c && !commonKey m c) = true → c ∈ (mergeLists m L R proj).2) := by
  constructor
  · rw [mergeLists_eq m L R proj hR]
    apply List.mem_append_left
    rw [List.mem_filter]
    refine ⟨hc, ?_⟩
    unfold labelL at hreq
    split at hreq
    · simp only [mA, hreq, Bool.or_true]
    · simp only [mA, hreq, Bool.or_true, Bool.true_or]
  · intro hcol
    have hlab : labelL m R c = c ++ m.ls := by simp only [labelL, hcol, if_true]
    rw [hlab] at hreq
    simp only [Bool.and_eq_true, Bool.not_eq_true'] at hcol
    have hcR : c ∈ R := List.contains_iff_mem.mp hcol.1
    by_cases hB : mB m R proj c = true
    · rw [mergeLists_eq m L R proj hR]
      exact List.mem_append_left _ (List.mem_filter.mpr ⟨hc, hB⟩)
    · -- not taken in the left loop's second branch: the first branch fired
      have hfirst : (m.leftOn.contains c || proj.contains c) = true := by
        by_cases hf : (m.leftOn.contains c || proj.contains c) = true
        · exact hf
        · exfalso; apply hB
          have hf' : (m.leftOn.contains c || proj.contains c) = false := by simpa using hf
          simp only [mB, hf', hreq, hcol.1, Bool.not_false, Bool.and_self]
      rcases Bool.or_eq_true _ _ |>.mp hfirst with hk | hp
      · have := hkey c (List.contains_iff_mem.mp hk) hcR
        rw [hcol.2] at this; cases this
      · exact merge_right_of_proj m L R proj hR hcR hp

/-- source of a requested right label is kept, and so is its collision partner -/
theorem merge_right_source (hR : R.Nodup)
    (hkey : ∀ c, c ∈ m.rightOn → c ∈ L → commonKey m c = true)
    {c : Name} (hc : c ∈ R) (hreq : proj.contains (labelR m L c) = true) :
    c ∈ (mergeLists m L R proj).2 ∧
    ((L.contains c && !commonKey m c) = true → c ∈ (mergeLists m L R proj).1) := by
  have hright : c ∈ (mergeLists m L R proj).2 := by
    rw [mergeLists_eq m L R proj hR]
    by_cases h : (L.filter (mB m R proj)).contains c = true
    · exact List.mem_append_left _ (List.contains_iff_mem.mp h)
    · apply List.mem_append_right
      rw [List.mem_filter]
      have h' : (L.filter (mB m R proj)).contains c = false := by simpa using h
      refine ⟨hc, ?_⟩
      unfold labelR at hreq
      split at hreq
      · simp only [mH, h', hreq, Bool.not_false, Bool.or_true, Bool.and_self]
      · simp only [mH, h', hreq, Bool.not_false, Bool.or_true, Bool.true_or, Bool.and_self]
  refine ⟨hright, ?_⟩
  intro hcol
  have hlab : labelR m L c = c ++ m.rs := by simp only [labelR, hcol, if_true]
  rw [hlab] at hreq
  simp only [Bool.and_eq_true, Bool.not_eq_true'] at hcol
  have hcL : c ∈ L := List.contains_iff_mem.mp hcol.1
  rw [mergeLists_eq m L R proj hR]
  by_cases hA : mA m proj c = true
  · exact List.mem_append_left _ (List.mem_filter.mpr ⟨hcL, hA⟩)
  · apply List.mem_append_right
    rw [List.mem_filter]
    refine ⟨hc, ?_⟩
    have hA' : mA m proj c = false := by simpa using hA
    simp only [mA, Bool.or_eq_false_iff] at hA'
    have hAf : mA m proj c = false := by simpa using hA
    have hpl : (L.filter (mA m proj)).contains c = false := filter_contains_false hAf
    have hpr : (L.filter (mB m R proj)).contains c = false := by
      apply filter_contains_false
      by_cases hb : mB m R proj c = true
      · have := mB_imp_mA m R proj hb
        rw [hAf] at this; cases this
      · simpa using hb
    have hro : m.rightOn.contains c = false := by
      by_cases hh : m.rightOn.contains c = true
      · have := hkey c (List.contains_iff_mem.mp hh) hcL
        rw [hcol.2] at this; cases this
      · simpa using hh
    simp only [mG, hpr, hro, hA'.1.2, hreq, hcol.1, hpl, Bool.not_false, Bool.or_self, Bool.and_self]

end props

/-! ### labels of the pruned merge -/

/-- a join key that also names a column of the other side must be a key common to both sides -/
def KeysDoNotCollide (m : MergeP) (L R : List Name) : Prop :=
  (∀ c, c ∈ m.leftOn → c ∈ R → commonKey m c = true) ∧ (∀ c, c ∈ m.rightOn → c ∈ L → commonKey m c = true)

theorem labelL_pruned (m : MergeP) (R pr : List Name) (c : Name) (hsub : ∀ x, x ∈ pr → x ∈ R)
    (hpart : (R.contains c && !commonKey m c) = true → c ∈ pr) : labelL m pr c = labelL m R c := by
  unfold labelL
  by_cases hcol : (R.contains c && !commonKey m c) = true
  · have hc := hpart hcol
    simp only [Bool.and_eq_true] at hcol
    rw [if_pos (by rw [Bool.and_eq_true]; exact ⟨List.contains_iff_mem.mpr hc, hcol.2⟩),
        if_pos (by rw [Bool.and_eq_true]; exact ⟨hcol.1, hcol.2⟩)]
  · rw [if_neg hcol]
    have : ¬(pr.contains c && !commonKey m c) = true := by
      intro hh
      simp only [Bool.and_eq_true] at hh
      apply hcol
      rw [Bool.and_eq_true]
      exact ⟨List.contains_iff_mem.mpr (hsub c (List.contains_iff_mem.mp hh.1)), hh.2⟩
    rw [if_neg this]

theorem labelR_pruned (m : MergeP) (L pl : List Name) (c : Name) (hsub : ∀ x, x ∈ pl → x ∈ L)
    (hpart : (L.contains c && !commonKey m c) = true → c ∈ pl) : labelR m pl c = labelR m L c := by
  unfold labelR
  by_cases hcol : (L.contains c && !commonKey m c) = true
  · have hc := hpart hcol
    simp only [Bool.and_eq_true] at hcol
    rw [if_pos (by rw [Bool.and_eq_true]; exact ⟨List.contains_iff_mem.mpr hc, hcol.2⟩),
        if_pos (by rw [Bool.and_eq_true]; exact ⟨hcol.1, hcol.2⟩)]
  · rw [if_neg hcol]
    have : ¬(pl.contains c && !commonKey m c) = true := by
      intro hh
      simp only [Bool.and_eq_true] at hh
      apply hcol
      rw [Bool.and_eq_true]
      exact ⟨List.contains_iff_mem.mpr (hsub c (List.contains_iff_mem.mp hh.1)), hh.2⟩
    rw [if_neg this]

/-! ### the pruned join keeps the labels of the columns it keeps -/

/-- the collision partner of every kept left column is kept on the right -/
theorem merge_left_twin {m : MergeP} {L R proj : List Name} (hR : R.Nodup) (hk : KeysDoNotCollide m L R) {c : Name}
    (hc : c ∈ (mergeLists m L R proj).1) (h : (R.contains c && !commonKey m c) = true) :
    c ∈ (mergeLists m L R proj).2 := by
  simp only [Bool.and_eq_true, Bool.not_eq_true'] at h
  obtain ⟨hcR, hck⟩ := h
  have hcRm : c ∈ R := List.contains_iff_mem.mp hcR
  rw [mergeLists_eq m L R proj hR] at hc ⊢
  rcases List.mem_append.mp hc with h1 | h1
  · -- kept by the left loop
    have hA := (List.mem_filter.mp h1).2
    have hcL := (List.mem_filter.mp h1).1
    simp only [mA, Bool.or_eq_true] at hA
    rcases hA with (hkey | hp) | hs
    · have := hk.1 c (List.contains_iff_mem.mp hkey) hcRm
      rw [hck] at this; cases this
    · have := merge_right_of_proj m L R proj hR hcRm hp
      rw [mergeLists_eq m L R proj hR] at this
      exact this
    · by_cases hkp : (m.leftOn.contains c || proj.contains c) = true
      · rcases Bool.or_eq_true _ _ ▸ hkp with hkey | hp
        · have := hk.1 c (List.contains_iff_mem.mp hkey) hcRm
          rw [hck] at this; cases this
        · have := merge_right_of_proj m L R proj hR hcRm hp
          rw [mergeLists_eq m L R proj hR] at this
          exact this
      · apply List.mem_append_left
        rw [List.mem_filter]
        refine ⟨hcL, ?_⟩
        have hkp' : (m.leftOn.contains c || proj.contains c) = false := by simpa using hkp
        simp only [mB, hkp', Bool.not_false, hs, hcR, Bool.and_self]
  · -- appended by the right loop as the partner of a suffixed right column
    have hG := (List.mem_filter.mp h1).2
    simp only [mG, Bool.and_eq_true, Bool.not_eq_true'] at hG
    obtain ⟨⟨⟨⟨hnpr, hnk⟩, hs⟩, _⟩, _⟩ := hG
    apply List.mem_append_right
    rw [List.mem_filter]
    refine ⟨hcRm, ?_⟩
    simp only [mH, hnpr, Bool.not_false, Bool.true_and, hs, Bool.or_true]

/-- … and symmetrically -/
theorem merge_right_twin {m : MergeP} {L R proj : List Name} (hR : R.Nodup) (hk : KeysDoNotCollide m L R) {c : Name}
    (hc : c ∈ (mergeLists m L R proj).2) (h : (L.contains c && !commonKey m c) = true) :
    c ∈ (mergeLists m L R proj).1 := by
  simp only [Bool.and_eq_true, Bool.not_eq_true'] at h
  obtain ⟨hcL, hck⟩ := h
  have hcLm : c ∈ L := List.contains_iff_mem.mp hcL
  rw [mergeLists_eq m L R proj hR] at hc ⊢
  rcases List.mem_append.mp hc with h1 | h1
  · exact List.mem_append_left _ (List.mem_filter.mpr ⟨hcLm, mB_imp_mA m R proj (List.mem_filter.mp h1).2⟩)
  · have hH := (List.mem_filter.mp h1).2
    have hcR := (List.mem_filter.mp h1).1
    simp only [mH, Bool.and_eq_true, Bool.not_eq_true', Bool.or_eq_true] at hH
    obtain ⟨hnpr, hcase⟩ := hH
    rcases hcase with (hkey | hp) | hs
    · have := hk.2 c (List.contains_iff_mem.mp hkey) hcLm
      rw [hck] at this; cases this
    · apply List.mem_append_left
      rw [List.mem_filter]
      exact ⟨hcLm, by simp only [mA, hp, Bool.or_true, Bool.true_or]⟩
    · by_cases hkp : (m.rightOn.contains c || proj.contains c) = true
      · rcases Bool.or_eq_true _ _ ▸ hkp with hkey | hp
        · have := hk.2 c (List.contains_iff_mem.mp hkey) hcLm
          rw [hck] at this; cases this
        · apply List.mem_append_left
          rw [List.mem_filter]
          exact ⟨hcLm, by simp only [mA, hp, Bool.or_true, Bool.true_or]⟩
      · have hkp' : (m.rightOn.contains c || proj.contains c) = false := by simpa using hkp
        by_cases hpl : (L.filter (mA m proj)).contains c = true
        · exact List.mem_append_left _ (List.contains_iff_mem.mp hpl)
        · have hpl' : (L.filter (mA m proj)).contains c = false := by simpa using hpl
          apply List.mem_append_right
          rw [List.mem_filter]
          refine ⟨hcR, ?_⟩
          simp only [mG, hnpr, Bool.not_false, hkp', hs, hcL, hpl', Bool.and_self]

/-- labels of the kept left columns are what they were -/
theorem labelL_kept {m : MergeP} {L R proj : List Name} (hR : R.Nodup) (hk : KeysDoNotCollide m L R) {c : Name}
    (hc : c ∈ (mergeLists m L R proj).1) : labelL m (mergeLists m L R proj).2 c = labelL m R c :=
  labelL_pruned m _ _ c (merge_right_sub m L R proj hR) (merge_left_twin hR hk hc)

theorem labelR_kept {m : MergeP} {L R proj : List Name} (hR : R.Nodup) (hk : KeysDoNotCollide m L R) {c : Name}
    (hc : c ∈ (mergeLists m L R proj).2) : labelR m (mergeLists m L R proj).1 c = labelR m L c :=
  labelR_pruned m _ _ c (merge_left_sub m L R proj hR) (merge_right_twin hR hk hc)

/-- the result labels of the pruned join are duplicate-free when those of the join are -/
theorem mergeLabels_pruned_nodup {m : MergeP} {L R proj : List Name} (hL : L.Nodup) (hR : R.Nodup)
    (hk : KeysDoNotCollide m L R) (hn : (mergeLabels m L R).Nodup) :
    (mergeLabels m (mergeLists m L R proj).1 (mergeLists m L R proj).2).Nodup := by
  have hplsub := merge_left_sub m L R proj hR
  have hprsub := merge_right_sub m L R proj hR
  have hplnd := merge_left_nodup m L R proj hL hR
  have hprnd := merge_right_nodup m L R proj hL hR
  unfold mergeLabels at hn ⊢
  rw [List.nodup_append] at hn
  rw [List.map_congr_left (fun x hx => labelL_kept (proj := proj) hR hk hx),
    List.map_congr_left (fun x hx => labelR_kept (proj := proj) hR hk (List.mem_filter.mp hx).1), List.nodup_append]
  refine ⟨?_, ?_, ?_⟩
  · exact nodup_map_of_inj _ _ hplnd (fun x y hx hy he =>
      inj_of_nodup_map _ _ hn.1 x y (hplsub x hx) (hplsub y hy) he)
  · exact nodup_map_of_inj _ _ (List.Nodup.sublist List.filter_sublist hprnd) (fun x y hx hy he =>
      inj_of_nodup_map _ _ hn.2.1 x y
        (List.mem_filter.mpr ⟨hprsub x (List.mem_filter.mp hx).1, (List.mem_filter.mp hx).2⟩)
        (List.mem_filter.mpr ⟨hprsub y (List.mem_filter.mp hy).1, (List.mem_filter.mp hy).2⟩) he)
  · intro x hx y hy hxy
    obtain ⟨x0, hx0, rfl⟩ := List.mem_map.mp hx
    obtain ⟨y0, hy0, rfl⟩ := List.mem_map.mp hy
    exact hn.2.2 _ (List.mem_map.mpr ⟨x0, hplsub x0 hx0, rfl⟩) _
      (List.mem_map.mpr ⟨y0, List.mem_filter.mpr ⟨hprsub y0 (List.mem_filter.mp hy0).1, (List.mem_filter.mp hy0).2⟩, rfl⟩) hxy

end Dx.Cols
