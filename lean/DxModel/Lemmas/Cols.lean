/-
  Lemmas/Cols.lean — list facts and the inclusion lemmas of determine_column_projection used by Props/C04.lean
-/
import DxModel.Cols
namespace Dx.Cols

/-! ### python helpers -/

theorem isPrefixOf_refl' (l : List Char) : l.isPrefixOf l = true := by
  induction l with
  | nil => rfl
  | cons a t ih => simp [List.isPrefixOf, ih]

theorem isInfixL_refl (l : List Char) : isInfixL l l = true := by
  cases l with
  | nil => rfl
  | cons a t => simp [isInfixL, isPrefixOf_refl']

theorem strInfix_refl (c : String) : strInfix c c = true := isInfixL_refl _

theorem mem_insertS {a x : Name} {l : List Name} : a ∈ insertS x l ↔ a = x ∨ a ∈ l := by
  induction l with
  | nil => simp [insertS]
  | cons y ys ih =>
    unfold insertS
    split
    · simp
    · split
      · rename_i h; subst h; simp
      · simp only [List.mem_cons, ih]
        constructor
        · rintro (h | h | h)
          · exact Or.inr (Or.inl h)
          · exact Or.inl h
          · exact Or.inr (Or.inr h)
        · rintro (h | h | h)
          · exact Or.inr (Or.inl h)
          · exact Or.inl h
          · exact Or.inr (Or.inr h)

theorem mem_sortDedup {a : Name} {l : List Name} : a ∈ sortDedup l ↔ a ∈ l := by
  induction l with
  | nil => simp [sortDedup]
  | cons x xs ih =>
    have : sortDedup (x :: xs) = insertS x (sortDedup xs) := rfl
    rw [this, mem_insertS, ih]
    simp

theorem insertK_perm (x : Name) (l : List Name) : (insertK x l).Perm (x :: l) := by
  induction l with
  | nil => exact List.Perm.refl _
  | cons y ys ih =>
    unfold insertK
    split
    · exact List.Perm.refl _
    · exact (List.Perm.cons y ih).trans (List.Perm.swap x y ys)

theorem sortKeep_perm (l : List Name) : (sortKeep l).Perm l := by
  induction l with
  | nil => exact List.Perm.refl _
  | cons x xs ih =>
    have : sortKeep (x :: xs) = insertK x (sortKeep xs) := rfl
    rw [this]
    exact (insertK_perm x _).trans (List.Perm.cons x ih)

theorem mem_sortKeep {a : Name} {l : List Name} : a ∈ sortKeep l ↔ a ∈ l := (sortKeep_perm l).mem_iff

theorem nodup_sortKeep {l : List Name} : (sortKeep l).Nodup ↔ l.Nodup := (sortKeep_perm l).nodup_iff

theorem mem_dedup {a : Name} {l : List Name} : a ∈ dedup l ↔ a ∈ l := by
  induction l with
  | nil => simp [dedup]
  | cons x xs ih =>
    unfold dedup
    split
    · rename_i h
      rw [ih]
      have hx : x ∈ xs := List.contains_iff_mem.mp h
      constructor
      · exact fun h => List.mem_cons_of_mem _ h
      · intro h
        rcases List.mem_cons.mp h with h | h
        · subst h; exact hx
        · exact h
    · simp [ih]

theorem mem_dedupFirst {a : Name} : ∀ {l : List Name}, a ∈ dedupFirst l ↔ a ∈ l
  | [] => by simp [dedupFirst]
  | x :: xs => by
    simp only [dedupFirst, List.mem_cons, List.mem_filter, mem_dedupFirst (l := xs)]
    by_cases h : a = x
    · simp [h]
    · simp [h]

theorem nodup_dedupFirst : ∀ l : List Name, (dedupFirst l).Nodup
  | [] => List.nodup_nil
  | x :: xs => by
    simp only [dedupFirst, List.nodup_cons, List.mem_filter]
    refine ⟨?_, List.Nodup.sublist List.filter_sublist (nodup_dedupFirst xs)⟩
    intro h
    simp at h

theorem mem_assignLabels {frame keys : List Name} {c : Name} : c ∈ assignLabels frame keys ↔ c ∈ frame ∨ c ∈ keys := by
  unfold assignLabels
  simp only [List.mem_append, List.mem_filter, mem_dedupFirst, Bool.not_eq_true', List.contains_eq_mem,
    decide_eq_false_iff_not]
  constructor
  · rintro (h | h)
    · exact Or.inl h
    · exact Or.inr h.1
  · rintro (h | h)
    · exact Or.inl h
    · by_cases hf : c ∈ frame
      · exact Or.inl hf
      · exact Or.inr ⟨h, hf⟩

/-! ### injective label maps -/

theorem inj_of_nodup_map {α : Type} (f : α → Name) : ∀ (l : List α), (l.map f).Nodup →
    ∀ a b, a ∈ l → b ∈ l → f a = f b → a = b
  | [], _, _, _, ha, _, _ => by cases ha
  | x :: t, h, a, b, ha, hb, hab => by
    simp only [List.map_cons, List.nodup_cons, List.mem_map, not_exists, not_and] at h
    rcases List.mem_cons.mp ha with rfl | ha'
    · rcases List.mem_cons.mp hb with rfl | hb'
      · rfl
      · exact absurd hab.symm (h.1 b hb')
    · rcases List.mem_cons.mp hb with rfl | hb'
      · exact absurd hab (h.1 a ha')
      · exact inj_of_nodup_map f t h.2 a b ha' hb' hab

theorem nodup_map_of_inj {α : Type} (f : α → Name) : ∀ (l : List α), l.Nodup →
    (∀ a b, a ∈ l → b ∈ l → f a = f b → a = b) → (l.map f).Nodup
  | [], _, _ => List.nodup_nil
  | x :: t, h, hinj => by
    simp only [List.nodup_cons] at h
    simp only [List.map_cons, List.nodup_cons, List.mem_map, not_exists, not_and]
    refine ⟨?_, nodup_map_of_inj f t h.2 (fun a b ha hb => hinj a b (by simp [ha]) (by simp [hb]))⟩
    intro y hy hfy
    have := hinj y x (by simp [hy]) (by simp) hfy
    subst this
    exact h.1 hy

theorem find?_none_of_not_mem_map {α : Type} (f : α → Name) (l : List α) (c : Name) (h : c ∉ l.map f) :
    l.find? (fun x => f x == c) = none := by
  rw [List.find?_eq_none]
  intro x hx hxc
  exact h (List.mem_map.mpr ⟨x, hx, by simpa using hxc⟩)

theorem find?_eq_of_inj {α : Type} (f : α → Name) (l : List α) (hn : (l.map f).Nodup) {c : α} (hc : c ∈ l) :
    l.find? (fun x => f x == f c) = some c := by
  cases hf : l.find? (fun x => f x == f c) with
  | none =>
    rw [List.find?_eq_none] at hf
    exact absurd (by simp) (hf c hc)
  | some c' =>
    have h1 := List.find?_some hf
    have h2 := List.mem_of_find?_eq_some hf
    have := inj_of_nodup_map f l hn c' c h2 hc (by simpa using h1)
    rw [this]

theorem setEq_iff {a b : List Name} : setEq a b = true ↔ ∀ c, c ∈ a ↔ c ∈ b := by
  simp only [setEq, Bool.and_eq_true, List.all_eq_true, List.contains_iff_mem]
  constructor
  · rintro ⟨h1, h2⟩ c; exact ⟨h1 c, h2 c⟩
  · intro h; exact ⟨fun c hc => (h c).mp hc, fun c hc => (h c).mpr hc⟩

theorem strictSub_sub {a b : List Name} (h : strictSub a b = true) : ∀ c, c ∈ a → c ∈ b := by
  simp only [strictSub, Bool.and_eq_true, List.all_eq_true, List.contains_iff_mem] at h
  exact h.1

@[simp] theorem Sel.toList_many (cs : List Name) : (Sel.many cs).toList = cs := rfl
@[simp] theorem Sel.toList_one (c : Name) : (Sel.one c).toList = [c] := rfl

/-! ### determine_column_projection -/

theorem mem_unionCols {c : Name} {p : Parent} {deps : List Dep} {extra : List Name} :
    c ∈ unionCols p deps extra ↔ c ∈ p.cols ∨ (∃ d, d ∈ deps ∧ c ∈ d.cols) ∨ c ∈ extra := by
  simp only [unionCols, mem_sortDedup, List.mem_append, List.mem_flatMap, or_assoc]

theorem detProj_toList (p : Parent) (deps : List Dep) (extra : List Name) :
    (detProj p deps extra).toList = unionCols p deps extra := by
  unfold detProj
  split
  · split <;> simp_all [Sel.toList]
  · rfl

/-- `c in columns` holds for every member of the union (and, for one string, for its substrings too) -/
theorem detProj_has {c : Name} {p : Parent} {deps : List Dep} {extra : List Name}
    (h : c ∈ unionCols p deps extra) : (detProj p deps extra).has c = true := by
  have ht := detProj_toList p deps extra
  cases hs : detProj p deps extra with
  | many cs =>
    rw [hs] at ht
    simp only [Sel.toList] at ht
    simp only [Sel.has, List.contains_iff_mem, ht, h]
  | one s =>
    rw [hs] at ht
    simp only [Sel.toList] at ht
    rw [← ht] at h
    have : c = s := by simpa using h
    subst this
    exact strInfix_refl c

theorem detProj_contains {c : Name} {p : Parent} {deps : List Dep} {extra : List Name} :
    (detProj p deps extra).toList.contains c = true ↔ c ∈ unionCols p deps extra := by
  rw [detProj_toList, List.contains_iff_mem]

theorem parent_mem_union {c : Name} {p : Parent} {deps : List Dep} {extra : List Name} (h : c ∈ p.cols) :
    c ∈ unionCols p deps extra := mem_unionCols.mpr (Or.inl h)

theorem extra_mem_union {c : Name} {p : Parent} {deps : List Dep} {extra : List Name} (h : c ∈ extra) :
    c ∈ unionCols p deps extra := mem_unionCols.mpr (Or.inr (Or.inr h))

theorem dep_mem_union {c : Name} {p : Parent} {deps : List Dep} {extra : List Name} {d : Dep}
    (hd : d ∈ deps) (h : c ∈ d.cols) : c ∈ unionCols p deps extra :=
  mem_unionCols.mpr (Or.inr (Or.inl ⟨d, hd, h⟩))

/-- the scalar collapse happens only for a scalar selection of exactly that label (frame inputs) -/
theorem detProj_one {p : Parent} {deps : List Dep} {extra : List Name} {s : Name}
    (h : detProj p deps extra = .one s) : unionCols p deps extra = [s] ∧ p.ndim1 = true := by
  unfold detProj at h
  split at h
  · rename_i c hc
    split at h
    · rename_i hn
      simp only [Bool.and_eq_true] at hn
      cases h
      exact ⟨hc, hn.1⟩
    · cases h
  · cases h

/-! ### what a pruned input must contain -/

/-- `child` is an adequate replacement of the input schema `frame` for an operator with key columns `keys`
    under a request `P`: a duplicate-free sub-schema that still has the keys and everything requested -/
structure Adequate (frame keys P child : List Name) : Prop where
  sub : ∀ c, c ∈ child → c ∈ frame
  nodup : frame.Nodup → child.Nodup
  keys : ∀ k, k ∈ keys → k ∈ frame → k ∈ child
  req : ∀ c, c ∈ P → c ∈ frame → c ∈ child

theorem adequate_filter (frame keys P : List Name) (pred : Name → Bool)
    (hk : ∀ k, k ∈ keys → pred k = true) (hp : ∀ c, c ∈ P → pred c = true) :
    Adequate frame keys P (frame.filter pred) where
  sub := fun _ h => (List.mem_filter.mp h).1
  nodup := fun h => List.Nodup.sublist List.filter_sublist h
  keys := fun k hk1 hk2 => List.mem_filter.mpr ⟨hk2, hk k hk1⟩
  req := fun c hc1 hc2 => List.mem_filter.mpr ⟨hc2, hp c hc1⟩

theorem adequate_perm {frame keys P child child' : List Name} (h : Adequate frame keys P child)
    (hp : child'.Perm child) : Adequate frame keys P child' where
  sub := fun c hc => h.sub c (hp.mem_iff.mp hc)
  nodup := fun hn => hp.nodup_iff.mpr (h.nodup hn)
  keys := fun k h1 h2 => hp.mem_iff.mpr (h.keys k h1 h2)
  req := fun c h1 h2 => hp.mem_iff.mpr (h.req c h1 h2)

/-- the shape shared by most rules: filter the input columns by membership in the union -/
theorem adequate_union_contains (frame : List Name) (p : Parent) (deps : List Dep) (extra : List Name) :
    Adequate frame extra p.cols (frame.filter ((detProj p deps extra).toList.contains ·)) :=
  adequate_filter frame extra p.cols _
    (fun _ hk => detProj_contains.mpr (extra_mem_union hk))
    (fun _ hc => detProj_contains.mpr (parent_mem_union hc))

theorem adequate_union_has (frame : List Name) (p : Parent) (deps : List Dep) (extra : List Name) :
    Adequate frame extra p.cols (frame.filter (detProj p deps extra).has) :=
  adequate_filter frame extra p.cols _
    (fun _ hk => detProj_has (extra_mem_union hk))
    (fun _ hc => detProj_has (parent_mem_union hc))

/-- every listed dependent's reported columns that exist in the input survive (`C04_shared`) -/
theorem shared_contains (frame : List Name) (p : Parent) (deps : List Dep) (extra : List Name)
    (d : Dep) (hd : d ∈ deps) (c : Name) (hc : c ∈ d.cols) (hf : c ∈ frame) :
    c ∈ frame.filter ((detProj p deps extra).toList.contains ·) :=
  List.mem_filter.mpr ⟨hf, detProj_contains.mpr (dep_mem_union hd hc)⟩

theorem shared_has (frame : List Name) (p : Parent) (deps : List Dep) (extra : List Name)
    (d : Dep) (hd : d ∈ deps) (c : Name) (hc : c ∈ d.cols) (hf : c ∈ frame) :
    c ∈ frame.filter (detProj p deps extra).has :=
  List.mem_filter.mpr ⟨hf, detProj_has (dep_mem_union hd hc)⟩

end Dx.Cols
