/-
  Lemmas/MetaPushConcat.lean — `Concat._simplify_up(Projection)` for a row-wise concat (`axis=0`) keeps the declared
  schema of the projection: labels, order, kinds (including the missing-value promotion that a frame without any
  requested column causes — D85) and index.
-/
import DxModel.Lemmas.MetaPush
namespace Dx.Meta
open Dx.Cols (Parent Dep Rw Sel Adequate)

/-! ### looking a label up in the columns of a row-wise concat -/

def presentIn (inner : Bool) (cs : List (List Col)) (y : Name) : Bool :=
  if inner then !cs.isEmpty && cs.all (fun f => (labels f).contains y) else cs.any (fun f => (labels f).contains y)

def kindIn (cs : List (List Col)) (y : Name) : Kind :=
  if cs.all (fun f => (labels f).contains y) then stackKind cs y else (stackKind cs y).na

theorem lookup_map_pair (g : Name → Kind) : ∀ (names : List Name) (y : Name),
    (names.map (fun c => (c, g c))).lookup y = if names.contains y then some (g y) else none
  | [], _ => rfl
  | n :: t, y => by
    simp only [List.map_cons, List.lookup_cons, List.contains_cons]
    cases hb : (y == n) with
    | true =>
      have : y = n := by simpa using hb
      subst this
      simp
    | false => simp only [Bool.false_or]; exact lookup_map_pair g t y

theorem lookup_map_relabel (g : Name → Kind) : ∀ (l : List Col) (y : Name),
    (l.map (fun c => (c.1, g c.1))).lookup y = if (labels l).contains y then some (g y) else none
  | [], _ => rfl
  | (n, k) :: t, y => by
    simp only [List.map_cons, List.lookup_cons, labels, List.contains_cons]
    cases hb : (y == n) with
    | true =>
      have : y = n := by simpa using hb
      subst this
      simp
    | false =>
      simp only [Bool.false_or]
      exact lookup_map_relabel g t y

def step (acc : List Name) (c : Name) : List Name := if acc.contains c then acc else acc ++ [c]

theorem mem_dedupFold : ∀ (l acc : List Name) (y : Name), y ∈ l.foldl step acc ↔ y ∈ acc ∨ y ∈ l
  | [], acc, y => by simp
  | c :: t, acc, y => by
    rw [List.foldl_cons, mem_dedupFold t (step acc c) y]
    unfold step
    by_cases hc : acc.contains c = true
    · rw [if_pos hc]
      constructor
      · rintro (h | h)
        · exact Or.inl h
        · exact Or.inr (List.mem_cons_of_mem _ h)
      · rintro (h | h)
        · exact Or.inl h
        · rcases List.mem_cons.mp h with rfl | h'
          · exact Or.inl (List.contains_iff_mem.mp hc)
          · exact Or.inr h'
    · rw [if_neg hc]
      constructor
      · rintro (h | h)
        · rcases List.mem_append.mp h with h1 | h1
          · exact Or.inl h1
          · have : y = c := by simpa using h1
            exact Or.inr (by rw [this]; simp)
        · exact Or.inr (List.mem_cons_of_mem _ h)
      · rintro (h | h)
        · exact Or.inl (List.mem_append_left _ h)
        · rcases List.mem_cons.mp h with rfl | h'
          · exact Or.inl (List.mem_append_right _ (by simp))
          · exact Or.inr h'

theorem unionNames_eq (frames : List (List Col)) : unionNames frames = (frames.map labels).flatten.foldl step [] := rfl

theorem contains_unionNames (frames : List (List Col)) (y : Name) : (unionNames frames).contains y = frames.any (fun f => (labels f).contains y) := by
  apply Bool.eq_iff_iff.mpr
  rw [List.contains_iff_mem, unionNames_eq, mem_dedupFold]
  simp only [List.not_mem_nil, false_or, List.mem_flatten, List.mem_map, List.any_eq_true]
  constructor
  · rintro ⟨l, ⟨f, hf, rfl⟩, hy⟩
    exact ⟨f, hf, List.contains_iff_mem.mpr hy⟩
  · rintro ⟨f, hf, hy⟩
    exact ⟨labels f, ⟨f, hf, rfl⟩, List.contains_iff_mem.mp hy⟩

theorem labels_filter_contains (f : List Col) (pred : Name → Bool) (y : Name) :
    (labels (f.filter (fun c => pred c.1))).contains y = ((labels f).contains y && pred y) := by
  induction f with
  | nil => rfl
  | cons a t ih =>
    obtain ⟨n, k⟩ := a
    by_cases hp : pred n = true
    · simp only [List.filter_cons, hp, if_true, labels, List.map_cons, List.contains_cons]
      simp only [labels] at ih
      rw [ih]
      cases hb : (y == n) with
      | true =>
        have : y = n := by simpa using hb
        subst this
        simp [hp]
      | false => simp
    · have hp' : pred n = false := by simpa using hp
      simp only [List.filter_cons, hp', Bool.false_eq_true, if_false, labels, List.map_cons, List.contains_cons]
      simp only [labels] at ih
      rw [ih]
      cases hb : (y == n) with
      | true =>
        have : y = n := by simpa using hb
        subst this
        simp [hp']
      | false => simp

/-- the column of a row-wise concat under label `y`: present iff some (outer) / every (inner) input has it, with the
    stacked kind, promoted when an input lacks it -/
theorem rowCols_lookup (inner : Bool) : ∀ (cs : List (List Col)) (y : Name),
    (rowCols inner cs).lookup y = if presentIn inner cs y then some (kindIn cs y) else none
  | [], y => by cases inner <;> rfl
  | f :: fs, y => by
    simp only [rowCols]
    by_cases hid : fs.all (fun g => labels g == labels f) = true
    · rw [if_pos hid, lookup_map_relabel]
      have hsame : ∀ g, g ∈ fs → (labels g).contains y = (labels f).contains y := by
        intro g hg
        have := List.all_eq_true.mp hid g hg
        have : labels g = labels f := by simpa using this
        simp only [this]
      have hall : fs.all (fun f => (labels f).contains y) = ((labels f).contains y || fs.isEmpty) := by
        cases hyf : (labels f).contains y with
        | true =>
          simp only [Bool.true_or]
          apply List.all_eq_true.mpr
          intro g hg; rw [hsame g hg, hyf]
        | false =>
          simp only [Bool.false_or]
          cases fs with
          | nil => rfl
          | cons g u =>
            simp only [List.all_cons, hsame g (by simp), hyf, Bool.false_and, List.isEmpty_cons]
      have hany : fs.any (fun f => (labels f).contains y) = ((labels f).contains y && !fs.isEmpty) := by
        cases hyf : (labels f).contains y with
        | true =>
          cases fs with
          | nil => rfl
          | cons g u => simp only [List.any_cons, hsame g (by simp), hyf, Bool.true_or, List.isEmpty_cons, Bool.not_false, Bool.and_self]
        | false =>
          simp only [Bool.false_and]
          apply Bool.eq_false_iff.mpr
          intro h
          obtain ⟨g, hg, hh⟩ := List.any_eq_true.mp h
          rw [hsame g hg, hyf] at hh; cases hh
      have hpres : presentIn inner (f :: fs) y = (labels f).contains y := by
        cases inner with
        | true =>
          simp only [presentIn, if_true, List.isEmpty_cons, Bool.not_false, Bool.true_and, List.all_cons, hall]
          cases (labels f).contains y <;> simp
        | false =>
          simp only [presentIn, Bool.false_eq_true, if_false, List.any_cons, hany]
          cases (labels f).contains y <;> simp
      rw [hpres]
      show (if (labels f).contains y = true then some (stackKind (f :: fs) y) else none) = _
      cases hyf : (labels f).contains y with
      | false => simp
      | true =>
        simp only [if_true, kindIn, List.all_cons, hyf, hall, Bool.true_or, Bool.and_self]
    · rw [if_neg hid]
      cases inner with
      | true =>
        simp only [if_true, interCols]
        rw [lookup_map_relabel, labels_filter_contains f (fun c => fs.all (fun g => (labels g).contains c)) y]
        have hpres : presentIn true (f :: fs) y = ((labels f).contains y && fs.all (fun g => (labels g).contains y)) := by
          simp only [presentIn, if_true, List.isEmpty_cons, Bool.not_false, Bool.true_and, List.all_cons]
        rw [hpres]
        by_cases hp : ((labels f).contains y && fs.all (fun g => (labels g).contains y)) = true
        · rw [if_pos hp, if_pos hp]
          simp only [kindIn, List.all_cons, hp, if_true]
        · rw [if_neg hp, if_neg hp]
      | false =>
        simp only [Bool.false_eq_true, if_false, unionCols]
        have := lookup_map_pair (fun c => if (f :: fs).all (fun g => (labels g).contains c) then stackKind (f :: fs) c
            else (stackKind (f :: fs) c).na) (unionNames (f :: fs)) y
        rw [this, contains_unionNames]
        simp only [presentIn, Bool.false_eq_true, if_false, kindIn]

/-! ### what the rule leaves of an input -/

/-- `C'` is what is left of the columns `C` of an input: the requested columns are found as before, nothing is
    invented, and an input with columns keeps at least one -/
structure PrunedOf (P : List Name) (C C' : List Col) : Prop where
  look : ∀ y, y ∈ P → C'.lookup y = C.lookup y
  nonempty : C ≠ [] → C' ≠ []
  nodup : (labels C).Nodup → (labels C').Nodup

theorem prunedOf_refl (P : List Name) (C : List Col) : PrunedOf P C C := ⟨fun _ _ => rfl, id, id⟩

theorem hasL_pruned {P : List Name} {C C' : List Col} (h : PrunedOf P C C') {y : Name} (hy : y ∈ P) : (labels C').contains y = (labels C).contains y := by
  have := h.look y hy
  cases hc : C.lookup y with
  | none =>
    rw [hc] at this
    rw [contains_false.mpr ((lookup_none_iff C y).mp hc), contains_false.mpr ((lookup_none_iff C' y).mp this)]
  | some k =>
    rw [hc] at this
    rw [List.contains_iff_mem.mpr (lookup_some_mem hc), List.contains_iff_mem.mpr (lookup_some_mem this)]

/-- inputs pruned one by one -/
inductive PrunedAll (P : List Name) : List (List Col) → List (List Col) → Prop where
  | nil : PrunedAll P [] []
  | cons {C C' : List Col} {Cs Cs' : List (List Col)} (h : PrunedOf P C C') (t : PrunedAll P Cs Cs') :
      PrunedAll P (C :: Cs) (C' :: Cs')

theorem prunedAll_nonempty {P : List Name} {Cs Cs' : List (List Col)} (h : PrunedAll P Cs Cs') :
    (∀ C, C ∈ Cs → C ≠ []) → ∀ C, C ∈ Cs' → C ≠ [] := by
  induction h with
  | nil => intro _ C hC; cases hC
  | cons hpr _ ih =>
    intro hc X hX
    rcases List.mem_cons.mp hX with rfl | hX'
    · exact hpr.nonempty (hc _ (by simp))
    · exact ih (fun Y hY => hc Y (by simp [hY])) X hX'

theorem prunedAll_nodup {P : List Name} {Cs Cs' : List (List Col)} (h : PrunedAll P Cs Cs') :
    (∀ C, C ∈ Cs → (labels C).Nodup) → ∀ C, C ∈ Cs' → (labels C).Nodup := by
  induction h with
  | nil => intro _ C hC; cases hC
  | cons hpr _ ih =>
    intro hc X hX
    rcases List.mem_cons.mp hX with rfl | hX'
    · exact hpr.nodup (hc _ (by simp))
    · exact ih (fun Y hY => hc Y (by simp [hY])) X hX'

theorem prunedAll_all {P : List Name} {Cs Cs' : List (List Col)} (h : PrunedAll P Cs Cs') {y : Name} (hy : y ∈ P) :
    Cs'.all (fun f => (labels f).contains y) = Cs.all (fun f => (labels f).contains y) ∧ Cs'.any (fun f => (labels f).contains y) = Cs.any (fun f => (labels f).contains y) ∧ Cs'.isEmpty = Cs.isEmpty ∧
    Cs'.filterMap (fun f => f.lookup y) = Cs.filterMap (fun f => f.lookup y) := by
  induction h with
  | nil => exact ⟨rfl, rfl, rfl, rfl⟩
  | cons h t ih =>
    obtain ⟨i1, i2, _, i4⟩ := ih
    refine ⟨?_, ?_, rfl, ?_⟩
    · simp only [List.all_cons, hasL_pruned h hy, i1]
    · simp only [List.any_cons, hasL_pruned h hy, i2]
    · simp only [List.filterMap_cons, h.look y hy, i4]

theorem rowCols_pruned (inner : Bool) {P : List Name} {Cs Cs' : List (List Col)} (h : PrunedAll P Cs Cs') {y : Name} (hy : y ∈ P) :
    (rowCols inner Cs').lookup y = (rowCols inner Cs).lookup y := by
  obtain ⟨h1, h2, h3, h4⟩ := prunedAll_all h hy
  rw [rowCols_lookup, rowCols_lookup]
  have hp : presentIn inner Cs' y = presentIn inner Cs y := by
    cases inner with
    | true => simp only [presentIn, if_true, h1, h3]
    | false => simp only [presentIn, Bool.false_eq_true, if_false, h2]
  have hk : kindIn Cs' y = kindIn Cs y := by
    simp only [kindIn, h1, stackKind, h4]
  rw [hp, hk]

/-! ### the rewritten inputs -/

theorem sublist_perm_eq_filter (f : List Name) (pred : Name → Bool)
    (h : Dx.Cols.sortKeep (f.filter pred) = Dx.Cols.sortKeep f) : f.filter pred = f := by
  have hlen : (f.filter pred).length = f.length := by
    have h1 := (Dx.Cols.sortKeep_perm (f.filter pred)).length_eq
    have h2 := (Dx.Cols.sortKeep_perm f).length_eq
    rw [← h1, ← h2, h]
  exact List.filter_eq_self.mpr (fun a ha => by
    have := List.length_filter_eq_length_iff.mp hlen a ha
    exact this)

theorem take_one_perm_eq (f : List Name) (h : Dx.Cols.sortKeep (f.take 1) = Dx.Cols.sortKeep f) : f.take 1 = f := by
  have hlen : (f.take 1).length = f.length := by
    have h1 := (Dx.Cols.sortKeep_perm (f.take 1)).length_eq
    have h2 := (Dx.Cols.sortKeep_perm f).length_eq
    rw [← h1, ← h2, h]
  cases f with
  | nil => rfl
  | cons a t =>
    cases t with
    | nil => rfl
    | cons b u => simp at hlen

/-- an input the rule leaves untouched keeps exactly the columns `concatKeepCols` lists -/
theorem keepCols_of_child_none (columns f : List Name) (h : Dx.Cols.concatChild false columns f = none) :
    Dx.Cols.concatKeepCols false columns f = f := by
  unfold Dx.Cols.concatChild at h
  simp only at h
  split at h
  · rename_i hs
    rcases Dx.Cols.concatKeepCols_cases false columns f with hk | ⟨_, _, hk⟩
    · rw [hk] at hs ⊢; exact sublist_perm_eq_filter f _ hs
    · rw [hk] at hs ⊢; exact take_one_perm_eq f hs
  · cases h

/-- the declared columns of a wrapped input -/
theorem wrapped_frame (t : Tree) (C : List Col) (I : List Lvl) (hS : declT t = .frame C I) (columns : List Name)
    (p : Parent) (deps : List Dep) (hcol : columns = (Dx.Cols.detProj p deps []).toList) :
    ∃ C', declT (wrap t (Dx.Cols.concatChild false columns (labels C))) = .frame C' I ∧ PrunedOf p.cols C C' ∧
      labels C' = Dx.Cols.concatKeepCols false columns (labels C) := by
  rcases Dx.Cols.concatChild_cases false columns (labels C) with hn | hsome
  · rw [hn]
    exact ⟨C, hS, prunedOf_refl _ _, (keepCols_of_child_none columns (labels C) hn).symm⟩
  · rw [hsome, declT_wrap_many t _ C I hS]
    have had : Adequate (labels C) [] p.cols (Dx.Cols.concatKeepCols false columns (labels C)) := by
      rw [hcol]; exact Dx.Cols.concatKeepCols_adequate false (labels C) p deps
    obtain ⟨sub, hs⟩ := adequate_select had
    refine ⟨sub, by simp only [pGetCols, hs], ⟨?_, ?_, ?_⟩, selectCols_labels hs⟩
    · intro y hy; exact adequate_lookup had hs y (Or.inl hy)
    · intro hne hsub
      have hl := selectCols_labels hs
      rw [hsub] at hl
      have : labels C ≠ [] := by
        intro h0
        apply hne
        cases C with
        | nil => rfl
        | cons a u => simp [labels] at h0
      exact Dx.Cols.concatKeepCols_ne_nil columns (labels C) this hl.symm
    · intro hn
      rw [selectCols_labels hs]
      exact had.nodup hn

/-- all inputs are frames -/
inductive AllFrames : List Tree → List (List Col) → List (List Lvl) → Prop where
  | nil : AllFrames [] [] []
  | cons {t : Tree} {ts : List Tree} {C : List Col} {I : List Lvl} {Cs : List (List Col)} {Is : List (List Lvl)}
      (h : declT t = .frame C I) (r : AllFrames ts Cs Is) : AllFrames (t :: ts) (C :: Cs) (I :: Is)

def zipFrames : List (List Col) → List (List Lvl) → List Sch
  | C :: Cs, I :: Is => .frame C I :: zipFrames Cs Is
  | _, _ => []

theorem allFrames_declTs {ts : List Tree} {Cs : List (List Col)} {Is : List (List Lvl)} (h : AllFrames ts Cs Is) :
    declTs ts = zipFrames Cs Is ∧ (declTs ts).map frameLabels = Cs.map labels := by
  induction h with
  | nil => exact ⟨rfl, rfl⟩
  | cons h r ih =>
    simp only [declTs, zipFrames, h, List.map_cons, frameLabels, ih.1, ← ih.2]
    exact ⟨trivial, trivial⟩

theorem frameParts_zip : ∀ (Cs : List (List Col)) (Is : List (List Lvl)), Cs.length = Is.length →
    frameParts (zipFrames Cs Is) = some (Cs.zip Is)
  | [], [], _ => rfl
  | C :: Cs, I :: Is, h => by
    simp only [zipFrames, frameParts, List.zip_cons_cons]
    rw [frameParts_zip Cs Is (by simpa using h)]
    rfl
  | [], _ :: _, h => by simp at h
  | _ :: _, [], h => by simp at h

theorem allFrames_length {ts : List Tree} {Cs : List (List Col)} {Is : List (List Lvl)} (h : AllFrames ts Cs Is) :
    Cs.length = Is.length ∧ ts.length = Cs.length := by
  induction h with
  | nil => exact ⟨rfl, rfl⟩
  | cons _ _ ih => simp [ih.1, ih.2]

theorem filter_hasColumns_zip : ∀ (Cs : List (List Col)) (Is : List (List Lvl)), (∀ C, C ∈ Cs → C ≠ []) →
    (zipFrames Cs Is).filter hasColumns = zipFrames Cs Is
  | [], _, _ => by cases ‹List (List Lvl)› <;> rfl
  | C :: Cs, [], _ => rfl
  | C :: Cs, I :: Is, h => by
    have hC : C ≠ [] := h C (by simp)
    have : hasColumns (.frame C I) = true := by
      cases C with
      | nil => exact absurd rfl hC
      | cons a u => rfl
    simp only [zipFrames, List.filter_cons, this, if_true]
    rw [filter_hasColumns_zip Cs Is (fun X hX => h X (by simp [hX]))]

/-- the declared schema of a row-wise concat of frames that all have columns -/
theorem declConcat_rows (inner : Bool) (Cs : List (List Col)) (Is : List (List Lvl)) (hlen : Cs.length = Is.length)
    (hne : Cs ≠ []) (hcols : ∀ C, C ∈ Cs → C ≠ []) :
    declConcat false inner (zipFrames Cs Is) = .frame (rowCols inner Cs) (commonIdx Is) := by
  unfold declConcat
  simp only [Bool.false_eq_true, if_false, filter_hasColumns_zip Cs Is hcols, overrideNames_id]
  unfold pConcatRows
  have hnz : (zipFrames Cs Is).isEmpty = false := by
    cases Cs with
    | nil => exact absurd rfl hne
    | cons C Cs' =>
      cases Is with
      | nil => simp at hlen
      | cons I Is' => rfl
  simp only [hnz, Bool.false_eq_true, if_false, frameParts_zip Cs Is hlen]
  congr 1
  · congr 1
    exact List.map_fst_zip (Nat.le_of_eq hlen)
  · congr 1
    exact List.map_snd_zip (Nat.le_of_eq hlen.symm)

/-- the inputs of the rewritten Concat -/
theorem concat_inputs_pruned (p : Parent) (deps : List Dep) (columns : List Name)
    (hcol : columns = (Dx.Cols.detProj p deps []).toList) :
    ∀ {ts : List Tree} {Cs : List (List Col)} {Is : List (List Lvl)}, AllFrames ts Cs Is →
    ∃ Cs', AllFrames (concatInputs ts ((Cs.map labels).map (Dx.Cols.concatChild false columns))
        ((Cs.map labels).map (Dx.Cols.concatDropped false columns))) Cs' Is ∧
      PrunedAll p.cols Cs Cs' ∧ Cs'.map labels = (Cs.map labels).map (Dx.Cols.concatKeepCols false columns) := by
  intro ts Cs Is h
  induction h with
  | nil => exact ⟨[], .nil, .nil, rfl⟩
  | @cons t ts C I Cs Is hS r ih =>
    obtain ⟨Cs', hA, hP, hL⟩ := ih
    obtain ⟨C', hC', hpr, hlab⟩ := wrapped_frame t C I hS columns p deps hcol
    refine ⟨C' :: Cs', ?_, .cons hpr hP, ?_⟩
    · simp only [List.map_cons, concatInputs, Dx.Cols.concatDropped, Bool.false_and, Bool.false_eq_true, if_false]
      exact .cons hC' hA
    · simp only [List.map_cons, hlab, hL]

/-! ### labels of `rowCols` are `Dx.Cols.concatCols` -/

theorem foldl_step_of_mem : ∀ (l acc : List Name), (∀ c, c ∈ l → c ∈ acc) → l.foldl step acc = acc
  | [], _, _ => rfl
  | c :: t, acc, h => by
    rw [List.foldl_cons]
    have : step acc c = acc := by
      unfold step
      rw [if_pos (List.contains_iff_mem.mpr (h c (by simp)))]
    rw [this]
    exact foldl_step_of_mem t acc (fun x hx => h x (by simp [hx]))

theorem foldl_step_nodup : ∀ (l acc : List Name), l.Nodup → (∀ c, c ∈ l → c ∉ acc) → l.foldl step acc = acc ++ l
  | [], acc, _, _ => by simp
  | c :: t, acc, hn, hd => by
    rw [List.foldl_cons]
    simp only [List.nodup_cons] at hn
    have : step acc c = acc ++ [c] := by
      unfold step
      rw [if_neg]
      intro hc
      exact hd c (by simp) (List.contains_iff_mem.mp hc)
    rw [this, foldl_step_nodup t (acc ++ [c]) hn.2]
    · simp
    · intro x hx hxa
      rcases List.mem_append.mp hxa with h1 | h1
      · exact hd x (by simp [hx]) h1
      · have : x = c := by simpa using h1
        subst this
        exact hn.1 hx

theorem labels_map_relabel (g : Name → Kind) (l : List Col) : labels (l.map (fun c => (c.1, g c.1))) = labels l := by
  simp [labels, List.map_map, Function.comp_def]

theorem labels_filter (f : List Col) (pred : Name → Bool) : labels (f.filter (fun c => pred c.1)) = (labels f).filter pred := by
  induction f with
  | nil => rfl
  | cons a t ih =>
    obtain ⟨n, k⟩ := a
    simp only [labels] at ih
    by_cases hp : pred n = true
    · simp only [List.filter_cons, hp, if_true, labels, List.map_cons, ih]
    · simp only [List.filter_cons, hp, Bool.false_eq_true, if_false, labels, List.map_cons, ih]

theorem labels_rowCols (inner : Bool) : ∀ (Cs : List (List Col)), (∀ C, C ∈ Cs → (labels C).Nodup) →
    labels (rowCols inner Cs) = Dx.Cols.concatCols false inner (Cs.map labels)
  | [], _ => rfl
  | f :: fs, hn => by
    simp only [rowCols, List.map_cons, Dx.Cols.concatCols, Bool.false_eq_true, if_false]
    by_cases hid : fs.all (fun g => labels g == labels f) = true
    · rw [if_pos hid, labels_map_relabel]
      have hsame : ∀ g, g ∈ fs → labels g = labels f := by
        intro g hg
        have := List.all_eq_true.mp hid g hg
        simpa using this
      cases inner with
      | true =>
        simp only [if_true]
        symm
        apply List.filter_eq_self.mpr
        intro c hc
        apply List.all_eq_true.mpr
        intro l hl
        obtain ⟨g, hg, rfl⟩ := List.mem_map.mp hl
        rw [hsame g hg]
        exact List.contains_iff_mem.mpr hc
      | false =>
        simp only [Bool.false_eq_true, if_false, List.flatten_cons, List.foldl_append]
        have h1 : (labels f).foldl (fun acc c => if acc.contains c then acc else acc ++ [c]) [] = labels f := by
          have := foldl_step_nodup (labels f) [] (hn f (by simp)) (fun c _ h => by cases h)
          exact this
        rw [h1]
        symm
        have := foldl_step_of_mem (fs.map labels).flatten (labels f) (by
          intro c hc
          obtain ⟨l, hl, hcl⟩ := List.mem_flatten.mp hc
          obtain ⟨g, hg, rfl⟩ := List.mem_map.mp hl
          rw [← hsame g hg]; exact hcl)
        exact this
    · rw [if_neg hid]
      cases inner with
      | true =>
        simp only [if_true, interCols, labels_map_relabel]
        rw [labels_filter f (fun c => fs.all (fun g => (labels g).contains c))]
        apply List.filter_congr
        intro c _
        simp only [List.all_map, Function.comp_def]
      | false =>
        simp only [Bool.false_eq_true, if_false, unionCols]
        simp only [labels, List.map_map, Function.comp_def, List.map_id', unionNames, List.map_cons]

/-- two lists of columns with the same duplicate-free labels and the same kinds under each label are equal -/
theorem eq_of_labels_lookup {A B sel : List Col} {P : List Name} (hl : labels A = P) (hn : (labels A).Nodup)
    (hs : selectCols B P = some sel) (h : ∀ y, y ∈ P → A.lookup y = B.lookup y) : A = sel := by
  have h1 : selectCols A P = some A := by
    rw [← hl]
    exact selectCols_of_lookup A A (fun c hc => lookup_of_mem_nodup hn c hc)
  rw [selectCols_congr A B P h, hs] at h1
  exact (Option.some.inj h1).symm

theorem push_concat_rows (deps : List Dep) (pop : UOp) (prt rt : Rt) (inner : Bool) (ts : List Tree) (t' : Tree) (p : Parent)
    (hp : parentOf pop = some p) (Cs : List (List Col)) (Is : List (List Lvl)) (hA : AllFrames ts Cs Is)
    (hcols : ∀ C, C ∈ Cs → C ≠ []) (hnd : ∀ C, C ∈ Cs → (labels C).Nodup)
    (hok : declT (.un pop prt (.concat false inner rt ts)) ≠ .bad)
    (h : pushdown deps (.un pop prt (.concat false inner rt ts)) = some t') :
    declT t' = declT (.un pop prt (.concat false inner rt ts)) := by
  obtain ⟨hdecl, hlabs⟩ := allFrames_declTs hA
  obtain ⟨hlen, hlen2⟩ := allFrames_length hA
  simp only [pushdown, hp, hlabs] at h
  cases hc : Dx.Cols.concat false inner (Cs.map labels) p deps with
  | none => rw [hc] at h; cases h
  | some rw =>
    rw [hc] at h
    simp only [Option.map_some, Option.some.injEq] at h
    subst h
    obtain ⟨hch, hdr⟩ := Dx.Cols.concat_spec hc
    have hne : Cs ≠ [] := by
      intro h0
      subst h0
      simp [Dx.Cols.concat] at hc
    obtain ⟨Cs', hA', hP, hL⟩ := concat_inputs_pruned p deps _ rfl hA
    rw [← hch, ← hdr] at hA'
    obtain ⟨hdecl', _⟩ := allFrames_declTs hA'
    obtain ⟨hlen', _⟩ := allFrames_length hA'
    have hcols' : ∀ C, C ∈ Cs' → C ≠ [] := prunedAll_nonempty hP hcols
    have hnd' : ∀ C, C ∈ Cs' → (labels C).Nodup := prunedAll_nodup hP hnd
    have hne' : Cs' ≠ [] := by
      intro h0
      subst h0
      cases hP
      exact hne rfl
    have horig : declT (.concat false inner rt ts) = .frame (rowCols inner Cs) (commonIdx Is) := by
      simp only [declT, hdecl]
      exact declConcat_rows inner Cs Is hlen hne hcols
    have hnew : declT (.concat false inner rt (concatInputs ts rw.childs rw.dropped)) = .frame (rowCols inner Cs') (commonIdx Is) := by
      simp only [declT, hdecl']
      exact declConcat_rows inner Cs' Is hlen' hne' hcols'
    simp only [declT_un] at hok ⊢
    rw [horig] at hok ⊢
    by_cases hk : rw.keep = true
    · simp only [hk, if_true, declT_un]
      rw [hnew]
      exact proj_congr hp _ _ _ (fun y hy => rowCols_pruned inner hP hy)
    · have hk' : rw.keep = false := by simpa using hk
      simp only [hk', Bool.false_eq_true, if_false]
      rw [hnew]
      -- the parent is dropped: the new Concat has exactly the requested columns
      have hlab0 := Dx.Cols.concat_nokeep hc hk'
      have hfilt : (Cs.map labels).filter (fun f => !Dx.Cols.concatDropped false (Dx.Cols.detProj p deps []).toList f) = Cs.map labels := by
        apply List.filter_eq_self.mpr
        intro f _
        simp [Dx.Cols.concatDropped]
      -- every pruned input still has a column: the labels the new Concat declares are its labels
      have hlab : Dx.Cols.concatCols false inner (((Cs.map labels).filter (fun f => !Dx.Cols.concatDropped false (Dx.Cols.detProj p deps []).toList f)).map
          (Dx.Cols.concatKeepCols false (Dx.Cols.detProj p deps []).toList)) = p.cols ∧ p.ndim1 = false := by
        rw [← Dx.Cols.concatLabels_of_nonempty false inner]
        · exact hlab0
        · intro f hf
          rw [hfilt, ← hL] at hf
          obtain ⟨C', hC', rfl⟩ := List.mem_map.mp hf
          intro h0
          have : C' = [] := by
            cases C' with
            | nil => rfl
            | cons a t => simp [labels] at h0
          exact hcols' C' hC' this
      rw [hfilt, ← hL] at hlab
      cases pop with
      | getCols P =>
        simp only [parentOf, Option.some.injEq] at hp
        subst hp
        simp only [Parent.cols] at hlab
        simp only [declU, pGetCols] at hok ⊢
        cases hs : selectCols (rowCols inner Cs) P with
        | none => rw [hs] at hok; exact absurd rfl hok
        | some sel =>
          simp only
          congr 1
          apply eq_of_labels_lookup (P := P) _ _ hs
          · intro y hy
            exact rowCols_pruned inner hP (by simpa [Parent.cols] using hy)
          · rw [labels_rowCols inner Cs' hnd']; exact hlab.1
          · rw [labels_rowCols inner Cs' hnd', hlab.1]
            -- the requested labels are duplicate-free: they are the labels of a duplicate-free selection
            have hsel := selectCols_labels hs
            have : (labels (rowCols inner Cs')).Nodup := by
              cases Cs' with
              | nil => exact absurd rfl hne'
              | cons f fs =>
                simp only [rowCols]
                split
                · rw [labels_map_relabel]; exact hnd' f (by simp)
                · cases inner with
                  | true =>
                    simp only [if_true, interCols, labels_map_relabel]
                    rw [labels_filter f (fun c => fs.all (fun g => (labels g).contains c))]
                    exact List.Nodup.sublist List.filter_sublist (hnd' f (by simp))
                  | false =>
                    simp only [Bool.false_eq_true, if_false, unionCols]
                    simp only [labels, List.map_map, Function.comp_def, List.map_id']
                    -- first-seen union is duplicate-free
                    have : ∀ (l acc : List Name), acc.Nodup → (l.foldl step acc).Nodup := by
                      intro l
                      induction l with
                      | nil => intro acc ha; exact ha
                      | cons c u ih =>
                        intro acc ha
                        rw [List.foldl_cons]
                        apply ih
                        unfold step
                        split
                        · exact ha
                        · rename_i hcn
                          rw [List.nodup_append]
                          refine ⟨ha, by simp, ?_⟩
                          intro a haa b hb
                          have : b = c := by simpa using hb
                          subst this
                          intro hab; subst hab
                          exact hcn (List.contains_iff_mem.mpr haa)
                    exact this _ [] List.nodup_nil
            rw [labels_rowCols inner Cs' hnd', hlab.1] at this
            exact this
      | getCol c =>
        simp only [parentOf, Option.some.injEq] at hp
        subst hp
        simp [Parent.ndim1] at hlab
      | _ => simp [parentOf] at hp

end Dx.Meta
