/-
  Lemmas/Termination.lean — the `simplify` loop (fixpoint on normal exit, non-convergence only on a
  revisit, termination on finite orbits) and soundness of the rank check of the generated table.
-/
import DxModel.Termination
namespace Dx.Term

/-! ### simplify -/

theorem iter_succ' (step : Nat → Nat) : ∀ (k : Nat) (e : Nat), iter step (k+1) e = step (iter step k e) := by
  intro k
  induction k with
  | zero => intro e; rfl
  | succ k ih => intro e; simp only [iter]; rw [← ih (step e)]; rfl

/-- invariant of the loop started at `e0` after `k` passes: the current expression is the `k`-th
    iterate and `seen` holds exactly the iterates `1..k` -/
structure SInv (step : Nat → Nat) (e0 : Nat) (k : Nat) (e : Nat) (seen : List Nat) : Prop where
  cur : e = iter step k e0
  seen_iter : ∀ x ∈ seen, ∃ j, 1 ≤ j ∧ j ≤ k ∧ x = iter step j e0
  seen_len : seen.length = k
  seen_nodup : seen.Nodup

theorem simplifyLoop_spec (step : Nat → Nat) (e0 : Nat) :
    ∀ (fuel k e : Nat) (seen : List Nat) (out : SimpOut), SInv step e0 k e seen →
      simplifyLoop step fuel e seen = some out →
      (∀ r, out = .ok r → step r = r ∧ ∃ n, r = iter step n e0) ∧
      (∀ a b, out = .noconv a b → b = step a ∧ ∃ i j, 1 ≤ i ∧ i < j ∧ iter step i e0 = iter step j e0) := by
  intro fuel
  induction fuel with
  | zero => intro k e seen out _ h; simp [simplifyLoop] at h
  | succ fuel ih =>
    intro k e seen out inv h
    simp only [simplifyLoop] at h
    by_cases h1 : step e = e
    · simp only [h1, if_true, Option.some.injEq] at h
      subst h
      refine ⟨?_, ?_⟩
      · intro r hr; cases hr; exact ⟨h1, k, inv.cur⟩
      · intro a b hab; cases hab
    · simp only [h1, if_false] at h
      by_cases h2 : step e ∈ seen
      · simp only [h2, if_true, Option.some.injEq] at h
        subst h
        refine ⟨?_, ?_⟩
        · intro r hr; cases hr
        · intro a b hab
          cases hab
          refine ⟨rfl, ?_⟩
          obtain ⟨j, hj1, hjk, hj⟩ := inv.seen_iter _ h2
          refine ⟨j, k + 1, hj1, by omega, ?_⟩
          rw [← hj, iter_succ', ← inv.cur]
      · simp only [h2, if_false] at h
        refine ih (k+1) (step e) (step e :: seen) out ?_ h
        refine ⟨?_, ?_, ?_, ?_⟩
        · rw [iter_succ', ← inv.cur]
        · intro x hx
          rcases List.mem_cons.mp hx with rfl | hx
          · exact ⟨k+1, by omega, by omega, by rw [iter_succ', ← inv.cur]⟩
          · obtain ⟨j, a, b, c⟩ := inv.seen_iter x hx
            exact ⟨j, a, by omega, c⟩
        · simp [inv.seen_len]
        · exact List.nodup_cons.mpr ⟨h2, inv.seen_nodup⟩

theorem nodup_subset_length' : ∀ (l₁ l₂ : List Nat), l₁.Nodup → (∀ x ∈ l₁, x ∈ l₂) → l₁.length ≤ l₂.length := by
  intro l₁
  induction l₁ with
  | nil => intro l₂ _ _; simp
  | cons a t ih =>
    intro l₂ hnd hsub
    rw [List.nodup_cons] at hnd
    have ha : a ∈ l₂ := hsub a (by simp)
    have hsub' : ∀ x ∈ t, x ∈ l₂.erase a := by
      intro x hx
      have hne : x ≠ a := fun h => hnd.1 (h ▸ hx)
      exact (List.mem_erase_of_ne hne).mpr (hsub x (List.mem_cons_of_mem _ hx))
    have := ih (l₂.erase a) hnd.2 hsub'
    rw [List.length_erase_of_mem ha] at this
    have hpos : 0 < l₂.length := List.length_pos_of_mem ha
    simp only [List.length_cons]
    omega

/-- with a finite orbit the loop returns or reports non-convergence before the fuel runs out -/
theorem simplifyLoop_total (step : Nat → Nat) (e0 : Nat) (univ : List Nat)
    (horbit : ∀ j, iter step j e0 ∈ univ) :
    ∀ (fuel k e : Nat) (seen : List Nat), SInv step e0 k e seen → univ.length + 1 ≤ fuel + k →
      (simplifyLoop step fuel e seen).isSome = true := by
  intro fuel
  induction fuel with
  | zero =>
    intro k e seen inv hf
    exfalso
    have : seen.length ≤ univ.length := by
      apply nodup_subset_length' _ _ inv.seen_nodup
      intro x hx
      obtain ⟨j, _, _, hj⟩ := inv.seen_iter x hx
      exact hj ▸ horbit j
    rw [inv.seen_len] at this
    omega
  | succ fuel ih =>
    intro k e seen inv hf
    simp only [simplifyLoop]
    by_cases h1 : step e = e
    · simp [h1]
    · simp only [h1, if_false]
      by_cases h2 : step e ∈ seen
      · simp [h2]
      · simp only [h2, if_false]
        apply ih (k+1)
        · refine ⟨?_, ?_, ?_, ?_⟩
          · rw [iter_succ', ← inv.cur]
          · intro x hx
            rcases List.mem_cons.mp hx with rfl | hx
            · exact ⟨k+1, by omega, by omega, by rw [iter_succ', ← inv.cur]⟩
            · obtain ⟨j, a, b, c⟩ := inv.seen_iter x hx
              exact ⟨j, a, by omega, c⟩
          · simp [inv.seen_len]
          · exact List.nodup_cons.mpr ⟨h2, inv.seen_nodup⟩
        · omega

theorem SInv.init (step : Nat → Nat) (e0 : Nat) : SInv step e0 0 e0 [] := by
  refine ⟨rfl, ?_, rfl, List.nodup_nil⟩
  intro x hx
  cases hx

/-! ### the rank check -/

theorem rankOK_sound (table : List (Nat × List Nat)) (ranks : List Nat) (h : rankOK table ranks = true) :
    ∀ c c', MayConstruct table c c' → rankOf ranks c' < rankOf ranks c := by
  intro c c' ⟨e, he, hc, hc'⟩
  unfold rankOK at h
  simp only [List.all_eq_true, decide_eq_true_eq] at h
  exact hc ▸ h e he c' hc'

/-- a path of length ≥ 1 in the relation -/
inductive Path (R : Nat → Nat → Prop) : Nat → Nat → Prop where
  | single {a b : Nat} : R a b → Path R a b
  | cons {a b c : Nat} : R a b → Path R b c → Path R a c

/-- a relation with a strictly decreasing rank has no cycle -/
theorem acyclic_of_rank (R : Nat → Nat → Prop) (rk : Nat → Nat) (h : ∀ a b, R a b → rk b < rk a) :
    ∀ a, ¬ Path R a a := by
  have key : ∀ a b, Path R a b → rk b < rk a := by
    intro a b p
    induction p with
    | single r => exact h _ _ r
    | cons r _ ih => have := h _ _ r; omega
  intro a p
  exact Nat.lt_irrefl _ (key a a p)

end Dx.Term
