/-
  Lemmas/NameTable.lean — from cheap (linear / per-group) decidable checks on the grouped name table to
  pairwise separation of all classes with a constant prefix.
-/
import DxModel.Lemmas.Names
namespace Dx.Names

/-- group keys strictly ascending (adjacent check, linear) -/
def sortedKeys {α : Type} : List (Nat × α) → Bool
  | [] => true
  | [_] => true
  | a :: b :: t => a.1 < b.1 && sortedKeys (b :: t)

theorem sortedKeys_tail {α : Type} {a : Nat × α} {t : List (Nat × α)} (h : sortedKeys (a :: t) = true) :
    sortedKeys t = true := by
  cases t with
  | nil => rfl
  | cons b t' => simp only [sortedKeys, Bool.and_eq_true] at h; exact h.2

theorem sortedKeys_head_lt {α : Type} : ∀ (t : List (Nat × α)) (a : Nat × α), sortedKeys (a :: t) = true →
    ∀ y ∈ t, a.1 < y.1
  | [], _, _, y, hy => by cases hy
  | b :: t', a, h, y, hy => by
    simp only [sortedKeys, Bool.and_eq_true, decide_eq_true_eq] at h
    rcases List.mem_cons.mp hy with rfl | hy
    · exact h.1
    · exact Nat.lt_trans h.1 (sortedKeys_head_lt t' b h.2 y hy)

/-- in a list with strictly ascending keys an element is determined by its key -/
theorem sortedKeys_unique {α : Type} : ∀ (l : List (Nat × α)), sortedKeys l = true →
    ∀ x ∈ l, ∀ y ∈ l, x.1 = y.1 → x = y
  | [], _, x, hx, _, _, _ => by cases hx
  | a :: t, h, x, hx, y, hy, hxy => by
    rcases List.mem_cons.mp hx with hxa | hxt
    · rcases List.mem_cons.mp hy with hya | hyt
      · rw [hxa, hya]
      · rw [hxa] at hxy
        exact absurd hxy (Nat.ne_of_lt (sortedKeys_head_lt t a h y hyt))
    · rcases List.mem_cons.mp hy with hya | hyt
      · rw [hya] at hxy
        exact absurd hxy.symm (Nat.ne_of_lt (sortedKeys_head_lt t a h x hxt))
      · exact sortedKeys_unique t (sortedKeys_tail h) x hxt y hyt hxy

/-- within one prefix group: any two classes are separated, or the group's prefix is exempt -/
def groupPairsOK (exempt : List String) (g : List Row) : Bool :=
  g.all (fun a => g.all (fun b => !(a.id < b.id) || separated a.rule b.rule
    || (exempt.contains a.pfx && exempt.contains b.pfx)))

/-- every member carries the group's prefix number -/
def groupPfxOK (g : Nat × List Row) : Bool := g.2.all (fun r => r.rule.pfxConst == some g.1)

/-- all the cheap checks on the grouped table -/
def tableOK (exempt : List String) (dyn : List Row) (groups : List (Nat × List Row)) : Bool :=
  sortedKeys groups && groups.all groupPfxOK && groups.all (fun g => groupPairsOK exempt g.2)
    && dyn.all (fun r => r.rule.pfxConst.isNone)

/-- a class the injectivity theorem speaks about: constant, non-exempt prefix and a token over all operands -/
def goodRow (exempt : List String) (r : Row) : Bool :=
  r.rule.pfxConst.isSome && !exempt.contains r.pfx && ownComplete r.rule

theorem table_separates {exempt : List String} {dyn : List Row} {groups : List (Nat × List Row)}
    (h : tableOK exempt dyn groups = true) {a b : Row}
    (ha : a ∈ dyn ++ groups.flatMap (·.2)) (hb : b ∈ dyn ++ groups.flatMap (·.2))
    (ga : goodRow exempt a = true) (gb : goodRow exempt b = true) (hne : a.id ≠ b.id) :
    separated a.rule b.rule = true := by
  simp only [tableOK, Bool.and_eq_true, List.all_eq_true] at h
  obtain ⟨⟨⟨hs, hp⟩, hg⟩, hd⟩ := h
  simp only [goodRow, Bool.and_eq_true, Bool.not_eq_true'] at ga gb
  -- neither row is dynamic
  have inGroup : ∀ r : Row, r ∈ dyn ++ groups.flatMap (·.2) → r.rule.pfxConst.isSome = true →
      ∃ g ∈ groups, r ∈ g.2 := by
    intro r hr hsome
    rcases List.mem_append.mp hr with hr | hr
    · have := hd r hr
      cases hpc : r.rule.pfxConst <;> simp [hpc] at this hsome
    · obtain ⟨g, hg, hrg⟩ := List.mem_flatMap.mp hr
      exact ⟨g, hg, hrg⟩
  obtain ⟨g₁, hg₁, ha₁⟩ := inGroup a ha ga.1.1
  obtain ⟨g₂, hg₂, hb₂⟩ := inGroup b hb gb.1.1
  have pa : a.rule.pfxConst = some g₁.1 := by
    have := hp g₁ hg₁
    simp only [groupPfxOK, List.all_eq_true, beq_iff_eq] at this
    exact this a ha₁
  have pb : b.rule.pfxConst = some g₂.1 := by
    have := hp g₂ hg₂
    simp only [groupPfxOK, List.all_eq_true, beq_iff_eq] at this
    exact this b hb₂
  by_cases hk : g₁.1 = g₂.1
  · -- same group
    have hgg : g₁ = g₂ := sortedKeys_unique groups hs g₁ hg₁ g₂ hg₂ hk
    subst hgg
    have hpair := hg g₁ hg₁
    simp only [groupPairsOK, List.all_eq_true] at hpair
    rcases Nat.lt_or_gt_of_ne hne with hlt | hgt
    · have := hpair a ha₁ b hb₂
      simp only [hlt, decide_true, Bool.not_true, Bool.false_or, Bool.or_eq_true, Bool.and_eq_true] at this
      rcases this with h | h
      · exact h
      · rw [ga.1.2] at h; exact absurd h.1 (by simp)
    · have := hpair b hb₂ a ha₁
      simp only [hgt, decide_true, Bool.not_true, Bool.false_or, Bool.or_eq_true, Bool.and_eq_true] at this
      rcases this with h | h
      · rw [separated_symm]; exact h
      · rw [gb.1.2] at h; exact absurd h.1 (by simp)
  · -- different groups: constant prefixes differ
    simp only [separated, constPfxDiffer, pa, pb, Bool.or_eq_true, bne_iff_ne, ne_eq]
    exact Or.inl (Or.inl hk)

/-! ### the scheme whose rules are read off a table -/

theorem findRow_spec {rows : List Row} {c : Nat} {r : Row} (h : findRow rows c = some r) : r ∈ rows ∧ r.id = c := by
  unfold findRow at h
  exact ⟨List.mem_of_find?_eq_some h, by simpa using List.find?_some h⟩

/-- the classes of a table the injectivity theorem covers -/
def goodClass (exempt : List String) (rows : List Row) (c : Nat) : Prop :=
  ∃ r, findRow rows c = some r ∧ goodRow exempt r = true

theorem table_complete {exempt : List String} {dyn : List Row} {groups : List (Nat × List Row)}
    (h : tableOK exempt dyn groups = true) {L τ : Type} (S : Scheme L τ)
    (hS : S.rules = ruleOf (dyn ++ groups.flatMap (·.2))) :
    NameRuleComplete S (goodClass exempt (dyn ++ groups.flatMap (·.2))) := by
  refine ⟨?_, ?_⟩
  · intro c ⟨r, hr, hg⟩
    rw [hS]; unfold ruleOf; rw [hr]
    simp only [goodRow, Bool.and_eq_true] at hg
    exact hg.2
  · intro c₁ c₂ ⟨r₁, hr₁, g₁⟩ ⟨r₂, hr₂, g₂⟩ hne
    rw [hS]; unfold ruleOf; rw [hr₁, hr₂]
    obtain ⟨m₁, i₁⟩ := findRow_spec hr₁
    obtain ⟨m₂, i₂⟩ := findRow_spec hr₂
    exact table_separates h m₁ m₂ g₁ g₂ (by rw [i₁, i₂]; exact hne)

end Dx.Names
