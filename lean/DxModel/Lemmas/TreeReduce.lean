/-
  Lemmas/TreeReduce.lean — facts about `toolz.partition_all` (`chunks`), the level loop of
  `TreeReduce._layer` (value semantics, agreement of the graph function with the emitted dict,
  termination for split_every ≥ 2, no progress for split_every = 1, Closed / Ranked).
-/
import DxModel.Layers.TreeReduce
namespace Dx
open Tree

theorem nchunks_one (m : Nat) : nchunks 1 m = m := by simp [nchunks]


theorem nchunks_idx (k m i : Nat) (hk : 1 ≤ k) (hi : i < nchunks k m) : i * k < m := by
  unfold nchunks at hi
  have := (Nat.le_div_iff_mul_le (show 0 < k by omega)).mp hi
  rw [Nat.succ_mul] at this
  omega

theorem nchunks_mul_ge (k m : Nat) (hk : 1 ≤ k) : m ≤ nchunks k m * k := by
  unfold nchunks
  have h1 := Nat.div_add_mod (m + k - 1) k
  have h2 := Nat.mod_lt (m + k - 1) (show 0 < k by omega)
  rw [Nat.mul_comm] at h1
  omega

theorem range_flatMap_take {α} (k : Nat) (l : List α) (m : Nat) :
    (List.range m).flatMap (fun i => (l.drop (i * k)).take k) = l.take (m * k) := by
  induction m with
  | zero => simp
  | succ m ih =>
    rw [List.range_succ, List.flatMap_append, ih, Nat.succ_mul, List.take_add]
    simp

theorem chunks_flatten {α} (k : Nat) (l : List α) (hk : 1 ≤ k) : (chunks k l).flatten = l := by
  unfold chunks
  rw [List.flatten_eq_flatMap, List.flatMap_map]
  simp only [id_eq]
  rw [range_flatMap_take]
  exact List.take_of_length_le (nchunks_mul_ge k l.length hk)

theorem chunks_nonempty {α} (k : Nat) (l : List α) (hk : 1 ≤ k) : ∀ b ∈ chunks k l, b ≠ [] := by
  intro b hb
  simp only [chunks, List.mem_map, List.mem_range] at hb
  obtain ⟨i, hi, rfl⟩ := hb
  have := nchunks_idx k l.length i hk hi
  intro h
  have hl := congrArg List.length h
  simp at hl
  omega

theorem chunks_map {α β} (f : α → β) (k : Nat) (l : List α) :
    chunks k (l.map f) = (chunks k l).map (List.map f) := by
  simp [chunks, List.map_take, List.map_drop]

theorem chunks_ne_nil {α} (k : Nat) (l : List α) (hk : 1 ≤ k) (hl : l ≠ []) : chunks k l ≠ [] := by
  intro h
  have := chunks_flatten k l hk
  rw [h] at this
  exact hl this.symm

/-- the homomorphism law of a reduction triple -/
def HomLaw {α β} (comb : List α → α) (agg : List α → β) : Prop :=
  ∀ bs : List (List α), bs ≠ [] → (∀ b ∈ bs, b ≠ []) → agg (bs.map comb) = agg bs.flatten

theorem treeVal_agg {α β} (comb : List α → α) (agg : List α → β) (h : HomLaw comb agg)
    (k : Nat) (hk : 1 ≤ k) : ∀ f xs, agg (treeVal comb k f xs) = agg xs := by
  intro f
  induction f with
  | zero => intro xs; rfl
  | succ f ih =>
    intro xs
    simp only [treeVal]
    split
    · rename_i hlt
      have hne : xs ≠ [] := by intro e; simp [e] at hlt
      rw [ih, h _ (chunks_ne_nil k xs hk hne) (chunks_nonempty k xs hk), chunks_flatten k xs hk]
    · rfl

theorem run_final (I : Interp) (g : Graph Key) (inp : Key → Option V) (keys : List Key) (cur : List V)
    (B : Nat) (hg : g .out = final keys .out)
    (hcur : ∀ F, B ≤ F → keys.map (run I g inp F) = cur) :
    ∀ F, B + 1 ≤ F → run I g inp F .out = I aggFn cur := by
  intro F hF
  obtain ⟨F', rfl⟩ : ∃ F', F = F' + 1 := ⟨F - 1, by omega⟩
  rw [run_defined I g inp F' .out _ hg]
  simp only [evalTsk]
  rw [hcur F' (by omega)]

theorem run_loop (I : Interp) (p : Params) (k : Nat) (inp : Key → Option V) (g : Graph Key) :
    ∀ (f j : Nat) (keys : List Key) (cur : List V) (B : Nat),
    (∀ q, (q = .out ∨ ∃ j' i, q = .node j' i ∧ j ≤ j') → g q = graphLoop p k f j keys q) →
    (∀ F, B ≤ F → keys.map (run I g inp F) = cur) →
    ∀ F, B + f + 1 ≤ F → run I g inp F .out = I aggFn (treeVal (I (combFn p)) k f cur) := by
  intro f
  induction f with
  | zero =>
    intro j keys cur B hg hcur F hF
    exact run_final I g inp keys cur B (by rw [hg .out (Or.inl rfl)]; rfl) hcur F (by omega)
  | succ f ih =>
    intro j keys cur B hg hcur F hF
    have hlen : cur.length = keys.length := by rw [← hcur B (Nat.le_refl _)]; simp
    by_cases hlt : keys.length > k
    · have hlt' : cur.length > k := by omega
      simp only [treeVal, hlt', if_true]
      refine ih (j+1) ((List.range (nchunks k keys.length)).map (Key.node j)) _ (B+1) ?_ ?_ F (by omega)
      · intro q hq
        rw [hg q (by
          rcases hq with h | ⟨j', i, h, hj⟩
          · exact Or.inl h
          · exact Or.inr ⟨j', i, h, by omega⟩)]
        rcases hq with rfl | ⟨j', i, rfl, hj⟩
        · simp only [graphLoop, hlt, if_true]
        · have : j' ≠ j := by omega
          simp only [graphLoop, hlt, if_true, this, if_false]
      · intro F' hF'
        obtain ⟨F'', rfl⟩ : ∃ F'', F' = F'' + 1 := ⟨F' - 1, by omega⟩
        simp only [chunks, List.map_map, hlen]
        apply List.map_congr_left
        intro i hi
        have hi' := List.mem_range.mp hi
        have hgi : g (.node j i) = some (.apply (combFn p) ((keys.drop (i * k)).take k)) := by
          rw [hg _ (Or.inr ⟨j, i, rfl, Nat.le_refl _⟩)]
          simp only [graphLoop, hlt, if_true, hi']
        simp only [Function.comp_def]
        rw [run_defined I g inp F'' _ _ hgi]
        simp only [evalTsk, List.map_take, List.map_drop]
        rw [hcur F'' (by omega)]
    · have hlt' : ¬ cur.length > k := by omega
      simp only [treeVal, hlt', if_false]
      refine run_final I g inp keys cur B ?_ hcur F (by omega)
      rw [hg .out (Or.inl rfl)]
      simp only [graphLoop, hlt, if_false]

theorem nchunks_lt (k m : Nat) (hk : 2 ≤ k) (hm : k < m) : nchunks k m < m := by
  unfold nchunks
  rw [Nat.div_lt_iff_lt_mul (by omega)]
  have : m * 2 ≤ m * k := Nat.mul_le_mul_left m hk
  omega

/-- entries of the dict are `out` or nodes of level ≥ j -/
theorem dictLoop_keys (p : Params) (k : Nat) : ∀ f j keys q t, (q, t) ∈ dictLoop p k f j keys →
    q = .out ∨ ∃ j' i, q = .node j' i ∧ j ≤ j' := by
  intro f
  induction f with
  | zero =>
    intro j keys q t h
    simp only [dictLoop, List.mem_singleton, Prod.mk.injEq] at h
    exact Or.inl h.1
  | succ f ih =>
    intro j keys q t h
    simp only [dictLoop] at h
    split at h
    · rw [List.mem_append] at h
      rcases h with h | h
      · simp only [List.mem_map, List.mem_range, Prod.mk.injEq] at h
        obtain ⟨i, _, rfl, _⟩ := h
        exact Or.inr ⟨j, i, rfl, Nat.le_refl _⟩
      · rcases ih _ _ _ _ h with h | ⟨j', i, h, hj⟩
        · exact Or.inl h
        · exact Or.inr ⟨j', i, h, by omega⟩
    · simp only [List.mem_singleton, Prod.mk.injEq] at h
      exact Or.inl h.1

theorem graphLoop_step (p : Params) (k f j : Nat) (keys : List Key) (q : Key) (hlt : keys.length > k)
    (hq : q = .out ∨ ∃ j' i, q = .node j' i ∧ j + 1 ≤ j') :
    graphLoop p k (f+1) j keys q =
      graphLoop p k f (j+1) ((List.range (nchunks k keys.length)).map (Key.node j)) q := by
  rcases hq with rfl | ⟨j', i, rfl, hj⟩
  · simp only [graphLoop, hlt, if_true]
  · have : j' ≠ j := by omega
    simp only [graphLoop, hlt, if_true, this, if_false]

theorem dictLoop_sound (p : Params) (k : Nat) : ∀ f j keys q t, (q, t) ∈ dictLoop p k f j keys →
    graphLoop p k f j keys q = some t := by
  intro f
  induction f with
  | zero =>
    intro j keys q t h
    simp only [dictLoop, List.mem_singleton, Prod.mk.injEq] at h
    obtain ⟨rfl, rfl⟩ := h
    rfl
  | succ f ih =>
    intro j keys q t h
    by_cases hlt : keys.length > k
    · simp only [dictLoop, hlt, if_true, List.mem_append] at h
      rcases h with h | h
      · simp only [List.mem_map, List.mem_range, Prod.mk.injEq] at h
        obtain ⟨i, hi, rfl, rfl⟩ := h
        simp only [graphLoop, hlt, if_true, hi]
      · have hk := dictLoop_keys p k f (j+1) _ q t h
        rw [graphLoop_step p k f j keys q hlt hk]
        exact ih _ _ _ _ h
    · simp only [dictLoop, hlt, if_false, List.mem_singleton, Prod.mk.injEq] at h
      obtain ⟨rfl, rfl⟩ := h
      simp only [graphLoop, hlt, if_false, final]

/-- keys below the starting level, and dependency keys, are not defined by the loop -/
theorem graphLoop_none (p : Params) (k : Nat) : ∀ f j keys q,
    ((∃ i, q = .dep i) ∨ ∃ j' i, q = .node j' i ∧ j' < j) → graphLoop p k f j keys q = none := by
  intro f
  induction f with
  | zero =>
    intro j keys q hq
    rcases hq with ⟨i, rfl⟩ | ⟨j', i, rfl, _⟩ <;> rfl
  | succ f ih =>
    intro j keys q hq
    by_cases hlt : keys.length > k
    · rcases hq with ⟨i, rfl⟩ | ⟨j', i, rfl, hj⟩
      · simp only [graphLoop, hlt, if_true]
        exact ih _ _ _ (Or.inl ⟨i, rfl⟩)
      · have : j' ≠ j := by omega
        simp only [graphLoop, hlt, if_true, this, if_false]
        exact ih _ _ _ (Or.inr ⟨j', i, rfl, by omega⟩)
    · rcases hq with ⟨i, rfl⟩ | ⟨j', i, rfl, _⟩ <;> simp only [graphLoop, hlt, if_false, final]

theorem dictLoop_complete (p : Params) (k : Nat) : ∀ f j keys q t,
    graphLoop p k f j keys q = some t → (q, t) ∈ dictLoop p k f j keys := by
  intro f
  induction f with
  | zero =>
    intro j keys q t h
    cases q <;> simp [graphLoop, final] at h
    subst h; simp [dictLoop]
  | succ f ih =>
    intro j keys q t h
    by_cases hlt : keys.length > k
    · simp only [dictLoop, hlt, if_true, List.mem_append]
      cases q with
      | dep i => rw [graphLoop_none p k _ _ _ _ (Or.inl ⟨i, rfl⟩)] at h; cases h
      | out =>
        rw [graphLoop_step p k f j keys _ hlt (Or.inl rfl)] at h
        exact Or.inr (ih _ _ _ _ h)
      | node j' i =>
        by_cases hj : j' = j
        · subst hj
          simp only [graphLoop, hlt, if_true] at h
          split at h
          · rename_i hi
            cases h
            left
            simp only [List.mem_map, List.mem_range, Prod.mk.injEq]
            exact ⟨i, hi, rfl, rfl⟩
          · cases h
        · simp only [graphLoop, hlt, if_true, hj, if_false] at h
          exact Or.inr (ih _ _ _ _ h)
    · simp only [dictLoop, hlt, if_false, List.mem_singleton, Prod.mk.injEq]
      cases q <;> simp [graphLoop, hlt, final] at h
      subst h; exact ⟨rfl, rfl⟩

/-! termination -/
theorem graphLoop_stable (p : Params) (k : Nat) (hk : 2 ≤ k) : ∀ f j keys, keys.length ≤ f + k →
    graphLoop p k (f+1) j keys = graphLoop p k f j keys := by
  intro f
  induction f with
  | zero =>
    intro j keys h
    funext q
    have : ¬ keys.length > k := by omega
    simp only [graphLoop, this, if_false]
  | succ f ih =>
    intro j keys h
    funext q
    by_cases hlt : keys.length > k
    · have hn := nchunks_lt k keys.length hk hlt
      have := ih (j+1) ((List.range (nchunks k keys.length)).map (Key.node j)) (by simp; omega)
      rw [graphLoop, graphLoop]
      simp only [hlt, if_true, this]
    · simp only [graphLoop, hlt, if_false]

theorem treeVal_succ_gt {α} (comb : List α → α) (k f : Nat) (xs : List α) (h : xs.length > k) :
    treeVal comb k (f+1) xs = treeVal comb k f ((chunks k xs).map comb) := by
  simp only [treeVal, h, if_true]

theorem treeVal_succ_le {α} (comb : List α → α) (k f : Nat) (xs : List α) (h : ¬ xs.length > k) :
    treeVal comb k (f+1) xs = xs := by
  simp only [treeVal, h, if_false]

theorem treeVal_stable {α} (comb : List α → α) (k : Nat) (hk : 2 ≤ k) : ∀ f xs, xs.length ≤ f + k →
    treeVal comb k (f+1) xs = treeVal comb k f xs := by
  intro f
  induction f with
  | zero =>
    intro xs h
    have : ¬ xs.length > k := by omega
    simp only [treeVal, this, if_false]
  | succ f ih =>
    intro xs h
    by_cases hlt : xs.length > k
    · have hn := nchunks_lt k xs.length hk hlt
      have := ih ((chunks k xs).map comb) (by simp [chunks]; omega)
      rw [treeVal_succ_gt comb k (f+1) xs hlt, treeVal_succ_gt comb k f xs hlt, this]
    · rw [treeVal_succ_le comb k (f+1) xs hlt, treeVal_succ_le comb k f xs hlt]

/-- the loop exits through its own condition: the final list has at most `k` entries -/
theorem treeVal_length_le {α} (comb : List α → α) (k : Nat) (hk : 2 ≤ k) : ∀ f xs, xs.length ≤ f + k →
    (treeVal comb k f xs).length ≤ k := by
  intro f
  induction f with
  | zero => intro xs h; simpa [treeVal] using h
  | succ f ih =>
    intro xs h
    by_cases hlt : xs.length > k
    · have hn := nchunks_lt k xs.length hk hlt
      simp only [treeVal, hlt, if_true]
      exact ih _ (by simp [chunks]; omega)
    · simp only [treeVal, hlt, if_false]; omega

/-- with `split_every = 1` an iteration does not shorten the key list: for every bound the loop
    runs until the bound (the real `while` would never exit) -/
theorem sizes_one (f m : Nat) (hm : 1 < m) : sizes 1 f m = List.replicate (f+1) m := by
  induction f with
  | zero => rfl
  | succ f ih =>
    simp only [sizes, hm, if_true]
    rw [show nchunks 1 m = m by simp [nchunks], ih]
    rfl

theorem sizes_length_le (k : Nat) (hk : 2 ≤ k) : ∀ f m, (sizes k f m).length ≤ m + 1 := by
  intro f
  induction f with
  | zero => intro m; simp [sizes]
  | succ f ih =>
    intro m
    by_cases hlt : m > k
    · have hn := nchunks_lt k m hk hlt
      simp only [sizes, hlt, if_true, List.length_cons]
      have := ih (nchunks k m)
      omega
    · simp [sizes, hlt]

/-! well-formedness -/
def treeRank (n : Nat) : Key → Nat
  | .dep _ => 0
  | .node j _ => j
  | .out => n + 1

theorem loop_closed (p : Params) (k : Nat) (inp : Key → Option V) (g : Graph Key) :
    ∀ f j keys,
    (∀ q, (q = .out ∨ ∃ j' i, q = .node j' i ∧ j ≤ j') → g q = graphLoop p k f j keys q) →
    (∀ d ∈ keys, (g d).isSome ∨ (inp d).isSome) →
    ∀ q t, graphLoop p k f j keys q = some t → ∀ d ∈ t.refs, (g d).isSome ∨ (inp d).isSome := by
  intro f
  induction f with
  | zero =>
    intro j keys _ hk q t h d hd
    cases q <;> simp [graphLoop, final] at h
    subst h
    exact hk d hd
  | succ f ih =>
    intro j keys hg hk q t h d hd
    by_cases hlt : keys.length > k
    · have hnode : ∀ i, i < nchunks k keys.length → g (.node j i) =
          some (.apply (combFn p) ((keys.drop (i * k)).take k)) := by
        intro i hi
        rw [hg _ (Or.inr ⟨j, i, rfl, Nat.le_refl _⟩)]
        simp only [graphLoop, hlt, if_true, hi]
      have hnext : ∀ q t, graphLoop p k f (j+1) ((List.range (nchunks k keys.length)).map (Key.node j)) q
          = some t → ∀ d ∈ t.refs, (g d).isSome ∨ (inp d).isSome := by
        apply ih
        · intro q hq
          rw [hg q (by
            rcases hq with h | ⟨j', i, h, hj⟩
            · exact Or.inl h
            · exact Or.inr ⟨j', i, h, by omega⟩)]
          exact graphLoop_step p k f j keys q hlt hq
        · intro d hd
          simp only [List.mem_map, List.mem_range] at hd
          obtain ⟨i, hi, rfl⟩ := hd
          left; rw [hnode i hi]; rfl
      cases q with
      | node j' i =>
        by_cases hj : j' = j
        · subst hj
          simp only [graphLoop, hlt, if_true] at h
          split at h
          · cases h
            simp only [Tsk.refs] at hd
            exact hk d (List.mem_of_mem_drop (List.mem_of_mem_take hd))
          · cases h
        · simp only [graphLoop, hlt, if_true, hj, if_false] at h
          exact hnext _ _ h d hd
      | out =>
        simp only [graphLoop, hlt, if_true] at h
        exact hnext _ _ h d hd
      | dep i =>
        simp only [graphLoop, hlt, if_true] at h
        exact hnext _ _ h d hd
    · cases q <;> simp [graphLoop, hlt, final] at h
      subst h
      exact hk d hd

theorem loop_ranked (p : Params) (k N : Nat) :
    ∀ f j keys, j + f = N + 1 → (∀ d ∈ keys, treeRank N d < j) →
    ∀ q t, graphLoop p k f j keys q = some t → ∀ d ∈ t.refs, treeRank N d < treeRank N q := by
  intro f
  induction f with
  | zero =>
    intro j keys hj hk q t h d hd
    cases q <;> simp [graphLoop, final] at h
    subst h
    have := hk d hd
    show treeRank N d < N + 1
    omega
  | succ f ih =>
    intro j keys hj hk q t h d hd
    by_cases hlt : keys.length > k
    · have hnext : ∀ q t, graphLoop p k f (j+1) ((List.range (nchunks k keys.length)).map (Key.node j)) q
          = some t → ∀ d ∈ t.refs, treeRank N d < treeRank N q := by
        apply ih _ _ (by omega)
        intro d hd
        simp only [List.mem_map, List.mem_range] at hd
        obtain ⟨i, _, rfl⟩ := hd
        simp [treeRank]
      cases q with
      | node j' i =>
        by_cases hj' : j' = j
        · subst hj'
          simp only [graphLoop, hlt, if_true] at h
          split at h
          · cases h
            simp only [Tsk.refs] at hd
            exact hk d (List.mem_of_mem_drop (List.mem_of_mem_take hd))
          · cases h
        · simp only [graphLoop, hlt, if_true, hj', if_false] at h
          exact hnext _ _ h d hd
      | out =>
        simp only [graphLoop, hlt, if_true] at h
        exact hnext _ _ h d hd
      | dep i =>
        simp only [graphLoop, hlt, if_true] at h
        exact hnext _ _ h d hd
    · cases q <;> simp [graphLoop, hlt, final] at h
      subst h
      have := hk d hd
      show treeRank N d < N + 1
      omega

/-! ### the layer as a whole -/

theorem run_tree_dep (I : Interp) (g : Graph Key) (hg : ∀ i, g (.dep i) = none) (vals : Nat → V) (F i : Nat) :
    run I g (inputs vals) F (.dep i) = vals i := by
  rw [run_undefined I g (inputs vals) (.dep i) (hg i)]; rfl

theorem layer_dep_none (p : Params) (i : Nat) : layer p (.dep i) = none := by
  unfold layer
  cases p.splitEvery with
  | none => rfl
  | some k => exact graphLoop_none p k _ _ _ _ (Or.inl ⟨i, rfl⟩)

theorem depKeys_run (I : Interp) (p : Params) (vals : Nat → V) (F : Nat) :
    (depKeys p.n).map (run I (layer p) (inputs vals) F) = (List.range p.n).map vals := by
  simp only [depKeys, List.map_map]
  apply List.map_congr_left
  intro i _
  exact run_tree_dep I (layer p) (layer_dep_none p) vals F i

/-- `run (layer) = treeEval`: the aggregate task receives the values the loop semantics computes -/
theorem run_tree (I : Interp) (p : Params) (vals : Nat → V) (F : Nat) (hF : p.n + 2 ≤ F) :
    run I (layer p) (inputs vals) F .out =
      treeEval (I (combFn p)) (I aggFn) p.splitEvery ((List.range p.n).map vals) := by
  cases hse : p.splitEvery with
  | none =>
    simp only [treeEval]
    refine run_final I (layer p) (inputs vals) (depKeys p.n) _ 0 ?_ (fun F _ => depKeys_run I p vals F) F (by omega)
    simp only [layer, hse]
  | some k =>
    simp only [treeEval, List.length_map, List.length_range]
    refine run_loop I p k (inputs vals) (layer p) p.n 1 (depKeys p.n) _ 0 ?_ (fun F _ => depKeys_run I p vals F) F (by omega)
    intro q _
    simp only [layer, hse]

theorem tree_closed (p : Params) (vals : Nat → V) : Closed (layer p) (inputs vals) := by
  intro q t h d hd
  have hdeps : ∀ d ∈ depKeys p.n, ((layer p) d).isSome ∨ ((inputs vals) d).isSome := by
    intro d hd
    simp only [depKeys, List.mem_map] at hd
    obtain ⟨i, _, rfl⟩ := hd
    right; rfl
  cases hse : p.splitEvery with
  | none =>
    simp only [layer, hse] at h
    cases q <;> simp [final] at h
    subst h
    exact hdeps d hd
  | some k =>
    refine loop_closed p k (inputs vals) (layer p) p.n 1 (depKeys p.n) ?_ hdeps q t ?_ d hd
    · intro q _; simp only [layer, hse]
    · simpa only [layer, hse] using h

theorem tree_ranked (p : Params) : Ranked (layer p) (treeRank p.n) := by
  intro q t h d hd _
  have hdeps : ∀ d ∈ depKeys p.n, treeRank p.n d < 1 := by
    intro d hd
    simp only [depKeys, List.mem_map] at hd
    obtain ⟨i, _, rfl⟩ := hd
    simp [treeRank]
  cases hse : p.splitEvery with
  | none =>
    simp only [layer, hse] at h
    cases q <;> simp [final] at h
    subst h
    have := hdeps d hd
    show treeRank p.n d < p.n + 1
    omega
  | some k =>
    refine loop_ranked p k p.n p.n 1 (depKeys p.n) (by omega) hdeps q t ?_ d hd
    simpa only [layer, hse] using h

/-- the graph function and the transliterated dict define the same tasks -/
theorem dict_iff (p : Params) (q : Key) (t : Tsk Key) : (q, t) ∈ dict p ↔ layer p q = some t := by
  unfold dict layer
  cases p.splitEvery with
  | none =>
    simp only [List.mem_singleton, Prod.mk.injEq]
    cases q <;> simp [final, eq_comm]
  | some k => exact ⟨dictLoop_sound p k _ _ _ q t, dictLoop_complete p k _ _ _ q t⟩

end Dx
