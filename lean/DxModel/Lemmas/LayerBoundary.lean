/-
  Lemmas/LayerBoundary.lean — `LayerWF` of the two layers that import a FOREIGN graph:
  `FromGraph._layer` (Cut.lean: `fromGraphLayer`) and `_DelayedExpr._layer` (Layers/Boundary.lean:
  `delayedExprLayer`).  Both are well formed relative to the imported graph being closed (no inputs), ranked
  and bounded — the part of C09 that is "layers of foreign graphs" (DESIGN §0 table) — plus, for `_DelayedExpr`,
  that no task of the Delayed's graph reads the Delayed's own key (which `_layer` pops).
-/
import DxModel.LayerOK
import DxModel.Layers.Boundary
namespace Dx
namespace Boundary

variable {κ : Type}

/-! ### FromGraph -/

def fromGraphSpec (L : Graph κ) (keys : List κ) (rank : κ → Nat) (bound : Nat) : LSpec (κ ⊕ Nat) :=
  { task := fromGraphLayer L keys
    nout := keys.length
    out := Sum.inr
    outIdx := fun k => match k with | .inr i => some i | .inl _ => none
    depOf := fun _ => none
    rank := fun k => match k with | .inl k => rank k | .inr _ => bound + 1
    bound := bound + 1 }

theorem fromGraph_inl_isSome (L : Graph κ) (keys : List κ) (k : κ) :
    (fromGraphLayer L keys (.inl k)).isSome = (L k).isSome := by
  simp [fromGraphLayer]

theorem fromGraph_wf (L : Graph κ) (keys : List κ) (rank : κ → Nat) (bound : Nat)
    (hc : Closed L (fun _ => none)) (hr : Ranked L rank) (hb : ∀ k, (L k).isSome → rank k ≤ bound)
    (hk : ∀ k ∈ keys, (L k).isSome) : LayerWF (fromGraphSpec L keys rank bound) [] where
  out_idx := by intro i _; rfl
  outs_defined := by
    intro i hi
    have hi' : i < keys.length := hi
    simp [fromGraphSpec, fromGraphLayer, List.getElem?_eq_getElem hi']
  outs_exact := by
    intro k i hk' hidx
    cases k with
    | inl k => simp [fromGraphSpec] at hidx
    | inr j =>
      simp only [fromGraphSpec, Option.some.injEq] at hidx
      subst hidx
      simp only [fromGraphSpec, fromGraphLayer] at hk'
      cases h : keys[j]? with
      | none => simp [h] at hk'
      | some k => exact ⟨(List.getElem?_eq_some_iff.mp h).1, rfl⟩
  own := by intro k _; rfl
  closed := by
    intro k t hk' r hr'
    left
    cases k with
    | inl k =>
      simp only [fromGraphSpec, fromGraphLayer] at hk'
      cases h : L k with
      | none => simp [h] at hk'
      | some t0 =>
        simp only [h, Option.map_some, Option.some.injEq] at hk'
        subst hk'
        rw [Tsk.refs_mapKeys] at hr'
        obtain ⟨r0, hr0, rfl⟩ := List.mem_map.mp hr'
        show (fromGraphLayer L keys (.inl r0)).isSome
        rw [fromGraph_inl_isSome]
        rcases hc k t0 h r0 hr0 with h1 | h1
        · exact h1
        · cases h1
    | inr j =>
      simp only [fromGraphSpec, fromGraphLayer] at hk'
      cases h : keys[j]? with
      | none => simp [h] at hk'
      | some k =>
        simp only [h, Option.some.injEq] at hk'
        subst hk'
        simp only [Tsk.refs, List.mem_singleton] at hr'
        subst hr'
        show (fromGraphLayer L keys (.inl k)).isSome
        rw [fromGraph_inl_isSome]
        exact hk k (List.mem_of_getElem? h)
  ranked := by
    intro k t hk' r hr' hdef
    cases k with
    | inl k =>
      simp only [fromGraphSpec, fromGraphLayer] at hk'
      cases h : L k with
      | none => simp [h] at hk'
      | some t0 =>
        simp only [h, Option.map_some, Option.some.injEq] at hk'
        subst hk'
        rw [Tsk.refs_mapKeys] at hr'
        obtain ⟨r0, hr0, rfl⟩ := List.mem_map.mp hr'
        have hd : (L r0).isSome := by
          have : (fromGraphLayer L keys (.inl r0)).isSome := hdef
          rwa [fromGraph_inl_isSome] at this
        exact hr k t0 h r0 hr0 hd
    | inr j =>
      simp only [fromGraphSpec, fromGraphLayer] at hk'
      cases h : keys[j]? with
      | none => simp [h] at hk'
      | some k =>
        simp only [h, Option.some.injEq] at hk'
        subst hk'
        simp only [Tsk.refs, List.mem_singleton] at hr'
        subst hr'
        have := hb k (hk k (List.mem_of_getElem? h))
        simp only [fromGraphSpec]; omega
  bounded := by
    intro k hk'
    cases k with
    | inl k =>
      have : (L k).isSome := by
        have h2 : (fromGraphLayer L keys (.inl k)).isSome := hk'
        rwa [fromGraph_inl_isSome] at h2
      have := hb k this
      simp only [fromGraphSpec]; omega
    | inr j => simp [fromGraphSpec]

/-! ### _DelayedExpr -/

variable [DecidableEq κ]

def delayedSpec (d : Delayed κ) (rank : κ → Nat) (bound : Nat) : LSpec (BKey κ) :=
  { task := delayedExprLayer d
    nout := 1
    out := fun _ => .wrap d.key
    outIdx := fun k => match k with | .wrap k => if k = d.key then some 0 else none | _ => none
    depOf := fun _ => none
    rank := fun k => match k with | .orig k => rank k | .wrap k => rank k | .out _ => 0
    bound := bound }

theorem delayed_orig_isSome (d : Delayed κ) (k : κ) (hne : k ≠ d.key) :
    (delayedExprLayer d (.orig k)).isSome = (d.graph k).isSome := by
  simp [delayedExprLayer, hne]

/-- `hself`: no task of the Delayed's graph reads the Delayed's own key (the key `_layer` pops) -/
theorem delayed_wf (d : Delayed κ) (rank : κ → Nat) (bound : Nat)
    (hc : Closed d.graph (fun _ => none)) (hr : Ranked d.graph rank) (hb : ∀ k, (d.graph k).isSome → rank k ≤ bound)
    (hkey : (d.graph d.key).isSome) (hself : ∀ k t, d.graph k = some t → d.key ∉ t.refs) :
    LayerWF (delayedSpec d rank bound) [] where
  out_idx := by
    intro i hi
    have : i = 0 := by simp only [delayedSpec] at hi; omega
    subst this; simp [delayedSpec]
  outs_defined := by
    intro i _
    simp only [delayedSpec, delayedExprLayer, if_true]
    cases h : d.graph d.key with
    | none => simp [h] at hkey
    | some t => simp
  outs_exact := by
    intro k i _ hidx
    cases k with
    | wrap k =>
      simp only [delayedSpec] at hidx
      split at hidx
      · rename_i h; cases hidx; subst h; exact ⟨by simp [delayedSpec], rfl⟩
      · cases hidx
    | orig k => simp [delayedSpec] at hidx
    | out j => simp [delayedSpec] at hidx
  own := by intro k _; rfl
  closed := by
    have step : ∀ k t0, d.graph k = some t0 → ∀ r ∈ (t0.mapKeys BKey.orig).refs,
        (delayedExprLayer d r).isSome := by
      intro k t0 h r hr'
      rw [Tsk.refs_mapKeys] at hr'
      obtain ⟨r0, hr0, rfl⟩ := List.mem_map.mp hr'
      have hne : r0 ≠ d.key := by intro he; subst he; exact hself k t0 h hr0
      rw [delayed_orig_isSome d r0 hne]
      rcases hc k t0 h r0 hr0 with h1 | h1
      · exact h1
      · cases h1
    intro k t hk' r hr'
    left
    cases k with
    | orig k =>
      simp only [delayedSpec, delayedExprLayer] at hk'
      split at hk'
      · cases hk'
      · cases h : d.graph k with
        | none => simp [h] at hk'
        | some t0 =>
          simp only [h, Option.map_some, Option.some.injEq] at hk'
          subst hk'
          exact step k t0 h r hr'
    | wrap k =>
      simp only [delayedSpec, delayedExprLayer] at hk'
      split at hk'
      · cases h : d.graph d.key with
        | none => simp [h] at hk'
        | some t0 =>
          simp only [h, Option.map_some, Option.some.injEq] at hk'
          subst hk'
          exact step d.key t0 h r hr'
      · cases hk'
    | out j => simp [delayedSpec, delayedExprLayer] at hk'
  ranked := by
    have step : ∀ k t0, d.graph k = some t0 → ∀ r ∈ (t0.mapKeys BKey.orig).refs,
        (delayedExprLayer d r).isSome → (delayedSpec d rank bound).rank r < rank k := by
      intro k t0 h r hr' hdef
      rw [Tsk.refs_mapKeys] at hr'
      obtain ⟨r0, hr0, rfl⟩ := List.mem_map.mp hr'
      have hne : r0 ≠ d.key := by intro he; subst he; exact hself k t0 h hr0
      rw [delayed_orig_isSome d r0 hne] at hdef
      exact hr k t0 h r0 hr0 hdef
    intro k t hk' r hr' hdef
    cases k with
    | orig k =>
      simp only [delayedSpec, delayedExprLayer] at hk'
      split at hk'
      · cases hk'
      · cases h : d.graph k with
        | none => simp [h] at hk'
        | some t0 =>
          simp only [h, Option.map_some, Option.some.injEq] at hk'
          subst hk'
          exact step k t0 h r hr' hdef
    | wrap k =>
      simp only [delayedSpec, delayedExprLayer] at hk'
      split at hk'
      · rename_i heq
        subst heq
        cases h : d.graph d.key with
        | none => simp [h] at hk'
        | some t0 =>
          simp only [h, Option.map_some, Option.some.injEq] at hk'
          subst hk'
          exact step d.key t0 h r hr' hdef
      · cases hk'
    | out j => simp [delayedSpec, delayedExprLayer] at hk'
  bounded := by
    intro k hk'
    cases k with
    | orig k =>
      simp only [delayedSpec, delayedExprLayer] at hk'
      split at hk'
      · cases hk'
      · exact hb k (by simpa using hk')
    | wrap k =>
      simp only [delayedSpec, delayedExprLayer] at hk'
      split at hk'
      · rename_i heq; subst heq; exact hb d.key hkey
      · cases hk'
    | out j => simp [delayedSpec, delayedExprLayer] at hk'

end Boundary
end Dx
