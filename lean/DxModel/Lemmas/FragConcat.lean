/-
  Lemmas/FragConcat.lean — soundness of `Concat._simplify_up` (rows stacked, `axis=0`) in the fragment, from
  `C04_concat_wf` (no input is removed, every input keeps a sub-schema with the requested columns it had),
  `C04_concat_labels` (the parent is dropped only when the labels are exactly the requested ones) and
  `C04_concat_values` (every input's block of a requested column is what it was).
-/
import DxModel.Lemmas.FragRules
namespace Dx.Frag
open Dx Dx.Cols

variable {γ ι : Type}

/-! ### labels of a row-wise concatenation -/

theorem mem_foldl_union (c : Name) : ∀ (l acc : List Name),
    c ∈ l.foldl (fun acc x => if acc.contains x then acc else acc ++ [x]) acc ↔ c ∈ acc ∨ c ∈ l
  | [], acc => by simp
  | x :: t, acc => by
    simp only [List.foldl_cons]
    rw [mem_foldl_union c t]
    by_cases hx : acc.contains x = true
    · rw [if_pos hx]
      have hxm : x ∈ acc := List.contains_iff_mem.mp hx
      constructor
      · rintro (h | h)
        · exact Or.inl h
        · exact Or.inr (List.mem_cons_of_mem _ h)
      · rintro (h | h)
        · exact Or.inl h
        · rcases List.mem_cons.mp h with rfl | h'
          · exact Or.inl hxm
          · exact Or.inr h'
    · rw [if_neg hx]
      simp only [List.mem_append, List.mem_cons, List.not_mem_nil, or_false]
      constructor
      · rintro ((h | h) | h)
        · exact Or.inl h
        · exact Or.inr (Or.inl h)
        · exact Or.inr (Or.inr h)
      · rintro (h | h | h)
        · exact Or.inl (Or.inl h)
        · exact Or.inl (Or.inr h)
        · exact Or.inr h

theorem mem_concatCols_outer (c : Name) (fs : List (List Name)) :
    c ∈ concatCols false false fs ↔ ∃ f, f ∈ fs ∧ c ∈ f := by
  cases fs with
  | nil => simp [concatCols]
  | cons f fs =>
    simp only [concatCols, Bool.false_eq_true, if_false]
    rw [mem_foldl_union]
    simp only [List.not_mem_nil, false_or, List.mem_flatten]

theorem mem_concatCols_inner (c : Name) (f : List Name) (fs : List (List Name)) :
    c ∈ concatCols false true (f :: fs) ↔ ∀ g, g ∈ f :: fs → c ∈ g := by
  simp only [concatCols, Bool.false_eq_true, if_false, if_true, List.mem_filter, List.all_eq_true,
    List.contains_iff_mem, List.mem_cons, forall_eq_or_imp]

/-- a requested label of the old concatenation is a label of the new one when every input keeps the requested
    columns it had -/
theorem mem_concatCols_pruned (inner : Bool) (frames : List (List Name)) (keep : List Name → List Name) (c : Name)
    (hkeep : ∀ f, f ∈ frames → c ∈ f → c ∈ keep f) (h : c ∈ concatCols false inner frames) :
    c ∈ concatCols false inner (frames.map keep) := by
  cases inner with
  | false =>
    rw [mem_concatCols_outer] at h ⊢
    obtain ⟨f, hf, hc⟩ := h
    exact ⟨keep f, List.mem_map.mpr ⟨f, hf, rfl⟩, hkeep f hf hc⟩
  | true =>
    cases frames with
    | nil => simp [concatCols] at h
    | cons f fs =>
      rw [List.map_cons, mem_concatCols_inner] at *
      intro g hg
      rcases List.mem_cons.mp hg with rfl | hg'
      · exact hkeep f (by simp) (h f (by simp))
      · obtain ⟨g0, hg0, rfl⟩ := List.mem_map.mp hg'
        exact hkeep g0 (by simp [hg0]) (h g0 (by simp [hg0]))

/-! ### the node -/

theorem semOp_concat_iff (I : Interp γ ι) (inner : Bool) (vs : List (FVal γ)) (v : FVal γ) :
    semOp I (.concat inner) vs = some v ↔
      vs ≠ [] ∧ (∀ w, w ∈ vs → w.ser = false) ∧ (inner = true → ∀ w, w ∈ vs → w.fr.cols ≠ []) ∧
        (∃ w, w ∈ vs ∧ w.fr.cols ≠ []) ∧ v = ⟨concatFrame I inner (vs.map (·.fr)), false⟩ := by
  cases vs with
  | nil =>
    constructor
    · intro h
      obtain ⟨s, hs, _⟩ := semOp_some h
      cases hs
    · rintro ⟨h, _⟩; exact absurd rfl h
  | cons w ws =>
    have hsch : schOp (.concat inner) ((w :: ws).map FVal.sch) =
        if (((w :: ws).map FVal.sch).all (fun x => !x.ser) &&
            (!inner || ((w :: ws).map FVal.sch).all (fun x => !x.cols.isEmpty)) &&
            ((w :: ws).map FVal.sch).any (fun x => !x.cols.isEmpty)) = true
          then some ⟨concatCols false inner (((w :: ws).map FVal.sch).map (·.cols)), false⟩ else none := rfl
    have hcond : ((((w :: ws).map FVal.sch).all (fun x => !x.ser) &&
            (!inner || ((w :: ws).map FVal.sch).all (fun x => !x.cols.isEmpty)) &&
            ((w :: ws).map FVal.sch).any (fun x => !x.cols.isEmpty)) = true) ↔
        (∀ u, u ∈ w :: ws → u.ser = false) ∧ (inner = true → ∀ u, u ∈ w :: ws → u.fr.cols ≠ []) ∧
          (∃ u, u ∈ w :: ws ∧ u.fr.cols ≠ []) := by
      simp only [Bool.and_eq_true, Bool.or_eq_true, List.all_eq_true, List.any_eq_true, List.mem_map, forall_exists_index,
        and_imp, forall_apply_eq_imp_iff₂, Bool.not_eq_true', List.isEmpty_eq_false_iff]
      constructor
      · rintro ⟨⟨h1, h2⟩, ⟨x, ⟨a, ha, rfl⟩, hx⟩⟩
        refine ⟨h1, fun hi u hu => ?_, ⟨a, ha, hx⟩⟩
        rcases h2 with h2 | h2
        · rw [hi] at h2; cases h2
        · exact h2 u hu
      · rintro ⟨h1, h2, ⟨a, ha, hx⟩⟩
        refine ⟨⟨h1, ?_⟩, ⟨a.sch, ⟨a, ha, rfl⟩, hx⟩⟩
        cases inner with
        | false => exact Or.inl rfl
        | true => exact Or.inr (fun u hu => h2 rfl u hu)
    have hcols : ((w :: ws).map FVal.sch).map (·.cols) = ((w :: ws).map (·.fr)).map (·.cols) := by
      rw [List.map_map, List.map_map]; rfl
    have hval : schOp (.concat inner) ((w :: ws).map FVal.sch) =
          some ⟨concatCols false inner (((w :: ws).map FVal.sch).map (·.cols)), false⟩ →
        semOp I (.concat inner) (w :: ws) = some ⟨concatFrame I inner ((w :: ws).map (·.fr)), false⟩ := by
      intro hs
      have hc : (frameOp I (.concat inner) (w :: ws)).cols = concatCols false inner (((w :: ws).map FVal.sch).map (·.cols)) := by
        rw [hcols]; rfl
      exact semOp_eq hs hc (normal_concatFrame _ _ _)
    constructor
    · intro h
      obtain ⟨s, hs, _⟩ := semOp_some h
      rw [hsch] at hs
      obtain ⟨hc, _⟩ := ite_some hs
      have hs' := hsch
      rw [if_pos hc] at hs'
      rw [hval hs'] at h
      obtain ⟨h1, h2, h3⟩ := hcond.mp hc
      exact ⟨by simp, h1, h2, h3, (Option.some.inj h).symm⟩
    · rintro ⟨_, h2, h3, h4, h5⟩
      have hs' := hsch
      rw [if_pos (hcond.mpr ⟨h2, h3, h4⟩)] at hs'
      rw [hval hs', h5]

theorem allSchemas_of_den {I : Interp γ ι} : ∀ {xs : List Expr} {vs : List (FVal γ)}, xs.map (den I) = vs.map some →
    allSchemas xs = some (vs.map FVal.sch)
  | [], [], _ => rfl
  | [], _ :: _, h => by cases h
  | _ :: _, [], h => by cases h
  | x :: xs, v :: vs, h => by
    simp only [List.map_cons, List.cons.injEq] at h
    simp only [allSchemas, den_schema h.1, allSchemas_of_den h.2, List.map_cons]

/-- a sub-list with the same elements (as a multiset) is the list itself -/
theorem sublist_perm_eq {l1 l2 : List Name} (hs : l1.Sublist l2) (hp : l1.Perm l2) : l1 = l2 :=
  hs.eq_of_length hp.length_eq

theorem concatKeepCols_sublist (columns f : List Name) : (concatKeepCols false columns f).Sublist f := by
  rcases concatKeepCols_cases false columns f with h | ⟨_, _, h⟩
  · rw [h]; exact List.filter_sublist
  · rw [h]; exact List.take_sublist 1 f

theorem perm_of_sortKeep_eq {a b : List Name} (h : sortKeep a = sortKeep b) : a.Perm b :=
  (sortKeep_perm a).symm.trans (h ▸ sortKeep_perm b)

/-- labels of an input after the rewrite: what `concatKeepCols` says, whether or not a projection was put on it -/
theorem selOpt_concatChild_cols (columns : List Name) (F : Frame γ) :
    (Cols.selOpt (concatChild false columns F.cols) F).cols = concatKeepCols false columns F.cols := by
  unfold concatChild
  simp only
  split
  · rename_i hs
    exact (sublist_perm_eq (concatKeepCols_sublist columns F.cols) (perm_of_sortKeep_eq hs)).symm
  · rfl

/-- the new operands denote the pruned frames -/
theorem den_zipSel (I : Interp γ ι) (sel : Sel) (deps : List Dep) : ∀ (xs : List Expr) (vs : List (FVal γ)),
    xs.map (den I) = vs.map some → (∀ w, w ∈ vs → w.ser = false ∧ w.fr.cols.Nodup) →
    (zipSel ((vs.map (fun w => w.fr.cols)).map (concatChild false (detProj (parentOf sel) deps []).toList)) xs).map (den I) =
      (vs.map (fun w => (⟨Cols.selOpt (concatChild false (detProj (parentOf sel) deps []).toList w.fr.cols) w.fr, false⟩ : FVal γ))).map some
  | [], [], _, _ => rfl
  | [], _ :: _, h, _ => by cases h
  | _ :: _, [], h, _ => by cases h
  | x :: xs, v :: vs, h, hw => by
    simp only [List.map_cons, List.cons.injEq] at h
    have ih := den_zipSel I sel deps xs vs h.2 (fun w hw' => hw w (by simp [hw']))
    obtain ⟨hser, hnd⟩ := hw v (by simp)
    simp only [List.map_cons, zipSel, ih, List.cons.injEq, and_true]
    rcases concatChild_cases false (detProj (parentOf sel) deps []).toList v.fr.cols with hc | hc
    · rw [hc]
      simp only [selOpt, Cols.selOpt]
      rw [h.1]
      congr 1
      cases v; simp only at hser; subst hser; rfl
    · rw [hc]
      simp only [selOpt, Cols.selOpt]
      have had := concatKeepCols_adequate false v.fr.cols (parentOf sel) deps
      exact den_proj_some (s := .many _) h.1 hser (had.nodup hnd) had.sub

/-- Concat: every input is pruned to the requested columns it has (at least one column), the parent is re-applied
    unless the labels come out exactly as requested -/
theorem upConcat_sound (I : Interp γ ι) {inner : Bool} {xs : List Expr} {c p o : Expr} {d : Deps}
    (hc : c.op = .concat inner) (ha : c.args = xs) (h : upConcat inner xs c p d = some o) :
    ∀ v, den I p = some v → den I o = some v := by
  unfold upConcat at h
  cases hpo : projOver p c with
  | none => rw [hpo] at h; cases h
  | some sel =>
    cases hss : allSchemas xs with
    | none => rw [hpo, hss] at h; cases h
    | some ss =>
      rw [hpo, hss] at h
      simp only at h
      split at h
      · cases h
      · cases hr : concat false inner (ss.map (·.cols)) (parentOf sel) (depsOf d c) with
        | none => rw [hr] at h; cases h
        | some rw =>
          rw [hr] at h
          simp only at h
          cases h
          intro v hv
          obtain ⟨vc, hvc, _, hnd, hsub, rfl⟩ := projOver_den hpo hv
          obtain ⟨vs, hvs, hs⟩ := den_some hvc
          rw [ha] at hvs
          rw [hc] at hs
          obtain ⟨hne, hsers, hnonempty, hsome, hvc'⟩ := (semOp_concat_iff I inner vs vc).mp hs
          subst hvc'
          have hss' : ss = vs.map FVal.sch := by
            rw [allSchemas_of_den hvs] at hss
            exact (Option.some.inj hss).symm
          subst hss'
          have hfr : (vs.map FVal.sch).map (·.cols) = vs.map (fun w => w.fr.cols) := by
            rw [List.map_map]; rfl
          rw [hfr] at hr
          obtain ⟨hch, _⟩ := concat_spec hr
          -- the new inputs
          have hnodup : ∀ w, w ∈ vs → w.ser = false ∧ w.fr.cols.Nodup := by
            intro w hw
            refine ⟨hsers w hw, ?_⟩
            obtain ⟨x, hx, hxw⟩ : ∃ x, x ∈ xs ∧ den I x = some w := by
              have : some w ∈ xs.map (den I) := by rw [hvs]; exact List.mem_map.mpr ⟨w, hw, rfl⟩
              obtain ⟨x, hx, hxw⟩ := List.mem_map.mp this
              exact ⟨x, hx, hxw⟩
            exact den_nodup hxw
          have hnew := den_zipSel I sel (depsOf d c) xs vs hvs hnodup
          rw [← hch] at hnew
          have hnewc : den I (mk (.concat inner) (zipSel rw.childs xs)) =
              some ⟨concatFrame I inner ((vs.map (·.fr)).map (fun F => Cols.selOpt (concatChild false (detProj (parentOf sel) (depsOf d c) []).toList F.cols) F)), false⟩ := by
            rw [den_of_args (e := mk (.concat inner) (zipSel rw.childs xs)) (by rw [mk_args]; exact hnew), mk_op]
            rw [(semOp_concat_iff I inner _ _).mpr ⟨?_, ?_, ?_, ?_, rfl⟩]
            · congr 3
              rw [List.map_map, List.map_map]; rfl
            · intro hnil
              cases vs with
              | nil => exact hne rfl
              | cons _ _ => simp at hnil
            · intro w hw
              obtain ⟨w0, _, rfl⟩ := List.mem_map.mp hw
              rfl
            · intro hi w hw
              obtain ⟨w0, hw0, rfl⟩ := List.mem_map.mp hw
              show (Cols.selOpt (concatChild false (detProj (parentOf sel) (depsOf d c) []).toList w0.fr.cols) w0.fr).cols ≠ []
              rw [selOpt_concatChild_cols]
              exact concatKeepCols_ne_nil _ _ (hnonempty hi w0 hw0)
            · obtain ⟨w0, hw0, hw0c⟩ := hsome
              refine ⟨_, List.mem_map.mpr ⟨w0, hw0, rfl⟩, ?_⟩
              show (Cols.selOpt (concatChild false (detProj (parentOf sel) (depsOf d c) []).toList w0.fr.cols) w0.fr).cols ≠ []
              rw [selOpt_concatChild_cols]
              exact concatKeepCols_ne_nil _ _ hw0c
          -- labels of the new concatenation
          have hcols' : (((vs.map (·.fr)).map (fun F => Cols.selOpt (concatChild false (detProj (parentOf sel) (depsOf d c) []).toList F.cols) F)).map (·.cols)) =
              (vs.map (fun w => w.fr.cols)).map (concatKeepCols false (detProj (parentOf sel) (depsOf d c) []).toList) := by
            rw [List.map_map, List.map_map, List.map_map]
            apply List.map_congr_left
            intro w _
            exact selOpt_concatChild_cols _ w.fr
          have hcols0 : (vs.map (·.fr)).map (·.cols) = vs.map (fun w => w.fr.cols) := by
            rw [List.map_map]; rfl
          -- every requested label is still a label, with the same stacked column
          have hmem : ∀ y, y ∈ sel.toList → y ∈ concatCols false inner ((vs.map (fun w => w.fr.cols)).map
              (concatKeepCols false (detProj (parentOf sel) (depsOf d c) []).toList)) := by
            intro y hy
            apply mem_concatCols_pruned inner _ _ y
            · intro f _ hyf
              have had := concatKeepCols_adequate false f (parentOf sel) (depsOf d c)
              exact had.req y (by rw [parentOf_cols]; exact hy) hyf
            · have := hsub y hy
              have h' : y ∈ concatCols false inner ((vs.map (·.fr)).map (·.cols)) := this
              rw [hcols0] at h'
              exact h'
          have hvals : ∀ y, y ∈ sel.toList →
              (concatFrame I inner ((vs.map (·.fr)).map (fun F => Cols.selOpt (concatChild false (detProj (parentOf sel) (depsOf d c) []).toList F.cols) F))).val y =
              (concatFrame I inner (vs.map (·.fr))).val y := by
            intro y hy
            have hy1 : y ∈ concatCols false inner ((vs.map (·.fr)).map (·.cols)) := hsub y hy
            have hy2 := hmem y hy
            rw [← hcols'] at hy2
            unfold concatFrame
            rw [select_val_mem hy2, select_val_mem hy1]
            have hcol : y ∈ (detProj (parentOf sel) (depsOf d c) []).toList := by
              rw [detProj_toList]
              exact parent_mem_union (by rw [parentOf_cols]; exact hy)
            exact C04_concat_values (concatC I []) (vs.map (·.fr)) _ y hcol
          by_cases hk : rw.keep = true
          · simp only [reproj, hk, if_true]
            rw [den_proj_some hnewc rfl hnd (fun y hy => by
              show y ∈ concatCols false inner _
              rw [hcols']; exact hmem y hy)]
            congr 2
            exact select_congr _ hvals
          · have hk' : rw.keep = false := by simpa using hk
            simp only [reproj, hk', Bool.false_eq_true, if_false]
            rw [hnewc]
            obtain ⟨hlab, hnd1⟩ := C04_concat_labels false inner _ (parentOf sel) (depsOf d c) rw hr hk'
            have hfilt : (vs.map (fun w => w.fr.cols)).filter (fun f => !concatDropped false (detProj (parentOf sel) (depsOf d c) []).toList f) =
                vs.map (fun w => w.fr.cols) := by
              apply List.filter_eq_self.mpr
              intro f _
              rfl
            rw [hfilt, parentOf_cols] at hlab
            -- the labels the new Concat declares are its labels: no input without columns under join="inner"
            have hdecl : concatLabels false inner ((vs.map (fun w => w.fr.cols)).map
                (concatKeepCols false (detProj (parentOf sel) (depsOf d c) []).toList)) =
                concatCols false inner ((vs.map (fun w => w.fr.cols)).map
                (concatKeepCols false (detProj (parentOf sel) (depsOf d c) []).toList)) := by
              cases inner with
              | false => exact concatLabels_outer _
              | true =>
                apply concatLabels_of_nonempty
                intro f hf
                obtain ⟨f0, hf0, rfl⟩ := List.mem_map.mp hf
                obtain ⟨w, hw, rfl⟩ := List.mem_map.mp hf0
                exact concatKeepCols_ne_nil _ _ (hnonempty rfl w hw)
            rw [hdecl] at hlab
            rw [parentOf_ndim1] at hnd1
            rw [hnd1]
            congr 2
            refine frame_ext ?_ (normal_concatFrame _ _ _) (normal_select _ _) ?_
            · show concatCols false inner _ = sel.toList
              rw [hcols']; exact hlab
            · intro y hy
              have hy' : y ∈ sel.toList := by
                have : y ∈ concatCols false inner _ := hy
                rw [hcols', hlab] at this
                exact this
              rw [hvals y hy', select_val_mem hy']

end Dx.Frag
