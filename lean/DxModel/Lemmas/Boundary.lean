/-
  Lemmas/Boundary.lean — helper lemmas for the boundary constructs of Layers/Boundary.lean (C17).
-/
import DxModel.Layers.Boundary
namespace Dx
namespace Boundary

/-! ### cull -/

theorem run_cull {κ} (I : Interp) (G : Graph κ) (keep : κ → Bool) (roots : List κ) (inp : κ → Option V)
    (h : CullOK G keep roots) :
    ∀ n k, keep k = true → run I (cull G keep) inp n k = run I G inp n k := by
  intro n
  induction n with
  | zero => intro k hk; simp [run, cull, hk]
  | succ n ih =>
    intro k hk
    simp only [run, cull, hk, if_true]
    cases hg : G k with
    | none => rfl
    | some t =>
      simp only
      apply evalTsk_congr
      intro d hd
      exact ih d (h.closed k t hk hg d hd)

theorem cull_some {κ} (G : Graph κ) (keep : κ → Bool) (k : κ) (t : Tsk κ) (h : cull G keep k = some t) :
    G k = some t := by
  simp only [cull] at h
  split at h
  · exact h
  · cases h

theorem ranked_cull {κ} (G : Graph κ) (keep : κ → Bool) (rank : κ → Nat) (hr : Ranked G rank) :
    Ranked (cull G keep) rank := by
  intro k t hk d hd hdef
  have hk' := cull_some G keep k t hk
  apply hr k t hk' d hd
  cases hc : cull G keep d with
  | none => simp [hc] at hdef
  | some td => simp [cull_some G keep d td hc]

theorem cullCheck_sound (l : List (Nat × List Nat)) (kept roots : List Nat) (h : cullCheck l kept roots = true) :
    CullOK (listingGraph l) (fun k => kept.contains k) roots := by
  simp only [cullCheck, Bool.and_eq_true, List.all_eq_true] at h
  obtain ⟨h1, h2⟩ := h
  refine ⟨h1, ?_⟩
  intro k t hk hg r hr
  simp only [listingGraph] at hg
  cases hl : l.lookup k with
  | none => simp [hl] at hg
  | some rs =>
    simp only [hl, Option.some.injEq] at hg
    subst hg
    have hk' : k ∈ kept := by simpa using hk
    have := h2 k hk' r (by simpa [refsOf, hl, Tsk.refs] using hr)
    exact this

/-! ### toolz.merge -/

theorem mergeLayers_none_iff {κ} (ls : List (Graph κ)) (k : κ) :
    mergeLayers ls k = none ↔ ∀ l ∈ ls, l k = none := by
  induction ls with
  | nil => simp [mergeLayers]
  | cons l ls ih =>
    simp only [mergeLayers, List.mem_cons, forall_eq_or_imp]
    cases hm : mergeLayers ls k with
    | some t =>
      simp only [reduceCtorEq, false_iff, not_and]
      intro _ hall
      rw [ih.mpr hall] at hm
      cases hm
    | none =>
      simp only
      exact ⟨fun h => ⟨h, ih.mp hm⟩, fun h => h.1⟩

theorem mergeLayers_weak {κ} (ls : List (Graph κ)) (k : κ) (v : Option (Tsk κ))
    (hall : ∀ l ∈ ls, l k = v ∨ l k = none) : mergeLayers ls k = v ∨ mergeLayers ls k = none := by
  induction ls with
  | nil => right; rfl
  | cons l ls ih =>
    have ih' := ih (fun l' hl' => hall l' (List.mem_cons_of_mem _ hl'))
    simp only [mergeLayers]
    cases hm : mergeLayers ls k with
    | some t =>
      rcases ih' with h | h
      · left; rw [← h, hm]
      · rw [hm] at h; cases h
    | none =>
      simp only
      exact hall l (List.mem_cons_self)

theorem mergeLayers_eq {κ} (ls : List (Graph κ)) (k : κ) (v : Option (Tsk κ))
    (hall : ∀ l ∈ ls, l k = v ∨ l k = none) (hex : v = none ∨ ∃ l ∈ ls, l k = v) :
    mergeLayers ls k = v := by
  rcases mergeLayers_weak ls k v hall with h | h
  · exact h
  · have hn := (mergeLayers_none_iff ls k).mp h
    rcases hex with hv | ⟨l, hl, hlv⟩
    · rw [h, hv]
    · rw [h, ← hlv, hn l hl]

theorem mergeLayers_cons_none {κ} (l : Graph κ) (ls : List (Graph κ)) (k : κ) (h : l k = none) :
    mergeLayers (l :: ls) k = mergeLayers ls k := by
  simp only [mergeLayers, h]
  cases mergeLayers ls k <;> rfl

/-! ### the walk below the root -/

theorem walkDeps_subset {κ} [DecidableEq κ] :
    ∀ (l : List (Delayed κ)) (seen : List κ), ∀ d ∈ walkDeps l seen, d ∈ l := by
  intro l
  induction l with
  | nil => intro seen d hd; simp [walkDeps] at hd
  | cons a t ih =>
    intro seen d hd
    simp only [walkDeps] at hd
    split at hd
    · exact List.mem_cons_of_mem _ (ih seen d hd)
    · rcases List.mem_cons.mp hd with h | h
      · rw [h]; exact List.mem_cons_self
      · exact List.mem_cons_of_mem _ (ih _ d h)

theorem walkDeps_cover {κ} [DecidableEq κ] :
    ∀ (l : List (Delayed κ)) (seen : List κ), ∀ d ∈ l,
      seen.contains d.key = true ∨ ∃ d' ∈ walkDeps l seen, d'.key = d.key := by
  intro l
  induction l with
  | nil => intro seen d hd; cases hd
  | cons a t ih =>
    intro seen d hd
    simp only [walkDeps]
    by_cases hs : seen.contains a.key = true
    · simp only [hs, if_true]
      rcases List.mem_cons.mp hd with h | h
      · left; rw [h]; exact hs
      · exact ih seen d h
    · simp only [hs]
      rcases List.mem_cons.mp hd with h | h
      · right; exact ⟨a, List.mem_cons_self, by rw [h]⟩
      · rcases ih (a.key :: seen) d h with h' | ⟨d', hd', hk⟩
        · have hm : d.key ∈ a.key :: seen := by simpa using h'
          rcases List.mem_cons.mp hm with he | he
          · right; exact ⟨a, List.mem_cons_self, he.symm⟩
          · left; simpa using he
        · right; exact ⟨d', List.mem_cons_of_mem _ hd', hk⟩

/-! ### look-ups in the graph of a FromDelayed expression whose Delayeds share one graph `G`
    (what `to_delayed` produces) -/

section lookups
variable {κ : Type} [DecidableEq κ] (e : FromDelayed κ) (G : Graph κ) (hG : ∀ d ∈ e.dfs, d.graph = G)
include hG

theorem depLayers_mem (l : Graph (BKey κ)) (hl : l ∈ (walkDeps e.dfs.reverse []).map delayedExprLayer) :
    ∃ d ∈ e.dfs, d.graph = G ∧ l = delayedExprLayer d := by
  obtain ⟨d, hd, rfl⟩ := List.mem_map.mp hl
  have hd' : d ∈ e.dfs := by simpa using walkDeps_subset _ _ d hd
  exact ⟨d, hd', hG d hd', rfl⟩

theorem graph_out (i : Nat) : e.graph (.out i) = e.ownLayer (.out i) := by
  have hn : mergeLayers ((walkDeps e.dfs.reverse []).map delayedExprLayer) (.out i) = none := by
    rw [mergeLayers_none_iff]
    intro l hl
    obtain ⟨d, _, _, rfl⟩ := depLayers_mem e G hG l hl
    rfl
  simp only [FromDelayed.graph, mergeLayers, hn]

theorem graph_wrap (d : Delayed κ) (hd : d ∈ e.dfs) :
    e.graph (.wrap d.key) = (G d.key).map (fun t => t.mapKeys BKey.orig) := by
  rw [FromDelayed.graph, mergeLayers_cons_none _ _ _ (by rfl)]
  apply mergeLayers_eq
  · intro l hl
    obtain ⟨d', _, hg', rfl⟩ := depLayers_mem e G hG l hl
    simp only [delayedExprLayer]
    by_cases hk : d.key = d'.key
    · left; simp [hk, hg']
    · right; simp [hk]
  · right
    rcases walkDeps_cover e.dfs.reverse [] d (by simpa using hd) with h | ⟨d', hd', hk⟩
    · simp at h
    · refine ⟨delayedExprLayer d', List.mem_map.mpr ⟨d', hd', rfl⟩, ?_⟩
      have hd'' : d' ∈ e.dfs := by simpa using walkDeps_subset _ _ d' hd'
      simp [delayedExprLayer, hk, hG d' hd'']

theorem graph_orig_weak (k : κ) :
    e.graph (.orig k) = (G k).map (fun t => t.mapKeys BKey.orig) ∨ e.graph (.orig k) = none := by
  rw [FromDelayed.graph, mergeLayers_cons_none _ _ _ (by rfl)]
  apply mergeLayers_weak
  intro l hl
  obtain ⟨d', _, hg', rfl⟩ := depLayers_mem e G hG l hl
  simp only [delayedExprLayer]
  by_cases hk : k = d'.key
  · right; simp [hk]
  · left; simp [hk, hg']

theorem graph_orig (k : κ) (hex : ∃ d ∈ e.dfs, d.key ≠ k) :
    e.graph (.orig k) = (G k).map (fun t => t.mapKeys BKey.orig) := by
  rw [FromDelayed.graph, mergeLayers_cons_none _ _ _ (by rfl)]
  apply mergeLayers_eq
  · intro l hl
    obtain ⟨d', _, hg', rfl⟩ := depLayers_mem e G hG l hl
    simp only [delayedExprLayer]
    by_cases hk : k = d'.key
    · right; simp [hk]
    · left; simp [hk, hg']
  · right
    obtain ⟨d, hd, hne⟩ := hex
    rcases walkDeps_cover e.dfs.reverse [] d (by simpa using hd) with h | ⟨d', hd', hk⟩
    · simp at h
    · refine ⟨delayedExprLayer d', List.mem_map.mpr ⟨d', hd', rfl⟩, ?_⟩
      have hd'' : d' ∈ e.dfs := by simpa using walkDeps_subset _ _ d' hd'
      have : ¬ k = d'.key := by rw [hk]; exact fun h => hne h.symm
      simp [delayedExprLayer, this, hG d' hd'']

/-- a key all of whose ancestors … : `k` lies strictly below every key that `_DelayedExpr._layer` popped from
    *all* layers (there is such a key only when all Delayeds have the same key) -/
def Below (rank : κ → Nat) (k : κ) : Prop := ∀ c, (∀ d ∈ e.dfs, d.key = c) → rank k < rank c

omit hG [DecidableEq κ] in
theorem below_exists (rank : κ → Nat) (k : κ) (h : Below e rank k) : ∃ d ∈ e.dfs, d.key ≠ k := by
  apply Classical.byContradiction
  intro hno
  have hall : ∀ d ∈ e.dfs, d.key = k := by
    intro d hd
    apply Classical.byContradiction
    intro hne
    exact hno ⟨d, hd, hne⟩
  exact Nat.lt_irrefl _ (h k hall)

/-- every original key that is not popped evaluates in the re-imported graph as in the original graph -/
theorem run_graph_orig (I : Interp) (rank : κ → Nat) (hr : Ranked G rank) (inp : κ → Option V) :
    ∀ n k, (G k = none ∨ Below e rank k) →
      run I e.graph (liftB inp) n (.orig k) = run I G inp n k := by
  intro n
  induction n with
  | zero =>
    intro k hk
    rcases hk with hk | hk
    · have : e.graph (.orig k) = none := by
        rcases graph_orig_weak e G hG k with h | h
        · rw [h, hk]; rfl
        · exact h
      simp [run, this, hk, inpVal, liftB]
    · rw [run, run, graph_orig e G hG k (below_exists e rank k hk)]
      cases G k <;> simp [inpVal, liftB]
  | succ n ih =>
    intro k hk
    cases hg : G k with
    | none =>
      have : e.graph (.orig k) = none := by
        rcases graph_orig_weak e G hG k with h | h
        · rw [h, hg]; rfl
        · exact h
      rw [run_undefined I _ _ _ this, run_undefined I _ _ _ hg]
      simp [inpVal, liftB]
    | some t =>
      have hb : Below e rank k := by
        rcases hk with hk | hk
        · rw [hk] at hg; cases hg
        · exact hk
      have hM : e.graph (.orig k) = some (t.mapKeys BKey.orig) := by
        rw [graph_orig e G hG k (below_exists e rank k hb), hg]; rfl
      rw [run_defined I _ _ n _ _ hM, run_defined I _ _ n _ _ hg, evalTsk_mapKeys]
      apply evalTsk_congr
      intro r hrm
      apply ih r
      cases hgr : G r with
      | none => left; rfl
      | some tr =>
        right
        intro c hc
        have := hr k t hg r hrm (by simp [hgr])
        have := hb c hc
        omega

/-- **value of an output partition of `FromDelayed`** -/
theorem run_fromDelayed_out (I : Interp) (rank : κ → Nat) (hr : Ranked G rank) (inp : κ → Option V)
    (i p : Nat) (d : Delayed κ) (hi : e.sel[i]? = some p) (hp : e.dfs[p]? = some d) (hdef : (G d.key).isSome)
    (n : Nat) :
    run I e.graph (liftB inp) (n+2) (.out i) = I (wrapCode e.verifyMeta) [run I G inp (n+1) d.key] := by
  have hd : d ∈ e.dfs := List.mem_of_getElem? hp
  have ho : e.graph (.out i) = some (.apply (wrapCode e.verifyMeta) [.wrap d.key]) := by
    rw [graph_out e G hG i]; simp [FromDelayed.ownLayer, hi, hp]
  rw [run_defined I _ _ (n+1) _ _ ho]
  simp only [evalTsk, List.map_cons, List.map_nil]
  cases hg : G d.key with
  | none => simp [hg] at hdef
  | some t =>
    have hw : e.graph (.wrap d.key) = some (t.mapKeys BKey.orig) := by
      rw [graph_wrap e G hG d hd, hg]; rfl
    rw [run_defined I _ _ n _ _ hw, run_defined I _ _ n _ _ hg, evalTsk_mapKeys]
    congr 2
    apply evalTsk_congr
    intro r hrm
    apply run_graph_orig e G hG I rank hr inp n r
    cases hgr : G r with
    | none => left; rfl
    | some tr =>
      right
      intro c hc
      have := hr d.key t hg r hrm (by simp [hgr])
      rw [← hc d hd]
      exact this

end lookups

/-! ### what `from_delayed ∘ to_delayed` builds -/

theorem toDelayed_length {κ} (G : Graph κ) (out : Nat → κ) (n : Nat) (og : Bool) (keep : κ → Bool) :
    (toDelayed G out n og keep).length = n := by simp [toDelayed]

theorem toDelayed_get {κ} (G : Graph κ) (out : Nat → κ) (n : Nat) (og : Bool) (keep : κ → Bool) (i : Nat) (hi : i < n) :
    (toDelayed G out n og keep)[i]? = some { key := out i, graph := if og then cull G keep else G } := by
  simp [toDelayed, hi]

theorem toDelayed_graph {κ} (G : Graph κ) (out : Nat → κ) (n : Nat) (og : Bool) (keep : κ → Bool) :
    ∀ d ∈ toDelayed G out n og keep, d.graph = (if og then cull G keep else G) := by
  intro d hd
  simp only [toDelayed, List.mem_map] at hd
  obtain ⟨i, _, rfl⟩ := hd
  rfl

/-- the successful outcomes of `from_delayed` -/
theorem fromDelayed_ok {κ} (dfs : List (Delayed κ)) (a : DivArg) (verify : Bool) (e : FromDelayed κ)
    (h : fromDelayed dfs a verify = .ok e) :
    dfs.length ≠ 0 ∧ e.dfs = dfs ∧ e.verifyMeta = verify ∧ e.partitions = none ∧
    ((a = .none ∧ e.userDivisions = none) ∨ (∃ d, a = .given d ∧ d.length = dfs.length + 1 ∧ e.userDivisions = some d)) := by
  simp only [fromDelayed] at h
  split at h
  · cases h
  · rename_i hne
    cases a with
    | sorted => cases h
    | none =>
      simp only [Except.ok.injEq] at h
      subst h
      exact ⟨hne, rfl, rfl, rfl, Or.inl ⟨rfl, rfl⟩⟩
    | given d =>
      simp only at h
      split at h
      · cases h
      · rename_i hl
        simp only [Except.ok.injEq] at h
        subst h
        exact ⟨hne, rfl, rfl, rfl, Or.inr ⟨d, rfl, by simpa using hl, rfl⟩⟩

theorem fromDelayed_fullDivisions_length {κ} (dfs : List (Delayed κ)) (a : DivArg) (verify : Bool) (e : FromDelayed κ)
    (h : fromDelayed dfs a verify = .ok e) : e.fullDivisions.length = dfs.length + 1 := by
  obtain ⟨_, h1, _, _, h5⟩ := fromDelayed_ok dfs a verify e h
  rcases h5 with ⟨_, hu⟩ | ⟨d, _, hl, hu⟩
  · simp [FromDelayed.fullDivisions, hu, unknownDivs, h1]
  · simp [FromDelayed.fullDivisions, hu, hl]

theorem fromDelayed_sel {κ} (dfs : List (Delayed κ)) (a : DivArg) (verify : Bool) (e : FromDelayed κ)
    (h : fromDelayed dfs a verify = .ok e) : e.sel = List.range dfs.length := by
  obtain ⟨_, _, _, h4, _⟩ := fromDelayed_ok dfs a verify e h
  simp [FromDelayed.sel, h4, fromDelayed_fullDivisions_length dfs a verify e h]

/-! ### persist -/

theorem litOf_const {κ} (v : V) (t : Tsk κ) (h : litOf v = some t) : ∃ rows, v = .frame rows ∧ t = .const rows := by
  cases v <;> simp [litOf] at h
  exact ⟨_, rfl, h.symm⟩

theorem persistedLayer_out {κ} [DecidableEq κ] (out : Nat → κ) (n : Nat) (res : Nat → V) (i : Nat) (hi : i < n) :
    ∃ j, j < n ∧ out j = out i ∧ persistedLayer out n res (out i) = litOf (res j) := by
  simp only [persistedLayer]
  cases hf : (List.range n).reverse.find? (fun j => out j == out i) with
  | none =>
    have := List.find?_eq_none.mp hf i (by simpa using hi)
    simp at this
  | some j =>
    have hp := List.find?_some hf
    have hm := List.mem_of_find?_eq_some hf
    exact ⟨j, by simpa using hm, by simpa using hp, rfl⟩

theorem persistedLayer_literal {κ} [DecidableEq κ] (out : Nat → κ) (n : Nat) (res : Nat → V) (k : κ) (t : Tsk κ)
    (h : persistedLayer out n res k = some t) : ∃ rows, t = .const rows := by
  simp only [persistedLayer] at h
  split at h
  · obtain ⟨rows, _, ht⟩ := litOf_const _ _ h
    exact ⟨rows, ht⟩
  · cases h

theorem persistedLayer_foreign {κ} [DecidableEq κ] (out : Nat → κ) (n : Nat) (res : Nat → V) (k : κ)
    (h : ∀ i, i < n → out i ≠ k) : persistedLayer out n res k = none := by
  simp only [persistedLayer]
  have : (List.range n).reverse.find? (fun i => out i == k) = none := by
    apply List.find?_eq_none.mpr
    intro j hj
    have hj' : j < n := by simpa using hj
    simpa using h j hj'
  rw [this]

/-! ### stacks -/

theorem stack_eq_gunion {lam υ} (L : Graph lam) (o : Nat → lam) (U : Graph (υ ⊕ Nat)) :
    stack L o U = gunion (stackLower L) (stackUpper o U) := by
  funext k
  cases k with
  | inl k => simp [stack, gunion, stackLower, stackUpper]
  | inr u =>
    simp only [stack, gunion, stackLower, stackUpper]
    cases U (.inl u) <;> rfl

theorem stack_cutOK {lam υ} (L : Graph lam) (o : Nat → lam) (U : Graph (υ ⊕ Nat)) :
    CutOK (stackLower (υ := υ) L) (stackUpper o U) := by
  refine ⟨?_, ?_⟩
  · intro k hk
    cases k with
    | inl k => rfl
    | inr u => simp [stackLower] at hk
  · intro k t hk d hd
    cases k with
    | inr u => simp [stackLower] at hk
    | inl k =>
      simp only [stackLower] at hk
      cases hL : L k with
      | none => simp [hL] at hk
      | some t0 =>
        simp only [hL, Option.map_some, Option.some.injEq] at hk
        subst hk
        rw [Tsk.refs_mapKeys] at hd
        obtain ⟨r, _, rfl⟩ := List.mem_map.mp hd
        rfl

/-- the collection's own layer evaluates inside a stack as it does alone -/
theorem run_stack_lower {lam υ} (I : Interp) (L : Graph lam) (o : Nat → lam) (U : Graph (υ ⊕ Nat))
    (inp : lam → Option V) :
    ∀ n k, run I (stack L o U) (stackInp inp) n (.inl k) = run I L inp n k := by
  intro n
  induction n with
  | zero =>
    intro k
    simp only [run, stack]
    cases L k <;> simp [inpVal, stackInp]
  | succ n ih =>
    intro k
    simp only [run, stack]
    cases h : L k with
    | none => simp [inpVal, stackInp]
    | some t =>
      simp only [Option.map_some]
      rw [evalTsk_mapKeys]
      apply evalTsk_congr
      intro d _
      exact ih d

/-- **persist is transparent for every query stacked on the collection** (direct form) -/
theorem run_stack_persist {κ υ} [DecidableEq κ] (I : Interp) (g₁ : Graph κ) (inp : κ → Option V)
    (rank₁ : κ → Nat) (hr₁ : Ranked g₁ rank₁) (out : Nat → κ) (n : Nat) (divs : Divs)
    (U : Graph (υ ⊕ Nat)) (urank : υ → Nat)
    (hU : ∀ u t, U (.inl u) = some t → ∀ u', Sum.inl u' ∈ t.refs → (U (.inl u')).isSome → urank u' < urank u)
    (hdep : ∀ u t, U (.inl u) = some t → ∀ i, Sum.inr i ∈ t.refs → i < n)
    (B : Nat) (hB : ∀ i, i < n → rank₁ (out i) < B)
    (hfr : ∀ i, i < n → ∃ rows, run I g₁ inp B (out i) = .frame rows)
    (inp₀ : κ → Option V) :
    ∀ m u, urank u < m →
      run I (stack g₁ out U) (stackInp inp) (m + B) (.inr u)
        = run I (stack (persist out n divs (fun i => run I g₁ inp B (out i))).graph Sum.inr U)
            (stackInp (liftInp inp₀)) (m + 2) (.inr u) := by
  intro m
  induction m with
  | zero => intro u hu; omega
  | succ m ih =>
    intro u hu
    have e1 : m + 1 + B = (m + B) + 1 := by omega
    have e2 : m + 1 + 2 = (m + 2) + 1 := by omega
    rw [e1, e2]
    cases hUu : U (.inl u) with
    | none =>
      rw [run_undefined I _ _ _ (by simp [stack, hUu]), run_undefined I _ _ _ (by simp [stack, hUu])]
      simp [inpVal, stackInp]
    | some t =>
      have hS1 : stack g₁ out U (.inr u) = some (t.mapKeys (stackRef out)) := by
        simp only [stack, hUu, Option.map_some]
      have hS2 : stack (persist out n divs (fun i => run I g₁ inp B (out i))).graph Sum.inr U (.inr u)
          = some (t.mapKeys (stackRef Sum.inr)) := by
        simp only [stack, hUu, Option.map_some]
      rw [run_defined I _ _ _ _ _ hS1, run_defined I _ _ _ _ _ hS2, evalTsk_mapKeys, evalTsk_mapKeys]
      apply evalTsk_congr
      intro r hrm
      cases r with
      | inl u' =>
        simp only [stackRef]
        cases hU' : U (.inl u') with
        | none =>
          rw [run_undefined I _ _ _ (by simp [stack, hU']), run_undefined I _ _ _ (by simp [stack, hU'])]
          simp [inpVal, stackInp]
        | some t' =>
          have := hU u t hUu u' hrm (by simp [hU'])
          exact ih u' (by omega)
      | inr i =>
        simp only [stackRef]
        have hi : i < n := hdep u t hUu i hrm
        obtain ⟨rows, hrows⟩ := hfr i hi
        -- uncut side: the value of the collection's i-th output key
        rw [run_stack_lower, run_stable I g₁ inp rank₁ hr₁ B (out i) (hB i hi) (m + B) (by omega), hrows]
        -- cut side: alias, then the persisted literal
        rw [run_stack_lower]
        have hk : (persist out n divs (fun i => run I g₁ inp B (out i))).keys[i]? = some (out i) := by
          simp [persist, hi]
        have e3 : m + 2 = (m + 1) + 1 := by omega
        rw [e3]
        rw [FromGraph.graph, fromGraph_alias I _ _ inp₀ (m+1) i (out i) hk]
        obtain ⟨j, hj, hoj, hpl⟩ := persistedLayer_out out n (fun i => run I g₁ inp B (out i)) i hi
        have hlit : (persist out n divs (fun i => run I g₁ inp B (out i))).layer (out i) = some (.const rows) := by
          simp only [persist]
          rw [hpl]
          simp only [hoj, hrows, litOf]
        rw [run_defined I _ _ m _ _ hlit]
        rfl

/-! ### check_meta -/

theorem equalDtypes_self (a : DType) : equalDtypes (some a) (some a) = true := by
  cases a with
  | num i => rfl
  | other i => simp [equalDtypes]
  | cat c => cases c <;> simp [equalDtypes]

theorem lookup_isSome_of_mem (l : List (String × DType)) (p : String × DType) (hp : p ∈ l) :
    (l.lookup p.1).isSome = true := by
  induction l with
  | nil => cases hp
  | cons q t ih =>
    simp only [List.lookup]
    by_cases hq : p.1 = q.1
    · simp [hq]
    · have hb : (p.1 == q.1) = false := by simp [hq]
      rw [hb]
      rcases List.mem_cons.mp hp with he | he
      · exact absurd (by rw [he]) hq
      · exact ih he

end Boundary
end Dx
