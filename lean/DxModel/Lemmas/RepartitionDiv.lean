/-
  Lemmas/RepartitionDiv.lean — soundness of the plan validator `planOK` (C13_div_validator),
  and the link between the emitted graph and its plan.
-/
import DxModel.Lemmas.Repartition
namespace Dx.Repartition
open Dx

/-- Divisions are truthful: `d` is sorted, has one more entry than there are partitions, every row of
    partition `i` has its index in `[d[i], d[i+1])` (the last partition is right-inclusive), and the rows
    of a partition are sorted by index. -/
structure DivInv (d : List Int) (n : Nat) (parts : Nat → List Row) : Prop where
  len : d.length = n + 1
  sorted : d.Pairwise (· ≤ ·)
  bounds : ∀ i lo hi, d[i]? = some lo → d[i+1]? = some hi → ∀ r ∈ parts i,
      lo ≤ r.idx ∧ (r.idx < hi ∨ (i + 2 = d.length ∧ r.idx = hi))
  rowsSorted : ∀ i, i < n → (parts i).Pairwise (fun r s => r.idx ≤ s.idx)

/-- row selected by the doubled half-open interval `[l, h)` -/
def inIv (l h : Int) (r : Row) : Bool := decide (l ≤ 2 * r.idx) && decide (2 * r.idx < h)

theorem inIv_iff {l h : Int} {r : Row} : inIv l h r = true ↔ l ≤ 2 * r.idx ∧ 2 * r.idx < h := by
  simp [inIv]

/-! ### generic list facts -/

theorem sorted_getElem? {d : List Int} (hs : d.Pairwise (· ≤ ·)) {i j : Nat} {x y : Int} (hij : i ≤ j)
    (hx : d[i]? = some x) (hy : d[j]? = some y) : x ≤ y := by
  obtain ⟨hi, rfl⟩ := List.getElem?_eq_some_iff.mp hx
  obtain ⟨hj, rfl⟩ := List.getElem?_eq_some_iff.mp hy
  by_cases h : i = j
  · subst h; exact Int.le_refl _
  · exact List.pairwise_iff_getElem.mp hs i j hi hj (by omega)

theorem isSorted_cons {a b : Int} {t : List Int} : isSorted (a :: b :: t) = true ↔ a ≤ b ∧ isSorted (b :: t) = true := by
  simp [isSorted]

theorem isSorted_pairwise : ∀ (d : List Int), isSorted d = true → d.Pairwise (· ≤ ·) := by
  intro d
  induction d with
  | nil => intro _; exact List.Pairwise.nil
  | cons a t ih =>
    intro h
    cases t with
    | nil => simp
    | cons b t' =>
      have ⟨hab, h'⟩ := isSorted_cons.mp h
      have ht := ih h'
      rw [List.pairwise_cons]
      refine ⟨?_, ht⟩
      intro c hc
      cases hc with
      | head => exact hab
      | tail _ hc' =>
        have := (List.pairwise_cons.mp ht).1 c hc'
        omega

theorem flatMap_nil_of {β} (F : Nat → List β) : ∀ n, (∀ k, k < n → F k = []) → (List.range n).flatMap F = [] := by
  intro n
  induction n with
  | zero => intro _; rfl
  | succ n ih =>
    intro h
    rw [List.range_succ, List.flatMap_append, ih (fun k hk => h k (by omega)), List.flatMap_singleton, h n (by omega)]
    rfl

theorem flatMap_single {β} (F : Nat → List β) : ∀ n i, i < n → (∀ k, k < n → k ≠ i → F k = []) →
    (List.range n).flatMap F = F i := by
  intro n
  induction n with
  | zero => intro i hi; omega
  | succ n ih =>
    intro i hi h
    rw [List.range_succ, List.flatMap_append, List.flatMap_singleton]
    by_cases hin : i = n
    · subst hin
      rw [flatMap_nil_of F i (fun k hk => h k (by omega) (by omega))]
      rfl
    · rw [ih i (by omega) (fun k hk hki => h k (by omega) hki), h n (by omega) (by omega)]
      simp

theorem flatMap_getElem? {α β} (f : α → List β) : ∀ (l : List α),
    (List.range l.length).flatMap (fun j => match l[j]? with | some x => f x | none => []) = l.flatMap f := by
  intro l
  induction l with
  | nil => rfl
  | cons x t ih =>
    rw [List.length_cons, List.range_succ_eq_map, List.flatMap_cons, List.flatMap_map, List.flatMap_cons]
    simp only [List.getElem?_cons_zero, Nat.succ_eq_add_one, List.getElem?_cons_succ]
    rw [ih]

theorem flatMap_flatten' {α β} (f : α → List β) : ∀ (L : List (List α)),
    L.flatten.flatMap f = L.flatMap (fun l => l.flatMap f) := by
  intro L
  induction L with
  | nil => rfl
  | cons l t ih => simp [List.flatMap_append, ih]

/-! ### the rows, globally -/

/-- all rows, in partition order -/
def allRows (n : Nat) (parts : Nat → List Row) : List Row := (List.range n).flatMap parts

/-- `+1` on the doubled right end of the last partition (right-inclusive) -/
def lastBit (len i : Nat) : Int := if i + 2 = len then 1 else 0

theorem divInv_row_iv {a : List Int} {n : Nat} {parts : Nat → List Row} (hinv : DivInv a n parts)
    {i : Nat} {lo hi : Int} (hlo : a[i]? = some lo) (hhi : a[i+1]? = some hi) {r : Row} (hr : r ∈ parts i) :
    inIv (2 * lo) (2 * hi + lastBit a.length i) r = true := by
  have ⟨h1, h2⟩ := hinv.bounds i lo hi hlo hhi r hr
  rw [inIv_iff]
  unfold lastBit
  split <;> omega

/-- partitions own disjoint index ranges -/
theorem divInv_disjoint {a : List Int} {n : Nat} {parts : Nat → List Row} (hinv : DivInv a n parts)
    {i k : Nat} {lo hi : Int} (hlo : a[i]? = some lo) (hhi : a[i+1]? = some hi) (hk : k < n) (hki : k ≠ i)
    {r : Row} (hr : r ∈ parts k) : inIv (2 * lo) (2 * hi + lastBit a.length i) r = false := by
  have hlen := hinv.len
  have hk0 : k < a.length := by omega
  have hk1 : k + 1 < a.length := by omega
  have ⟨h1, h2⟩ := hinv.bounds k a[k] a[k+1] (List.getElem?_eq_getElem hk0) (List.getElem?_eq_getElem hk1) r hr
  have hi1 : i + 1 < a.length := (List.getElem?_eq_some_iff.mp hhi).1
  cases hb : inIv (2 * lo) (2 * hi + lastBit a.length i) r with
  | false => rfl
  | true =>
    exfalso
    have ⟨hb1, hb2⟩ := inIv_iff.mp hb
    unfold lastBit at hb2
    by_cases hlt : k < i
    · -- r.idx < a[k+1] ≤ a[i] = lo
      have hle : a[k+1] ≤ lo := sorted_getElem? hinv.sorted (by omega) (List.getElem?_eq_getElem hk1) hlo
      rcases h2 with h2 | ⟨h2, _⟩
      · omega
      · omega
    · -- hi = a[i+1] ≤ a[k] ≤ r.idx
      have hle : hi ≤ a[k] := sorted_getElem? hinv.sorted (by omega) hhi (List.getElem?_eq_getElem hk0)
      split at hb2 <;> omega

theorem part_eq_filter {a : List Int} {n : Nat} {parts : Nat → List Row} (hinv : DivInv a n parts)
    {i : Nat} {lo hi : Int} (hlo : a[i]? = some lo) (hhi : a[i+1]? = some hi) :
    parts i = (allRows n parts).filter (inIv (2 * lo) (2 * hi + lastBit a.length i)) := by
  have hi1 : i + 1 < a.length := (List.getElem?_eq_some_iff.mp hhi).1
  have hin : i < n := by have := hinv.len; omega
  unfold allRows
  rw [List.filter_flatMap]
  rw [flatMap_single (fun k => (parts k).filter (inIv (2 * lo) (2 * hi + lastBit a.length i))) n i hin]
  · symm
    exact List.filter_eq_self.mpr (fun r hr => divInv_row_iv hinv hlo hhi hr)
  · intro k hk hki
    apply List.filter_eq_nil_iff.mpr
    intro r hr
    rw [divInv_disjoint hinv hlo hhi hk hki hr]
    simp

theorem allRows_sorted {a : List Int} {n : Nat} {parts : Nat → List Row} (hinv : DivInv a n parts) :
    (allRows n parts).Pairwise (fun r s => r.idx ≤ s.idx) := by
  unfold allRows
  rw [List.pairwise_flatMap]
  refine ⟨fun i hi => hinv.rowsSorted i (List.mem_range.mp hi), ?_⟩
  have hlen := hinv.len
  rw [List.pairwise_iff_getElem]
  intro i j hi hj hij r hr s hs
  simp only [List.length_range] at hi hj
  simp only [List.getElem_range] at hr hs
  have hi0 : i < a.length := by omega
  have hi1 : i + 1 < a.length := by omega
  have hj0 : j < a.length := by omega
  have hj1 : j + 1 < a.length := by omega
  have ⟨_, h2⟩ := hinv.bounds i a[i] a[i+1] (List.getElem?_eq_getElem hi0) (List.getElem?_eq_getElem hi1) r hr
  have ⟨h3, _⟩ := hinv.bounds j a[j] a[j+1] (List.getElem?_eq_getElem hj0) (List.getElem?_eq_getElem hj1) s hs
  have hle : a[i+1] ≤ a[j] :=
    sorted_getElem? hinv.sorted (by omega) (List.getElem?_eq_getElem hi1) (List.getElem?_eq_getElem hj0)
  rcases h2 with h2 | ⟨h2, _⟩ <;> omega

theorem allRows_in_range {a : List Int} {n : Nat} {parts : Nat → List Row} (hinv : DivInv a n parts)
    {a0 an : Int} (h0 : a.head? = some a0) (hn : a.getLast? = some an) :
    (allRows n parts).filter (inIv (2 * a0) (2 * an + 1)) = allRows n parts := by
  apply List.filter_eq_self.mpr
  intro r hr
  unfold allRows at hr
  obtain ⟨i, hi, hri⟩ := List.mem_flatMap.mp hr
  have hin := List.mem_range.mp hi
  have hlen := hinv.len
  have hi0 : i < a.length := by omega
  have hi1 : i + 1 < a.length := by omega
  have ⟨h1, h2⟩ := hinv.bounds i a[i] a[i+1] (List.getElem?_eq_getElem hi0) (List.getElem?_eq_getElem hi1) r hri
  rw [List.head?_eq_getElem?] at h0
  rw [List.getLast?_eq_getElem?] at hn
  have hl0 : a0 ≤ a[i] := sorted_getElem? hinv.sorted (by omega) h0 (List.getElem?_eq_getElem hi0)
  have hln : a[i+1] ≤ an := sorted_getElem? hinv.sorted (by omega) (List.getElem?_eq_getElem hi1) hn
  rw [inIv_iff]
  rcases h2 with h2 | ⟨_, h2⟩ <;> omega

/-! ### interval filters on a sorted list -/

theorem filter_iv_empty (L : List Row) {l h : Int} (hlh : h ≤ l) : L.filter (inIv l h) = [] := by
  apply List.filter_eq_nil_iff.mpr
  intro r _ hr
  have := inIv_iff.mp hr
  omega

theorem filter_iv_split : ∀ (L : List Row), L.Pairwise (fun r s => r.idx ≤ s.idx) → ∀ (l c h : Int), l ≤ c → c ≤ h →
    L.filter (inIv l c) ++ L.filter (inIv c h) = L.filter (inIv l h) := by
  intro L
  induction L with
  | nil => intros; rfl
  | cons r t ih =>
    intro hs l c h hlc hch
    have ⟨hrt, ht⟩ := List.pairwise_cons.mp hs
    have ih' := ih ht l c h hlc hch
    by_cases h1 : inIv l c r = true
    · have ⟨h1a, h1b⟩ := inIv_iff.mp h1
      have h2 : inIv c h r = false := by
        cases hb : inIv c h r with
        | false => rfl
        | true => have := inIv_iff.mp hb; omega
      have h3 : inIv l h r = true := inIv_iff.mpr ⟨h1a, by omega⟩
      simp only [List.filter_cons, h1, h2, h3, if_true, List.cons_append]
      simp [ih']
    · by_cases h2 : inIv c h r = true
      · have ⟨h2a, h2b⟩ := inIv_iff.mp h2
        have h3 : inIv l h r = true := inIv_iff.mpr ⟨by omega, h2b⟩
        have hnil : t.filter (inIv l c) = [] := by
          apply List.filter_eq_nil_iff.mpr
          intro s hs' hb
          have := inIv_iff.mp hb
          have := hrt s hs'
          omega
        simp only [List.filter_cons, h1, h2, h3, if_true]
        rw [hnil] at ih' ⊢
        simp at ih' ⊢
        exact ih'
      · have h3 : ¬ inIv l h r = true := by
          intro hb
          have ⟨h3a, h3b⟩ := inIv_iff.mp hb
          by_cases hc : 2 * r.idx < c
          · exact h1 (inIv_iff.mpr ⟨h3a, hc⟩)
          · exact h2 (inIv_iff.mpr ⟨by omega, h3b⟩)
        simp only [List.filter_cons, h1, h2, h3]
        exact ih'

/-! ### slices as interval filters -/

theorem effIv_some {a : List Int} {s : Slice} {l h : Int} (he : effIv a s = some (l, h)) :
    ∃ lo hi, a[s.i]? = some lo ∧ a[s.i + 1]? = some hi ∧
      l = max (2 * s.lo) (2 * lo) ∧
      h = min (2 * s.hi + (if s.incl then 1 else 0)) (2 * hi + lastBit a.length s.i) := by
  unfold effIv at he
  cases hlo : a[s.i]? with
  | none => simp [hlo] at he
  | some lo =>
    cases hhi : a[s.i + 1]? with
    | none => simp [hlo, hhi] at he
    | some hi =>
      simp only [hlo, hhi, Option.some.injEq, Prod.mk.injEq] at he
      exact ⟨lo, hi, rfl, rfl, he.1.symm, by unfold lastBit; exact he.2.symm⟩

theorem runSlice_eq_filter {a : List Int} {n : Nat} {parts : Nat → List Row} (hinv : DivInv a n parts)
    {s : Slice} {l h : Int} (he : effIv a s = some (l, h)) :
    runSlice parts s = (allRows n parts).filter (inIv l h) := by
  obtain ⟨lo, hi, hlo, hhi, rfl, rfl⟩ := effIv_some he
  unfold runSlice boundarySliceSpec
  rw [part_eq_filter hinv hlo hhi, List.filter_filter]
  apply List.filter_congr
  intro r _
  rw [Bool.eq_iff_iff]
  simp only [Bool.and_eq_true, Bool.or_eq_true, decide_eq_true_eq, inIv_iff]
  cases s.incl <;> simp <;> omega

/-- soundness of `chain`: the slices, run in order, produce exactly the rows of the chained interval -/
theorem chain_sound {a : List Int} {n : Nat} {parts : Nat → List Row} (hinv : DivInv a n parts) :
    ∀ (ss : List Slice) (cur fin : Int), chain a cur ss = some fin →
      cur ≤ fin ∧ ss.flatMap (runSlice parts) = (allRows n parts).filter (inIv cur fin) := by
  intro ss
  induction ss with
  | nil =>
    intro cur fin h
    simp [chain] at h
    subst h
    exact ⟨Int.le_refl _, by rw [filter_iv_empty _ (Int.le_refl _)]; rfl⟩
  | cons s t ih =>
    intro cur fin h
    unfold chain at h
    cases he : effIv a s with
    | none => simp [he] at h
    | some lh =>
      obtain ⟨l, hh⟩ := lh
      simp only [he] at h
      have hrun := runSlice_eq_filter hinv he
      by_cases hlt : l < hh
      · simp only [hlt, if_true] at h
        by_cases hlc : l = cur
        · simp only [hlc, if_true] at h
          subst hlc
          have ⟨h1, h2⟩ := ih hh fin h
          refine ⟨by omega, ?_⟩
          rw [List.flatMap_cons, hrun, h2]
          exact filter_iv_split _ (allRows_sorted hinv) l hh fin (by omega) h1
        · simp [hlc] at h
      · simp only [hlt, if_false] at h
        have ⟨h1, h2⟩ := ih cur fin h
        refine ⟨h1, ?_⟩
        rw [List.flatMap_cons, hrun, filter_iv_empty _ (by omega), h2]
        rfl

/-! ### bounds of the outputs -/

theorem boundsOK_spec (a b : List Int) : ∀ (plan : Plan) (j0 : Nat), boundsOK a b j0 plan = true →
    ∀ j ss, plan[j]? = some ss → ∃ lo hi, b[j0 + j]? = some lo ∧ b[j0 + j + 1]? = some hi ∧
      withinB a (2 * lo) (2 * hi + lastBit b.length (j0 + j)) ss = true := by
  intro plan
  induction plan with
  | nil => intro j0 _ j ss h; simp at h
  | cons ss0 t ih =>
    intro j0 h j ss hj
    simp only [boundsOK, Bool.and_eq_true] at h
    cases j with
    | zero =>
      simp at hj
      subst hj
      have h1 := h.1
      cases hlo : b[j0]? with
      | none => simp [hlo] at h1
      | some lo =>
        cases hhi : b[j0 + 1]? with
        | none => simp [hlo, hhi] at h1
        | some hi =>
          simp only [hlo, hhi] at h1
          exact ⟨lo, hi, by simp, by simp, by simpa [lastBit] using h1⟩
    | succ j =>
      simp at hj
      have := ih (j0 + 1) h.2 j ss hj
      have e1 : j0 + 1 + j = j0 + (j + 1) := by omega
      rw [e1] at this
      exact this

theorem withinB_row {a : List Int} {n : Nat} {parts : Nat → List Row} (hinv : DivInv a n parts)
    {lo hi : Int} {ss : List Slice} (hw : withinB a lo hi ss = true) {r : Row} (hr : r ∈ runOut parts ss) :
    lo ≤ 2 * r.idx ∧ 2 * r.idx < hi := by
  unfold runOut at hr
  obtain ⟨s, hs, hrs⟩ := List.mem_flatMap.mp hr
  unfold withinB at hw
  have hsw := List.all_eq_true.mp hw s hs
  cases he : effIv a s with
  | none => simp [he] at hsw
  | some lh =>
    obtain ⟨l, h⟩ := lh
    simp only [he, Bool.or_eq_true, Bool.not_eq_true', decide_eq_false_iff_not, Bool.and_eq_true,
      decide_eq_true_eq] at hsw
    rw [runSlice_eq_filter hinv he] at hrs
    have ⟨h1, h2⟩ := inIv_iff.mp (List.mem_filter.mp hrs).2
    rcases hsw with hsw | ⟨hsw1, hsw2⟩ <;> omega


/-! ### soundness of the validator -/

theorem runPlan_concat (plan : Plan) (parts : Nat → List Row) :
    (List.range plan.length).flatMap (runPlan plan parts) = plan.flatMap (runOut parts) := by
  have := flatMap_getElem? (runOut parts) plan
  rw [← this]
  apply flatMap_congr'
  intro j _
  unfold runPlan
  cases plan[j]? <;> rfl

theorem planOK_sound (a b : List Int) (plan : Plan) (n : Nat) (parts : Nat → List Row)
    (hok : planOK a b plan = true) (hinv : DivInv a n parts) :
    (List.range plan.length).flatMap (runPlan plan parts) = (List.range n).flatMap parts ∧
    DivInv b plan.length (runPlan plan parts) := by
  unfold planOK at hok
  simp only [Bool.and_eq_true, decide_eq_true_eq] at hok
  obtain ⟨⟨⟨hsb, hlen⟩, hchain⟩, hbounds⟩ := hok
  cases h0 : a.head? with
  | none => simp [h0] at hchain
  | some a0 =>
    cases hn : a.getLast? with
    | none => simp [h0, hn] at hchain
    | some an =>
      simp only [h0, hn, beq_iff_eq] at hchain
      have ⟨_, hfl⟩ := chain_sound hinv plan.flatten (2 * a0) (2 * an + 1) hchain
      have hall : plan.flatMap (runOut parts) = allRows n parts := by
        rw [← allRows_in_range hinv h0 hn, ← hfl, flatMap_flatten']
        rfl
      have hcat := runPlan_concat plan parts
      refine ⟨by rw [hcat, hall]; rfl, ?_⟩
      refine ⟨by omega, isSorted_pairwise b hsb, ?_, ?_⟩
      · intro j lo hi hlo hhi r hr
        unfold runPlan at hr
        cases hp : plan[j]? with
        | none => simp [hp] at hr
        | some ss =>
          simp only [hp] at hr
          obtain ⟨lo', hi', h1, h2, hw⟩ := boundsOK_spec a b plan 0 hbounds j ss hp
          simp only [Nat.zero_add] at h1 h2 hw
          rw [hlo] at h1
          rw [hhi] at h2
          cases h1
          cases h2
          have ⟨h3, h4⟩ := withinB_row hinv hw hr
          unfold lastBit at h4
          split at h4
          · refine ⟨by omega, ?_⟩
            by_cases hlt : r.idx < hi
            · exact Or.inl hlt
            · exact Or.inr ⟨by assumption, by omega⟩
          · exact ⟨by omega, Or.inl (by omega)⟩
      · intro j hj
        have hp : plan[j]? = some plan[j] := List.getElem?_eq_getElem hj
        have hrun : runPlan plan parts j = runOut parts plan[j] := by
          unfold runPlan
          rw [hp]
        rw [hrun]
        have hsub : (runOut parts plan[j]).Sublist (plan.flatMap (runOut parts)) := by
          rw [List.flatMap_def]
          exact List.sublist_flatten_of_mem (List.mem_map_of_mem (List.getElem_mem hj))
        rw [hall] at hsub
        exact List.Pairwise.sublist hsub (allRows_sorted hinv)

/-! ### the emitted graph computes its plan -/

theorem run_div_piece (I : Interp) (st : DivState) (parts : Nat → List Row) (k : Nat) (s : Slice)
    (hk : st.pieces[k]? = some s) (n : Nat) :
    run I (divTask st) (inputs parts) (n+1) (.piece k) = .frame (runSlice parts s) := by
  have hdep : ∀ n i, run I (divTask st) (inputs parts) n (.dep i) = .frame (parts i) :=
    fun n i => run_dep I _ (fun _ => rfl) parts n i
  rw [run_succ]
  simp only [divTask, hk, evalTsk, hdep, runSlice]

theorem filterMap_pieces (st : DivState) (parts : Nat → List Row) : ∀ (tmp : List Nat),
    (∀ k ∈ tmp, k < st.pieces.length) →
    (tmp.filterMap (fun k => st.pieces[k]?)).flatMap (runSlice parts) =
      tmp.flatMap (fun k => match st.pieces[k]? with | some s => runSlice parts s | none => []) := by
  intro tmp
  induction tmp with
  | nil => intro _; rfl
  | cons k t ih =>
    intro h
    have hk : k < st.pieces.length := h k (by simp)
    have ih' := ih (fun k' hk' => h k' (by simp [hk']))
    simp [List.getElem?_eq_getElem hk, ih']

theorem run_div_out (I : Interp) (st : DivState) (parts : Nat → List Row) (hc : closedOK st = true)
    (j : Nat) (hj : j < st.outs.length) :
    run I (divTask st) (inputs parts) 2 (.out j) = .frame (runPlan (planOf st) parts j) := by
  have hdep : ∀ n i, run I (divTask st) (inputs parts) n (.dep i) = .frame (parts i) :=
    fun n i => run_dep I _ (fun _ => rfl) parts n i
  have htmp : st.outs[j]? = some st.outs[j] := List.getElem?_eq_getElem hj
  have hclosed : ∀ k ∈ st.outs[j], k < st.pieces.length := by
    intro k hk
    have := List.all_eq_true.mp hc st.outs[j] (List.getElem_mem hj)
    have := List.all_eq_true.mp this k hk
    simpa using this
  have hplan : runPlan (planOf st) parts j =
      (if st.outs[j].isEmpty then runSlice parts ⟨0, st.a0, st.a0, false⟩
       else st.outs[j].flatMap (fun k => match st.pieces[k]? with | some s => runSlice parts s | none => [])) := by
    unfold runPlan planOf
    rw [List.getElem?_map, htmp]
    simp only [Option.map_some, runOut]
    split
    · simp
    · exact filterMap_pieces st parts _ hclosed
  rw [hplan, run_succ]
  have hpiece : ∀ k ∈ st.outs[j], run I (divTask st) (inputs parts) 1 (.piece k) =
      .frame (match st.pieces[k]? with | some s => runSlice parts s | none => []) := by
    intro k hk
    have hk' := hclosed k hk
    rw [run_div_piece I st parts k _ (List.getElem?_eq_getElem hk') 0]
    simp [List.getElem?_eq_getElem hk']
  cases htj : st.outs[j] with
  | nil =>
    simp only [divTask, htmp, htj, evalTsk, hdep, List.isEmpty_nil, if_true, runSlice]
  | cons k t =>
    rw [htj] at hpiece
    cases t with
    | nil =>
      simp only [divTask, htmp, htj, evalTsk, List.isEmpty_cons, Bool.false_eq_true, if_false,
        List.flatMap_cons, List.flatMap_nil, List.append_nil]
      exact hpiece k (by simp)
    | cons k2 t2 =>
      simp only [divTask, htmp, htj, List.isEmpty_cons, Bool.false_eq_true, if_false]
      exact eval_concat I _ (k :: k2 :: t2) Key.piece _ hpiece false

/-! ### truthful divisions of RepartitionToFewer -/

theorem divInv_cross {a : List Int} {n : Nat} {parts : Nat → List Row} (hinv : DivInv a n parts)
    {i j : Nat} (hij : i < j) (hj : j < n) {r s : Row} (hr : r ∈ parts i) (hs : s ∈ parts j) : r.idx ≤ s.idx := by
  have hlen := hinv.len
  have hi0 : i < a.length := by omega
  have hi1 : i + 1 < a.length := by omega
  have hj0 : j < a.length := by omega
  have hj1 : j + 1 < a.length := by omega
  have ⟨_, h2⟩ := hinv.bounds i a[i] a[i+1] (List.getElem?_eq_getElem hi0) (List.getElem?_eq_getElem hi1) r hr
  have ⟨h3, _⟩ := hinv.bounds j a[j] a[j+1] (List.getElem?_eq_getElem hj0) (List.getElem?_eq_getElem hj1) s hs
  have hle : a[i+1] ≤ a[j] :=
    sorted_getElem? hinv.sorted (by omega) (List.getElem?_eq_getElem hi1) (List.getElem?_eq_getElem hj0)
  rcases h2 with h2 | ⟨h2, _⟩ <;> omega

theorem fewer_divisions_truthful (din : List Int) (bs : List Nat) (nin : Nat) (parts : Nat → List Row)
    (hb : boundariesOK bs nin = true) (hs : strictMono bs = true) (hinv : DivInv din nin parts) :
    ∃ d, fewerDivisions din bs = some d ∧ DivInv d (bs.length - 1) (fewerSem bs parts) := by
  have ⟨h0, hl, hm⟩ := boundariesOK_iff.mp hb
  have hle := mono_le_last bs nin hm hl
  have hdl := hinv.len
  obtain ⟨d, hd⟩ := fewerDivisions_some din bs (fun x hx => by have := hle x hx; omega)
  have ⟨hdlen, hdspec⟩ := fewerDivisions_spec din bs d hd
  have hpw := strictMono_pairwise bs hs
  have hbne : 1 ≤ bs.length := by
    cases bs with
    | nil => simp at h0
    | cons _ _ => simp
  have hlast : bs[bs.length - 1]? = some nin := by rw [← List.getLast?_eq_getElem?]; exact hl
  refine ⟨d, hd, ⟨by omega, ?_, ?_, ?_⟩⟩
  · -- sorted
    rw [List.pairwise_iff_getElem]
    intro j1 j2 hj1 hj2 hlt
    have hb1 : j1 < bs.length := by omega
    have hb2 : j2 < bs.length := by omega
    have e1 := hdspec j1 bs[j1] (List.getElem?_eq_getElem hb1)
    have e2 := hdspec j2 bs[j2] (List.getElem?_eq_getElem hb2)
    rw [List.getElem?_eq_getElem hj1] at e1
    rw [List.getElem?_eq_getElem hj2] at e2
    have hbb : bs[j1] < bs[j2] := List.pairwise_iff_getElem.mp hpw j1 j2 hb1 hb2 hlt
    exact sorted_getElem? hinv.sorted (by omega) e1.symm e2.symm
  · -- bounds
    intro j lo hi hlo hhi r hr
    have hj1 : j + 1 < d.length := (List.getElem?_eq_some_iff.mp hhi).1
    have hb0 : j < bs.length := by omega
    have hb1 : j + 1 < bs.length := by omega
    have e1 := hdspec j bs[j] (List.getElem?_eq_getElem hb0)
    have e2 := hdspec (j+1) bs[j+1] (List.getElem?_eq_getElem hb1)
    rw [hlo] at e1
    rw [hhi] at e2
    unfold fewerSem at hr
    rw [List.getElem?_eq_getElem hb0, List.getElem?_eq_getElem hb1] at hr
    simp only at hr
    obtain ⟨i, hi', hri⟩ := List.mem_flatMap.mp hr
    have ⟨hsi, hie⟩ := List.mem_range'_1.mp hi'
    have hse : bs[j] < bs[j+1] := List.pairwise_iff_getElem.mp hpw j (j+1) hb0 hb1 (by omega)
    have hen : bs[j+1] ≤ nin := hle _ (List.getElem_mem hb1)
    have hi0 : i < din.length := by omega
    have hi1 : i + 1 < din.length := by omega
    have ⟨h1, h2⟩ := hinv.bounds i din[i] din[i+1] (List.getElem?_eq_getElem hi0) (List.getElem?_eq_getElem hi1) r hri
    have hlo' : lo ≤ din[i] := sorted_getElem? hinv.sorted hsi e1.symm (List.getElem?_eq_getElem hi0)
    have hhi' : din[i+1] ≤ hi := sorted_getElem? hinv.sorted (by omega) (List.getElem?_eq_getElem hi1) e2.symm
    refine ⟨by omega, ?_⟩
    rcases h2 with h2 | ⟨h2a, h2b⟩
    · exact Or.inl (by omega)
    · -- i is the last input partition, so bs[j+1] = nin is the last boundary
      have hieq : bs[j+1] = nin := by omega
      have hjlast : j + 1 = bs.length - 1 := by
        by_cases hc : j + 1 = bs.length - 1
        · exact hc
        · exfalso
          have hlt : j + 1 < bs.length - 1 := by omega
          have := List.pairwise_iff_getElem.mp hpw (j+1) (bs.length - 1) hb1 (by omega) hlt
          have hl' : bs[bs.length - 1] = nin := by
            have := List.getElem?_eq_some_iff.mp hlast
            exact this.2
          omega
      have hidx : din[i+1]? = some hi := by
        have : i + 1 = bs[j+1] := by omega
        rw [this]; exact e2.symm
      rw [List.getElem?_eq_getElem hi1] at hidx
      cases hidx
      exact Or.inr ⟨by omega, h2b⟩
  · -- rows sorted inside a merged partition
    intro j hj
    have hb0 : j < bs.length := by omega
    have hb1 : j + 1 < bs.length := by omega
    unfold fewerSem
    rw [List.getElem?_eq_getElem hb0, List.getElem?_eq_getElem hb1]
    simp only
    have hen : bs[j+1] ≤ nin := hle _ (List.getElem_mem hb1)
    rw [List.pairwise_flatMap]
    refine ⟨fun i hi' => hinv.rowsSorted i (by have := List.mem_range'_1.mp hi'; omega), ?_⟩
    rw [List.pairwise_iff_getElem]
    intro i1 i2 hi1 hi2 hlt r hr s' hs'
    simp only [List.length_range'] at hi1 hi2
    simp only [List.getElem_range'] at hr hs'
    exact divInv_cross hinv (by omega) (by omega) hr hs'

end Dx.Repartition
