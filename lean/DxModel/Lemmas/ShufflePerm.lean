/-
  Lemmas/ShufflePerm.lean — list / permutation facts used by the C12 theorems (core Lean only).
-/
import DxModel.Lemmas.Shuffle
namespace Dx
open Shuffle

theorem flatMap_congr' {α β} (l : List α) (f g : α → List β) (h : ∀ a ∈ l, f a = g a) :
    l.flatMap f = l.flatMap g := by
  induction l with
  | nil => rfl
  | cons a t ih =>
    simp only [List.flatMap_cons]
    rw [h a (by simp), ih (fun b hb => h b (by simp [hb]))]

theorem perm_flatMap_congr {α β} (l : List α) (f g : α → List β) (h : ∀ a ∈ l, (f a).Perm (g a)) :
    (l.flatMap f).Perm (l.flatMap g) := by
  induction l with
  | nil => exact List.Perm.refl _
  | cons a t ih =>
    simp only [List.flatMap_cons]
    exact List.Perm.append (h a (by simp)) (ih (fun b hb => h b (by simp [hb])))

theorem flatMap_nil' {α β} (l : List α) (f : α → List β) (h : ∀ a ∈ l, f a = []) :
    l.flatMap f = [] := by
  induction l with
  | nil => rfl
  | cons a t ih =>
    simp only [List.flatMap_cons]
    rw [h a (by simp), ih (fun b hb => h b (by simp [hb]))]
    rfl

/-- a k-way split of a list by a key function is a permutation of the list -/
theorem split_perm {α} (l : List α) (f : α → Nat) (k : Nat) (h : ∀ r ∈ l, f r < k) :
    ((List.range k).flatMap (fun i => l.filter (fun r => f r == i))).Perm l := by
  induction k generalizing l with
  | zero =>
    cases l with
    | nil => simp
    | cons a t => exact absurd (h a (by simp)) (by omega)
  | succ k ih =>
    rw [List.range_succ, List.flatMap_append]
    simp only [List.flatMap_cons, List.flatMap_nil, List.append_nil]
    have h1 : ((List.range k).flatMap (fun i => l.filter (fun r => f r == i))).Perm
        (l.filter (fun r => decide (f r < k))) := by
      have := ih (l.filter (fun r => decide (f r < k))) (by
        intro r hr; simpa using (List.mem_filter.mp hr).2)
      refine List.Perm.trans ?_ this
      apply List.Perm.of_eq
      apply flatMap_congr'
      intro i hi
      have hik : i < k := List.mem_range.mp hi
      rw [List.filter_filter]
      apply List.filter_congr
      intro r _
      by_cases hri : f r = i
      · simp [hri, hik]
      · simp [hri]
    have h2 : (l.filter (fun r => f r == k)) = l.filter (fun r => !decide (f r < k)) := by
      apply List.filter_congr
      intro r hr
      have := h r hr
      by_cases hrk : f r = k
      · simp [hrk]
      · have : f r < k := by omega
        simp [hrk, this]
    rw [h2]
    exact (List.Perm.append h1 (List.Perm.refl _)).trans (List.filter_append_perm _ l)

/-- `concatV` of values that are all frames -/
theorem concatV_map_frames {α} (l : List α) (v : α → V) (f : α → List Row)
    (h : ∀ a ∈ l, v a = .frame (f a)) : concatV (l.map v) = .frame (l.flatMap f) := by
  rw [← concatV_frames]
  congr 1
  exact List.map_congr_left h

/-- the semantic function is a filter of the concatenation of the inputs -/
theorem sem_eq_filter (p : Params) (rows : Nat → List Row) (o : Nat) :
    sem p rows o = ((List.range p.nin).flatMap rows).filter (fun r => r.tgt == o) := by
  unfold sem
  rw [List.filter_flatMap]

/-- every row lands in exactly one of the `nout` semantic output partitions -/
theorem sem_total (p : Params) (rows : Nat → List Row)
    (hrows : ∀ i, ∀ r ∈ rows i, r.tgt < p.nout) :
    ((List.range p.nout).flatMap (fun o => sem p rows o)).Perm ((List.range p.nin).flatMap rows) := by
  have h : ∀ r ∈ (List.range p.nin).flatMap rows, r.tgt < p.nout := by
    intro r hr
    obtain ⟨i, _, hri⟩ := List.mem_flatMap.mp hr
    exact hrows i r hri
  have := split_perm ((List.range p.nin).flatMap rows) (fun r => r.tgt) p.nout h
  refine List.Perm.trans (List.Perm.of_eq ?_) this
  apply flatMap_congr'
  intro o _
  exact sem_eq_filter p rows o

/-- from per-partition correctness (up to permutation) to the whole collection -/
theorem outputs_total (p : Params) (rows : Nat → List Row) (hrows : ∀ i, ∀ r ∈ rows i, r.tgt < p.nout)
    (v : Nat → V) (h : ∀ j, j < p.nout → ∃ l, v j = .frame l ∧ l.Perm (sem p rows j)) :
    ∃ l, concatV ((List.range p.nout).map v) = .frame l ∧ l.Perm ((List.range p.nin).flatMap rows) := by
  have gen : ∀ L : List Nat, (∀ j ∈ L, ∃ l, v j = .frame l ∧ l.Perm (sem p rows j)) →
      ∃ l, concatV (L.map v) = .frame l ∧ l.Perm (L.flatMap (fun o => sem p rows o)) := by
    intro L
    induction L with
    | nil => intro _; exact ⟨[], rfl, List.Perm.refl _⟩
    | cons a t ih =>
      intro hL
      obtain ⟨la, hva, hpa⟩ := hL a (by simp)
      obtain ⟨lt, hvt, hpt⟩ := ih (fun j hj => hL j (by simp [hj]))
      refine ⟨la ++ lt, ?_, ?_⟩
      · simp only [List.map_cons, concatV, hva, hvt]
      · simp only [List.flatMap_cons]
        exact List.Perm.append hpa hpt
  obtain ⟨l, hl, hp⟩ := gen (List.range p.nout) (fun j hj => h j (List.mem_range.mp hj))
  exact ⟨l, hl, hp.trans (sem_total p rows hrows)⟩

theorem parts_range (p : Params) (hp : p.parts = List.range p.nout) (j : Nat) (hj : j < p.nout) :
    ∃ h : j < p.parts.length, p.parts[j] = j := by
  have h : j < p.parts.length := by rw [hp, List.length_range]; exact hj
  exact ⟨h, by simp [hp]⟩

theorem parts_range_lt (p : Params) (hp : p.parts = List.range p.nout) : ∀ o ∈ p.parts, o < p.nout := by
  intro o ho; rw [hp] at ho; exact List.mem_range.mp ho

end Dx
