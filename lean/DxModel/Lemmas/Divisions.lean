/-
  Lemmas/Divisions.lean — C06 helper lemmas: stacked (Concat) divisions, `unique(merge_sorted(…))`,
  FromPandas under the checked hypothesis `locsOK`, row counts.
-/
import DxModel.Layers.Divisions
import DxModel.Lemmas.Partitions
namespace Dx.Divs
open Dx Dx.Parts Dx.Repartition

/-! ### Concat (two frames, monotonic divisions) -/

theorem getElem?_dropLast_append {a b : List Int} (i : Nat) (h : i < a.length - 1) :
    (a.dropLast ++ b)[i]? = a[i]? := by
  rw [List.getElem?_append_left (by simp; omega), List.getElem?_dropLast]
  simp [h]

theorem getElem?_dropLast_append_right {a b : List Int} (i : Nat) (h : a.length - 1 ≤ i) :
    (a.dropLast ++ b)[i]? = b[i - (a.length - 1)]? := by
  rw [List.getElem?_append_right (by simp; omega)]
  simp

/-- **Concat._divisions, monotonic case**: the first frame's divisions without the last entry followed by
    the second frame's divisions are truthful for the stacked partitions. -/
theorem divInv_stack (d₁ d₂ : List Int) (n₁ n₂ : Nat) (p₁ p₂ : Nat → List Row) (x y : Int)
    (h₁ : DivInv d₁ n₁ p₁) (h₂ : DivInv d₂ n₂ p₂)
    (hx : d₁.getLast? = some x) (hy : d₂.head? = some y) (hxy : x < y) :
    DivInv (d₁.dropLast ++ d₂) (n₁ + n₂) (stackParts n₁ p₁ p₂) := by
  have hl₁ := h₁.len
  have hl₂ := h₂.len
  have hxi : d₁[n₁]? = some x := by
    rw [List.getLast?_eq_getElem?] at hx
    have : d₁.length - 1 = n₁ := by omega
    rw [this] at hx; exact hx
  have hyi : d₂[0]? = some y := by rw [← List.head?_eq_getElem?]; exact hy
  have hD : d₁.length - 1 = n₁ := by omega
  -- entry of the stacked divisions
  have hleft : ∀ i, i < n₁ → (d₁.dropLast ++ d₂)[i]? = d₁[i]? := fun i hi =>
    getElem?_dropLast_append i (by omega)
  have hright : ∀ i, n₁ ≤ i → (d₁.dropLast ++ d₂)[i]? = d₂[i - n₁]? := fun i hi => by
    rw [getElem?_dropLast_append_right i (by omega), hD]
  refine ⟨by simp; omega, ?_, ?_, ?_⟩
  · rw [List.pairwise_append]
    refine ⟨h₁.sorted.sublist (List.dropLast_sublist _), h₂.sorted, ?_⟩
    intro a ha b hb
    obtain ⟨i, hi, rfl⟩ := List.getElem_of_mem ha
    obtain ⟨j, hj, rfl⟩ := List.getElem_of_mem hb
    have hi' : i < d₁.length - 1 := by simpa using hi
    have e1 : d₁[i]? = some (d₁.dropLast[i]) := by
      rw [← List.getElem?_eq_getElem hi, List.getElem?_dropLast]; simp [hi']
    have hax : d₁.dropLast[i] ≤ x := sorted_getElem? h₁.sorted (by omega) e1 hxi
    have hyb : y ≤ d₂[j] := sorted_getElem? h₂.sorted (Nat.zero_le j) hyi (List.getElem?_eq_getElem hj)
    omega
  · intro i lo hi hlo hhi r hr
    have hi1 : i + 1 < (d₁.dropLast ++ d₂).length := (List.getElem?_eq_some_iff.mp hhi).1
    have hilt : i < n₁ + n₂ := by simp at hi1; omega
    unfold stackParts at hr
    by_cases hin : i < n₁
    · rw [if_pos hin] at hr
      rw [hleft i hin] at hlo
      have hi0 : i + 1 < d₁.length := by omega
      have hb := h₁.bounds i lo d₁[i+1] hlo (List.getElem?_eq_getElem hi0) r hr
      refine ⟨hb.1, Or.inl ?_⟩
      by_cases hc : i + 1 < n₁
      · rw [hleft (i+1) hc, List.getElem?_eq_getElem hi0] at hhi
        cases hhi
        rcases hb.2 with h | ⟨h, _⟩
        · exact h
        · omega
      · -- last partition of the first frame: its upper bound is replaced by the second frame's first division
        have hie : i + 1 = n₁ := by omega
        rw [hright (i+1) (by omega), hie, Nat.sub_self, hyi] at hhi
        cases hhi
        have : d₁[i+1]? = some x := by rw [hie]; exact hxi
        rw [List.getElem?_eq_getElem hi0] at this
        cases this
        rcases hb.2 with h | ⟨_, h⟩ <;> omega
    · rw [if_neg hin] at hr
      have hge : n₁ ≤ i := by omega
      rw [hright i hge] at hlo
      rw [hright (i+1) (by omega)] at hhi
      have e : i + 1 - n₁ = i - n₁ + 1 := by omega
      rw [e] at hhi
      have hb := h₂.bounds (i - n₁) lo hi hlo hhi r hr
      refine ⟨hb.1, ?_⟩
      rcases hb.2 with h | ⟨ha, hb'⟩
      · exact Or.inl h
      · right
        refine ⟨?_, hb'⟩
        simp only [List.length_append, List.length_dropLast]
        omega
  · intro i hi
    unfold stackParts
    by_cases hin : i < n₁
    · rw [if_pos hin]; exact h₁.rowsSorted i hin
    · rw [if_neg hin]; exact h₂.rowsSorted (i - n₁) (by omega)

/-! ### `unique(merge_sorted(…))` -/

theorem merge2_perm : ∀ (a b : List Int), (merge2 a b).Perm (a ++ b) := by
  intro a b
  induction a, b using merge2.induct with
  | case1 b => simp [merge2]
  | case2 a h => simp [merge2]
  | case3 x a y b hlt ih =>
    rw [merge2, if_pos hlt]
    have : (y :: merge2 (x :: a) b).Perm (y :: (x :: a ++ b)) := List.Perm.cons y ih
    exact this.trans (List.perm_middle.symm)
  | case4 x a y b hlt ih =>
    rw [merge2, if_neg hlt]
    exact List.Perm.cons x ih

theorem mem_merge2 {v : Int} {a b : List Int} : v ∈ merge2 a b ↔ v ∈ a ∨ v ∈ b := by
  rw [(merge2_perm a b).mem_iff, List.mem_append]

theorem merge2_sorted : ∀ (a b : List Int), a.Pairwise (· ≤ ·) → b.Pairwise (· ≤ ·) → (merge2 a b).Pairwise (· ≤ ·) := by
  intro a b
  induction a, b using merge2.induct with
  | case1 b => intro _ hb; simpa [merge2] using hb
  | case2 a h => intro ha _; simpa [merge2] using ha
  | case3 x a y b hlt ih =>
    intro ha hb
    rw [merge2, if_pos hlt]
    refine List.Pairwise.cons ?_ (ih ha hb.tail)
    intro v hv
    rcases mem_merge2.mp hv with h | h
    · rcases List.mem_cons.mp h with rfl | h'
      · omega
      · have := (List.pairwise_cons.mp ha).1 v h'; omega
    · exact (List.pairwise_cons.mp hb).1 v h
  | case4 x a y b hlt ih =>
    intro ha hb
    rw [merge2, if_neg hlt]
    refine List.Pairwise.cons ?_ (ih ha.tail hb)
    intro v hv
    rcases mem_merge2.mp hv with h | h
    · exact (List.pairwise_cons.mp ha).1 v h
    · rcases List.mem_cons.mp h with rfl | h'
      · omega
      · have := (List.pairwise_cons.mp hb).1 v h'; omega

theorem mergeAll_sorted : ∀ (ds : List (List Int)), (∀ d ∈ ds, d.Pairwise (· ≤ ·)) → (mergeAll ds).Pairwise (· ≤ ·) := by
  intro ds
  induction ds with
  | nil => intro _; exact List.Pairwise.nil
  | cons d t ih =>
    intro h
    exact merge2_sorted d _ (h d (List.mem_cons_self ..)) (ih (fun x hx => h x (List.mem_cons_of_mem _ hx)))

theorem mem_mergeAll {v : Int} : ∀ {ds : List (List Int)}, v ∈ mergeAll ds ↔ ∃ d ∈ ds, v ∈ d := by
  intro ds
  induction ds with
  | nil => simp [mergeAll]
  | cons d t ih =>
    simp only [mergeAll, mem_merge2, ih, List.mem_cons]
    constructor
    · rintro (h | ⟨d', hd', hv⟩)
      · exact ⟨d, Or.inl rfl, h⟩
      · exact ⟨d', Or.inr hd', hv⟩
    · rintro ⟨d', hd' | hd', hv⟩
      · subst hd'; exact Or.inl hv
      · exact Or.inr ⟨d', hd', hv⟩

theorem uniq_sublist : ∀ (l seen : List Int), (uniq l seen).Sublist l := by
  intro l
  induction l with
  | nil => intro _; exact List.Sublist.slnil
  | cons x t ih =>
    intro seen
    unfold uniq
    split
    · exact (ih seen).cons x
    · exact (ih (x :: seen)).cons_cons x

theorem mem_uniq {v : Int} : ∀ {l seen : List Int}, v ∈ uniq l seen ↔ v ∈ l ∧ v ∉ seen := by
  intro l
  induction l with
  | nil => intro seen; simp [uniq]
  | cons x t ih =>
    intro seen
    unfold uniq
    by_cases hx : seen.contains x = true
    · rw [if_pos hx, ih]
      have hxs : x ∈ seen := by simpa using hx
      constructor
      · rintro ⟨h1, h2⟩; exact ⟨List.mem_cons_of_mem _ h1, h2⟩
      · rintro ⟨h1, h2⟩
        rcases List.mem_cons.mp h1 with rfl | h1'
        · exact absurd hxs h2
        · exact ⟨h1', h2⟩
    · rw [if_neg hx]
      have hxs : x ∉ seen := by simpa using hx
      simp only [List.mem_cons, ih]
      constructor
      · rintro (rfl | ⟨h1, h2⟩)
        · exact ⟨Or.inl rfl, hxs⟩
        · exact ⟨Or.inr h1, fun h => h2 (Or.inr h)⟩
      · rintro ⟨h1 | h1, h2⟩
        · exact Or.inl h1
        · by_cases hvx : v = x
          · exact Or.inl hvx
          · exact Or.inr ⟨h1, fun h => by rcases h with h | h; exact hvx h; exact h2 h⟩

theorem uniq_nodup : ∀ (l seen : List Int), (uniq l seen).Nodup := by
  intro l
  induction l with
  | nil => intro _; simp [uniq]
  | cons x t ih =>
    intro seen
    unfold uniq
    split
    · exact ih seen
    · refine List.nodup_cons.mpr ⟨?_, ih (x :: seen)⟩
      intro h
      have := (mem_uniq.mp h).2
      exact this (List.mem_cons_self ..)

theorem strict_of_sorted_nodup {l : List Int} (hs : l.Pairwise (· ≤ ·)) (hn : l.Nodup) : l.Pairwise (· < ·) := by
  have := hs.and hn
  exact this.imp (fun ⟨h1, h2⟩ => by omega)

/-- what `unique(merge_sorted(d₁, d₂, …))` is, for sorted inputs: strictly increasing, and exactly the
    union of the inputs' entries -/
theorem mergeUniqueAll_spec (ds : List (List Int)) (h : ∀ d ∈ ds, d.Pairwise (· ≤ ·)) :
    (mergeUniqueAll ds).Pairwise (· < ·) ∧ ∀ v, v ∈ mergeUniqueAll ds ↔ ∃ d ∈ ds, v ∈ d := by
  unfold mergeUniqueAll
  refine ⟨strict_of_sorted_nodup ((mergeAll_sorted ds h).sublist (uniq_sublist _ _)) (uniq_nodup _ _), ?_⟩
  intro v
  rw [mem_uniq, mem_mergeAll]
  simp

/-! ### FromPandas under `locsOK` -/

theorem fpRows_idx (rows : List Row) (locs : List Nat) (i a b : Nat) (ha : locs[i]? = some a) (hb : locs[i+1]? = some b) :
    (fpRows rows locs i).map (·.idx) = ((rows.map (·.idx)).drop a).take (b - a) := by
  simp [fpRows, ha, hb, List.map_take, List.map_drop]

theorem divInv_frompandas (rows : List Row) (divs : List Int) (locs : List Nat)
    (h : locsOK (rows.map (·.idx)) divs locs = true) :
    DivInv divs (locs.length - 1) (fpRows rows locs) := by
  simp only [locsOK, Bool.and_eq_true, decide_eq_true_eq, List.all_eq_true, List.mem_range] at h
  obtain ⟨⟨⟨⟨⟨hlen, h2⟩, _hb⟩, hall⟩, hsd⟩, hsi⟩ := h
  have hsorted := isSorted_pairwise _ hsi
  refine ⟨by omega, isSorted_pairwise _ hsd, ?_, ?_⟩
  · intro i lo hi hlo hhi r hr
    have hi1 : i + 1 < divs.length := (List.getElem?_eq_some_iff.mp hhi).1
    have hil : i < locs.length - 1 := by omega
    have := hall i hil
    have ha : locs[i]? = some locs[i] := List.getElem?_eq_getElem (by omega)
    have hb : locs[i+1]? = some locs[i+1] := List.getElem?_eq_getElem (by omega)
    simp only [ha, hb, hlo, hhi, List.all_eq_true, Bool.and_eq_true, Bool.or_eq_true, decide_eq_true_eq] at this
    have hmem : r.idx ∈ ((rows.map (·.idx)).drop locs[i]).take (locs[i+1] - locs[i]) := by
      rw [← fpRows_idx rows locs i _ _ ha hb]
      exact List.mem_map.mpr ⟨r, hr, rfl⟩
    have := this r.idx hmem
    refine ⟨this.1, ?_⟩
    rcases this.2 with h | ⟨h, h'⟩
    · exact Or.inl h
    · exact Or.inr ⟨by omega, h'⟩
  · intro i hi
    have ha : locs[i]? = some locs[i] := List.getElem?_eq_getElem (by omega)
    have hb : locs[i+1]? = some locs[i+1] := List.getElem?_eq_getElem (by omega)
    have hs : ((fpRows rows locs i).map (·.idx)).Sublist (rows.map (·.idx)) := by
      rw [fpRows_idx rows locs i _ _ ha hb]
      exact (List.take_sublist _ _).trans (List.drop_sublist _ _)
    have h2 := hsorted.sublist hs
    exact List.pairwise_map.mp h2

/-! ### row counts -/

def totalLen (n : Nat) (parts : Nat → List Row) : Nat := ((List.range n).flatMap parts).length

theorem totalLen_congr (n : Nat) (p q : Nat → List Row) (h : ∀ i, i < n → (q i).length = (p i).length) :
    totalLen n q = totalLen n p := by
  unfold totalLen
  induction n with
  | zero => rfl
  | succ n ih =>
    simp only [List.range_succ, List.flatMap_append, List.flatMap_cons, List.flatMap_nil, List.append_nil,
      List.length_append]
    rw [ih (fun i hi => h i (by omega)), h n (by omega)]

theorem totalLen_stack (n₁ n₂ : Nat) (p₁ p₂ : Nat → List Row) :
    totalLen (n₁ + n₂) (stackParts n₁ p₁ p₂) = totalLen n₁ p₁ + totalLen n₂ p₂ := by
  unfold totalLen
  rw [List.range_add, List.flatMap_append, List.length_append, List.flatMap_map]
  congr 1
  · congr 1
    apply flatMap_congr'
    intro i hi
    simp [stackParts, List.mem_range.mp hi]
  · congr 1
    apply flatMap_congr'
    intro i _
    have : ¬ (n₁ + i < n₁) := by omega
    simp [stackParts, this]

/-- positions of a strictly ascending selection, listed in original order, are the selection itself -/
theorem filter_range_strictAsc : ∀ (n : Nat) (P : List Nat), P.Pairwise (· < ·) → (∀ p ∈ P, p < n) →
    (List.range n).filter (fun i => P.contains i) = P := by
  intro n
  induction n with
  | zero =>
    intro P _ hlt
    cases P with
    | nil => rfl
    | cons p t => exact absurd (hlt p (List.mem_cons_self ..)) (by omega)
  | succ n ih =>
    intro P hpw hlt
    rw [List.range_succ, List.filter_append]
    by_cases hn : n ∈ P
    · -- n is the last element of P
      obtain ⟨P', hP'⟩ : ∃ P', P = P' ++ [n] := by
        obtain ⟨s, t, rfl⟩ := List.append_of_mem hn
        have ht : t = [] := by
          cases t with
          | nil => rfl
          | cons y t' =>
            exfalso
            have h1 := (List.pairwise_append.mp hpw).2.1
            have : n < y := (List.pairwise_cons.mp h1).1 y (List.mem_cons_self ..)
            have := hlt y (by simp)
            omega
        subst ht
        exact ⟨s, rfl⟩
      subst hP'
      have hpw' := (List.pairwise_append.mp hpw).1
      have hlt' : ∀ p ∈ P', p < n := by
        intro p hp
        have := (List.pairwise_append.mp hpw).2.2 p hp n (List.mem_singleton.mpr rfl)
        exact this
      have e1 : (List.range n).filter (fun i => (P' ++ [n]).contains i) = (List.range n).filter (fun i => P'.contains i) := by
        apply List.filter_congr
        intro i hi
        have : i < n := List.mem_range.mp hi
        have hne : i ≠ n := by omega
        simp [hne]
      rw [e1, ih P' hpw' hlt']
      simp
    · have hlt' : ∀ p ∈ P, p < n := by
        intro p hp
        have := hlt p hp
        have : p ≠ n := fun e => hn (e ▸ hp)
        omega
      rw [ih P hpw hlt']
      simp [hn]

end Dx.Divs

namespace Dx.Divs
open Dx Dx.Parts

theorem filter_range_le (c : Nat → Bool) (n m : Nat) (hnm : n ≤ m) (h : ∀ i, n ≤ i → c i = false) :
    (List.range m).filter c = (List.range n).filter c := by
  obtain ⟨k, rfl⟩ : ∃ k, m = n + k := ⟨m - n, by omega⟩
  rw [List.range_add, List.filter_append]
  have : ((List.range k).map (fun x => n + x)).filter c = [] := by
    apply List.filter_eq_nil_iff.mpr
    intro a ha
    obtain ⟨x, _, rfl⟩ := List.mem_map.mp ha
    simp [h (n + x) (by omega)]
  rw [this, List.append_nil]

theorem foldl_max_ge : ∀ (P : List Nat) (a : Nat), a ≤ P.foldl max a ∧ ∀ p ∈ P, p ≤ P.foldl max a := by
  intro P
  induction P with
  | nil => intro a; exact ⟨Nat.le_refl _, fun p hp => by cases hp⟩
  | cons x t ih =>
    intro a
    have ⟨h1, h2⟩ := ih (max a x)
    simp only [List.foldl_cons]
    refine ⟨by omega, ?_⟩
    intro p hp
    rcases List.mem_cons.mp hp with rfl | hp'
    · omega
    · exact h2 p hp'

theorem sortedSet_eq (P : List Nat) (n : Nat) (h : ∀ p ∈ P, p < n) :
    sortedSet P = (List.range n).filter (fun i => P.contains i) := by
  unfold sortedSet
  have hb := (foldl_max_ge P 0).2
  have hout : ∀ m, (∀ p ∈ P, p < m) → ∀ i, m ≤ i → P.contains i = false := by
    intro m hm i hi
    cases hc : P.contains i with
    | false => rfl
    | true =>
      have : i ∈ P := by simpa using hc
      have := hm i this
      omega
  by_cases hle : P.foldl max 0 + 1 ≤ n
  · exact (filter_range_le _ _ _ hle (hout _ (fun p hp => by have := hb p hp; omega))).symm
  · exact filter_range_le _ _ _ (by omega) (hout n h)

theorem lookup_zip_map (f : Nat → Nat) : ∀ (l : List Nat) (i : Nat), i ∈ l → (l.zip (l.map f)).lookup i = some (f i) := by
  intro l
  induction l with
  | nil => intro i hi; cases hi
  | cons a t ih =>
    intro i hi
    simp only [List.map_cons, List.zip_cons_cons, List.lookup_cons]
    by_cases hia : i = a
    · subst hia; simp
    · have : (i == a) = false := by simpa using hia
      rw [this]
      rcases List.mem_cons.mp hi with h | h
      · exact absurd h hia
      · exact ih i h

theorem lookupAll_map (f : Nat → Nat) (l : List Nat) : ∀ (P : List Nat), (∀ p ∈ P, p ∈ l) →
    lookupAll l (l.map f) P = some (P.map f) := by
  intro P
  induction P with
  | nil => intro _; rfl
  | cons p t ih =>
    intro h
    simp [lookupAll, lookup_zip_map f l p (h p (List.mem_cons_self ..)),
      ih (fun x hx => h x (List.mem_cons_of_mem _ hx))]

/-- the fsspec reader's lengths under a valid selection (any order, repeats) are the selected lengths -/
theorem pqLengths_valid (stats : List Nat) (P : List Nat) (h : ∀ p ∈ P, p < stats.length) :
    pqLengths stats (some P) = some (trueLengths stats (some P)) := by
  simp only [pqLengths, trueLengths, keepAt]
  rw [sortedSet_eq P stats.length h]
  apply lookupAll_map
  intro p hp
  simp [List.mem_filter, h p hp, hp]

end Dx.Divs
