/-
  Lemmas/RepartitionPlanner.lean — facts about the model of RepartitionDivisions._layer (`planner`):
  rejection of uncovered requests, no spurious rejection, and the loop invariants showing that for strictly
  increasing old/new divisions with equal end points the emitted plan passes the validator.
-/
import DxModel.Lemmas.RepartitionDiv
namespace Dx.Repartition
open Dx

/-! ### end points -/

theorem last2_of_length (b : List Int) (h : 2 ≤ b.length) :
    ∃ bp bn, last2 b = some (bp, bn) ∧ b.getLast? = some bn ∧ b[b.length - 2]? = some bp := by
  unfold last2
  have hlen : b.reverse.length = b.length := List.length_reverse
  have hrev : b = b.reverse.reverse := (List.reverse_reverse b).symm
  cases hr : b.reverse with
  | nil => rw [hr] at hlen; simp at hlen; omega
  | cons l t =>
    cases t with
    | nil => rw [hr] at hlen; simp at hlen; omega
    | cons l2 t' =>
      refine ⟨l2, l, rfl, ?_, ?_⟩
      · rw [← List.head?_reverse, hr]; rfl
      · rw [hrev, hr]
        simp

theorem head?_of_length {α} (l : List α) (h : 1 ≤ l.length) : ∃ x, l.head? = some x := by
  cases l with
  | nil => simp at h
  | cons x _ => exact ⟨x, rfl⟩

theorem getLast?_of_length {α} (l : List α) (h : 1 ≤ l.length) : ∃ x, l.getLast? = some x := by
  rw [List.getLast?_eq_getElem?]
  exact ⟨l[l.length - 1], List.getElem?_eq_getElem (by omega)⟩

/-! ### rejection -/

theorem planner_rejects (a b : List Int) (force : Bool) (hla : 2 ≤ a.length)
    (h : covered a b force = false) : planner a b force = .error .value := by
  unfold planner
  by_cases hb : b.length < 2
  · simp [hb]
  · have hla' : ¬ a.length < 2 := by omega
    obtain ⟨a0, ha0⟩ := head?_of_length a (by omega)
    obtain ⟨an, han⟩ := getLast?_of_length a (by omega)
    obtain ⟨b0, hb0⟩ := head?_of_length b (by omega)
    obtain ⟨bp, bn, hl2, hbn, _⟩ := last2_of_length b (by omega)
    unfold covered at h
    simp only [ha0, han, hb0, hbn] at h
    have hg : guardFails force a0 an b0 bn = true := by
      have : decide (b.length ≥ 2) = true := by simp; omega
      simpa [this] using h
    simp [hb, hla', ha0, han, hb0, hl2, hg]

theorem phase1_no_value (a b : List Int) : ∀ (fuel : Nat) (s : P1) (e : PErr),
    phase1 a b fuel s = .error e → e = .fuel := by
  intro fuel
  induction fuel with
  | zero => intro s e h; simp [phase1] at h; exact h.symm
  | succ fuel ih =>
    intro s e h
    unfold phase1 at h
    split at h
    · split at h
      · exact ih _ e h
      · split at h
        · exact ih _ e h
        · exact ih _ e h
    · cases h

theorem inner1_no_value (c : List Int) (bj : Int) : ∀ (fuel i : Nat) (tmp : List Nat) (e : PErr),
    inner1 c bj fuel i tmp = .error e → e ≠ .value := by
  intro fuel
  induction fuel with
  | zero => intro i tmp e h; simp [inner1] at h; subst h; simp
  | succ fuel ih =>
    intro i tmp e h
    unfold inner1 at h
    split at h
    · cases h; simp
    · split at h
      · exact ih _ _ e h
      · cases h

theorem inner2_no_value (c : List Int) (bn : Int) (cond : Bool) (k : Nat) : ∀ (fuel i : Nat) (tmp : List Nat) (e : PErr),
    inner2 c bn cond k fuel i tmp = .error e → e ≠ .value := by
  intro fuel
  induction fuel with
  | zero => intro i tmp e h; simp [inner2] at h; subst h; simp
  | succ fuel ih =>
    intro i tmp e h
    unfold inner2 at h
    split at h
    · cases h; simp
    · split at h
      · exact ih _ _ e h
      · cases h

theorem phase2_no_value (c : List Int) (k : Nat) (le : Bool) (bp bn : Int) (blen : Nat) :
    ∀ (rest : List Int) (j i : Nat) (outs : List (List Nat)) (e : PErr),
      phase2 c k le bp bn blen rest j i outs = .error e → e ≠ .value := by
  intro rest
  induction rest with
  | nil => intro j i outs e h; simp [phase2] at h
  | cons bj rest ih =>
    intro j i outs e h
    unfold phase2 at h
    split at h
    · rename_i e' he'
      cases h
      exact inner1_no_value c bj _ _ _ _ he'
    · split at h
      · rename_i e' he'
        cases h
        split at he'
        · exact inner2_no_value c bn _ k _ _ _ _ he'
        · cases he'
      · exact ih _ _ _ e h

theorem planner_no_value_error (a b : List Int) (force : Bool)
    (h : covered a b force = true) : planner a b force ≠ .error .value := by
  unfold covered at h
  cases ha0 : a.head? with
  | none => simp [ha0] at h
  | some a0 =>
    cases han : a.getLast? with
    | none => simp [ha0, han] at h
    | some an =>
      cases hb0 : b.head? with
      | none => simp [ha0, han, hb0] at h
      | some b0 =>
        cases hbn : b.getLast? with
        | none => simp [ha0, han, hb0, hbn] at h
        | some bn =>
          simp only [ha0, han, hb0, hbn, Bool.and_eq_true, decide_eq_true_eq, Bool.not_eq_true'] at h
          obtain ⟨hlb, hg⟩ := h
          obtain ⟨bp, bn', hl2, hbn', _⟩ := last2_of_length b hlb
          rw [hbn] at hbn'
          cases hbn'
          unfold planner
          have hb : ¬ b.length < 2 := by omega
          simp only [hb, if_false]
          by_cases hla : a.length < 2
          · simp [hla]
          · simp only [hla, if_false, ha0, han, hb0, hl2, hg, Bool.false_eq_true]
            intro hcontra
            split at hcontra
            · rename_i e he
              cases hcontra
              have := phase1_no_value a b _ _ _ he
              cases this
            · split at hcontra
              · rename_i e he
                cases hcontra
                unfold setLastIncl at he
                split at he
                · cases he
                · cases he
              · split at hcontra
                · rename_i e he
                  cases hcontra
                  exact phase2_no_value _ _ _ _ _ _ _ _ _ _ _ he rfl
                · cases hcontra

/-! ### strictly sorted lists -/

theorem isStrictSorted_cons {a b : Int} {t : List Int} :
    isStrictSorted (a :: b :: t) = true ↔ a < b ∧ isStrictSorted (b :: t) = true := by
  simp [isStrictSorted]

theorem strict_pairwise : ∀ (l : List Int), isStrictSorted l = true → l.Pairwise (· < ·) := by
  intro l
  induction l with
  | nil => intro _; exact List.Pairwise.nil
  | cons a t ih =>
    intro h
    cases t with
    | nil => simp
    | cons b t' =>
      have ⟨hab, h'⟩ := isStrictSorted_cons.mp h
      have ht := ih h'
      rw [List.pairwise_cons]
      refine ⟨?_, ht⟩
      intro c hc
      cases hc with
      | head => exact hab
      | tail _ hc' =>
        have := (List.pairwise_cons.mp ht).1 c hc'
        omega

theorem strict_lt {l : List Int} (h : isStrictSorted l = true) {i j : Nat} {x y : Int} (hij : i < j)
    (hx : l[i]? = some x) (hy : l[j]? = some y) : x < y := by
  obtain ⟨hi, rfl⟩ := List.getElem?_eq_some_iff.mp hx
  obtain ⟨hj, rfl⟩ := List.getElem?_eq_some_iff.mp hy
  exact List.pairwise_iff_getElem.mp (strict_pairwise l h) i j hi hj hij

theorem strict_le {l : List Int} (h : isStrictSorted l = true) {i j : Nat} {x y : Int} (hij : i ≤ j)
    (hx : l[i]? = some x) (hy : l[j]? = some y) : x ≤ y := by
  by_cases he : i = j
  · subst he; rw [hx] at hy; cases hy; exact Int.le_refl _
  · exact Int.le_of_lt (strict_lt h (by omega) hx hy)

theorem strict_isSorted : ∀ (l : List Int), isStrictSorted l = true → isSorted l = true := by
  intro l
  induction l with
  | nil => intro _; rfl
  | cons a t ih =>
    intro h
    cases t with
    | nil => rfl
    | cons b t' =>
      have ⟨hab, h'⟩ := isStrictSorted_cons.mp h
      exact isSorted_cons.mpr ⟨by omega, ih h'⟩

theorem last2_strict {b : List Int} (h : isStrictSorted b = true) {bp bn : Int} (hl : last2 b = some (bp, bn)) :
    bp < bn := by
  have hlen : 2 ≤ b.length := by
    unfold last2 at hl
    have : b.reverse.length = b.length := List.length_reverse
    cases hr : b.reverse with
    | nil => simp [hr] at hl
    | cons l t =>
      cases t with
      | nil => simp [hr] at hl
      | cons l2 t' => rw [hr] at this; simp at this; omega
  obtain ⟨bp', bn', hl', hbn, hbp⟩ := last2_of_length b hlen
  rw [hl] at hl'
  cases hl'
  rw [List.getLast?_eq_getElem?] at hbn
  exact strict_lt h (by omega) hbp hbn

theorem isSingleLastDiv_eq (x : List Int) :
    isSingleLastDiv x = (match last2 x with | some (p, n) => n == p | none => false) := by
  unfold isSingleLastDiv last2
  cases x.reverse with
  | nil => rfl
  | cons l t =>
    cases t with
    | nil => rfl
    | cons l2 t' => rfl

theorem isSingleLastDiv_strict {a : List Int} (h : isStrictSorted a = true) : isSingleLastDiv a = false := by
  rw [isSingleLastDiv_eq]
  cases hl : last2 a with
  | none => rfl
  | some pn =>
    obtain ⟨p, n⟩ := pn
    have := last2_strict h hl
    simp
    omega

theorem isSingleLastDiv_snoc (c : List Int) (x : Int) :
    isSingleLastDiv (c ++ [x]) = (match c.getLast? with | some y => x == y | none => false) := by
  unfold isSingleLastDiv
  rw [List.reverse_append, ← List.head?_reverse]
  cases c.reverse with
  | nil => rfl
  | cons l t => rfl

/-! ### phase 1 (merging the two boundary lists) for strictly increasing divisions -/

/-- piece `p` is the `m`-th interval `[c[m], c[m+1])`, cut from an input partition whose range contains it -/
def PieceAt (a c : List Int) (p : Slice) (m : Nat) : Prop :=
  ∃ lo hi, a[p.i]? = some lo ∧ a[p.i + 1]? = some hi ∧ c[m]? = some p.lo ∧ c[m+1]? = some p.hi ∧
    lo ≤ p.lo ∧ p.lo < p.hi ∧ p.hi ≤ hi ∧ p.incl = false

structure Inv1 (a b : List Int) (a0 an : Int) (s : P1) : Prop where
  i_pos : 1 ≤ s.i
  j_pos : 1 ≤ s.j
  i_le : s.i ≤ a.length
  j_le : s.j ≤ b.length
  clen : s.c.length = s.pieces.length + 1
  clast : s.c[s.pieces.length]? = some s.low
  c0 : s.c[0]? = some a0
  a_lo : ∀ x, a[s.i - 1]? = some x → x ≤ s.low
  a_hi : ∀ x, a[s.i]? = some x → s.low < x
  b_lo : ∀ x, b[s.j - 1]? = some x → x ≤ s.low
  b_hi : ∀ x, b[s.j]? = some x → s.low < x
  low_le : s.low ≤ an
  pieces : ∀ m p, s.pieces[m]? = some p → PieceAt a s.c p m
  b_in : ∀ j' x, j' < s.j → b[j']? = some x → ∃ m, m ≤ s.pieces.length ∧ s.c[m]? = some x

theorem inv1_step {a b : List Int} {a0 an : Int} (ha : isStrictSorted a = true) (hb : isStrictSorted b = true)
    (han : a.getLast? = some an) (hbn : b.getLast? = some an)
    {s : P1} (hinv : Inv1 a b a0 an s) {ai bj : Int} (hai : a[s.i]? = some ai) (hbj : b[s.j]? = some bj)
    (i' j' : Nat) (new : Int)
    (hi' : (ai ≤ bj ∧ i' = s.i + 1) ∨ (bj < ai ∧ i' = s.i))
    (hj' : (bj ≤ ai ∧ j' = s.j + 1) ∨ (ai < bj ∧ j' = s.j))
    (hnew : new = min ai bj) :
    Inv1 a b a0 an { i := i', j := j', low := new, c := s.c ++ [new],
                     pieces := s.pieces ++ [⟨s.i - 1, s.low, new, false⟩] } := by
  have hil : s.i < a.length := (List.getElem?_eq_some_iff.mp hai).1
  have hjl : s.j < b.length := (List.getElem?_eq_some_iff.mp hbj).1
  have hlow_ai := hinv.a_hi ai hai
  have hlow_bj := hinv.b_hi bj hbj
  have hlow_new : s.low < new := by omega
  have hclen := hinv.clen
  have hip := hinv.i_pos
  have hjp := hinv.j_pos
  rw [List.getLast?_eq_getElem?] at han hbn
  have hai_an : ai ≤ an := strict_le ha (by omega) hai han
  have hbj_an : bj ≤ an := strict_le hb (by omega) hbj hbn
  constructor
  · show 1 ≤ i'; omega
  · show 1 ≤ j'; omega
  · show i' ≤ a.length; omega
  · show j' ≤ b.length; omega
  · show (s.c ++ [new]).length = (s.pieces ++ [_]).length + 1
    simp; omega
  · show (s.c ++ [new])[(s.pieces ++ [_]).length]? = some new
    rw [List.getElem?_append_right (by simp; omega)]
    simp [hclen]
  · show (s.c ++ [new])[0]? = some a0
    rw [List.getElem?_append_left (by omega)]
    exact hinv.c0
  · show ∀ x, a[i' - 1]? = some x → x ≤ new
    intro x hx
    rcases hi' with ⟨h1, rfl⟩ | ⟨h1, rfl⟩
    · simp only [Nat.add_sub_cancel] at hx
      rw [hai] at hx; cases hx; omega
    · have := hinv.a_lo x hx; omega
  · show ∀ x, a[i']? = some x → new < x
    intro x hx
    rcases hi' with ⟨h1, rfl⟩ | ⟨h1, rfl⟩
    · have := strict_lt ha (Nat.lt_succ_self s.i) hai hx; omega
    · rw [hai] at hx; cases hx; omega
  · show ∀ x, b[j' - 1]? = some x → x ≤ new
    intro x hx
    rcases hj' with ⟨h1, rfl⟩ | ⟨h1, rfl⟩
    · simp only [Nat.add_sub_cancel] at hx
      rw [hbj] at hx; cases hx; omega
    · have := hinv.b_lo x hx; omega
  · show ∀ x, b[j']? = some x → new < x
    intro x hx
    rcases hj' with ⟨h1, rfl⟩ | ⟨h1, rfl⟩
    · have := strict_lt hb (Nat.lt_succ_self s.j) hbj hx; omega
    · rw [hbj] at hx; cases hx; omega
  · show new ≤ an; omega
  · show ∀ m p, (s.pieces ++ [_])[m]? = some p → PieceAt a (s.c ++ [new]) p m
    intro m p hp
    by_cases hm : m < s.pieces.length
    · rw [List.getElem?_append_left hm] at hp
      obtain ⟨lo, hi, h1, h2, h3, h4, h5⟩ := hinv.pieces m p hp
      refine ⟨lo, hi, h1, h2, ?_, ?_, h5⟩
      · rw [List.getElem?_append_left (by omega)]; exact h3
      · rw [List.getElem?_append_left (by omega)]; exact h4
    · rw [List.getElem?_append_right (by omega)] at hp
      have hm' : m = s.pieces.length := by
        by_cases h : m = s.pieces.length
        · exact h
        · have : m - s.pieces.length = (m - s.pieces.length - 1) + 1 := by omega
          rw [this] at hp; simp at hp
      subst hm'
      simp at hp
      subst hp
      have hi1 : s.i - 1 < a.length := by omega
      refine ⟨a[s.i - 1], ai, List.getElem?_eq_getElem hi1, ?_, ?_, ?_, ?_, hlow_new, (by show new ≤ ai; omega), rfl⟩
      · show a[s.i - 1 + 1]? = some ai
        have : s.i - 1 + 1 = s.i := by omega
        rw [this]; exact hai
      · show (s.c ++ [new])[s.pieces.length]? = some s.low
        rw [List.getElem?_append_left (by omega)]; exact hinv.clast
      · show (s.c ++ [new])[s.pieces.length + 1]? = some new
        rw [List.getElem?_append_right (by omega)]
        simp [hclen]
      · exact hinv.a_lo _ (List.getElem?_eq_getElem hi1)
  · show ∀ j'' x, j'' < j' → b[j'']? = some x →
      ∃ m, m ≤ (s.pieces ++ [(⟨s.i - 1, s.low, new, false⟩ : Slice)]).length ∧ (s.c ++ [new])[m]? = some x
    intro j'' x hlt hx
    by_cases hold : j'' < s.j
    · obtain ⟨m, hm, hcm⟩ := hinv.b_in j'' x hold hx
      refine ⟨m, by simp; omega, ?_⟩
      rw [List.getElem?_append_left (by omega)]; exact hcm
    · rcases hj' with ⟨h1, rfl⟩ | ⟨h1, rfl⟩
      · have : j'' = s.j := by omega
        subst this
        rw [hbj] at hx; cases hx
        refine ⟨s.pieces.length + 1, by simp, ?_⟩
        rw [List.getElem?_append_right (by omega)]
        have : new = bj := by omega
        simp [hclen, this]
      · omega

theorem advJ_strict {a : List Int} (ha : isStrictSorted a = true) {i : Nat} {ai : Int} (hai : a[i]? = some ai) :
    advJ a i ai = true := by
  unfold advJ
  cases hx : a[i+1]? with
  | none => rfl
  | some x => simp; exact strict_lt ha (Nat.lt_succ_self i) hai hx

theorem phase1_spec {a b : List Int} {a0 an : Int} (ha : isStrictSorted a = true) (hb : isStrictSorted b = true)
    (han : a.getLast? = some an) (hbn : b.getLast? = some an) :
    ∀ (fuel : Nat) (s : P1), Inv1 a b a0 an s → (a.length - s.i) + (b.length - s.j) < fuel →
      ∃ s', phase1 a b fuel s = .ok s' ∧ Inv1 a b a0 an s' ∧ (a[s'.i]? = none ∨ b[s'.j]? = none) := by
  intro fuel
  induction fuel with
  | zero => intro s _ h; omega
  | succ fuel ih =>
    intro s hinv hfuel
    unfold phase1
    cases hai : a[s.i]? with
    | none => exact ⟨s, rfl, hinv, Or.inl hai⟩
    | some ai =>
      cases hbj : b[s.j]? with
      | none => exact ⟨s, rfl, hinv, Or.inr hbj⟩
      | some bj =>
        have hil : s.i < a.length := (List.getElem?_eq_some_iff.mp hai).1
        have hjl : s.j < b.length := (List.getElem?_eq_some_iff.mp hbj).1
        simp only
        by_cases h1 : ai < bj
        · simp only [h1, if_true]
          apply ih
          · exact inv1_step ha hb han hbn hinv hai hbj (s.i + 1) s.j ai (Or.inl ⟨by omega, rfl⟩)
              (Or.inr ⟨h1, rfl⟩) (by omega)
          · show a.length - (s.i + 1) + (b.length - s.j) < fuel
            omega
        · by_cases h2 : ai > bj
          · simp only [h1, h2, if_true, if_false]
            apply ih
            · exact inv1_step ha hb han hbn hinv hai hbj s.i (s.j + 1) bj (Or.inr ⟨by omega, rfl⟩)
                (Or.inl ⟨by omega, rfl⟩) (by omega)
            · show a.length - s.i + (b.length - (s.j + 1)) < fuel
              omega
          · simp only [h1, h2, if_false, advJ_strict ha hai, if_true]
            apply ih
            · exact inv1_step ha hb han hbn hinv hai hbj (s.i + 1) (s.j + 1) bj (Or.inl ⟨by omega, rfl⟩)
                (Or.inl ⟨by omega, rfl⟩) (by omega)
            · show a.length - (s.i + 1) + (b.length - (s.j + 1)) < fuel
              omega

theorem inv1_init {a b : List Int} {a0 an : Int} (ha : isStrictSorted a = true) (hb : isStrictSorted b = true)
    (hla : 2 ≤ a.length) (hlb : 2 ≤ b.length) (ha0 : a[0]? = some a0) (hb0 : b[0]? = some a0)
    (han : a.getLast? = some an) :
    Inv1 a b a0 an ⟨1, 1, a0, [a0], []⟩ := by
  rw [List.getLast?_eq_getElem?] at han
  constructor
  · show 1 ≤ 1; omega
  · show 1 ≤ 1; omega
  · show 1 ≤ a.length; omega
  · show 1 ≤ b.length; omega
  · rfl
  · rfl
  · rfl
  · intro x hx
    simp only [Nat.sub_self] at hx
    rw [ha0] at hx; cases hx; exact Int.le_refl _
  · intro x hx
    exact strict_lt ha (by omega : 0 < 1) ha0 hx
  · intro x hx
    simp only [Nat.sub_self] at hx
    rw [hb0] at hx; cases hx; exact Int.le_refl _
  · intro x hx
    exact strict_lt hb (by omega : 0 < 1) hb0 hx
  · exact strict_le ha (by omega) ha0 han
  · intro m p hp; simp at hp
  · intro j' x hj hx
    have : j' = 0 := by
      have : j' < 1 := hj
      omega
    subst this
    rw [hb0] at hx; cases hx
    exact ⟨0, by simp, rfl⟩

/-! ### the merged boundary list after phase 1 (`c` with `a[-1]` appended) -/

/-- facts about the final list `c` (length `k+2`) and the `k` pieces (before the last one is made inclusive) -/
structure CFacts (a b : List Int) (a0 an : Int) (c : List Int) (ps : List Slice) : Prop where
  clen : c.length = ps.length + 2
  ck : c[ps.length]? = some an
  ck1 : c[ps.length + 1]? = some an
  c0 : c[0]? = some a0
  pieces : ∀ m p, ps[m]? = some p → PieceAt a c p m
  b_in : ∀ (j : Nat) (x : Int), b[j]? = some x → ∃ m, m ≤ ps.length ∧ c[m]? = some x

theorem cfacts_of_inv1 {a b : List Int} {a0 an : Int} (hb : isStrictSorted b = true)
    (han : a.getLast? = some an) (hbn : b.getLast? = some an)
    {s : P1} (hinv : Inv1 a b a0 an s) (hexit : a[s.i]? = none ∨ b[s.j]? = none) :
    s.low = an ∧ CFacts a b a0 an (s.c ++ [an]) s.pieces := by
  rw [List.getLast?_eq_getElem?] at han hbn
  have hip := hinv.i_pos
  have hjp := hinv.j_pos
  have hlow : s.low = an := by
    have hle := hinv.low_le
    rcases hexit with h | h
    · have : a.length ≤ s.i := by
        by_cases hc : s.i < a.length
        · rw [List.getElem?_eq_getElem hc] at h; cases h
        · omega
      have hi : s.i = a.length := by have := hinv.i_le; omega
      have := hinv.a_lo an (by rw [hi]; exact han)
      omega
    · have : b.length ≤ s.j := by
        by_cases hc : s.j < b.length
        · rw [List.getElem?_eq_getElem hc] at h; cases h
        · omega
      have hj : s.j = b.length := by have := hinv.j_le; omega
      have := hinv.b_lo an (by rw [hj]; exact hbn)
      omega
  -- all of b has been consumed
  have hjall : ∀ j x, b[j]? = some x → j < s.j := by
    intro j x hx
    by_cases hc : j < s.j
    · exact hc
    · exfalso
      have hjl : j < b.length := (List.getElem?_eq_some_iff.mp hx).1
      have hsj : s.j < b.length := by omega
      have h1 := hinv.b_hi _ (List.getElem?_eq_getElem hsj)
      have h2 : b[s.j] ≤ an := strict_le hb (by omega) (List.getElem?_eq_getElem hsj) hbn
      omega
  have hclen := hinv.clen
  refine ⟨hlow, ?_⟩
  constructor
  · simp; omega
  · rw [List.getElem?_append_left (by omega), hinv.clast, hlow]
  · rw [List.getElem?_append_right (by omega)]
    simp [hclen]
  · rw [List.getElem?_append_left (by omega)]; exact hinv.c0
  · intro m p hp
    have hm : m < s.pieces.length := (List.getElem?_eq_some_iff.mp hp).1
    obtain ⟨lo, hi, h1, h2, h3, h4, h5⟩ := hinv.pieces m p hp
    refine ⟨lo, hi, h1, h2, ?_, ?_, h5⟩
    · rw [List.getElem?_append_left (by omega)]; exact h3
    · rw [List.getElem?_append_left (by omega)]; exact h4
  · intro j x hx
    obtain ⟨m, hm, hcm⟩ := hinv.b_in j x (hjall j x hx) hx
    refine ⟨m, hm, ?_⟩
    rw [List.getElem?_append_left (by omega)]; exact hcm

theorem cfacts_step {a b : List Int} {a0 an : Int} {c : List Int} {ps : List Slice} (hf : CFacts a b a0 an c ps)
    {m : Nat} (hm : m < ps.length) {x y : Int} (hx : c[m]? = some x) (hy : c[m+1]? = some y) : x < y := by
  obtain ⟨lo, hi, _, _, h3, h4, _, h6, _⟩ := hf.pieces m ps[m] (List.getElem?_eq_getElem hm)
  rw [hx] at h3; rw [hy] at h4
  cases h3; cases h4
  exact h6

theorem cfacts_lt {a b : List Int} {a0 an : Int} {c : List Int} {ps : List Slice} (hf : CFacts a b a0 an c ps) :
    ∀ (d m1 : Nat) (x y : Int), m1 + d + 1 ≤ ps.length → c[m1]? = some x → c[m1 + d + 1]? = some y → x < y := by
  intro d
  induction d with
  | zero =>
    intro m1 x y h hx hy
    exact cfacts_step hf (by omega) hx hy
  | succ d ih =>
    intro m1 x y h hx hy
    have hlen := hf.clen
    have hz : c[m1 + d + 1]? = some c[m1 + d + 1] := List.getElem?_eq_getElem (by omega)
    have h1 := ih m1 x _ (by omega) hx hz
    have h2 := cfacts_step hf (m := m1 + d + 1) (by omega) hz (by simpa [Nat.add_assoc] using hy)
    omega

theorem cfacts_lt' {a b : List Int} {a0 an : Int} {c : List Int} {ps : List Slice} (hf : CFacts a b a0 an c ps)
    {m1 m2 : Nat} {x y : Int} (h12 : m1 < m2) (h2 : m2 ≤ ps.length) (hx : c[m1]? = some x) (hy : c[m2]? = some y) :
    x < y := by
  have : m2 = m1 + (m2 - m1 - 1) + 1 := by omega
  rw [this] at hy
  exact cfacts_lt hf (m2 - m1 - 1) m1 x y (by omega) hx hy

theorem cfacts_le' {a b : List Int} {a0 an : Int} {c : List Int} {ps : List Slice} (hf : CFacts a b a0 an c ps)
    {m1 m2 : Nat} {x y : Int} (h12 : m1 ≤ m2) (h2 : m2 ≤ ps.length) (hx : c[m1]? = some x) (hy : c[m2]? = some y) :
    x ≤ y := by
  by_cases he : m1 = m2
  · subst he; rw [hx] at hy; cases hy; exact Int.le_refl _
  · exact Int.le_of_lt (cfacts_lt' hf (by omega) h2 hx hy)

theorem cfacts_kpos {a b : List Int} {a0 an : Int} {c : List Int} {ps : List Slice} (hf : CFacts a b a0 an c ps)
    (h : a0 < an) : 1 ≤ ps.length := by
  by_cases hk : ps.length = 0
  · have h0 := hf.c0
    have hk' := hf.ck
    rw [hk] at hk'
    rw [h0] at hk'
    cases hk'
    omega
  · omega

/-! ### phase 2 (regrouping the pieces along the new divisions) -/

theorem inner1_spec (c : List Int) (bj : Int) : ∀ (n i : Nat) (tmp : List Nat) (fuel : Nat),
    (∀ m, i ≤ m → m < i + n → ∃ x, c[m]? = some x ∧ x < bj) → (∃ x, c[i+n]? = some x ∧ ¬ x < bj) → n < fuel →
    inner1 c bj fuel i tmp = .ok (i + n, tmp ++ List.range' i n) := by
  intro n
  induction n with
  | zero =>
    intro i tmp fuel _ hstop hf
    obtain ⟨x, hx, hnx⟩ := hstop
    cases fuel with
    | zero => omega
    | succ f =>
      unfold inner1
      simp only [Nat.add_zero] at hx
      simp [hx, hnx]
  | succ n ih =>
    intro i tmp fuel hgo hstop hf
    cases fuel with
    | zero => omega
    | succ f =>
      obtain ⟨x, hx, hlt⟩ := hgo i (Nat.le_refl _) (by omega)
      unfold inner1
      simp only [hx, hlt, if_true]
      rw [ih (i+1) (tmp ++ [i]) f (fun m h1 h2 => hgo m (by omega) (by omega))
        (by have : i + 1 + n = i + (n + 1) := by omega
            rw [this]; exact hstop) (by omega)]
      have : i + 1 + n = i + (n + 1) := by omega
      rw [this, List.range'_succ, List.append_assoc]
      rfl

theorem inner2_noop (c : List Int) (bn : Int) (cond : Bool) (k : Nat) (f i : Nat) (tmp : List Nat) (ci : Int)
    (hci : c[i]? = some ci) (hno : i < k → ci ≠ bn) :
    inner2 c bn cond k (f+1) i tmp = .ok (i, tmp) := by
  unfold inner2
  simp only [hci]
  by_cases hik : i < k
  · have := hno hik
    simp [this]
  · simp [hik]

/-- shape of the regrouping: output for `bj` takes the pieces `[i, i')` where `c[i'] = bj` -/
inductive Groups (c : List Int) (k : Nat) : Nat → List Int → List (List Nat) → Prop
  | nil : Groups c k k [] []
  | cons (i i' : Nat) (bj : Int) (rest : List Int) (outs : List (List Nat)) :
      i < i' → i' ≤ k → c[i']? = some bj → Groups c k i' rest outs →
      Groups c k i (bj :: rest) (List.range' i (i' - i) :: outs)

theorem phase2_spec {a b : List Int} {a0 an : Int} {c : List Int} {ps : List Slice} (hf : CFacts a b a0 an c ps)
    (bp : Int) (blen : Nat) :
    ∀ (rest : List Int) (j i : Nat) (outs : List (List Nat)) (bprev : Int),
      i ≤ ps.length → c[i]? = some bprev → isStrictSorted (bprev :: rest) = true →
      (∀ x ∈ rest, ∃ m, m ≤ ps.length ∧ c[m]? = some x) → (bprev :: rest).getLast? = some an →
      ∃ outs', phase2 c ps.length true bp an blen rest j i outs = .ok (outs ++ outs') ∧
        Groups c ps.length i rest outs' := by
  intro rest
  induction rest with
  | nil =>
    intro j i outs bprev hik hci _ _ hlast
    simp at hlast
    subst hlast
    have hi : i = ps.length := by
      by_cases h : i = ps.length
      · exact h
      · exfalso
        have := cfacts_lt' hf (show i < ps.length by omega) (Nat.le_refl _) hci hf.ck
        omega
    subst hi
    exact ⟨[], by simp [phase2], Groups.nil⟩
  | cons bj rest ih =>
    intro j i outs bprev hik hci hstrict hin hlast
    have ⟨hlt, hstrict'⟩ := isStrictSorted_cons.mp hstrict
    obtain ⟨i', hi'k, hci'⟩ := hin bj (by simp)
    have hclen := hf.clen
    have hii' : i < i' := by
      by_cases h : i < i'
      · exact h
      · exfalso
        have := cfacts_le' hf (show i' ≤ i by omega) hik hci' hci
        omega
    have hinner1 : inner1 c bj (c.length + 1) i [] = .ok (i', List.range' i (i' - i)) := by
      have := inner1_spec c bj (i' - i) i [] (c.length + 1)
        (fun m h1 h2 => ⟨c[m]'(by omega), List.getElem?_eq_getElem (by omega),
          cfacts_lt' hf (show m < i' by omega) hi'k (List.getElem?_eq_getElem (by omega)) hci'⟩)
        ⟨bj, by rw [show i + (i' - i) = i' by omega]; exact hci', by omega⟩ (by omega)
      rw [this, show i + (i' - i) = i' by omega]
      simp
    have hinner2 : inner2 c an (an != bp || j == blen - 1) ps.length (ps.length + 1) i' (List.range' i (i' - i)) =
        .ok (i', List.range' i (i' - i)) := by
      apply inner2_noop c an _ ps.length ps.length i' _ bj hci'
      intro hlt'
      have := cfacts_lt' hf hlt' (Nat.le_refl _) hci' hf.ck
      omega
    unfold phase2
    simp only [hinner1, if_true, hinner2]
    obtain ⟨outs', hrun, hg⟩ := ih (j+1) i' (outs ++ [List.range' i (i' - i)]) bj hi'k hci' hstrict'
      (fun x hx => hin x (by simp [hx])) (by rw [List.getLast?_cons_cons] at hlast; exact hlast)
    refine ⟨List.range' i (i' - i) :: outs', ?_, Groups.cons i i' bj rest outs' hii' hi'k hci' hg⟩
    rw [hrun, List.append_assoc]
    rfl

/-! ### from the regrouping to the validator -/

/-- doubled end points of the final pieces: `2·c[m]`, `+1` at the (inclusive) right end `m = k` -/
def fin (c : List Int) (k m : Nat) : Int := 2 * c.getD m 0 + (if m = k then 1 else 0)

theorem fin_of {c : List Int} {k m : Nat} {x : Int} (h : c[m]? = some x) :
    fin c k m = 2 * x + (if m = k then 1 else 0) := by
  simp [fin, List.getD_eq_getElem?_getD, h]

/-- the pieces after `d[(out1, k-1)] = … + (True,)` -/
def lastIncl (ps : List Slice) : List Slice :=
  match ps.getLast? with
  | none => ps
  | some p => ps.dropLast ++ [{ p with incl := true }]

theorem setLastIncl_ok {ps : List Slice} (h : 1 ≤ ps.length) : setLastIncl ps = .ok (lastIncl ps) := by
  unfold setLastIncl lastIncl
  obtain ⟨p, hp⟩ := getLast?_of_length ps h
  simp [hp]

theorem lastIncl_length (ps : List Slice) : (lastIncl ps).length = ps.length := by
  unfold lastIncl
  cases h : ps.getLast? with
  | none => rfl
  | some p =>
    have : ps ≠ [] := by intro hn; subst hn; simp at h
    have : 1 ≤ ps.length := by
      cases ps with
      | nil => contradiction
      | cons _ _ => simp
    simp; omega

theorem lastIncl_get (ps : List Slice) (m : Nat) (p : Slice) (hp : ps[m]? = some p) :
    (lastIncl ps)[m]? = some (if m + 1 = ps.length then { p with incl := true } else p) := by
  have hm : m < ps.length := (List.getElem?_eq_some_iff.mp hp).1
  unfold lastIncl
  obtain ⟨q, hq⟩ := getLast?_of_length ps (by omega)
  simp only [hq]
  by_cases hlast : m + 1 = ps.length
  · simp only [hlast, if_true]
    rw [List.getElem?_append_right (by simp; omega)]
    rw [List.getLast?_eq_getElem?] at hq
    have : ps.length - 1 = m := by omega
    rw [this, hp] at hq
    cases hq
    have h0 : m - ps.dropLast.length = 0 := by simp; omega
    rw [h0]
    rfl
  · simp only [hlast, if_false]
    rw [List.getElem?_append_left (by simp; omega), List.getElem?_dropLast]
    have : m < ps.length - 1 := by omega
    simp [this, hp]

theorem eff_piece {a b : List Int} {a0 an : Int} {c : List Int} {ps : List Slice} (hf : CFacts a b a0 an c ps)
    (ha : isStrictSorted a = true) (han : a.getLast? = some an)
    (m : Nat) (q : Slice) (hq : (lastIncl ps)[m]? = some q) :
    effIv a q = some (fin c ps.length m, fin c ps.length (m+1)) ∧ fin c ps.length m < fin c ps.length (m+1) := by
  have hm : m < ps.length := by
    have := (List.getElem?_eq_some_iff.mp hq).1
    rw [lastIncl_length] at this
    exact this
  have hp : ps[m]? = some ps[m] := List.getElem?_eq_getElem hm
  rw [lastIncl_get ps m _ hp] at hq
  obtain ⟨lo, hi, h1, h2, h3, h4, h5, h6, h7, h8⟩ := hf.pieces m ps[m] hp
  rw [fin_of h3, fin_of h4]
  rw [List.getLast?_eq_getElem?] at han
  by_cases hlast : m + 1 = ps.length
  · simp only [hlast, if_true, Option.some.injEq] at hq
    subst hq
    have hmk : ¬ m = ps.length := by omega
    -- p.hi = c[k] = an, hence the slice comes from the last input partition
    have hhi_an : (ps[m]).hi = an := by
      have := hf.ck
      rw [← hlast, h4] at this
      cases this; rfl
    have hi1 : ps[m].i + 1 < a.length := (List.getElem?_eq_some_iff.mp h2).1
    have hhile : hi ≤ an := strict_le ha (by omega) h2 han
    have hlasti : ps[m].i + 2 = a.length := by
      by_cases hc : ps[m].i + 2 = a.length
      · exact hc
      · exfalso
        have := strict_lt ha (show ps[m].i + 1 < a.length - 1 by omega) h2 han
        omega
    refine ⟨?_, by simp only [hmk, hlast, if_true, if_false]; omega⟩
    unfold effIv
    simp only [h1, h2, hlasti, if_true, hmk, hlast, if_false, Option.some.injEq, Prod.mk.injEq]
    constructor <;> omega
  · simp only [hlast, if_false, Option.some.injEq] at hq
    subst hq
    have hmk : ¬ m = ps.length := by omega
    have hmk1 : ¬ m + 1 = ps.length := hlast
    refine ⟨?_, by simp only [hmk, hmk1, if_false]; omega⟩
    unfold effIv
    simp only [h1, h2, h8, Bool.false_eq_true, if_false, hmk, hmk1, Option.some.injEq, Prod.mk.injEq]
    constructor
    · omega
    · split <;> omega

theorem chain_indexed (a : List Int) : ∀ (qs : List Slice) (f : Nat → Int),
    (∀ m q, qs[m]? = some q → effIv a q = some (f m, f (m+1)) ∧ f m < f (m+1)) →
    chain a (f 0) qs = some (f qs.length) := by
  intro qs
  induction qs with
  | nil => intro f _; rfl
  | cons q t ih =>
    intro f h
    have ⟨he, hlt⟩ := h 0 q rfl
    unfold chain
    simp only [he, hlt, if_true]
    have := ih (fun m => f (m+1)) (fun m q' hq' => h (m+1) q' (by simpa using hq'))
    simpa using this

theorem filterMap_range_getElem? {α} : ∀ (l : List α), (List.range l.length).filterMap (fun m => l[m]?) = l := by
  intro l
  induction l with
  | nil => rfl
  | cons x t ih =>
    rw [List.length_cons, List.range_succ_eq_map, List.filterMap_cons]
    simp only [List.getElem?_cons_zero, List.filterMap_map]
    have : ((fun m => (x :: t)[m]?) ∘ Nat.succ) = (fun m => t[m]?) := by
      funext m; simp
    rw [this, ih]

theorem flatten_map_filterMap {α β} (f : α → Option β) : ∀ (L : List (List α)),
    (L.map (fun l => l.filterMap f)).flatten = L.flatten.filterMap f := by
  intro L
  induction L with
  | nil => rfl
  | cons l t ih => simp only [List.map_cons, List.flatten_cons, List.filterMap_append, ih]

theorem groups_le {c : List Int} {k i : Nat} {rest : List Int} {outs : List (List Nat)}
    (h : Groups c k i rest outs) : i ≤ k := by
  induction h with
  | nil => exact Nat.le_refl _
  | cons i i' bj rest outs h1 h2 _ _ _ => omega

theorem groups_len {c : List Int} {k i : Nat} {rest : List Int} {outs : List (List Nat)}
    (h : Groups c k i rest outs) : outs.length = rest.length := by
  induction h with
  | nil => rfl
  | cons i i' bj rest outs _ _ _ _ ih => simp [ih]

theorem groups_flat {c : List Int} {k i : Nat} {rest : List Int} {outs : List (List Nat)}
    (h : Groups c k i rest outs) : outs.flatten = List.range' i (k - i) := by
  induction h with
  | nil => simp
  | cons i i' bj rest outs h1 h2 _ hg ih =>
    rw [List.flatten_cons, ih]
    have := @List.range'_append i (i' - i) (k - i') 1
    rw [show i + 1 * (i' - i) = i' by omega, show i' - i + (k - i') = k - i by omega] at this
    exact this

theorem groups_mem {c : List Int} {k i : Nat} {rest : List Int} {outs : List (List Nat)}
    (h : Groups c k i rest outs) : ∀ tmp ∈ outs, tmp.isEmpty = false ∧ ∀ m ∈ tmp, m < k := by
  induction h with
  | nil => intro tmp ht; cases ht
  | cons i i' bj rest outs h1 h2 _ hg ih =>
    intro tmp ht
    cases ht with
    | head =>
      refine ⟨?_, ?_⟩
      · have : i' - i = (i' - i - 1) + 1 := by omega
        rw [this, List.range'_succ]; rfl
      · intro m hm
        have := List.mem_range'_1.mp hm
        omega
    | tail _ ht' => exact ih tmp ht'

theorem strict_last_index {b : List Int} (hb : isStrictSorted b = true) {bn : Int} (hbn : b.getLast? = some bn)
    {j : Nat} (hj : b[j]? = some bn) : j + 1 = b.length := by
  rw [List.getLast?_eq_getElem?] at hbn
  have hjl : j < b.length := (List.getElem?_eq_some_iff.mp hj).1
  by_cases hc : j + 1 = b.length
  · exact hc
  · exfalso
    have := strict_lt hb (show j < b.length - 1 by omega) hj hbn
    omega

theorem groups_bounds {a b : List Int} {a0 an : Int} {c : List Int} {ps : List Slice} (hf : CFacts a b a0 an c ps)
    (hb : isStrictSorted b = true) (hbn : b.getLast? = some an) (qs : List Slice)
    (heff : ∀ m q, qs[m]? = some q →
      effIv a q = some (fin c ps.length m, fin c ps.length (m+1)) ∧ fin c ps.length m < fin c ps.length (m+1)) :
    ∀ (i : Nat) (rest : List Int) (outs : List (List Nat)), Groups c ps.length i rest outs →
      ∀ (j : Nat) (bprev : Int), b.drop j = bprev :: rest → c[i]? = some bprev →
        boundsOK a b j (outs.map (fun tmp => tmp.filterMap (fun m => qs[m]?))) = true := by
  intro i rest outs h
  induction h with
  | nil => intro j bprev _ _; rfl
  | cons i i' bj rest outs h1 h2 hci' hg ih =>
    intro j bprev hdrop hci
    have hclen := hf.clen
    have hbj0 : b[j]? = some bprev := by
      have := @List.getElem?_drop Int b j 0
      rw [hdrop] at this
      simpa using this.symm
    have hbj1 : b[j+1]? = some bj := by
      have := @List.getElem?_drop Int b j 1
      rw [hdrop] at this
      simpa using this.symm
    have hdrop' : b.drop (j+1) = bj :: rest := by
      rw [← List.tail_drop, hdrop]; rfl
    simp only [List.map_cons, boundsOK, hbj0, hbj1, Bool.and_eq_true]
    refine ⟨?_, ih (j+1) bj hdrop' hci'⟩
    unfold withinB
    rw [List.all_eq_true]
    intro q hq
    obtain ⟨m, hm, hqm⟩ := List.mem_filterMap.mp hq
    have ⟨hm1, hm2⟩ := List.mem_range'_1.mp hm
    have hmi' : m < i' := by omega
    have ⟨he, hlt⟩ := heff m q hqm
    simp only [he]
    have hcm : c[m]? = some c[m] := List.getElem?_eq_getElem (by omega)
    have hcm1 : c[m+1]? = some c[m+1] := List.getElem?_eq_getElem (by omega)
    have hlo : bprev ≤ c[m] := cfacts_le' hf hm1 (by omega) hci hcm
    have hhi : c[m+1] ≤ bj := cfacts_le' hf (show m + 1 ≤ i' by omega) h2 hcm1 hci'
    rw [fin_of hcm, fin_of hcm1] at hlt ⊢
    have hmk : ¬ m = ps.length := by omega
    simp only [hmk, if_false] at hlt ⊢
    have hright : 2 * c[m+1] + (if m + 1 = ps.length then 1 else 0) ≤
        2 * bj + (if j + 2 = b.length then 1 else 0) := by
      by_cases hk : m + 1 = ps.length
      · -- the last piece: i' = k, bj = an is the last new division
        have hi'k : i' = ps.length := by omega
        have hbjan : bj = an := by
          have := hf.ck
          rw [← hi'k, hci'] at this
          cases this; rfl
        have := strict_last_index hb hbn (by rw [hbjan] at hbj1; exact hbj1)
        have hj2 : j + 2 = b.length := by omega
        rw [if_pos hk, if_pos hj2]
        omega
      · rw [if_neg hk]
        split <;> omega
    simp only [Bool.or_eq_true, Bool.not_eq_true', decide_eq_false_iff_not, Bool.and_eq_true, decide_eq_true_eq]
    exact Or.inr ⟨by omega, hright⟩

theorem planOf_groups {c : List Int} {k i : Nat} {rest : List Int} {outs : List (List Nat)}
    (hg : Groups c k i rest outs) (qs : List Slice) (a0 : Int) :
    planOf ⟨qs, outs, a0⟩ = outs.map (fun tmp => tmp.filterMap (fun m => qs[m]?)) := by
  unfold planOf
  apply List.map_congr_left
  intro tmp ht
  have := (groups_mem hg tmp ht).1
  simp [this]

/-- Strictly increasing old and new divisions with equal end points: the planner succeeds and its plan
    passes the validator. -/
theorem planner_strict (a b : List Int) (force : Bool)
    (ha : isStrictSorted a = true) (hb : isStrictSorted b = true)
    (hla : 2 ≤ a.length) (hlb : 2 ≤ b.length)
    (h0 : a.head? = b.head?) (hn : a.getLast? = b.getLast?) :
    ∃ st, planner a b force = .ok st ∧ closedOK st = true ∧ planOK a b (planOf st) = true := by
  obtain ⟨a0, ha0⟩ := head?_of_length a (by omega)
  obtain ⟨an, han⟩ := getLast?_of_length a (by omega)
  cases b with
  | nil => simp at hlb
  | cons b0 bt =>
    have hb0 : b0 = a0 := by rw [ha0] at h0; simp at h0; exact h0.symm
    subst hb0
    have hbn : (b0 :: bt).getLast? = some an := by rw [← hn]; exact han
    obtain ⟨bp, bn, hl2, hbn', _⟩ := last2_of_length (b0 :: bt) hlb
    rw [hbn] at hbn'
    cases hbn'
    have hbpn : bp < an := last2_strict hb hl2
    have ha0' : a[0]? = some b0 := by rw [← List.head?_eq_getElem?]; exact ha0
    have han' : a[a.length - 1]? = some an := by rw [← List.getLast?_eq_getElem?]; exact han
    have ha0an : b0 < an := strict_lt ha (show 0 < a.length - 1 by omega) ha0' han'
    -- phase 1
    obtain ⟨s1, hp1, hinv1, hexit⟩ := phase1_spec ha hb han hbn (a.length + (b0 :: bt).length + 1) ⟨1, 1, b0, [b0], []⟩
      (inv1_init ha hb hla hlb ha0' rfl han) (by simp only [List.length_cons]; omega)
    have ⟨hlow, hf⟩ := cfacts_of_inv1 hb han hbn hinv1 hexit
    have hk := cfacts_kpos hf ha0an
    -- phase 2
    obtain ⟨outs, hp2, hg⟩ := phase2_spec hf bp (b0 :: bt).length bt 1 0 [] b0 (by omega) hf.c0 hb
      (fun x hx => by
        obtain ⟨j, hj, hjx⟩ := List.mem_iff_getElem.mp hx
        exact hf.b_in (j+1) x (by rw [List.getElem?_cons_succ, List.getElem?_eq_getElem hj, hjx]))
      hbn
    simp only [List.nil_append] at hp2
    have hqlen := lastIncl_length s1.pieces
    refine ⟨⟨lastIncl s1.pieces, outs, b0⟩, ?_, ?_, ?_⟩
    · -- the planner computes exactly this state
      have hclast : s1.c.getLast? = some an := by
        rw [List.getLast?_eq_getElem?, hinv1.clen, Nat.add_sub_cancel, hinv1.clast, hlow]
      have hsl : isSingleLastDiv (s1.c ++ [an]) = true := by
        rw [isSingleLastDiv_snoc, hclast]; simp
      have hb2 : ¬ (b0 :: bt).length < 2 := by omega
      have ha2 : ¬ a.length < 2 := by omega
      have hgf : guardFails force b0 an b0 an = false := by
        unfold guardFails; cases force <;> simp
      have hcond : (decide (an < an) || an == bp) = false := by
        have : ¬ an = bp := by omega
        simp [this]
      unfold planner
      simp only [hb2, ha2, if_false, ha0, han, List.head?_cons, hl2, hgf, Bool.false_eq_true, hp1, hcond,
        isSingleLastDiv_strict ha, setLastIncl_ok hk, hsl, hqlen, List.drop_succ_cons, List.drop_zero, hp2]
    · -- closed
      unfold closedOK
      simp only [List.all_eq_true, decide_eq_true_eq]
      intro tmp ht m hm
      rw [hqlen]
      exact (groups_mem hg tmp ht).2 m hm
    · -- the validator accepts
      have heff := fun m q hq => eff_piece hf ha han m q hq
      have hplan := planOf_groups hg (lastIncl s1.pieces) b0
      have hflat : (planOf ⟨lastIncl s1.pieces, outs, b0⟩).flatten = lastIncl s1.pieces := by
        rw [hplan, flatten_map_filterMap, groups_flat hg, Nat.sub_zero, ← List.range_eq_range', ← hqlen]
        exact filterMap_range_getElem? _
      have hchain : chain a (2 * b0) (lastIncl s1.pieces) = some (2 * an + 1) := by
        have := chain_indexed a (lastIncl s1.pieces) (fin (s1.c ++ [an]) s1.pieces.length) heff
        rw [fin_of hf.c0, hqlen, fin_of hf.ck] at this
        have hk0 : ¬ 0 = s1.pieces.length := by omega
        simpa [hk0] using this
      have hbounds := groups_bounds hf hb hbn (lastIncl s1.pieces) heff 0 bt outs hg 0 b0 rfl hf.c0
      unfold planOK
      simp only [Bool.and_eq_true, decide_eq_true_eq]
      refine ⟨⟨⟨strict_isSorted _ hb, ?_⟩, ?_⟩, ?_⟩
      · rw [hplan, List.length_map, groups_len hg]; rfl
      · simp only [ha0, han, hflat, hchain, beq_self_eq_true]
      · rw [hplan]; exact hbounds

end Dx.Repartition
