/-
  Lemmas/RepartitionPlanner.lean — facts about the model of RepartitionDivisions._layer (`planner`):
  rejection of uncovered requests, no spurious rejection, and the loop invariants showing that for strictly
  increasing old/new divisions with equal end points the emitted plan passes the validator.
-/
import DxModel.Lemmas.RepartitionDiv
namespace Dx.Repartition
open Dx

/-! ### end points -/

theorem last2_of_length (b : List Int) (h : 2 ≤ b.length) :
    ∃ bp bn, last2 b = some (bp, bn) ∧ b.getLast? = some bn ∧ b[b.length - 2]? = some bp := by
  unfold last2
  have hlen : b.reverse.length = b.length := List.length_reverse
  have hrev : b = b.reverse.reverse := (List.reverse_reverse b).symm
  cases hr : b.reverse with
  | nil => rw [hr] at hlen; simp at hlen; omega
  | cons l t =>
    cases t with
    | nil => rw [hr] at hlen; simp at hlen; omega
    | cons l2 t' =>
      refine ⟨l2, l, rfl, ?_, ?_⟩
      · rw [← List.head?_reverse, hr]; rfl
      · rw [hrev, hr]
        simp

theorem head?_of_length {α} (l : List α) (h : 1 ≤ l.length) : ∃ x, l.head? = some x := by
  cases l with
  | nil => simp at h
  | cons x _ => exact ⟨x, rfl⟩

theorem getLast?_of_length {α} (l : List α) (h : 1 ≤ l.length) : ∃ x, l.getLast? = some x := by
  rw [List.getLast?_eq_getElem?]
  exact ⟨l[l.length - 1], List.getElem?_eq_getElem (by omega)⟩

/-! ### rejection -/

theorem planner_rejects (a b : List Int) (force : Bool) (hla : 2 ≤ a.length)
    (h : covered a b force = false) : planner a b force = .error .value := by
  unfold planner
  by_cases hb : b.length < 2
  · simp [hb]
  · have hla' : ¬ a.length < 2 := by omega
    obtain ⟨a0, ha0⟩ := head?_of_length a (by omega)
    obtain ⟨an, han⟩ := getLast?_of_length a (by omega)
    obtain ⟨b0, hb0⟩ := head?_of_length b (by omega)
    obtain ⟨bp, bn, hl2, hbn, _⟩ := last2_of_length b (by omega)
    unfold covered at h
    simp only [ha0, han, hb0, hbn] at h
    have hg : guardFails force a0 an b0 bn = true := by
      have : decide (b.length ≥ 2) = true := by simp; omega
      simpa [this] using h
    simp [hb, hla', ha0, han, hb0, hl2, hg]

theorem phase1_no_value (a b : List Int) : ∀ (fuel : Nat) (s : P1) (e : PErr),
    phase1 a b fuel s = .error e → e = .fuel := by
  intro fuel
  induction fuel with
  | zero => intro s e h; simp [phase1] at h; exact h.symm
  | succ fuel ih =>
    intro s e h
    unfold phase1 at h
    split at h
    · split at h
      · exact ih _ e h
      · split at h
        · exact ih _ e h
        · exact ih _ e h
    · cases h

theorem inner1_no_value (c : List Int) (bj : Int) : ∀ (fuel i : Nat) (tmp : List Nat) (e : PErr),
    inner1 c bj fuel i tmp = .error e → e ≠ .value := by
  intro fuel
  induction fuel with
  | zero => intro i tmp e h; simp [inner1] at h; subst h; simp
  | succ fuel ih =>
    intro i tmp e h
    unfold inner1 at h
    split at h
    · cases h; simp
    · split at h
      · exact ih _ _ e h
      · cases h

theorem inner2_no_value (c : List Int) (bn : Int) (cond : Bool) (k : Nat) : ∀ (fuel i : Nat) (tmp : List Nat) (e : PErr),
    inner2 c bn cond k fuel i tmp = .error e → e ≠ .value := by
  intro fuel
  induction fuel with
  | zero => intro i tmp e h; simp [inner2] at h; subst h; simp
  | succ fuel ih =>
    intro i tmp e h
    unfold inner2 at h
    split at h
    · cases h; simp
    · split at h
      · exact ih _ _ e h
      · cases h

theorem phase2_no_value (c : List Int) (k : Nat) (le : Bool) (bp bn : Int) (blen : Nat) :
    ∀ (rest : List Int) (j i : Nat) (outs : List (List Nat)) (e : PErr),
      phase2 c k le bp bn blen rest j i outs = .error e → e ≠ .value := by
  intro rest
  induction rest with
  | nil => intro j i outs e h; simp [phase2] at h
  | cons bj rest ih =>
    intro j i outs e h
    unfold phase2 at h
    split at h
    · rename_i e' he'
      cases h
      exact inner1_no_value c bj _ _ _ _ he'
    · split at h
      · rename_i e' he'
        cases h
        split at he'
        · exact inner2_no_value c bn _ k _ _ _ _ he'
        · cases he'
      · exact ih _ _ _ e h

theorem planner_no_value_error (a b : List Int) (force : Bool)
    (h : covered a b force = true) : planner a b force ≠ .error .value := by
  unfold covered at h
  cases ha0 : a.head? with
  | none => simp [ha0] at h
  | some a0 =>
    cases han : a.getLast? with
    | none => simp [ha0, han] at h
    | some an =>
      cases hb0 : b.head? with
      | none => simp [ha0, han, hb0] at h
      | some b0 =>
        cases hbn : b.getLast? with
        | none => simp [ha0, han, hb0, hbn] at h
        | some bn =>
          simp only [ha0, han, hb0, hbn, Bool.and_eq_true, decide_eq_true_eq, Bool.not_eq_true'] at h
          obtain ⟨hlb, hg⟩ := h
          obtain ⟨bp, bn', hl2, hbn', _⟩ := last2_of_length b hlb
          rw [hbn] at hbn'
          cases hbn'
          unfold planner
          have hb : ¬ b.length < 2 := by omega
          simp only [hb, if_false]
          by_cases hla : a.length < 2
          · simp [hla]
          · simp only [hla, if_false, ha0, han, hb0, hl2, hg, Bool.false_eq_true]
            intro hcontra
            split at hcontra
            · rename_i e he
              cases hcontra
              have := phase1_no_value a b _ _ _ he
              cases this
            · split at hcontra
              · rename_i e he
                cases hcontra
                unfold setLastIncl at he
                split at he
                · cases he
                · cases he
              · split at hcontra
                · rename_i e he
                  cases hcontra
                  exact phase2_no_value _ _ _ _ _ _ _ _ _ _ _ he rfl
                · cases hcontra

/-! ### strictly sorted lists -/

theorem isStrictSorted_cons {a b : Int} {t : List Int} :
    isStrictSorted (a :: b :: t) = true ↔ a < b ∧ isStrictSorted (b :: t) = true := by
  simp [isStrictSorted]

theorem strict_pairwise : ∀ (l : List Int), isStrictSorted l = true → l.Pairwise (· < ·) := by
  intro l
  induction l with
  | nil => intro _; exact List.Pairwise.nil
  | cons a t ih =>
    intro h
    cases t with
    | nil => simp
    | cons b t' =>
      have ⟨hab, h'⟩ := isStrictSorted_cons.mp h
      have ht := ih h'
      rw [List.pairwise_cons]
      refine ⟨?_, ht⟩
      intro c hc
      cases hc with
      | head => exact hab
      | tail _ hc' =>
        have := (List.pairwise_cons.mp ht).1 c hc'
        omega

theorem strict_lt {l : List Int} (h : isStrictSorted l = true) {i j : Nat} {x y : Int} (hij : i < j)
    (hx : l[i]? = some x) (hy : l[j]? = some y) : x < y := by
  obtain ⟨hi, rfl⟩ := List.getElem?_eq_some_iff.mp hx
  obtain ⟨hj, rfl⟩ := List.getElem?_eq_some_iff.mp hy
  exact List.pairwise_iff_getElem.mp (strict_pairwise l h) i j hi hj hij

theorem strict_le {l : List Int} (h : isStrictSorted l = true) {i j : Nat} {x y : Int} (hij : i ≤ j)
    (hx : l[i]? = some x) (hy : l[j]? = some y) : x ≤ y := by
  by_cases he : i = j
  · subst he; rw [hx] at hy; cases hy; exact Int.le_refl _
  · exact Int.le_of_lt (strict_lt h (by omega) hx hy)

theorem strict_isSorted : ∀ (l : List Int), isStrictSorted l = true → isSorted l = true := by
  intro l
  induction l with
  | nil => intro _; rfl
  | cons a t ih =>
    intro h
    cases t with
    | nil => rfl
    | cons b t' =>
      have ⟨hab, h'⟩ := isStrictSorted_cons.mp h
      exact isSorted_cons.mpr ⟨by omega, ih h'⟩

theorem last2_strict {b : List Int} (h : isStrictSorted b = true) {bp bn : Int} (hl : last2 b = some (bp, bn)) :
    bp < bn := by
  have hlen : 2 ≤ b.length := by
    unfold last2 at hl
    have : b.reverse.length = b.length := List.length_reverse
    cases hr : b.reverse with
    | nil => simp [hr] at hl
    | cons l t =>
      cases t with
      | nil => simp [hr] at hl
      | cons l2 t' => rw [hr] at this; simp at this; omega
  obtain ⟨bp', bn', hl', hbn, hbp⟩ := last2_of_length b hlen
  rw [hl] at hl'
  cases hl'
  rw [List.getLast?_eq_getElem?] at hbn
  exact strict_lt h (by omega) hbp hbn

theorem isSingleLastDiv_eq (x : List Int) :
    isSingleLastDiv x = (match last2 x with | some (p, n) => n == p | none => false) := by
  unfold isSingleLastDiv last2
  cases x.reverse with
  | nil => rfl
  | cons l t =>
    cases t with
    | nil => rfl
    | cons l2 t' => rfl

theorem isSingleLastDiv_strict {a : List Int} (h : isStrictSorted a = true) : isSingleLastDiv a = false := by
  rw [isSingleLastDiv_eq]
  cases hl : last2 a with
  | none => rfl
  | some pn =>
    obtain ⟨p, n⟩ := pn
    have := last2_strict h hl
    simp
    omega

theorem isSingleLastDiv_snoc (c : List Int) (x : Int) :
    isSingleLastDiv (c ++ [x]) = (match c.getLast? with | some y => x == y | none => false) := by
  unfold isSingleLastDiv
  rw [List.reverse_append, ← List.head?_reverse]
  cases c.reverse with
  | nil => rfl
  | cons l t => rfl

/-! ### phase 1 (merging the two boundary lists) for strictly increasing divisions -/

/-- piece `p` is the `m`-th interval `[c[m], c[m+1])`, cut from an input partition whose range contains it -/
def PieceAt (a c : List Int) (p : Slice) (m : Nat) : Prop :=
  ∃ lo hi, a[p.i]? = some lo ∧ a[p.i + 1]? = some hi ∧ c[m]? = some p.lo ∧ c[m+1]? = some p.hi ∧
    lo ≤ p.lo ∧ p.lo < p.hi ∧ p.hi ≤ hi ∧ p.incl = false

structure Inv1 (a b : List Int) (a0 an : Int) (s : P1) : Prop where
  i_pos : 1 ≤ s.i
  j_pos : 1 ≤ s.j
  i_le : s.i ≤ a.length
  j_le : s.j ≤ b.length
  clen : s.c.length = s.pieces.length + 1
  clast : s.c[s.pieces.length]? = some s.low
  c0 : s.c[0]? = some a0
  a_lo : ∀ x, a[s.i - 1]? = some x → x ≤ s.low
  a_hi : ∀ x, a[s.i]? = some x → s.low < x
  b_lo : ∀ x, b[s.j - 1]? = some x → x ≤ s.low
  b_hi : ∀ x, b[s.j]? = some x → s.low < x
  low_le : s.low ≤ an
  pieces : ∀ m p, s.pieces[m]? = some p → PieceAt a s.c p m
  b_in : ∀ j' x, j' < s.j → b[j']? = some x → ∃ m, m ≤ s.pieces.length ∧ s.c[m]? = some x

theorem inv1_step {a b : List Int} {a0 an : Int} (ha : isStrictSorted a = true) (hb : isStrictSorted b = true)
    (han : a.getLast? = some an) (hbn : b.getLast? = some an)
    {s : P1} (hinv : Inv1 a b a0 an s) {ai bj : Int} (hai : a[s.i]? = some ai) (hbj : b[s.j]? = some bj)
    (i' j' : Nat) (new : Int)
    (hi' : (ai ≤ bj ∧ i' = s.i + 1) ∨ (bj < ai ∧ i' = s.i))
    (hj' : (bj ≤ ai ∧ j' = s.j + 1) ∨ (ai < bj ∧ j' = s.j))
    (hnew : new = min ai bj) :
    Inv1 a b a0 an { i := i', j := j', low := new, c := s.c ++ [new],
                     pieces := s.pieces ++ [⟨s.i - 1, s.low, new, false⟩] } := by
  have hil : s.i < a.length := (List.getElem?_eq_some_iff.mp hai).1
  have hjl : s.j < b.length := (List.getElem?_eq_some_iff.mp hbj).1
  have hlow_ai := hinv.a_hi ai hai
  have hlow_bj := hinv.b_hi bj hbj
  have hlow_new : s.low < new := by omega
  have hclen := hinv.clen
  have hip := hinv.i_pos
  have hjp := hinv.j_pos
  rw [List.getLast?_eq_getElem?] at han hbn
  have hai_an : ai ≤ an := strict_le ha (by omega) hai han
  have hbj_an : bj ≤ an := strict_le hb (by omega) hbj hbn
  constructor
  · show 1 ≤ i'; omega
  · show 1 ≤ j'; omega
  · show i' ≤ a.length; omega
  · show j' ≤ b.length; omega
  · show (s.c ++ [new]).length = (s.pieces ++ [_]).length + 1
    simp; omega
  · show (s.c ++ [new])[(s.pieces ++ [_]).length]? = some new
    rw [List.getElem?_append_right (by simp; omega)]
    simp [hclen]
  · show (s.c ++ [new])[0]? = some a0
    rw [List.getElem?_append_left (by omega)]
    exact hinv.c0
  · show ∀ x, a[i' - 1]? = some x → x ≤ new
    intro x hx
    rcases hi' with ⟨h1, rfl⟩ | ⟨h1, rfl⟩
    · simp only [Nat.add_sub_cancel] at hx
      rw [hai] at hx; cases hx; omega
    · have := hinv.a_lo x hx; omega
  · show ∀ x, a[i']? = some x → new < x
    intro x hx
    rcases hi' with ⟨h1, rfl⟩ | ⟨h1, rfl⟩
    · have := strict_lt ha (Nat.lt_succ_self s.i) hai hx; omega
    · rw [hai] at hx; cases hx; omega
  · show ∀ x, b[j' - 1]? = some x → x ≤ new
    intro x hx
    rcases hj' with ⟨h1, rfl⟩ | ⟨h1, rfl⟩
    · simp only [Nat.add_sub_cancel] at hx
      rw [hbj] at hx; cases hx; omega
    · have := hinv.b_lo x hx; omega
  · show ∀ x, b[j']? = some x → new < x
    intro x hx
    rcases hj' with ⟨h1, rfl⟩ | ⟨h1, rfl⟩
    · have := strict_lt hb (Nat.lt_succ_self s.j) hbj hx; omega
    · rw [hbj] at hx; cases hx; omega
  · show new ≤ an; omega
  · show ∀ m p, (s.pieces ++ [_])[m]? = some p → PieceAt a (s.c ++ [new]) p m
    intro m p hp
    by_cases hm : m < s.pieces.length
    · rw [List.getElem?_append_left hm] at hp
      obtain ⟨lo, hi, h1, h2, h3, h4, h5⟩ := hinv.pieces m p hp
      refine ⟨lo, hi, h1, h2, ?_, ?_, h5⟩
      · rw [List.getElem?_append_left (by omega)]; exact h3
      · rw [List.getElem?_append_left (by omega)]; exact h4
    · rw [List.getElem?_append_right (by omega)] at hp
      have hm' : m = s.pieces.length := by
        by_cases h : m = s.pieces.length
        · exact h
        · have : m - s.pieces.length = (m - s.pieces.length - 1) + 1 := by omega
          rw [this] at hp; simp at hp
      subst hm'
      simp at hp
      subst hp
      have hi1 : s.i - 1 < a.length := by omega
      refine ⟨a[s.i - 1], ai, List.getElem?_eq_getElem hi1, ?_, ?_, ?_, ?_, hlow_new, (by show new ≤ ai; omega), rfl⟩
      · show a[s.i - 1 + 1]? = some ai
        have : s.i - 1 + 1 = s.i := by omega
        rw [this]; exact hai
      · show (s.c ++ [new])[s.pieces.length]? = some s.low
        rw [List.getElem?_append_left (by omega)]; exact hinv.clast
      · show (s.c ++ [new])[s.pieces.length + 1]? = some new
        rw [List.getElem?_append_right (by omega)]
        simp [hclen]
      · exact hinv.a_lo _ (List.getElem?_eq_getElem hi1)
  · show ∀ j'' x, j'' < j' → b[j'']? = some x →
      ∃ m, m ≤ (s.pieces ++ [(⟨s.i - 1, s.low, new, false⟩ : Slice)]).length ∧ (s.c ++ [new])[m]? = some x
    intro j'' x hlt hx
    by_cases hold : j'' < s.j
    · obtain ⟨m, hm, hcm⟩ := hinv.b_in j'' x hold hx
      refine ⟨m, by simp; omega, ?_⟩
      rw [List.getElem?_append_left (by omega)]; exact hcm
    · rcases hj' with ⟨h1, rfl⟩ | ⟨h1, rfl⟩
      · have : j'' = s.j := by omega
        subst this
        rw [hbj] at hx; cases hx
        refine ⟨s.pieces.length + 1, by simp, ?_⟩
        rw [List.getElem?_append_right (by omega)]
        have : new = bj := by omega
        simp [hclen, this]
      · omega

theorem advJ_strict {a : List Int} (ha : isStrictSorted a = true) {i : Nat} {ai : Int} (hai : a[i]? = some ai) :
    advJ a i ai = true := by
  unfold advJ
  cases hx : a[i+1]? with
  | none => rfl
  | some x => simp; exact strict_lt ha (Nat.lt_succ_self i) hai hx

theorem phase1_spec {a b : List Int} {a0 an : Int} (ha : isStrictSorted a = true) (hb : isStrictSorted b = true)
    (han : a.getLast? = some an) (hbn : b.getLast? = some an) :
    ∀ (fuel : Nat) (s : P1), Inv1 a b a0 an s → (a.length - s.i) + (b.length - s.j) < fuel →
      ∃ s', phase1 a b fuel s = .ok s' ∧ Inv1 a b a0 an s' ∧ (a[s'.i]? = none ∨ b[s'.j]? = none) := by
  intro fuel
  induction fuel with
  | zero => intro s _ h; omega
  | succ fuel ih =>
    intro s hinv hfuel
    unfold phase1
    cases hai : a[s.i]? with
    | none => exact ⟨s, rfl, hinv, Or.inl hai⟩
    | some ai =>
      cases hbj : b[s.j]? with
      | none => exact ⟨s, rfl, hinv, Or.inr hbj⟩
      | some bj =>
        have hil : s.i < a.length := (List.getElem?_eq_some_iff.mp hai).1
        have hjl : s.j < b.length := (List.getElem?_eq_some_iff.mp hbj).1
        simp only
        by_cases h1 : ai < bj
        · simp only [h1, if_true]
          apply ih
          · exact inv1_step ha hb han hbn hinv hai hbj (s.i + 1) s.j ai (Or.inl ⟨by omega, rfl⟩)
              (Or.inr ⟨h1, rfl⟩) (by omega)
          · show a.length - (s.i + 1) + (b.length - s.j) < fuel
            omega
        · by_cases h2 : ai > bj
          · simp only [h1, h2, if_true, if_false]
            apply ih
            · exact inv1_step ha hb han hbn hinv hai hbj s.i (s.j + 1) bj (Or.inr ⟨by omega, rfl⟩)
                (Or.inl ⟨by omega, rfl⟩) (by omega)
            · show a.length - s.i + (b.length - (s.j + 1)) < fuel
              omega
          · simp only [h1, h2, if_false, advJ_strict ha hai, if_true]
            apply ih
            · exact inv1_step ha hb han hbn hinv hai hbj (s.i + 1) (s.j + 1) bj (Or.inl ⟨by omega, rfl⟩)
                (Or.inl ⟨by omega, rfl⟩) (by omega)
            · show a.length - (s.i + 1) + (b.length - (s.j + 1)) < fuel
              omega

theorem inv1_init {a b : List Int} {a0 an : Int} (ha : isStrictSorted a = true) (hb : isStrictSorted b = true)
    (hla : 2 ≤ a.length) (hlb : 2 ≤ b.length) (ha0 : a[0]? = some a0) (hb0 : b[0]? = some a0)
    (han : a.getLast? = some an) :
    Inv1 a b a0 an ⟨1, 1, a0, [a0], []⟩ := by
  rw [List.getLast?_eq_getElem?] at han
  constructor
  · show 1 ≤ 1; omega
  · show 1 ≤ 1; omega
  · show 1 ≤ a.length; omega
  · show 1 ≤ b.length; omega
  · rfl
  · rfl
  · rfl
  · intro x hx
    simp only [Nat.sub_self] at hx
    rw [ha0] at hx; cases hx; exact Int.le_refl _
  · intro x hx
    exact strict_lt ha (by omega : 0 < 1) ha0 hx
  · intro x hx
    simp only [Nat.sub_self] at hx
    rw [hb0] at hx; cases hx; exact Int.le_refl _
  · intro x hx
    exact strict_lt hb (by omega : 0 < 1) hb0 hx
  · exact strict_le ha (by omega) ha0 han
  · intro m p hp; simp at hp
  · intro j' x hj hx
    have : j' = 0 := by
      have : j' < 1 := hj
      omega
    subst this
    rw [hb0] at hx; cases hx
    exact ⟨0, by simp, rfl⟩

/-! ### the merged boundary list after phase 1 (`c` with `a[-1]` appended) -/

/-- facts about the final list `c` (length `k+2`) and the `k` pieces (before the last one is made inclusive) -/
structure CFacts (a b : List Int) (a0 an : Int) (c : List Int) (ps : List Slice) : Prop where
  clen : c.length = ps.length + 2
  ck : c[ps.length]? = some an
  ck1 : c[ps.length + 1]? = some an
  c0 : c[0]? = some a0
  pieces : ∀ m p, ps[m]? = some p → PieceAt a c p m
  b_in : ∀ (j : Nat) (x : Int), b[j]? = some x → ∃ m, m ≤ ps.length ∧ c[m]? = some x

theorem cfacts_of_inv1 {a b : List Int} {a0 an : Int} (hb : isStrictSorted b = true)
    (han : a.getLast? = some an) (hbn : b.getLast? = some an)
    {s : P1} (hinv : Inv1 a b a0 an s) (hexit : a[s.i]? = none ∨ b[s.j]? = none) :
    s.low = an ∧ CFacts a b a0 an (s.c ++ [an]) s.pieces := by
  rw [List.getLast?_eq_getElem?] at han hbn
  have hip := hinv.i_pos
  have hjp := hinv.j_pos
  have hlow : s.low = an := by
    have hle := hinv.low_le
    rcases hexit with h | h
    · have : a.length ≤ s.i := by
        by_cases hc : s.i < a.length
        · rw [List.getElem?_eq_getElem hc] at h; cases h
        · omega
      have hi : s.i = a.length := by have := hinv.i_le; omega
      have := hinv.a_lo an (by rw [hi]; exact han)
      omega
    · have : b.length ≤ s.j := by
        by_cases hc : s.j < b.length
        · rw [List.getElem?_eq_getElem hc] at h; cases h
        · omega
      have hj : s.j = b.length := by have := hinv.j_le; omega
      have := hinv.b_lo an (by rw [hj]; exact hbn)
      omega
  -- all of b has been consumed
  have hjall : ∀ j x, b[j]? = some x → j < s.j := by
    intro j x hx
    by_cases hc : j < s.j
    · exact hc
    · exfalso
      have hjl : j < b.length := (List.getElem?_eq_some_iff.mp hx).1
      have hsj : s.j < b.length := by omega
      have h1 := hinv.b_hi _ (List.getElem?_eq_getElem hsj)
      have h2 : b[s.j] ≤ an := strict_le hb (by omega) (List.getElem?_eq_getElem hsj) hbn
      omega
  have hclen := hinv.clen
  refine ⟨hlow, ?_⟩
  constructor
  · simp; omega
  · rw [List.getElem?_append_left (by omega), hinv.clast, hlow]
  · rw [List.getElem?_append_right (by omega)]
    simp [hclen]
  · rw [List.getElem?_append_left (by omega)]; exact hinv.c0
  · intro m p hp
    have hm : m < s.pieces.length := (List.getElem?_eq_some_iff.mp hp).1
    obtain ⟨lo, hi, h1, h2, h3, h4, h5⟩ := hinv.pieces m p hp
    refine ⟨lo, hi, h1, h2, ?_, ?_, h5⟩
    · rw [List.getElem?_append_left (by omega)]; exact h3
    · rw [List.getElem?_append_left (by omega)]; exact h4
  · intro j x hx
    obtain ⟨m, hm, hcm⟩ := hinv.b_in j x (hjall j x hx) hx
    refine ⟨m, hm, ?_⟩
    rw [List.getElem?_append_left (by omega)]; exact hcm

theorem cfacts_step {a b : List Int} {a0 an : Int} {c : List Int} {ps : List Slice} (hf : CFacts a b a0 an c ps)
    {m : Nat} (hm : m < ps.length) {x y : Int} (hx : c[m]? = some x) (hy : c[m+1]? = some y) : x < y := by
  obtain ⟨lo, hi, _, _, h3, h4, _, h6, _⟩ := hf.pieces m ps[m] (List.getElem?_eq_getElem hm)
  rw [hx] at h3; rw [hy] at h4
  cases h3; cases h4
  exact h6

theorem cfacts_lt {a b : List Int} {a0 an : Int} {c : List Int} {ps : List Slice} (hf : CFacts a b a0 an c ps) :
    ∀ (d m1 : Nat) (x y : Int), m1 + d + 1 ≤ ps.length → c[m1]? = some x → c[m1 + d + 1]? = some y → x < y := by
  intro d
  induction d with
  | zero =>
    intro m1 x y h hx hy
    exact cfacts_step hf (by omega) hx hy
  | succ d ih =>
    intro m1 x y h hx hy
    have hlen := hf.clen
    have hz : c[m1 + d + 1]? = some c[m1 + d + 1] := List.getElem?_eq_getElem (by omega)
    have h1 := ih m1 x _ (by omega) hx hz
    have h2 := cfacts_step hf (m := m1 + d + 1) (by omega) hz (by simpa [Nat.add_assoc] using hy)
    omega

theorem cfacts_lt' {a b : List Int} {a0 an : Int} {c : List Int} {ps : List Slice} (hf : CFacts a b a0 an c ps)
    {m1 m2 : Nat} {x y : Int} (h12 : m1 < m2) (h2 : m2 ≤ ps.length) (hx : c[m1]? = some x) (hy : c[m2]? = some y) :
    x < y := by
  have : m2 = m1 + (m2 - m1 - 1) + 1 := by omega
  rw [this] at hy
  exact cfacts_lt hf (m2 - m1 - 1) m1 x y (by omega) hx hy

theorem cfacts_le' {a b : List Int} {a0 an : Int} {c : List Int} {ps : List Slice} (hf : CFacts a b a0 an c ps)
    {m1 m2 : Nat} {x y : Int} (h12 : m1 ≤ m2) (h2 : m2 ≤ ps.length) (hx : c[m1]? = some x) (hy : c[m2]? = some y) :
    x ≤ y := by
  by_cases he : m1 = m2
  · subst he; rw [hx] at hy; cases hy; exact Int.le_refl _
  · exact Int.le_of_lt (cfacts_lt' hf (by omega) h2 hx hy)

theorem cfacts_kpos {a b : List Int} {a0 an : Int} {c : List Int} {ps : List Slice} (hf : CFacts a b a0 an c ps)
    (h : a0 < an) : 1 ≤ ps.length := by
  by_cases hk : ps.length = 0
  · have h0 := hf.c0
    have hk' := hf.ck
    rw [hk] at hk'
    rw [h0] at hk'
    cases hk'
    omega
  · omega

/-! ### phase 2 (regrouping the pieces along the new divisions) -/

theorem inner1_spec (c : List Int) (bj : Int) : ∀ (n i : Nat) (tmp : List Nat) (fuel : Nat),
    (∀ m, i ≤ m → m < i + n → ∃ x, c[m]? = some x ∧ x < bj) → (∃ x, c[i+n]? = some x ∧ ¬ x < bj) → n < fuel →
    inner1 c bj fuel i tmp = .ok (i + n, tmp ++ List.range' i n) := by
  intro n
  induction n with
  | zero =>
    intro i tmp fuel _ hstop hf
    obtain ⟨x, hx, hnx⟩ := hstop
    cases fuel with
    | zero => omega
    | succ f =>
      unfold inner1
      simp only [Nat.add_zero] at hx
      simp [hx, hnx]
  | succ n ih =>
    intro i tmp fuel hgo hstop hf
    cases fuel with
    | zero => omega
    | succ f =>
      obtain ⟨x, hx, hlt⟩ := hgo i (Nat.le_refl _) (by omega)
      unfold inner1
      simp only [hx, hlt, if_true]
      rw [ih (i+1) (tmp ++ [i]) f (fun m h1 h2 => hgo m (by omega) (by omega))
        (by have : i + 1 + n = i + (n + 1) := by omega
            rw [this]; exact hstop) (by omega)]
      have : i + 1 + n = i + (n + 1) := by omega
      rw [this, List.range'_succ, List.append_assoc]
      rfl

theorem inner2_noop (c : List Int) (bn : Int) (cond : Bool) (k : Nat) (f i : Nat) (tmp : List Nat) (ci : Int)
    (hci : c[i]? = some ci) (hno : i < k → ci ≠ bn) :
    inner2 c bn cond k (f+1) i tmp = .ok (i, tmp) := by
  unfold inner2
  simp only [hci]
  by_cases hik : i < k
  · have := hno hik
    simp [this]
  · simp [hik]

/-- shape of the regrouping: output for `bj` takes the pieces `[i, i')` where `c[i'] = bj` -/
inductive Groups (c : List Int) (k : Nat) : Nat → List Int → List (List Nat) → Prop
  | nil : Groups c k k [] []
  | cons (i i' : Nat) (bj : Int) (rest : List Int) (outs : List (List Nat)) :
      i < i' → i' ≤ k → c[i']? = some bj → Groups c k i' rest outs →
      Groups c k i (bj :: rest) (List.range' i (i' - i) :: outs)

theorem phase2_spec {a b : List Int} {a0 an : Int} {c : List Int} {ps : List Slice} (hf : CFacts a b a0 an c ps)
    (bp : Int) (blen : Nat) :
    ∀ (rest : List Int) (j i : Nat) (outs : List (List Nat)) (bprev : Int),
      i ≤ ps.length → c[i]? = some bprev → isStrictSorted (bprev :: rest) = true →
      (∀ x ∈ rest, ∃ m, m ≤ ps.length ∧ c[m]? = some x) → (bprev :: rest).getLast? = some an →
      ∃ outs', phase2 c ps.length true bp an blen rest j i outs = .ok (outs ++ outs') ∧
        Groups c ps.length i rest outs' := by
  intro rest
  induction rest with
  | nil =>
    intro j i outs bprev hik hci _ _ hlast
    simp at hlast
    subst hlast
    have hi : i = ps.length := by
      by_cases h : i = ps.length
      · exact h
      · exfalso
        have := cfacts_lt' hf (show i < ps.length by omega) (Nat.le_refl _) hci hf.ck
        omega
    subst hi
    exact ⟨[], by simp [phase2], Groups.nil⟩
  | cons bj rest ih =>
    intro j i outs bprev hik hci hstrict hin hlast
    have ⟨hlt, hstrict'⟩ := isStrictSorted_cons.mp hstrict
    obtain ⟨i', hi'k, hci'⟩ := hin bj (by simp)
    have hclen := hf.clen
    have hii' : i < i' := by
      by_cases h : i < i'
      · exact h
      · exfalso
        have := cfacts_le' hf (show i' ≤ i by omega) hik hci' hci
        omega
    have hinner1 : inner1 c bj (c.length + 1) i [] = .ok (i', List.range' i (i' - i)) := by
      have := inner1_spec c bj (i' - i) i [] (c.length + 1)
        (fun m h1 h2 => ⟨c[m]'(by omega), List.getElem?_eq_getElem (by omega),
          cfacts_lt' hf (show m < i' by omega) hi'k (List.getElem?_eq_getElem (by omega)) hci'⟩)
        ⟨bj, by rw [show i + (i' - i) = i' by omega]; exact hci', by omega⟩ (by omega)
      rw [this, show i + (i' - i) = i' by omega]
      simp
    have hinner2 : inner2 c an (an != bp || j == blen - 1) ps.length (ps.length + 1) i' (List.range' i (i' - i)) =
        .ok (i', List.range' i (i' - i)) := by
      apply inner2_noop c an _ ps.length ps.length i' _ bj hci'
      intro hlt'
      have := cfacts_lt' hf hlt' (Nat.le_refl _) hci' hf.ck
      omega
    unfold phase2
    simp only [hinner1, if_true, hinner2]
    obtain ⟨outs', hrun, hg⟩ := ih (j+1) i' (outs ++ [List.range' i (i' - i)]) bj hi'k hci' hstrict'
      (fun x hx => hin x (by simp [hx])) (by rw [List.getLast?_cons_cons] at hlast; exact hlast)
    refine ⟨List.range' i (i' - i) :: outs', ?_, Groups.cons i i' bj rest outs' hii' hi'k hci' hg⟩
    rw [hrun, List.append_assoc]
    rfl

end Dx.Repartition
