/-
  Lemmas/Cache.lean — invariants of the LRU model and of the weak singleton table.
-/
import DxModel.Cache
namespace Dx.Cache

variable {κ ν : Type} [DecidableEq κ]

/-! ### structural facts about find / erase / put -/

theorem find_mem {c : LRU κ ν} {k : κ} {v : ν} (h : find c k = some v) : (k, v) ∈ c := by
  induction c with
  | nil => simp [find] at h
  | cons p t ih =>
    obtain ⟨k', v'⟩ := p
    unfold find at h
    by_cases hk : k' = k
    · simp only [hk, if_true] at h
      cases h; subst hk; exact List.mem_cons_self
    · simp only [hk, if_false] at h
      exact List.mem_cons_of_mem _ (ih h)

theorem has_find {c : LRU κ ν} {k : κ} (h : has c k = true) : ∃ v, find c k = some v := by
  induction c with
  | nil => simp [has] at h
  | cons p t ih =>
    obtain ⟨k', v'⟩ := p
    unfold find
    by_cases hk : k' = k
    · exact ⟨v', by simp [hk]⟩
    · have : has t k = true := by
        simp only [has, List.any_cons, Bool.or_eq_true] at h
        rcases h with h | h
        · exact absurd (by simpa using h) hk
        · simpa [has] using h
      obtain ⟨v, hv⟩ := ih this
      exact ⟨v, by simp [hk, hv]⟩

theorem find_none_of_not_has {c : LRU κ ν} {k : κ} (h : has c k = false) : find c k = none := by
  induction c with
  | nil => rfl
  | cons p t ih =>
    obtain ⟨k', v'⟩ := p
    simp only [has, List.any_cons, Bool.or_eq_false_iff] at h
    have hk : ¬ k' = k := by simpa using h.1
    unfold find
    simp only [hk, if_false]
    exact ih (by simpa [has] using h.2)

theorem mem_erase {c : LRU κ ν} {k : κ} {p : κ × ν} (h : p ∈ erase c k) : p ∈ c := by
  induction c with
  | nil => simp [erase] at h
  | cons q t ih =>
    obtain ⟨k', v'⟩ := q
    unfold erase at h
    by_cases hk : k' = k
    · simp only [hk, if_true] at h; exact List.mem_cons_of_mem _ h
    · simp only [hk, if_false] at h
      rcases List.mem_cons.mp h with h | h
      · rw [h]; exact List.mem_cons_self
      · exact List.mem_cons_of_mem _ (ih h)

theorem length_erase {c : LRU κ ν} {k : κ} {v : ν} (h : find c k = some v) :
    (erase c k).length + 1 = c.length := by
  induction c with
  | nil => simp [find] at h
  | cons q t ih =>
    obtain ⟨k', v'⟩ := q
    unfold find at h
    unfold erase
    by_cases hk : k' = k
    · simp [hk]
    · simp only [hk, if_false] at h ⊢
      simp [ih h]

theorem mem_put {c : LRU κ ν} {k : κ} {v : ν} {p : κ × ν} (h : p ∈ put c k v) : p ∈ c ∨ p = (k, v) := by
  induction c with
  | nil => simp [put] at h; exact Or.inr h
  | cons q t ih =>
    obtain ⟨k', v'⟩ := q
    unfold put at h
    by_cases hk : k' = k
    · simp only [hk, if_true] at h
      rcases List.mem_cons.mp h with h | h
      · exact Or.inr h
      · exact Or.inl (List.mem_cons_of_mem _ h)
    · simp only [hk, if_false] at h
      rcases List.mem_cons.mp h with h | h
      · rw [h]; exact Or.inl List.mem_cons_self
      · rcases ih h with h | h
        · exact Or.inl (List.mem_cons_of_mem _ h)
        · exact Or.inr h

theorem length_put_le (c : LRU κ ν) (k : κ) (v : ν) : (put c k v).length ≤ c.length + 1 := by
  induction c with
  | nil => simp [put]
  | cons q t ih =>
    obtain ⟨k', v'⟩ := q
    unfold put
    by_cases hk : k' = k
    · simp [hk]
    · simp only [hk, if_false, List.length_cons]; omega

theorem find_put_self (c : LRU κ ν) (k : κ) (v : ν) : find (put c k v) k = some v := by
  induction c with
  | nil => simp [put, find]
  | cons q t ih =>
    obtain ⟨k', v'⟩ := q
    unfold put
    by_cases hk : k' = k
    · simp [hk, find]
    · simp [hk, find, ih]

theorem has_of_find {c : LRU κ ν} {k : κ} {v : ν} (h : find c k = some v) : has c k = true := by
  cases hh : has c k with
  | true => rfl
  | false => rw [find_none_of_not_has hh] at h; cases h

/-! ### unfolding `step` -/

theorem step_get_snd (cap : Nat) (c : LRU κ ν) (k : κ) : (step cap c (Op.get k)).2 = (get c k).2 := by
  simp only [step]
  cases get c k with
  | mk o c' => cases o <;> rfl

theorem step_get_fst (cap : Nat) (c : LRU κ ν) (k : κ) :
    (step cap c (Op.get k)).1 = (match (get c k).1 with | some v => Obs.hit v | none => Obs.miss) := by
  simp only [step]
  cases get c k with
  | mk o c' => cases o <;> rfl

theorem step_set_some {cap : Nat} {c c' : LRU κ ν} {k : κ} {v : ν} (h : set cap c k v = some c') :
    step cap c (Op.set k v) = (Obs.ok, c') := by
  simp only [step, h]

theorem step_set_none {cap : Nat} {c : LRU κ ν} {k : κ} {v : ν} (h : set cap c k v = none) :
    step cap c (Op.set k v) = (Obs.err, c) := by
  simp only [step, h]

/-! ### keys stay unique (the list really represents a dict) -/

def keys (c : LRU κ ν) : List κ := c.map (·.1)

theorem keys_erase_sub {c : LRU κ ν} {k x : κ} (h : x ∈ keys (erase c k)) : x ∈ keys c := by
  simp only [keys, List.mem_map] at h ⊢
  obtain ⟨p, hp, rfl⟩ := h
  exact ⟨p, mem_erase hp, rfl⟩

theorem not_mem_keys_erase {c : LRU κ ν} {k : κ} (hn : (keys c).Nodup) : k ∉ keys (erase c k) := by
  induction c with
  | nil => simp [erase, keys]
  | cons q t ih =>
    obtain ⟨k', v'⟩ := q
    have hn' : k' ∉ keys t ∧ (keys t).Nodup := by simpa [keys] using hn
    unfold erase
    by_cases hk : k' = k
    · simp only [hk, if_true]; rw [← hk]; exact hn'.1
    · simp only [hk, if_false, keys, List.map_cons, List.mem_cons, not_or]
      exact ⟨fun h => hk h.symm, ih hn'.2⟩

theorem nodup_erase {c : LRU κ ν} {k : κ} (hn : (keys c).Nodup) : (keys (erase c k)).Nodup := by
  induction c with
  | nil => simp [erase, keys]
  | cons q t ih =>
    obtain ⟨k', v'⟩ := q
    have hn' : k' ∉ keys t ∧ (keys t).Nodup := by simpa [keys] using hn
    unfold erase
    by_cases hk : k' = k
    · simp only [hk, if_true]; exact hn'.2
    · simp only [hk, if_false, keys, List.map_cons, List.nodup_cons]
      exact ⟨fun h => hn'.1 (keys_erase_sub h), ih hn'.2⟩

theorem keys_put_sub {c : LRU κ ν} {k x : κ} {v : ν} (h : x ∈ keys (put c k v)) : x ∈ keys c ∨ x = k := by
  simp only [keys, List.mem_map] at h ⊢
  obtain ⟨p, hp, rfl⟩ := h
  rcases mem_put hp with hp | hp
  · exact Or.inl ⟨p, hp, rfl⟩
  · exact Or.inr (by rw [hp])

theorem nodup_put {c : LRU κ ν} {k : κ} {v : ν} (hn : (keys c).Nodup) : (keys (put c k v)).Nodup := by
  induction c with
  | nil => simp [put, keys]
  | cons q t ih =>
    obtain ⟨k', v'⟩ := q
    have hn' : k' ∉ keys t ∧ (keys t).Nodup := by simpa [keys] using hn
    unfold put
    by_cases hk : k' = k
    · simp only [hk, if_true, keys, List.map_cons, List.nodup_cons]
      exact ⟨by rw [← hk]; exact hn'.1, hn'.2⟩
    · simp only [hk, if_false, keys, List.map_cons, List.nodup_cons]
      refine ⟨fun h => ?_, ih hn'.2⟩
      rcases keys_put_sub h with h | h
      · exact hn'.1 h
      · exact hk h

theorem nodup_get {c : LRU κ ν} {k : κ} (hn : (keys c).Nodup) : (keys (get c k).2).Nodup := by
  unfold get
  cases hf : find c k with
  | none => exact hn
  | some v =>
    simp only [keys, List.map_append, List.map_cons, List.map_nil]
    rw [List.nodup_append]
    refine ⟨nodup_erase hn, by simp, ?_⟩
    intro a ha b hb
    simp only [List.mem_singleton] at hb
    intro hab
    subst hb
    subst hab
    exact not_mem_keys_erase hn ha

theorem nodup_set {cap : Nat} {c c' : LRU κ ν} {k : κ} {v : ν} (hn : (keys c).Nodup)
    (h : set cap c k v = some c') : (keys c').Nodup := by
  unfold set at h
  by_cases hc : cap ≤ c.length
  · simp only [hc, if_true] at h
    cases c with
    | nil => cases h
    | cons q rest =>
      cases h
      have : (keys rest).Nodup := by
        have := hn; simp only [keys, List.map_cons, List.nodup_cons] at this; exact this.2
      exact nodup_put this
  · simp only [hc, if_false] at h
    cases h; exact nodup_put hn

theorem nodup_step {cap : Nat} {c : LRU κ ν} (op : Op κ ν) (hn : (keys c).Nodup) :
    (keys (step cap c op).2).Nodup := by
  cases op with
  | get k => rw [step_get_snd]; exact nodup_get hn
  | set k v =>
    cases hs : set cap c k v with
    | none => rw [step_set_none hs]; exact hn
    | some c' => rw [step_set_some hs]; exact nodup_set hn hs
  | has k => exact hn
  | len => exact hn

/-! ### size -/

theorem length_get (c : LRU κ ν) (k : κ) : (get c k).2.length = c.length := by
  unfold get
  cases hf : find c k with
  | none => rfl
  | some v => simp [length_erase hf]

theorem length_set {cap : Nat} {c c' : LRU κ ν} {k : κ} {v : ν} (h : set cap c k v = some c')
    (hc : c.length ≤ cap) : c'.length ≤ cap := by
  unfold set at h
  by_cases hcap : cap ≤ c.length
  · simp only [hcap, if_true] at h
    cases c with
    | nil => cases h
    | cons q rest =>
      cases h
      have := length_put_le rest k v
      simp only [List.length_cons] at hc
      omega
  · simp only [hcap, if_false] at h
    cases h
    have := length_put_le c k v
    omega

/-- a full cache never grows, whatever its size -/
theorem length_set_le {cap : Nat} {c c' : LRU κ ν} {k : κ} {v : ν} (h : set cap c k v = some c') :
    c'.length ≤ max c.length cap := by
  unfold set at h
  by_cases hcap : cap ≤ c.length
  · simp only [hcap, if_true] at h
    cases c with
    | nil => cases h
    | cons q rest =>
      cases h
      have := length_put_le rest k v
      simp only [List.length_cons]
      omega
  · simp only [hcap, if_false] at h
    cases h
    have := length_put_le c k v
    omega

theorem length_step {cap : Nat} {c : LRU κ ν} (op : Op κ ν) (hc : c.length ≤ cap) :
    (step cap c op).2.length ≤ cap := by
  cases op with
  | get k => rw [step_get_snd, length_get]; exact hc
  | set k v =>
    cases hs : set cap c k v with
    | none => rw [step_set_none hs]; exact hc
    | some c' => rw [step_set_some hs]; exact length_set hs hc
  | has k => exact hc
  | len => exact hc

theorem length_runOps (cap : Nat) (ops : List (Op κ ν)) : ∀ (c : LRU κ ν), c.length ≤ cap →
    (runOps cap c ops).2.length ≤ cap := by
  induction ops with
  | nil => intro c hc; exact hc
  | cons op rest ih =>
    intro c hc
    simp only [runOps]
    exact ih _ (length_step op hc)

theorem set_isSome {cap : Nat} (hcap : 0 < cap) (c : LRU κ ν) (k : κ) (v : ν) :
    ∃ c', set cap c k v = some c' := by
  cases c with
  | nil =>
    have : ¬ cap ≤ 0 := by omega
    exact ⟨put [] k v, by simp [set, this]⟩
  | cons q rest =>
    by_cases hc : cap ≤ (q :: rest).length
    · exact ⟨put rest k v, by simp only [set, hc, if_true]⟩
    · exact ⟨put (q :: rest) k v, by simp only [set, hc, if_false]⟩

theorem find_set_self {cap : Nat} {c c' : LRU κ ν} {k : κ} {v : ν} (h : set cap c k v = some c') :
    find c' k = some v := by
  unfold set at h
  by_cases hcap : cap ≤ c.length
  · simp only [hcap, if_true] at h
    cases c with
    | nil => cases h
    | cons q rest => cases h; exact find_put_self rest k v
  · simp only [hcap, if_false] at h
    cases h; exact find_put_self c k v

/-! ### refinement: every stored value is the pure function of its key -/

/-- all entries are `f`-values (`f` may be partial: failed computations store nothing) -/
def Inv (f : κ → Option ν) (c : LRU κ ν) : Prop := ∀ p ∈ c, f p.1 = some p.2

omit [DecidableEq κ] in
theorem inv_nil (f : κ → Option ν) : Inv f ([] : LRU κ ν) := by intro p hp; cases hp

theorem inv_get {f : κ → Option ν} {c : LRU κ ν} (k : κ) (hi : Inv f c) : Inv f (get c k).2 := by
  unfold get
  cases hf : find c k with
  | none => exact hi
  | some v =>
    intro p hp
    rcases List.mem_append.mp hp with hp | hp
    · exact hi p (mem_erase hp)
    · simp only [List.mem_singleton] at hp
      rw [hp]; exact hi _ (find_mem hf)

theorem get_value {f : κ → Option ν} {c : LRU κ ν} {k : κ} {v : ν} (hi : Inv f c)
    (h : (get c k).1 = some v) : f k = some v := by
  unfold get at h
  cases hf : find c k with
  | none => rw [hf] at h; cases h
  | some v' =>
    rw [hf] at h
    cases h
    exact hi _ (find_mem hf)

theorem inv_set {f : κ → Option ν} {cap : Nat} {c c' : LRU κ ν} {k : κ} {v : ν} (hi : Inv f c)
    (hv : f k = some v) (h : set cap c k v = some c') : Inv f c' := by
  have key : ∀ d : LRU κ ν, Inv f d → Inv f (put d k v) := by
    intro d hd p hp
    rcases mem_put hp with hp | hp
    · exact hd p hp
    · rw [hp]; exact hv
  unfold set at h
  by_cases hcap : cap ≤ c.length
  · simp only [hcap, if_true] at h
    cases c with
    | nil => cases h
    | cons q rest =>
      cases h
      exact key rest (fun p hp => hi p (List.mem_cons_of_mem _ hp))
  · simp only [hcap, if_false] at h
    cases h; exact key c hi

/-- histories in which every `set k v` stores the value of one function of the key -/
def SetsAre (f : κ → Option ν) (ops : List (Op κ ν)) : Prop :=
  ∀ k v, Op.set k v ∈ ops → f k = some v

theorem inv_step {f : κ → Option ν} {cap : Nat} {c : LRU κ ν} (op : Op κ ν) (hi : Inv f c)
    (hs : ∀ k v, op = Op.set k v → f k = some v) : Inv f (step cap c op).2 := by
  cases op with
  | get k => rw [step_get_snd]; exact inv_get k hi
  | set k v =>
    cases hset : set cap c k v with
    | none => rw [step_set_none hset]; exact hi
    | some c' => rw [step_set_some hset]; exact inv_set hi (hs k v rfl) hset
  | has k => exact hi
  | len => exact hi

theorem hits_step {f : κ → Option ν} {cap : Nat} {c : LRU κ ν} {k : κ} {v : ν} (hi : Inv f c)
    (h : (step cap c (Op.get k)).1 = Obs.hit v) : f k = some v := by
  rw [step_get_fst] at h
  cases hg : (get c k).1 with
  | none => rw [hg] at h; cases h
  | some v' =>
    rw [hg] at h
    simp only [Obs.hit.injEq] at h
    subst h
    exact get_value hi hg

theorem hits_runOps {f : κ → Option ν} (cap : Nat) (ops : List (Op κ ν)) :
    ∀ (c : LRU κ ν), Inv f c → SetsAre f ops →
      ∀ k v, (Op.get k, Obs.hit v) ∈ ops.zip (runOps cap c ops).1 → f k = some v := by
  induction ops with
  | nil => intro c _ _ k v h; simp [runOps] at h
  | cons op rest ih =>
    intro c hi hs k v h
    simp only [runOps, List.zip_cons_cons, List.mem_cons] at h
    rcases h with h | h
    · simp only [Prod.mk.injEq] at h
      obtain ⟨h1, h2⟩ := h
      subst h1
      exact hits_step hi h2.symm
    · refine ih _ (inv_step op hi ?_) ?_ k v h
      · intro k' v' he; exact hs k' v' (by rw [he]; exact List.mem_cons_self)
      · intro k' v' he; exact hs k' v' (List.mem_cons_of_mem _ he)

/-! ### get-or-compute -/

theorem goA_spec {f : κ → Option ν} {cap : Nat} (hcap : 0 < cap) {c : LRU κ ν} (k : κ) (hi : Inv f c) :
    (getOrComputeA cap f c k).1 = f k ∧ Inv f (getOrComputeA cap f c k).2 := by
  unfold getOrComputeA
  cases hh : has c k with
  | true =>
    simp only [if_true]
    obtain ⟨v, hv⟩ := has_find hh
    refine ⟨?_, inv_get k hi⟩
    have : (get c k).1 = some v := by simp [get, hv]
    rw [this, get_value hi this]
  | false =>
    simp only [Bool.false_eq_true, if_false]
    cases hf : f k with
    | none => exact ⟨rfl, hi⟩
    | some v =>
      obtain ⟨c', hc'⟩ := set_isSome hcap c k v
      simp only [hc']
      exact ⟨trivial, inv_set hi hf hc'⟩

theorem goB_spec {f : κ → Option ν} {cap : Nat} (hcap : 0 < cap) {c : LRU κ ν} (k : κ) (hi : Inv f c) :
    (getOrComputeB cap f c k).1 = f k ∧ Inv f (getOrComputeB cap f c k).2 := by
  unfold getOrComputeB
  cases hh : has c k with
  | true =>
    simp only [if_true]
    obtain ⟨v, hv⟩ := has_find hh
    refine ⟨?_, inv_get k hi⟩
    have : (get c k).1 = some v := by simp [get, hv]
    rw [this, get_value hi this]
  | false =>
    simp only [Bool.false_eq_true, if_false]
    cases hf : f k with
    | none => exact ⟨rfl, hi⟩
    | some v =>
      obtain ⟨c', hc'⟩ := set_isSome hcap c k v
      simp only [hc']
      have hi' := inv_set hi hf hc'
      refine ⟨?_, inv_get k hi'⟩
      have : (get c' k).1 = some v := by simp [get, find_set_self hc']
      rw [this]

/-- states reachable by any number of get-or-compute calls (either pattern) from the empty cache -/
inductive Reach (cap : Nat) (f : κ → Option ν) : LRU κ ν → Prop where
  | empty : Reach cap f []
  | stepA (c : LRU κ ν) (k : κ) : Reach cap f c → Reach cap f (getOrComputeA cap f c k).2
  | stepB (c : LRU κ ν) (k : κ) : Reach cap f c → Reach cap f (getOrComputeB cap f c k).2
  | read (c : LRU κ ν) (k : κ) : Reach cap f c → Reach cap f (assertHit c k).2

theorem inv_assertHit {f : κ → Option ν} {c : LRU κ ν} (k : κ) (hi : Inv f c) : Inv f (assertHit c k).2 := by
  unfold assertHit
  cases has c k with
  | true => exact inv_get k hi
  | false => exact hi

theorem reach_inv {f : κ → Option ν} {cap : Nat} (hcap : 0 < cap) {c : LRU κ ν} (h : Reach cap f c) : Inv f c := by
  induction h with
  | empty => exact inv_nil f
  | stepA c k _ ih => exact (goA_spec hcap k ih).2
  | stepB c k _ ih => exact (goB_spec hcap k ih).2
  | read c k _ ih => exact inv_assertHit k ih

/-! ### weak singleton table -/

section Table
variable {η α : Type} [DecidableEq η]

/-- every entry is filed under the name of its own content -/
def TInv (name : α → η) (t : Tbl η α) : Prop := ∀ p ∈ t, p.1 = name p.2.val

theorem tfind_mem {t : Tbl η α} {n : η} {o : Obj α} (h : tfind t n = some o) : (n, o) ∈ t := by
  induction t with
  | nil => simp [tfind] at h
  | cons p rest ih =>
    obtain ⟨n', o'⟩ := p
    unfold tfind at h
    by_cases hn : n' = n
    · simp only [hn, if_true] at h; cases h; subst hn; exact List.mem_cons_self
    · simp only [hn, if_false] at h; exact List.mem_cons_of_mem _ (ih h)

omit [DecidableEq η] in
theorem tinv_gc {name : α → η} {t : Tbl η α} (keep : η → Bool) (h : TInv name t) : TInv name (tgc keep t) := by
  intro p hp
  exact h p (List.mem_filter.mp hp).1

theorem tinv_new {name : α → η} {t : Tbl η α} (n : Nat) (x : α) (h : TInv name t) :
    TInv name (tnew name t n x).2 := by
  unfold tnew
  cases hf : tfind t (name x) with
  | some o => exact h
  | none =>
    intro p hp
    rcases List.mem_append.mp hp with hp | hp
    · exact h p hp
    · simp only [List.mem_singleton] at hp; rw [hp]

theorem tnew_val {name : α → η} (hinj : ∀ a b, name a = name b → a = b) {t : Tbl η α} (n : Nat) (x : α)
    (h : TInv name t) : (tnew name t n x).1.val = x := by
  unfold tnew
  cases hf : tfind t (name x) with
  | some o =>
    have := h _ (tfind_mem hf)
    exact (hinj _ _ this).symm
  | none => rfl

/-- the contents requested by the `new` steps of a history -/
def requested : List (TOp η α) → List α
  | [] => []
  | .new x :: rest => x :: requested rest
  | .gc _ :: rest => requested rest

theorem trun_vals {name : α → η} (hinj : ∀ a b, name a = name b → a = b) (ops : List (TOp η α)) :
    ∀ (t : Tbl η α) (n : Nat), TInv name t → (trun name t n ops).1.map (·.val) = requested ops := by
  induction ops with
  | nil => intro t n _; rfl
  | cons op rest ih =>
    intro t n h
    cases op with
    | new x =>
      simp only [trun, requested, List.map_cons]
      rw [tnew_val hinj n x h, ih _ _ (tinv_new n x h)]
    | gc keep =>
      simp only [trun, requested]
      exact ih _ _ (tinv_gc keep h)

end Table

/-! ### observables -/

section Obs
variable {κ ν : Type} [DecidableEq κ]

theorem observe_spec {f : κ → Option ν} {cap : Nat} (hcap : 0 < cap) (d : Discipline) (hd : d ≠ .assertHit)
    {c : LRU κ ν} (hi : Inv f c) (k : κ) :
    (observe d cap f c k).1 = f k ∧ Inv f (observe d cap f c k).2 := by
  cases d with
  | pure => exact ⟨rfl, hi⟩
  | recompute => exact goA_spec hcap k hi
  | assertHit => exact absurd rfl hd

theorem observe_assert_cold (cap : Nat) (f : κ → Option ν) (k : κ) :
    (observe .assertHit cap f ([] : LRU κ ν) k).1 = none := by
  simp [observe, assertHit, has]

end Obs

end Dx.Cache
