/-
  Lemmas/FusionPass.lean — the second half of `_fusion_pass` (group search): every group the search
  returns is `GroupOK`, for every iteration order `ord` of the dependency sets.
-/
import DxModel.Lemmas.FusionWalk
import DxModel.FusionCheck
namespace Dx.Fusion
open Dx

/-- What the search guarantees about a group `G` found in plan `dag` with root `planRoot`. -/
structure GroupOK (dag : Dag) (planRoot : Nat) (G : List Nat) : Prop where
  nonempty : G ≠ []
  nodup : G.Nodup
  /-- every member is a valid blockwise operation … -/
  blockwise : ∀ g ∈ G, isBw dag g = true
  /-- … of the plan -/
  reach : ∀ g ∈ G, Reach dag planRoot g
  /-- every dependent (blockwise or not) of a non-first member is a member -/
  closed : ∀ g ∈ G.tail, ∀ c, Reach dag planRoot c → g ∈ depsOf dag c → c ∈ G
  /-- a non-first member is an operand of a member … -/
  parent : ∀ g ∈ G.tail, ∃ c ∈ G, g ∈ depsOf dag c
  /-- … and has the first member's partition count or is broadcast to a consuming member -/
  npart : ∀ g ∈ G.tail, npartOf dag g = npartOf dag (G.headD 0) ∨
      ∃ c ∈ G, g ∈ depsOf dag c ∧ bcastN dag c g = true

/-- the iteration order only rearranges (or drops, or repeats) the elements of the set -/
def OrdOK (ord : Nat → List Nat → List Nat) : Prop := ∀ n l x, x ∈ ord n l → x ∈ l

/-! ### the `for dep_name in dependencies[next._name]` loop -/

theorem tryDeps_stack (dag : Dag) (m : Maps) (root nx : Nat) (group : List Nat)
    (Q : List Nat → Prop) (ds0 : List Nat)
    (hpush : ∀ d stack, d ∈ ds0 → Q stack →
      (npartOf dag d == npartOf dag root || bcastN dag nx d) = true →
      (∀ c ∈ m.dependents.val d, c ∈ stack ∨ c ∈ group) → Q (d :: stack)) :
    ∀ (ds : List Nat), (∀ d ∈ ds, d ∈ ds0) → ∀ (s : List Nat × List Nat), Q s.1 →
      Q (tryDeps dag m root nx group ds s).1 := by
  intro ds
  induction ds with
  | nil => intro _ s h; simpa [tryDeps] using h
  | cons d ds ih =>
    intro hsub s h
    obtain ⟨stack, roots⟩ := s
    simp only [tryDeps]
    split
    · rename_i hc
      apply ih (fun x hx => hsub x (List.mem_cons_of_mem _ hx))
      simp only [Bool.and_eq_true, List.all_eq_true, Bool.or_eq_true, decide_eq_true_eq] at hc
      exact hpush d stack (hsub d (by simp)) h (by simpa using hc.1) hc.2
    · split
      · exact ih (fun x hx => hsub x (List.mem_cons_of_mem _ hx)) _ h
      · exact ih (fun x hx => hsub x (List.mem_cons_of_mem _ hx)) _ h

theorem tryDeps_roots (dag : Dag) (m : Maps) (root nx : Nat) (group : List Nat) :
    ∀ (ds : List Nat) (s : List Nat × List Nat), ∀ r ∈ (tryDeps dag m root nx group ds s).2,
      r ∈ s.2 ∨ r ∈ ds := by
  intro ds
  induction ds with
  | nil => intro s r h; left; simpa [tryDeps] using h
  | cons d ds ih =>
    intro s r h
    obtain ⟨stack, roots⟩ := s
    simp only [tryDeps] at h
    split at h
    · rcases ih _ r h with h1 | h1
      · exact Or.inl h1
      · exact Or.inr (List.mem_cons_of_mem _ h1)
    · split at h
      · rcases ih _ r h with h1 | h1
        · rcases List.mem_cons.mp h1 with rfl | h1
          · exact Or.inr (by simp)
          · exact Or.inl h1
        · exact Or.inr (List.mem_cons_of_mem _ h1)
      · rcases ih _ r h with h1 | h1
        · exact Or.inl h1
        · exact Or.inr (List.mem_cons_of_mem _ h1)

/-! ### the inner `while stack:` loop -/

/-- `x` may sit in the group of `root`: all its recorded dependents are in `S`, it is an operand of
    an element of `S`, and its partition count fits -/
structure Fits (dag : Dag) (m : Maps) (root : Nat) (S : List Nat) (x : Nat) : Prop where
  closed : ∀ c ∈ m.dependents.val x, c ∈ S
  parent : ∃ c ∈ S, x ∈ depsOf dag c
  npart : npartOf dag x = npartOf dag root ∨ ∃ c ∈ S, x ∈ depsOf dag c ∧ bcastN dag c x = true

theorem Fits.mono {dag : Dag} {m : Maps} {root : Nat} {S S' : List Nat} {x : Nat}
    (h : Fits dag m root S x) (hs : ∀ y ∈ S, y ∈ S') : Fits dag m root S' x := by
  refine ⟨fun c hc => hs c (h.closed c hc), ?_, ?_⟩
  · obtain ⟨c, hc, hx⟩ := h.parent
    exact ⟨c, hs c hc, hx⟩
  · rcases h.npart with h1 | ⟨c, hc, hx, hb⟩
    · exact Or.inl h1
    · exact Or.inr ⟨c, hs c hc, hx, hb⟩

structure DInv (dag : Dag) (m : Maps) (root : Nat) (st group seen roots : List Nat) : Prop where
  seen_group : ∀ x, x ∈ seen ↔ x ∈ group
  nodup : group.Nodup
  member : ∀ x, x ∈ st ∨ x ∈ group → isBw dag x = true ∧ x ∈ m.seen
  fits : ∀ x, x ∈ st ∨ x ∈ group → x = root ∨ Fits dag m root (st ++ group) x
  start : group = [] → st = [root]
  head : group ≠ [] → group.head? = some root
  roots_member : ∀ r ∈ roots, isBw dag r = true ∧ r ∈ m.seen

theorem dfs_inv (dag : Dag) (root0 : Nat) (m : Maps) (hm : WInv dag root0 [] m)
    (ord : Nat → List Nat → List Nat) (hord : OrdOK ord) (root : Nat) :
    ∀ (fuel : Nat) (st group seen roots : List Nat) (s : Search),
      DInv dag m root st group seen roots →
      dfs dag m ord root fuel st group seen roots = some s →
      DInv dag m root [] s.group s.group s.roots := by
  intro fuel
  induction fuel with
  | zero =>
    intro st group seen roots s h hd
    cases st with
    | nil =>
      simp only [dfs] at hd; cases hd
      exact ⟨fun _ => Iff.rfl, h.nodup, h.member, h.fits, h.start, h.head, h.roots_member⟩
    | cons a t => simp [dfs] at hd
  | succ fuel ih =>
    intro st group seen roots s h hd
    cases st with
    | nil =>
      simp only [dfs] at hd; cases hd
      exact ⟨fun _ => Iff.rfl, h.nodup, h.member, h.fits, h.start, h.head, h.roots_member⟩
    | cons nx st =>
      simp only [dfs] at hd
      by_cases hs : nx ∈ seen
      · simp only [hs, if_true] at hd
        have hg : nx ∈ group := (h.seen_group nx).mp hs
        refine ih st group seen roots s ?_ hd
        refine ⟨h.seen_group, h.nodup, ?_, ?_, ?_, h.head, h.roots_member⟩
        · intro x hx
          rcases hx with hx | hx
          · exact h.member x (Or.inl (List.mem_cons_of_mem _ hx))
          · exact h.member x (Or.inr hx)
        · intro x hx
          have hx' : x ∈ nx :: st ∨ x ∈ group := by
            rcases hx with hx | hx
            · exact Or.inl (List.mem_cons_of_mem _ hx)
            · exact Or.inr hx
          rcases h.fits x hx' with h1 | h1
          · exact Or.inl h1
          · refine Or.inr (h1.mono ?_)
            intro y hy
            rcases List.mem_append.mp hy with hy | hy
            · rcases List.mem_cons.mp hy with rfl | hy
              · exact List.mem_append.mpr (Or.inr hg)
              · exact List.mem_append.mpr (Or.inl hy)
            · exact List.mem_append.mpr (Or.inr hy)
        · intro hge
          subst hge
          cases hg
      · simp only [hs, if_false] at hd
        have hng : nx ∉ group := fun hg => hs ((h.seen_group nx).mpr hg)
        have hnxm := h.member nx (Or.inl (by simp))
        -- invariant of the operand loop: the old stack stays, new elements fit
        let Q : List Nat → Prop := fun stack =>
          (∀ x ∈ st, x ∈ stack) ∧
          ∀ x ∈ stack, x ∈ st ∨
            ((isBw dag x = true ∧ x ∈ m.seen) ∧ Fits dag m root (stack ++ (group ++ [nx])) x)
        have hQ0 : Q st := ⟨fun x hx => hx, fun x hx => Or.inl hx⟩
        have hpush : ∀ d stack, d ∈ ord nx (m.dependencies.val nx) → Q stack →
            (npartOf dag d == npartOf dag root || bcastN dag nx d) = true →
            (∀ c ∈ m.dependents.val d, c ∈ stack ∨ c ∈ group ++ [nx]) → Q (d :: stack) := by
          intro d stack hd0 hq hnp hcl
          have hdm : d ∈ m.dependencies.val nx := hord _ _ _ hd0
          obtain ⟨hdbw, hddep, _⟩ := hm.dependencies_sound nx d hdm
          have hdseen : d ∈ m.seen := by
            rcases hm.closure nx hnxm.2 d hddep with h1 | h1
            · exact h1
            · cases h1
          refine ⟨fun x hx => List.mem_cons_of_mem _ (hq.1 x hx), ?_⟩
          intro x hx
          rcases List.mem_cons.mp hx with rfl | hx
          · right
            refine ⟨⟨hdbw, hdseen⟩, ?_, ?_, ?_⟩
            · intro c hc
              rcases hcl c hc with h1 | h1
              · exact List.mem_append.mpr (Or.inl (List.mem_cons_of_mem _ h1))
              · exact List.mem_append.mpr (Or.inr h1)
            · exact ⟨nx, by simp, hddep⟩
            · simp only [Bool.or_eq_true, beq_iff_eq] at hnp
              rcases hnp with h1 | h1
              · exact Or.inl h1
              · exact Or.inr ⟨nx, by simp, hddep, h1⟩
          · rcases hq.2 x hx with h1 | ⟨h1, h2⟩
            · exact Or.inl h1
            · refine Or.inr ⟨h1, h2.mono ?_⟩
              intro y hy
              rcases List.mem_append.mp hy with hy | hy
              · exact List.mem_append.mpr (Or.inl (List.mem_cons_of_mem _ hy))
              · exact List.mem_append.mpr (Or.inr hy)
        have hq := tryDeps_stack dag m root nx (group ++ [nx]) Q (ord nx (m.dependencies.val nx)) hpush
          (ord nx (m.dependencies.val nx)) (fun _ h => h) (st, roots) hQ0
        have hroots := tryDeps_roots dag m root nx (group ++ [nx]) (ord nx (m.dependencies.val nx)) (st, roots)
        refine ih _ _ _ _ s ?_ hd
        generalize (tryDeps dag m root nx (group ++ [nx]) (ord nx (m.dependencies.val nx)) (st, roots)) = res at hq hroots
        obtain ⟨hq1, hq2⟩ := hq
        refine ⟨?_, ?_, ?_, ?_, ?_, ?_, ?_⟩
        · intro x
          rw [List.mem_cons, List.mem_append, List.mem_singleton, h.seen_group x]
          constructor
          · rintro (h1 | h1)
            · exact Or.inr h1
            · exact Or.inl h1
          · rintro (h1 | h1)
            · exact Or.inr h1
            · exact Or.inl h1
        · rw [List.nodup_append]
          refine ⟨h.nodup, by simp, ?_⟩
          intro a ha b hb
          simp only [List.mem_singleton] at hb
          subst hb
          intro hab; subst hab; exact hng ha
        · intro x hx
          rcases hx with hx | hx
          · rcases hq2 x hx with h1 | h1
            · exact h.member x (Or.inl (List.mem_cons_of_mem _ h1))
            · exact h1.1
          · rcases List.mem_append.mp hx with hx | hx
            · exact h.member x (Or.inr hx)
            · simp only [List.mem_singleton] at hx; subst hx; exact hnxm
        · intro x hx
          -- old elements: monotonicity; new ones: Q
          have hsub : ∀ y ∈ (nx :: st) ++ group, y ∈ res.1 ++ (group ++ [nx]) := by
            intro y hy
            rcases List.mem_append.mp hy with hy | hy
            · rcases List.mem_cons.mp hy with rfl | hy
              · simp
              · exact List.mem_append.mpr (Or.inl (hq1 y hy))
            · simp [hy]
          have hold : ∀ y, y ∈ nx :: st ∨ y ∈ group →
              y = root ∨ Fits dag m root (res.1 ++ (group ++ [nx])) y := by
            intro y hy
            rcases h.fits y hy with h1 | h1
            · exact Or.inl h1
            · exact Or.inr (h1.mono hsub)
          rcases hx with hx | hx
          · rcases hq2 x hx with h1 | h1
            · exact hold x (Or.inl (List.mem_cons_of_mem _ h1))
            · exact Or.inr h1.2
          · rcases List.mem_append.mp hx with hx | hx
            · exact hold x (Or.inr hx)
            · simp only [List.mem_singleton] at hx; subst hx
              exact hold x (Or.inl (by simp))
        · intro hge
          cases group <;> simp at hge
        · intro _
          cases hgr : group with
          | nil =>
            have := h.start hgr
            simp only [List.cons.injEq] at this
            simp [this.1]
          | cons a t =>
            have := h.head (by simp [hgr])
            rw [hgr] at this
            simpa using this
        · intro r hr
          rcases hroots r hr with h1 | h1
          · exact h.roots_member r h1
          · have hdm : r ∈ m.dependencies.val nx := hord _ _ _ h1
            obtain ⟨hdbw, hddep, _⟩ := hm.dependencies_sound nx r hdm
            refine ⟨hdbw, ?_⟩
            rcases hm.closure nx hnxm.2 r hddep with h2 | h2
            · exact h2
            · cases h2

/-- a finished search is a `GroupOK` group -/
theorem DInv.groupOK {dag : Dag} {root0 : Nat} {m : Maps} (hm : WInv dag root0 [] m)
    {root : Nat} {G seen roots : List Nat} (h : DInv dag m root [] G seen roots) (hne : G ≠ []) :
    GroupOK dag root0 G ∧ G.headD 0 = root := by
  have hhead : G.head? = some root := h.head hne
  obtain ⟨r, tail, rfl⟩ : ∃ r tail, G = r :: tail := by
    cases G with
    | nil => exact absurd rfl hne
    | cons a t => exact ⟨a, t, rfl⟩
  simp only [List.head?_cons, Option.some.injEq] at hhead
  subst hhead
  have hnd := h.nodup
  rw [List.nodup_cons] at hnd
  have htail : ∀ g ∈ tail, Fits dag m r (r :: tail) g := by
    intro g hg
    rcases h.fits g (Or.inr (List.mem_cons_of_mem _ hg)) with h1 | h1
    · subst h1; exact absurd hg hnd.1
    · simpa using h1
  refine ⟨⟨hne, h.nodup, ?_, ?_, ?_, ?_, ?_⟩, rfl⟩
  · intro g hg; exact (h.member g (Or.inr hg)).1
  · intro g hg; exact seen_reach dag root0 m hm g (h.member g (Or.inr hg)).2
  · intro g hg c hc hdep
    simp only [List.tail_cons] at hg
    have hcs : c ∈ m.seen := reach_seen dag root0 m hm c hc
    have hgbw := (h.member g (Or.inr (List.mem_cons_of_mem _ hg))).1
    exact (htail g hg).closed c (hm.edges c hcs g hdep hgbw)
  · intro g hg
    simp only [List.tail_cons] at hg
    exact (htail g hg).parent
  · intro g hg
    simp only [List.tail_cons] at hg
    simpa using (htail g hg).npart

/-! ### the `while roots:` loop and the pass -/

theorem findGroup_inv (dag : Dag) (root0 : Nat) (m : Maps) (hm : WInv dag root0 [] m)
    (ord : Nat → List Nat → List Nat) (hord : OrdOK ord) (dfsFuel : Nat) :
    ∀ (fuel : Nat) (roots : List Nat) (s : Search),
      (∀ r ∈ roots, isBw dag r = true ∧ r ∈ m.seen) →
      findGroup dag m ord dfsFuel fuel roots = some (some s) →
      GroupOK dag root0 s.group ∧ 2 ≤ s.group.length := by
  intro fuel
  induction fuel with
  | zero =>
    intro roots s _ hf
    cases roots <;> simp [findGroup] at hf
  | succ fuel ih =>
    intro roots s hr hf
    cases roots with
    | nil => simp [findGroup] at hf
    | cons r rs =>
      simp only [findGroup] at hf
      cases hd : dfs dag m ord r dfsFuel [r] [] [] rs with
      | none => simp [hd] at hf
      | some s' =>
        simp only [hd] at hf
        have hinit : DInv dag m r [r] [] [] rs := by
          refine ⟨fun _ => Iff.rfl, List.nodup_nil, ?_, ?_, fun _ => rfl, fun h => absurd rfl h, ?_⟩
          · intro x hx
            rcases hx with hx | hx
            · simp only [List.mem_singleton] at hx; subst hx; exact hr x (by simp)
            · cases hx
          · intro x hx
            rcases hx with hx | hx
            · simp only [List.mem_singleton] at hx; exact Or.inl hx
            · cases hx
          · intro x hx; exact hr x (List.mem_cons_of_mem _ hx)
        have hfin := dfs_inv dag root0 m hm ord hord r dfsFuel _ _ _ _ s' hinit hd
        by_cases hl : s'.group.length > 1
        · simp only [hl, if_true, Option.some.injEq] at hf
          subst hf
          have hne : s'.group ≠ [] := by
            intro h0; rw [h0] at hl; simp at hl
          exact ⟨(hfin.groupOK hm hne).1, hl⟩
        · simp only [hl, if_false] at hf
          exact ih _ s hfin.roots_member hf

theorem rootsOf_member (dag : Dag) (root0 : Nat) (m : Maps) (hm : WInv dag root0 [] m) :
    ∀ r ∈ (rootsOf dag m).reverse, isBw dag r = true ∧ r ∈ m.seen := by
  intro r hr
  rw [List.mem_reverse] at hr
  unfold rootsOf at hr
  rw [List.mem_filter] at hr
  obtain ⟨hb, hs⟩ := hm.keys_bw r hr.1
  refine ⟨hb, ?_⟩
  rcases hs with hs | hs
  · exact hs
  · cases hs

/-- unfolding of a successful pass -/
theorem fusionPass_some (ord : Nat → List Nat → List Nat) (dag : Dag) (root : Nat)
    (r : PassResult) (G : List Nat) (h : fusionPass ord dag root = some r) (hg : r.group = some G) :
    ∃ m s, globalMaps dag root = some m ∧
      findGroup dag m ord (walkFuel dag) (loopFuel dag) (rootsOf dag m).reverse = some (some s) ∧
      s.group = G ∧
      r.dag = substitute dag (G.headD 0) (fusedNode dag G).name ++ [fusedNode dag G] ∧
      r.root = (if root = G.headD 0 then (fusedNode dag G).name else root) := by
  unfold fusionPass at h
  cases hm : globalMaps dag root with
  | none => simp [hm] at h
  | some m =>
    simp only [hm] at h
    cases hf : findGroup dag m ord (walkFuel dag) (loopFuel dag) (rootsOf dag m).reverse with
    | none => simp [hf] at h
    | some o =>
      cases o with
      | none =>
        simp only [hf, Option.some.injEq] at h
        subst h
        simp at hg
      | some s =>
        simp only [hf, Option.some.injEq] at h
        subst h
        simp only [Option.some.injEq] at hg
        subst hg
        exact ⟨m, s, rfl, hf, rfl, rfl, rfl⟩

theorem fusionPass_groupOK (ord : Nat → List Nat → List Nat) (hord : OrdOK ord) (dag : Dag) (root : Nat)
    (r : PassResult) (G : List Nat) (h : fusionPass ord dag root = some r) (hg : r.group = some G) :
    GroupOK dag root G ∧ 2 ≤ G.length := by
  obtain ⟨m, s, hm, hf, hs, _, _⟩ := fusionPass_some ord dag root r G h hg
  have hw := globalMaps_inv dag root m hm
  have := findGroup_inv dag root m hw ord hord _ _ _ s (rootsOf_member dag root m hw) hf
  rw [hs] at this
  exact this

/-! ### soundness of the executable group checker (T3) -/

theorem nodupB_spec : ∀ (l : List Nat), nodupB l = true → l.Nodup := by
  intro l
  induction l with
  | nil => intro _; exact List.nodup_nil
  | cons a t ih =>
    intro h
    simp only [nodupB, Bool.and_eq_true, Bool.not_eq_true', decide_eq_false_iff_not] at h
    exact List.nodup_cons.mpr ⟨h.1, ih h.2⟩

theorem groupOKb_sound (dag : Dag) (root : Nat) (G : List Nat) (h : groupOKb dag root G = true) :
    GroupOK dag root G := by
  unfold groupOKb at h
  cases hm : globalMaps dag root with
  | none => simp [hm] at h
  | some m =>
    have hw := globalMaps_inv dag root m hm
    simp only [hm, Bool.and_eq_true, Bool.not_eq_true', List.all_eq_true, decide_eq_true_eq,
      Bool.or_eq_true, beq_iff_eq, List.any_eq_true] at h
    obtain ⟨⟨⟨hne, hnd⟩, hmem⟩, htail⟩ := h
    refine ⟨?_, nodupB_spec G hnd, fun g hg => (hmem g hg).1, ?_, ?_, ?_, ?_⟩
    · intro h0; rw [h0] at hne; simp at hne
    · intro g hg; exact seen_reach dag root m hw g (hmem g hg).2
    · intro g hg c hc hdep
      have hgG : g ∈ G := List.mem_of_mem_tail hg
      exact (htail g hg).1.1 c (hw.edges c (reach_seen dag root m hw c hc) g hdep (hmem g hgG).1)
    · intro g hg
      exact (htail g hg).1.2
    · intro g hg
      rcases (htail g hg).2 with h1 | ⟨c, hc, h2, h3⟩
      · exact Or.inl h1
      · exact Or.inr ⟨c, hc, h2, h3⟩

end Dx.Fusion
