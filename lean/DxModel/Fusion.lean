/-
  Fusion.lean — transliteration of the blockwise-fusion code of /repo/dask_expr/_expr.py:
  `is_valid_blockwise_op`, `optimize_blockwise_fusion` (`_fusion_pass` + the outer `while True`),
  `Blockwise._broadcast_dep`, `Blockwise._blockwise_arg`, `Blockwise._task`, `Fused._task`,
  `Fused._execute_task`, and of the substitution `expr.substitute(group[0], Fused(group, *deps))`.

  Definitions only, Mathlib-free (the driver links against this file).

  A plan is a list of nodes addressed by `name` (a stand-in for `Expr._name`; C08 justifies
  identifying an expression with its name).  The list keeps every node ever created, also those no
  longer reachable from the plan's root: the members of a `Fused` node are looked up there, exactly
  as `Fused.exprs` keeps the member expressions alive.

  Iteration order.  `_fusion_pass` iterates `sorted(dependencies[next._name])`: a `set` of name
  strings in sorted order (before the fix "blockwise fusion visits the operands of a node in a
  reproducible order" it iterated the set itself, whose order depends on `PYTHONHASHSEED`).  The
  order decides *which* group is found (member order, and in corner cases membership).  Names are
  hashes, so the model takes the order as a parameter `ord : Nat → List Nat → List Nat` (node ↦ how
  its dependency set — given in insertion order — is iterated); the correspondence families pass the
  string order of the real names.  Every theorem of Props/C14.lean holds for every `ord`.
  Dicts (`dependents`, `dependencies`) iterate in insertion order; that is modelled exactly.
-/
import DxModel.Graph
namespace Dx.Fusion
open Dx

/-- One expression of the plan, reduced to what fusion looks at. -/
structure Node where
  name : Nat
  /-- `is_valid_blockwise_op(expr)`: a `Blockwise` that is not `FromPandas`/`FromArray` -/
  blockwise : Bool
  npart : Nat
  ndim : Nat
  /-- the `Expr` operands in operand order (repetitions kept): `expr.dependencies()` -/
  deps : List Nat
  /-- which `_broadcast_dep` the class has: `false` = `Blockwise._broadcast_dep`
      (`dep.npartitions == 1 and dep.ndim < self.ndim`), `true` = the override of
      `MapPartitions`, `Fused`, `DescribeNumericAggregate`, `BlockwiseMerge…` (`dep.npartitions == 1`) -/
  kall : Bool
  /-- `Fused.exprs` (names, in group order); `[]` for every other class -/
  members : List Nat
deriving Repr, DecidableEq

abbrev Dag := List Node

def getNode (dag : Dag) (n : Nat) : Option Node := dag.find? (fun nd => nd.name == n)

def isBw (dag : Dag) (n : Nat) : Bool :=
  match getNode dag n with
  | some nd => nd.blockwise
  | none => false

def depsOf (dag : Dag) (n : Nat) : List Nat :=
  match getNode dag n with
  | some nd => nd.deps
  | none => []

def npartOf (dag : Dag) (n : Nat) : Nat :=
  match getNode dag n with
  | some nd => nd.npart
  | none => 0

/-- `c._broadcast_dep(d)` -/
def bcast (c d : Node) : Bool := d.npart == 1 && (c.kall || decide (d.ndim < c.ndim))

def bcastN (dag : Dag) (c d : Nat) : Bool :=
  match getNode dag c, getNode dag d with
  | some cn, some dn => bcast cn dn
  | _, _ => false

/-! ### insertion-ordered dicts of insertion-ordered sets -/

structure Dict where
  keys : List Nat
  val : Nat → List Nat

def Dict.empty : Dict := ⟨[], fun _ => []⟩

/-- `d[k]` exists afterwards (`defaultdict` access / `d[k] = set()` on an absent key) -/
def Dict.touch (d : Dict) (k : Nat) : Dict :=
  if k ∈ d.keys then d else ⟨d.keys ++ [k], d.val⟩

/-- `d[k].add(v)` on a `defaultdict(set)` -/
def Dict.add (d : Dict) (k v : Nat) : Dict :=
  ⟨if k ∈ d.keys then d.keys else d.keys ++ [k],
   fun x => if x = k then (if v ∈ d.val k then d.val k else d.val k ++ [v]) else d.val x⟩

/-! ### `_fusion_pass`, first half: the global dependents / dependencies maps -/

structure Maps where
  dependents : Dict
  dependencies : Dict
  seen : List Nat

/-- the `for operand in next.operands` loop.  `stack` has its top at the head. -/
def visitOps (dag : Dag) (nx : Nat) : List Nat → List Nat → Maps → List Nat × Maps
  | [], st, m => (st, m)
  | op :: ops, st, m =>
    let m' : Maps :=
      if isBw dag op then
        { m with
          dependencies := if nx ∈ m.dependencies.keys then m.dependencies.add nx op else m.dependencies
          dependents := m.dependents.add op nx }
      else m
    visitOps dag nx ops (op :: st) m'

/-- the `while stack:` loop of the first half.  `none` = the fuel ran out (never happens with
    `walkFuel`; the property theorems are stated for the `some` case). -/
def walk (dag : Dag) : Nat → List Nat → Maps → Option Maps
  | _, [], m => some m
  | 0, _ :: _, _ => none
  | fuel+1, nx :: st, m =>
    if nx ∈ m.seen then walk dag fuel st m
    else
      let m1 : Maps :=
        if isBw dag nx then
          { dependencies := m.dependencies.touch nx          -- dependencies[next._name] = set()
            dependents := m.dependents.touch nx              -- if next._name not in dependents: … = set()
            seen := nx :: m.seen }
        else { m with seen := nx :: m.seen }
      let r := visitOps dag nx (depsOf dag nx) st m1
      walk dag fuel r.1 r.2

def totalDeps (dag : Dag) : Nat := (dag.map (fun nd => nd.deps.length + 1)).sum

def walkFuel (dag : Dag) : Nat := totalDeps dag + 2

def globalMaps (dag : Dag) (root : Nat) : Option Maps :=
  walk dag (walkFuel dag) [root] ⟨Dict.empty, Dict.empty, []⟩

/-- `roots`: blockwise nodes without blockwise dependents, in `dependents.items()` order -/
def rootsOf (dag : Dag) (m : Maps) : List Nat :=
  m.dependents.keys.filter (fun k =>
    (m.dependents.val k).isEmpty || (m.dependents.val k).all (fun c => !isBw dag c))

/-! ### `_fusion_pass`, second half: the group search -/

/-- the `for dep_name in dependencies[next._name]` loop: state is `(stack, roots)`;
    both lists have their top (Python: last element) at the head. -/
def tryDeps (dag : Dag) (m : Maps) (root nx : Nat) (group : List Nat) :
    List Nat → List Nat × List Nat → List Nat × List Nat
  | [], s => s
  | d :: ds, (stack, roots) =>
    if (npartOf dag d == npartOf dag root || bcastN dag nx d) &&
        (m.dependents.val d).all (fun c => decide (c ∈ stack) || decide (c ∈ group)) then
      tryDeps dag m root nx group ds (d :: stack, roots)
    else if !(m.dependencies.val d).isEmpty && !decide (d ∈ roots) then
      tryDeps dag m root nx group ds (stack, d :: roots)
    else
      tryDeps dag m root nx group ds (stack, roots)

structure Search where
  group : List Nat
  roots : List Nat

/-- the inner `while stack:` loop for one root -/
def dfs (dag : Dag) (m : Maps) (ord : Nat → List Nat → List Nat) (root : Nat) :
    Nat → List Nat → List Nat → List Nat → List Nat → Option Search
  | _, [], group, _, roots => some ⟨group, roots⟩
  | 0, _ :: _, _, _, _ => none
  | fuel+1, nx :: st, group, seen, roots =>
    if nx ∈ seen then dfs dag m ord root fuel st group seen roots
    else
      let r := tryDeps dag m root nx (group ++ [nx]) (ord nx (m.dependencies.val nx)) (st, roots)
      dfs dag m ord root fuel r.1 (group ++ [nx]) (nx :: seen) r.2

/-- the `while roots:` loop: the first group with more than one member, and the roots left -/
def findGroup (dag : Dag) (m : Maps) (ord : Nat → List Nat → List Nat) (dfsFuel : Nat) :
    Nat → List Nat → Option (Option Search)
  | _, [] => some none
  | 0, _ :: _ => none
  | fuel+1, r :: rs =>
    match dfs dag m ord r dfsFuel [r] [] [] rs with
    | none => none
    | some s => if s.group.length > 1 then some (some s) else findGroup dag m ord dfsFuel fuel s.roots

/-- `group_deps`: the operands of the members that are not members, member by member -/
def groupDeps (dag : Dag) (group : List Nat) : List Nat :=
  group.flatMap (fun g => (depsOf dag g).filter (fun o => !decide (o ∈ group)))

/-- every name occurring in the plan (as a node or as an operand) -/
def allNames (dag : Dag) : List Nat := dag.flatMap (fun nd => nd.name :: nd.deps)

/-- a name not occurring in the plan (the new `Fused` expression has a new `_name`) -/
def freshName (dag : Dag) : Nat := (allNames dag).foldl max 0 + 1

/-- `Fused(group, *group_deps)`: meta / divisions (`npart`, `ndim`) are those of `group[0]` -/
def fusedNode (dag : Dag) (group : List Nat) : Node :=
  let r := group.headD 0
  { name := freshName dag, blockwise := true, npart := npartOf dag r,
    ndim := (match getNode dag r with | some nd => nd.ndim | none => 0),
    deps := groupDeps dag group, kall := true, members := group }

/-- `expr.substitute(old, new)` on the name level: every operand `old` becomes `new`
    (also inside the members of existing `Fused` nodes — `_substitute` dives into `Fused.exprs`). -/
def substitute (dag : Dag) (old new : Nat) : Dag :=
  dag.map (fun nd => { nd with deps := nd.deps.map (fun d => if d = old then new else d) })

structure PassResult where
  dag : Dag
  root : Nat
  done : Bool
  /-- the group that was replaced (`none`: "Return original expr if no fusable sub-groups were found") -/
  group : Option (List Nat)

def loopFuel (dag : Dag) : Nat := (dag.length + 2) * (dag.length + 2) * (dag.length + 2)

def fusionPass (ord : Nat → List Nat → List Nat) (dag : Dag) (root : Nat) : Option PassResult :=
  match globalMaps dag root with
  | none => none
  | some m =>
    match findGroup dag m ord (walkFuel dag) (loopFuel dag) (rootsOf dag m).reverse with
    | none => none
    | some none => some ⟨dag, root, true, none⟩
    | some (some s) =>
      let f := fusedNode dag s.group
      let r := s.group.headD 0
      some ⟨substitute dag r f.name ++ [f], if root = r then f.name else root,
            s.roots.isEmpty, some s.group⟩

/-- the outer `while True` of `optimize_blockwise_fusion`; returns the plan and the number of
    successful passes.  `expr._name == original_name` holds exactly when no group was replaced. -/
def fuseLoop (ord : Nat → List Nat → List Nat) : Nat → Dag → Nat → Nat → Option (Dag × Nat × Nat)
  | 0, _, _, _ => none
  | fuel+1, dag, root, n =>
    match fusionPass ord dag root with
    | none => none
    | some r =>
      match r.group with
      | none => some (r.dag, r.root, n)
      | some _ => if r.done then some (r.dag, r.root, n + 1) else fuseLoop ord fuel r.dag r.root (n + 1)

/-! ### tasks -/

/-- keys occurring inside and around a fused task -/
inductive FKey where
  | part (name i : Nat)       -- `(name, i)`
  | top (name : Nat)          -- the string key `name` (a `Fused` node's own name)
  | ph (j : Nat)              -- the string key `"_j"`
deriving DecidableEq, Repr

/-- `c._blockwise_arg(d, i)` for an `Expr` operand -/
def argKey (dag : Dag) (c : Node) (i : Nat) (d : Nat) : FKey :=
  match getNode dag d with
  | some dn => .part d (if bcast c dn then 0 else i)
  | none => .part d i

/-- `Blockwise._task(i)`: the node's own operation applied to its operand keys -/
def plainTask (dag : Dag) (c : Node) (i : Nat) : Tsk FKey :=
  .apply c.name (c.deps.map (argKey dag c i))

def enumFrom {α} : Nat → List α → List (Nat × α)
  | _, [] => []
  | n, a :: as => (n, a) :: enumFrom (n+1) as

/-- the partition of member `m` that a fused task for partition `index` computes:
    `Fused._broadcast_dep(m)` (= `m.npartitions == 1`) selects partition 0 -/
def ixOf (m : Node) (index : Nat) : Nat := if m.npart == 1 then 0 else index

/-- `graph[(m._name, ix)] = m._task(ix)` for an ordinary member -/
def plainWrite (dag : Dag) (m : Node) (index : Nat) : FKey × Tsk FKey :=
  (FKey.part m.name (ixOf m index), plainTask dag m (ixOf m index))

/-- `graph[self._blockwise_arg(dep, index)] = "_" + str(i)` for every dependency -/
def phWrites (dag : Dag) (f : Node) (index : Nat) : List (FKey × Tsk FKey) :=
  (enumFrom 0 f.deps).map (fun (j, d) => (argKey dag f index d, Tsk.alias (FKey.ph j)))

/-- `_is_dependency_placeholder(task)`: the string `"_<digits>"` -/
def isPh : Tsk FKey → Bool
  | .alias (.ph _) => true
  | _ => false

/-- the writes of one iteration of `for _expr in self.exprs`; `nested m` is the sub-graph of a nested
    `Fused` member as it is merged into the enclosing dict -/
def blockOf (dag : Dag) (index : Nat) (nested : Node → List (FKey × Tsk FKey)) (mn : Nat) :
    List (FKey × Tsk FKey) :=
  match getNode dag mn with
  | none => []
  | some m =>
    if m.members ≠ [] then
      -- subgraph, name = _expr._task(index)[1:3]
      -- graph.update({key: task for key, task in subgraph.items() if not _is_dependency_placeholder(task)})
      -- graph[(name, index)] = name
      nested m ++ [(FKey.part m.name index, Tsk.alias (FKey.top m.name))]
    else
      -- elif self._broadcast_dep(_expr): graph[(name, 0)] = _expr._task(0) else graph[(name, index)] = _expr._task(index)
      [plainWrite dag m index]

/-- the dict built by `Fused._task(index)` as its list of writes, in program order
    (a later write to the same key wins).  The sub-graph of a nested group is merged without the
    entries that alias the nested group's dependencies to its placeholders.
    `fuel` bounds the nesting depth. -/
def fusedWrites (dag : Dag) (index : Nat) : Nat → Node → List (FKey × Tsk FKey)
  | 0, _ => []
  | fuel+1, f =>
    [(FKey.top f.name, Tsk.alias (FKey.part (f.members.headD 0) index))] ++
    f.members.flatMap (blockOf dag index (fun m => (fusedWrites dag index fuel m).filter (fun w => !isPh w.2))) ++
    phWrites dag f index

def lastWrite {κ} [DecidableEq κ] {β} (ws : List (κ × β)) (k : κ) : Option β :=
  ws.reverse.lookup k

/-- the sub-graph handed to `Fused._execute_task`.  Nesting depth is bounded by `f.name + 1`:
    a `Fused` expression is created after its members, so names decrease along nesting. -/
def fusedGraph (dag : Dag) (f : Node) (index : Nat) : Graph FKey :=
  lastWrite (fusedWrites dag index (f.name + 1) f)

/-- the positional arguments after `(Fused._execute_task, graph, name, …)`:
    `self._blockwise_arg(dep, index)` for every dependency -/
def fusedArgs (dag : Dag) (f : Node) (index : Nat) : List FKey :=
  f.deps.map (argKey dag f index)

/-- `_execute_task` stores the j-th positional argument under `"_j"` — the placeholders are the
    inputs of the nested evaluation.  `ev` gives the values of the outer keys. -/
def phInputs (args : List FKey) (ev : FKey → V) : FKey → Option V
  | .ph j => (args[j]?).map ev
  | _ => none

/-- value of a fused task: `dask.core.get(graph, name)` -/
def fusedValue (I : Interp) (dag : Dag) (f : Node) (index : Nat) (ev : FKey → V) (fuel : Nat) : V :=
  run I (fusedGraph dag f index) (phInputs (fusedArgs dag f index) ev) fuel (.top f.name)

/-- the completely unfused reference graph over the plan's node list: every ordinary blockwise
    node contributes `Blockwise._task(i)` for `i < npartitions` (`Expr._layer`), a `Fused` node
    stands for its first member; every other key is an input. -/
def refGraph (dag : Dag) : Graph FKey
  | .part n i =>
    match getNode dag n with
    | some nd =>
      if nd.blockwise then
        (match nd.members with
         | [] => if i < nd.npart then some (plainTask dag nd i) else none
         | r :: _ => some (.alias (.part r i)))
      else none
    | none => none
  | _ => none

/-! ### iteration-order policies used by the correspondence families -/

def permuteAux : Nat → Nat → List Nat → List Nat
  | 0, _, _ => []
  | fuel+1, q, pool =>
    if pool.length = 0 then []
    else
      let i := q % pool.length
      (pool.getD i 0) :: permuteAux fuel (q / pool.length) (pool.eraseIdx i)

/-- the `p`-th permutation (factorial number system), optionally reversed -/
def permute (p : Nat) (rev : Bool) (l : List Nat) : List Nat :=
  let r := permuteAux l.length p l
  if rev then r.reverse else r

end Dx.Fusion
