/-
  Expr.lean — expression trees of the optimizer model (dask_expr/_core.py `Expr`).

  An expression of the real code is `type(self)` + `self.operands`; the operands that are
  expressions themselves are `dependencies()`, all the others (column lists, scalars, flags …) are
  collapsed into one natural number `lit`.  `type(expr)(*new_operands)` therefore is
  `node cls lit newArgs`.

  The real code identifies an expression with its `_name` (hash of class + operands) and dedups
  instances through `Expr._instances`; here "same `_name`" *is* structural equality (`Expr.beq`,
  proven lawful below, so `==` and `=` coincide).  That identification is the statement of
  property C08 and is proven there, not assumed silently here: every theorem of C01 holds for an
  arbitrary outcome of every comparison (soundness never depends on which branch a name test takes).
-/
namespace Dx

inductive Expr where
  | node (cls : Nat) (lit : Nat) (args : List Expr)
deriving Repr, Inhabited

namespace Expr

def cls : Expr → Nat | node c _ _ => c
def lit : Expr → Nat | node _ l _ => l
/-- `expr.dependencies()`: the operands that are expressions, in operand order -/
def args : Expr → List Expr | node _ _ as => as
/-- `type(expr)(*new_operands)` -/
def withArgs : Expr → List Expr → Expr | node c l _, as => node c l as

mutual
def beq : Expr → Expr → Bool
  | node c l as, node c' l' as' => c == c' && l == l' && beqList as as'
def beqList : List Expr → List Expr → Bool
  | [], [] => true
  | a :: t, a' :: t' => beq a a' && beqList t t'
  | _, _ => false
end

mutual
theorem beq_eq_true : ∀ a b : Expr, beq a b = true → a = b
  | node c l as, node c' l' as', h => by
    simp only [beq, Bool.and_eq_true, beq_iff_eq] at h
    obtain ⟨⟨hc, hl⟩, ha⟩ := h
    rw [hc, hl, beqList_eq_true as as' ha]
theorem beqList_eq_true : ∀ a b : List Expr, beqList a b = true → a = b
  | [], [], _ => rfl
  | a :: t, a' :: t', h => by
    simp only [beqList, Bool.and_eq_true] at h
    rw [beq_eq_true a a' h.1, beqList_eq_true t t' h.2]
  | [], _ :: _, h => by simp [beqList] at h
  | _ :: _, [], h => by simp [beqList] at h
end

mutual
theorem beq_refl : ∀ a : Expr, beq a a = true
  | node c l as => by simp [beq, beqList_refl as]
theorem beqList_refl : ∀ a : List Expr, beqList a a = true
  | [] => rfl
  | a :: t => by simp [beqList, beq_refl a, beqList_refl t]
end

/-- structural equality is decidable: "same `_name`" -/
instance : DecidableEq Expr := fun a b =>
  if h : beq a b = true then isTrue (beq_eq_true a b h)
  else isFalse (fun e => h (e ▸ beq_refl a))

mutual
/-- number of nodes of the tree (shared sub-expressions counted once per occurrence) -/
def size : Expr → Nat
  | node _ _ as => 1 + sizeList as
def sizeList : List Expr → Nat
  | [] => 0
  | a :: t => size a + sizeList t
end

end Expr

/-! ### The dependents map

  `collect_dependents(expr)` returns `defaultdict(list)`: name of a node ↦ list of weak references
  to the nodes that have it as an operand, in the order in which they were appended.  The model keeps
  the whole map as one insertion-ordered association list of `(child, parent)` pairs; the list the
  code sees under `dependents[c._name]` is `Deps.of d c`.  Weak references that died are *not*
  modelled (the harness keeps every stub expression alive); the theorems quantify over arbitrary
  maps, so a thinned map is covered by them anyway. -/
abbrev Deps := List (Expr × Expr)

def Deps.of (d : Deps) (c : Expr) : List Expr :=
  (d.filter (fun p => p.1 == c)).map (fun p => p.2)

/-- `collect_dependents`:
```
stack = [expr]; seen = set()
while stack:
    node = stack.pop()
    if node._name in seen: continue
    seen.add(node._name)
    for dep in node.dependencies():
        stack.append(dep)
        dependents[dep._name].append(weakref.ref(node))
```
  The stack is kept with its top at the head.  One unit of fuel per `pop`. -/
def collectLoop : Nat → List Expr → List Expr → Deps → Deps
  | 0, _, _, d => d
  | _ + 1, [], _, d => d
  | n + 1, node :: stack, seen, d =>
    if seen.contains node then collectLoop n stack seen d
    else collectLoop n (node.args.reverse ++ stack) (node :: seen)
           (d ++ node.args.map (fun dep => (dep, node)))

/-- every pop but the first follows a push, and pushes happen once per distinct node and operand:
    at most `size e` pops are needed. -/
def collectDependents (e : Expr) : Deps := collectLoop (e.size + 1) [e] [] []

end Dx
