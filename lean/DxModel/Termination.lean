/-
  Termination.lean — models of the optimizer's convergence loops (dask_expr/_core.py):
  `Expr.simplify` (loop around `simplify_once` with the `seen` set and the RuntimeError
  "Optimizer does not converge"), `Expr.lower_once`, `Expr.lower_completely`; and the executable
  check of the rank function for the generated class-level "may construct" relation of `_lower`.
  Definitions only, Mathlib-free.
-/
namespace Dx.Term

/-! ### `Expr.simplify`

    expr = self; seen = set()
    while True:
        new = expr.simplify_once(...)
        if new._name == expr._name: break
        if new._name in seen: raise RuntimeError("Optimizer does not converge. ...")
        seen.add(new._name); expr = new
    return expr

  Expressions are identified with their names (C08); `step` is one `simplify_once` pass. -/

inductive SimpOut where
  | ok (e : Nat)                 -- normal exit: the returned expression
  | noconv (e new : Nat)         -- RuntimeError: `e` simplified to `new`, which was already seen
deriving DecidableEq, Repr

/-- `none` = out of fuel (the loop is still running) -/
def simplifyLoop (step : Nat → Nat) : Nat → Nat → List Nat → Option SimpOut
  | 0, _, _ => none
  | fuel+1, e, seen =>
    if step e = e then some (.ok e)
    else if step e ∈ seen then some (.noconv e (step e))
    else simplifyLoop step fuel (step e) (step e :: seen)

def simplify (step : Nat → Nat) (fuel : Nat) (e : Nat) : Option SimpOut := simplifyLoop step fuel e []

/-- `k`-fold application of the pass -/
def iter (step : Nat → Nat) : Nat → Nat → Nat
  | 0, e => e
  | k+1, e => iter step k (step e)

/-! ### `Expr.lower_once` / `Expr.lower_completely` over abstract expression trees -/

/-- an expression: its class and its `Expr` operands -/
inductive T where
  | node (c : Nat) (kids : List T)
deriving Repr

def T.cls : T → Nat
  | .node c _ => c

def T.kids : T → List T
  | .node _ ks => ks

mutual
def T.beq : T → T → Bool
  | .node c ks, .node c' ks' => c == c' && T.beqList ks ks'
def T.beqList : List T → List T → Bool
  | [], [] => true
  | a :: as, b :: bs => T.beq a b && T.beqList as bs
  | _, _ => false
end

def mapOpt {α β} (f : α → Option β) : List α → Option (List β)
  | [] => some []
  | a :: as =>
    match f a, mapOpt f as with
    | some b, some bs => some (b :: bs)
    | _, _ => none

/-- `out = expr._lower(); if out is None: out = expr` -/
def outOf (low : T → Option T) (t : T) : T :=
  match low t with
  | some o => o
  | none => t

/-- `lower_once`: lower this node (`_lower() or self`), then every operand of the result.
    `low` is the class-specific `_lower`; `none` = returns None.  `fuel` bounds the recursion depth
    (`none` = exhausted). -/
def lowerOnce (low : T → Option T) : Nat → T → Option T
  | 0, _ => none
  | fuel+1, t => (mapOpt (lowerOnce low fuel) (outOf low t).kids).map (T.node (outOf low t).cls)

/-- `lower_completely`: `lower_once` until the name no longer changes; returns the result and the
    number of `lower_once` calls. -/
def lowerCompletely (low : T → Option T) (onceFuel : Nat) : Nat → T → Nat → Option (T × Nat)
  | 0, _, _ => none
  | passes+1, t, n =>
    match lowerOnce low onceFuel t with
    | none => none
    | some t' => if T.beq t' t then some (t, n + 1) else lowerCompletely low onceFuel passes t' (n + 1)

/-! ### rule systems for the correspondence family (stub `_lower` methods built from patterns) -/

/-- right-hand side of a stub `_lower`: a new node, the i-th operand, or the j-th operand of the
    i-th operand of the expression being lowered -/
inductive Pat where
  | new (c : Nat) (args : List Pat)
  | kid (i : Nat)
  | sub (i j : Nat)
deriving Repr

mutual
def Pat.inst (ks : List T) : Pat → Option T
  | .new c args =>
    match Pat.instList ks args with
    | some l => some (.node c l)
    | none => none
  | .kid i => ks[i]?
  | .sub i j =>
    match ks[i]? with
    | some k => k.kids[j]?
    | none => none
def Pat.instList (ks : List T) : List Pat → Option (List T)
  | [] => some []
  | p :: ps =>
    match Pat.inst ks p, Pat.instList ks ps with
    | some t, some l => some (t :: l)
    | _, _ => none
end

/-- `_lower` of the stub class: the rule of the node's class, if any and if it applies -/
def lowOfRules (rules : List (Nat × Pat)) (t : T) : Option T :=
  match rules.lookup t.cls with
  | some p => Pat.inst t.kids p
  | none => none

/-! ### the generated "may construct" table and its rank check -/

/-- classes are numbered by increasing rank; `ranks` lists, for r = 1, 2, …, the first class id of
    rank ≥ r: the rank of class `c` is the number of thresholds `≤ c` -/
def rankOf (ranks : List Nat) (c : Nat) : Nat := (ranks.filter (fun t => decide (t ≤ c))).length

/-- every class listed with a non-trivial `_lower` only constructs classes of strictly smaller rank -/
def rankOK (table : List (Nat × List Nat)) (ranks : List Nat) : Bool :=
  table.all (fun e => e.2.all (fun c' => decide (rankOf ranks c' < rankOf ranks e.1)))

/-- the relation denoted by the table -/
def MayConstruct (table : List (Nat × List Nat)) (c c' : Nat) : Prop :=
  ∃ e ∈ table, e.1 = c ∧ c' ∈ e.2

end Dx.Term
