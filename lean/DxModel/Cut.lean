/-
  Cut.lean — materialization boundaries (C17).
  (1) `evalTsk` commutes with renaming keys; importing an opaque graph under new output names
      (`FromGraph._layer`: the original layer plus alias tasks `(new_name, i) -> keys[i]`) preserves values.
  (2) Cutting a graph: evaluating the upper part `g₂` of a graph on top of the *values* of the lower
      part `g₁` (persist / compute-then-reimport) equals evaluating the union graph.
-/
import DxModel.Plan
namespace Dx

theorem evalTsk_mapKeys {κ κ'} (I : Interp) (f : κ → κ') (ev : κ' → V) (t : Tsk κ) :
    evalTsk I ev (t.mapKeys f) = evalTsk I (fun k => ev (f k)) t := by
  cases t <;> simp [Tsk.mapKeys, evalTsk, List.map_map, Function.comp_def]

/-- `FromGraph._layer`: `dsk = dict(layer); dsk[(self._name, part)] = keys[part]` -/
def fromGraphLayer {κ} (L : Graph κ) (keys : List κ) : Graph (κ ⊕ Nat)
  | .inl k => (L k).map (fun t => t.mapKeys Sum.inl)
  | .inr i => match keys[i]? with
      | some k => some (.alias (.inl k))
      | none => none

def liftInp {κ} (inp : κ → Option V) : κ ⊕ Nat → Option V
  | .inl k => inp k
  | .inr _ => none

/-- the imported layer evaluates every original key exactly as the original graph does -/
theorem fromGraph_inl {κ} (I : Interp) (L : Graph κ) (keys : List κ) (inp : κ → Option V) :
    ∀ n k, run I (fromGraphLayer L keys) (liftInp inp) n (.inl k) = run I L inp n k := by
  intro n
  induction n with
  | zero =>
    intro k
    simp only [run, fromGraphLayer]
    cases L k <;> simp [inpVal, liftInp]
  | succ n ih =>
    intro k
    simp only [run, fromGraphLayer]
    cases h : L k with
    | none => simp [inpVal, liftInp]
    | some t =>
      simp only [Option.map_some]
      rw [evalTsk_mapKeys]
      apply evalTsk_congr
      intro d _
      exact ih d

/-- **alias theorem**: output partition `i` of the imported collection is the value of `keys[i]` -/
theorem fromGraph_alias {κ} (I : Interp) (L : Graph κ) (keys : List κ) (inp : κ → Option V)
    (n i : Nat) (k : κ) (hk : keys[i]? = some k) :
    run I (fromGraphLayer L keys) (liftInp inp) (n+1) (.inr i) = run I L inp n k := by
  simp only [run, fromGraphLayer, hk, evalTsk]
  exact fromGraph_inl I L keys inp n k

/-! ### cutting a graph -/

/-- `toolz.merge(g₁, g₂)` -/
def gunion {κ} (g₁ g₂ : Graph κ) : Graph κ := fun k =>
  match g₂ k with
  | some t => some t
  | none => g₁ k

/-- inputs seen by the upper part after the lower part was materialised -/
def cutInp {κ} (I : Interp) (g₁ : Graph κ) (inp : κ → Option V) (rank : κ → Nat) : κ → Option V := fun k =>
  match g₁ k with
  | some _ => some (run I g₁ inp (rank k + 1) k)
  | none => inp k

structure CutOK {κ} (g₁ g₂ : Graph κ) : Prop where
  disjoint : ∀ k, (g₁ k).isSome → g₂ k = none
  lower_closed : ∀ k t, g₁ k = some t → ∀ d ∈ t.refs, g₂ d = none

theorem gunion_lower {κ} (g₁ g₂ : Graph κ) (h : CutOK g₁ g₂) (k : κ) (hk : g₂ k = none) :
    gunion g₁ g₂ k = g₁ k := by simp [gunion, hk]

/-- on keys outside the upper part the union graph evaluates like the lower part alone -/
theorem run_union_lower {κ} (I : Interp) (g₁ g₂ : Graph κ) (inp : κ → Option V) (h : CutOK g₁ g₂) :
    ∀ n k, g₂ k = none → run I (gunion g₁ g₂) inp n k = run I g₁ inp n k := by
  intro n
  induction n with
  | zero => intro k hk; simp [run, gunion, hk]
  | succ n ih =>
    intro k hk
    simp only [run, gunion, hk]
    cases hg : g₁ k with
    | none => rfl
    | some t =>
      simp only
      apply evalTsk_congr
      intro d hd
      exact ih d (h.lower_closed k t hg d hd)

/-- **cut theorem**: every key of the upper part has the same value in the union graph and in the
    upper part evaluated on top of the materialised values of the lower part. -/
theorem run_cut {κ} (I : Interp) (g₁ g₂ : Graph κ) (inp : κ → Option V) (rank : κ → Nat)
    (hr : Ranked (gunion g₁ g₂) rank) (h : CutOK g₁ g₂) :
    ∀ n k, (g₂ k).isSome → rank k < n →
      run I (gunion g₁ g₂) inp n k = run I g₂ (cutInp I g₁ inp rank) n k := by
  have hr₁ : Ranked g₁ rank := by
    intro k t hg d hd hdef
    have hk2 : g₂ k = none := h.disjoint k (by simp [hg])
    have hd2 : g₂ d = none := h.lower_closed k t hg d hd
    exact hr k t (by simp [gunion, hk2, hg]) d hd (by simp [gunion, hd2]; exact hdef)
  intro n
  induction n with
  | zero => intro k _ hlt; omega
  | succ n ih =>
    intro k hk hlt
    cases hg : g₂ k with
    | none => simp [hg] at hk
    | some t =>
      have hu : gunion g₁ g₂ k = some t := by simp [gunion, hg]
      rw [run_defined I _ inp n k t hu, run_defined I g₂ _ n k t hg]
      apply evalTsk_congr
      intro d hd
      cases hd2 : g₂ d with
      | some td =>
        have hlt' := hr k t hu d hd (by simp [gunion, hd2])
        exact ih d (by simp [hd2]) (by omega)
      | none =>
        rw [run_union_lower I g₁ g₂ inp h n d hd2, run_undefined I g₂ _ d hd2]
        cases hd1 : g₁ d with
        | none => simp [inpVal, cutInp, hd1, run_undefined I g₁ inp d hd1]
        | some td =>
          have hlt' := hr k t hu d hd (by simp [gunion, hd2, hd1])
          simp only [inpVal, cutInp, hd1]
          exact run_stable I g₁ inp rank hr₁ (rank d + 1) d (by omega) n (by omega)

end Dx
