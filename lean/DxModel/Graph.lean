/-
  Graph.lean — key-indexed task graphs, the task language, a total evaluator.

  Mathlib-free (the driver executable links against this file).

  A graph is a *function* `κ → Option (Tsk κ)` over a layer-specific key type κ
  (look-ups are then definitional); every layer additionally lists its keys so
  that the listing can be compared with the dict the real `_layer()` returns.
-/
namespace Dx

/-- A row of a partition.  `idx` is the index value (ordered domain, embedded in Int),
    `tgt` the value of the `_partitions` column (hash(key) % npartitions_out),
    `pay` everything else. -/
structure Row where
  idx : Int
  tgt : Nat
  pay : Nat
deriving DecidableEq, Repr, Inhabited

/-- Runtime values flowing between tasks. -/
inductive V where
  | frame  (rows : List Row)
  | groups (g : List (Nat × List Row))        -- dict {int: frame} returned by shuffle_group
  | pieces (ps : List (List Row))              -- list of frames (split_evenly / tree levels)
  | unit                                       -- None (barrier, partd append)
  | err                                        -- KeyError / ill-typed / out of fuel
deriving Repr, Inhabited, DecidableEq

/-- First-order task language: one constructor per helper the real layers call. -/
inductive Tsk (κ : Type) where
  | alias (k : κ)
  | const (rows : List Row)                                    -- an embedded literal frame (meta)
  | concat (ks : List κ) (ignoreIndex : Bool)                  -- _concat / methods.concat
  | getitem (k : κ) (i : Nat)                                  -- operator.getitem on a dict
  | shuffleGroup (k : κ) (filter : Option (List Nat)) (stage nsplit nin nfinal : Nat)
  | shuffleGroup2 (k : κ) (nfinal : Nat)
  | shuffleGroupGet (k : κ) (i : Nat)
  | boundarySlice (k : κ) (lo hi : Int) (incl : Bool)          -- boundary_slice(df, lo, hi, right_boundary=incl)
  | splitEvenly (k : κ) (n : Nat)                              -- split_evenly(df, n) -> dict
  | pieceOf (k : κ) (i : Nat)                                  -- getitem on split_evenly output
  | diskWrite (k : κ) (filter : List Nat)                      -- DiskShuffle._shuffle_group (returns None)
  | barrier (ks : List κ)
  | collect (ks : List κ) (part : Nat) (barrier : κ)           -- partd collect: all rows written with tgt = part
  | apply (f : Nat) (args : List κ)                            -- uninterpreted n-ary function on frames
deriving Repr

namespace Tsk
/-- Keys a task reads. -/
def refs {κ} : Tsk κ → List κ
  | .alias k => [k]
  | .const _ => []
  | .concat ks _ => ks
  | .getitem k _ => [k]
  | .shuffleGroup k _ _ _ _ _ => [k]
  | .shuffleGroup2 k _ => [k]
  | .shuffleGroupGet k _ => [k]
  | .boundarySlice k _ _ _ => [k]
  | .splitEvenly k _ => [k]
  | .pieceOf k _ => [k]
  | .diskWrite k _ => [k]
  | .barrier ks => ks
  | .collect ks _ b => b :: ks
  | .apply _ args => args
end Tsk

abbrev Graph (κ : Type) := κ → Option (Tsk κ)

/-! ### Specifications of the helper functions (the boundary of the proof; validated by T4) -/

def concatV : List V → V
  | [] => .frame []
  | .frame r :: t => match concatV t with
      | .frame rs => .frame (r ++ rs)
      | _ => .err
  | _ :: _ => .err

/-- stage digit of a row: `(ind % npartitions) // k**stage % k` -/
def stageDigit (nin k stage : Nat) (r : Row) : Nat := (r.tgt % nin) / k ^ stage % k

/-- `SimpleShuffle._shuffle_group`: dict over `range k`, restricted to `filter` -/
def shuffleGroupSpec (rows : List Row) (filter : Option (List Nat)) (stage k nin : Nat) :
    List (Nat × List Row) :=
  let ks := (List.range k).filter (fun c => match filter with | none => true | some f => f.contains c)
  ks.map (fun c => (c, rows.filter (fun r => stageDigit nin k stage r == c)))

def lookupG : List (Nat × List Row) → Nat → V
  | [], _ => .err                      -- KeyError
  | (k, rows) :: t, i => if k = i then .frame rows else lookupG t i

/-- `shuffle_group_get(shuffle_group_2(df), i)`: the rows whose `_partitions` value is `i`
    (an absent group yields the empty head). -/
def group2Get (rows : List Row) (i : Nat) : List Row := rows.filter (fun r => r.tgt == i)

/-- `boundary_slice(df, lo, hi, right_boundary=incl)` on a frame (no sortedness assumed:
    the real helper uses `.loc[lo:hi]` on a monotonic index, which selects exactly these rows;
    T4 validates this on sorted inputs, the only ones the planner produces). -/
def boundarySliceSpec (rows : List Row) (lo hi : Int) (incl : Bool) : List Row :=
  rows.filter (fun r => decide (lo ≤ r.idx) && (decide (r.idx < hi) || (incl && decide (r.idx = hi))))

/-- `split_evenly(df, n)`: piece `i` is rows `[⌊len*i/n⌋, ⌊len*(i+1)/n⌋)` -/
def splitEvenlySpec (rows : List Row) (n : Nat) : List (List Row) :=
  (List.range n).map (fun i =>
    (rows.drop (rows.length * i / n)).take (rows.length * (i+1) / n - rows.length * i / n))

def nthPiece : List (List Row) → Nat → V
  | [], _ => .err
  | p :: _, 0 => .frame p
  | _ :: t, i+1 => nthPiece t i

/-- Interpretation of the uninterpreted functions `apply f`. -/
abbrev Interp := Nat → List V → V

def allFrames : List V → Option (List (List Row))
  | [] => some []
  | .frame r :: t => match allFrames t with
      | some rs => some (r :: rs)
      | none => none
  | _ :: _ => none

/-- Evaluate one task given the values of the keys it refers to. -/
def evalTsk {κ} (I : Interp) (ev : κ → V) : Tsk κ → V
  | .alias k => ev k
  | .const rows => .frame rows
  | .concat ks _ => concatV (ks.map ev)
  | .getitem k i => match ev k with
      | .groups g => lookupG g i
      | _ => .err
  | .shuffleGroup k f stage nsplit nin _ => match ev k with
      | .frame rows => .groups (shuffleGroupSpec rows f stage nsplit nin)
      | _ => .err
  | .shuffleGroup2 k _ => match ev k with
      | .frame rows => .frame rows        -- grouping is deferred to shuffleGroupGet (dict + empty head)
      | _ => .err
  | .shuffleGroupGet k i => match ev k with
      | .frame rows => .frame (group2Get rows i)
      | _ => .err
  | .boundarySlice k lo hi incl => match ev k with
      | .frame rows => .frame (boundarySliceSpec rows lo hi incl)
      | _ => .err
  | .splitEvenly k n => match ev k with
      | .frame rows => .pieces (splitEvenlySpec rows n)
      | _ => .err
  | .pieceOf k i => match ev k with
      | .pieces ps => nthPiece ps i
      | _ => .err
  | .diskWrite k _ => match ev k with
      | .frame _ => .unit
      | _ => .err
  | .barrier ks => if (ks.map ev).all (fun v => v == .unit) then .unit else .err
  | .collect ks part b => match ev b with
      | .unit => (match concatV (ks.map ev) with
          | .frame rows => .frame (group2Get rows part)
          | _ => .err)
      | _ => .err
  | .apply f args => I f (args.map ev)

def inpVal {κ} (inp : κ → Option V) (k : κ) : V :=
  match inp k with
  | some v => v
  | none => .err

/-- Fuel-indexed total evaluator.  `inp` gives the values of keys the graph does not define
    (outputs of dependencies); a key defined nowhere evaluates to `err` (KeyError). -/
def run {κ} (I : Interp) (g : Graph κ) (inp : κ → Option V) : Nat → κ → V
  | 0, k => match g k with
      | some _ => .err
      | none => inpVal inp k
  | fuel+1, k => match g k with
      | some t => evalTsk I (run I g inp fuel) t
      | none => inpVal inp k

/-! ### Well-formedness of graphs -/

/-- Every key referenced by a defined task is defined in the graph or is an input. -/
def Closed {κ} (g : Graph κ) (inp : κ → Option V) : Prop :=
  ∀ k t, g k = some t → ∀ d ∈ t.refs, (g d).isSome ∨ (inp d).isSome

/-- A rank function strictly decreasing along references inside the graph (⇒ acyclic). -/
def Ranked {κ} (g : Graph κ) (rank : κ → Nat) : Prop :=
  ∀ k t, g k = some t → ∀ d ∈ t.refs, (g d).isSome → rank d < rank k

/-- `evalTsk` only looks at the values of `refs`. -/
theorem evalTsk_congr {κ} (I : Interp) (ev₁ ev₂ : κ → V) (t : Tsk κ)
    (h : ∀ d ∈ t.refs, ev₁ d = ev₂ d) : evalTsk I ev₁ t = evalTsk I ev₂ t := by
  cases t with
  | alias k => simp [evalTsk, h k (by simp [Tsk.refs])]
  | const r => rfl
  | concat ks ii =>
    simp only [evalTsk]
    congr 1
    apply List.map_congr_left
    intro d hd; exact h d (by simpa [Tsk.refs] using hd)
  | getitem k i => simp [evalTsk, h k (by simp [Tsk.refs])]
  | shuffleGroup k f s n m q => simp [evalTsk, h k (by simp [Tsk.refs])]
  | shuffleGroup2 k n => simp [evalTsk, h k (by simp [Tsk.refs])]
  | shuffleGroupGet k i => simp [evalTsk, h k (by simp [Tsk.refs])]
  | boundarySlice k lo hi incl => simp [evalTsk, h k (by simp [Tsk.refs])]
  | splitEvenly k n => simp [evalTsk, h k (by simp [Tsk.refs])]
  | pieceOf k i => simp [evalTsk, h k (by simp [Tsk.refs])]
  | diskWrite k f => simp [evalTsk, h k (by simp [Tsk.refs])]
  | barrier ks =>
    simp only [evalTsk]
    have : ks.map ev₁ = ks.map ev₂ := by
      apply List.map_congr_left
      intro d hd; exact h d (by simpa [Tsk.refs] using hd)
    rw [this]
  | collect ks p b =>
    simp only [evalTsk]
    have hb : ev₁ b = ev₂ b := h b (by simp [Tsk.refs])
    have : ks.map ev₁ = ks.map ev₂ := by
      apply List.map_congr_left
      intro d hd; exact h d (by simp [Tsk.refs, hd])
    rw [hb, this]
  | apply f args =>
    simp only [evalTsk]
    congr 1
    apply List.map_congr_left
    intro d hd; exact h d (by simpa [Tsk.refs] using hd)

theorem run_succ {κ} (I : Interp) (g : Graph κ) (inp : κ → Option V) (n : Nat) (k : κ) :
    run I g inp (n+1) k =
      (match g k with
        | some t => evalTsk I (run I g inp n) t
        | none => inpVal inp k) := by
  simp only [run]

theorem run_defined {κ} (I : Interp) (g : Graph κ) (inp : κ → Option V) (n : Nat) (k : κ) (t : Tsk κ)
    (h : g k = some t) : run I g inp (n+1) k = evalTsk I (run I g inp n) t := by
  simp only [run, h]

theorem run_undefined {κ} (I : Interp) (g : Graph κ) (inp : κ → Option V) (k : κ) (h : g k = none) :
    ∀ n, run I g inp n k = inpVal inp k := by
  intro n; cases n <;> simp [run, h]

/-- With enough fuel the value of a key no longer depends on the fuel:
    the value is a function of the graph and its inputs only. -/
theorem run_stable {κ} (I : Interp) (g : Graph κ) (inp : κ → Option V) (rank : κ → Nat)
    (hr : Ranked g rank) :
    ∀ (n : Nat) (k : κ), rank k < n → ∀ m, n ≤ m → run I g inp m k = run I g inp n k := by
  intro n
  induction n with
  | zero => intro k hk; omega
  | succ n ih =>
    intro k hk m hm
    obtain ⟨m', rfl⟩ : ∃ m', m = m' + 1 := ⟨m - 1, by omega⟩
    simp only [run]
    cases hg : g k with
    | none => rfl
    | some t =>
      simp only
      apply evalTsk_congr
      intro d hd
      cases hgd : g d with
      | none => rw [run_undefined I g inp d hgd, run_undefined I g inp d hgd]
      | some td =>
        have hlt := hr k t hg d hd (by simp [hgd])
        exact ih d (by omega) m' (by omega)

end Dx
