/-
  Props/C18.lean — parquet reads with pushed-down work equal reading everything.
  Instances for the reader of the filter theorems (C03), plus the parquet-specific planner logic.
-/
import DxModel.Parquet
import DxModel.ParquetStats
import DxModel.Lemmas.ParquetStats
import DxModel.Props.C03
namespace Dx
open Parquet Pred

/-- multi-file fused reads: the buckets are an ordered partition of the selected partitions — every
    file is read exactly once, in order — for every list of partitions and every step ≥ 1. -/
theorem C18_fusion_buckets_partition {α} (step : Nat) (hs : 0 < step) (parts : List α) :
    (fusionBuckets step parts).flatten = parts :=
  chunks_flatten step hs parts.length parts (Nat.le_refl _)

theorem C18_fusion_buckets_nonempty {α} (step : Nat) (hs : 0 < step) (parts : List α) :
    ∀ b ∈ fusionBuckets step parts, b ≠ [] ∧ b.length ≤ step :=
  chunks_nonempty step hs parts.length parts

/-- a fused partition (concat of its member reads) changes granularity only -/
theorem C18_tune_only_granularity {α β} (read : α → List β) (step : Nat) (hs : 0 < step) (parts : List α) :
    ((fusionBuckets step parts).map (fun b => b.flatMap read)).flatten = parts.flatMap read := by
  have h := C18_fusion_buckets_partition step hs parts
  generalize fusionBuckets step parts = bs at h
  subst h
  induction bs with
  | nil => rfl
  | cons b t ih => simp [List.flatMap_append, ih]

/-- pushed-down row filters: whenever `extract_pq_filters` hands filters to the reader, the reader
    (Kleene evaluation on the combined DNF, row kept iff true) keeps exactly the rows pandas keeps,
    including rows with missing values (instance of C03 for the reader; no side condition since the
    `fix:` for D9 — `!=` is no longer extracted) -/
theorem C18_filter_pushdown (p : T Atom) (d : DNF Atom) (v : Cells) (h : extractPq p = some d) :
    keepDNF3 v d = eval2c v p :=
  C03_reader_pushdown p d v h

/-- why `!=` must stay in memory: as a reader filter it would drop the rows whose value is null -/
theorem C18_ne_pushdown_would_be_unsound :
    ∃ (v : Cells), keepDNF3 v [[Atom.cmp 0 .ne 2]] ≠ eval2c v (.atom (.cmp 0 .ne 2)) :=
  C03_ne_pushdown_would_be_unsound

/-- overwrite guard: writing into directory `w` is refused exactly when `w` is a component-wise prefix
    of a path the same query reads (so "/data/a" does not block "/data/ab") -/
theorem C18_overwrite_guard (r w : List String) : guardRefuses r w = true ↔ ∃ rest, r = w ++ rest := by
  unfold guardRefuses
  constructor
  · intro h
    obtain ⟨rest, hr⟩ := List.isPrefixOf_iff_prefix.mp h
    exact ⟨rest, hr.symm⟩
  · intro h
    obtain ⟨rest, hr⟩ := h
    exact List.isPrefixOf_iff_prefix.mpr ⟨rest, hr.symm⟩


/-! ## statistics → divisions, fragment order, lengths  (model: DxModel/ParquetStats.lean)

The full statement asked of both readers is

    whenever a reader reports known divisions `d` and a reading order `σ`, then for EVERY dataset whose per-file
    index values lie within that file's reported [min, max], the partitions read in that order satisfy
    `Truthful d parts` (C06: partition i within [d i, d (i+1)), the last one closed; d sorted)        (FULL)

(FULL) is false for the code as it is, for both readers, in the boundary case max_i = min_{i+1}
(`C18_touching_boundary_counterexample`, open finding D92): both `sorted_columns` (`min >= max`) and, since fix D91,
`_divisions_from_statistics` (`file_min < last_max` rejects) accept touching ranges.  What is proven:
  * the closed-interval reading `TruthfulClosed` + `SortedAcross` for EVERY known answer of either reader, with no
    hypothesis on how the files' ranges relate (overlaps are detected: `C18_arrow_known_ranges_sorted`,
    `C18_arrow_overlap_gives_unknown`, `C18_fsspec_known_only_if_sorted`);
  * (FULL) under the hypothesis that no file's max equals another file's min (`…_truthful_partial`). -/

section Statistics
open PqStats

/-- (b, arrow) known divisions are reported only when every file has min and max; then the answer is the one
    computed from the (min, max) list -/
theorem C18_arrow_known_needs_complete_statistics (agg : List AggFile) (d : List Int) (σ : List Nat)
    (h : divisionsFromStatistics agg = .known d σ) :
    ∃ mm, completeStats agg = some mm ∧ agg ≠ [] ∧ mm.length = agg.length ∧ divisionsOfMinMax mm = .known d σ := by
  have ⟨mm, hc, hne, hk⟩ := divisionsFromStatistics_known agg d σ h
  exact ⟨mm, hc, hne, completeStats_length agg mm hc, hk⟩

/-- (b, arrow) a file without a statistics object makes the statistics collection raise; a file without
    min/max or without row groups never yields known divisions (the code raises, or reports all-`None`) -/
theorem C18_arrow_missing_statistics_never_known (agg : List AggFile) (h : completeStats agg = none)
    (d : List Int) (σ : List Nat) : divisionsFromStatistics agg ≠ .known d σ := by
  intro hk
  have ⟨mm, hc, _⟩ := divisionsFromStatistics_known agg d σ hk
  rw [h] at hc
  cases hc

theorem C18_arrow_no_statistics_object_raises (fs : List RawFile) (f : RawFile) (g : RawRG) (hf : f ∈ fs) (hg : g ∈ f.rgs)
    (hn : g.stats = none) (calcDiv : Bool) :
    aggregatedStatistics fs = .raised ∧
      (calcDiv = true → divisionFromStats calcDiv fs.length (aggregatedStatistics fs) = .raised) := by
  have hrg : ∀ (l : List RawRG), g ∈ l → extractRGs l = .raised := by
    intro l
    induction l with
    | nil => intro h; cases h
    | cons x t ih =>
      intro h
      rcases List.mem_cons.mp h with rfl | h
      · simp [extractRGs, hn]
      · simp only [extractRGs, ih h]; split <;> simp_all
  have hfile : extractFile f = .raised := by simp [extractFile, hrg f.rgs hg]
  have hall : ∀ (l : List RawFile), f ∈ l → extractAll l = .raised := by
    intro l
    induction l with
    | nil => intro h; cases h
    | cons x t ih =>
      intro h
      rcases List.mem_cons.mp h with rfl | h
      · simp [extractAll, hfile]
      · simp only [extractAll, ih h]; split <;> simp_all
  have hagg : aggregatedStatistics fs = .raised := by simp [aggregatedStatistics, hall fs hf]
  refine ⟨hagg, ?_⟩
  intro hc
  simp [divisionFromStats, hc, hagg]

/-- (b, arrow, after fix D91) known divisions ⇒ in the reported reading order `σ` no file's range starts before the
    previous one ends (max_i ≤ min_{i+1}), and the divisions are the mins in that order followed by the last max -/
theorem C18_arrow_known_ranges_sorted (agg : List AggFile) (d : List Int) (σ : List Nat)
    (h : divisionsFromStatistics agg = .known d σ) :
    ∃ mm S, completeStats agg = some mm ∧ pick mm σ = some S ∧ Adj (fun a b => a.2 ≤ b.1) S ∧ d = divsOf S := by
  have ⟨mm, hc, hne, hlen, hk⟩ := C18_arrow_known_needs_complete_statistics agg d σ h
  have hmm : mm ≠ [] := fun he => hne (List.length_eq_zero_iff.mp (by rw [← hlen, he]; rfl))
  have ⟨hadj, hd, hσ⟩ := divisionsOfMinMax_known mm hmm d σ hk
  exact ⟨mm, _, hc, by rw [hσ]; exact pick_argsort mm, hadj, hd⟩

/-- … hence (well-formed statistics) the ranges of ALL pairs of files are non-overlapping: they may only touch -/
theorem C18_arrow_known_ranges_disjoint (agg : List AggFile) (mm : List (Int × Int)) (d : List Int) (σ : List Nat)
    (hc : completeStats agg = some mm) (h : divisionsFromStatistics agg = .known d σ) (hwf : ∀ s ∈ mm, s.1 ≤ s.2) :
    mm.Pairwise (fun a b => a.2 ≤ b.1 ∨ b.2 ≤ a.1) := by
  have ⟨mm', hc', hne, hlen, hk⟩ := C18_arrow_known_needs_complete_statistics agg d σ h
  rw [hc] at hc'
  cases hc'
  have hmm : mm ≠ [] := fun he => hne (List.length_eq_zero_iff.mp (by rw [← hlen, he]; rfl))
  have ⟨hadj, _, _⟩ := divisionsOfMinMax_known mm hmm d σ hk
  have hperm := argsort_fst_perm mm
  have hp := pairwise_of_adj_wf _ (fun s hs => hwf s (hperm.mem_iff.mp hs)) hadj
  have hp' : ((argsortPairs mm).map (·.1)).Pairwise (fun a b => a.2 ≤ b.1 ∨ b.2 ≤ a.1) := hp.imp (fun h => Or.inl h)
  exact (hperm.pairwise_iff (fun h => h.symm)).mp hp'

/-- (b, arrow) overlapping ranges — two files of which neither ends before the other starts — give unknown
    divisions (all `None`, no sort index: the fragments stay in listing order), never wrong ones -/
theorem C18_arrow_overlap_gives_unknown (agg : List AggFile) (mm : List (Int × Int)) (hc : completeStats agg = some mm)
    (hne : agg ≠ []) (hwf : ∀ s ∈ mm, s.1 ≤ s.2) (hov : ¬ mm.Pairwise (fun a b => a.2 ≤ b.1 ∨ b.2 ≤ a.1)) :
    divisionsFromStatistics agg = .unknown agg.length none := by
  have hlen := completeStats_length agg mm hc
  have hmm : mm ≠ [] := fun he => hne (List.length_eq_zero_iff.mp (by rw [← hlen, he]; rfl))
  rw [divisionsFromStatistics_complete agg mm hc hne, divisionsOfMinMax_eq mm hmm]
  split
  · rename_i hok
    exfalso
    apply hov
    have hk : divisionsFromStatistics agg = .known (divsOf ((argsortPairs mm).map (·.1))) ((argsortPairs mm).map (·.2)) := by
      rw [divisionsFromStatistics_complete agg mm hc hne, divisionsOfMinMax_eq mm hmm, if_pos hok]
    exact C18_arrow_known_ranges_disjoint agg mm _ _ hc hk hwf
  · rw [hlen]

/-- (c) the sort index is a permutation of the file positions: reordering the fragments loses and duplicates
    nothing; in particular the concatenated rows are the same multiset -/
theorem C18_fragment_order_permutation {α} (agg : List AggFile) (d : List Int) (σ : List Nat)
    (h : divisionsFromStatistics agg = .known d σ) (unsorted : List α) (hl : unsorted.length = agg.length) :
    σ.Perm (List.range agg.length) ∧ ∃ frs, fragments (.known d σ) unsorted = some frs ∧ frs.Perm unsorted := by
  have ⟨mm, hc, hne, hlen, hk⟩ := C18_arrow_known_needs_complete_statistics agg d σ h
  have hmm : mm ≠ [] := fun he => hne (List.length_eq_zero_iff.mp (by rw [← hlen, he]; rfl))
  have ⟨_, _, hσe⟩ := divisionsOfMinMax_known mm hmm d σ hk
  have hσ : σ.Perm (List.range agg.length) := by rw [hσe, ← hlen]; exact argsort_idx_perm mm
  refine ⟨hσ, ?_⟩
  have hlt : ∀ i ∈ σ, i < unsorted.length := fun i hi => by
    have := hσ.mem_iff.mp hi
    rw [hl]; exact List.mem_range.mp this
  have ⟨frs, hfrs⟩ := pick_total unsorted σ hlt
  exact ⟨frs, hfrs, pick_perm unsorted σ frs (by rw [hl]; exact hσ) hfrs⟩

theorem C18_fragment_order_same_rows {β} (agg : List AggFile) (d : List Int) (σ : List Nat)
    (h : divisionsFromStatistics agg = .known d σ) (files : List (List β)) (hl : files.length = agg.length) :
    ∃ parts, fragments (.known d σ) files = some parts ∧ parts.flatten.Perm files.flatten := by
  have ⟨_, parts, hp, hperm⟩ := C18_fragment_order_permutation agg d σ h files hl
  exact ⟨parts, hp, hperm.flatten⟩

/-- (a, arrow) whenever the arrow reader reports known divisions, then — whatever the order in which the files are
    listed and with no assumption on how their ranges relate — for EVERY dataset within the (well-formed) statistics
    the fragments in the reported order satisfy the closed-interval reading, the divisions are sorted and the rows
    are sorted across partitions -/
theorem C18_arrow_divisions_closed (agg : List AggFile) (mm : List (Int × Int)) (files : List (List Int))
    (d : List Int) (σ : List Nat)
    (hc : completeStats agg = some mm) (h : divisionsFromStatistics agg = .known d σ)
    (hw : Within mm files) (hwf : ∀ s ∈ mm, s.1 ≤ s.2) :
    ∃ parts, fragments (.known d σ) files = some parts ∧ TruthfulClosed d parts ∧ SortedAcross parts := by
  have ⟨mm', hc', hne, hlen, hk⟩ := C18_arrow_known_needs_complete_statistics agg d σ h
  rw [hc] at hc'
  cases hc'
  have hmm : mm ≠ [] := fun he => hne (List.length_eq_zero_iff.mp (by rw [← hlen, he]; rfl))
  have ⟨_, parts, hp, _⟩ := C18_fragment_order_permutation agg d σ h files (by rw [← hw.1, hlen])
  have ⟨hadj, hd, hσ⟩ := divisionsOfMinMax_known mm hmm d σ hk
  subst hd hσ
  have hws := within_sorted mm files hw parts hp
  have hne' : (argsortPairs mm).map (·.1) ≠ [] := fun he => by
    have := (argsort_fst_perm mm).length_eq
    rw [he] at this
    exact hmm (List.length_eq_zero_iff.mp this.symm)
  have hwf' : ∀ s ∈ (argsortPairs mm).map (·.1), s.1 ≤ s.2 := fun s hs => hwf s ((argsort_fst_perm mm).mem_iff.mp hs)
  have ht := truthfulClosed_of_touching _ parts hne' hws hwf' hadj
  exact ⟨parts, hp, ht, ht.sortedAcross⟩

/-- (a, arrow) FULL under the hypothesis that no file's max equals another file's min (no touching boundaries):
    the reported divisions are truthful in the sense of C06 -/
theorem C18_arrow_divisions_truthful_partial (agg : List AggFile) (mm : List (Int × Int)) (files : List (List Int))
    (d : List Int) (σ : List Nat)
    (hc : completeStats agg = some mm) (h : divisionsFromStatistics agg = .known d σ)
    (hw : Within mm files) (hwf : ∀ s ∈ mm, s.1 ≤ s.2)
    (hnt : mm.Pairwise (fun a b => a.2 ≠ b.1 ∧ b.2 ≠ a.1)) :
    ∃ parts, fragments (.known d σ) files = some parts ∧ Truthful d parts ∧ SortedAcross parts := by
  have ⟨mm', hc', hne, hlen, hk⟩ := C18_arrow_known_needs_complete_statistics agg d σ h
  rw [hc] at hc'
  cases hc'
  have hmm : mm ≠ [] := fun he => hne (List.length_eq_zero_iff.mp (by rw [← hlen, he]; rfl))
  have ⟨_, parts, hp, _⟩ := C18_fragment_order_permutation agg d σ h files (by rw [← hw.1, hlen])
  have ⟨hadj, hd, hσ⟩ := divisionsOfMinMax_known mm hmm d σ hk
  subst hd hσ
  have hws := within_sorted mm files hw parts hp
  have hperm := argsort_fst_perm mm
  have hne' : (argsortPairs mm).map (·.1) ≠ [] := fun he => by
    have := hperm.length_eq
    rw [he] at this
    exact hmm (List.length_eq_zero_iff.mp this.symm)
  have hwf' : ∀ s ∈ (argsortPairs mm).map (·.1), s.1 ≤ s.2 := fun s hs => hwf s (hperm.mem_iff.mp hs)
  have hnt' : ((argsortPairs mm).map (·.1)).Pairwise (fun a b => a.2 ≠ b.1 ∧ b.2 ≠ a.1) :=
    (hperm.pairwise_iff (fun h => ⟨h.2, h.1⟩)).mpr hnt
  have hstrict : Adj (fun a b => a.2 < b.1) ((argsortPairs mm).map (·.1)) := by
    have hle := pairwise_of_adj_wf _ hwf' hadj
    apply adj_of_pairwise
    refine (hle.and hnt').imp ?_
    intro a b hab
    have h1 : a.2 ≤ b.1 := hab.1
    have h2 : a.2 ≠ b.1 := hab.2.1
    omega
  have ht := truthful_of_strict _ parts hne' hws hwf' hstrict
  exact ⟨parts, hp, ht, ht.closed.sortedAcross⟩

/-- (a, fsspec) whenever `_calculate_divisions` reports known divisions, the files are read in the listed order,
    every part has statistics, and for EVERY dataset within them the divisions are truthful in the closed-interval
    reading and sorted, and the rows are sorted across partitions -/
theorem C18_fsspec_divisions_closed (stats : List FStat) (g c s : Bool) (n : Nat) (d : List Int) (σ : List Nat)
    (h : calculateDivisions stats g c s n = .known d σ) :
    σ = List.range n ∧ ∃ S, mmOf stats = some S ∧
      ∀ files, Within S files → TruthfulClosed d files ∧ SortedAcross files := by
  have ⟨hσ, hsc, _⟩ := calculateDivisions_known stats g c s n d σ h
  have ⟨S, hS, hne, hd, hadj, hsorted⟩ := sortedColumns_known stats d hsc
  refine ⟨hσ, S, hS, ?_⟩
  intro files hw
  have ht : TruthfulClosed d files := {
    len := by rw [hd, divsOf_length S hne, hw.1]
    sorted := hsorted
    bounds := by rw [hd]; exact divsOf_bounds_closed S files hw hadj }
  exact ⟨ht, ht.sortedAcross⟩

/-- (a, fsspec) FULL under the hypothesis that consecutive parts are strictly separated -/
theorem C18_fsspec_divisions_truthful_partial (stats : List FStat) (g c s : Bool) (n : Nat) (d : List Int) (σ : List Nat)
    (h : calculateDivisions stats g c s n = .known d σ) (S : List (Int × Int)) (hS : mmOf stats = some S)
    (hsep : Adj (fun a b => a.2 < b.1) S) (files : List (List Int)) (hw : Within S files) : Truthful d files := by
  have ⟨_, hsc, _⟩ := calculateDivisions_known stats g c s n d σ h
  have ⟨S', hS', hne, hd, _, hsorted⟩ := sortedColumns_known stats d hsc
  rw [hS] at hS'
  cases hS'
  exact {
    len := by rw [hd, divsOf_length S hne, hw.1]
    sorted := hsorted
    bounds := by rw [hd]; exact divsOf_bounds_strict S files hw hsep }

/-- (b, fsspec) known divisions are reported only if every part has min and max and no part starts before the
    previous one ends — so unsorted, overlapping or missing statistics (a part without min/max, an all-null part)
    always give unknown divisions (or an exception), never wrong ones; and only when statistics were gathered,
    `calculate_divisions` is not `False` and the index is a single column -/
theorem C18_fsspec_known_only_if_sorted (stats : List FStat) (g c s : Bool) (n : Nat) (d : List Int) (σ : List Nat)
    (h : calculateDivisions stats g c s n = .known d σ) :
    g = true ∧ c = true ∧ s = true ∧
      ∃ S, mmOf stats = some S ∧ S.length = stats.length ∧ Adj (fun a b => a.2 ≤ b.1) S ∧ d = divsOf S ∧ d.Pairwise (· ≤ ·) := by
  have ⟨_, hsc, hg, hc, hs⟩ := calculateDivisions_known stats g c s n d σ h
  have ⟨S, hS, _, hd, hadj, hsorted⟩ := sortedColumns_known stats d hsc
  exact ⟨hg, hc, hs, S, hS, mmOf_length stats S hS, hadj, hd, hsorted⟩

/-- the boundary case max_i = min_{i+1}: BOTH readers report divisions `[0, 10, 15]` for the statistics
    (0,10), (10,15); the dataset [[0, 10], [10, 15]] lies within the statistics, and its first partition holds the
    index value 10 = d 1, outside [d 0, d 1): (FULL) is false.  (Observable: `loc[10]` looks only into partition 1.) -/
theorem C18_touching_boundary_counterexample :
    let agg : List AggFile := [⟨2, some (some (0, 10))⟩, ⟨2, some (some (10, 15))⟩]
    let stats : List FStat := [⟨2, .mm (some (0, 10))⟩, ⟨2, .mm (some (10, 15))⟩]
    let files : List (List Int) := [[0, 10], [10, 15]]
    divisionsFromStatistics agg = .known [0, 10, 15] [0, 1] ∧
    calculateDivisions stats true true true 2 = .known [0, 10, 15] [0, 1] ∧
    Within [(0, 10), (10, 15)] files ∧ fragments (.known [0, 10, 15] [0, 1]) files = some files ∧
    ¬ Truthful [0, 10, 15] files ∧ TruthfulClosed [0, 10, 15] files := by
  refine ⟨?_, by decide, ?_, by decide, ?_, ?_⟩
  · simp [divisionsFromStatistics, colsOf, allPresent, divisionsOfMinMax, argsortPairs, List.mergeSort, List.zipIdx,
      lexLe, List.MergeSort.Internal.splitInTwo, divLoop]
  · refine ⟨rfl, ?_⟩
    intro i s f hs hf v hv
    match i with
    | 0 => simp at hs hf; subst hs hf; simp at hv; omega
    | 1 => simp at hs hf; subst hs hf; simp at hv; omega
    | k + 2 => simp at hs
  · intro ht
    have := ht.bounds 0 0 10 [0, 10] rfl rfl rfl 10 (by simp)
    simp at this
  · refine ⟨rfl, by decide, ?_⟩
    intro i lo hi p hlo hhi hp v hv
    match i with
    | 0 => simp at hlo hhi hp; subst hlo hhi hp; simp at hv; omega
    | 1 => simp at hlo hhi hp; subst hlo hhi hp; simp at hv; omega
    | k + 2 => simp at hhi

/-- the witness of the fixed finding D91 (overlapping files (0,10), (5,15), also with a contained range): both
    readers now report unknown divisions and the arrow reader keeps the listing order -/
theorem C18_overlap_unknown_both_readers :
    divisionsFromStatistics [⟨3, some (some (0, 10))⟩, ⟨3, some (some (5, 15))⟩] = .unknown 2 none ∧
    divisionsFromStatistics [⟨3, some (some (0, 10))⟩, ⟨2, some (some (2, 3))⟩] = .unknown 2 none ∧
    calculateDivisions [⟨3, .mm (some (0, 10))⟩, ⟨3, .mm (some (5, 15))⟩] true true true 2 = .unknown 2 none ∧
    fragments (α := Nat) (.unknown 2 none) [0, 1] = some [0, 1] := by
  refine ⟨?_, ?_, by decide, by decide⟩
  · simp [divisionsFromStatistics, colsOf, allPresent, divisionsOfMinMax, argsortPairs, List.mergeSort, List.zipIdx,
      lexLe, List.MergeSort.Internal.splitInTwo, divLoop]
  · simp [divisionsFromStatistics, colsOf, allPresent, divisionsOfMinMax, argsortPairs, List.mergeSort, List.zipIdx,
      lexLe, List.MergeSort.Internal.splitInTwo, divLoop]

/-- fsspec `_align_statistics`: parts and statistics stay paired; exactly the parts without rows are dropped (they
    contribute no row, so the concatenated result is unchanged) -/
theorem C18_fsspec_align_statistics {α} (parts : List α) (stats : List FStat) (hl : parts.length = stats.length)
    (hne : stats ≠ []) :
    (alignStatistics parts stats).1.zip (alignStatistics parts stats).2 =
      (parts.zip stats).filter (fun p => decide (p.2.numRows > 0)) := by
  have h1 : (parts.length != stats.length) = false := by simp [hl]
  have h2 : stats.isEmpty = false := by cases stats <;> simp_all
  simp only [alignStatistics, h1, h2, Bool.not_false, Bool.and_false, Bool.false_eq_true, ↓reduceIte]
  generalize (parts.zip stats).filter (fun p => decide (p.2.numRows > 0)) = z
  induction z with
  | nil => rfl
  | cons a t ih => simp [ih]

/-- arrow reader without `calculate_divisions`: unknown divisions, fragments in listing order -/
theorem C18_arrow_no_calculate_divisions {α} (n : Nat) (agg : Res (List AggFile)) (unsorted : List α) :
    divisionFromStats false n agg = .unknown n none ∧ fragments (divisionFromStats false n agg) unsorted = some unsorted := by
  simp [divisionFromStats, fragments, sortIndex]

/-! ## row-count metadata -/

/-- arrow `_get_lengths` (no filters): exactly the `num_rows` of the fragments the tasks read — `fragments[i]` for
    `i` in `_partitions`, in selection order, repetitions included; `fragments` being the statistics-sorted list
    when there is a sort index.  A selection beyond the fragments raises. -/
theorem C18_arrow_lengths (agg : List AggFile) (out : DivOut) (sel : Option (List Nat)) :
    arrowGetLengths false agg (sortIndex out) sel =
      (match fragments out agg with
       | none => .raised
       | some frs =>
         match sel with
         | none => .ok (some (frs.map (·.numRows)))
         | some P =>
           match pick frs P with
           | some chosen => .ok (some (chosen.map (·.numRows)))
           | none => .raised) :=
  arrowGetLengths_eq agg out sel

/-- fsspec `_get_lengths` (no filters, plan statistics `rows`): `rows[i]` for `i` in `_partitions`, in selection
    order, repetitions included, for ANY selection list -/
theorem C18_fsspec_lengths (rows : List Nat) (sel : Option (List Nat)) :
    fsspecGetLengths false rows sel =
      (match sel with
       | none => .ok (some rows)
       | some P =>
         match pick rows P with
         | some r => .ok (some r)
         | none => .raised) :=
  fsspecGetLengths_eq rows sel

/-- with filters neither reader answers from metadata -/
theorem C18_lengths_not_pushed_with_filters (agg : List AggFile) (rows : List Nat) (si sel : Option (List Nat)) :
    arrowGetLengths true agg si sel = .ok none ∧ fsspecGetLengths true rows sel = .ok none := by
  simp [arrowGetLengths, fsspecGetLengths]

/-- fused buckets: the row count of a fused partition is the sum of the reported lengths of its member files, and
    the bucket sums add up to `Len` — for any selection (with repetitions) and any fusion step ≥ 1 -/
theorem C18_fused_lengths {α} (len : α → Nat) (step : Nat) (hs : 0 < step) (parts : List α) :
    (fusionBuckets step (parts.map len)).map List.sum = (fusionBuckets step parts).map (fun b => (b.map len).sum) ∧
    ((fusionBuckets step parts).map (fun b => (b.map len).sum)).sum = (parts.map len).sum := by
  have h1 : (fusionBuckets step (parts.map len)).map List.sum = (fusionBuckets step parts).map (fun b => (b.map len).sum) := by
    unfold fusionBuckets
    rw [List.length_map, PqStats.chunks_map, List.map_map]
    rfl
  refine ⟨h1, ?_⟩
  rw [← h1, ← PqStats.sum_flatten_nat, C18_fusion_buckets_partition step hs]

end Statistics


/-! non-vacuity of the statistics theorems -/
section StatisticsExamples
open PqStats

/-- files listed in reverse order, no touching boundary: every hypothesis of `C18_arrow_divisions_truthful_partial`
    (and of `C18_arrow_divisions_closed`) holds, the sort index is the non-trivial permutation [1, 0] -/
example :
    let agg : List AggFile := [⟨3, some (some (10, 15))⟩, ⟨2, some (some (0, 4))⟩]
    let mm : List (Int × Int) := [(10, 15), (0, 4)]
    completeStats agg = some mm ∧ divisionsFromStatistics agg = .known [0, 10, 15] [1, 0] ∧
    Within mm [[10, 12, 15], [0, 4]] ∧ (∀ s ∈ mm, s.1 ≤ s.2) ∧ mm.Pairwise (fun a b => a.2 ≠ b.1 ∧ b.2 ≠ a.1) ∧
    fragments (.known [0, 10, 15] [1, 0]) [[10, 12, 15], [0, 4]] = some [[0, 4], [10, 12, 15]] := by
  refine ⟨by decide, ?_, ⟨rfl, ?_⟩, by decide, by decide, by decide⟩
  · simp [divisionsFromStatistics, colsOf, allPresent, divisionsOfMinMax, argsortPairs, List.mergeSort, List.zipIdx,
      lexLe, List.MergeSort.Internal.splitInTwo, divLoop]
  · intro i s f hs hf v hv
    match i with
    | 0 => simp at hs hf; subst hs hf; simp at hv; omega
    | 1 => simp at hs hf; subst hs hf; simp at hv; omega
    | k + 2 => simp at hs

/-- touching ranges are accepted by the code (known divisions, see the counterexample) but fail the no-touching
    hypothesis; genuinely overlapping ranges satisfy the hypothesis of `C18_arrow_overlap_gives_unknown` -/
example : ¬ ([(0, 10), (10, 15)] : List (Int × Int)).Pairwise (fun a b => a.2 ≠ b.1 ∧ b.2 ≠ a.1) ∧
    ¬ ([(0, 10), (5, 15)] : List (Int × Int)).Pairwise (fun a b => a.2 ≤ b.1 ∨ b.2 ≤ a.1) := by decide

/-- row groups are aggregated to the file: min of mins, max of maxes, sum of rows -/
example : aggregatedStatistics [⟨7, [⟨some (some (5, 9)), 3⟩, ⟨some (some (0, 6)), 4⟩]⟩, ⟨5, [⟨some (some (10, 12)), 5⟩]⟩] =
    .ok [⟨7, some (some (0, 9))⟩, ⟨5, some (some (10, 12))⟩] := by decide
/-- a row group without min/max next to one with numbers: `min([5, None])` raises -/
example : aggregatedStatistics [⟨7, [⟨some (some (5, 9)), 3⟩, ⟨some none, 4⟩]⟩] = .raised := by decide
example : aggregatedStatistics [⟨3, [⟨none, 3⟩]⟩] = .raised := by decide
/-- missing statistics never give divisions (hypothesis of `C18_arrow_missing_statistics_never_known`) -/
example : completeStats [⟨3, some none⟩, ⟨2, some (some (0, 4))⟩] = none ∧
    divisionsFromStatistics [⟨3, some none⟩, ⟨2, some (some (0, 4))⟩] = .raised ∧
    divisionsFromStatistics [⟨3, some none⟩, ⟨2, some none⟩] = .unknown 2 (some [0, 1]) ∧
    divisionsFromStatistics [⟨2, some (some (0, 4))⟩, ⟨7, none⟩] = .raised := by decide

/-- fsspec: sorted statistics give divisions; reversed, overlapping, all-null or statistics-less parts do not -/
example : calculateDivisions [⟨3, .mm (some (0, 4))⟩, ⟨4, .mm (some (5, 9))⟩] true true true 2 = .known [0, 5, 9] [0, 1] := by decide
example : calculateDivisions [⟨4, .mm (some (5, 9))⟩, ⟨3, .mm (some (0, 4))⟩] true true true 2 = .unknown 2 none := by decide
example : calculateDivisions [⟨3, .mm (some (0, 4))⟩, ⟨2, .mm none⟩] true true true 2 = .unknown 2 none := by decide
example : calculateDivisions [⟨3, .mm (some (0, 4))⟩, ⟨2, .nameOnly⟩] true true true 2 = .unknown 2 none := by decide
example : calculateDivisions [⟨3, .mm none⟩, ⟨2, .mm (some (5, 9))⟩] true true true 2 = .raised := by decide
example : calculateDivisions [⟨3, .mm (some (0, 4))⟩, ⟨4, .mm (some (5, 9))⟩] true false true 2 = .unknown 2 none := by decide
/-- parts without rows are dropped together with their statistics before divisions are computed -/
example : (plan [0, 1, 2] [⟨3, .mm (some (0, 4))⟩, ⟨0, .mm none⟩, ⟨2, .mm (some (5, 9))⟩] true true true).parts = [0, 2] ∧
    (plan [0, 1, 2] [⟨3, .mm (some (0, 4))⟩, ⟨0, .mm none⟩, ⟨2, .mm (some (5, 9))⟩] true true true).divisions = .known [0, 5, 9] [0, 1] := by
  decide

/-- lengths follow the sort index and then the selection, with repetitions -/
example : arrowGetLengths false [⟨3, some (some (10, 15))⟩, ⟨2, some (some (0, 4))⟩] (some [1, 0]) (some [1, 1, 0]) =
    .ok (some [3, 3, 2]) := by decide
example : fsspecGetLengths false [3, 1, 2] (some [2, 2, 0]) = .ok (some [2, 2, 3]) := by decide
example : fsspecGetLengths false [3, 1, 2] (some [3]) = .raised := by decide
example : (fusionBuckets 2 ([3, 1, 2, 4, 5].map id)).map List.sum = [4, 6, 5] := by decide

end StatisticsExamples

example : guardRefuses ["data", "ab"] ["data", "a"] = false := by decide
example : guardRefuses ["data", "a", "part.0.parquet"] ["data", "a"] = true := by decide
example : fusionBuckets 2 [0, 1, 2, 3, 4] = [[0, 1], [2, 3], [4]] := by decide
example : fusedDivisions [0, 10, 20, 30, 40, 49] [[0, 1], [2, 3], [4]] = [0, 20, 40, 49] := by decide

end Dx
