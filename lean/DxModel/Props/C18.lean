/-
  Props/C18.lean — parquet reads with pushed-down work equal reading everything.
  Instances for the reader of the filter theorems (C03), plus the parquet-specific planner logic.
-/
import DxModel.Parquet
import DxModel.Props.C03
namespace Dx
open Parquet Pred

/-- multi-file fused reads: the buckets are an ordered partition of the selected partitions — every
    file is read exactly once, in order — for every list of partitions and every step ≥ 1. -/
theorem C18_fusion_buckets_partition {α} (step : Nat) (hs : 0 < step) (parts : List α) :
    (fusionBuckets step parts).flatten = parts :=
  chunks_flatten step hs parts.length parts (Nat.le_refl _)

theorem C18_fusion_buckets_nonempty {α} (step : Nat) (hs : 0 < step) (parts : List α) :
    ∀ b ∈ fusionBuckets step parts, b ≠ [] ∧ b.length ≤ step :=
  chunks_nonempty step hs parts.length parts

/-- a fused partition (concat of its member reads) changes granularity only -/
theorem C18_tune_only_granularity {α β} (read : α → List β) (step : Nat) (hs : 0 < step) (parts : List α) :
    ((fusionBuckets step parts).map (fun b => b.flatMap read)).flatten = parts.flatMap read := by
  have h := C18_fusion_buckets_partition step hs parts
  generalize fusionBuckets step parts = bs at h
  subst h
  induction bs with
  | nil => rfl
  | cons b t ih => simp [List.flatMap_append, ih]

/-- pushed-down row filters: whenever `extract_pq_filters` hands filters to the reader, the reader
    (Kleene evaluation on the combined DNF, row kept iff true) keeps exactly the rows pandas keeps,
    including rows with missing values (instance of C03 for the reader; no side condition since the
    `fix:` for D9 — `!=` is no longer extracted) -/
theorem C18_filter_pushdown (p : T Atom) (d : DNF Atom) (v : Cells) (h : extractPq p = some d) :
    keepDNF3 v d = eval2c v p :=
  C03_reader_pushdown p d v h

/-- why `!=` must stay in memory: as a reader filter it would drop the rows whose value is null -/
theorem C18_ne_pushdown_would_be_unsound :
    ∃ (v : Cells), keepDNF3 v [[Atom.cmp 0 .ne 2]] ≠ eval2c v (.atom (.cmp 0 .ne 2)) :=
  C03_ne_pushdown_would_be_unsound

/-- overwrite guard: writing into directory `w` is refused exactly when `w` is a component-wise prefix
    of a path the same query reads (so "/data/a" does not block "/data/ab") -/
theorem C18_overwrite_guard (r w : List String) : guardRefuses r w = true ↔ ∃ rest, r = w ++ rest := by
  unfold guardRefuses
  constructor
  · intro h
    obtain ⟨rest, hr⟩ := List.isPrefixOf_iff_prefix.mp h
    exact ⟨rest, hr.symm⟩
  · intro h
    obtain ⟨rest, hr⟩ := h
    exact List.isPrefixOf_iff_prefix.mpr ⟨rest, hr.symm⟩

example : guardRefuses ["data", "ab"] ["data", "a"] = false := by decide
example : guardRefuses ["data", "a", "part.0.parquet"] ["data", "a"] = true := by decide
example : fusionBuckets 2 [0, 1, 2, 3, 4] = [[0, 1], [2, 3], [4]] := by decide
example : fusedDivisions [0, 10, 20, 30, 40, 49] [[0, 1], [2, 3], [4]] = [0, 20, 40, 49] := by decide

end Dx
