/-
  Props/C11.lean — selecting partitions or leading/trailing rows commutes with the computation.
  Helper lemmas: Lemmas/Partitions, FromArray, Head, HeadPush, SortedHead (+ the C12 theorems for shuffles).

  Conventions: `parts i` = rows of partition `i` of the unselected collection; index lists `P` are
  arbitrary (any order, repeats) unless a hypothesis says otherwise; `sel P parts j = parts P[j]`.

    C11_partitions_task, C11_filtered_contract(_count)      tasks of cls(_partitions := P) = P.map tasks
    C11_filtered_divisions(_unknown)                        divisions of an ascending selection are truthful
    C11_fromarray, C11_frompandas                           the two sources that rebuild their task from `index`
    C11_filtered_shuffle_simple/_task/_disk                 via C12: output j = unfiltered output P[j] (up to order)
    C11_bjoin_keys_partial / _counterexample                BroadcastJoin writes keys under ORIGINAL numbers (finding)
    C11_partitions_blockwise(_rule), _counterexample        Partitions through Blockwise with broadcast operands
    C11_head(_error/_no_spurious_error), C11_tail           lowered graphs
    C11_head_push(_rule/_operands), C11_head_nested, C11_tail_push(_rule/_operands)      (full since D64)
    C11_sorted_head(_any_sort/_tree)                        NFirst
-/
import DxModel.Lemmas.Partitions
import DxModel.Lemmas.FromArray
import DxModel.Lemmas.Head
import DxModel.Lemmas.HeadPush
import DxModel.Lemmas.SortedHead
import DxModel.Props.C12
namespace Dx
open Parts Head

/-! ### 1. `Partitions` and the `PartitionsFiltered` contract -/

/-- `Partitions._task`: output `j` is partition `P[j]` of the frame — any `P`. -/
theorem C11_partitions_task (I : Interp) (P : List Nat) (parts : Nat → List Row) (j : Nat) (hj : j < P.length)
    (fuel : Nat) (hf : 1 ≤ fuel) :
    run I (partitionsTask P) (Parts.inputs parts) fuel (.out j) = .frame (sel P parts j) := by
  obtain ⟨f, rfl⟩ : ∃ f, fuel = f + 1 := ⟨fuel - 1, by omega⟩
  exact run_partitions I P parts j hj f

example : run C12Ex.I0 (partitionsTask [2, 0, 2]) (Parts.inputs (fun i => [⟨i, 0, i⟩])) 1 (.out 2) = .frame [⟨2, 0, 2⟩] :=
  C11_partitions_task _ [2, 0, 2] _ 2 (by decide) 1 (by decide)

/-- **The contract of `PartitionsFiltered`** for every source whose `_filtered_task(i)` only reads source
    inputs (FromPandas, FromArray, FromMap(Projectable), FromDelayed, Timeseries, ReadCSV, ReadParquet:
    `LeafTasks`): output `j` of `cls(…, _partitions := P)` is output `P[j]` of `cls(…)` — i.e. the tasks of
    the filtered layer are `P.map (tasks of the unfiltered layer)`; `P` in any order, with repeats;
    `n` = number of partitions of the unfiltered source. -/
theorem C11_filtered_contract (I : Interp) (ft : Nat → Tsk Parts.Key) (hleaf : LeafTasks ft) (n : Nat) (P : List Nat)
    (hP : ∀ p ∈ P, p < n) (inp : Parts.Key → Option V) (j : Nat) (hj : j < P.length) (fuel : Nat) (hf : 1 ≤ fuel) :
    run I (filteredTask ft P) inp fuel (.out j) = run I (filteredTask ft (List.range n)) inp fuel (.out P[j]) := by
  obtain ⟨f, rfl⟩ : ∃ f, fuel = f + 1 := ⟨fuel - 1, by omega⟩
  exact run_filtered I ft hleaf P (List.range n) inp f j P[j] P[j] (List.getElem?_eq_getElem hj)
    (range_getElem? n P[j] (hP _ (List.getElem_mem hj)))

/-- … and it has exactly `len(P)` output keys, numbered `0 … len(P)-1` (what `__dask_keys__` requests). -/
theorem C11_filtered_contract_count (ft : Nat → Tsk Parts.Key) (P : List Nat) :
    (outKeys P).length = P.length ∧ ∀ k ∈ outKeys P, (filteredTask ft P k).isSome := by
  refine ⟨by simp [outKeys], ?_⟩
  intro k hk
  simp only [outKeys, List.mem_map, List.mem_range] at hk
  obtain ⟨j, hj, rfl⟩ := hk
  simp [filteredTask, List.getElem?_eq_getElem hj]

-- non-vacuity: a three-partition source read through `apply f [src 0 i]`, selection [2, 0, 2]
example : LeafTasks (fun i => Tsk.apply 7 [Parts.Key.src 0 i]) := by
  intro i d hd j
  simp [Tsk.refs] at hd
  subst hd; exact fun h => by cases h
example : run C12Ex.I0 (filteredTask (fun i => Tsk.const [⟨i, 0, i⟩]) [2, 0, 2]) (fun _ => none) 1 (.out 2) =
    run C12Ex.I0 (filteredTask (fun i => Tsk.const [⟨i, 0, i⟩]) (List.range 3)) (fun _ => none) 1 (.out 2) :=
  C11_filtered_contract _ _ (by intro i d hd; simp [Tsk.refs] at hd) 3 [2, 0, 2] (by decide) _ 2 (by decide) 1 (by decide)

/-- Divisions of a selection (`_divisions_of_selection`, used by `Partitions._divisions` and
    `PartitionsFiltered.divisions`): for a strictly ascending `P` (any gaps) the reported divisions are
    truthful for the selected partitions. -/
theorem C11_filtered_divisions (full : List Int) (n : Nat) (parts : Nat → List Row) (P : List Nat)
    (hinv : Repartition.DivInv full n parts) (hs : strictAsc P = true) (hne : P ≠ []) (hP : ∀ p ∈ P, p < n) :
    ∃ d', selDivisions full P = .ok (some d') ∧ Repartition.DivInv d' P.length (sel P parts) := by
  obtain ⟨d', hd⟩ := selDivisions_ok full P n hinv.len hs hne hP
  exact ⟨d', hd, divInv_sel full n parts P d' hinv hP hd⟩

/-- … and for every other selection (reordered, repeated) they are reported as unknown. -/
theorem C11_filtered_divisions_unknown (full : List Int) (P : List Nat) (h : strictAsc P = false) :
    selDivisions full P = .ok none := selDivisions_unknown full P h

example : selDivisions [0, 10, 20, 30, 40] [1, 3] = .ok (some [10, 30, 40]) := rfl
example : selDivisions [0, 10, 20, 30, 40] [2, 0] = .ok none := rfl
example : selDivisions [0, 10, 20, 30, 40] [0, 0] = .ok none := rfl
-- the empty selection (`df.partitions[[]]`): `part` is unbound — UnboundLocalError, not an empty frame
example : selDivisions [0, 10, 20] [] = .error .unbound := rfl

/-- composing a selection with an already filtered source (`Partitions._simplify_down`):
    `partitions[p]` of `cls(_partitions := Q)` is `cls(_partitions := [Q[p] for p in P])`. -/
theorem C11_filtered_compose (Q P R : List Nat) (parts : Nat → List Row) (hQ : Q ≠ [])
    (h : composeSel (some Q) P = some R) (j : Nat) (hj : j < P.length) :
    sel R parts j = sel P (sel Q parts) j := by
  cases Q with
  | nil => exact absurd rfl hQ
  | cons q0 qt =>
    simp only [composeSel] at h
    have ⟨hlen, hsp⟩ := pick_spec (q0 :: qt) P R h
    have hget := hsp j P[j] (List.getElem?_eq_getElem hj)
    rw [List.getElem?_eq_getElem (by omega : j < R.length)] at hget
    simp only [sel, List.getElem?_eq_getElem hj, List.getElem?_eq_getElem (by omega : j < R.length), ← hget]

example : composeSel (some [4, 2, 7]) [2, 0, 0] = some [7, 4, 4] := by decide

/-! ### 2. the two sources that rebuild their task from the partition number -/

/-- **FromArray** (`_divisions`, `_filtered_task`; D4's site): for every array length, chunk size and
    partition number `i` of the UNFILTERED collection the index range built from the unfiltered divisions
    is as long as the data slice (the frame constructor cannot fail), row at array position `p` is labelled
    `p`, and the reported divisions are truthful. -/
theorem C11_fromarray (len cs : Nat) (hcs : 1 ≤ cs) (hlen : 1 ≤ len) :
    (∀ i, i < nChunks len cs → faRows len cs i = some ((List.range (chunkLen len cs i)).map
        (fun t => ({ idx := ((i * cs + t : Nat) : Int), tgt := 0, pay := i * cs + t } : Row)))) ∧
    Repartition.DivInv (faDivisions len cs) (nChunks len cs) (fun i => (faRows len cs i).getD []) :=
  ⟨fun i hi => faRows_spec len cs i hcs hi, faDivInv len cs hcs hlen⟩

example : faDivisions 10 3 = [0, 3, 6, 9, 9] ∧ faRows 10 3 3 = some [⟨9, 0, 9⟩] ∧
    faRows 10 3 1 = some [⟨3, 0, 3⟩, ⟨4, 0, 4⟩, ⟨5, 0, 5⟩] := by decide

/-- **FromPandas** `_filtered_task(i) = frame.iloc[locations[i] : locations[i+1]]`: the partitions of the
    unfiltered source concatenate to the frame, for any monotone location list from 0 to `len(frame)`. -/
theorem C11_frompandas (rows : List Row) (locs : List Nat)
    (h : Repartition.boundariesOK locs rows.length = true) :
    (List.range (locs.length - 1)).flatMap (fpRows rows locs) = rows :=
  Repartition.seg_cover rows locs h

example : fpRows [⟨0, 0, 0⟩, ⟨1, 0, 1⟩, ⟨2, 0, 2⟩] [0, 2, 3] 1 = [⟨2, 0, 2⟩] := by decide

/-! ### 3. shuffles: the filtered layer computes the selected outputs of the unfiltered one (via C12) -/

/-- unfiltered version of a shuffle's parameters -/
def unfiltered (p : Shuffle.Params) : Shuffle.Params :=
  { p with parts := List.range p.nout, filtered := false }

theorem sem_unfiltered (p : Shuffle.Params) (rows : Nat → List Row) (o : Nat) :
    Shuffle.sem (unfiltered p) rows o = Shuffle.sem p rows o := rfl

/-- SimpleShuffle with `_partitions := P`: output `j` equals output `P[j]` of the unfiltered layer. -/
theorem C11_filtered_shuffle_simple (I : Interp) (p : Shuffle.Params) (rows : Nat → List Row)
    (hparts : ∀ o ∈ p.parts, o < p.nout) (hrows : ∀ i, ∀ r ∈ rows i, r.tgt < p.nout)
    (j : Nat) (hj : j < p.parts.length) :
    run I (Shuffle.simpleTask p) (Shuffle.inputs rows) 3 (.out .self j) =
      run I (Shuffle.simpleTask (unfiltered p)) (Shuffle.inputs rows) 3 (.out .self p.parts[j]) := by
  have ho := hparts _ (List.getElem_mem hj)
  have hj' : p.parts[j] < (unfiltered p).parts.length := by simpa [unfiltered] using ho
  rw [C12_simple I p rows j hj hparts hrows,
      C12_simple I (unfiltered p) rows p.parts[j] hj' (by intro o ho'; simpa [unfiltered] using ho') hrows]
  simp [unfiltered, Shuffle.sem]

/-- TaskShuffle (simple or staged, D6's site) with `_partitions := P`: output `j` is a permutation of
    output `P[j]` of the unfiltered layer. -/
theorem C11_filtered_shuffle_task (I : Interp) (p : Shuffle.Params) (rows : Nat → List Row)
    (harith : Shuffle.stageArithOK p.nin p.stages p.nsplits = true)
    (hparts : ∀ o ∈ p.parts, o < p.nout) (hrows : ∀ i, ∀ r ∈ rows i, r.tgt < p.nout)
    (j : Nat) (hj : j < p.parts.length) (fuel : Nat) (hfuel : 3 * p.stages + 3 ≤ fuel) :
    ∃ l₁ l₂, run I (Shuffle.taskTask p) (Shuffle.inputs rows) fuel (.out .self j) = .frame l₁ ∧
      run I (Shuffle.taskTask (unfiltered p)) (Shuffle.inputs rows) fuel (.out .self p.parts[j]) = .frame l₂ ∧
      l₁.Perm l₂ := by
  have ho := hparts _ (List.getElem_mem hj)
  have hj' : p.parts[j] < (unfiltered p).parts.length := by simpa [unfiltered] using ho
  obtain ⟨l₁, h₁, hp₁⟩ := C12_task I p rows (fun _ => harith) hparts hrows j hj fuel hfuel
  obtain ⟨l₂, h₂, hp₂⟩ := C12_task I (unfiltered p) rows (fun _ => harith)
    (by intro o ho'; simpa [unfiltered] using ho') hrows p.parts[j] hj' fuel hfuel
  refine ⟨l₁, l₂, h₁, h₂, hp₁.trans (List.Perm.trans (List.Perm.of_eq ?_) hp₂.symm)⟩
  simp [unfiltered, Shuffle.sem]

/-- DiskShuffle with `_partitions := P`. -/
theorem C11_filtered_shuffle_disk (I : Interp) (p : Shuffle.Params) (rows : Nat → List Row)
    (hparts : ∀ o ∈ p.parts, o < p.nout) (j : Nat) (hj : j < p.parts.length) (fuel : Nat) (hfuel : 3 ≤ fuel) :
    run I (Shuffle.diskTask p) (Shuffle.inputs rows) fuel (.out .self j) =
      run I (Shuffle.diskTask (unfiltered p)) (Shuffle.inputs rows) fuel (.out .self p.parts[j]) := by
  have ho := hparts _ (List.getElem_mem hj)
  have hj' : p.parts[j] < (unfiltered p).parts.length := by simpa [unfiltered] using ho
  rw [C12_disk I p rows j hj fuel hfuel, C12_disk I (unfiltered p) rows p.parts[j] hj' fuel hfuel]
  simp [unfiltered, Shuffle.sem]

example : ∃ l₁ l₂, run C12Ex.I0 (Shuffle.taskTask C12Ex.pEq) (Shuffle.inputs (C12Ex.rowsMod 5)) 12 (.out .self 0) = .frame l₁ ∧
    run C12Ex.I0 (Shuffle.taskTask (unfiltered C12Ex.pEq)) (Shuffle.inputs (C12Ex.rowsMod 5)) 12 (.out .self 2) = .frame l₂ ∧
    l₁.Perm l₂ :=
  C11_filtered_shuffle_task _ C12Ex.pEq _ (by decide) (by decide) (C12Ex.rowsMod_lt 5 (by decide)) 0 (by decide) 12 (by decide)

/-! ### 4. BroadcastJoin (finding): output keys of the filtered layer -/

/-
  FULL STATEMENT (false for the code as it is): for every `P` the keys `BroadcastJoin._layer` writes its
  outputs under are the keys `__dask_keys__` requests, `(name, j) for j < len(P)`.
  The layer writes `(name, part_out) for part_out in _partitions`.
-/
/-- proven: the keys coincide exactly for the unfiltered join and for leading selections `[0, …, m-1]` -/
theorem C11_bjoin_keys_partial (P : List Nat) : bjoinOutKeys P = requestedKeys P ↔ P = List.range P.length := by
  simp [bjoinOutKeys, requestedKeys]

/-- `merge(…, broadcast=True).partitions[[2]]`: the only output is written under `(name, 2)`, the
    collection asks for `(name, 0)` — KeyError at execution (every selection that is not a leading range,
    also the `[npartitions-1]` of `tail`). -/
theorem C11_bjoin_keys_counterexample : bjoinOutKeys [2] ≠ requestedKeys [2] ∧ ¬ (0 ∈ bjoinOutKeys [2]) := by decide

/-! ### 5. `Partitions` through Blockwise operators with broadcast operands -/

/-- the rule wraps exactly the `Expr` operands the frame does not broadcast -/
theorem C11_partitions_blockwise_rule (selfNdim : Nat) (anyNdim : Bool) (ops : List Operand) (i : Nat) (hi : i < ops.length) :
    (partitionsPush selfNdim anyNdim ops)[i]? = some (ops[i].isExpr && !broadcastDep selfNdim anyNdim ops[i]) := by
  simp [partitionsPush, hi]

/-- graph level: output `j` of the operator applied to `Partitions(dep, P)` for its non-broadcast
    dependencies (broadcast ones untouched) is output `P[j]` of the operator — any `P`. -/
theorem C11_partitions_blockwise (I : Interp) (p : Blockwise.Params) (P : List Nat) (bc : Nat → Bool)
    (vals : Nat → Nat → V)
    (hbc : ∀ d np nd, Blockwise.Arg.expr d np nd ∈ p.args → bc d = Blockwise.broadcastDep p np nd)
    (hP : ∀ q ∈ P, q < p.n) (j : Nat) (hj : j < P.length) (fuel : Nat) (hf : 1 ≤ fuel) :
    run I (Blockwise.layer (pushed p P.length)) (Blockwise.inputs (selVals bc P vals)) fuel (.out j) =
      run I (Blockwise.layer p) (Blockwise.inputs vals) fuel (.out P[j]) := by
  obtain ⟨f, rfl⟩ : ∃ f, fuel = f + 1 := ⟨fuel - 1, by omega⟩
  exact partitions_blockwise I p P bc vals hbc hP f j hj

example : ∀ d np nd, Blockwise.Arg.expr d np nd ∈ [Blockwise.Arg.expr 0 4 2, .expr 1 1 0, .lit "x"] →
    (fun d => d == 1) d = Blockwise.broadcastDep ⟨4, 2, false, [.expr 0 4 2, .expr 1 1 0, .lit "x"]⟩ np nd := by
  intro d np nd h
  simp only [List.mem_cons, List.not_mem_nil, or_false] at h
  rcases h with h | h | h
  · cases h; decide
  · cases h; decide
  · cases h

/-- (finding) when the frame has ONE partition every lower-dimensional operand counts as "broadcast", also
    a row-aligned series: nothing is wrapped, the rule returns the frame unchanged and a repeated
    selection `[0, 0]` is lost (`df1.map_partitions(f, s1).partitions[[0, 0]]` has one partition). -/
theorem C11_partitions_blockwise_counterexample :
    partitionsPush 2 true [⟨true, 1, 2⟩, ⟨true, 1, 0⟩] = [false, false] := by decide

/-- **Why the class guard exists.**  Pushing the selection below an operation is sound exactly because a
    blockwise task is a function of the partition it is given: for a task that does NOT look at the partition
    number, selecting `P` first and applying the operation gives output `P[j]` of the operation … -/
theorem C11_partitions_push_position_independent (g : List Row → List Row) (parts : List (List Row)) (P : List Nat)
    (j : Nat) (hj : j < P.length) :
    numberedOut (fun _ x => g x) (selectParts parts P) j = numberedOut (fun _ x => g x) parts P[j] := by
  simp [numberedOut, selectParts, hj]

/-- … while for a task that looks at the partition number (`partition_info`, a random state per partition,
    neighbouring partitions) the pushed plan computes something else as soon as `P[j] ≠ j` (D82, D105):
    `f i x` tags every row with the partition number `i`. -/
theorem C11_partitions_push_number_dependent_counterexample :
    let f : Nat → List Row → List Row := fun i x => x.map (fun r => ({ r with tgt := i } : Row))
    let parts : List (List Row) := [[⟨0, 0, 10⟩], [⟨1, 0, 11⟩], [⟨2, 0, 12⟩]]
    numberedOut f (selectParts parts [2]) 0 ≠ numberedOut f parts 2 := by
  decide

/-- **Per-partition arguments travel with the selection** (`BlockwiseDep`: resample bin edges).  When the
    selection is applied to the argument list as well (what `Partitions._simplify_down` does), output `j` of the
    pushed plan is output `P[j]` of the operation, for every operation `g`, argument list, frame and in-range
    selection — repeated and reordered selections included. -/
theorem C11_partitions_push_blockwisedep (g : Nat → List Row → List Row) (args : List Nat) (parts : List (List Row))
    (P sel : List Nat) (hsel : selectArgs args P = some sel) (j : Nat) (hj : j < P.length) :
    depOut g sel (selectParts parts P) j = depOut g args parts P[j] := by
  have key : ∀ (P sel : List Nat), selectArgs args P = some sel → ∀ j (hj : j < P.length),
      sel.getD j 0 = args.getD P[j] 0 := by
    intro P
    induction P with
    | nil => intro sel _ j hj; cases hj
    | cons p t ih =>
      intro sel hs j hj
      simp only [selectArgs] at hs
      cases ha : args[p]? with
      | none => simp [ha] at hs
      | some a =>
        cases hr : selectArgs args t with
        | none => simp [ha, hr] at hs
        | some r =>
          simp only [ha, hr, Option.some.injEq] at hs
          subst hs
          cases j with
          | zero => simp [List.getD, ha]
          | succ j =>
            have := ih r hr j (by simpa using hj)
            simpa [List.getD] using this
  unfold depOut
  rw [key P sel hsel j hj]
  simp [selectParts, hj]

/-- the selection of the arguments succeeds exactly for in-range selections and has the selection's length -/
theorem C11_select_args_total (args P : List Nat) (h : ∀ p ∈ P, p < args.length) :
    ∃ sel, selectArgs args P = some sel ∧ sel.length = P.length := by
  induction P with
  | nil => exact ⟨[], rfl, rfl⟩
  | cons p t ih =>
    obtain ⟨r, hr, hl⟩ := ih (fun q hq => h q (List.mem_cons_of_mem _ hq))
    have hp : p < args.length := h p (by simp)
    refine ⟨args[p] :: r, ?_, by simp [hl]⟩
    simp [selectArgs, hr, hp]

/-- … while passing the argument list on UNCHANGED (the defect fixed as D113) gives partition `j` the argument of
    partition `j` instead of `P[j]`: `resample(...).sum().partitions[[1]]` aggregated partition 1 into the bins
    of partition 0. -/
theorem C11_partitions_push_blockwisedep_unselected_counterexample :
    let g : Nat → List Row → List Row := fun a x => x.map (fun r => ({ r with tgt := a } : Row))
    let parts : List (List Row) := [[⟨0, 0, 10⟩], [⟨1, 0, 11⟩]]
    depOut g [7, 8] (selectParts parts [1]) 0 ≠ depOut g [7, 8] parts 1 := by
  decide

example : selectArgs [7, 8, 9] [2, 0, 0] = some [9, 7, 7] ∧ selectArgs [7, 8] [2] = none := by decide

/-- the guard forbids the push exactly for the structural exceptions and the number-dependent classes -/
theorem C11_partitions_push_guard (structural numberDependent : Bool) :
    partitionsPushAllowed structural numberDependent = true ↔ structural = false ∧ numberDependent = false := by
  cases structural <;> cases numberDependent <;> simp [partitionsPushAllowed]

/-- a number-dependent class is never wrapped: it absorbs the selection itself or keeps the `Partitions` node -/
theorem C11_partitions_rule_number_dependent (structural filtered : Bool) :
    partitionsRule structural true filtered ≠ .wrap := by
  cases structural <;> cases filtered <;> decide

/-! ### 6. head and tail: the lowered graphs -/

/-- **Head._lower**: whenever lowering succeeds, the single output of the lowered graph holds the first
    `n` rows of the concatenation of the first `k` partitions (all of them for `k = -1`). -/
theorem C11_head (I : Interp) (hI : HeadInterp I) (np n : Nat) (k : Int) (parts : Nat → List Row) (pl : HeadPlan)
    (hnp : 1 ≤ np) (hk : k ≠ 0) (h : lowerHead np k = .ok pl) (fuel : Nat) (hf : 4 ≤ fuel) :
    run I (headTask pl n) (Head.inputs parts) fuel (outKey pl) =
      .frame (((List.range (if k > -1 then min k.toNat np else np)).flatMap parts).take n) := by
  obtain ⟨f, rfl⟩ : ∃ f, fuel = f + 4 := ⟨fuel - 4, by omega⟩
  have ⟨hparts, hsec⟩ := lowerHead_ok np k pl h
  have hpe := headPartitions_eq np k
  have hne : pl.parts ≠ [] := by
    rw [hparts, hpe]
    intro e
    have := congrArg List.length e
    simp only [List.length_range, List.length_nil] at this
    split at this <;> omega
  rw [run_head I hI pl n parts ?_ hne f, hparts, hpe]
  intro hs
  have hk1 := hsec hs
  subst hk1
  rw [hparts, hpe]
  simp only [List.length_range]
  have : (1 : Int) > -1 := by decide
  simp only [this, if_true]
  have : (1 : Int).toNat = 1 := rfl
  omega

/-- error iff more partitions are requested than the frame has … -/
theorem C11_head_error (np : Nat) (k : Int) : (∃ e, lowerHead np k = .error e) ↔ k > (np : Int) :=
  lowerHead_error_iff np k

/-- … so a head within the frame's partitions (or `npartitions = -1`) never fails to lower. -/
theorem C11_head_no_spurious_error (np : Nat) (k : Int) (hk : k ≤ (np : Int)) : ∃ pl, lowerHead np k = .ok pl := by
  cases h : lowerHead np k with
  | ok pl => exact ⟨pl, rfl⟩
  | error e => exact absurd ((C11_head_error np k).mp ⟨e, h⟩) (by omega)

example : lowerHead 4 2 = .ok ⟨[0, 1], 2, false, some true⟩ ∧ lowerHead 4 1 = .ok ⟨[0], 1, true, none⟩ ∧
    lowerHead 4 (-1) = .ok ⟨[0, 1, 2, 3], -1, false, some false⟩ ∧ lowerHead 4 5 = .error .value := ⟨rfl, rfl, rfl, rfl⟩

example : run Head.I0 (headTask ⟨[0, 1], 2, false, some true⟩ 3) (Head.inputs (fun i => [⟨i, 0, 0⟩, ⟨i, 0, 1⟩])) 4 .out =
    .frame [⟨0, 0, 0⟩, ⟨0, 0, 1⟩, ⟨1, 0, 0⟩] :=
  C11_head Head.I0 I0_headInterp 4 3 2 _ _ (by decide) (by decide) rfl 4 (by decide)

/-- **Tail._lower**: the last `n` rows of the last partition. -/
theorem C11_tail (I : Interp) (hI : HeadInterp I) (np n : Nat) (parts : Nat → List Row) (fuel : Nat) (hf : 2 ≤ fuel) :
    run I (tailTask np n) (Head.inputs parts) fuel (.bh 0) = .frame (lastN n (parts (np - 1))) := by
  obtain ⟨f, rfl⟩ : ∃ f, fuel = f + 2 := ⟨fuel - 2, by omega⟩
  exact run_tail I hI np n parts f

example : run Head.I0 (tailTask 3 2) (Head.inputs (fun i => [⟨i, 0, 0⟩, ⟨i, 0, 1⟩, ⟨i, 0, 2⟩])) 2 (.bh 0) =
    .frame [⟨2, 0, 1⟩, ⟨2, 0, 2⟩] :=
  C11_tail Head.I0 I0_headInterp 3 2 _ 2 (by decide)

/-! ### 7. push-down rules -/

/-- `Head._simplify_down` (D2, D3, D64): no rewrite when the frame has an ambiguous operand; otherwise exactly the
    `Expr` operands the elementwise frame does not broadcast are wrapped, each with the head's own `n` and its
    `npartitions` OPERAND `k`. -/
theorem C11_head_push_rule (selfNdim selfNp : Nat) (ops : List Operand) (n : Nat) (k : Int) :
    (ambiguous selfNdim selfNp ops = true → headPush selfNdim selfNp ops n k = none) ∧
    (ambiguous selfNdim selfNp ops = false → ∀ i (hi : i < ops.length), ∃ r, headPush selfNdim selfNp ops n k = some r ∧
      r[i]? = some (if ops[i].isExpr && !broadcastDep selfNdim false ops[i] then some (n, k) else none)) := by
  constructor
  · intro h; simp [headPush, h]
  · intro h i hi
    refine ⟨ops.map (fun o => if o.isExpr && !broadcastDep selfNdim false o then some (n, k) else none), ?_, ?_⟩
    · simp [headPush, h]
    · simp [hi]

/-- **Semantic core**: for a row-local operation `G` (additive over co-partitioned pieces, commuting with
    common prefixes) applying it to the heads of ALL its row-aligned operands gives the head of its result:
    `n` rows of the `k` leading partitions. -/
theorem C11_head_push (G : (Nat → List Row) → List Row) (hA : Additive G) (hT : TakeCommutes G)
    (rows : Nat → Nat → List Row) (hco : ∀ i, CoLen (fun d => rows d i)) (n k : Nat) :
    G (fun d => ((List.range k).flatMap (rows d)).take n) =
      ((List.range k).flatMap (fun i => G (fun d => rows d i))).take n :=
  head_push_sem G hA hT rows hco n k

example : Additive (fun xs => List.zipWith (fun (r s : Row) => (⟨r.idx, 0, r.pay + s.pay⟩ : Row)) (xs 0) (xs 1)) ∧
    TakeCommutes (fun xs => List.zipWith (fun (r s : Row) => (⟨r.idx, 0, r.pay + s.pay⟩ : Row)) (xs 0) (xs 1)) :=
  ⟨additive_zipWith _, takeCommutes_zipWith _⟩

/-- what is known about the operands of an elementwise node with `selfNp` partitions: it has at least one
    dimension; every `Expr` operand is partitioned like the node or is one the node broadcasts
    (`Blockwise._divisions` asserts this); scalars have one partition -/
structure OperandsWF (selfNdim selfNp : Nat) (ops : List Operand) : Prop where
  self : 1 ≤ selfNdim
  aligned : ∀ o ∈ ops, o.isExpr = true → o.np = selfNp ∨ broadcastDep selfNdim false o = true
  scalar : ∀ o ∈ ops, o.isExpr = true → o.ndim = 0 → o.np = 1

/-- a row-aligned operand: an `Expr` with rows (`ndim ≥ 1`) partitioned like the node -/
def rowAligned (selfNp : Nat) (o : Operand) : Bool := o.isExpr && o.np == selfNp && decide (1 ≤ o.ndim)

theorem wrapped_iff_rowAligned (selfNdim selfNp : Nat) (ops : List Operand) (hwf : OperandsWF selfNdim selfNp ops)
    (hamb : ambiguous selfNdim selfNp ops = false) (o : Operand) (ho : o ∈ ops) :
    (o.isExpr && !broadcastDep selfNdim false o) = rowAligned selfNp o := by
  unfold rowAligned
  cases hE : o.isExpr with
  | false => simp
  | true =>
    simp only [Bool.true_and]
    cases hb : broadcastDep selfNdim false o with
    | true =>
      -- a broadcast operand partitioned like the node with rows would make the node ambiguous
      simp only [Bool.not_true]
      symm
      rw [Bool.and_eq_false_iff]
      by_cases hnp : o.np = selfNp
      · right
        simp only [decide_eq_false_iff_not, Nat.not_le]
        have hb' := hb
        simp only [broadcastDep, Bool.false_or, Bool.and_eq_true, beq_iff_eq, decide_eq_true_eq] at hb'
        cases hnd : o.ndim with
        | zero => omega
        | succ m =>
          exfalso
          have : ambiguous selfNdim selfNp ops = true := by
            simp only [ambiguous, Bool.and_eq_true, beq_iff_eq, List.any_eq_true, decide_eq_true_eq]
            exact ⟨by omega, o, ho, ⟨⟨hE, by omega⟩, hb'.2⟩⟩
          rw [this] at hamb; cases hamb
      · left; simpa using hnp
    | false =>
      simp only [Bool.not_false]
      symm
      rw [Bool.and_eq_true]
      have hnp : o.np = selfNp := by
        rcases hwf.aligned o ho hE with h | h
        · exact h
        · rw [h] at hb; cases hb
      refine ⟨by simpa using hnp, ?_⟩
      simp only [decide_eq_true_eq]
      cases hnd : o.ndim with
      | succ m => omega
      | zero =>
        exfalso
        have h1 := hwf.scalar o ho hE hnd
        have hs := hwf.self
        have : broadcastDep selfNdim false o = true := by
          simp only [broadcastDep, Bool.false_or, Bool.and_eq_true, beq_iff_eq, decide_eq_true_eq]
          exact ⟨h1, by omega⟩
        rw [this] at hb; cases hb

/-- **Head push-down, full statement** (holds since D64): whenever the rule rewrites, the operands it wraps in
    `Head(·, n, k)` are EXACTLY the row-aligned operands — the hypothesis of `C11_head_push`. -/
theorem C11_head_push_operands (selfNdim selfNp : Nat) (ops : List Operand) (n : Nat) (k : Int)
    (hwf : OperandsWF selfNdim selfNp ops) (r : List (Option (Nat × Int)))
    (h : headPush selfNdim selfNp ops n k = some r) (i : Nat) (hi : i < ops.length) :
    r[i]? = some (if rowAligned selfNp ops[i] then some (n, k) else none) := by
  unfold headPush at h
  cases hamb : ambiguous selfNdim selfNp ops with
  | true => simp [hamb] at h
  | false =>
    simp only [hamb, Bool.false_eq_true, if_false, Option.some.injEq] at h
    subst h
    simp only [List.getElem?_map, List.getElem?_eq_getElem hi, Option.map_some]
    rw [wrapped_iff_rowAligned selfNdim selfNp ops hwf hamb ops[i] (List.getElem_mem hi)]

-- a frame with 4 partitions, a co-partitioned series, a scalar reduction, a literal: series wrapped, scalar not
example : headPush 2 4 [⟨true, 4, 2⟩, ⟨true, 4, 1⟩, ⟨true, 1, 0⟩, ⟨false, 0, 0⟩] 7 2 =
    some [some (7, 2), some (7, 2), none, none] := by decide
-- the single-partition frame with a series operand (`df1.mul(df1.a, axis=0).head(3)`): not rewritten any more
example : headPush 2 1 [⟨true, 1, 2⟩, ⟨true, 1, 1⟩] 3 1 = none ∧ tailPush 2 1 [⟨true, 1, 2⟩, ⟨true, 1, 1⟩] 3 = none := by decide
example : OperandsWF 2 4 [⟨true, 4, 2⟩, ⟨true, 4, 1⟩, ⟨true, 1, 0⟩, ⟨false, 0, 0⟩] := by
  refine ⟨by decide, ?_, ?_⟩ <;> intro o ho <;> simp only [List.mem_cons, List.not_mem_nil, or_false] at ho <;>
    rcases ho with rfl | rfl | rfl | rfl <;> decide

/-- nested heads keep the INNER head's `npartitions` (D3b): `take m (take n (first k)) = take (min m n) (first k)` -/
theorem C11_head_nested (nOuter nInner : Nat) (kOuter kInner : Int) (l : List Row) :
    headNested nOuter kOuter nInner kInner = (min nOuter nInner, kInner) ∧
    (l.take nInner).take nOuter = l.take (min nOuter nInner) :=
  ⟨rfl, List.take_take ..⟩

/-- `Tail._simplify_down` (D64): the same guard and the same operands as `Head`. -/
theorem C11_tail_push_rule (selfNdim selfNp : Nat) (ops : List Operand) (n : Nat) (k : Int) :
    (tailPush selfNdim selfNp ops n).map (fun r => r.map (fun o => o.map (fun m => (m, k)))) =
      headPush selfNdim selfNp ops n k := by
  unfold tailPush headPush
  split
  · rfl
  · simp only [Option.map_some, List.map_map]
    congr 1
    apply List.map_congr_left
    intro o _
    simp only [Function.comp]
    split <;> rfl

/-- **Tail push-down, full statement** (holds since D64): the wrapped operands are exactly the row-aligned ones … -/
theorem C11_tail_push_operands (selfNdim selfNp : Nat) (ops : List Operand) (n : Nat)
    (hwf : OperandsWF selfNdim selfNp ops) (r : List (Option Nat))
    (h : tailPush selfNdim selfNp ops n = some r) (i : Nat) (hi : i < ops.length) :
    r[i]? = some (if rowAligned selfNp ops[i] then some n else none) := by
  unfold tailPush at h
  cases hamb : ambiguous selfNdim selfNp ops with
  | true => simp [hamb] at h
  | false =>
    simp only [hamb, Bool.false_eq_true, if_false, Option.some.injEq] at h
    subst h
    simp only [List.getElem?_map, List.getElem?_eq_getElem hi, Option.map_some]
    rw [wrapped_iff_rowAligned selfNdim selfNp ops hwf hamb ops[i] (List.getElem_mem hi)]

/-- … and applying a row-local operation to the tails of all row-aligned operands gives the tail of its result. -/
theorem C11_tail_push (G : (Nat → List Row) → List Row) (hL : LastCommutes G)
    (rows : Nat → Nat → List Row) (hco : ∀ i, CoLen (fun d => rows d i)) (n last : Nat) :
    G (fun d => lastN n (rows d last)) = lastN n (G (fun d => rows d last)) :=
  tail_push_sem G hL rows hco n last

example : tailPush 1 4 [⟨true, 4, 1⟩, ⟨true, 1, 0⟩] 5 = some [some 5, none] := by decide

/-! ### 8. head of a sorted frame: `NFirst` -/

/-- **Sorted head**: the first `n` rows of the sorted frame are the first `n` rows of the sorted
    concatenation of the per-partition `n`-firsts — for every total antisymmetric order, every `n`, every
    partitioning. -/
theorem C11_sorted_head {α : Type} (le : α → α → Bool) (h : SortedHead.TotalOrder le) (n : Nat) (parts : List (List α)) :
    (parts.flatten.mergeSort le).take n =
      ((parts.flatMap (fun p => (p.mergeSort le).take n)).mergeSort le).take n :=
  SortedHead.topN_flatten h n parts

/-- the same for any sorting function (pandas' `sort_values`): under a total antisymmetric order all
    sorting functions agree. -/
theorem C11_sorted_head_any_sort {α : Type} (le : α → α → Bool) (h : SortedHead.TotalOrder le)
    (sort' : List α → List α)
    (hs : ∀ l, (sort' l).Pairwise (fun a b => le a b = true) ∧ (sort' l).Perm l) (n : Nat) (parts : List (List α)) :
    (sort' parts.flatten).take n = (sort' (parts.flatMap (fun p => (sort' p).take n))).take n := by
  have e := SortedHead.sort_unique h sort' hs
  have : (fun p => (sort' p).take n) = (fun p => (p.mergeSort le).take n) := by funext p; rw [e]
  rw [e, e, this]
  exact C11_sorted_head le h n parts

/-- tree reduction: combining partial results is idempotent -/
theorem C11_sorted_head_tree {α : Type} (le : α → α → Bool) (h : SortedHead.TotalOrder le) (n : Nat) (l : List α) :
    SortedHead.topN le n (SortedHead.topN le n l) = SortedHead.topN le n l :=
  SortedHead.topN_idem h n l

example : ([[5, 1, 9], [4, 8], [], [0, 7, 2]].flatten.mergeSort (fun (a b : Nat) => decide (a ≤ b))).take 2 =
    (([[5, 1, 9], [4, 8], [], [0, 7, 2]].flatMap (fun p => (p.mergeSort (fun (a b : Nat) => decide (a ≤ b))).take 2)).mergeSort
      (fun (a b : Nat) => decide (a ≤ b))).take 2 :=
  C11_sorted_head _ SortedHead.natLe_total 2 _

end Dx
