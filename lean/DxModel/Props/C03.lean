/-
  Props/C03.lean — "A filter keeps exactly the rows that satisfy the user's predicate".

  All statements are over unbounded predicate trees, all valuations, all row lists.
  Model: DxModel/Pred.lean (transliteration of rewrite_filters, _DNF, the Merge decision tables).
  Table: DxModel/Generated/FilterFlags.lean (regenerated from the live classes on every run).
-/
import DxModel.Pred
import DxModel.Lemmas.Pred
import DxModel.Lemmas.PredDNF
import DxModel.Lemmas.PredJoin
import DxModel.Lemmas.PredCross
import DxModel.Generated.FilterFlags
namespace Dx
open Dx.Pred

/-! ### OR-factoring -/

/-- `rewrite_filters` never changes the truth value of a predicate — any atoms, any tree, any valuation. -/
theorem C03_or_factoring {α : Type} [DecidableEq α] (p : T α) (v : α → Bool) :
    eval2 v (rewriteFilters p) = eval2 v p := by
  unfold rewriteFilters
  have hp := eval_getComponents_or v p
  cases hc : getComponents .or p with
  | nil => rfl
  | cons f rest =>
    cases rest with
    | nil => rfl
    | cons g rest' =>
      simp only
      cases hr : replaceCommonOr f (g :: rest') with
      | none => rfl
      | some r =>
        simp only
        rw [replaceCommonOr_sound v f (g :: rest') r hr, ← hp, hc]

-- non-vacuity: the rewrite fires, factors, and takes the early-return branch
example : rewriteFilters (T.or (.and (.atom 0) (.atom 1)) (.and (.atom 0) (.atom 2)) : P)
    = .and (.atom 0) (.or (.atom 1) (.atom 2)) := by decide
example : rewriteFilters (T.or (.and (.atom 0) (.atom 1)) (.atom 0) : P) = .atom 0 := by decide
-- duplicates collapse (dict keyed by name) and the whole first branch is consumed: early `return outer_component`
example : rewriteFilters (T.or (.and (.atom 0) (.and (.not (.atom 1)) (.atom 0))) (.and (.not (.atom 1)) (.and (.atom 2) (.atom 0))) : P)
    = .and (.atom 0) (.not (.atom 1)) := by decide

/-! ### re-assembling the parent after the OR rewrite -/

/-- `Filter._simplify_up` returns `parent.substitute(self, new_filter)`: every operand that is the filter becomes
    the rewritten filter, every other operand is untouched — wherever the filter sits. -/
theorem C03_or_rewrite_parent {ε : Type} [DecidableEq ε] (operands : List ε) (self new : ε) (i : Nat) :
    (substituteOperand operands self new)[i]? = (operands[i]?).map (fun o => if o = self then new else o) := by
  simp [substituteOperand]

/-- … hence the parent sees operands of unchanged meaning, for any meaning `ev` under which the rewritten filter
    equals the old one (`C03_or_factoring` gives that for the rows of `Filter(frame, rewrite_filters p)`) -/
theorem C03_or_rewrite_parent_meaning {ε V : Type} [DecidableEq ε] (ev : ε → V) (operands : List ε) (self new : ε)
    (h : ev new = ev self) : (substituteOperand operands self new).map ev = operands.map ev := by
  simp only [substituteOperand, List.map_map]
  apply List.map_congr_left
  intro o _
  simp only [Function.comp]
  split
  · next heq => rw [h, heq]
  · rfl

/-- the re-assembly the code used before (`type(parent)(new, *parent.operands[1:])`), kept as a hypothetical -/
def rebuildFirst {ε} (operands : List ε) (new : ε) : List ε := new :: operands.drop 1

/-- why that was wrong: with the filter as second operand (right input of a Merge, right operand of a binop,
    a frame of Concat) the first operand is overwritten and the old filter stays -/
theorem C03_rebuild_first_would_be_unsound :
    ∃ (operands : List Nat) (self new : Nat), self ∈ operands ∧
      rebuildFirst operands new ≠ substituteOperand operands self new :=
  ⟨[7, 1], 1, 2, by decide, by decide⟩

example : substituteOperand [7, 1, 8] 1 2 = [7, 2, 8] := by decide

/-! ### splitting a conjunction, squashing consecutive filters -/

/-- `Filter(m, p & q)` = `Filter(Filter(m, p), q)` on row lists (the `And` branch of `Merge._simplify_up`) -/
theorem C03_and_split {ρ : Type} (p q : ρ → Bool) (rows : List ρ) :
    rows.filter (fun r => p r && q r) = (rows.filter p).filter q := by
  rw [List.filter_filter]
  apply List.filter_congr
  intro r _
  exact Bool.and_comm _ _

/-- Squashing `Filter(Filter(f, p), q)` into `Filter(f, p & q[self := f])`.  A predicate may read the whole
    frame it is evaluated on (`x.a > x.a.sum()`), so it is a function of the frame and the row; the rule is sound
    when the outer predicate does not notice the substitution (`allow_reduction=False` in the code). -/
theorem C03_squash {ρ : Type} (p : ρ → Bool) (q : List ρ → ρ → Bool) (rows : List ρ)
    (hlocal : ∀ r, q (rows.filter p) r = q rows r) :
    (rows.filter p).filter (q (rows.filter p)) = rows.filter (fun r => p r && q rows r) := by
  rw [List.filter_filter]
  apply List.filter_congr
  intro r _
  rw [hlocal r]
  exact Bool.and_comm _ _

/-- without the side condition squashing is wrong: outer predicate "value < number of rows of my frame" -/
theorem C03_squash_counterexample :
    ∃ (p : Nat → Bool) (q : List Nat → Nat → Bool) (rows : List Nat),
      (rows.filter p).filter (q (rows.filter p)) ≠ rows.filter (fun r => p r && q rows r) :=
  ⟨fun r => r != 0, fun fr r => decide (r < fr.length), [0, 1, 2], by decide⟩

example : ([1, 2, 3, 4].filter (fun r => decide (r > 1))).filter ((fun _ r => decide (r < 4)) ([1, 2, 3, 4].filter (fun r => decide (r > 1))))
    = [2, 3] := by decide

/-! ### crossing an operator, by category -/

/-- row-local, value-preserving operator: the filter moves below it, exactly (order kept) -/
theorem C03_cross_rowlocal {ρ σ : Type} (op : List ρ → List σ) (f : ρ → σ) (predOut : σ → Bool) (predIn : ρ → Bool)
    (h1 : RowLocalLaw op f) (h2 : ValuePreserving f predOut predIn) (rows : List ρ) :
    (op rows).filter predOut = op (rows.filter predIn) :=
  cross_rowlocal op f predOut predIn h1 h2 rows

/-- the same in its plain form -/
theorem C03_cross_rowlocal_map {ρ σ : Type} (f : ρ → σ) (predOut : σ → Bool) (predIn : ρ → Bool)
    (h : ∀ r, predOut (f r) = predIn r) (rows : List ρ) :
    (rows.map f).filter predOut = (rows.filter predIn).map f :=
  cross_rowlocal (List.map f) f predOut predIn ⟨fun _ => rfl⟩ ⟨h⟩ rows

/-- why the input may only be substituted into the predicate under a value-preservation guard (D8, fixed):
    for a value-changing row-local operator the substituted predicate selects other rows -/
theorem C03_cast_substitution_would_be_unsound :
    ∃ (f : Int → Int) (pred : Int → Bool) (rows : List Int), (rows.map f).filter pred ≠ (rows.filter pred).map f :=
  ⟨fun x => x / 2, fun x => decide (x > 0), [1, 2], by decide⟩

/-- a row-local operator that may change values (`astype` with an unsafe cast): the filter still moves below it
    when its predicate keeps reading the operator's output — `AsType(frame[pred(AsType(frame))])`, which is what
    `AsType._simplify_up` builds when `_is_value_preserving()` is false.  No hypothesis on the cast. -/
theorem C03_cross_rowlocal_cast {ρ σ : Type} (op : List ρ → List σ) (f : ρ → σ) (pred : σ → Bool)
    (h : RowLocalLaw op f) (rows : List ρ) :
    (op rows).filter pred = op (rows.filter (fun r => pred (f r))) :=
  cross_rowlocal op f pred (fun r => pred (f r)) h ⟨fun _ => rfl⟩ rows

/-! ### the value-preservation guard of `AsType` -/

/-- an exact cast keeps every integer value of the source dtype: no wrap-around, no rounding -/
theorem C03_cast_exact_sound (o n : NDType) (lo hi z : Int) (h : castExact o n = true)
    (hr : o.intRange = some (lo, hi)) (h1 : lo ≤ z) (h2 : z ≤ hi) : exactIn n z = true := by
  cases o <;> cases n <;>
    simp_all [castExact, exactIn, NDType.intRange, NDType.float] <;> omega

/-- FULL STATEMENT (false on the current tree, D36 open): `castGuard o n = true → castExact o n = true`.
    The guard the code uses admits exactly the exact casts and 64-bit integers → float64. -/
theorem C03_cast_guard_partial (o n : NDType) (h : castGuard o n = true)
    (hex : ¬ ((o = .i64 ∨ o = .u64) ∧ n = .f64)) : castExact o n = true := by
  cases o <;> cases n <;> simp_all [castGuard, numpySafe, castExact, NDType.intRange, NDType.float]

/-- the excluded cells: numpy calls int64 → float64 safe, but 2^53 + 1 is an int64 that float64 cannot hold -/
theorem C03_cast_guard_counterexample :
    castGuard .i64 .f64 = true ∧ castExact .i64 .f64 = false
    ∧ exactIn .i64 9007199254740993 = true ∧ exactIn .f64 9007199254740993 = false := by decide

/-- narrowing casts inside one kind are refused by the guard (what `casting="same_kind"` would let through) -/
theorem C03_cast_guard_refuses_narrowing :
    castGuard .f64 .f32 = false ∧ castGuard .i64 .i32 = false ∧ castGuard .i32 .f32 = false
    ∧ castGuard .u8 .i8 = false ∧ castGuard .f32 .i64 = false := by decide

example : castGuard .i32 .f64 = true ∧ castGuard .u16 .f32 = true ∧ castGuard .f32 .f64 = true ∧ castGuard .bool .i8 = true := by decide

/-- reordering operator (shuffle, sort): the same rows, up to the order the operator leaves unspecified -/
theorem C03_cross_reorder {ρ : Type} (op : List ρ → List ρ) (h : ReorderLaw op) (p : ρ → Bool) (rows : List ρ) :
    ((op rows).filter p).Perm (op (rows.filter p)) :=
  cross_reorder op h p rows

/-- a filter keeps any pairwise order established below it (sorted stays sorted) -/
theorem C03_cross_sorted {ρ : Type} (le : ρ → ρ → Prop) (p : ρ → Bool) (rows : List ρ)
    (h : rows.Pairwise le) : (rows.filter p).Pairwise le :=
  h.filter p

/-- partition-only operator (repartition): per-partition filtering commutes, as concatenations -/
theorem C03_cross_partition_only {ρ : Type} (op : List (List ρ) → List (List ρ)) (h : PartitionOnlyLaw op)
    (p : ρ → Bool) (parts : List (List ρ)) :
    ((op parts).map (List.filter p)).flatten = (op (parts.map (List.filter p))).flatten :=
  cross_partition_only op h p parts

/-- row-selecting operator (another filter) -/
theorem C03_cross_rowselect {ρ : Type} (op : List ρ → List ρ) (s : ρ → Bool) (h : RowSelectLaw op s)
    (p : ρ → Bool) (rows : List ρ) : (op rows).filter p = op (rows.filter p) :=
  cross_rowselect op s h p rows

/-- a reordering of a row-local value-preserving image (`set_index`, whose own check excludes predicates on the index) -/
theorem C03_cross_reorder_after_rowlocal {ρ σ : Type} (g : List σ → List σ) (f : ρ → σ)
    (predOut : σ → Bool) (predIn : ρ → Bool) (hg : ReorderLaw g) (hf : ∀ r, predOut (f r) = predIn r)
    (rows : List ρ) : ((g (rows.map f)).filter predOut).Perm (g ((rows.filter predIn).map f)) := by
  rw [← C03_cross_rowlocal_map f predOut predIn hf rows]
  exact cross_reorder g hg predOut (rows.map f)

/-- what "a filter commutes with every operator of this category" means -/
def FilterCommutes : Category → Prop
  | .rowLocalValuePreserving =>
      ∀ (ρ σ : Type) (op : List ρ → List σ) (f : ρ → σ) (predOut : σ → Bool) (predIn : ρ → Bool),
        RowLocalLaw op f → ValuePreserving f predOut predIn → ∀ rows, (op rows).filter predOut = op (rows.filter predIn)
  | .rowLocalGuarded =>
      -- under the class's guard (values the predicate reads are preserved) the input is substituted; otherwise not
      ∀ (ρ σ : Type) (op : List ρ → List σ) (f : ρ → σ) (predOut : σ → Bool), RowLocalLaw op f →
        (∀ rows, (op rows).filter predOut = op (rows.filter (fun r => predOut (f r)))) ∧
        (∀ predIn : ρ → Bool, ValuePreserving f predOut predIn → ∀ rows, (op rows).filter predOut = op (rows.filter predIn))
  | .reorder =>
      ∀ (ρ : Type) (op : List ρ → List ρ), ReorderLaw op → ∀ p rows, ((op rows).filter p).Perm (op (rows.filter p))
  | .partitionOnly =>
      ∀ (ρ : Type) (op : List (List ρ) → List (List ρ)), PartitionOnlyLaw op → ∀ p parts,
        ((op parts).map (List.filter p)).flatten = (op (parts.map (List.filter p))).flatten
  | .rowSelect =>
      ∀ (ρ : Type) (op : List ρ → List ρ) (s : ρ → Bool), RowSelectLaw op s → ∀ p rows, (op rows).filter p = op (rows.filter p)
  | .needsOwnCheck => False
  | .unclassified => False

theorem C03_cross (c : Category) (h : c.filterCommuting = true) : FilterCommutes c := by
  cases c with
  | rowLocalValuePreserving => intro ρ σ op f po pi h1 h2 rows; exact cross_rowlocal op f po pi h1 h2 rows
  | rowLocalGuarded =>
    intro ρ σ op f po h1
    exact ⟨fun rows => C03_cross_rowlocal_cast op f po h1 rows,
           fun pi h2 rows => cross_rowlocal op f po pi h1 h2 rows⟩
  | reorder => intro ρ op h p rows; exact cross_reorder op h p rows
  | partitionOnly => intro ρ op h p parts; exact cross_partition_only op h p parts
  | rowSelect => intro ρ op s h p rows; exact cross_rowselect op s h p rows
  | needsOwnCheck => cases h
  | unclassified => cases h

/-- T1 table obligation, re-decided by the kernel against the live class table on every run:
    every class whose `_filter_passthrough` is True (or that overrides `_filter_passthrough_available`)
    is in a category for which crossing is proven above, or decides through its own override
    (`Merge`: C03_join_*; `ReadParquet*`: C03_reader_*; `SetIndex`: C03_cross_reorder_after_rowlocal). -/
theorem C03_passthrough_table : ∀ e ∈ Generated.filterFlags, e.ok = true := by
  have h : Generated.filterFlags.all FlagEntry.ok = true := by decide +kernel
  exact fun e he => List.all_eq_true.mp h e he

theorem C03_passthrough_sound (e : FlagEntry) (he : e ∈ Generated.filterFlags) (hf : e.flag = true) :
    FilterCommutes e.cat ∨ (e.ownCheck = true ∧ e.cat = .needsOwnCheck) := by
  have h := C03_passthrough_table e he
  simp only [FlagEntry.ok, hf, Bool.true_or, if_true, Bool.or_eq_true, Bool.and_eq_true, beq_iff_eq] at h
  rcases h with h | h
  · exact Or.inl (C03_cross e.cat h)
  · exact Or.inr h

-- non-vacuity: instances of each law
example : RowLocalLaw (List.map (fun x : Nat => x + 1)) (fun x => x + 1) := ⟨fun _ => rfl⟩
example : ValuePreserving (fun x : Nat × Nat => (x.1, x.2 + 1)) (fun r => decide (r.1 > 1)) (fun r => decide (r.1 > 1)) := ⟨fun _ => rfl⟩
example : ReorderLaw (List.reverse : List Nat → List Nat) := ⟨fun rows => List.reverse_perm rows⟩
example : PartitionOnlyLaw (fun parts : List (List Nat) => [parts.flatten]) := ⟨fun parts => by simp⟩
example : RowSelectLaw (List.filter (fun x : Nat => decide (x > 2))) (fun x => decide (x > 2)) := ⟨fun _ => rfl⟩
example : (Generated.filterFlags.filter (fun e => e.flag)).length > 20 := by decide

/-! ### reader filters: DNF -/

/-- `_DNF.normalize` keeps the meaning of a filter, for any reading `t` of the tuples
    (two-valued pandas reading, or the reader's "is non-null true") -/
theorem C03_dnf {α : Type} (f : Filt α) (t : α → Bool) : evalDNF t (dnfNormalize f) = evalFilt t f :=
  eval_dnfNormalize t f

/-- normalising a normalised value changes nothing (exactly, as lists) -/
theorem C03_dnf_idempotent {α : Type} (d : DNF α) : dnfNormalize (Filt.ofDNF d) = d :=
  dnfNormalize_ofDNF d

/-- `_DNF.combine`: the conjunction of the pushed predicate and the filters already on the reader -/
theorem C03_dnf_combine {α : Type} [DecidableEq α] (t : α → Bool) (a b : Option (DNF α))
    (ha : ∀ d, a = some d → d ≠ []) (hb : ∀ d, b = some d → d ≠ []) :
    evalODNF t (dnfCombine a b) = (evalODNF t a && evalODNF t b) :=
  eval_dnfCombine t a b ha hb

/-- `_DNF.extract_pq_filters`: whenever it yields filters, they mean the predicate (under any reading of the
    tuples), the predicate is negation-free, and the result is a non-empty DNF -/
theorem C03_extract (p : T Atom) (d : DNF Atom) (h : extractPq p = some d) :
    d ≠ [] ∧ p.negFree = true ∧ ∀ t : Atom → Bool, evalDNF t d = eval2 t p :=
  extractPq_sound p d h

/-- the reader's three-valued row test on the DNF equals the Kleene "kept" reading of the predicate tree -/
theorem C03_dnf_kleene (p : T Atom) (d : DNF Atom) (h : extractPq p = some d) (v : Cells) :
    keepDNF3 v d = keep3 v p := by
  obtain ⟨_, hn, he⟩ := extractPq_sound p d h
  rw [keep3_negFree v p hn]
  exact he _

/-- negation-free predicates over null-compatible atoms: the reader keeps exactly the rows pandas keeps -/
theorem C03_reader_nulls (p : T Atom) (v : Cells) (hneg : p.negFree = true)
    (hnc : ∀ a ∈ p.atoms, a.NullCompatible = true) : keep3 v p = eval2c v p := by
  rw [keep3_negFree v p hneg]
  unfold eval2c
  apply eval2_congr_atoms
  intro a ha
  exact atom_nullCompatible v a (hnc a ha)

/-- everything the code pushes is null-compatible (`!=` is not extracted any more) -/
theorem C03_extract_null_compatible (p : T Atom) (d : DNF Atom) (h : extractPq p = some d) :
    ∀ a ∈ p.atoms, a.NullCompatible = true :=
  extractPq_nullCompatible p d h

/-- end to end for a pushed predicate, no side condition: whenever `extract_pq_filters` yields filters, the reader's
    three-valued row test on them keeps exactly the rows pandas keeps for the predicate — with nulls -/
theorem C03_reader_pushdown (p : T Atom) (d : DNF Atom) (v : Cells) (h : extractPq p = some d) :
    keepDNF3 v d = eval2c v p := by
  rw [C03_dnf_kleene p d h v]
  exact C03_reader_nulls p v (extractPq_sound p d h).2.1 (extractPq_nullCompatible p d h)

/-- why `!=` must not be pushed (D9, fixed): as a reader filter it drops the row whose cell is null, pandas keeps it -/
theorem C03_ne_pushdown_would_be_unsound :
    ∃ (v : Cells), keepDNF3 v [[Atom.cmp 0 .ne 2]] ≠ eval2c v (.atom (.cmp 0 .ne 2)) :=
  ⟨fun _ => none, by decide⟩

/-- … and the code refuses it, alone or inside a conjunction / disjunction -/
theorem C03_ne_not_extracted (col : Nat) (c : Int) (q : T Atom) :
    extractPq (.atom (.cmp col .ne c)) = none
    ∧ extractPq (.and (.atom (.cmp col .ne c)) q) = none
    ∧ extractPq (.or q (.atom (.cmp col .ne c))) = none := by
  refine ⟨rfl, rfl, ?_⟩
  simp only [extractPq]
  cases extractPq q <;> rfl

example : extractPq (.or (.and (.atom (.cmp 0 .lt 3)) (.atom (.cmp 1 .ge 2))) (.atom (.cmp 0 .eq 7)))
    = some [[.cmp 0 .lt 3, .cmp 1 .ge 2], [.cmp 0 .eq 7]] := by decide
example : extractPq (.and (.or (.atom (.cmp 0 .lt 3)) (.atom (.cmp 1 .ge 2))) (.or (.atom (.cmp 0 .eq 7)) (.atom (.cmp 2 .gt 0))))
    = some [[.cmp 0 .lt 3, .cmp 0 .eq 7], [.cmp 0 .lt 3, .cmp 2 .gt 0], [.cmp 1 .ge 2, .cmp 0 .eq 7], [.cmp 1 .ge 2, .cmp 2 .gt 0]] := by decide
-- equal operands collapse (frozenset): `(x | y) & (y | x)` stays `x | y`
example : extractPq (.and (.or (.atom (.cmp 0 .lt 3)) (.atom (.cmp 1 .ge 2))) (.or (.atom (.cmp 1 .ge 2)) (.atom (.cmp 0 .lt 3))))
    = some [[.cmp 0 .lt 3], [.cmp 1 .ge 2]] := by decide
example : keep3 (fun c => if c = 0 then none else some 5) (.or (.atom (.cmp 0 .lt 3)) (.atom (.cmp 1 .ge 2))) = true := by decide

-- non-vacuity of C03_reader_nulls: a negation-free formula over null-compatible atoms, a row with a null
def exReader : T Atom := .or (.atom (.cmp 0 .lt 3)) (.and (.atom (.isna 0 false)) (.atom (.isin 1 false [5, 6])))
example : exReader.negFree = true ∧ (∀ a ∈ exReader.atoms, a.NullCompatible = true)
    ∧ keep3 (fun c => if c = 0 then none else some 5) exReader = true := by decide
-- non-vacuity of C03_dnf_combine: both sides present and non-empty
example : dnfCombine (some [[Atom.cmp 0 .lt 3], [Atom.cmp 1 .ge 2]]) (some [[Atom.cmp 2 .eq 1]])
    = some [[.cmp 0 .lt 3, .cmp 2 .eq 1], [.cmp 1 .ge 2, .cmp 2 .eq 1]] := by decide
-- n-ary normalize: _And{ _Or{x, y}, z, _Or{_And{x, z}} }
example : dnfNormalize (Filt.andS [.orS [.tup 1, .tup 2], .tup 3, .orS [.andS [.tup 1, .tup 3]]] : Filt Nat)
    = [[1, 3, 1, 3], [2, 3, 1, 3]] := by decide

/-! ### joins -/

/-- The replacement "filter the output" → "filter the inputs named by `sides`" is right for every match
    relation, every pair of inputs and every predicate that reads only the named side
    (for both sides: a key column on which matching rows agree). -/
def JoinFilterLegal (how : How) (sides : Bool × Bool) : Prop :=
  match sides with
  | (false, false) => True
  | (true, false) => ∀ (α β : Type) (m : α → β → Bool) (L : List α) (R : List β) (p : Option α → Bool),
      (join how m L R).filter (fun jr => p jr.1) = join how m (L.filter (fun a => p (some a))) R
  | (false, true) => ∀ (α β : Type) (m : α → β → Bool) (L : List α) (R : List β) (q : Option β → Bool),
      (join how m L R).filter (fun jr => q jr.2) = join how m L (R.filter (fun b => q (some b)))
  | (true, true) => ∀ (α β : Type) (m : α → β → Bool) (L : List α) (R : List β) (p : Option α → Bool) (sR : β → Bool),
      (∀ a b, m a b = true → sR b = p (some a)) →
      (join how m L R).filter (fun jr => p jr.1) = join how m (L.filter (fun a => p (some a))) (R.filter sR)

/-- exactly the join kinds the legality table names -/
theorem C03_join_side (how : How) (sides : Bool × Bool) (h : joinPushLegal how sides = true) :
    JoinFilterLegal how sides := by
  obtain ⟨l, r⟩ := sides
  cases l <;> cases r
  · trivial
  · intro α β m L R q
    apply join_right_push
    cases how <;> simp_all [joinPushLegal]
  · intro α β m L R p
    apply join_left_push
    cases how <;> simp_all [joinPushLegal]
  · intro α β m L R p sR hag
    apply join_both_push _ _ m L R p sR hag
    cases how <;> simp_all [joinPushLegal]

/-- … and for every other join kind the replacement is wrong: a side's rows are re-introduced, null-padded -/
theorem C03_join_side_converse (how : How) (sides : Bool × Bool) (h : joinPushLegal how sides = false) :
    ¬ JoinFilterLegal how sides := by
  obtain ⟨l, r⟩ := sides
  cases l <;> cases r
  · cases how <;> simp [joinPushLegal] at h
  · -- predicate on the right pushed into the right input: wrong for left, outer, leftsemi
    intro hl
    cases how <;> simp [joinPushLegal] at h
    · exact absurd (hl Nat Nat (fun a b => a == b) [1] [1] (fun o => o.isNone)) (by decide)
    · exact absurd (hl Nat Nat (fun a b => a == b) [1] [1] (fun o => o.isNone)) (by decide)
    · exact absurd (hl Nat Nat (fun a b => a == b) [1] [1] (fun o => o.isNone)) (by decide)
  · intro hl
    cases how <;> simp [joinPushLegal] at h
    · exact absurd (hl Nat Nat (fun a b => a == b) [1] [1] (fun _ => false)) (by decide)
    · exact absurd (hl Nat Nat (fun a b => a == b) [1] [1] (fun _ => false)) (by decide)
  · intro hl
    cases how <;> simp [joinPushLegal] at h
    · exact absurd (hl Nat Nat (fun _ _ => false) [] [5] (fun _ => false) (fun _ => true) (fun _ _ h => by cases h)) (by decide)
    · exact absurd (hl Nat Nat (fun _ _ => false) [] [5] (fun _ => false) (fun _ => true) (fun _ _ h => by cases h)) (by decide)

/-- the concrete instance asked for: a left-side predicate under a right join -/
theorem C03_join_right_counterexample :
    (join .right (fun a b : Nat => a == b) [1] [1]).filter (fun jr => (fun _ => false) jr.1)
      ≠ join .right (fun a b : Nat => a == b) ([1].filter (fun _ => false)) [1] := by decide

/-- The decision tables of `Merge._filter_passthrough_available` + `Merge._simplify_up` (both through
    `_filter_sides`): whenever the rule fires it filters only inputs that own the predicate's columns in the output
    (suffix renames accounted for) and only for join kinds for which `C03_join_side` proves the move. -/
theorem C03_join_table (how : How) (pc : PredCols) (isAnd dep lcoll rcoll : Bool)
    (havail : mergeFilterAvail true how pc lcoll rcoll isAnd dep = true) :
    joinPushLegal how (mergePushSides pc lcoll rcoll) = true
    ∧ ((mergePushSides pc lcoll rcoll).1 = true → (semanticSides pc lcoll rcoll).1 = true)
    ∧ ((mergePushSides pc lcoll rcoll).2 = true → (semanticSides pc lcoll rcoll).2 = true) := by
  cases how <;> cases pc <;> cases lcoll <;> cases rcoll <;>
    simp_all [mergeFilterAvail, mergeFilterSides, mergePushSides, joinPushLegal, semanticSides]

/-- composed with the semantics: a firing of the rule is a legal move -/
theorem C03_join_table_sound (how : How) (pc : PredCols) (isAnd dep lcoll rcoll : Bool)
    (havail : mergeFilterAvail true how pc lcoll rcoll isAnd dep = true) :
    JoinFilterLegal how (mergePushSides pc lcoll rcoll) :=
  C03_join_side how _ (C03_join_table how pc isAnd dep lcoll rcoll havail).1

/-- the cell that used to be wrong (`suffixes=("_x","")`, predicate on the unsuffixed right column): the filter goes
    to the right input, and now only for `right`/`inner` joins -/
theorem C03_join_table_renamed_left (how : How) (isAnd dep : Bool) :
    mergePushSides .both true false = (false, true)
    ∧ (mergeFilterAvail true how .both true false isAnd dep = true ↔ (how = .right ∨ how = .inner)) := by
  cases how <;> simp [mergePushSides, mergeFilterSides, mergeFilterAvail]

/-- suffixing: a predicate whose columns are renamed on both sides, or are not input columns at all, is never pushed -/
theorem C03_join_suffix (how : How) (isAnd dep : Bool) :
    mergePushSides .both true true = (false, false)
    ∧ (∀ l r, mergeFilterAvail true how .neither l r isAnd dep = false)
    ∧ (∀ l r, mergeFilterAvail true how .unknown l r isAnd dep = false)
    ∧ mergeFilterAvail true how .both true true isAnd dep = false := by
  cases how <;> simp [mergePushSides, mergeFilterSides, mergeFilterAvail]

-- non-vacuity: real joins with matches, misses and duplicates
example : join .left (fun a b : Nat => a % 3 == b % 3) [1, 2, 3] [4, 7, 5] =
    [(some 1, some 4), (some 1, some 7), (some 2, some 5), (some 3, none)] := by decide
example : (join .left (fun a b : Nat => a % 3 == b % 3) [1, 2, 3] [4, 7, 5]).filter (fun jr => (fun o => o != some 1) jr.1)
    = join .left (fun a b : Nat => a % 3 == b % 3) ([1, 2, 3].filter (fun a => (fun o => o != some 1) (some a))) [4, 7, 5] := by decide
example : join .outer (fun a b : Nat => a == b) [1, 2] [2, 3] = [(some 1, none), (some 2, some 2), (none, some 3)] := by decide
example : join .leftsemi (fun a b : Nat => a == b) [1, 2, 2] [2, 2, 3] = [(some 2, none), (some 2, none)] := by decide
example : mergeFilterAvail true .left .left false false false false = true ∧ mergePushSides .left false false = (true, false) := ⟨rfl, rfl⟩

end Dx
