/-
  Props/C16.lean — collections survive serialization to another process.
  Model: DxModel/Pickle.lean; lemmas: Lemmas/Pickle.lean; tables: Generated/CacheSites.lean.
-/
import DxModel.Lemmas.Pickle
import DxModel.Lemmas.Names
import DxModel.Generated.CacheSites
namespace Dx
open Pickle Names Cache

/-- `pickle.loads(pickle.dumps(e))` in a fresh process rebuilds exactly the tree `e` — every node with its
    class and operands, nested lists of expressions (`Fused.exprs`) included — except that every
    `_BackendData` wrapper arrives with an empty `_division_info` cache (structural induction, all trees). -/
theorem C16_roundtrip (e : PE) : reconstruct (reduce e) = .sub (cold e) := roundtripE e

/-- the same for a collection (`FrameBase.__reduce__ = (new_collection, (expr,))`) and for any operand -/
theorem C16_roundtrip_collection (e : PE) : reconstruct (reduceColl e) = .sub (cold e) := by
  simp only [reduceColl, reconstruct, roundtripE]

theorem C16_roundtrip_operand (o : POp) : reconstruct (reduceO o) = coldO o := roundtripO o

/-- if no wrapper had a warm cache the round trip is the identity -/
theorem C16_roundtrip_cold (e : PE) (h : ColdE e) : reconstruct (reduce e) = .sub e := by
  rw [roundtripE, cold_idE e h]

/-- The reconstructed expression has the *same name* (names ignore per-object caches: `_BackendData` is
    tokenized through its data), for every naming scheme. -/
theorem C16_same_name {τ : Type} (S : Scheme Nat τ) (e : PE) : nameOf S (toE (cold e)) = nameOf S (toE e) := by
  rw [toE_cold]

/-- Observables.  A method that obtains its value purely from operands, or through get-or-compute on a
    process-global cache, returns `f key` in *every* process state satisfying the cache invariant — in
    particular the same value in the originating process (warm caches) and in a fresh one (empty caches). -/
theorem C16_observables {κ ν : Type} [DecidableEq κ] (f : κ → Option ν) {cap : Nat} (hcap : 0 < cap)
    (d : Discipline) (hd : d ≠ .assertHit) (warm : LRU κ ν) (hw : Inv f warm) (k : κ) :
    (observe d cap f warm k).1 = (observe d cap f ([] : LRU κ ν) k).1 := by
  rw [(observe_spec hcap d hd hw k).1, (observe_spec hcap d hd (inv_nil f) k).1]

/-- … whereas an assert-on-miss read fails in the fresh process although it succeeded at home (D10) -/
theorem C16_assert_on_miss_fails_elsewhere :
    ∃ (f : Nat → Option Nat) (warm : LRU Nat Nat) (k : Nat), Inv f warm ∧
      (observe .assertHit 10 f warm k).1 = some 5 ∧ (observe .assertHit 10 f ([] : LRU Nat Nat) k).1 = none :=
  ⟨fun _ => some 5, [(0, 5)], 0, by intro p hp; simp at hp; subst hp; rfl, by decide, by decide⟩

/-! ### table obligation: which observables of which classes read process-global state, and how -/

/-- discipline of a scanned site (an unreachable read does not count) -/
def siteDiscipline (s : Site) : Discipline :=
  if !s.reads || s.unreachable then .pure else if s.guarded then .recompute else .assertHit

/-- Every observable of every expression class that touches process-global state computes from operands or
    recomputes on a miss: no reachable assert-on-miss read is left (D10 was the one exception until /repo 53e3171;
    its branch is now unreachable because every `_SetIndexPost(…)` call carries the divisions as an operand). -/
theorem C16_observables_table :
    ∀ s ∈ Generated.cacheSites, s.observable = true → siteDiscipline s ≠ .assertHit := by decide

/-! ### non-vacuity -/

/-- a fused plan over a source frame with a warm cache: `Fused([Add(FromPandas(data 7, …), 1)], FromPandas …)` -/
def demoTree : PE :=
  .node 3 [.seq [.sub (.node 1 [.sub (.node 0 [.backend 7 [(2, 9)], .lit 4]), .lit 1])],
           .sub (.node 0 [.backend 7 [(2, 9)], .lit 4])]

example : reconstruct (reduce demoTree) =
    .sub (.node 3 [.seq [.sub (.node 1 [.sub (.node 0 [.backend 7 [], .lit 4]), .lit 1])],
                   .sub (.node 0 [.backend 7 [], .lit 4])]) := by
  rw [C16_roundtrip]; rfl

example : ¬ ColdE demoTree := by simp [demoTree, ColdE, ColdOps, ColdO]
example : ColdE (cold demoTree) := by simp [demoTree, cold, coldOps, coldO, ColdE, ColdOps, ColdO]

/-- a warm cache satisfying the invariant, used through get-or-compute -/
example : (observe .recompute 10 (fun k => some (k + 1)) ([(3, 4)] : LRU Nat Nat) 3).1
    = (observe .recompute 10 (fun k => some (k + 1)) ([] : LRU Nat Nat) 3).1 := by decide

end Dx
