/-
  Props/C12.lean — property theorems for C12 (shuffle).  Helper lemmas live in Lemmas/.
-/
import DxModel.Lemmas.Shuffle
namespace Dx
open Shuffle

/-- SimpleShuffle: every requested output partition holds exactly the input rows whose target is
    that partition (in input order), for all n_in, n_out and every selection `parts`. -/
theorem C12_simple (I : Interp) (p : Params) (rows : Nat → List Row) (j : Nat) (hj : j < p.parts.length)
    (hparts : ∀ o ∈ p.parts, o < p.nout) (hrows : ∀ i, ∀ r ∈ rows i, r.tgt < p.nout) :
    run I (simpleTask p) (inputs rows) 3 (.out .self j) = .frame (sem p rows p.parts[j]) :=
  run_simple I p rows j hj hparts hrows

end Dx
