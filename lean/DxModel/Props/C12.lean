/-
  Props/C12.lean — property theorems for C12 (shuffle).  Helper lemmas live in Lemmas/.

  `sem p rows o` (Layers/Shuffle.lean) is the specification of output partition `o`: the rows of all
  input partitions whose `tgt` (= `_partitions` value = hash(key) % nout) is `o`, in input order.

    C12_simple / C12_staged(_eq/_ne) / C12_disk / C12_task   run(layer) = (a permutation of) sem
    C12_split_perm, C12_total(_simple/_staged/_disk)         every row exactly once
    C12_mem_sem, C12_colocate(_key), C12_cross_frame         co-location, consistency across frames
  Well-formedness (Closed / Ranked) of the three layers: Lemmas/ShuffleWF.lean.
-/
import DxModel.Lemmas.Shuffle
import DxModel.Lemmas.ShufflePerm
import DxModel.Lemmas.ShuffleDisk
import DxModel.Lemmas.ShuffleStaged
import DxModel.Lemmas.ShuffleWF
import DxModel.Lemmas.ShuffleExamples
namespace Dx
open Shuffle

open C12Ex

/-! ### 1. SimpleShuffle -/

/-- SimpleShuffle: every requested output partition holds exactly the input rows whose target is
    that partition (in input order), for all n_in, n_out and every selection `parts`. -/
theorem C12_simple (I : Interp) (p : Params) (rows : Nat → List Row) (j : Nat) (hj : j < p.parts.length)
    (hparts : ∀ o ∈ p.parts, o < p.nout) (hrows : ∀ i, ∀ r ∈ rows i, r.tgt < p.nout) :
    run I (simpleTask p) (inputs rows) 3 (.out .self j) = .frame (sem p rows p.parts[j]) :=
  run_simple I p rows j hj hparts hrows

example : run I0 (simpleTask pEq) (inputs (rowsMod 5)) 3 (.out .self 1) = .frame (sem pEq (rowsMod 5) 3) :=
  C12_simple I0 pEq (rowsMod 5) 1 (by decide) (by decide) (rowsMod_lt 5 (by decide))

/-! ### 2. k-way split -/

/-- A k-way split of a list by a key function `< k` is a permutation of the list
    (`shuffle_group` loses and duplicates nothing). -/
theorem C12_split_perm {α} (l : List α) (f : α → Nat) (k : Nat) (h : ∀ r ∈ l, f r < k) :
    ((List.range k).flatMap (fun i => l.filter (fun r => f r == i))).Perm l :=
  split_perm l f k h

example : ((List.range 3).flatMap (fun i => [5, 1, 3, 2, 4, 0].filter (fun r => r % 3 == i))).Perm
    [5, 1, 3, 2, 4, 0] :=
  C12_split_perm [5, 1, 3, 2, 4, 0] (fun r => r % 3) 3 (by decide)

/-! ### 3. staged TaskShuffle -/

/-- Staged TaskShuffle, `nout = nin` (the last stage writes the self-named outputs; with
    `_filtered` the `_filter` of the last stage is the set of last-stage digits of the selected
    partitions): output `j` is a permutation of the rows with `tgt = parts[j]`, for every number of
    stages, fan-out, `nin` and selection. -/
theorem C12_staged_eq (I : Interp) (p : Params) (rows : Nat → List Row)
    (harith : stageArithOK p.nin p.stages p.nsplits = true) (heq : p.nout = p.nin)
    (hparts : ∀ o ∈ p.parts, o < p.nout) (hrows : ∀ i, ∀ r ∈ rows i, r.tgt < p.nout)
    (j : Nat) (hj : j < p.parts.length) (fuel : Nat) (hfuel : 3 * p.stages + 1 ≤ fuel) :
    ∃ l, run I (stagedTask p) (inputs rows) fuel (.out .self j) = .frame l ∧
      l.Perm (sem p rows p.parts[j]) := by
  simp only [stageArithOK, Bool.and_eq_true, decide_eq_true_eq] at harith
  obtain ⟨⟨hs, hk2⟩, hle⟩ := harith
  have hk : 0 < p.nsplits := by omega
  have ho : p.parts[j] < p.nin := heq ▸ hparts _ (List.getElem_mem hj)
  refine ⟨_, run_staged_eq I p rows hk hs heq j hj fuel hfuel, ?_⟩
  refine (stages_sem p rows hk (by omega) hle p.parts[j] (Nat.lt_of_lt_of_le ho hle)).trans
    (List.Perm.of_eq ?_)
  unfold sem
  apply flatMap_congr'
  intro i _
  apply List.filter_congr
  intro r hr
  have : r.tgt < p.nin := heq ▸ hrows i r hr
  rw [Nat.mod_eq_of_lt this]

/-- Staged TaskShuffle, `nout ≠ nin` (all stages are named `stage-s` and route by `tgt % nin`;
    output `j` regroups partition `parts[j] % nin` of the last stage and takes group `parts[j]`).
    No bound on `parts` / `tgt` and no relation between `nin` and `nout` is needed. -/
theorem C12_staged_ne (I : Interp) (p : Params) (rows : Nat → List Row)
    (harith : stageArithOK p.nin p.stages p.nsplits = true) (hne : p.nout ≠ p.nin) (hnin : 0 < p.nin)
    (j : Nat) (hj : j < p.parts.length) (fuel : Nat) (hfuel : 3 * p.stages + 3 ≤ fuel) :
    ∃ l, run I (stagedTask p) (inputs rows) fuel (.out .self j) = .frame l ∧
      l.Perm (sem p rows p.parts[j]) := by
  simp only [stageArithOK, Bool.and_eq_true, decide_eq_true_eq] at harith
  obtain ⟨⟨hs, hk2⟩, hle⟩ := harith
  have hk : 0 < p.nsplits := by omega
  have hmod : p.parts[j] % p.nin < p.nin := Nat.mod_lt _ hnin
  refine ⟨_, run_staged_ne I p rows hk hs hne hnin hle j hj fuel hfuel, ?_⟩
  refine ((stages_sem p rows hk hnin hle _ (Nat.lt_of_lt_of_le hmod hle)).filter _).trans
    (List.Perm.of_eq ?_)
  unfold sem
  rw [List.filter_flatMap]
  apply flatMap_congr'
  intro i _
  rw [List.filter_filter]
  apply List.filter_congr
  intro r _
  by_cases h : r.tgt = p.parts[j]
  · simp [h]
  · simp [h]

/-- Staged TaskShuffle (both cases).  Hypotheses: the float stage arithmetic produced `stages ≥ 1`,
    `nsplits ≥ 2`, `nin ≤ nsplits^stages` (T3-checked); the frame has at least one partition; selected
    partitions and `_partitions` values are `< nout`.  (`nin ≤ nout`, which `Shuffle._lower`
    establishes by repartitioning first, is *not* needed for correctness.) -/
theorem C12_staged (I : Interp) (p : Params) (rows : Nat → List Row)
    (harith : stageArithOK p.nin p.stages p.nsplits = true) (hnin : 0 < p.nin)
    (hparts : ∀ o ∈ p.parts, o < p.nout) (hrows : ∀ i, ∀ r ∈ rows i, r.tgt < p.nout)
    (j : Nat) (hj : j < p.parts.length) (fuel : Nat) (hfuel : 3 * p.stages + 3 ≤ fuel) :
    ∃ l, run I (stagedTask p) (inputs rows) fuel (.out .self j) = .frame l ∧
      l.Perm (sem p rows p.parts[j]) := by
  by_cases heq : p.nout = p.nin
  · exact C12_staged_eq I p rows harith heq hparts hrows j hj fuel (by omega)
  · exact C12_staged_ne I p rows harith heq hnin j hj fuel hfuel

example : ∃ l, run I0 (stagedTask pEq) (inputs (rowsMod 5)) 12 (.out .self 0) = .frame l ∧
    l.Perm (sem pEq (rowsMod 5) 2) :=
  C12_staged I0 pEq (rowsMod 5) (by decide) (by decide) (by decide) (rowsMod_lt 5 (by decide))
    0 (by decide) 12 (by decide)

example : ∃ l, run I0 (stagedTask pNe) (inputs (rowsMod 7)) 9 (.out .self 0) = .frame l ∧
    l.Perm (sem pNe (rowsMod 7) 6) :=
  C12_staged I0 pNe (rowsMod 7) (by decide) (by decide) (by decide) (rowsMod_lt 7 (by decide))
    0 (by decide) 9 (by decide)

/-- the conclusion on the concrete instances, by evaluation (fuel bounds are tight: one unit less gives `err`) -/
example : run I0 (stagedTask pEq) (inputs (rowsMod 5)) 10 (.out .self 0) =
    .frame [⟨2, 2, 0⟩, ⟨22, 2, 2⟩, ⟨13, 2, 1⟩, ⟨23, 2, 2⟩] := by decide
example : run I0 (stagedTask pEq) (inputs (rowsMod 5)) 9 (.out .self 0) = .err := by decide
example : run I0 (stagedTask pNe) (inputs (rowsMod 7)) 9 (.out .self 2) = .frame [⟨21, 4, 2⟩] := by decide
example : run I0 (stagedTask pNe) (inputs (rowsMod 7)) 8 (.out .self 2) = .err := by decide

example : ∃ l, run I0 (stagedTask pEq) (inputs (rowsMod 5)) 10 (.out .self 2) = .frame l ∧
    l.Perm (sem pEq (rowsMod 5) 4) :=
  C12_staged_eq I0 pEq (rowsMod 5) (by decide) rfl (by decide) (rowsMod_lt 5 (by decide))
    2 (by decide) 10 (by decide)

example : ∃ l, run I0 (stagedTask pNe) (inputs (rowsMod 7)) 9 (.out .self 2) = .frame l ∧
    l.Perm (sem pNe (rowsMod 7) 4) :=
  C12_staged_ne I0 pNe (rowsMod 7) (by decide) (by decide) (by decide) 2 (by decide) 9 (by decide)

/-- `TaskShuffle._layer` as a whole (`taskTask` = staged when both `len(_partitions)` and `nin`
    exceed `max_branch`, the simple layer otherwise). -/
theorem C12_task (I : Interp) (p : Params) (rows : Nat → List Row)
    (harith : isStaged p = true → stageArithOK p.nin p.stages p.nsplits = true)
    (hparts : ∀ o ∈ p.parts, o < p.nout) (hrows : ∀ i, ∀ r ∈ rows i, r.tgt < p.nout)
    (j : Nat) (hj : j < p.parts.length) (fuel : Nat) (hfuel : 3 * p.stages + 3 ≤ fuel) :
    ∃ l, run I (taskTask p) (inputs rows) fuel (.out .self j) = .frame l ∧
      l.Perm (sem p rows p.parts[j]) := by
  unfold taskTask
  cases hst : isStaged p with
  | true =>
    have hnin : 0 < p.nin := by
      simp only [isStaged, Bool.not_eq_true', Bool.or_eq_false_iff, decide_eq_false_iff_not] at hst
      omega
    simpa using C12_staged I p rows (harith hst) hnin hparts hrows j hj fuel hfuel
  | false =>
    refine ⟨_, ?_, List.Perm.refl _⟩
    have h3 := run_simple I p rows j hj hparts hrows
    have := run_stable I (simpleTask p) (inputs rows) (simpleRank) (simple_ranked p) 3 (.out .self j)
      (by simp [simpleRank]) fuel (by omega)
    simpa [this] using h3

example : ∃ l, run I0 (taskTask pEq) (inputs (rowsMod 5)) 12 (.out .self 0) = .frame l ∧
    l.Perm (sem pEq (rowsMod 5) 2) :=
  C12_task I0 pEq (rowsMod 5) (fun _ => by decide) (by decide) (rowsMod_lt 5 (by decide))
    0 (by decide) 12 (by decide)

/-! ### 4. DiskShuffle -/

/-- DiskShuffle: once every input partition has been written (`barrier`), `collect` of output `j`
    returns exactly the rows with `tgt = parts[j]`, for all `nin`, `nout`, selections. -/
theorem C12_disk (I : Interp) (p : Params) (rows : Nat → List Row) (j : Nat) (hj : j < p.parts.length)
    (fuel : Nat) (hfuel : 3 ≤ fuel) :
    run I (diskTask p) (inputs rows) fuel (.out .self j) = .frame (sem p rows p.parts[j]) := by
  obtain ⟨n, rfl⟩ : ∃ n, fuel = n + 3 := ⟨fuel - 3, by omega⟩
  exact run_disk I p rows j hj n

example : run I0 (diskTask pNe) (inputs (rowsMod 7)) 3 (.out .self 1) = .frame (sem pNe (rowsMod 7) 0) :=
  C12_disk I0 pNe (rowsMod 7) 1 (by decide) 3 (by decide)

/-! ### 5. every row exactly once -/

/-- The `nout` semantic output partitions together are a permutation of all input rows. -/
theorem C12_total (p : Params) (rows : Nat → List Row) (hrows : ∀ i, ∀ r ∈ rows i, r.tgt < p.nout) :
    ((List.range p.nout).flatMap (fun o => sem p rows o)).Perm ((List.range p.nin).flatMap rows) :=
  sem_total p rows hrows

example : ((List.range 7).flatMap (fun o => sem pNe (rowsMod 7) o)).Perm ((List.range 3).flatMap (rowsMod 7)) :=
  C12_total pNe (rowsMod 7) (rowsMod_lt 7 (by decide))

/-- Unfiltered SimpleShuffle: the concatenation of all outputs is a permutation of the concatenation
    of all inputs. -/
theorem C12_total_simple (I : Interp) (p : Params) (rows : Nat → List Row)
    (hp : p.parts = List.range p.nout) (hrows : ∀ i, ∀ r ∈ rows i, r.tgt < p.nout) :
    ∃ l, concatV ((List.range p.nout).map (fun j => run I (simpleTask p) (inputs rows) 3 (.out .self j))) =
      .frame l ∧ l.Perm ((List.range p.nin).flatMap rows) := by
  apply outputs_total p rows hrows
  intro j hj
  obtain ⟨h, e⟩ := parts_range p hp j hj
  exact ⟨_, C12_simple I p rows j h (parts_range_lt p hp) hrows, by rw [e]⟩

example : ∃ l, concatV ((List.range 5).map (fun j => run I0 (simpleTask pEqAll) (inputs (rowsMod 5)) 3
    (.out .self j))) = .frame l ∧ l.Perm ((List.range 5).flatMap (rowsMod 5)) :=
  C12_total_simple I0 pEqAll (rowsMod 5) rfl (rowsMod_lt 5 (by decide))

/-- Unfiltered staged TaskShuffle: all outputs together are a permutation of all inputs. -/
theorem C12_total_staged (I : Interp) (p : Params) (rows : Nat → List Row)
    (harith : stageArithOK p.nin p.stages p.nsplits = true) (hnin : 0 < p.nin)
    (hp : p.parts = List.range p.nout) (hrows : ∀ i, ∀ r ∈ rows i, r.tgt < p.nout)
    (fuel : Nat) (hfuel : 3 * p.stages + 3 ≤ fuel) :
    ∃ l, concatV ((List.range p.nout).map (fun j => run I (stagedTask p) (inputs rows) fuel (.out .self j))) =
      .frame l ∧ l.Perm ((List.range p.nin).flatMap rows) := by
  apply outputs_total p rows hrows
  intro j hj
  obtain ⟨h, e⟩ := parts_range p hp j hj
  obtain ⟨l, hl, hperm⟩ := C12_staged I p rows harith hnin (parts_range_lt p hp) hrows j h fuel hfuel
  exact ⟨l, hl, by rw [← e]; exact hperm⟩

example : ∃ l, concatV ((List.range 5).map (fun j => run I0 (stagedTask pEqAll) (inputs (rowsMod 5)) 12
    (.out .self j))) = .frame l ∧ l.Perm ((List.range 5).flatMap (rowsMod 5)) :=
  C12_total_staged I0 pEqAll (rowsMod 5) (by decide) (by decide) rfl (rowsMod_lt 5 (by decide)) 12 (by decide)

example : ∃ l, concatV ((List.range 7).map (fun j => run I0 (stagedTask pNeAll) (inputs (rowsMod 7)) 9
    (.out .self j))) = .frame l ∧ l.Perm ((List.range 3).flatMap (rowsMod 7)) :=
  C12_total_staged I0 pNeAll (rowsMod 7) (by decide) (by decide) rfl (rowsMod_lt 7 (by decide)) 9 (by decide)

/-- Unfiltered DiskShuffle: all outputs together are a permutation of all inputs. -/
theorem C12_total_disk (I : Interp) (p : Params) (rows : Nat → List Row)
    (hp : p.parts = List.range p.nout) (hrows : ∀ i, ∀ r ∈ rows i, r.tgt < p.nout)
    (fuel : Nat) (hfuel : 3 ≤ fuel) :
    ∃ l, concatV ((List.range p.nout).map (fun j => run I (diskTask p) (inputs rows) fuel (.out .self j))) =
      .frame l ∧ l.Perm ((List.range p.nin).flatMap rows) := by
  apply outputs_total p rows hrows
  intro j hj
  obtain ⟨h, e⟩ := parts_range p hp j hj
  exact ⟨_, C12_disk I p rows j h fuel hfuel, by rw [e]⟩

example : ∃ l, concatV ((List.range 7).map (fun j => run I0 (diskTask pNeAll) (inputs (rowsMod 7)) 3
    (.out .self j))) = .frame l ∧ l.Perm ((List.range 3).flatMap (rowsMod 7)) :=
  C12_total_disk I0 pNeAll (rowsMod 7) rfl (rowsMod_lt 7 (by decide)) 3 (by decide)

/-! ### 6. co-location and consistency across frames -/

/-- membership in a semantic output partition -/
theorem C12_mem_sem (p : Params) (rows : Nat → List Row) (o : Nat) (r : Row) :
    r ∈ sem p rows o ↔ (∃ i, i < p.nin ∧ r ∈ rows i) ∧ r.tgt = o := by
  simp only [sem, List.mem_flatMap, List.mem_range, List.mem_filter, beq_iff_eq]
  constructor
  · rintro ⟨i, hi, hr, ht⟩; exact ⟨⟨i, hi, hr⟩, ht⟩
  · rintro ⟨⟨i, hi, hr⟩, ht⟩; exact ⟨i, hi, hr, ht⟩

example : (⟨11, 3, 1⟩ : Row) ∈ sem pEq (rowsMod 5) 3 :=
  (C12_mem_sem pEq (rowsMod 5) 3 ⟨11, 3, 1⟩).mpr ⟨⟨1, by decide, by decide⟩, rfl⟩

/-- Rows with equal `_partitions` value lie in the same output partition. -/
theorem C12_colocate (p : Params) (rows : Nat → List Row) (o₁ o₂ : Nat) (r₁ r₂ : Row)
    (h₁ : r₁ ∈ sem p rows o₁) (h₂ : r₂ ∈ sem p rows o₂) (heq : r₁.tgt = r₂.tgt) : o₁ = o₂ := by
  rw [← ((C12_mem_sem p rows o₁ r₁).mp h₁).2, ← ((C12_mem_sem p rows o₂ r₂).mp h₂).2, heq]

example : ∀ o, (⟨3, 3, 0⟩ : Row) ∈ sem pEq (rowsMod 5) 3 → (⟨11, 3, 1⟩ : Row) ∈ sem pEq (rowsMod 5) o → 3 = o :=
  fun o h₁ h₂ => C12_colocate pEq (rowsMod 5) 3 o _ _ h₁ h₂ rfl

/-- Rows with equal key lie in the same output partition, when `_partitions = h(key) % nout` for one
    function `h` of the key value (what `AssignPartitioningIndex` computes; T4-validated). -/
theorem C12_colocate_key {κ : Type} (p : Params) (rows : Nat → List Row) (key : Row → κ) (h : κ → Nat)
    (hassign : ∀ i, ∀ r ∈ rows i, r.tgt = h (key r) % p.nout)
    (o₁ o₂ : Nat) (r₁ r₂ : Row) (h₁ : r₁ ∈ sem p rows o₁) (h₂ : r₂ ∈ sem p rows o₂)
    (heq : key r₁ = key r₂) : o₁ = o₂ := by
  obtain ⟨⟨i₁, _, m₁⟩, _⟩ := (C12_mem_sem p rows o₁ r₁).mp h₁
  obtain ⟨⟨i₂, _, m₂⟩, _⟩ := (C12_mem_sem p rows o₂ r₂).mp h₂
  apply C12_colocate p rows o₁ o₂ r₁ r₂ h₁ h₂
  rw [hassign i₁ r₁ m₁, hassign i₂ r₂ m₂, heq]

example : ∀ o₁ o₂ r₁ r₂, r₁ ∈ sem pNe (fun i => [⟨i, (3 * i) % 7, i⟩]) o₁ →
    r₂ ∈ sem pNe (fun i => [⟨i, (3 * i) % 7, i⟩]) o₂ → r₁.pay = r₂.pay → o₁ = o₂ :=
  fun o₁ o₂ r₁ r₂ => C12_colocate_key pNe (fun i => [⟨i, (3 * i) % 7, i⟩]) (fun r => r.pay) (fun k => 3 * k)
    (by intro i r hr; simp only [List.mem_singleton] at hr; subst hr; rfl) o₁ o₂ r₁ r₂

/-- Two frames (any partition counts, any shuffle implementation satisfying `sem`) shuffled to the same
    `nout` with the partition number `h(key) % nout` for one function `h` of the (cast) key value put
    equal keys into equal partition numbers — the fact partition-wise joins rely on. -/
theorem C12_cross_frame {κ : Type} (p₁ p₂ : Params) (rows₁ rows₂ : Nat → List Row)
    (key₁ key₂ : Row → κ) (h : κ → Nat) (hn : p₁.nout = p₂.nout)
    (ha₁ : ∀ i, ∀ r ∈ rows₁ i, r.tgt = h (key₁ r) % p₁.nout)
    (ha₂ : ∀ i, ∀ r ∈ rows₂ i, r.tgt = h (key₂ r) % p₂.nout)
    (o₁ o₂ : Nat) (r₁ r₂ : Row) (h₁ : r₁ ∈ sem p₁ rows₁ o₁) (h₂ : r₂ ∈ sem p₂ rows₂ o₂)
    (heq : key₁ r₁ = key₂ r₂) : o₁ = o₂ := by
  obtain ⟨⟨i₁, _, m₁⟩, t₁⟩ := (C12_mem_sem p₁ rows₁ o₁ r₁).mp h₁
  obtain ⟨⟨i₂, _, m₂⟩, t₂⟩ := (C12_mem_sem p₂ rows₂ o₂ r₂).mp h₂
  rw [← t₁, ← t₂, ha₁ i₁ r₁ m₁, ha₂ i₂ r₂ m₂, heq, hn]

example : ∀ o₁ o₂ r₁ r₂, r₁ ∈ sem pNe (fun i => [⟨i, (3 * i) % 7, i⟩]) o₁ →
    r₂ ∈ sem pNeAll (fun i => [⟨0, (3 * (i + 1)) % 7, 5 * i⟩]) o₂ → r₁.pay = r₂.pay / 5 + 1 → o₁ = o₂ :=
  fun o₁ o₂ r₁ r₂ => C12_cross_frame pNe pNeAll (fun i => [⟨i, (3 * i) % 7, i⟩])
    (fun i => [⟨0, (3 * (i + 1)) % 7, 5 * i⟩]) (fun r => r.pay) (fun r => r.pay / 5 + 1) (fun k => 3 * k) rfl
    (by intro i r hr; simp only [List.mem_singleton] at hr; subst hr; rfl)
    (by intro i r hr; simp only [List.mem_singleton] at hr; subst hr
        show 3 * (i + 1) % 7 = 3 * (5 * i / 5 + 1) % 7
        rw [Nat.mul_div_cancel_left i (by decide : 0 < 5)])
    o₁ o₂ r₁ r₂

end Dx
