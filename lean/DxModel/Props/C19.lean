/-
  Props/C19.lean — optimization terminates, is deterministic and idempotent.

  Models: DxModel/Termination.lean (`Expr.simplify`, `Expr.lower_once`, `Expr.lower_completely`),
  DxModel/Fusion.lean (`optimize_blockwise_fusion`), table: Generated/Lowers.lean (regenerated from the
  `_lower` bodies of the live classes on every run).

    C19_fusion_terminates   each successful fusion pass decreases the number of blockwise nodes  (= C14_terminates)
    C19_fusion_loop         … so the outer fusion loop stops
    C19_lowers_rank_ok      the generated "may construct" relation has a strictly decreasing rank   (kernel `decide`)
    C19_lowers_acyclic      hence no cycle
    C19_lower_terminates    hence `lower_completely` reaches a fixpoint of `lower_once` from every tree
    C19_lower_fixpoint      whatever `lower_completely` returns is a fixpoint of `lower_once`
    C19_simplify_fixpoint   on normal exit the result of `simplify` is a fixpoint of `simplify_once`
    C19_simplify_noconv     "Optimizer does not converge" is only raised when a pass revisits an expression
    C19_simplify_total      on a finite orbit the loop returns or raises within |orbit| + 1 passes
    C19_deterministic       the outcome does not depend on the step budget once it is reached

  Not proven (stated for the record): that the real `simplify_once` has no revisits on the program space,
  i.e. that "Optimizer does not converge" is never raised (C19_fragment_measure of DESIGN.md §6) — this is
  covered by the search only.
-/
import DxModel.Lemmas.FusionMeasure
import DxModel.Lemmas.Termination
import DxModel.Lemmas.TerminationLower
import DxModel.Generated.Lowers
namespace Dx
open Term

/-! ### 1. fusion -/

theorem C19_fusion_terminates (ord : Nat → List Nat → List Nat) (hord : Fusion.OrdOK ord) (dag : Fusion.Dag)
    (root : Nat) (hplan : Fusion.PlanOK dag root) (r : Fusion.PassResult) (G : List Nat)
    (h : Fusion.fusionPass ord dag root = some r) (hg : r.group = some G) :
    Fusion.measure r.dag r.root < Fusion.measure dag root ∧ Fusion.PlanOK r.dag r.root :=
  Fusion.pass_decreases ord hord dag root hplan r G h hg

theorem C19_fusion_loop (ord : Nat → List Nat → List Nat) (hord : Fusion.OrdOK ord) (fuel : Nat)
    (dag : Fusion.Dag) (root n : Nat) (hplan : Fusion.PlanOK dag root)
    (hfuel : Fusion.measure dag root < fuel) (hnone : Fusion.fuseLoop ord fuel dag root n = none) :
    ∃ dag' root', Fusion.fusionPass ord dag' root' = none :=
  Fusion.fuseLoop_terminates ord hord fuel dag root n hplan hfuel hnone

/-! ### 2. lowering -/

/-- Table obligation (re-decided by the kernel whenever the `_lower` bodies change): along every
    "may construct" edge out of a class with a non-trivial `_lower` the generator's rank strictly
    decreases. -/
theorem C19_lowers_rank_ok : rankOK Generated.lowersTable Generated.lowersRank = true := by decide +kernel

theorem C19_lowers_acyclic : ∀ c, ¬ Path (MayConstruct Generated.lowersTable) c c :=
  acyclic_of_rank _ (rankOf Generated.lowersRank)
    (rankOK_sound Generated.lowersTable Generated.lowersRank C19_lowers_rank_ok)

/-- `lower_completely` terminates: for every family of `_lower` methods that only builds nodes of
    classes listed in the generated table (plus copies of subterms of the operands, any number of
    times, under any guards), from every expression tree `lower_completely` returns — for all
    sufficiently large fuels — a tree that `lower_once` leaves unchanged, after a number of
    `lower_once` calls that does not depend on the fuels. -/
theorem C19_lower_terminates (low : T → Option T) (hresp : Respects (MayConstruct Generated.lowersTable) low)
    (t : T) : Converges low t :=
  lower_terminates hresp
    (rankOK_sound Generated.lowersTable Generated.lowersRank C19_lowers_rank_ok) t

/-- the same for any table with a rank function accepted by the checker -/
theorem C19_lower_terminates_table (table : List (Nat × List Nat)) (ranks : List Nat)
    (hok : rankOK table ranks = true) (low : T → Option T) (hresp : Respects (MayConstruct table) low)
    (t : T) : Converges low t :=
  lower_terminates hresp (rankOK_sound table ranks hok) t

theorem C19_lower_fixpoint (low : T → Option T) (F P : Nat) (t r : T) (n m : Nat)
    (h : lowerCompletely low F P t n = some (r, m)) : lowerOnce low F r = some r :=
  lowerCompletely_fixpoint F P t r n m h

namespace C19Ex
/-- classes 2 → 1 → 0: `2(x, y)` lowers to `1(1(y), x)`, `1(x)` lowers to `0(x, x)` (a copy) -/
def rules : List (Nat × Pat) := [(2, .new 1 [.new 1 [.kid 1], .kid 0]), (1, .new 0 [.kid 0, .kid 0])]
def table : List (Nat × List Nat) := [(2, [1]), (1, [0])]
def leaf : T := .node 0 []
def t0 : T := .node 2 [.node 1 [leaf], leaf]
end C19Ex
open C19Ex

example : rankOK C19Ex.table [1, 2] = true := by decide
example : (lowerCompletely (lowOfRules rules) 8 8 t0 0).map (·.2) = some 3 := by decide

/-! ### 3. simplify -/

/-- When the loop exits normally the result is a fixpoint of the pass (the stage is idempotent) and
    is an iterate of the pass on the input. -/
theorem C19_simplify_fixpoint (step : Nat → Nat) (fuel e r : Nat) (h : simplify step fuel e = some (.ok r)) :
    step r = r ∧ ∃ n, r = iter step n e :=
  (simplifyLoop_spec step e fuel 0 e [] _ (SInv.init step e) h).1 r rfl

/-- The loop reports non-convergence only if the pass revisits an expression it produced before:
    `new = step e'` and two different iterates (`1 ≤ i < j`) of the input coincide. -/
theorem C19_simplify_noconv (step : Nat → Nat) (fuel e a b : Nat)
    (h : simplify step fuel e = some (.noconv a b)) :
    b = step a ∧ ∃ i j, 1 ≤ i ∧ i < j ∧ iter step i e = iter step j e :=
  (simplifyLoop_spec step e fuel 0 e [] _ (SInv.init step e) h).2 a b rfl

/-- If all iterates of the input lie in a finite set, the loop returns or raises within
    `|set| + 1` passes (the `seen` set cannot grow beyond the orbit). -/
theorem C19_simplify_total (step : Nat → Nat) (e : Nat) (univ : List Nat) (horbit : ∀ j, iter step j e ∈ univ)
    (fuel : Nat) (hf : univ.length + 1 ≤ fuel) : (simplify step fuel e).isSome = true :=
  simplifyLoop_total step e univ horbit fuel 0 e [] (SInv.init step e) (by omega)

/-- The outcome is a function of the pass alone: a larger step budget returns the same outcome. -/
theorem C19_deterministic (step : Nat → Nat) : ∀ (fuel : Nat) (e : Nat) (seen : List Nat) (out : SimpOut),
    simplifyLoop step fuel e seen = some out → ∀ fuel', fuel ≤ fuel' → simplifyLoop step fuel' e seen = some out := by
  intro fuel
  induction fuel with
  | zero => intro e seen out h; simp [simplifyLoop] at h
  | succ fuel ih =>
    intro e seen out h fuel' hle
    obtain ⟨f, rfl⟩ : ∃ f, fuel' = f + 1 := ⟨fuel' - 1, by omega⟩
    simp only [simplifyLoop] at h ⊢
    by_cases h1 : step e = e
    · simpa [h1] using h
    · by_cases h2 : step e ∈ seen
      · simpa [h1, h2] using h
      · simp only [h1, h2, if_false] at h ⊢
        exact ih _ _ out h f (by omega)

/-- 0 → 1 → 2 → 2 converges to 2; 3 → 4 → 3 is reported as non-convergent -/
def C19Ex.step : Nat → Nat := fun x => if x = 0 then 1 else if x = 1 then 2 else if x = 3 then 4 else if x = 4 then 3 else x

example : simplify C19Ex.step 10 0 = some (.ok 2) := by decide
example : simplify C19Ex.step 10 3 = some (.noconv 3 4) := by decide
example : ∃ i j, 1 ≤ i ∧ i < j ∧ iter C19Ex.step i 3 = iter C19Ex.step j 3 :=
  (C19_simplify_noconv C19Ex.step 10 3 3 4 (by decide)).2

end Dx
