/-
  Props/C19.lean — optimization terminates, is deterministic and idempotent.

  Models: DxModel/Termination.lean (`Expr.simplify`, `Expr.lower_once`, `Expr.lower_completely`),
  DxModel/Fusion.lean (`optimize_blockwise_fusion`), table: Generated/Lowers.lean (regenerated from the
  `_lower` bodies of the live classes on every run).

    C19_fusion_terminates   each successful fusion pass decreases the number of blockwise nodes  (= C14_terminates)
    C19_fusion_loop         … so the outer fusion loop stops
    C19_lowers_rank_ok      the generated "may construct" relation has a strictly decreasing rank   (kernel `decide`)
    C19_lowers_acyclic      hence no cycle
    C19_lower_terminates    hence `lower_completely` reaches a fixpoint of `lower_once` from every tree
    C19_lower_fixpoint      whatever `lower_completely` returns is a fixpoint of `lower_once`
    C19_simplify_fixpoint   on normal exit the result of `simplify` is a fixpoint of `simplify_once`
    C19_simplify_noconv     "Optimizer does not converge" is only raised when a pass revisits an expression
    C19_simplify_total      on a finite orbit the loop returns or raises within |orbit| + 1 passes
    C19_deterministic       the outcome does not depend on the step budget once it is reached

  The SIMPLIFY stage as a rewrite system (DxModel/SimplifyMeasure.lean: trees of node kind + number of columns,
  relation `Step` = one firing of a modelled rule shape anywhere in the tree, measure `msr`):

    C19_simplify_step_decreases        every `Step` strictly decreases `msr` (lexicographic quadruple)
    C19_simplify_fragment_terminates   `WellFounded (flip Step)`: no infinite sequence of firings
    C19_simplify_fragment_acyclic      … in particular no tree is ever reached again (never loops)
    C19_simplify_recogniser_sound      what the driver's recogniser `stepB` accepts is a `Step` with a smaller measure
    C19_simplify_converges             if every pass that changes the expression decreases `msr`, the `simplify` loop
                                       returns a fixpoint of the pass for every sufficiently large budget
    C19_simplify_never_noconv          … and never reports "Optimizer does not converge"
    C19_simplify_idempotent            … and simplifying its result again returns the result
    C19_simplify_fragment_converges    the same when every changing pass is a non-empty sequence of `Step`s
    C19_driver_simplify_converges      the same for the driver model of C01 (Drivers.lean `simplify` over `Expr`)

  Not proven: an explicit numeric bound on the number of firings (the order type of the measure is ω⁴: a filter that
  crosses an operator may copy its predicate into two join inputs, so lower components can grow when a higher one
  drops).  Rule shapes outside the fragment are listed in harness/props/c19.py::PARTIAL with observed counts.
-/
import DxModel.Lemmas.FusionMeasure
import DxModel.Lemmas.Termination
import DxModel.Lemmas.TerminationLower
import DxModel.Generated.Lowers
import DxModel.Lemmas.SimplifyMeasure
namespace Dx
open Term

/-! ### 1. fusion -/

theorem C19_fusion_terminates (ord : Nat → List Nat → List Nat) (hord : Fusion.OrdOK ord) (dag : Fusion.Dag)
    (root : Nat) (hplan : Fusion.PlanOK dag root) (r : Fusion.PassResult) (G : List Nat)
    (h : Fusion.fusionPass ord dag root = some r) (hg : r.group = some G) :
    Fusion.measure r.dag r.root < Fusion.measure dag root ∧ Fusion.PlanOK r.dag r.root :=
  Fusion.pass_decreases ord hord dag root hplan r G h hg

theorem C19_fusion_loop (ord : Nat → List Nat → List Nat) (hord : Fusion.OrdOK ord) (fuel : Nat)
    (dag : Fusion.Dag) (root n : Nat) (hplan : Fusion.PlanOK dag root)
    (hfuel : Fusion.measure dag root < fuel) (hnone : Fusion.fuseLoop ord fuel dag root n = none) :
    ∃ dag' root', Fusion.fusionPass ord dag' root' = none :=
  Fusion.fuseLoop_terminates ord hord fuel dag root n hplan hfuel hnone

/-! ### 2. lowering -/

/-- Table obligation (re-decided by the kernel whenever the `_lower` bodies change): along every
    "may construct" edge out of a class with a non-trivial `_lower` the generator's rank strictly
    decreases. -/
theorem C19_lowers_rank_ok : rankOK Generated.lowersTable Generated.lowersRank = true := by decide +kernel

theorem C19_lowers_acyclic : ∀ c, ¬ Path (MayConstruct Generated.lowersTable) c c :=
  acyclic_of_rank _ (rankOf Generated.lowersRank)
    (rankOK_sound Generated.lowersTable Generated.lowersRank C19_lowers_rank_ok)

/-- `lower_completely` terminates: for every family of `_lower` methods that only builds nodes of
    classes listed in the generated table (plus copies of subterms of the operands, any number of
    times, under any guards), from every expression tree `lower_completely` returns — for all
    sufficiently large fuels — a tree that `lower_once` leaves unchanged, after a number of
    `lower_once` calls that does not depend on the fuels. -/
theorem C19_lower_terminates (low : T → Option T) (hresp : Respects (MayConstruct Generated.lowersTable) low)
    (t : T) : Converges low t :=
  lower_terminates hresp
    (rankOK_sound Generated.lowersTable Generated.lowersRank C19_lowers_rank_ok) t

/-- the same for any table with a rank function accepted by the checker -/
theorem C19_lower_terminates_table (table : List (Nat × List Nat)) (ranks : List Nat)
    (hok : rankOK table ranks = true) (low : T → Option T) (hresp : Respects (MayConstruct table) low)
    (t : T) : Converges low t :=
  lower_terminates hresp (rankOK_sound table ranks hok) t

theorem C19_lower_fixpoint (low : T → Option T) (F P : Nat) (t r : T) (n m : Nat)
    (h : Term.lowerCompletely low F P t n = some (r, m)) : Term.lowerOnce low F r = some r :=
  lowerCompletely_fixpoint F P t r n m h

namespace C19Ex
/-- classes 2 → 1 → 0: `2(x, y)` lowers to `1(1(y), x)`, `1(x)` lowers to `0(x, x)` (a copy) -/
def rules : List (Nat × Term.Pat) := [(2, .new 1 [.new 1 [.kid 1], .kid 0]), (1, .new 0 [.kid 0, .kid 0])]
def table : List (Nat × List Nat) := [(2, [1]), (1, [0])]
def leaf : T := .node 0 []
def t0 : T := .node 2 [.node 1 [leaf], leaf]
end C19Ex
open C19Ex

example : rankOK C19Ex.table [1, 2] = true := by decide
example : (Term.lowerCompletely (lowOfRules rules) 8 8 t0 0).map (·.2) = some 3 := by decide

/-! ### 3. simplify -/

/-- When the loop exits normally the result is a fixpoint of the pass (the stage is idempotent) and
    is an iterate of the pass on the input. -/
theorem C19_simplify_fixpoint (step : Nat → Nat) (fuel e r : Nat) (h : Term.simplify step fuel e = some (.ok r)) :
    step r = r ∧ ∃ n, r = iter step n e :=
  (simplifyLoop_spec step e fuel 0 e [] _ (SInv.init step e) h).1 r rfl

/-- The loop reports non-convergence only if the pass revisits an expression it produced before:
    `new = step e'` and two different iterates (`1 ≤ i < j`) of the input coincide. -/
theorem C19_simplify_noconv (step : Nat → Nat) (fuel e a b : Nat)
    (h : Term.simplify step fuel e = some (.noconv a b)) :
    b = step a ∧ ∃ i j, 1 ≤ i ∧ i < j ∧ iter step i e = iter step j e :=
  (simplifyLoop_spec step e fuel 0 e [] _ (SInv.init step e) h).2 a b rfl

/-- If all iterates of the input lie in a finite set, the loop returns or raises within
    `|set| + 1` passes (the `seen` set cannot grow beyond the orbit). -/
theorem C19_simplify_total (step : Nat → Nat) (e : Nat) (univ : List Nat) (horbit : ∀ j, iter step j e ∈ univ)
    (fuel : Nat) (hf : univ.length + 1 ≤ fuel) : (Term.simplify step fuel e).isSome = true :=
  simplifyLoop_total step e univ horbit fuel 0 e [] (SInv.init step e) (by omega)

/-- The outcome is a function of the pass alone: a larger step budget returns the same outcome. -/
theorem C19_deterministic (step : Nat → Nat) : ∀ (fuel : Nat) (e : Nat) (seen : List Nat) (out : SimpOut),
    Term.simplifyLoop step fuel e seen = some out → ∀ fuel', fuel ≤ fuel' → Term.simplifyLoop step fuel' e seen = some out := by
  intro fuel
  induction fuel with
  | zero => intro e seen out h; simp [Term.simplifyLoop] at h
  | succ fuel ih =>
    intro e seen out h fuel' hle
    obtain ⟨f, rfl⟩ : ∃ f, fuel' = f + 1 := ⟨fuel' - 1, by omega⟩
    simp only [Term.simplifyLoop] at h ⊢
    by_cases h1 : step e = e
    · simpa [h1] using h
    · by_cases h2 : step e ∈ seen
      · simpa [h1, h2] using h
      · simp only [h1, h2, if_false] at h ⊢
        exact ih _ _ out h f (by omega)

/-- 0 → 1 → 2 → 2 converges to 2; 3 → 4 → 3 is reported as non-convergent -/
def C19Ex.step : Nat → Nat := fun x => if x = 0 then 1 else if x = 1 then 2 else if x = 3 then 4 else if x = 4 then 3 else x

example : Term.simplify C19Ex.step 10 0 = some (.ok 2) := by decide
example : Term.simplify C19Ex.step 10 3 = some (.noconv 3 4) := by decide
example : ∃ i j, 1 ≤ i ∧ i < j ∧ iter C19Ex.step i 3 = iter C19Ex.step j 3 :=
  (C19_simplify_noconv C19Ex.step 10 3 3 4 (by decide)).2

/-! ### 4. the simplify stage as a terminating rewrite system -/

namespace C19Frag
open SM SM.Tr
end C19Frag

/-- Every firing of a modelled rule shape, anywhere in the expression, strictly decreases the measure
    `(potF, flow, potP, potB)` in the lexicographic order; the rewritten expression has no more columns
    and no more operator nodes than before. -/
theorem C19_simplify_step_decreases {t t' : SM.Tr} (h : SM.Step t t') :
    SM.LtQ (SM.msr t') (SM.msr t) ∧ t'.w ≤ t.w ∧ SM.fs t' ≤ SM.fs t :=
  ⟨SM.step_ltQ h, (SM.step_good h).w_le, (SM.step_good h).fs_le⟩

/-- The fragment is strongly normalising: there is no infinite sequence of rule firings. -/
theorem C19_simplify_fragment_terminates : WellFounded (flip SM.Step) := SM.step_wf

/-- … and no expression is ever reached again from itself. -/
theorem C19_simplify_fragment_acyclic (t : SM.Tr) : ¬ Relation.TransGen SM.Step t t :=
  fun h => SM.ltQ_irrefl _ (SM.transGen_ltQ h)

/-- What the driver answers for a traced firing (`stepB` = "is an instance of a rule shape", `ltQ` = "the measure
    decreases") is backed by the relation the theorems are about. -/
theorem C19_simplify_recogniser_sound (t t' : SM.Tr) (h : SM.stepB t t' = true) :
    SM.Step t t' ∧ SM.ltQ (SM.msr t') (SM.msr t) = true :=
  ⟨SM.stepB_sound t t' h, (SM.ltQ_eq_true _ _).mpr (SM.step_ltQ (SM.stepB_sound t t' h))⟩

/-- The `simplify` loop (Termination.lean; expressions named by numbers, `tree` = the expression behind a name):
    if every pass that changes the expression decreases the measure, then from every expression the loop returns —
    for every budget from some `n` on — one and the same fixpoint of the pass, an iterate of the pass on the input. -/
theorem C19_simplify_converges (step : Nat → Nat) (tree : Nat → SM.Tr)
    (hpass : ∀ e, step e ≠ e → SM.LtQ (SM.msr (tree (step e))) (SM.msr (tree e))) (e : Nat) :
    ∃ n r, step r = r ∧ (∃ k, r = iter step k e) ∧ ∀ fuel, n ≤ fuel → Term.simplify step fuel e = some (.ok r) :=
  SM.simplifyLoop_converges step tree hpass e [] (fun _ hx => nomatch hx)

/-- … it never reports "Optimizer does not converge" -/
theorem C19_simplify_never_noconv (step : Nat → Nat) (tree : Nat → SM.Tr)
    (hpass : ∀ e, step e ≠ e → SM.LtQ (SM.msr (tree (step e))) (SM.msr (tree e))) (e fuel a b : Nat) :
    Term.simplify step fuel e ≠ some (.noconv a b) := by
  intro h
  obtain ⟨n, r, _, _, hn⟩ := C19_simplify_converges step tree hpass e
  have h1 := C19_deterministic step fuel e [] _ h (max fuel n) (Nat.le_max_left _ _)
  have h2 := hn (max fuel n) (Nat.le_max_right _ _)
  simp only [Term.simplify] at h2
  rw [h1] at h2
  cases h2

/-- … and the stage is idempotent: simplifying the result again returns it unchanged. -/
theorem C19_simplify_idempotent (step : Nat → Nat) (tree : Nat → SM.Tr)
    (hpass : ∀ e, step e ≠ e → SM.LtQ (SM.msr (tree (step e))) (SM.msr (tree e))) (e : Nat) :
    ∃ n r, (∀ fuel, n ≤ fuel → Term.simplify step fuel e = some (.ok r)) ∧
      ∀ fuel, 1 ≤ fuel → Term.simplify step fuel r = some (.ok r) := by
  obtain ⟨n, r, hr, _, hn⟩ := C19_simplify_converges step tree hpass e
  refine ⟨n, r, hn, ?_⟩
  intro fuel hf
  obtain ⟨f, rfl⟩ : ∃ f, fuel = f + 1 := ⟨fuel - 1, by omega⟩
  simp [Term.simplify, Term.simplifyLoop, hr]

/-- The hypothesis holds when every changing pass consists of firings of the modelled rule shapes. -/
theorem C19_simplify_fragment_converges (step : Nat → Nat) (tree : Nat → SM.Tr)
    (hfrag : ∀ e, step e ≠ e → Relation.TransGen SM.Step (tree e) (tree (step e))) (e : Nat) :
    (∃ n r, step r = r ∧ (∃ k, r = iter step k e) ∧ ∀ fuel, n ≤ fuel → Term.simplify step fuel e = some (.ok r)) ∧
    ∀ fuel a b, Term.simplify step fuel e ≠ some (.noconv a b) :=
  ⟨C19_simplify_converges step tree (fun e h => SM.transGen_ltQ (hfrag e h)) e,
   fun fuel a b => C19_simplify_never_noconv step tree (fun e h => SM.transGen_ltQ (hfrag e h)) e fuel a b⟩

/-- The same for the driver model used by C01 (Drivers.lean: `simplify_once` with its dependents map, cache and
    trace; `simplify` with the `seen` list): on a set `S` of expressions that a pass does not leave and on which the
    per-pass fuel `m` suffices, if every changing pass decreases the measure of the abstracted expression, `simplify`
    ends with status `ok` — neither `nonconverge` nor `fuel` — for every sufficiently large loop budget. -/
theorem C19_driver_simplify_converges (R : Rules) (m : Nat) (abs : Expr → SM.Tr) (S : Expr → Prop)
    (hpass : ∀ e tr, S e → (simplifyOnce R m e ⟨collectDependents e, [], tr, false⟩).2.exhausted = false ∧
      S (simplifyOnce R m e ⟨collectDependents e, [], tr, false⟩).1 ∧
      ((simplifyOnce R m e ⟨collectDependents e, [], tr, false⟩).1 ≠ e →
        SM.LtQ (SM.msr (abs (simplifyOnce R m e ⟨collectDependents e, [], tr, false⟩).1)) (SM.msr (abs e))))
    (e : Expr) (he : S e) (tr : List Firing) :
    ∃ n, ∀ fuel, n ≤ fuel → (Dx.simplifyLoop R m fuel e [] tr).1.st = .ok :=
  SM.driver_simplifyLoop_converges R m abs S hpass e [] tr he (fun _ hx => nomatch hx)

/-! #### non-vacuity -/
namespace C19Frag
open SM SM.Tr

def io3 : Tr := .op 3 []

/-- `merge(l, r)[["a", "k"]]`: the projection is copied into both join inputs and stays on top (`keep = true`) -/
def mergeBefore : Tr := .proj 2 (.op 5 [io3, io3])
def mergeAfter : Tr := .proj 2 (.op 3 [.proj 2 io3, .proj 2 io3])
example : Step mergeBefore mergeAfter := stepB_sound _ _ (by decide)
example : msr mergeBefore = (0, 19, 3, 0) ∧ msr mergeAfter = (0, 15, 7, 0) := by decide

/-- a filter `x[x.a > 0]` on `x = astype(assign(io))` crosses both operators, its predicate follows it -/
def pred (x : Tr) : Tr := .op 1 [.proj 1 x]
def f0 : Tr := .filt 3 (.op 3 [.op 4 [io3]]) (pred (.op 3 [.op 4 [io3]]))
def f1 : Tr := .op 3 [.filt 4 (.op 4 [io3]) (pred (.op 4 [io3]))]
def f2 : Tr := .op 3 [.op 4 [.filt 3 io3 (pred io3)]]
example : Relation.TransGen Step f0 f2 :=
  .tail (.single (stepB_sound f0 f1 (by decide))) (stepB_sound f1 f2 (by decide))
example : msr f0 = (3, 47, 3, 0) ∧ msr f1 = (2, 40, 2, 0) ∧ msr f2 = (1, 31, 1, 0) := by decide

/-- squashing: `x[p][q]` → `x[p & q']`, `x[cols][col]` → `x[col]`, `assign(assign(x, a), b)` → `assign(x, a, b)` -/
def sq0 : Tr := .filt 3 (.filt 3 io3 (pred io3)) (pred (.filt 3 io3 (pred io3)))
def sq1 : Tr := .filt 3 io3 (.op 1 [pred io3, pred io3])
example : Step sq0 sq1 := stepB_sound _ _ (by decide)
example : msr sq0 = (3, 39, 7, 0) ∧ msr sq1 = (1, 26, 2, 0) := by decide
example : Step (.proj 1 (.proj 2 io3)) (.proj 1 io3) := Step.projSquash
example : Step (.op 5 [.op 4 [io3, pred io3], pred io3]) (.op 5 [io3, pred io3, pred io3]) := stepB_sound _ _ (by decide)

/-- a projection absorbed by an IO node, `Partitions` absorbed by `_partitions`, `Len` through an elemwise operator,
    `head` pushed into both operands of a binary operator -/
example : Step (.proj 2 io3) (.op 2 []) := stepB_sound _ _ (by decide)
example : Step (.blind 3 io3) io3 := stepB_sound _ _ (by decide)
example : Step (.blind 0 (.op 3 [io3])) (.blind 0 io3) := stepB_sound _ _ (by decide)
example : Step (.blind 3 (.op 3 [io3, io3])) (.op 3 [.blind 3 io3, .blind 3 io3]) := stepB_sound _ _ (by decide)

/-- the two shapes that are NOT in the fragment form a cycle in the model (no measure can decrease along both):
    the Filter/Filter squash is in, its inverse — `Merge._simplify_up(Filter)` splitting an And predicate — is out -/
example : ¬ Step sq1 sq0 := fun h => ltQ_irrefl _ (ltQ_trans (step_ltQ h) (step_ltQ (stepB_sound sq0 sq1 (by decide))))

/-- the loop theorem on a three-pass run f0 → f1 → f2 → f2 -/
def names : Nat → Tr := fun i => if i = 0 then f0 else if i = 1 then f1 else f2
def pass : Nat → Nat := fun i => if i = 0 then 1 else if i = 1 then 2 else i
example : Term.simplify pass 5 0 = some (.ok 2) := by decide
example : ∀ e, pass e ≠ e → LtQ (msr (names (pass e))) (msr (names e)) := by
  intro e h
  by_cases h0 : e = 0
  · subst h0; exact (ltQ_eq_true _ _).mp (by decide)
  · by_cases h1 : e = 1
    · subst h1; exact (ltQ_eq_true _ _).mp (by decide)
    · exact absurd (by simp [pass, h0, h1]) h


/-- the driver-model theorem on a stub rule system: class 1 rewrites itself to class 0 (`_simplify_down`), abstracted
    as an IO node that reads fewer columns -/
def stubRules : Rules := (Table.toRules { down := [⟨.node 1 none [], .node 0 none []⟩] })
def ea : Expr := .node 1 0 []
def eb : Expr := .node 0 0 []
def stubAbs : Expr → Tr := fun e => if e.cls = 1 then .op 3 [] else .op 2 []
example : ∀ tr, ∃ n, ∀ fuel, n ≤ fuel → (Dx.simplifyLoop stubRules 2 fuel ea [] tr).1.st = .ok := by
  intro tr
  refine C19_driver_simplify_converges stubRules 2 stubAbs (fun e => e = ea ∨ e = eb) ?_ ea (Or.inl rfl) tr
  intro e tr' he
  rcases he with rfl | rfl
  · have h : (simplifyOnce stubRules 2 ea ⟨collectDependents ea, [], tr', false⟩).1 = eb := rfl
    refine ⟨rfl, Or.inr rfl, fun _ => ?_⟩
    rw [h]
    exact (ltQ_eq_true _ _).mp (by decide)
  · refine ⟨rfl, Or.inr rfl, fun h => absurd rfl h⟩

end C19Frag

end Dx
