/-
  Props/C17.lean — materialization boundaries are transparent.
-/
import DxModel.Cut
namespace Dx

/-- Re-importing an opaque graph under new output keys (`FromGraph`): partition `i` of the imported
    collection is the value of `keys[i]` in the original graph — for every graph, key list and `i`. -/
theorem C17_alias {κ} (I : Interp) (L : Graph κ) (keys : List κ) (inp : κ → Option V)
    (n i : Nat) (k : κ) (hk : keys[i]? = some k) :
    run I (fromGraphLayer L keys) (liftInp inp) (n+1) (.inr i) = run I L inp n k :=
  fromGraph_alias I L keys inp n i k hk

/-- the imported layer evaluates every original key as the original graph does -/
theorem C17_import_preserves {κ} (I : Interp) (L : Graph κ) (keys : List κ) (inp : κ → Option V)
    (n : Nat) (k : κ) :
    run I (fromGraphLayer L keys) (liftInp inp) n (.inl k) = run I L inp n k :=
  fromGraph_inl I L keys inp n k

/-- **Cut theorem**: cutting a closed-below graph anywhere, materialising the lower part and evaluating
    the upper part on top of the materialised values gives, for every key of the upper part, the value
    it has in the uncut graph (graphs of any size; any cut satisfying `CutOK`). -/
theorem C17_cut {κ} (I : Interp) (g₁ g₂ : Graph κ) (inp : κ → Option V) (rank : κ → Nat)
    (hr : Ranked (gunion g₁ g₂) rank) (h : CutOK g₁ g₂) (n : Nat) (k : κ)
    (hk : (g₂ k).isSome) (hn : rank k < n) :
    run I (gunion g₁ g₂) inp n k = run I g₂ (cutInp I g₁ inp rank) n k :=
  run_cut I g₁ g₂ inp rank hr h n k hk hn

/-- the value of a task is a function of the values of the keys it reads (what makes "equal inputs
    ⇒ equal outputs" hold for every operator evaluated above a cut) -/
theorem C17_task_congr {κ} (I : Interp) (ev₁ ev₂ : κ → V) (t : Tsk κ)
    (h : ∀ d ∈ t.refs, ev₁ d = ev₂ d) : evalTsk I ev₁ t = evalTsk I ev₂ t :=
  evalTsk_congr I ev₁ ev₂ t h

/-! non-vacuity -/
namespace C17Example
def L : Graph Nat
  | 0 => some (.const [⟨1, 0, 5⟩])
  | 1 => some (.const [⟨2, 0, 6⟩])
  | 2 => some (.concat [0, 1] false)
  | _ => none
example : run (fun _ _ => .err) (fromGraphLayer L [2, 0]) (liftInp (fun _ => none)) 3 (.inr 0)
        = .frame [⟨1, 0, 5⟩, ⟨2, 0, 6⟩] := by decide
def lower : Graph Nat | 0 => some (.const [⟨1, 0, 5⟩]) | _ => none
def upper : Graph Nat | 1 => some (.alias 0) | _ => none
example : CutOK lower upper := by
  refine ⟨?_, ?_⟩
  · intro k hk; cases k with
    | zero => rfl
    | succ k => simp [lower] at hk
  · intro k t hk d hd; cases k with
    | zero => simp [lower] at hk; subst hk; simp [Tsk.refs] at hd
    | succ k => simp [lower] at hk
end C17Example

end Dx
