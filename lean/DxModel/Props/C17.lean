/-
  Props/C17.lean — materialization boundaries are transparent.
-/
import DxModel.Cut
import DxModel.Lemmas.Boundary
namespace Dx
open Boundary

/-- Re-importing an opaque graph under new output keys (`FromGraph`): partition `i` of the imported
    collection is the value of `keys[i]` in the original graph — for every graph, key list and `i`. -/
theorem C17_alias {κ} (I : Interp) (L : Graph κ) (keys : List κ) (inp : κ → Option V)
    (n i : Nat) (k : κ) (hk : keys[i]? = some k) :
    run I (fromGraphLayer L keys) (liftInp inp) (n+1) (.inr i) = run I L inp n k :=
  fromGraph_alias I L keys inp n i k hk

/-- the imported layer evaluates every original key as the original graph does -/
theorem C17_import_preserves {κ} (I : Interp) (L : Graph κ) (keys : List κ) (inp : κ → Option V)
    (n : Nat) (k : κ) :
    run I (fromGraphLayer L keys) (liftInp inp) n (.inl k) = run I L inp n k :=
  fromGraph_inl I L keys inp n k

/-- **Cut theorem**: cutting a closed-below graph anywhere, materialising the lower part and evaluating
    the upper part on top of the materialised values gives, for every key of the upper part, the value
    it has in the uncut graph (graphs of any size; any cut satisfying `CutOK`). -/
theorem C17_cut {κ} (I : Interp) (g₁ g₂ : Graph κ) (inp : κ → Option V) (rank : κ → Nat)
    (hr : Ranked (gunion g₁ g₂) rank) (h : CutOK g₁ g₂) (n : Nat) (k : κ)
    (hk : (g₂ k).isSome) (hn : rank k < n) :
    run I (gunion g₁ g₂) inp n k = run I g₂ (cutInp I g₁ inp rank) n k :=
  run_cut I g₁ g₂ inp rank hr h n k hk hn

/-- the value of a task is a function of the values of the keys it reads (what makes "equal inputs
    ⇒ equal outputs" hold for every operator evaluated above a cut) -/
theorem C17_task_congr {κ} (I : Interp) (ev₁ ev₂ : κ → V) (t : Tsk κ)
    (h : ∀ d ∈ t.refs, ev₁ d = ev₂ d) : evalTsk I ev₁ t = evalTsk I ev₂ t :=
  evalTsk_congr I ev₁ ev₂ t h

/-! non-vacuity -/
namespace C17Example
def L : Graph Nat
  | 0 => some (.const [⟨1, 0, 5⟩])
  | 1 => some (.const [⟨2, 0, 6⟩])
  | 2 => some (.concat [0, 1] false)
  | _ => none
example : run (fun _ _ => .err) (fromGraphLayer L [2, 0]) (liftInp (fun _ => none)) 3 (.inr 0)
        = .frame [⟨1, 0, 5⟩, ⟨2, 0, 6⟩] := by decide
def lower : Graph Nat | 0 => some (.const [⟨1, 0, 5⟩]) | _ => none
def upper : Graph Nat | 1 => some (.alias 0) | _ => none
example : CutOK lower upper := by
  refine ⟨?_, ?_⟩
  · intro k hk; cases k with
    | zero => rfl
    | succ k => simp [lower] at hk
  · intro k t hk d hd; cases k with
    | zero => simp [lower] at hk; subst hk; simp [Tsk.refs] at hd
    | succ k => simp [lower] at hk
end C17Example

/-! ## The boundary constructs of /repo (Layers/Boundary.lean) -/

/-! ### (a) `from_delayed(to_delayed(x))` -/

/-- `optimize_graph=True` only culls: every kept key has the value it has in the whole graph
    (any kept set that contains the requested keys and is closed under references). -/
theorem C17_cull_preserves {κ} (I : Interp) (G : Graph κ) (keep : κ → Bool) (roots : List κ)
    (inp : κ → Option V) (h : CullOK G keep roots) (n : Nat) (k : κ) (hk : keep k = true) :
    run I (cull G keep) inp n k = run I G inp n k :=
  run_cull I G keep roots inp h n k hk

/-- the checker run by the driver on the real culled key set is sound for `CullOK` -/
theorem C17_cullCheck_sound (l : List (Nat × List Nat)) (kept roots : List Nat)
    (h : cullCheck l kept roots = true) :
    CullOK (listingGraph l) (fun k => kept.contains k) roots :=
  cullCheck_sound l kept roots h

example : cullCheck [(0, []), (1, [0]), (2, [0]), (3, [2])] (reachable [(0, []), (1, [0]), (2, [0]), (3, [2])] [3]) [3] = true ∧
    reachable [(0, []), (1, [0]), (2, [0]), (3, [2])] [3] = [3, 2, 0] := by decide

/-- **FromDelayed**: for Delayed objects that share one acyclic graph `G` (what `to_delayed` returns), any
    `_partitions` selection, any divisions operand: output partition `i` of the merged graph
    (`FromDelayed._layer` + every `_DelayedExpr._layer`, merged by `toolz.merge` after the `seen` walk) is the
    `verify_meta` wrapper applied to the value the selected Delayed's key has in `G`. -/
theorem C17_fromDelayed_value {κ} [DecidableEq κ] (I : Interp) (ok : V → Bool) (hI : BoundaryInterp I ok)
    (e : FromDelayed κ) (G : Graph κ) (hG : ∀ d ∈ e.dfs, d.graph = G) (rank : κ → Nat) (hr : Ranked G rank)
    (inp : κ → Option V) (i p : Nat) (d : Delayed κ) (hi : e.sel[i]? = some p) (hp : e.dfs[p]? = some d)
    (hdef : (G d.key).isSome) (n : Nat) :
    run I e.graph (liftB inp) (n+2) (.out i) = wrapSpec ok e.verifyMeta (run I G inp (n+1) d.key) := by
  rw [run_fromDelayed_out e G hG I rank hr inp i p d hi hp hdef n]
  cases hv : e.verifyMeta
  · simp [wrapCode, wrapSpec, hI.identity]
  · simp [wrapCode, wrapSpec, hI.check]

/-- **`from_delayed(x.to_delayed(optimize_graph=b), divisions=…, verify_meta=…)`**, `G` the graph of
    `x.optimize()` (the expression `to_delayed` converts, for BOTH values of `optimize_graph`), any number `n` of
    partitions, any acyclic `G`, both `optimize_graph` variants, divisions given or not, verification on or off:
    partition `i` of the new collection is (the `verify_meta` wrapper of) partition `i` of `x.optimize()`. -/
theorem C17_delayed_roundtrip {κ} [DecidableEq κ] (I : Interp) (ok : V → Bool) (hI : BoundaryInterp I ok)
    (G : Graph κ) (rank : κ → Nat) (hr : Ranked G rank) (out : Nat → κ) (n : Nat)
    (optimizeGraph : Bool) (keep : κ → Bool) (hc : CullOK G keep ((List.range n).map out))
    (a : DivArg) (verify : Bool) (e : FromDelayed κ)
    (he : fromDelayed (toDelayed G out n optimizeGraph keep) a verify = .ok e)
    (inp : κ → Option V) (i : Nat) (hi : i < n) (hdef : (G (out i)).isSome) (fuel : Nat) :
    run I e.graph (liftB inp) (fuel+2) (.out i) = wrapSpec ok verify (run I G inp (fuel+1) (out i)) := by
  obtain ⟨_, hdfs, hver, _, _⟩ := fromDelayed_ok _ a verify e he
  have hsel : e.sel[i]? = some i := by
    rw [fromDelayed_sel _ a verify e he, toDelayed_length]
    simp [hi]
  have hp : e.dfs[i]? = some { key := out i, graph := if optimizeGraph then cull G keep else G } := by
    rw [hdfs]; exact toDelayed_get G out n optimizeGraph keep i hi
  have hG : ∀ d ∈ e.dfs, d.graph = (if optimizeGraph then cull G keep else G) := by
    rw [hdfs]; exact toDelayed_graph G out n optimizeGraph keep
  have hkeep : keep (out i) = true := hc.roots_kept (out i) (List.mem_map.mpr ⟨i, by simpa using hi, rfl⟩)
  cases optimizeGraph with
  | false =>
    have := C17_fromDelayed_value I ok hI e G (by simpa using hG) rank hr inp i i _ hsel hp hdef fuel
    rw [this, hver]
  | true =>
    have hdef' : (cull G keep (out i)).isSome := by simpa [cull, hkeep] using hdef
    have := C17_fromDelayed_value I ok hI e (cull G keep) (by simpa using hG) rank (ranked_cull G keep rank hr)
      inp i i _ hsel hp hdef' fuel
    rw [this, hver]
    simp only []
    rw [run_cull I G keep _ inp hc (fuel+1) (out i) hkeep]

/-- the same, relative to the query the user wrote: `to_delayed` converts `x.optimize()`; that the optimised
    (and fused) plan computes the same partition values as the plan of `x` is the conclusion of
    `C01_optimize_sound` (logical + lowering rules) and `C14_task` (blockwise fusion) — an explicit hypothesis here. -/
theorem C17_delayed_roundtrip_of_user_query {κ κx} [DecidableEq κ] (I : Interp) (ok : V → Bool)
    (hI : BoundaryInterp I ok) (G : Graph κ) (rank : κ → Nat) (hr : Ranked G rank) (out : Nat → κ) (n : Nat)
    (optimizeGraph : Bool) (keep : κ → Bool) (hc : CullOK G keep ((List.range n).map out))
    (a : DivArg) (verify : Bool) (e : FromDelayed κ)
    (he : fromDelayed (toDelayed G out n optimizeGraph keep) a verify = .ok e)
    (inp : κ → Option V) (fuel : Nat)
    (Gx : Graph κx) (outx : Nat → κx) (inpx : κx → Option V) (fuelx : Nat)
    (hopt : ∀ i, i < n → run I G inp (fuel+1) (out i) = run I Gx inpx fuelx (outx i))
    (i : Nat) (hi : i < n) (hdef : (G (out i)).isSome) :
    run I e.graph (liftB inp) (fuel+2) (.out i) = wrapSpec ok verify (run I Gx inpx fuelx (outx i)) := by
  rw [C17_delayed_roundtrip I ok hI G rank hr out n optimizeGraph keep hc a verify e he inp i hi hdef fuel,
      hopt i hi]

namespace C17Example
/-- graph of a three-partition collection: sources 0,1,2; outputs 10,11,12 (12 also reads 11); 20 unused -/
def G3 : Graph Nat
  | 0 => some (.const [⟨1, 0, 5⟩])
  | 1 => some (.const [⟨2, 0, 6⟩])
  | 2 => some (.const [⟨3, 0, 7⟩])
  | 10 => some (.alias 0)
  | 11 => some (.alias 1)
  | 12 => some (.concat [11, 2] false)
  | 20 => some (.alias 0)
  | _ => none
def out3 (i : Nat) : Nat := 10 + i
def keep3 (k : Nat) : Bool := k != 20
def okAll : V → Bool := fun _ => true
def okNone : V → Bool := fun _ => false
def rank3 (k : Nat) : Nat := if k < 10 then 0 else if k = 12 then 2 else 1
/-- the hypotheses of the theorems hold for this instance: it is acyclic … -/
theorem ranked3 : Ranked G3 rank3 := by
  intro k t hg d hd _
  unfold G3 at hg
  split at hg
  all_goals (try (cases hg; done))
  all_goals (try (simp only [Option.some.injEq] at hg))
  all_goals (try subst hg)
  all_goals (try (simp [Tsk.refs] at hd))
  all_goals (try (rcases hd with rfl | rfl))
  all_goals (try subst hd)
  all_goals (try decide)
/-- … and `keep3` (everything but the unused key 20) is a legal result of `cull` for the three output keys -/
theorem cullOK3 : CullOK G3 keep3 ((List.range 3).map out3) := by
  refine ⟨by decide, ?_⟩
  intro k t hk hg r hr
  unfold G3 at hg
  split at hg
  all_goals (try (cases hg; done))
  all_goals (try (simp only [Option.some.injEq] at hg))
  all_goals (try subst hg)
  all_goals (try (simp [Tsk.refs] at hr))
  all_goals (try (rcases hr with rfl | rfl))
  all_goals (try subst hr)
  all_goals (try rfl)
example : run (stdInterp okAll) (cull G3 keep3) (fun _ => none) 3 12 = run (stdInterp okAll) G3 (fun _ => none) 3 12 :=
  C17_cull_preserves (stdInterp okAll) G3 keep3 _ (fun _ => none) cullOK3 3 12 rfl
/-- `from_delayed(x.to_delayed(optimize_graph=True), verify_meta=True)` -/
def fd3 : FromDelayed Nat :=
  { dfs := toDelayed G3 out3 3 true keep3, userDivisions := none, verifyMeta := true, partitions := none }
example : fromDelayed (toDelayed G3 out3 3 true keep3) .none true = .ok fd3 := rfl
example : run (stdInterp okAll) fd3.graph (liftB (fun _ => none)) 4 (.out 2)
    = .frame [⟨2, 0, 6⟩, ⟨3, 0, 7⟩] := by decide
example : run (stdInterp okNone) fd3.graph (liftB (fun _ => none)) 4 (.out 2) = .err := by decide
example : BoundaryInterp (stdInterp okAll) okAll := ⟨fun _ => rfl, fun _ => rfl⟩
/-- the round-trip theorem applied to this instance (all hypotheses discharged) -/
example : run (stdInterp okAll) fd3.graph (liftB (fun _ => none)) (1+2) (.out 2)
    = wrapSpec okAll true (run (stdInterp okAll) G3 (fun _ => none) (1+1) (out3 2)) :=
  C17_delayed_roundtrip (stdInterp okAll) okAll ⟨fun _ => rfl, fun _ => rfl⟩ G3 rank3 ranked3 out3 3 true keep3 cullOK3
    .none true fd3 rfl (fun _ => none) 2 (by decide) (by decide) 1
/-- the culled graph really lost the unused key, the re-imported one has the renamed keys and all popped keys but… -/
example : fd3.graph (.orig 20) = none ∧ (fd3.graph (.wrap 12)).isSome ∧ (fd3.graph (.orig 12)).isSome := by decide
/-- one partition: the Delayed's own key is popped and not re-added by any other layer -/
def fd1 : FromDelayed Nat :=
  { dfs := toDelayed G3 out3 1 false keep3, userDivisions := none, verifyMeta := false, partitions := none }
example : fd1.graph (.orig 10) = none ∧ (fd1.graph (.orig 20)).isSome ∧
    run (stdInterp okAll) fd1.graph (liftB (fun _ => none)) 3 (.out 0) = .frame [⟨1, 0, 5⟩] := by decide
/-- a partition selection pushed into `_partitions` -/
def fdSel : FromDelayed Nat := { fd3 with partitions := some [2, 0] }
example : run (stdInterp okAll) fdSel.graph (liftB (fun _ => none)) 4 (.out 0) = .frame [⟨2, 0, 6⟩, ⟨3, 0, 7⟩]
    ∧ fdSel.divisions = .ok [none, none, none] ∧ fdSel.npartitions = 2 := ⟨by decide, rfl, rfl⟩
end C17Example

/-! ### (b) persist -/

/-- the graph embedded by `persist` maps keys to *values*: every task is a literal … -/
theorem C17_persist_literals {κ} [DecidableEq κ] (out : Nat → κ) (n : Nat) (divs : Divs) (res : Nat → V)
    (k : κ) (t : Tsk κ) (h : (persist out n divs res).layer k = some t) : ∃ rows, t = .const rows :=
  persistedLayer_literal out n res k t h

/-- … every output key of the persisted collection is mapped to its computed partition, nothing else is defined -/
theorem C17_persist_outputs {κ} [DecidableEq κ] (out : Nat → κ) (n : Nat) (divs : Divs) (res : Nat → V)
    (hres : ∀ i j, out i = out j → res i = res j) :
    (∀ i rows, i < n → res i = .frame rows → (persist out n divs res).layer (out i) = some (.const rows)) ∧
    (∀ k, (∀ i, i < n → out i ≠ k) → (persist out n divs res).layer k = none) := by
  refine ⟨?_, ?_⟩
  · intro i rows hi hrows
    obtain ⟨j, _, hoj, hpl⟩ := persistedLayer_out out n res i hi
    simp only [persist]
    rw [hpl, hres j i hoj, hrows]; rfl
  · intro k hk
    exact persistedLayer_foreign out n res k hk

/-- the key listing, the partition count and the divisions operand are taken over unchanged, and every key that
    `__dask_keys__` reports is defined by `FromGraph._layer` (given that the persisted state's divisions have
    `npartitions + 1` entries — C06) -/
theorem C17_persist_structure {κ} [DecidableEq κ] (out : Nat → κ) (n : Nat) (divs : Divs) (res : Nat → V)
    (hdiv : divs.length = n + 1) :
    (persist out n divs res).keys = (List.range n).map out ∧
    (persist out n divs res).divisions = divs ∧
    (persist out n divs res).npartitions = n ∧
    (persist out n divs res).daskKeys = (List.range n).map Sum.inr ∧
    ∀ k ∈ (persist out n divs res).daskKeys, ((persist out n divs res).graph k).isSome := by
  have hn : (persist out n divs res).npartitions = n := by simp [FromGraph.npartitions, persist, hdiv]
  refine ⟨rfl, rfl, hn, by simp [FromGraph.daskKeys, hn], ?_⟩
  intro k hk
  simp only [FromGraph.daskKeys, hn, List.mem_map, List.mem_range] at hk
  obtain ⟨i, hi, rfl⟩ := hk
  simp [FromGraph.graph, fromGraphLayer, persist, hi]

/-- partition `i` of the persisted collection evaluates to the computed partition -/
theorem C17_persist_value {κ} [DecidableEq κ] (I : Interp) (out : Nat → κ) (n : Nat) (divs : Divs) (res : Nat → V)
    (hres : ∀ i j, out i = out j → res i = res j) (inp₀ : κ → Option V) (i : Nat) (hi : i < n) (rows : List Row)
    (hrows : res i = .frame rows) (m : Nat) :
    run I (persist out n divs res).graph (liftInp inp₀) (m+2) (.inr i) = res i := by
  have hk : (persist out n divs res).keys[i]? = some (out i) := by simp [persist, hi]
  rw [FromGraph.graph, C17_alias I _ _ inp₀ (m+1) i (out i) hk,
      run_defined I _ _ m _ _ ((C17_persist_outputs out n divs res hres).1 i rows hi hrows), hrows]
  rfl

/-- **persist is transparent**: for every upper graph `U` (the remaining operations; its references to partition
    `i` of the cut collection are `Sum.inr i`), every key of `U` has the same value when `U` is stacked on the
    original lower graph `g₁` (keys `out i`) and when it is stacked on `FromGraph(persisted values)` (keys
    `(new name, i)`), where the persisted values are the values of the output keys in `g₁`.
    (`B` bounds the ranks of the output keys: the fuel with which they were computed.) -/
theorem C17_persist_transparent {κ υ} [DecidableEq κ] (I : Interp) (g₁ : Graph κ) (inp : κ → Option V)
    (rank₁ : κ → Nat) (hr₁ : Ranked g₁ rank₁) (out : Nat → κ) (n : Nat) (divs : Divs)
    (U : Graph (υ ⊕ Nat)) (urank : υ → Nat)
    (hU : ∀ u t, U (.inl u) = some t → ∀ u', Sum.inl u' ∈ t.refs → (U (.inl u')).isSome → urank u' < urank u)
    (hdep : ∀ u t, U (.inl u) = some t → ∀ i, Sum.inr i ∈ t.refs → i < n)
    (B : Nat) (hB : ∀ i, i < n → rank₁ (out i) < B)
    (hfr : ∀ i, i < n → ∃ rows, run I g₁ inp B (out i) = .frame rows)
    (inp₀ : κ → Option V) (m : Nat) (u : υ) (hm : urank u < m) :
    run I (stack g₁ out U) (stackInp inp) (m + B) (.inr u)
      = run I (stack (persist out n divs (fun i => run I g₁ inp B (out i))).graph Sum.inr U)
          (stackInp (liftInp inp₀)) (m + 2) (.inr u) :=
  run_stack_persist I g₁ inp rank₁ hr₁ out n divs U urank hU hdep B hB hfr inp₀ m u hm

/-- `C17_cut` instantiated with the real key structure: a stack is `toolz.merge(lower, upper)`, the cut between
    the collection's layer(s) and the operations built on it satisfies `CutOK`, hence the stacked query evaluates
    as its upper part on the materialised values of the lower part — for the original collection and, identically,
    for the `FromGraph` that `persist` / `from_legacy_dataframe` builds. -/
theorem C17_cut_stack {lam υ} (I : Interp) (L : Graph lam) (o : Nat → lam) (U : Graph (υ ⊕ Nat))
    (inp : lam ⊕ υ → Option V) (rank : lam ⊕ υ → Nat) (hr : Ranked (stack L o U) rank)
    (n : Nat) (u : υ) (hu : (U (.inl u)).isSome) (hn : rank (.inr u) < n) :
    run I (stack L o U) inp n (.inr u)
      = run I (stackUpper o U) (cutInp I (stackLower L) inp rank) n (.inr u) := by
  rw [stack_eq_gunion] at hr ⊢
  refine C17_cut I _ _ inp rank hr (stack_cutOK L o U) n (.inr u) ?_ hn
  cases h : U (.inl u) with
  | none => simp [h] at hu
  | some t => simp [stackUpper, h]

namespace C17Example
/-- remaining operations: concat of partitions 2 and 0 of the cut collection, then an alias -/
def U2 : Graph (Nat ⊕ Nat)
  | .inl 0 => some (.concat [.inr 2, .inr 0] false)
  | .inl 1 => some (.alias (.inl 0))
  | _ => none
def res3 (i : Nat) : V := run (stdInterp okAll) G3 (fun _ => none) 3 (out3 i)
example : run (stdInterp okAll) (stack G3 out3 U2) (stackInp (fun _ => none)) 5 (.inr 1)
    = .frame [⟨2, 0, 6⟩, ⟨3, 0, 7⟩, ⟨1, 0, 5⟩] := by decide
example : run (stdInterp okAll) (stack (persist out3 3 [some 0, some 2, some 3, some 3] res3).graph Sum.inr U2)
    (stackInp (liftInp (fun _ => none))) 5 (.inr 1) = .frame [⟨2, 0, 6⟩, ⟨3, 0, 7⟩, ⟨1, 0, 5⟩] := by decide
/-- the transparency theorem applied to this instance (all hypotheses discharged) -/
example : run (stdInterp okAll) (stack G3 out3 U2) (stackInp (fun _ => none)) (2 + 3) (.inr 1)
    = run (stdInterp okAll) (stack (persist out3 3 [some 0, some 2, some 3, some 3]
          (fun i => run (stdInterp okAll) G3 (fun _ => none) 3 (out3 i))).graph Sum.inr U2)
        (stackInp (liftInp (fun _ => none))) (2 + 2) (.inr 1) := by
  refine C17_persist_transparent (stdInterp okAll) G3 (fun _ => none) rank3 ranked3 out3 3 _ U2 (fun u => u)
    ?_ ?_ 3 (by decide) ?_ (fun _ => none) 2 1 (by decide)
  · intro u t hu u' hr hs
    unfold U2 at hu
    split at hu
    all_goals (try (cases hu; done))
    all_goals (try (rename_i heq; cases heq))
    all_goals (try (simp only [Option.some.injEq] at hu))
    all_goals (try subst hu)
    all_goals (try (simp [Tsk.refs] at hr))
    all_goals (try subst hr)
    all_goals (try decide)
  · intro u t hu i hr
    unfold U2 at hu
    split at hu
    all_goals (try (cases hu; done))
    all_goals (try (simp only [Option.some.injEq] at hu))
    all_goals (try subst hu)
    all_goals (try (simp [Tsk.refs] at hr))
    all_goals (try (rcases hr with rfl | rfl))
    all_goals (try decide)
  · intro i hi
    match i, hi with
    | 0, _ => exact ⟨[⟨1, 0, 5⟩], by decide⟩
    | 1, _ => exact ⟨[⟨2, 0, 6⟩], by decide⟩
    | 2, _ => exact ⟨[⟨2, 0, 6⟩, ⟨3, 0, 7⟩], by decide⟩
    | n+3, h => omega
example : (persist out3 3 [some 0, some 2, some 3, some 3] res3).layer 12 = some (.const [⟨2, 0, 6⟩, ⟨3, 0, 7⟩])
    ∧ (persist out3 3 [some 0, some 2, some 3, some 3] res3).layer 0 = none
    ∧ (persist out3 3 [some 0, some 2, some 3, some 3] res3).npartitions = 3 := ⟨rfl, rfl, rfl⟩
end C17Example

/-! ### legacy round trip: `from_legacy_dataframe(x.to_legacy_dataframe())` is `FromGraph` of the (culled) graph -/

/-- structure and values of the legacy round trip (`G`, `out`, `divs` of `x.optimize()`; `optimize` is
    `from_legacy_dataframe`'s flag): divisions taken over, partition count `len(divisions) - 1`, every reported key
    defined, partition `i` has the value of `out i` in `G`. -/
theorem C17_legacy_roundtrip {κ} (I : Interp) (G : Graph κ) (out : Nat → κ) (divs : Divs) (optimize : Bool)
    (keep : κ → Bool) (hc : CullOK G keep ((List.range (divs.length - 1)).map out)) (inp : κ → Option V) :
    (legacyRoundtrip G out divs optimize keep).divisions = divs ∧
    (legacyRoundtrip G out divs optimize keep).npartitions = divs.length - 1 ∧
    (∀ k ∈ (legacyRoundtrip G out divs optimize keep).daskKeys,
        ((legacyRoundtrip G out divs optimize keep).graph k).isSome) ∧
    ∀ i, i < divs.length - 1 → ∀ m,
      run I (legacyRoundtrip G out divs optimize keep).graph (liftInp inp) (m+1) (.inr i) = run I G inp m (out i) := by
  refine ⟨rfl, rfl, ?_, ?_⟩
  · intro k hk
    simp only [FromGraph.daskKeys, FromGraph.npartitions, legacyRoundtrip, List.mem_map, List.mem_range] at hk
    obtain ⟨i, hi, rfl⟩ := hk
    simp [FromGraph.graph, fromGraphLayer, legacyRoundtrip, hi]
  · intro i hi m
    have hk : (legacyRoundtrip G out divs optimize keep).keys[i]? = some (out i) := by
      simp [legacyRoundtrip, hi]
    rw [FromGraph.graph, C17_alias I _ _ inp m i (out i) hk]
    cases optimize with
    | false => rfl
    | true =>
      exact run_cull I G keep _ inp hc m (out i)
        (hc.roots_kept (out i) (List.mem_map.mpr ⟨i, by simpa using hi, rfl⟩))

namespace C17Example
example : run (stdInterp okAll) (legacyRoundtrip G3 out3 [none, none, none, none] true keep3).graph
    (liftInp (fun _ => none)) 4 (.inr 2) = .frame [⟨2, 0, 6⟩, ⟨3, 0, 7⟩]
    ∧ (legacyRoundtrip G3 out3 [none, none, none, none] true keep3).layer 20 = none
    ∧ ((legacyRoundtrip G3 out3 [none, none, none, none] false keep3).layer 20).isSome := by decide
end C17Example

/-! ### (c) partition structure reported by the boundary constructs -/

/-- `FromGraph`: divisions are the operand; the partition count is `len(divisions) - 1`; when the key list has that
    length (persist, from_legacy_dataframe: C17_persist_structure / C17_legacy_roundtrip) every reported key is an
    alias of the listed key. -/
theorem C17_fromGraph_structure {κ} (e : FromGraph κ) (h : e.keys.length = e.npartitions) (i : Nat)
    (hi : i < e.npartitions) :
    ∃ k, e.keys[i]? = some k ∧ e.graph (.inr i) = some (.alias (.inl k)) ∧ Sum.inr i ∈ e.daskKeys := by
  have hi' : i < e.keys.length := by omega
  refine ⟨e.keys[i], by simp [hi'], by simp [FromGraph.graph, fromGraphLayer, hi'], ?_⟩
  simp [FromGraph.daskKeys, hi]

example : ∃ k, (persist C17Example.out3 3 [none, none, none, none] C17Example.res3).keys[1]? = some k ∧
    (persist C17Example.out3 3 [none, none, none, none] C17Example.res3).graph (.inr 1) = some (.alias (.inl k)) ∧
    Sum.inr 1 ∈ (persist C17Example.out3 3 [none, none, none, none] C17Example.res3).daskKeys :=
  C17_fromGraph_structure _ rfl 1 (by decide)

/-- `to_delayed`: one Delayed per partition, the `i`-th one has the `i`-th output key — both variants -/
theorem C17_toDelayed_keys {κ} (G : Graph κ) (out : Nat → κ) (n : Nat) (og : Bool) (keep : κ → Bool) :
    (toDelayed G out n og keep).length = n ∧
    (toDelayed G out n og keep).map Delayed.key = (List.range n).map out := by
  refine ⟨toDelayed_length G out n og keep, ?_⟩
  simp [toDelayed, List.map_map, Function.comp_def]

example : (toDelayed C17Example.G3 C17Example.out3 3 true C17Example.keep3).map Delayed.key = [10, 11, 12] := rfl

/-- `from_delayed`: an accepted call reports `len(dfs)` partitions; its divisions are the ones passed along, or
    "unknown with the right length" (`(None,) * (len(dfs) + 1)`) when none were passed. -/
theorem C17_fromDelayed_divisions {κ} (dfs : List (Delayed κ)) (a : DivArg) (verify : Bool) (e : FromDelayed κ)
    (he : fromDelayed dfs a verify = .ok e) :
    e.npartitions = dfs.length ∧ e.daskKeys = (List.range dfs.length).map BKey.out ∧
    (∀ d, a = .given d → e.divisions = .ok d ∧ d.length = dfs.length + 1) ∧
    (a = .none → e.divisions = .ok (unknownDivs dfs.length) ∧ (unknownDivs dfs.length).length = dfs.length + 1) := by
  obtain ⟨_, h1, _, h4, h5⟩ := fromDelayed_ok dfs a verify e he
  have hn : e.npartitions = dfs.length := by
    simp [FromDelayed.npartitions, fromDelayed_sel dfs a verify e he]
  refine ⟨hn, by simp [FromDelayed.daskKeys, hn], ?_, ?_⟩
  · intro d hd
    rcases h5 with ⟨ha, _⟩ | ⟨d', ha, hl, hu⟩
    · rw [ha] at hd; cases hd
    · rw [ha] at hd; cases hd
      exact ⟨by simp [FromDelayed.divisions, h4, FromDelayed.fullDivisions, hu], hl⟩
  · intro ha
    rcases h5 with ⟨_, hu⟩ | ⟨d', ha', _, _⟩
    · exact ⟨by simp [FromDelayed.divisions, h4, FromDelayed.fullDivisions, hu, h1], by simp [unknownDivs]⟩
    · rw [ha] at ha'; cases ha'

/-- `from_delayed` refuses — with an explicit error, never with a collection — an empty list, `divisions="sorted"`
    and a divisions tuple of the wrong length -/
theorem C17_fromDelayed_rejects {κ} (dfs : List (Delayed κ)) (verify : Bool) :
    (dfs = [] → ∀ a, fromDelayed dfs a verify = .error .noDelayed) ∧
    (dfs ≠ [] → fromDelayed dfs .sorted verify = .error .sorted) ∧
    (dfs ≠ [] → ∀ d : Divs, d.length ≠ dfs.length + 1 → fromDelayed dfs (.given d) verify = .error .divLen) := by
  refine ⟨?_, ?_, ?_⟩
  · intro h a; simp [fromDelayed, h]
  · intro h
    have : dfs.length ≠ 0 := by simpa using h
    simp [fromDelayed, this]
  · intro h d hd
    have : dfs.length ≠ 0 := by simpa using h
    simp [fromDelayed, this, hd]

/-- the delayed round trip as a whole: passing `x.divisions` (which has `n + 1` entries) along is accepted and
    reported back unchanged; passing nothing reports `n` partitions with unknown divisions -/
theorem C17_delayed_roundtrip_structure {κ} (G : Graph κ) (out : Nat → κ) (n : Nat) (hn : n ≠ 0) (og : Bool)
    (keep : κ → Bool) (verify : Bool) (divs : Divs) (hdiv : divs.length = n + 1) :
    (∃ e, fromDelayed (toDelayed G out n og keep) (.given divs) verify = .ok e ∧
        e.divisions = .ok divs ∧ e.npartitions = n) ∧
    (∃ e, fromDelayed (toDelayed G out n og keep) .none verify = .ok e ∧
        e.divisions = .ok (unknownDivs n) ∧ e.npartitions = n) := by
  have hl := toDelayed_length G out n og keep
  refine ⟨?_, ?_⟩
  · have hok : fromDelayed (toDelayed G out n og keep) (.given divs) verify
        = .ok { dfs := toDelayed G out n og keep, userDivisions := some divs, verifyMeta := verify,
                partitions := none } := by
      simp [fromDelayed, hl, hn, hdiv]
    obtain ⟨h1, _, h3, _⟩ := C17_fromDelayed_divisions _ _ _ _ hok
    exact ⟨_, hok, (h3 divs rfl).1, by rw [h1, hl]⟩
  · have hok : fromDelayed (toDelayed G out n og keep) .none verify
        = .ok { dfs := toDelayed G out n og keep, userDivisions := none, verifyMeta := verify,
                partitions := none } := by
      simp [fromDelayed, hl, hn]
    obtain ⟨h1, _, _, h4⟩ := C17_fromDelayed_divisions _ _ _ _ hok
    exact ⟨_, hok, by have h := (h4 rfl).1; rw [hl] at h; exact h, by rw [h1, hl]⟩

namespace C17Example
example : (fromDelayed (toDelayed G3 out3 3 false keep3) (.given [some 0, some 2, some 3, some 3]) true).map
    (fun e => (e.divisions, e.npartitions)) = .ok (.ok [some 0, some 2, some 3, some 3], 3) := rfl
example : fromDelayed (toDelayed G3 out3 3 false keep3) (.given [some 0, some 3]) true = .error .divLen := rfl
example : fromDelayed (toDelayed G3 out3 0 false keep3) .none true = .error .noDelayed := rfl
example : fromDelayed (toDelayed G3 out3 3 false keep3) .sorted true = .error .sorted := rfl
end C17Example

/-! ### (d) `verify_meta` -/

/-- the wrapper emitted for `verify_meta=True` is the identity on a value whose schema matches … -/
theorem C17_verify_meta_identity (ok : V → Bool) (v : V) (h : ok v = true) : wrapSpec ok true v = v := by
  simp [wrapSpec, checkMetaSpec, h]

/-- … an explicit error on any other value … -/
theorem C17_verify_meta_error (ok : V → Bool) (v : V) (h : ok v = false) : wrapSpec ok true v = .err := by
  simp [wrapSpec, checkMetaSpec, h]

/-- … so no value is ever silently changed, with or without verification -/
theorem C17_verify_meta_no_silent_change (ok : V → Bool) (verify : Bool) (v : V) :
    wrapSpec ok verify v = v ∨ wrapSpec ok verify v = .err := by
  cases verify
  · left; rfl
  · cases h : ok v
    · right; simp [wrapSpec, checkMetaSpec, h]
    · left; simp [wrapSpec, checkMetaSpec, h]

/-- the modelled decision of `check_meta`: pass-through unchanged or `ValueError`, decided by `metaMatches` -/
theorem C17_checkMeta_decision {α} (mt x : Sch) (v : α) :
    (metaMatches mt x = true ∧ checkMeta mt x v = .ok v) ∨
    (metaMatches mt x = false ∧ checkMeta mt x v = .error .mismatch) := by
  cases h : metaMatches mt x
  · right; simp [checkMeta, h]
  · left; simp [checkMeta, h]

/-- a partition whose schema is the declared one always passes (DataFrame meta) -/
theorem C17_metaMatches_refl (mt : Sch) (h : mt.kind = 0) : metaMatches mt mt = true := by
  simp only [metaMatches, h, ne_eq, not_true_eq_false, if_false, if_true, Bool.and_eq_true, List.all_eq_true,
    beq_self_eq_true, and_true]
  intro c hc
  have hc' : c ∈ mt.cols.map Prod.fst := by simpa using hc
  obtain ⟨p, hp, rfl⟩ := List.mem_map.mp hc'
  have hs := lookup_isSome_of_mem mt.cols p hp
  cases hl : mt.cols.lookup p.1 with
  | some a => exact equalDtypes_self a
  | none => rw [hl] at hs; cases hs

namespace C17Example
def metaAB : Sch := ⟨0, [("a", .num 0), ("b", .other 3)]⟩
example : metaMatches metaAB ⟨0, [("a", .num 1), ("b", .other 3)]⟩ = true := by decide      -- int vs float
example : metaMatches metaAB ⟨0, [("b", .other 3), ("a", .num 0)]⟩ = false := by decide     -- column order
example : metaMatches metaAB ⟨0, [("a", .num 0)]⟩ = false := by decide                       -- missing column
example : metaMatches metaAB ⟨1, [("a", .num 0)]⟩ = false := by decide                       -- Series for a frame
example : checkMeta metaAB ⟨0, [("a", .num 0), ("b", .other 4)]⟩ (5 : Nat) = .error .mismatch := rfl
example : wrapSpec okAll true (.frame [⟨1, 0, 5⟩]) = .frame [⟨1, 0, 5⟩] := by decide
example : wrapSpec okNone true (.frame [⟨1, 0, 5⟩]) = .err := by decide
end C17Example

end Dx
