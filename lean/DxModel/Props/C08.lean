/-
  Props/C08.lean — expression names are deterministic and collision-free.
  Model: DxModel/Names.lean; lemmas: Lemmas/Names.lean, Lemmas/NameTable.lean;
  table: DxModel/Generated/NameRules.lean (regenerated from the live classes on every run).
-/
import DxModel.Lemmas.NameTable
import DxModel.Lemmas.Cache
import DxModel.Generated.NameRules
namespace Dx
open Names

/-- Collision freedom, all trees (structural induction): under
    * A1  `token` (md5 of the normalized operand list) is injective,
    * A2' a name read back as a literal determines the name, class names read as literals determine the class,
    * `NameRuleComplete` for the classes occurring (each tokenizes all its operands; any two are separated by a
      different constant prefix, the class name inside the token, or operand counts that can never coincide),
    * admissibility of both trees (operand counts possible for the class; no literal operand equals the
      string a nested expression's name would contribute — the code cannot tell these apart, see
      `C08_literal_equal_to_name_collides`),
    equal names imply equal trees: same class, same operands, recursively. -/
theorem C08_injective {L τ : Type} (S : Scheme L τ) (good : Nat → Prop)
    (htok : ∀ a b, S.token a = S.token b → a = b)
    (hcode : ∀ a b, S.nameCode a = S.nameCode b → a = b)
    (hcls : ∀ a b, S.clsCode a = S.clsCode b → a = b)
    (hrule : NameRuleComplete S good)
    (e₁ e₂ : E L) (h₁ : AdmE S good e₁) (h₂ : AdmE S good e₂) (h : nameOf S e₁ = nameOf S e₂) : e₁ = e₂ :=
  injE S good htok hcode hcls hrule e₁ e₂ h₁ h₂ h

/-- Determinism: the name handed out by `Expr.__new__` is the name of the requested tree in *every*
    state of the process-wide table (whatever was built, kept or collected before): the name is a
    function of the tree and of nothing else.  (No injectivity is needed for this direction.) -/
theorem C08_name_is_function_of_tree {η α : Type} [DecidableEq η] (name : α → η) (ops : List (Cache.TOp η α)) (x : α) :
    name (Cache.tnew name (Cache.trun name [] 0 ops).2 (Cache.requested ops).length x).1.val = name x := by
  have inv : ∀ (ops : List (Cache.TOp η α)) (t : Cache.Tbl η α) (n : Nat), Cache.TInv name t →
      Cache.TInv name (Cache.trun name t n ops).2 := by
    intro ops
    induction ops with
    | nil => intro t n h; exact h
    | cons op rest ih =>
      intro t n h
      cases op with
      | new y => simp only [Cache.trun]; exact ih _ _ (Cache.tinv_new n y h)
      | gc keep => simp only [Cache.trun]; exact ih _ _ (Cache.tinv_gc keep h)
  have hi := inv ops [] 0 (by intro p hp; cases hp)
  unfold Cache.tnew
  cases hf : Cache.tfind (Cache.trun name [] 0 ops).2 (name x) with
  | some o => exact (hi _ (Cache.tfind_mem hf)).symm
  | none => rfl

/-- With collision-free names the table is observationally the constructor (C15_singleton, instantiated
    with `nameOf` on admissible trees). -/
theorem C08_singleton {L τ : Type} [DecidableEq τ] (S : Scheme L τ) (good : Nat → Prop)
    (htok : ∀ a b, S.token a = S.token b → a = b)
    (hcode : ∀ a b, S.nameCode a = S.nameCode b → a = b)
    (hcls : ∀ a b, S.clsCode a = S.clsCode b → a = b)
    (hrule : NameRuleComplete S good)
    (ops : List (Cache.TOp (Name τ) {e : E L // AdmE S good e})) :
    (Cache.trun (fun e => nameOf S e.1) [] 0 ops).1.map (·.val) = Cache.requested ops :=
  Cache.trun_vals (fun a b h => Subtype.ext (injE S good htok hcode hcls hrule a.1 b.1 a.2 b.2 h)) ops [] 0
    (by intro p hp; cases hp)

/-! ### each hypothesis is needed: collisions of the real naming scheme, for *every* token function -/

/-- `normalize_expression` tokenizes a nested expression as the string `_name`: a literal operand equal to
    that string gives the same name (`df.b == "sum-<token>"` vs `df.b == df.a.sum()`). -/
theorem C08_literal_equal_to_name_collides {L τ : Type} (S : Scheme L τ) (c : Nat) (e : E L) :
    nameOf S (.node c [.lit (S.nameCode (nameOf S e))]) = nameOf S (.node c [.sub e]) ∧
      (E.node c [Operand.lit (S.nameCode (nameOf S e))] : E L) ≠ .node c [.sub e] := by
  refine ⟨by simp [nameOf, canonOps, canon], ?_⟩
  intro h; injection h with _ h; injection h with h _; cases h

/-- two classes with the same constant prefix (e.g. `operation`) and the same operand list get one name -/
theorem C08_shared_prefix_collides {L τ : Type} (S : Scheme L τ) (c₁ c₂ : Nat) (hne : c₁ ≠ c₂) (p n : Nat)
    (h₁ : S.rules c₁ = Rule.default p n) (h₂ : S.rules c₂ = Rule.default p n) (ops : List (Operand L)) :
    nameOf S (.node c₁ ops) = nameOf S (.node c₂ ops) ∧ (E.node c₁ ops : E L) ≠ .node c₂ ops := by
  refine ⟨by simp [nameOf, prefixOf, tokenInput, h₁, h₂, Rule.default], ?_⟩
  intro h; injection h with h _; exact hne h

/-- an operand the token leaves out (ReadParquet's `_dataset_info_cache`) does not influence the name -/
theorem C08_dropped_operand_collides {L τ : Type} (S : Scheme L τ) (c p : Nat)
    (h : S.rules c = { Rule.default p 1 with dropped := [0] }) (a b : L) :
    nameOf S (.node c [.lit a]) = nameOf S (.node c [.lit b]) := by
  simp [nameOf, prefixOf, tokenInput, h, Rule.default, keepIdx, canonOps, canon]

/-! ### table obligations over Generated/NameRules.lean -/

/-- prefix groups whose members are not separated by the rule shape, with the reason they are kept apart
    (or not) by something the table cannot see -/
def exemptPrefixes : List String :=
  [ -- (the former group "operation" — D52 — is gone: /repo 5ae5dc5 uses the class name when `operation` is a method
    --  of that very name; should such a group reappear it is NOT exempt and this table obligation fails)
    -- AddPrefix/AddPrefixSeries, AddSuffix/AddSuffixSeries: chosen by the frame operand's dimension
    "add_prefix", "add_suffix",
    -- Projection(frame, <column labels>) / Filter(frame, <predicate expression>) / AlignGetitem(frame, <expression>):
    -- literal vs expression operand (A2), and alignment of the operands' divisions
    "getitem",
    -- Loc / LocList / LocSlice / LocElement: chosen by the Python type of the indexer operand
    "loc" ]

/-- classes whose token does not cover every operand, with the reason -/
def ownExceptions : List String :=
  [ -- `_dataset_info_cache` (last operand) is a memo of a function of the other operands and the file system;
    -- its digest `checksum` is tokenized instead
    "dask_expr.io.parquet.ReadParquet", "dask_expr.io.parquet.ReadParquetFSSpec", "dask_expr.io.parquet.ReadParquetPyarrowFS",
    -- the name is the key of the wrapped `Delayed` (unique by dask's own tokenization)
    "dask_expr._expr._DelayedExpr" ]

/-- Every class that overrides `_name`, and every class that inherits one, tokenizes all its operands or is
    a documented exception; classes with different constant prefixes are in different groups, groups are keyed
    by distinct prefix numbers, and inside a group any two classes are separated by their rule shape or the
    group is documented above.  (Classes whose prefix is computed from operand values — MapPartitions, FromMap,
    FromGraph, TreeReduce, CustomReduction, Fused, FusedIO, Chunk/Aggregate … — are separated from others by
    their token only; assumption A3 in the evidence.) -/
theorem C08_name_table :
    tableOK exemptPrefixes Generated.dynamicRows Generated.nameGroups = true ∧
    (Generated.nameRows.all (fun r => ownComplete r.rule || ownExceptions.contains r.cls)) = true := by
  refine ⟨by decide +kernel, by decide +kernel⟩

/-- … hence collision freedom for every tree over the classes of the live table that have a constant,
    non-exempt prefix and a complete token. -/
theorem C08_injective_on_table {L τ : Type} (S : Scheme L τ) (hS : S.rules = ruleOf Generated.nameRows)
    (htok : ∀ a b, S.token a = S.token b → a = b)
    (hcode : ∀ a b, S.nameCode a = S.nameCode b → a = b)
    (hcls : ∀ a b, S.clsCode a = S.clsCode b → a = b)
    (e₁ e₂ : E L)
    (h₁ : AdmE S (goodClass exemptPrefixes Generated.nameRows) e₁)
    (h₂ : AdmE S (goodClass exemptPrefixes Generated.nameRows) e₂)
    (h : nameOf S e₁ = nameOf S e₂) : e₁ = e₂ :=
  injE S _ htok hcode hcls (table_complete C08_name_table.1 S hS) e₁ e₂ h₁ h₂ h

/-- non-vacuity of `C08_injective_on_table`: most live classes are covered (constant non-exempt prefix, complete
    token), and the free scheme over the live table satisfies `hS` by definition -/
example : 250 < (Generated.nameRows.filter (goodRow exemptPrefixes)).length := by decide +kernel
example : (freeScheme (ruleOf Generated.nameRows)).rules = ruleOf Generated.nameRows := rfl

/-! ### non-vacuity: the free scheme satisfies A1/A2' and a three-class table is complete -/

def demoRules : Nat → Rule
  | 0 => Rule.default 10 2           -- "add"(left, right)
  | 1 => Rule.default 11 2           -- "sub"(left, right): other prefix
  | 2 => Rule.default 10 3           -- same prefix as 0, other operand count
  | _ => Rule.default 99 0

def demoGood (c : Nat) : Prop := c ≤ 2

theorem demo_complete : NameRuleComplete (freeScheme demoRules) demoGood := by
  refine ⟨?_, ?_⟩
  · intro c hc
    have : c = 0 ∨ c = 1 ∨ c = 2 := by unfold demoGood at hc; omega
    rcases this with rfl | rfl | rfl <;> rfl
  · intro c₁ c₂ h₁ h₂ hne
    have a : c₁ = 0 ∨ c₁ = 1 ∨ c₁ = 2 := by unfold demoGood at h₁; omega
    have b : c₂ = 0 ∨ c₂ = 1 ∨ c₂ = 2 := by unfold demoGood at h₂; omega
    rcases a with rfl | rfl | rfl <;> rcases b with rfl | rfl | rfl <;> first | exact absurd rfl hne | rfl

/-- an admissible nested tree with a list operand: `sub(add(lit 1, lit 2), [lit 3, add(lit 4, lit 5)])` -/
example : AdmE (freeScheme demoRules) demoGood
    (.node 1 [.sub (.node 0 [.lit (.base 1), .lit (.base 2)]),
              .seq [.lit (.base 3), .sub (.node 0 [.lit (.base 4), .lit (.base 5)])]]) := by
  simp [AdmE, AdmO, AdmOps, demoGood, arityOK, demoRules, Rule.default, freeScheme]

example : ∀ a b, (freeScheme demoRules).token a = (freeScheme demoRules).token b → a = b := fun _ _ h => h
example : ∀ a b, (freeScheme demoRules).nameCode a = (freeScheme demoRules).nameCode b → a = b := by
  intro a b h
  cases a; cases b
  simp only [freeScheme, FreeLit.name.injEq] at h
  simp [h.1, h.2]
example : ∀ a b, (freeScheme demoRules).clsCode a = (freeScheme demoRules).clsCode b → a = b := by
  intro a b h; simpa [freeScheme] using h

end Dx
