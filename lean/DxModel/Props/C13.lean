/-
  Props/C13.lean — property theorems for C13 (repartitioning preserves rows and order and honours the
  requested layout).  Helper lemmas live in Lemmas/Repartition*.lean.

  Conventions: `parts i` are the rows of input partition `i`; `inputs parts` feeds them to the layer;
  "concat of the outputs" is `(List.range nout).flatMap outputs`; row lists are compared with `=`
  (same rows, same order, same multiplicity).
-/
import DxModel.Lemmas.Repartition
import DxModel.Lemmas.RepartitionDiv
import DxModel.Lemmas.RepartitionPlanner
namespace Dx
open Repartition

/-! ### RepartitionToFewer -/

/-- For ANY boundary list that starts at 0, ends at `nin` and is monotone (the float expression
    `int(i * nin/nout)` is checked against exactly this predicate for all (nin, nout) ≤ 400):
    every emitted task evaluates (no error) to the concatenation of its input range, there are
    `bs.length - 1` outputs, and the outputs concatenate to the inputs, in order. -/
theorem C13_fewer (I : Interp) (bs : List Nat) (nin : Nat) (parts : Nat → List Row)
    (h : boundariesOK bs nin = true) :
    (∀ j, j + 1 < bs.length →
        run I (fewerTask bs) (Repartition.inputs parts) 1 (.out j) = .frame (fewerSem bs parts j)) ∧
    (fewerKeys bs).length = bs.length - 1 ∧
    (List.range (bs.length - 1)).flatMap (fewerSem bs parts) = (List.range nin).flatMap parts :=
  ⟨fun j hj => run_fewer I bs parts j hj, by simp [fewerKeys], fewer_concat parts bs nin h⟩

example : boundariesOK [0, 2, 3, 7] 7 = true := by decide

/-- `_divisions`: entry `j` of the reported divisions is the input division at boundary `j`. -/
theorem C13_fewer_divisions (din : List Int) (bs : List Nat) (d : List Int)
    (h : fewerDivisions din bs = some d) :
    d.length = bs.length ∧ ∀ (j i : Nat), bs[j]? = some i → d[j]? = din[i]? :=
  fewerDivisions_spec din bs d h

/-- With *strictly* increasing boundaries (also checked for all (nin, nout) ≤ 400) the reported
    divisions are truthful for the merged partitions. -/
theorem C13_fewer_divisions_truthful (din : List Int) (bs : List Nat) (nin : Nat) (parts : Nat → List Row)
    (hb : boundariesOK bs nin = true) (hs : strictMono bs = true) (hinv : DivInv din nin parts) :
    ∃ d, fewerDivisions din bs = some d ∧ DivInv d (bs.length - 1) (fewerSem bs parts) :=
  fewer_divisions_truthful din bs nin parts hb hs hinv

example : boundariesOK [0, 2, 3] 3 = true ∧ strictMono [0, 2, 3] = true ∧
    fewerDivisions [0, 10, 20, 30] [0, 2, 3] = some [0, 20, 30] := by decide

/-! ### RepartitionToMore -/

/-- `(splitEvenlySpec rows n).flatten = rows` for `n ≥ 1` — the only fact about `split_evenly` used below. -/
theorem C13_split_evenly_flatten (rows : List Row) (n : Nat) (hn : 1 ≤ n) :
    (splitEvenlySpec rows n).flatten = rows := splitEvenly_flatten rows n hn

/-- the same for pieces cut at ANY monotone cut list from 0 to `len` (the real `split_evenly` computes its
    cut points with `np.linspace(...).astype(int)`; they are checked against `boundariesOK`) -/
theorem C13_cuts_cover (rows : List Row) (cuts : List Nat) (h : boundariesOK cuts rows.length = true) :
    (List.range (cuts.length - 1)).flatMap (seg cuts rows) = rows := seg_cover rows cuts h

/-- `nsplits` all ≥ 1 (what `_nsplits` guarantees, `C13_more_nsplits`): every output task evaluates to its
    piece, and the `sum nsplits` outputs concatenate to the inputs, in order. -/
theorem C13_more (I : Interp) (ns : List Nat) (parts : Nat → List Row) (h : ∀ k ∈ ns, 1 ≤ k) :
    (∀ j, j < Repartition.sum ns →
        run I (moreTask ns) (Repartition.inputs parts) 2 (.out j) = .frame (moreSem ns parts j)) ∧
    (List.range (Repartition.sum ns)).flatMap (moreSem ns parts) = (List.range ns.length).flatMap parts :=
  ⟨fun j hj => run_more I ns parts j hj, more_concat parts ns h⟩

/-- Row preservation does not depend on where `split_evenly` cuts: any piece function whose pieces
    concatenate to their input gives the same result. -/
theorem C13_more_anycuts (pc : Nat → Nat → Nat → List Row) (parts : Nat → List Row) (ns : List Nat)
    (hcover : ∀ i k, 1 ≤ k → (List.range k).flatMap (pc i k) = parts i) (h : ∀ k ∈ ns, 1 ≤ k) :
    (List.range (Repartition.sum ns)).flatMap (moreSemP pc ns 0) = (List.range ns.length).flatMap parts := by
  rw [more_concat_P pc parts hcover ns 0 h, List.range_eq_range']

/-- `_nsplits` (integer logic, modelled exactly): `nin` entries, all ≥ 1, summing to `nout`
    whenever `1 ≤ nin ≤ nout` (RepartitionToMore is only chosen for `nout > nin`). -/
theorem C13_more_nsplits (nout nin : Nat) (h1 : 1 ≤ nin) (h2 : nin ≤ nout) :
    ∃ ns, nsplits nout nin = .ok ns ∧ (∀ k ∈ ns, 1 ≤ k) ∧ ns.length = nin ∧ Repartition.sum ns = nout :=
  nsplits_spec nout nin h1 h2

example : nsplits 7 3 = .ok [2, 2, 3] := rfl
example : ∀ k ∈ [2, 1, 3], 1 ≤ k := by decide

/-! ### RepartitionSize (nsplits / boundaries are parameters, checked by T3) -/

theorem C13_size (I : Interp) (ns bs : List Nat) (parts : Nat → List Row) (h1 : ∀ k ∈ ns, 1 ≤ k)
    (hb : boundariesOK bs (if anySplit ns then Repartition.sum ns else ns.length) = true) :
    (∀ j, j + 1 < bs.length →
        run I (sizeTask ns bs) (Repartition.inputs parts) 3 (.out j) = .frame (fewerSem bs (sizeMid ns parts) j)) ∧
    (List.range (bs.length - 1)).flatMap (fewerSem bs (sizeMid ns parts)) = (List.range ns.length).flatMap parts := by
  have ⟨_, hl, hm⟩ := boundariesOK_iff.mp hb
  refine ⟨fun j hj => run_size I ns bs parts j hj (fun x hx ha => ?_), ?_⟩
  · have := mono_le_last bs _ hm hl x hx
    simpa [ha] using this
  · rw [fewer_concat (sizeMid ns parts) bs _ hb]
    unfold sizeMid
    by_cases ha : anySplit ns = true
    · simp only [ha, if_true]
      exact more_concat parts ns h1
    · simp [ha]

example : anySplit [1, 2] = true ∧ boundariesOK [0, 2, 3] (Repartition.sum [1, 2]) = true := by decide

/-! ### RepartitionDivisions -/

/-- The emitted graph computes its plan: with every referenced piece present (`closedOK`), output `j`
    evaluates — without error — to the concatenation of its boundary slices. -/
theorem C13_div_run (I : Interp) (st : DivState) (parts : Nat → List Row) (hc : closedOK st = true)
    (j : Nat) (hj : j < st.outs.length) :
    run I (divTask st) (Repartition.inputs parts) 2 (.out j) = .frame (runPlan (planOf st) parts j) :=
  run_div_out I st parts hc j hj

/-- **Plan validator.**  If the executable check `planOK a b plan` succeeds then, for EVERY input whose
    partitions satisfy the old divisions `a` (any number of rows, duplicates, empty partitions), running
    the plan returns exactly the input rows in their original order, and the outputs satisfy the new
    divisions `b`.  The check is run on every enumerated real plan (`check planok`). -/
theorem C13_div_validator (a b : List Int) (plan : Plan) (n : Nat) (parts : Nat → List Row)
    (hok : planOK a b plan = true) (hinv : DivInv a n parts) :
    (List.range plan.length).flatMap (runPlan plan parts) = (List.range n).flatMap parts ∧
    DivInv b plan.length (runPlan plan parts) :=
  planOK_sound a b plan n parts hok hinv

-- non-vacuity: the plan emitted for a = [0,2,4], b = [0,1,4,4] passes the validator, …
example : planOK [0, 2, 4] [0, 1, 4, 4]
    [[⟨0, 0, 1, false⟩], [⟨0, 1, 2, false⟩, ⟨1, 2, 4, false⟩], [⟨1, 4, 4, true⟩]] = true := by decide
-- … a plan that loses the rows with index 4 does not, …
example : planOK [0, 2, 4] [0, 1, 4, 4]
    [[⟨0, 0, 1, false⟩], [⟨0, 1, 2, false⟩, ⟨1, 2, 4, false⟩], [⟨1, 4, 4, false⟩]] = false := by decide
-- … and `DivInv` is satisfiable by a frame with duplicate index values and an empty partition.
example : DivInv [0, 2, 2, 4] 3 (fun i => if i = 0 then [⟨0, 0, 0⟩, ⟨1, 0, 1⟩, ⟨1, 0, 2⟩] else if i = 2 then [⟨2, 0, 3⟩, ⟨4, 0, 4⟩] else []) := by
  refine ⟨rfl, by decide, ?_, ?_⟩
  · intro i lo hi hlo hhi r hr
    match i with
    | 0 => simp at hlo hhi hr; subst hlo hhi; rcases hr with rfl | rfl | rfl <;> decide
    | 1 => simp at hr
    | 2 => simp at hlo hhi hr; subst hlo hhi; rcases hr with rfl | rfl <;> decide
    | i+3 => simp at hhi
  · intro i hi
    match i with
    | 0 => decide
    | 1 => decide
    | 2 => decide
    | i+3 => omega

/-- The plan the model planner emits for the D13 shape (old divisions `[2,2]`, new `[0,1,2,2]`, force):
    the validator rejects it — and indeed the rows are lost (open finding D13). -/
theorem C13_div_D13_counterexample :
    (match planner [2, 2] [0, 1, 2, 2] true with
      | .ok st => closedOK st && planOK [2, 2] [0, 1, 2, 2] (planOf st)
      | .error _ => true) = false ∧
    (match planner [2, 2] [0, 1, 2, 2] true with
      | .ok st => (List.range 3).flatMap (runPlan (planOf st) (fun _ => [⟨2, 0, 7⟩]))
      | .error _ => [⟨2, 0, 7⟩]) = [] := by decide

/-
  FULL STATEMENT (not proven in this generality):

  theorem C13_div_planner (a b : List Int) (force : Bool)
      (ha : isStrictSorted a = true) (hb : isSorted b = true) (hlen : 2 ≤ a.length)
      (hcov : covered a b force = true) :
      ∃ st, planner a b force = .ok st ∧ closedOK st = true ∧ planOK a b (planOf st) = true

  It holds on every enumerated instance (all a, b over {0..5} of length ≤ 5: the validator accepts
  every plan emitted for strictly increasing `a`; the only rejected plans have a constant `a = [v,…,v]`,
  finding D13).  What is proven for all sizes is the sub-class below; the remaining cases (repeated
  values in `b`, forced extension `b[0] < a[0]` / `a[-1] < b[-1]`, repeated last value of `a`) are
  covered per input by running the proven validator on the real plan.
-/

/-- **Planner theorem, partial**: strictly increasing old and new divisions with equal end points
    (the documented use of `repartition(divisions=…)`), any `force`, any length: the planner succeeds
    and its plan passes the validator — hence (`C13_div_validator`, `C13_div_run`) the emitted graph
    returns the input rows in order, partitioned along `b`. -/
theorem C13_div_planner_partial (a b : List Int) (force : Bool)
    (ha : isStrictSorted a = true) (hb : isStrictSorted b = true)
    (hla : 2 ≤ a.length) (hlb : 2 ≤ b.length)
    (h0 : a.head? = b.head?) (hn : a.getLast? = b.getLast?) :
    ∃ st, planner a b force = .ok st ∧ closedOK st = true ∧ planOK a b (planOf st) = true :=
  planner_strict a b force ha hb hla hlb h0 hn

example : isStrictSorted [0, 2, 4, 9] = true ∧ isStrictSorted [0, 1, 4, 5, 9] = true := by decide

/-- End-to-end corollary for that class: the emitted *graph* evaluates (no error) to outputs that hold
    exactly the input rows in order and satisfy the new divisions, for every input satisfying the old ones. -/
theorem C13_div_strict_end_to_end (I : Interp) (a b : List Int) (force : Bool) (n : Nat) (parts : Nat → List Row)
    (ha : isStrictSorted a = true) (hb : isStrictSorted b = true)
    (hla : 2 ≤ a.length) (hlb : 2 ≤ b.length)
    (h0 : a.head? = b.head?) (hn : a.getLast? = b.getLast?) (hinv : DivInv a n parts) :
    ∃ st outs, planner a b force = .ok st ∧ st.outs.length + 1 = b.length ∧
      (∀ j, j < st.outs.length → run I (divTask st) (Repartition.inputs parts) 2 (.out j) = .frame (outs j)) ∧
      (List.range st.outs.length).flatMap outs = (List.range n).flatMap parts ∧
      DivInv b st.outs.length outs := by
  obtain ⟨st, hp, hc, hok⟩ := planner_strict a b force ha hb hla hlb h0 hn
  have ⟨h1, h2⟩ := planOK_sound a b (planOf st) n parts hok hinv
  have hlen : (planOf st).length = st.outs.length := by simp [planOf]
  rw [hlen] at h1 h2
  exact ⟨st, runPlan (planOf st) parts, hp, by have := h2.len; omega,
    fun j hj => run_div_out I st parts hc j hj, h1, h2⟩


/-! ### requests that cannot be satisfied are rejected -/

/-- Range not covered (different end points without `force`; new range smaller than the old one with
    `force`; fewer than two new divisions): the planner raises `ValueError` — it never emits a graph. -/
theorem C13_reject_uncovered (a b : List Int) (force : Bool) (hla : 2 ≤ a.length)
    (h : covered a b force = false) : planner a b force = .error .value :=
  planner_rejects a b force hla h

example : covered [0, 2, 4] [0, 1, 3] false = false := by decide
example : covered [0, 2, 4] [1, 5] true = false := by decide

/-- … and conversely a covered request is never answered with `ValueError`. -/
theorem C13_no_spurious_reject (a b : List Int) (force : Bool)
    (h : covered a b force = true) : planner a b force ≠ .error .value :=
  planner_no_value_error a b force h

/-- Unknown input divisions: `Repartition._lower` raises `ValueError` for every non-empty `new_divisions`. -/
theorem C13_reject_unknown (nin : Nat) (num sz : Bool) (d : Int) (ds : List Int) :
    lowerDecision none nin none num (some (d :: ds)) sz = .error .value := rfl

/-- `_lower` picks `RepartitionToFewer` / `ToMore` only on the side of `nin` their theorems assume. -/
theorem C13_lower_dispatch (np nin : Nat) (fd : Option (List Int)) (num : Bool) (nd : Option (List Int)) (sz : Bool) :
    (lowerDecision (some np) nin fd num nd sz = .ok .toFewer → np < nin) ∧
    (lowerDecision (some np) nin fd num nd sz = .ok .toMore → nin < np) := by
  unfold lowerDecision
  simp only
  by_cases h1 : np < nin
  · simp [h1]
  · by_cases h2 : np = nin
    · simp [h2]
    · simp only [h1, h2, if_false]
      refine ⟨?_, fun _ => by omega⟩
      split <;> simp

end Dx
