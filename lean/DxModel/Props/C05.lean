/-
  Props/C05.lean — results do not depend on task scheduling.
  Generic theorems over key-indexed graphs (any key type, any task interpretation):
  the value of a key is a function of the graph alone; every dependency-respecting sequential order
  and every legal multi-worker start/finish schedule publishes exactly that value.
  What the model cannot exhibit (partial): that the pandas-calling task functions are pure
  (`evalTsk` is a function by construction) — sampled by the harness (argument hashing).
-/
import DxModel.Sched
import DxModel.GraphCheck
import DxModel.Plan
namespace Dx

/-- Values are a function of the graph: once the fuel exceeds a key's rank, more fuel changes nothing
    (so "computing the same collection repeatedly gives the same answer"). -/
theorem C05_value_function_of_graph {κ} (I : Interp) (g : Graph κ) (inp : κ → Option V) (rank : κ → Nat)
    (hr : Ranked g rank) (k : κ) (m : Nat) (hm : rank k < m) :
    run I g inp m k = val I g inp rank k :=
  run_stable I g inp rank hr (rank k + 1) k (by omega) m (by omega)

/-- **Confluence**: any two dependency-respecting orders of the tasks store the same value for
    every key (graphs of any size). -/
theorem C05_confluence {κ} [DecidableEq κ] (I : Interp) (g : Graph κ) (inp : κ → Option V)
    (rank : κ → Nat) (hr : Ranked g rank) (o₁ o₂ : List κ)
    (h₁ : Topo g [] o₁) (h₂ : Topo g [] o₂)
    (d₁ : ∀ k ∈ o₁, (g k).isSome) (d₂ : ∀ k ∈ o₂, (g k).isSome)
    (k : κ) (hk₁ : k ∈ o₁) (hk₂ : k ∈ o₂) :
    (execOrder I g inp o₁ []).lookup k = (execOrder I g inp o₂ []).lookup k :=
  confluence I g inp rank hr o₁ o₂ h₁ h₂ d₁ d₂ k hk₁ hk₂

/-- every dependency-respecting order computes the canonical value -/
theorem C05_order_val {κ} [DecidableEq κ] (I : Interp) (g : Graph κ) (inp : κ → Option V)
    (rank : κ → Nat) (hr : Ranked g rank) (order : List κ) (ht : Topo g [] order)
    (hdef : ∀ k ∈ order, (g k).isSome) (k : κ) (hk : k ∈ order) :
    (execOrder I g inp order []).lookup k = some (val I g inp rank k) :=
  execOrder_val I g inp rank hr order ht hdef k hk

/-- **Any number of workers**: a schedule of start/finish events in which a task starts only after
    its dependencies were published (workers read their arguments when they start, results are
    published later, arbitrarily interleaved) publishes the canonical value for every finished key. -/
theorem C05_workers {κ} [DecidableEq κ] (I : Interp) (g : Graph κ) (inp : κ → Option V)
    (rank : κ → Nat) (hr : Ranked g rank) (es : List (Ev κ)) (hl : LegalPar g [] [] es) :
    ∃ done started, ParOK I g inp rank done started (es.foldl (parStep I g inp) ⟨[], []⟩) ∧
      (∀ k, Ev.finish k ∈ es → k ∈ done) := by
  have h0 : ParOK I g inp rank [] [] (⟨[], []⟩ : ParState κ) := by
    refine ⟨⟨?_, ?_, ?_⟩, ?_, ?_, ?_⟩
    · intro k h; cases h
    · intro k _; rfl
    · intro k h; cases h
    · intro k h; cases h
    · intro k h; cases h
    · intro k h; cases h
  obtain ⟨d, s, h1, _, h3⟩ := par_ok I g inp rank hr es [] [] _ h0 hl
  exact ⟨d, s, h1, h3⟩

/-- published values under any legal multi-worker schedule are the canonical ones -/
theorem C05_workers_val {κ} [DecidableEq κ] (I : Interp) (g : Graph κ) (inp : κ → Option V)
    (rank : κ → Nat) (hr : Ranked g rank) (es : List (Ev κ)) (hl : LegalPar g [] [] es)
    (k : κ) (hk : Ev.finish k ∈ es) :
    ((es.foldl (parStep I g inp) ⟨[], []⟩).store).lookup k = some (val I g inp rank k) := by
  obtain ⟨d, s, h1, h3⟩ := C05_workers I g inp rank hr es hl
  exact h1.1.1 k (h3 k hk)

/-- the plan-level graph of a well-formed plan is ranked, so all of the above applies to it -/
theorem C05_plan {κ} [Inhabited κ] [DecidableEq κ] (I : Interp) (P : Plan κ) (hP : PlanOK P)
    (o₁ o₂ : List (Nat × κ)) (h₁ : Topo (merged P) [] o₁) (h₂ : Topo (merged P) [] o₂)
    (d₁ : ∀ k ∈ o₁, (merged P k).isSome) (d₂ : ∀ k ∈ o₂, (merged P k).isSome)
    (k : Nat × κ) (hk₁ : k ∈ o₁) (hk₂ : k ∈ o₂) :
    @List.lookup _ _ instBEqOfDecidableEq k (execOrder I (merged P) (fun _ => none) o₁ []) =
    @List.lookup _ _ instBEqOfDecidableEq k (execOrder I (merged P) (fun _ => none) o₂ []) :=
  confluence I (merged P) (fun _ => none) (globalRank P) (merged_ranked P hP) o₁ o₂ h₁ h₂ d₁ d₂ k hk₁ hk₂

/-- soundness of the graph checker used on real graphs (shared with C09) -/
theorem C05_checker_sound {κ} [DecidableEq κ] (l : List (κ × List κ)) (h : checkOrder l [] = true) :
    (l.map Prod.fst).Nodup ∧
    (∀ (i : Nat) (hi : i < l.length), ∀ r ∈ (l[i]).2,
        ∃ (j : Nat) (hj : j < l.length), j < i ∧ (l[j]).1 = r) := checkOrder_sound l h

/-! non-vacuity: a diamond a -> {b, c} -> d executed in both orders -/
namespace C05Example
def g : Graph Nat
  | 0 => some (.const [⟨0, 0, 7⟩])
  | 1 => some (.alias 0)
  | 2 => some (.alias 0)
  | 3 => some (.concat [1, 2] false)
  | _ => none
example : Topo g [] [0, 1, 2, 3] := by simp [Topo, g, Tsk.refs]
example : Topo g [] [0, 2, 1, 3] := by simp [Topo, g, Tsk.refs]
example : LegalPar g [] [] [.start 0, .finish 0, .start 1, .start 2, .finish 2, .finish 1, .start 3, .finish 3] := by
  simp [LegalPar, g, Tsk.refs]
end C05Example

end Dx
