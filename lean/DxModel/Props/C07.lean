/-
  Props/C07.lean — declared schema matches the computed data.

  1. label level (DxModel/Schema.lean): declared labels = labels of the computed frame for the label-level operators,
     through chains, for every partition.
  2. expression trees (DxModel/Meta.lean): for Projection, RenameFrame/RenameSeries, AddPrefix/AddSuffix, Drop, Assign,
     the schema-preserving row operators, ResetIndex, SetIndex, Index, ToSeriesIndex/ToFrameIndex, ToFrame, ValueCounts,
     the frame / series reductions, Len, groupby aggregations over column keys, Merge on columns and Concat (rows /
     columns): `declT` transliterates every `_meta`, `compT` what one partition of the lowered expression is computed
     from (chunk/combine/aggregate trees of any shape, the shuffle helper column, `merge_chunk(result_meta)`,
     `StackPartition`'s pass-through-or-restack).  `C07_tree_sound_partial`: every computed partition of every guarded
     tree has exactly the declared schema — container, labels, order, names, index levels and dtype kinds.
     The guards are the side conditions under which the code really does what it declares; their negations are kept as
     counterexample theorems and as failing inputs of the real code (harness/props/c07.py).
  3. optimizer: the projection push-down of `Dx.Cols`, applied to trees, keeps the declared schema of the root.
  4. dtype kinds: `Kind.promotes` is the promotion the comparison tolerates ("int/bool columns that acquire missing
     values"); it is never used to make a theorem above true — those are equalities.

  PARTIAL by nature: pandas' own inference on the stand-in data (the schema-level primitives of Meta.lean part 2) is the
  trusted boundary, tied to pandas by the correspondence families.
-/
import DxModel.Schema
import DxModel.Meta
import DxModel.MetaPush
import DxModel.Lemmas.Meta
import DxModel.Lemmas.MetaConcat
import DxModel.Lemmas.MetaPush
import DxModel.Lemmas.MetaPushMerge
import DxModel.Lemmas.MetaPushConcat
namespace Dx
open Schema

/-! ## 1. label level -/

/-- declared labels = labels of the computed frame, for every modelled operator and every frame -/
theorem C07_labels (op : Op) (f : Frame) : labels (evalOp op f) = schemaOp op (labels f) :=
  labels_evalOp op f

/-- … and through any chain of operators -/
theorem C07_labels_chain (ops : List Op) (f : Frame) :
    labels (evalChain ops f) = schemaChain ops (labels f) := labels_evalChain ops f

/-- every partition carries the declared labels — partitions only differ in their rows, and the
    declared schema does not depend on rows (so empty and all-null partitions are covered) -/
theorem C07_partitions (ops : List Op) (parts : List Frame) (ls : List Name)
    (h : ∀ p ∈ parts, labels p = ls) : ∀ p ∈ parts, labels (evalChain ops p) = schemaChain ops ls := by
  intro p hp
  rw [C07_labels_chain, h p hp]

/-- the declared schema is a function of the input labels alone: two inputs with equal labels
    (e.g. the stand-in meta and the real data) get equal declared schemas -/
theorem C07_meta_standin (ops : List Op) (f standin : Frame) (h : labels standin = labels f) :
    labels (evalChain ops standin) = labels (evalChain ops f) := by
  rw [C07_labels_chain, C07_labels_chain, h]

example : schemaChain [.rename [("a", "A")], .addPrefix "p_", .proj ["p_b", "p_A"]] ["a", "b", "c"] = ["p_b", "p_A"] := by
  decide
example : labels (evalChain [.assign "z" (fun i => i), .dropCols ["a"]] [("a", [1, 2]), ("b", [3, 4])]) = ["b", "z"] := by
  decide

end Dx

namespace Dx
open Meta

/-! ## 2. per-operator: the task pipeline computes what `_meta` declares -/

/-- frame / series reductions: a tree reduction of ANY shape (`batch`, `depth`, `nagg`) over partitions of schema `s`
    ends in the schema `Reduction._meta` derives from one chunk of the stand-in; `Mean` (declared by pandas' `mean`,
    computed as `sum / count`) needs numeric columns -/
theorem C07_op_reduce (f : Agg) (rt : Rt) (s : Sch) (hg : guardReduce f s = true) :
    taskReduce f rt s = declReduce f s := taskReduce_sound f rt s hg

/-- FULL STATEMENT (false on the current tree): `C07_op_reduce` without the guard.  `df.e.mean()` of a datetime column
    is declared (a Timestamp) but `Mean._lower` computes `sum / count` and pandas has no sum of datetimes (D90). -/
theorem C07_mean_datetime_counterexample :
    declReduce .mean (.series (some "e") .dt rangeIdx) = .scalar .dt ∧
    taskReduce .mean {} (.series (some "e") .dt rangeIdx) = .bad := by decide

/-- groupby aggregations over column keys (sum, min, max, first, last, count, size, mean): any tree shape -/
theorem C07_op_groupby (keys : List Name) (sl : Slice) (f : Agg) (rt : Rt) (s : Sch) :
    taskGroupby keys sl f rt s = declGroupby keys sl f s := taskGroupby_eq keys sl f rt s

/-- value_counts: chunk → combine → aggregate computes the hand-written `_meta` (name `count` / `proportion`) -/
theorem C07_op_value_counts (nz : Bool) (rt : Rt) (s : Sch) :
    treeReduce vcChunk vcCombine (vcAggregate nz) rt s = pValueCounts nz s := taskValueCounts_eq nz rt s

/-- set_index on a column, blockwise or through `SetPartition` (assign `_partitions`, shuffle, project it away,
    `_SetIndexPost`) -/
theorem C07_op_set_index (c : Name) (d : Bool) (rt : Rt) (m s : Sch) (hg : guardU (.setIndex c d) rt s = true) :
    taskU (.setIndex c d) rt m s = declU (.setIndex c d) s := taskSetIndex_eq c d rt m s hg

/-- FULL STATEMENT (false on the current tree): `C07_op_set_index` without the guard.  A user column named
    `_partitions` is overwritten by the shuffle's helper column and projected away with it (D88). -/
theorem C07_reserved_label_counterexample :
    declU (.setIndex "a" true) (.frame [("_partitions", .int), ("a", .int), ("b", .obj)] rangeIdx) =
      .frame [("_partitions", .int), ("b", .obj)] [(some "a", .int)] ∧
    taskU (.setIndex "a" true) { path := 1 } .bad (.frame [("_partitions", .int), ("a", .int), ("b", .obj)] rangeIdx) =
      .frame [("b", .obj)] [(some "a", .int)] := by decide

/-- merge on columns: blockwise or hash join (both sides through `RearrangeByColumn`), `merge_chunk` with an empty
    left partition re-ordered by `result_meta` -/
theorem C07_op_merge (m : MergeP) (rt : Rt) (l r : Sch) (hg : guardMerge rt l r = true) :
    taskMerge m rt (declMerge m l r) l r = declMerge m l r := taskMerge_eq m rt l r hg

/-- Concat: every output partition — passed through when `check_meta`, the index names and the series name agree with
    the declaration, otherwise re-stacked onto the declared meta — carries the declared schema; row-wise the declared
    kinds already hold the promotion of columns that some input lacks (D85) -/
theorem C07_op_concat (a i : Bool) (rt : Rt) (ss : List Sch) (hg : guardConcat a (declConcat a i ss) ss = true) :
    taskConcat a i rt (declConcat a i ss) ss = declConcat a i ss := taskConcat_eq a i rt ss hg

/-- D89 (fixed): inputs with different index names / series names are no longer passed through -/
example : taskConcat false false { which := 1 }
      (declConcat false false [.frame [("a", .int)] [(some "i", .int)], .frame [("a", .int)] [(some "j", .int)]])
      [.frame [("a", .int)] [(some "i", .int)], .frame [("a", .int)] [(some "j", .int)]] =
    .frame [("a", .int)] [(none, .int)] := by decide
example : taskConcat false false { which := 1 }
      (declConcat false false [.series (some "a") .int rangeIdx, .series (some "b") .int rangeIdx])
      [.series (some "a") .int rangeIdx, .series (some "b") .int rangeIdx] = .series none .int rangeIdx := by decide

/-- every unary operator of the model -/
theorem C07_unary_sound (op : UOp) (rt : Rt) (s : Sch) (hg : guardU op rt s = true) :
    taskU op rt (declU op s) s = declU op s := by
  cases op with
  | getCols cs => cases s <;> first | rfl | simp [guardU] at hg
  | getCol c => cases s <;> first | rfl | simp [guardU] at hg
  | rename m => rfl
  | renameSeries n => rfl
  | addPrefix p => rfl
  | addSuffix x => rfl
  | dropCols cs => rfl
  | keep => rfl
  | resetIndex d => rfl
  | setIndex c d => exact taskSetIndex_eq c d rt _ s hg
  | index => cases s <;> first | rfl | simp [guardU] at hg
  | indexToSeries => rfl
  | indexToFrame n => rfl
  | toFrame n => rfl
  | valueCounts nz => exact taskValueCounts_eq nz rt s
  | reduce f => exact taskReduce_sound f rt s (by simpa [guardU] using hg)
  | len => rfl
  | gbAgg keys sl f => exact taskGroupby_eq keys sl f rt s

/-! ## 2'. whole expression trees -/

mutual
/-- FULL STATEMENT (false on the current tree): `∀ t, compT t = declT t`.
    PARTIAL: under `guardT` — every node meets the side condition of its operator (no user column `_partitions`
    and duplicate-free labels in front of a shuffle; numeric columns under `mean`; no column-less input and equal index
    kinds in a Concat; `x.index` only of frames and series).  Counterexamples: `C07_reserved_label_counterexample`,
    `C07_mean_datetime_counterexample`.

    Every computed partition of every query built from the modelled operators has exactly the declared schema:
    container kind, labels and their order, series name, index level names, and dtype kinds. -/
theorem C07_tree_sound_partial : ∀ (t : Tree), guardT t = true → compT t = declT t
  | .src _, _ => rfl
  | .un op rt t, h => by
    simp only [guardT, Bool.and_eq_true] at h
    simp only [compT, declT]
    rw [C07_tree_sound_partial t h.1]
    exact C07_unary_sound op rt _ h.2
  | .assign c t v, h => by
    simp only [guardT, Bool.and_eq_true] at h
    simp only [compT, declT]
    rw [C07_tree_sound_partial t h.1, C07_tree_sound_partial v h.2]
  | .merge m rt l r, h => by
    simp only [guardT, Bool.and_eq_true] at h
    simp only [compT, declT]
    rw [C07_tree_sound_partial l h.1.1, C07_tree_sound_partial r h.1.2]
    exact taskMerge_eq m rt _ _ h.2
  | .concat a i rt ts, h => by
    simp only [guardT, Bool.and_eq_true] at h
    simp only [compT, declT]
    rw [C07_trees_sound_partial ts h.1]
    exact taskConcat_eq a i rt _ h.2
theorem C07_trees_sound_partial : ∀ (ts : List Tree), guardTs ts = true → compTs ts = declTs ts
  | [], _ => rfl
  | t :: ts, h => by
    simp only [guardTs, Bool.and_eq_true] at h
    simp only [compTs, declTs]
    rw [C07_tree_sound_partial t h.1, C07_trees_sound_partial ts h.2]
end

mutual
/-- the declared schema does not see the run-time shape (number of partitions, tree depth, lowering path, which
    partition is looked at) -/
theorem C07_decl_rt_independent (g : Rt → Rt) : ∀ (t : Tree), declT (mapRt g t) = declT t
  | .src _ => rfl
  | .un op rt t => by simp only [mapRt, declT, C07_decl_rt_independent g t]
  | .assign c t v => by simp only [mapRt, declT, C07_decl_rt_independent g t, C07_decl_rt_independent g v]
  | .merge m rt l r => by simp only [mapRt, declT, C07_decl_rt_independent g l, C07_decl_rt_independent g r]
  | .concat a i rt ts => by simp only [mapRt, declT, C07_decls_rt_independent g ts]
theorem C07_decls_rt_independent (g : Rt → Rt) : ∀ (ts : List Tree), declTs (mapRts g ts) = declTs ts
  | [] => rfl
  | t :: ts => by simp only [mapRts, declTs, C07_decl_rt_independent g t, C07_decls_rt_independent g ts]
end

/-- every individual partition carries the same schema: whatever partition of whatever lowering of the query is
    looked at (`g` re-chooses the run-time shape of every node), it is the declared schema of the query -/
theorem C07_tree_partitions_partial (g : Rt → Rt) (t : Tree) (h : guardT (mapRt g t) = true) :
    compT (mapRt g t) = declT t := by
  rw [C07_tree_sound_partial _ h, C07_decl_rt_independent]

/-! ## 3. optimization keeps the declared schema: projection push-down

`pushdown deps t` applies the `_simplify_up(Projection)` rule of the operator below the root projection, for ANY list
`deps` of further dependents.  Every theorem: the rewritten tree declares what the query declared. -/

/-- schema-preserving operators (Filter with its predicate elsewhere, pass-through blockwise operators, head, tail,
    sort_values, …): `plain_column_projection` -/
theorem C07_push_keep (deps : List Cols.Dep) (pop : UOp) (prt rt : Rt) (t t' : Tree) (p : Cols.Parent)
    (hp : parentOf pop = some p) (cols : List Col) (idx : List Lvl) (hS : declT t = .frame cols idx)
    (h : pushdown deps (.un pop prt (.un .keep rt t)) = some t') :
    declT t' = declT (.un pop prt (.un .keep rt t)) := push_keep deps pop prt rt t t' p hp cols idx hS h

theorem C07_push_set_index (deps : List Cols.Dep) (pop : UOp) (prt rt : Rt) (c : Name) (d : Bool) (t t' : Tree) (p : Cols.Parent)
    (hp : parentOf pop = some p) (cols : List Col) (idx : List Lvl) (hS : declT t = .frame cols idx)
    (h : pushdown deps (.un pop prt (.un (.setIndex c d) rt t)) = some t') :
    declT t' = declT (.un pop prt (.un (.setIndex c d) rt t)) := push_setIndex deps pop prt rt c d t t' p hp cols idx hS h

/-- FULL STATEMENT: for every selection `g[columns]` of the groupby and every aggregation.
    PARTIAL: no selection or a list selection (a scalar selection gives a Series: the parent is not a frame
    projection), and not `mean` (its chunk has columns of its own). -/
theorem C07_push_groupby_partial (deps : List Cols.Dep) (pop : UOp) (prt rt : Rt) (keys : List Name) (sl : Slice)
    (hsl : ∀ c, sl ≠ .one c) (f : Agg) (hf : f ≠ .mean) (t t' : Tree) (p : Cols.Parent)
    (hp : parentOf pop = some p) (cols : List Col) (idx : List Lvl) (hS : declT t = .frame cols idx)
    (hok : declT (.un pop prt (.un (.gbAgg keys sl f) rt t)) ≠ .bad)
    (h : pushdown deps (.un pop prt (.un (.gbAgg keys sl f) rt t)) = some t') :
    declT t' = declT (.un pop prt (.un (.gbAgg keys sl f) rt t)) :=
  push_groupby deps pop prt rt keys sl hsl f hf t t' p hp cols idx hS hok h

/-- D96 (fixed): `df.groupby('k')[['a','b']].sum()[['a']]` — `groupby_projection` keeps the list selection in the
    pruned input (before the fix the optimized query raised KeyError 'b') -/
example :
    let q := Tree.un (.getCols ["a"]) {} (.un (.gbAgg ["k"] (.many ["a", "b"]) .sum) {}
      (.src (.frame [("a", .int), ("b", .float), ("c", .obj), ("k", .int)] rangeIdx)))
    declT q = .frame [("a", .int)] [(some "k", .int)] ∧
    (pushdown [] q).map declT = some (declT q) ∧ (pushdown [] q).isSome = true := by decide

theorem C07_push_reset_index (deps : List Cols.Dep) (pop : UOp) (prt rt : Rt) (d : Bool) (t t' : Tree) (p : Cols.Parent)
    (hp : parentOf pop = some p) (cols : List Col) (idx : List Lvl) (hS : declT t = .frame cols idx)
    (hok : declT (.un pop prt (.un (.resetIndex d) rt t)) ≠ .bad)
    (h : pushdown deps (.un pop prt (.un (.resetIndex d) rt t)) = some t') :
    declT t' = declT (.un pop prt (.un (.resetIndex d) rt t)) :=
  push_resetIndex deps pop prt rt d t t' p hp cols idx hS hok h

theorem C07_push_rename (deps : List Cols.Dep) (pop : UOp) (prt rt : Rt) (m : List (Name × Name)) (t t' : Tree) (p : Cols.Parent)
    (hp : parentOf pop = some p) (cols : List Col) (idx : List Lvl) (hS : declT t = .frame cols idx)
    (hn : (Meta.labels cols).Nodup) (hnd : (m.map (·.1)).Nodup)
    (huniq : ∀ x x', x ∈ Meta.labels cols → x' ∈ Meta.labels cols → renameOne m x ∈ p.cols →
      renameOne m x' = renameOne m x → x' = x)
    (h : pushdown deps (.un pop prt (.un (.rename m) rt t)) = some t') :
    declT t' = declT (.un pop prt (.un (.rename m) rt t)) :=
  push_rename deps pop prt rt m t t' p hp cols idx hS hn hnd huniq h

theorem C07_push_prefix (deps : List Cols.Dep) (pop : UOp) (prt rt : Rt) (pre : String) (t t' : Tree) (p : Cols.Parent)
    (hp : parentOf pop = some p) (cols : List Col) (idx : List Lvl) (hS : declT t = .frame cols idx)
    (hn : (Meta.labels cols).Nodup)
    (h : pushdown deps (.un pop prt (.un (.addPrefix pre) rt t)) = some t') :
    declT t' = declT (.un pop prt (.un (.addPrefix pre) rt t)) := push_prefix deps pop prt rt pre t t' p hp cols idx hS hn h

/-- (the hypothesis of a non-empty suffix is no longer needed on the C04 side since D38; kept here as stated) -/
theorem C07_push_suffix_partial (deps : List Cols.Dep) (pop : UOp) (prt rt : Rt) (suf : String) (hsuf : suf.length ≠ 0)
    (t t' : Tree) (p : Cols.Parent)
    (hp : parentOf pop = some p) (cols : List Col) (idx : List Lvl) (hS : declT t = .frame cols idx)
    (hn : (Meta.labels cols).Nodup)
    (h : pushdown deps (.un pop prt (.un (.addSuffix suf) rt t)) = some t') :
    declT t' = declT (.un pop prt (.un (.addSuffix suf) rt t)) :=
  push_suffix_partial deps pop prt rt suf hsuf t t' p hp cols idx hS hn h

/-- FULL STATEMENT (false on the current tree, C04_merge_counterexample / N1): without `KeysDoNotCollide`.
    Labels with their suffixes, kinds and the fresh index of `left.merge(right)[P]` survive the pruning of both inputs. -/
theorem C07_push_merge_partial (deps : List Cols.Dep) (pop : UOp) (prt rt : Rt) (m : MergeP) (l r t' : Tree) (p : Cols.Parent)
    (hp : parentOf pop = some p) (L : List Col) (li : List Lvl) (R : List Col) (ri : List Lvl)
    (hL : declT l = .frame L li) (hR : declT r = .frame R ri)
    (hLn : (Meta.labels L).Nodup) (hRn : (Meta.labels R).Nodup)
    (hkeys : Cols.KeysDoNotCollide m.cp (Meta.labels L) (Meta.labels R))
    (hok : declT (.un pop prt (.merge m rt l r)) ≠ .bad)
    (h : pushdown deps (.un pop prt (.merge m rt l r)) = some t') :
    declT t' = declT (.un pop prt (.merge m rt l r)) :=
  push_merge deps pop prt rt m l r t' p hp L li R ri hL hR hLn hRn hkeys hok h

/-- FULL STATEMENT (false on the current tree, D35): for `axis=1` as well (see the counterexample below).
    Row-wise concat: labels, order, the kinds — including the promotion caused by an input that has none of the requested
    columns (it keeps its first column, D85) — and the common index survive the pruning of every input. -/
theorem C07_push_concat_rows_partial (deps : List Cols.Dep) (pop : UOp) (prt rt : Rt) (inner : Bool) (ts : List Tree) (t' : Tree)
    (p : Cols.Parent) (hp : parentOf pop = some p) (Cs : List (List Col)) (Is : List (List Lvl)) (hA : AllFrames ts Cs Is)
    (hcols : ∀ C, C ∈ Cs → C ≠ []) (hnd : ∀ C, C ∈ Cs → (Meta.labels C).Nodup)
    (hok : declT (.un pop prt (.concat false inner rt ts)) ≠ .bad)
    (h : pushdown deps (.un pop prt (.concat false inner rt ts)) = some t') :
    declT t' = declT (.un pop prt (.concat false inner rt ts)) :=
  push_concat_rows deps pop prt rt inner ts t' p hp Cs Is hA hcols hnd hok h

/-- D85 as it would be without the fix is excluded by the model of the rule: the frame without a requested column keeps
    one column, so the declared kind of `d` stays float -/
example :
    let q := Tree.un (.getCols ["d"]) {} (.concat false false {}
      [.src (.frame [("a", .int), ("b", .int)] rangeIdx), .src (.frame [("c", .int), ("d", .int)] rangeIdx)])
    declT q = .frame [("d", .float)] rangeIdx ∧ (pushdown [] q).map declT = some (.frame [("d", .float)] rangeIdx) := by
  decide

/-- D35 seen at schema level: `concat([A, B], axis=1)[['a']]` with differently indexed inputs declares a float column
    (the stand-ins do not align); the rule removes `B` from the Concat and the optimized query declares an integer -/
theorem C07_push_concat_axis1_counterexample :
    let q := Tree.un (.getCols ["a"]) {} (.concat true false {}
      [.src (.frame [("a", .int), ("b", .int)] rangeIdx), .src (.frame [("c", .int), ("d", .int)] [(some "id", .int)])])
    declT q = .frame [("a", .float)] [(none, .int)] ∧
    (pushdown [] q).map declT = some (.frame [("a", .int)] rangeIdx) := by decide

/-! ## 4. the tolerated promotion -/

/-- a column that acquires missing values is computed with a kind the comparison tolerates -/
theorem C07_promotes_na (k : Kind) : Kind.promotes k k.na := Kind.promotes_na k

theorem C07_promotes_refl (s : Sch) : SchPromotes s s := by
  have hc : ∀ (l : List Col), colsPromote l l := by
    intro l
    induction l with
    | nil => trivial
    | cons a t ih => exact ⟨rfl, Kind.promotes_refl _, ih⟩
  have hl : ∀ (l : List Lvl), lvlsPromote l l := by
    intro l
    induction l with
    | nil => trivial
    | cons a t ih => exact ⟨rfl, Kind.promotes_refl _, ih⟩
  cases s with
  | frame c i => exact ⟨hc c, hl i⟩
  | series n k i => exact ⟨rfl, Kind.promotes_refl _, hl i⟩
  | index l => exact hl l
  | scalar k => exact Kind.promotes_refl _
  | bad => trivial

/-- the partition of an outer / left / right join with unmatched rows, or of a concat whose input lacks columns:
    whichever columns `w` acquire missing values, the computed frame is the declared one up to the promotion -/
theorem C07_promotion_frame (w : Name → Bool) (cols : List Col) (idx : List Lvl) :
    SchPromotes (.frame cols idx) (.frame (naCols w cols) idx) := by
  constructor
  · induction cols with
    | nil => trivial
    | cons a t ih =>
      simp only [naCols, List.map_cons]
      by_cases h : w a.1 = true
      · simp only [h, if_true]; exact ⟨rfl, Kind.promotes_na _, ih⟩
      · simp only [h, Bool.false_eq_true, if_false]; exact ⟨rfl, Kind.promotes_refl _, ih⟩
  · have := C07_promotes_refl (.index idx)
    exact this

/-- … and nothing else is tolerated: a float never counts as the integer it was declared to be the other way round,
    a datetime never as an object -/
example : ¬ Kind.promotes .float .int ∧ ¬ Kind.promotes .dt .obj ∧ Kind.promotes .bool .obj ∧ Kind.promotes .int .float := by
  decide

/-! ## 5. non-vacuity -/

-- a guarded tree with a merge through a shuffle, a groupby tree reduction of depth 2 and a reset_index
example :
    let t := Tree.un (.resetIndex false) {} (.un (.gbAgg ["k"] .all .sum) { batch := 3, depth := 2, nagg := 1 }
      (.merge { how := .left, leftOn := ["k"], rightOn := ["k"], ls := "_x", rs := "_y" } { path := 1, emptyLhs := true }
        (.src (.frame [("k", .int), ("a", .int), ("b", .float)] rangeIdx))
        (.src (.frame [("k", .int), ("b", .bool), ("z", .obj)] [(some "id", .int)]))))
    guardT t = true ∧ compT t = .frame [("k", .int), ("a", .int), ("b_x", .float), ("b_y", .int), ("z", .obj)] rangeIdx ∧
      declT t = compT t := by decide

-- frame reduction → series over the labels → selection of one label → scalar
example : declT (.un (.getCol "a") {} (.un (.reduce .mean) { depth := 3, batch := 2 }
      (.src (.frame [("a", .int), ("c", .bool)] rangeIdx)))) = .scalar .float := by decide

-- a row-wise concat whose second input lacks a column: declared float, every partition float (re-stacked onto the meta)
example :
    let ss := [Sch.frame [("a", .int), ("b", .int)] rangeIdx, Sch.frame [("a", .int)] rangeIdx]
    declConcat false false ss = .frame [("a", .int), ("b", .float)] rangeIdx ∧
    guardConcat false (declConcat false false ss) ss = true ∧
    taskConcat false false { which := 0 } (declConcat false false ss) ss = .frame [("a", .int), ("b", .float)] rangeIdx ∧
    taskConcat false false { which := 1 } (declConcat false false ss) ss = .frame [("a", .int), ("b", .float)] rangeIdx := by
  decide

-- push-down below a merge: both sides pruned, suffixes kept, schema of the root unchanged
example :
    let q := Tree.un (.getCols ["b_y", "a"]) {} (.merge { how := .inner, leftOn := ["k"], rightOn := ["k"], ls := "_x", rs := "_y" } {}
      (.src (.frame [("k", .int), ("a", .int), ("b", .float), ("u", .obj)] rangeIdx))
      (.src (.frame [("k", .int), ("b", .bool), ("z", .obj)] rangeIdx)))
    declT q = .frame [("b_y", .bool), ("a", .int)] rangeIdx ∧
    (pushdown [] q).map declT = some (declT q) ∧ (pushdown [] q).isSome = true := by decide

-- value_counts of a named series through a tree of depth 1
example : compT (.un (.valueCounts true) { depth := 1, batch := 1 } (.src (.series (some "d") .obj rangeIdx))) =
    .series (some "proportion") .float [(some "d", .obj)] := by decide

end Dx
