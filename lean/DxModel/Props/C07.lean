/-
  Props/C07.lean — declared schema matches the computed data (label level).
  PARTIAL by nature: dtype kinds come from pandas' own inference on stand-in data (`meta_nonempty`,
  `_emulate`), which is outside the model; container kind / labels / order are modelled for the
  label-level operators and checked end-to-end for every node of every vetted plan.
-/
import DxModel.Schema
namespace Dx
open Schema

/-- declared labels = labels of the computed frame, for every modelled operator and every frame -/
theorem C07_labels (op : Op) (f : Frame) : labels (evalOp op f) = schemaOp op (labels f) :=
  labels_evalOp op f

/-- … and through any chain of operators -/
theorem C07_labels_chain (ops : List Op) (f : Frame) :
    labels (evalChain ops f) = schemaChain ops (labels f) := labels_evalChain ops f

/-- every partition carries the declared labels — partitions only differ in their rows, and the
    declared schema does not depend on rows (so empty and all-null partitions are covered) -/
theorem C07_partitions (ops : List Op) (parts : List Frame) (ls : List Name)
    (h : ∀ p ∈ parts, labels p = ls) : ∀ p ∈ parts, labels (evalChain ops p) = schemaChain ops ls := by
  intro p hp
  rw [C07_labels_chain, h p hp]

/-- the declared schema is a function of the input labels alone: two inputs with equal labels
    (e.g. the stand-in meta and the real data) get equal declared schemas -/
theorem C07_meta_standin (ops : List Op) (f standin : Frame) (h : labels standin = labels f) :
    labels (evalChain ops standin) = labels (evalChain ops f) := by
  rw [C07_labels_chain, C07_labels_chain, h]

example : schemaChain [.rename [("a", "A")], .addPrefix "p_", .proj ["p_b", "p_A"]] ["a", "b", "c"] = ["p_b", "p_A"] := by
  decide
example : labels (evalChain [.assign "z" (fun i => i), .dropCols ["a"]] [("a", [1, 2]), ("b", [3, 4])]) = ["b", "z"] := by
  decide

end Dx
