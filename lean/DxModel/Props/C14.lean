/-
  Props/C14.lean — blockwise fusion only changes task granularity.

  Model: DxModel/Fusion.lean (transliteration of `optimize_blockwise_fusion`, `_fusion_pass`,
  `Fused._task`, `Fused._execute_task`), checkers: DxModel/FusionCheck.lean.
  Every statement holds for *every* iteration order `ord` of the Python sets involved.

    C14_group_ok          every group returned by the pass is `GroupOK`
    C14_group_check_sound the executable group checker used on native-order runs is sound
    C14_task              the fused sub-graph (nested groups at any position) computes what the unfused member tasks compute
    C14_task_counterexample   witness of the open finding D60 (one-partition nested group in an n-partition group)
    C14_meta              npartitions / ndim (meta) of `Fused G` are those of `G[0]`
    C14_substitute        the substitution of `Fused G` for `G[0]` leaves the value of every key of every other expression (and of the plan's root) unchanged
    C14_loop_values       … and so does the whole loop of `optimize_blockwise_fusion`: the returned plan's root has the original root's value
    C14_terminates        a successful pass strictly decreases the number of reachable blockwise nodes
    C14_loop_terminates   hence the outer loop of `optimize_blockwise_fusion` stops
    C14_walk_total        the operand walk never exhausts its fuel
-/
import DxModel.Lemmas.FusionPass
import DxModel.Lemmas.FusionMeasure
import DxModel.Lemmas.FusionTask
import DxModel.Lemmas.FusionSubst
import DxModel.Lemmas.FusionLoop
namespace Dx
open Fusion

namespace C14Ex
/-- `x = df + 1 ; x + (df.sum() * 2)`-like plan: 0 source (3 partitions, not a valid blockwise op),
    1 reduction (1 partition), 2 series op on it, 3 frame op, 4 = frame op(3, broadcast 2) = root -/
def dag : Dag :=
  [ ⟨0, false, 3, 2, [], false, []⟩, ⟨1, false, 1, 1, [0], false, []⟩, ⟨2, true, 1, 1, [1], false, []⟩,
    ⟨3, true, 3, 2, [0], false, []⟩, ⟨4, true, 3, 2, [3, 2], false, []⟩ ]

/-- a plan after two passes: 0 source, 1 reduction, 2 and 3 one-partition series ops, 4 frame op,
    5 = frame op(4, broadcast 3); 6 = Fused[5,4] (external 0 and 3), 7 = Fused[6,3] — a nested group
    whose second member is the one-partition series op broadcast into the fused frame op -/
def dag2 : Dag :=
  [ ⟨0, false, 3, 2, [], false, []⟩, ⟨1, false, 1, 1, [0], false, []⟩, ⟨2, true, 1, 1, [1], false, []⟩,
    ⟨3, true, 1, 1, [2], false, []⟩, ⟨4, true, 3, 2, [0], false, []⟩, ⟨5, true, 3, 2, [4, 3], false, []⟩,
    ⟨6, true, 3, 2, [0, 3], true, [5, 4]⟩, ⟨7, true, 3, 2, [0, 2], true, [6, 3]⟩ ]

def f7 : Node := ⟨7, true, 3, 2, [0, 2], true, [6, 3]⟩

def ordId : Nat → List Nat → List Nat := fun _ l => l
def ordRev : Nat → List Nat → List Nat := fun _ l => l.reverse
def I0 : Interp := fun f args => V.frame [⟨(f : Int), args.length, 0⟩]
end C14Ex
open C14Ex

/-! ### 1. groups -/

/-- Every group returned by `_fusion_pass` — for every plan, every iteration order of the
    dependency sets — is non-empty and duplicate free, consists of valid blockwise operations of the
    plan, every non-first member has *all* its dependents (blockwise or not: the dependents map
    records every parent met by the operand walk) inside the group, is an operand of a member, and
    has the first member's partition count or is broadcast to a consuming member.
    A returned group has at least two members. -/
theorem C14_group_ok (ord : Nat → List Nat → List Nat) (hord : OrdOK ord) (dag : Dag) (root : Nat)
    (r : PassResult) (G : List Nat) (h : fusionPass ord dag root = some r) (hg : r.group = some G) :
    GroupOK dag root G ∧ 2 ≤ G.length :=
  fusionPass_groupOK ord hord dag root r G h hg

example : (fusionPass ordId C14Ex.dag 4).map (·.group) = some (some [4, 2, 3]) := by decide
example : (fusionPass ordRev C14Ex.dag 4).map (·.group) = some (some [4, 3, 2]) := by decide
example : OrdOK ordId := fun _ _ _ h => h
example : OrdOK ordRev := fun _ _ _ h => List.mem_reverse.mp h

/-- The group checker run on the groups found by the unmodified code (native set order) is sound. -/
theorem C14_group_check_sound (dag : Dag) (root : Nat) (G : List Nat) (h : groupOKb dag root G = true) :
    GroupOK dag root G :=
  groupOKb_sound dag root G h

example : GroupOK C14Ex.dag 4 [4, 3, 2] := C14_group_check_sound _ _ _ (by decide)

/-! ### 2. the fused task -/

/-- For a `Fused` node accepted by `fusedOK` — nested groups at any position and depth, as they arise
    when a collection is built on an already optimised one — the value of its task for partition
    `index` (`dask.core.get` on the dict built by `Fused._task(index)` with the placeholders `"_j"`
    bound to the values `ev` of the positional arguments) equals the value of the first member's key
    `(exprs[0], index)` in the graph of the *unfused* member tasks `Blockwise._task(i)` (a nested group
    standing for its first member), with the same values `ev` for every key outside the group.
    For every interpretation `I` of the members' operations, every `ev`, all sufficiently large fuels
    on both sides (so neither side is the fuel-exhaustion error). -/
theorem C14_task (I : Interp) (dag : Dag) (f : Node) (index : Nat) (ev : FKey → V)
    (hok : fusedOK dag f = true) (hi : index < f.npart) (N N' : Nat)
    (hN : 2 * f.name + 2 ≤ N) (hN' : f.name ≤ N') :
    fusedValue I dag f index ev N =
      run I (memberGraph dag (flat dag (f.name + 1) f) (nested dag (f.name + 1) f)) (fun k => some (ev k)) N'
        (FKey.part (f.members.headD 0) index) :=
  fused_task_correct I dag f index ev hok hi N N' hN hN'

example : fusedOK dag2 f7 = true := by decide
example : flat dag2 8 f7 = [5, 4, 3] ∧ nested dag2 8 f7 = [6] := by decide
example (ev : FKey → V) : fusedValue I0 dag2 f7 2 ev 25 =
    run I0 (memberGraph dag2 [5, 4, 3] [6]) (fun k => some (ev k)) 7 (FKey.part 6 2) :=
  C14_task I0 dag2 f7 2 ev (by decide) (by decide) 25 7 (by decide) (by decide)

/-! #### regression witness of the fixed defect "a nested Fused group overwrote members of the
     enclosing group with its dependency placeholders":
      d = 1 - df.sum(); inner = (df + (2 + d)).optimize(); q = inner + d
  (0 = FromPandas, 1 = frame op, 2 = TreeReduce, 3 = `1 - sum` = d, 4 = `2 + d`, 5 = `df + …`,
   6 = Fused[5,4] = inner with external dependencies [0, 3], 7 = `inner + d`, 8 = Fused[7, 3, 6]):
  member 3 is written before the nested group 6, which depends on it.  Before the fix the nested
  group's placeholder entry `(3, 0) ↦ "_1"` overwrote member 3's task. -/

namespace C14Ex
def dag3 : Dag :=
  [ ⟨0, false, 2, 2, [], false, []⟩, ⟨1, true, 2, 2, [0], false, []⟩, ⟨2, false, 1, 1, [1], false, []⟩,
    ⟨3, true, 1, 1, [2], false, []⟩, ⟨4, true, 1, 1, [3], false, []⟩, ⟨5, true, 2, 2, [0, 4], false, []⟩,
    ⟨6, true, 2, 2, [0, 3], true, [5, 4]⟩, ⟨7, true, 2, 2, [6, 3], false, []⟩,
    ⟨8, true, 2, 2, [2, 0], true, [7, 3, 6]⟩ ]
def f8 : Node := ⟨8, true, 2, 2, [2, 0], true, [7, 3, 6]⟩
def code : V → Nat
  | .frame (r :: _) => r.pay + 1
  | _ => 0
/-- an interpretation that records which values an operation received -/
def I1 : Interp := fun f args => V.frame [⟨(f : Int), 0, (args.map code).foldl (fun a b => 31 * a + b) 7⟩]
def ev1 : FKey → V
  | .part n i => V.frame [⟨0, 0, 100 * n + i⟩]
  | _ => V.err
end C14Ex

example : fusedOK dag3 f8 = true := by decide
example : fusedValue I1 dag3 f8 0 ev1 40 =
    run I1 (memberGraph dag3 [7, 3, 5, 4] [6]) (fun k => some (ev1 k)) 40 (FKey.part 7 0) :=
  C14_task I1 dag3 f8 0 ev1 (by decide) (by decide) 40 40 (by decide) (by decide)
/-- … and the value is the one of the completely unfused plan -/
example : fusedValue I1 dag3 f8 0 ev1 40 = run I1 (refGraph dag3) (fun k => some (ev1 k)) 40 (FKey.part 7 0) := by
  decide

/-! #### OPEN FINDING D60: a one-partition nested group inside an n-partition group.

  Full statement (false for the current code): `C14_task` for every `Fused` node whose nested groups
  have the partition count of the enclosing group *or a single partition* (broadcast), as ordinary
  members may.  `C14_task` above is the proven part: `fusedOK` requires a nested group to have the
  partition count of the enclosing one.  With `Fused._task` entering a broadcast nested group with
  `i = 0 if self._broadcast_dep(_expr) else index` the full statement is provable (done in a scratch
  development; not part of the tree because the code does not do it).

  Witness — the plan of   sc = ((df.a.sum() + 1) * 2).optimize(); q = df.a + sc   (2 partitions):
  0 FromPandas, 1 `df.a`, 2 chunk, 3 = Fused[2,1], 4 TreeReduce, 5 `+ 1`, 6 `* 2`,
  7 = Fused[6,5] = sc (ONE partition), 8 `df.a + sc`, 9 = Fused[8,1,7].  For partition 1 the nested
  group 7 is registered as `(7, 1) ↦ T7 ↦ (6, 1)` while member 8 refers to `(7, 0)` and member 6 is
  keyed `(6, 0)`. -/

namespace C14Ex
def dagD60 : Dag :=
  [ ⟨0, false, 2, 2, [], false, []⟩, ⟨1, true, 2, 1, [0], false, []⟩, ⟨2, true, 2, 0, [1], false, []⟩,
    ⟨3, true, 2, 0, [0], true, [2, 1]⟩, ⟨4, false, 1, 0, [3], false, []⟩, ⟨5, true, 1, 0, [4], false, []⟩,
    ⟨6, true, 1, 0, [5], false, []⟩, ⟨7, true, 1, 0, [4], true, [6, 5]⟩, ⟨8, true, 2, 1, [1, 7], false, []⟩,
    ⟨9, true, 2, 1, [0, 4], true, [8, 1, 7]⟩ ]
def f9 : Node := ⟨9, true, 2, 1, [0, 4], true, [8, 1, 7]⟩
end C14Ex

/-- the checker rejects the witness (it is outside the proven fragment) … -/
theorem C14_task_counterexample_check : fusedOK dagD60 f9 = false := by decide

/-- … and for partition 1 the fused task does not compute what the unfused member tasks compute
    (partition 0 is fine). -/
theorem C14_task_counterexample :
    fusedValue I1 dagD60 f9 1 ev1 40 ≠ run I1 (refGraph dagD60) (fun k => some (ev1 k)) 40 (FKey.part 8 1) ∧
    fusedValue I1 dagD60 f9 0 ev1 40 = run I1 (refGraph dagD60) (fun k => some (ev1 k)) 40 (FKey.part 8 0) := by
  decide

/-! ### 3. meta -/

/-- `Fused(group, …)` reports the partition count and dimensionality (`_meta`, `_divisions`) of
    `group[0]`, is a valid blockwise operation with the `Fused` broadcast rule, keeps the group as
    its members, and its dependencies are the members' operands outside the group. -/
theorem C14_meta (dag : Dag) (G : List Nat) :
    (fusedNode dag G).npart = npartOf dag (G.headD 0) ∧
    (fusedNode dag G).ndim = (match getNode dag (G.headD 0) with | some nd => nd.ndim | none => 0) ∧
    (fusedNode dag G).blockwise = true ∧ (fusedNode dag G).kall = true ∧
    (fusedNode dag G).members = G ∧ (fusedNode dag G).deps = groupDeps dag G :=
  ⟨rfl, rfl, rfl, rfl, rfl, rfl⟩

/-- … and that node is what the pass puts in place of `group[0]`. -/
theorem C14_meta_pass (ord : Nat → List Nat → List Nat) (dag : Dag) (root : Nat) (r : PassResult)
    (G : List Nat) (h : fusionPass ord dag root = some r) (hg : r.group = some G) :
    r.dag = substitute dag (G.headD 0) (fusedNode dag G).name ++ [fusedNode dag G] ∧
    r.root = (if root = G.headD 0 then (fusedNode dag G).name else root) := by
  obtain ⟨_, _, _, _, _, h1, h2⟩ := fusionPass_some ord dag root r G h hg
  exact ⟨h1, h2⟩

example : (fusedNode C14Ex.dag [4, 2, 3]).npart = 3 ∧ (fusedNode C14Ex.dag [4, 2, 3]).deps = [1, 0] := by decide


/-! ### 3b. substitution -/

/-- `nameRankedB` (Lemmas/FusionSubst.lean) is a decidable instance of "the plan is acyclic": operands
    and the first member of a `Fused` node have smaller names (the harness numbers plans in post-order). -/
theorem C14_ranked_check_sound (dag : Dag) (h : nameRankedB dag = true) : RankedBy dag id :=
  nameRankedB_sound dag h

/-- **Substitution.**  A successful pass returns the plan in which every operand `G[0]` has become
    the new `Fused G` node.  In the reference semantics (every blockwise node computes
    `Blockwise._task(i)`; a `Fused` node stands for its first member — which is what `C14_task` proves
    its task computes) every key `(x, i)` of every expression `x` of the old plan — consumers of the
    group, members, unrelated branches — keeps its value, and the key `(root', i)` of the new root has
    the value of the old root's `(root, i)`: consumers read the same partition number of the `Fused`
    node as they read of `G[0]` because `Fused` reports `G[0]`'s partition count and dimensionality
    (`_broadcast_dep` decides on those).  For every interpretation of the operations, all inputs
    `inp` (values of non-blockwise keys), every acyclic plan (`ρ` any rank), all sufficiently large fuels. -/
theorem C14_substitute (I : Interp) (ord : Nat → List Nat → List Nat) (hord : OrdOK ord) (dag : Dag)
    (root : Nat) (r : PassResult) (G : List Nat) (h : fusionPass ord dag root = some r)
    (hg : r.group = some G) (ρ : Nat → Nat) (hr : RankedBy dag ρ)
    (hmem : ∀ x nd, getNode dag x = some nd → ∀ m rs, nd.members = m :: rs → (getNode dag m).isSome = true)
    (hroot : (getNode dag root).isSome = true) (inp : FKey → Option V) :
    (∀ x i N N', x ≠ freshName dag → ρ x < N → 2 * ρ x + 2 ≤ N' →
        run I (refGraph r.dag) inp N' (.part x i) = run I (refGraph dag) inp N (.part x i)) ∧
    (∀ i N N', ρ root < N → 2 * ρ root + 3 ≤ N' →
        run I (refGraph r.dag) inp N' (.part r.root i) = run I (refGraph dag) inp N (.part root i)) := by
  obtain ⟨hok, _⟩ := fusionPass_groupOK ord hord dag root r G h hg
  obtain ⟨_, _, _, _, _, h1, h2⟩ := fusionPass_some ord dag root r G h hg
  have hmem' : ∀ x nd, getNode dag x = some nd → ∀ m rs, nd.members = m :: rs → m ≠ freshName dag := by
    intro x nd hx m rs hm hfr
    have := hmem x nd hx m rs hm
    rw [hfr, getNode_fresh] at this
    cases this
  have hf := fusedNode_for dag G hok.nonempty hmem'
  have hrootne : root ≠ (fusedNode dag G).name := by
    intro hh
    have : getNode dag root = none := by rw [hh]; exact getNode_fresh dag
    rw [this] at hroot; cases hroot
  rw [h1, h2]
  refine ⟨?_, ?_⟩
  · intro x i N N' hx hN hN'
    exact subst_value I dag (G.headD 0) (fusedNode dag G) hf ρ hr inp (ρ x) x rfl hx i N N' hN hN'
  · intro i N N' hN hN'
    exact subst_root_value I dag (G.headD 0) (fusedNode dag G) hf ρ hr inp root hrootne i N N' hN hN'

example : nameRankedB C14Ex.dag = true ∧ nameRankedB C14Ex.dag2 = true := by decide
/-- non-vacuity: the pass on `C14Ex.dag` fuses `[4, 2, 3]` into node 5 = the new root; the old root's
    partition 1 and the new root's partition 1 have the same (non-error) value. -/
example : (fusionPass ordId C14Ex.dag 4).map (fun r => (r.root, r.group)) = some (5, some [4, 2, 3]) := by decide
example : (fusionPass ordId C14Ex.dag 4).map (fun r => run I0 (refGraph r.dag) (fun _ => some (.frame [])) 12 (.part r.root 1))
    = some (run I0 (refGraph C14Ex.dag) (fun _ => some (.frame [])) 5 (.part 4 1)) := by decide
example : run I0 (refGraph C14Ex.dag) (fun _ => some (.frame [])) 5 (.part 4 1) = V.frame [⟨4, 2, 0⟩] := by decide

/-! ### 4. termination -/


/-- `planOKb` (FusionCheck.lean) is a decidable sufficient condition for `PlanOK`: the root is a node
    and operands have smaller names than their consumers (the harness numbers plans in post-order). -/
theorem C14_planok_check_sound (dag : Dag) (root : Nat) (h : planOKb dag root = true) : PlanOK dag root := by
  unfold planOKb at h
  simp only [Bool.and_eq_true, List.all_eq_true, decide_eq_true_eq] at h
  have htopo : ∀ x d, d ∈ depsOf dag x → d < x := by
    intro x d hd
    unfold depsOf at hd
    cases hg : getNode dag x with
    | none => simp [hg] at hd
    | some nd =>
      simp only [hg] at hd
      obtain ⟨hm, hn⟩ := getNode_mem hg
      exact hn ▸ h.2 nd hm d hd
  have hle : ∀ c, Reach dag root c → c ≤ root := by
    intro c hc
    induction hc with
    | root => exact Nat.le_refl _
    | step _ hd ih => have := htopo _ _ hd; omega
  refine ⟨h.1, ?_⟩
  intro c hc hin
  have := htopo _ _ hin
  have := hle c hc
  omega

/-- Each successful pass strictly decreases the number of valid blockwise expressions reachable
    from the plan's root (all members of the group become unreachable, one `Fused` appears), and the
    resulting plan is again well formed. -/
theorem C14_terminates (ord : Nat → List Nat → List Nat) (hord : OrdOK ord) (dag : Dag) (root : Nat)
    (hplan : PlanOK dag root) (r : PassResult) (G : List Nat)
    (h : fusionPass ord dag root = some r) (hg : r.group = some G) :
    Fusion.measure r.dag r.root < Fusion.measure dag root ∧ PlanOK r.dag r.root :=
  pass_decreases ord hord dag root hplan r G h hg

example : PlanOK C14Ex.dag 4 := C14_planok_check_sound _ _ (by decide)
example : Fusion.measure C14Ex.dag 4 = 3 := by decide
example : (fusionPass ordId C14Ex.dag 4).map (fun r => Fusion.measure r.dag r.root) = some 1 := by decide

/-- The outer `while True` of `optimize_blockwise_fusion` stops after at most `measure` successful
    passes: with that much fuel the model loop returns, unless an *inner* loop of some pass ran out
    of its own (generous) fuel — which the driver would report as `FUEL` in every correspondence run. -/
theorem C14_loop_terminates (ord : Nat → List Nat → List Nat) (hord : OrdOK ord) (fuel : Nat) (dag : Dag)
    (root n : Nat) (hplan : PlanOK dag root) (hfuel : Fusion.measure dag root < fuel)
    (hnone : fuseLoop ord fuel dag root n = none) : ∃ dag' root', fusionPass ord dag' root' = none :=
  fuseLoop_terminates ord hord fuel dag root n hplan hfuel hnone

example : (fuseLoop ordId 4 C14Ex.dag 4 0).map (fun r => r.2.2) = some 1 := by decide

/-- The operand walk of the first half of `_fusion_pass` never exhausts its fuel. -/
theorem C14_walk_total (dag : Dag) (root : Nat) : (globalMaps dag root).isSome = true :=
  globalMaps_total dag root

/-- **The whole of `optimize_blockwise_fusion`.**  Whatever the outer `while True` returns — after any
    number of passes — computes at its root, for every partition `i`, the value the original plan
    computes at its root (reference semantics; all sufficiently large fuels on both sides).  The
    invariants carried from pass to pass are proven, not assumed: the plan after a pass is again
    well formed (`PlanOK`), acyclic (a rank is constructed: `Fused G` ranks just above `G[0]` — no member
    outranks `G[0]` because every other member has a parent inside the group) and its `Fused` nodes
    name members of the plan. -/
theorem C14_loop_values (I : Interp) (ord : Nat → List Nat → List Nat) (hord : OrdOK ord)
    (inp : FKey → Option V) (fuel : Nat) (dag : Dag) (root n : Nat) (dag' : Dag) (root' n' : Nat)
    (h : fuseLoop ord fuel dag root n = some (dag', root', n'))
    (hplan : PlanOK dag root) (hrk : ∃ ρ, RankedBy dag ρ) (hmk : MembersKnown dag) (i : Nat) :
    ∃ B B', ∀ N N', B ≤ N → B' ≤ N' →
      run I (refGraph dag') inp N' (.part root' i) = run I (refGraph dag) inp N (.part root i) :=
  fuseLoop_values I ord hord inp fuel dag root n dag' root' n' h hplan hrk hmk i

/-- the decidable hypotheses the driver re-checks on every real plan imply those of `C14_loop_values` -/
theorem C14_loop_hyps_of_check (dag : Dag) (root : Nat) (h1 : planOKb dag root = true) (h2 : substOKb dag root = true) :
    PlanOK dag root ∧ (∃ ρ, RankedBy dag ρ) ∧ MembersKnown dag := by
  unfold substOKb at h2
  simp only [Bool.and_eq_true] at h2
  exact ⟨C14_planok_check_sound dag root h1, ⟨id, nameRankedB_sound dag h2.1.1⟩, membersKnownB_sound dag h2.1.2⟩

/-! non-vacuity: `C14Ex.dag` satisfies the checked hypotheses and the loop returns (root 5 after one successful pass) -/
example : planOKb C14Ex.dag 4 = true ∧ substOKb C14Ex.dag 4 = true := by decide
example : (fuseLoop ordId 4 C14Ex.dag 4 0).map (fun r => (r.2.1, r.2.2)) = some (5, 1) := by decide

end Dx
