/-
  Props/C06.lean — reported partition structure (npartitions, divisions, lengths) is truthful.

  `DivInv d n parts` (Lemmas/RepartitionDiv.lean): `d` sorted, `n + 1` entries, every row of partition `i`
  has its index label in `[d[i], d[i+1])` (last partition right-inclusive), rows of a partition sorted.
  For every modelled `_divisions()` + task pair:  DivInv d_in parts_in → DivInv (divisionsOf op d_in) (run op parts_in),
  and the number of emitted output partitions is `npartitions op`.

    C06_blockwise, C06_partitions(_unknown/_count), C06_head, C06_tail, C06_fusedio(_buckets/_counterexample),
    C06_repartition_fewer / _divisions (from C13), C06_concat, C06_merge_divisions, C06_fromarray, C06_frompandas
    C06_len_pushdown_table, C06_len_rowcount_*, C06_len_concat, C06_size(_counterexample), C06_len_frompandas,
    C06_len_parquet (full since D62/D63), C06_len_elemwise_partial(_counterexample)
-/
import DxModel.Lemmas.Divisions
import DxModel.Lemmas.FromArray
import DxModel.Lemmas.FusedIO
import DxModel.Lemmas.Head
import DxModel.Lemmas.HeadPush
import DxModel.Generated.LengthFlags
import DxModel.Props.C13
namespace Dx
open Parts Head Divs Repartition

/-! ### 1. Blockwise -/

/-- `Blockwise._divisions` returns the divisions of its (first non-broadcast) dependency.  Every output
    partition of a row-local or row-selecting operator carries a sub-sequence of the index labels of the
    corresponding input partition, hence the divisions stay truthful; the layer has `p.n` outputs. -/
theorem C06_blockwise (d : List Int) (n : Nat) (parts out : Nat → List Row) (hinv : DivInv d n parts)
    (hsub : ∀ i, i < n → ((out i).map (·.idx)).Sublist ((parts i).map (·.idx))) :
    DivInv d n out := divInv_of_idx_sublist hinv hsub

theorem C06_blockwise_count (p : Blockwise.Params) : (Blockwise.keys p).length = p.n := by
  simp [Blockwise.keys]

example : DivInv [0, 2, 4] 2 (fun i => if i = 0 then [⟨0, 0, 0⟩, ⟨1, 0, 1⟩] else if i = 1 then [⟨3, 0, 2⟩, ⟨4, 0, 3⟩] else []) := by
  refine ⟨rfl, by decide, ?_, ?_⟩
  · intro i lo hi hlo hhi r hr
    match i with
    | 0 => simp at hlo hhi hr; subst hlo hhi; rcases hr with rfl | rfl <;> decide
    | 1 => simp at hlo hhi hr; subst hlo hhi; rcases hr with rfl | rfl <;> decide
    | i+2 => simp at hhi
  · intro i hi
    match i with
    | 0 => decide
    | 1 => decide
    | i+2 => omega

/-! ### 2. Partitions / PartitionsFiltered -/

/-- strictly ascending selections (any gaps): truthful -/
theorem C06_partitions (full : List Int) (n : Nat) (parts : Nat → List Row) (P : List Nat)
    (hinv : DivInv full n parts) (hs : strictAsc P = true) (hne : P ≠ []) (hP : ∀ p ∈ P, p < n) :
    ∃ d', selDivisions full P = .ok (some d') ∧ DivInv d' P.length (sel P parts) := by
  obtain ⟨d', hd⟩ := selDivisions_ok full P n hinv.len hs hne hP
  exact ⟨d', hd, divInv_sel full n parts P d' hinv hP hd⟩

/-- every other selection reports unknown divisions (D12) — which claims nothing -/
theorem C06_partitions_unknown (full : List Int) (P : List Nat) (h : strictAsc P = false) :
    selDivisions full P = .ok none := selDivisions_unknown full P h

/-- the layer has one output per selected index, repeats included -/
theorem C06_partitions_count (P : List Nat) : (outKeys P).length = P.length := by simp [outKeys]

example : strictAsc [1, 3] = true ∧ strictAsc [1, 1] = false ∧ strictAsc [3, 1] = false := by decide

/-! ### 3. Head, Tail -/

/-- `Head._divisions = (d[0], d[k])` (`k` leading partitions, `1 ≤ k ≤ np`; `k = np` for `npartitions = -1`)
    bounds the `n` leading rows of the `k` leading partitions; one output partition. -/
theorem C06_head (d : List Int) (np : Nat) (parts : Nat → List Row) (k n : Nat) (hinv : DivInv d np parts)
    (hk : k ≤ np) :
    ∃ lo hi, headDivisions d (k : Int) = (if k = 0 then some [lo, lo] else some [lo, hi]) ∧
      (1 ≤ k → DivInv [lo, hi] 1 (fun _ => ((List.range k).flatMap parts).take n)) := by
  have hlen := hinv.len
  have h0 : 0 < d.length := by omega
  have hkl : k < d.length := by omega
  refine ⟨d[0], d[k], ?_, ?_⟩
  · have hnn : ¬ ((k : Int) ≤ -1) := by omega
    simp only [headDivisions, List.getElem?_eq_getElem h0, hnn, if_false, Int.toNat_natCast,
      List.getElem?_eq_getElem hkl]
    by_cases hk0 : k = 0
    · subst hk0; simp
    · simp [hk0]
  · intro _
    exact divInv_head d np parts k n d[0] d[k] hinv hk (List.getElem?_eq_getElem h0) (List.getElem?_eq_getElem hkl)

/-- `npartitions = -1`: `(d[0], d[-1])` -/
theorem C06_head_all (d : List Int) (np : Nat) (parts : Nat → List Row) (n : Nat) (hinv : DivInv d np parts) :
    ∃ lo hi, headDivisions d (-1) = some [lo, hi] ∧
      DivInv [lo, hi] 1 (fun _ => ((List.range np).flatMap parts).take n) := by
  have hlen := hinv.len
  have h0 : 0 < d.length := by omega
  have hl : d.getLast? = some d[np] := by
    rw [List.getLast?_eq_getElem?]
    have : d.length - 1 = np := by omega
    rw [this]; exact List.getElem?_eq_getElem (by omega)
  refine ⟨d[0], d[np], by simp [headDivisions, List.getElem?_eq_getElem h0, hl], ?_⟩
  exact divInv_head d np parts np n d[0] d[np] hinv (Nat.le_refl _) (List.getElem?_eq_getElem h0)
    (List.getElem?_eq_getElem (by omega))

/-- `Tail._divisions = d[-2:]` bounds the last `n` rows of the last partition. -/
theorem C06_tail (d : List Int) (np : Nat) (parts : Nat → List Row) (n : Nat) (hinv : DivInv d np parts) (hnp : 1 ≤ np) :
    DivInv (tailDivisions d) 1 (fun _ => lastN n (parts (np - 1))) :=
  divInv_tail d np parts n hinv hnp

example : headDivisions [0, 10, 20, 30] 2 = some [0, 20] ∧ headDivisions [0, 10, 20, 30] (-1) = some [0, 30] ∧
    tailDivisions [0, 10, 20, 30] = [20, 30] := by decide

/-! ### 4. FusedIO -/

/-- `_fusion_buckets` is an ordered partition of `_partitions` (any selection, any step ≥ 1). -/
theorem C06_fusedio_buckets (P : List Nat) (step : Nat) (hs : 1 ≤ step) :
    (buckets P step).flatten = P ∧ (buckets P step).length = nChunks P.length step :=
  ⟨buckets_flatten P step hs, buckets_length P step⟩

/-- **FusedIO** (`_fusion_buckets`, `_divisions` as fixed by D5, `_task`): for a strictly ascending `_partitions`
    (any gaps) and every bucket size, the reported divisions — first division of every bucket + the division AFTER
    the last bucket — are truthful for the concatenated buckets, and there is one output per bucket. -/
theorem C06_fusedio (full : List Int) (n : Nat) (parts : Nat → List Row) (P : List Nat) (step : Nat)
    (hinv : DivInv full n parts) (hs : strictAsc P = true) (hne : P ≠ []) (hP : ∀ p ∈ P, p < n) (hstep : 1 ≤ step) :
    ∃ d, fusedDivisions full P step = some d ∧
      DivInv d (buckets P step).length (fusedRows P step parts) := by
  obtain ⟨d', hd', hinv'⟩ := C06_partitions full n parts P hinv hs hne hP
  have hPpos : 1 ≤ P.length := List.length_pos_iff.mpr hne
  have ⟨hb, hm⟩ := bucketBounds_ok P.length step hstep hPpos
  obtain ⟨d'', hd'', hinv''⟩ := fewer_divisions_truthful d' (bucketBounds P.length step) P.length (sel P parts) hb hm hinv'
  have hbl : (bucketBounds P.length step).length - 1 = (buckets P step).length := by
    simp [bucketBounds, pyRange_length, buckets_length]
  refine ⟨d'', fusedDivisions_eq_fewer full P step hstep n hinv.len hP hne d' d'' hd' hd'', ?_⟩
  rw [← hbl]
  apply divInv_congr (p := fewerSem (bucketBounds P.length step) (sel P parts)) _ hinv''
  intro j hj
  rw [hbl, buckets_length] at hj
  exact fusedRows_eq_fewerSem P step hstep parts j hj

-- the transliterated `_fusion_buckets` / `_divisions` / `_task` coincide with that reading on an instance …
example : buckets [1, 3, 4, 6, 7] 2 = [[1, 3], [4, 6], [7]] ∧ bucketBounds 5 2 = [0, 2, 4, 5] ∧
    fusedDivisions [0, 10, 20, 30, 40, 50, 60, 70, 80] [1, 3, 4, 6, 7] 2 = some [10, 40, 70, 80] ∧
    fewerDivisions [10, 30, 40, 60, 70, 80] [0, 2, 4, 5] = some [10, 40, 70, 80] := by decide
example : boundariesOK (bucketBounds 5 2) 5 = true ∧ strictMono (bucketBounds 5 2) = true := by decide

/-- **FusedIO, every selection** (full since D71): the guarded `_divisions` either reports unknown divisions — exactly
    for reordered or repeated selections — or the truthful bucket bounds of `C06_fusedio`. -/
theorem C06_fusedio_guarded (full : List Int) (n : Nat) (parts : Nat → List Row) (P : List Nat) (step : Nat)
    (hinv : DivInv full n parts) (hne : P ≠ []) (hP : ∀ p ∈ P, p < n) (hstep : 1 ≤ step) :
    (strictAsc P = false → fusedDivisionsGuarded full P step = some none) ∧
    (strictAsc P = true → ∃ d, fusedDivisionsGuarded full P step = some (some d) ∧
      DivInv d (buckets P step).length (fusedRows P step parts)) := by
  constructor
  · intro h; simp [fusedDivisionsGuarded, h]
  · intro h
    obtain ⟨d, hd, hinv'⟩ := C06_fusedio full n parts P step hinv h hne hP hstep
    exact ⟨d, by simp [fusedDivisionsGuarded, h, hd], hinv'⟩

/-- the witness of the former finding D71: the reordered selection `[5, 2, 3, 0]` now reports unknown divisions, like
    `PartitionsFiltered.divisions` of the same source (the unguarded formula gave the unsorted `(125, 115, 105)`) -/
example :
    fusedDivisionsGuarded [100, 105, 110, 115, 120, 125, 130, 135, 140] [5, 2, 3, 0] 2 = some none ∧
    fusedDivisions [100, 105, 110, 115, 120, 125, 130, 135, 140] [5, 2, 3, 0] 2 = some [125, 115, 105] ∧
    selDivisions [100, 105, 110, 115, 120, 125, 130, 135, 140] [5, 2, 3, 0] = .ok none := ⟨by decide, by decide, rfl⟩

/-! ### 5. Repartition (from C13) -/

theorem C06_repartition_fewer (din : List Int) (bs : List Nat) (nin : Nat) (parts : Nat → List Row)
    (hb : boundariesOK bs nin = true) (hs : strictMono bs = true) (hinv : DivInv din nin parts) :
    ∃ d, fewerDivisions din bs = some d ∧ DivInv d (bs.length - 1) (fewerSem bs parts) ∧
      (fewerKeys bs).length = bs.length - 1 :=
  have ⟨d, h1, h2⟩ := C13_fewer_divisions_truthful din bs nin parts hb hs hinv
  ⟨d, h1, h2, by simp [fewerKeys]⟩

/-- RepartitionDivisions: every plan accepted by the proven validator yields outputs satisfying the NEW divisions. -/
theorem C06_repartition_divisions (a b : List Int) (plan : Plan) (n : Nat) (parts : Nat → List Row)
    (hok : planOK a b plan = true) (hinv : DivInv a n parts) : DivInv b plan.length (runPlan plan parts) :=
  (C13_div_validator a b plan n parts hok hinv).2

/-- RepartitionToMore keeps the partition count it reports: `sum nsplits = nout` outputs. -/
theorem C06_repartition_more_count (nout nin : Nat) (h1 : 1 ≤ nin) (h2 : nin ≤ nout) :
    ∃ ns, nsplits nout nin = .ok ns ∧ Repartition.sum ns = nout := by
  obtain ⟨ns, h, _, _, hs⟩ := C13_more_nsplits nout nin h1 h2
  exact ⟨ns, h, hs⟩

/-! ### 6. Concat, indexed Merge -/

/-- **Concat._divisions**, monotonic case (`dfs[i].divisions[-1] < dfs[i+1].divisions[0]`), two frames
    (n frames by iteration): truthful for the stacked partitions; `n₁ + n₂` partitions. -/
theorem C06_concat (d₁ d₂ : List Int) (n₁ n₂ : Nat) (p₁ p₂ : Nat → List Row)
    (h₁ : DivInv d₁ n₁ p₁) (h₂ : DivInv d₂ n₂ p₂) (hmono : monotonic [d₁, d₂] = true) :
    concatDivisions [d₁, d₂] false = some (d₁.dropLast ++ d₂) ∧
    DivInv (d₁.dropLast ++ d₂) (n₁ + n₂) (stackParts n₁ p₁ p₂) := by
  refine ⟨by simp [concatDivisions, hmono, stackDivisions], ?_⟩
  simp only [monotonic, Bool.and_true] at hmono
  cases hx : d₁.getLast? with
  | none => simp [hx] at hmono
  | some x =>
    cases hy : d₂.head? with
    | none => simp [hx, hy] at hmono
    | some y =>
      simp only [hx, hy, decide_eq_true_eq] at hmono
      exact divInv_stack d₁ d₂ n₁ n₂ p₁ p₂ x y h₁ h₂ hx hy hmono

example : concatDivisions [[0, 5, 9], [10, 12]] false = some [0, 5, 10, 12] ∧
    concatDivisions [[0, 5, 9], [3, 12]] false = none ∧
    concatDivisions [[0, 5, 9], [3, 12]] true = some [0, 3, 5, 9, 12] := by
  simp [concatDivisions, monotonic, stackDivisions, fixSingle, mergeUniqueAll, mergeAll, merge2, uniq]

/-- **indexed Merge / interleaved Concat**: what `unique(merge_sorted(left.divisions, right.divisions))` claims —
    a strictly increasing vector that contains exactly the entries of the inputs (so it starts at the smallest
    and ends at the largest division, the coverage precondition of the repartition both sides then undergo;
    truthfulness of the re-divided sides is `C06_repartition_divisions`). -/
theorem C06_merge_divisions (ds : List (List Int)) (h : ∀ d ∈ ds, d.Pairwise (· ≤ ·)) :
    (mergeUniqueAll ds).Pairwise (· < ·) ∧ ∀ v, v ∈ mergeUniqueAll ds ↔ ∃ d ∈ ds, v ∈ d :=
  mergeUniqueAll_spec ds h

example : mergeUniqueAll [[0, 4, 8], [2, 4, 10]] = [0, 2, 4, 8, 10] := by
  simp [mergeUniqueAll, mergeAll, merge2, uniq]

/-! ### 7. sources -/

theorem C06_fromarray (len cs : Nat) (hcs : 1 ≤ cs) (hlen : 1 ≤ len) :
    DivInv (faDivisions len cs) (nChunks len cs) (fun i => (faRows len cs i).getD []) ∧
    (faDivisions len cs).length = nChunks len cs + 1 :=
  ⟨faDivInv len cs hcs hlen, faDivisions_length len cs⟩

/-- **FromPandas**: for any `(divisions, locations)` pair passing the executable check `locsOK` (run on the real
    output of `sorted_division_locations` for every enumerated frame), the divisions are truthful for the
    partitions `frame.iloc[locations[i] : locations[i+1]]`, and there are `len(locations) - 1` of them. -/
theorem C06_frompandas (rows : List Row) (divs : List Int) (locs : List Nat)
    (h : locsOK (rows.map (·.idx)) divs locs = true) :
    DivInv divs (locs.length - 1) (fpRows rows locs) := divInv_frompandas rows divs locs h

example : locsOK [0, 0, 1, 1, 1, 2] [0, 1, 2] [0, 2, 6] = true := by decide
example : locsOK [0, 0, 1, 1, 1, 2] [0, 1, 2] [0, 3, 6] = false := by decide   -- a cut inside the run of 1s

/-! ### 8. row counts obtained from metadata -/

/-- **the flag table**: every live class flagged `_is_length_preserving` is in a row-count-preserving category -/
theorem C06_len_pushdown_table :
    (Generated.lengthFlags.all (fun e => !e.flag || rowCountPreserving e.cat)) = true := by decide +kernel

/-- … and each category preserves the row count:  row-local (every partition keeps its length) -/
theorem C06_len_rowcount_rowlocal (n : Nat) (p q : Nat → List Row) (h : ∀ i, i < n → (q i).length = (p i).length) :
    totalLen n q = totalLen n p := totalLen_congr n p q h

/-- reorder (the outputs together are a permutation of the inputs, any partition counts) -/
theorem C06_len_rowcount_reorder (n m : Nat) (p q : Nat → List Row)
    (h : ((List.range m).flatMap q).Perm ((List.range n).flatMap p)) : totalLen m q = totalLen n p :=
  h.length_eq

/-- partition-only (the concatenation is unchanged) -/
theorem C06_len_rowcount_partition_only (n m : Nat) (p q : Nat → List Row)
    (h : (List.range m).flatMap q = (List.range n).flatMap p) : totalLen m q = totalLen n p := by
  unfold totalLen; rw [h]

/-- `Len(Concat(a, b)) = Len(a) + Len(b)` -/
theorem C06_len_concat (n₁ n₂ : Nat) (p₁ p₂ : Nat → List Row) :
    totalLen (n₁ + n₂) (stackParts n₁ p₁ p₂) = totalLen n₁ p₁ + totalLen n₂ p₂ := totalLen_stack n₁ n₂ p₁ p₂

/-- `Size._simplify_down` (full since D75): `ncols * Len` for frames, `Len` for series — the number of cells
    `ncols * rows`, also for a frame without columns. -/
theorem C06_size (isFrame : Bool) (ncols rows : Nat) (hs : isFrame = false → ncols = 1) :
    (sizeRule isFrame ncols).1 * rows = ncols * rows := by
  unfold sizeRule
  cases isFrame with
  | true =>
    by_cases h1 : ncols = 1
    · subst h1; simp
    · simp [h1]
  | false => have := hs rfl; subst this; simp

example : (sizeRule true 0).1 * 6 = 0 ∧ (sizeRule true 3).1 * 6 = 18 ∧ (sizeRule false 1).1 * 6 = 6 := by decide

/-- `Len` does not look through a node that computes a selection of its partitions (D108) -/
theorem C06_len_selected_frame_kept (cls : String) (lp childlp : Bool) (deps : List Nat) (c0 : Bool) (ndim ncols : Nat)
    (a : LenAction) (h : lenRule cls lp childlp deps c0 ndim ncols true true = a) :
    a ≠ .childOfIndex ∧ ∀ i, a ≠ .dep i := by
  subst h
  unfold lenRule
  constructor
  · simp only [not_true_eq_false, and_false, if_false]
    split <;> (try split) <;> (try split) <;> simp
  · intro i
    simp only [not_true_eq_false, and_false, if_false]
    split <;> (try split) <;> (try split) <;> simp

/-- **FromPandas._get_lengths** (full since D62): unfiltered — the partition sizes; filtered by ANY valid
    `_partitions` (any order, repeats) — the sizes of the selected partitions, in the order of the selection. -/
theorem C06_len_frompandas (locs : List Nat) (P : List Nat) (hP : ∀ p ∈ P, p < locs.length - 1) :
    fpLengths locs none = some (fpTrueLengths locs none) ∧
    fpLengths locs (some P) = some (fpTrueLengths locs (some P)) := by
  refine ⟨by simp [fpLengths, fpTrueLengths, allLengths], ?_⟩
  simp only [fpLengths, fpTrueLengths]
  rw [pick_valid (allLengths locs) P (by simpa [allLengths] using hP)]
  congr 1
  apply List.map_congr_left
  intro p hp
  have := hP p hp
  simp [allLengths, this]

example : fpLengths [0, 4, 7, 10] (some [0, 0]) = some [4, 4] ∧ fpLengths [0, 4, 7, 10] (some [2, 0]) = some [3, 4] ∧
    fpLengths [0, 4, 7, 10] (some [3]) = none := by decide

/-- **parquet `_get_lengths`** (full since D63), both readers: for ANY valid `_partitions` the lengths of the
    selected partitions in the order of the selection (the statistics are taken as given). -/
theorem C06_len_parquet (stats : List Nat) (P : List Nat) (hP : ∀ p ∈ P, p < stats.length) :
    pqLengths stats (some P) = some (trueLengths stats (some P)) ∧
    pqLengthsArrow stats (some P) = some (trueLengths stats (some P)) ∧
    pqLengths stats none = some stats ∧ pqLengthsArrow stats none = some stats :=
  ⟨pqLengths_valid stats P hP, by simp [pqLengthsArrow, trueLengths, pick_valid stats P hP], rfl, rfl⟩

example : pqLengths [3, 4, 3, 3, 4, 3] (some [1, 2]) = some [4, 3] ∧ pqLengths [3, 4, 3, 3, 4, 3] (some [5, 0, 0]) = some [3, 3, 3] ∧
    pqLengthsArrow [3, 4, 3, 3, 4, 3] (some [2, 1]) = some [3, 4] := by decide

/-
  FULL STATEMENT (false for the code as it is): `Len(op(args)) = Len(child)` for the child
  `max(op.dependencies(), key=npartitions)` of every length-preserving `op`.
-/
/-- proven: the child the rule picks is the FIRST dependency with the most partitions; the rewrite is sound when
    that dependency is row-aligned with the result (same number of rows in every partition). -/
theorem C06_len_elemwise_partial (deps : List Nat) (i : Nat) (h : argmaxFirst deps = some i) :
    i < deps.length ∧ (∀ j, j < deps.length → deps.getD j 0 ≤ deps.getD i 0) ∧ (∀ j, j < i → deps.getD j 0 < deps.getD i 0) := by
  induction deps generalizing i with
  | nil => simp [argmaxFirst] at h
  | cons x t ih =>
    unfold argmaxFirst at h
    simp only [List.getD_eq_getElem?_getD] at *
    cases ht : argmaxFirst t with
    | none =>
      simp only [ht, Option.some.injEq] at h
      subst h
      have htn : t = [] := by
        cases t with
        | nil => rfl
        | cons y t' => unfold argmaxFirst at ht; cases h' : argmaxFirst t' <;> simp [h'] at ht; split at ht <;> cases ht
      subst htn
      refine ⟨by simp, fun j hj => by simp at hj; subst hj; simp, fun j hj => by omega⟩
    | some k =>
      have ⟨hk, hmax, hfirst⟩ := ih k ht
      simp only [ht] at h
      by_cases hgt : t[k]?.getD 0 > x
      · simp only [hgt, if_true, Option.some.injEq] at h
        subst h
        refine ⟨by simp; omega, ?_, ?_⟩
        · intro j hj
          cases j with
          | zero => simp; omega
          | succ j => simp at hj ⊢; exact hmax j hj
        · intro j hj
          cases j with
          | zero => simp; omega
          | succ j => simp at hj ⊢; exact hfirst j (by omega)
      · simp only [hgt, if_false, Option.some.injEq] at h
        subst h
        refine ⟨by simp, ?_, fun j hj => by omega⟩
        intro j hj
        cases j with
        | zero => simp
        | succ j =>
          simp at hj ⊢
          have := hmax j hj
          omega

/-- (findings) (a) all operands of a single-partition frame tie: `len(s.max() - s)` picks the scalar
    (`Len` of a scalar raises); (b) for `x[x.a > 4] + y[y.v < 9]` the rule answers `Len` of the first filtered
    operand although the sum has the union of both index sets. -/
theorem C06_len_elemwise_counterexample :
    lenRule "other" true false [1, 1] false 1 0 = .dep 0 ∧ lenRule "other" true false [3, 3] false 1 0 = .dep 0 := by decide

end Dx
