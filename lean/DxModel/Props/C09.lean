/-
  Props/C09.lean — task graphs are closed, acyclic, unambiguous.
  (i)   generic: a plan whose layers are all `LayerOK` merges into a closed, ranked (acyclic) graph in
        which every reported output key is defined — for plans of any size and shape;
  (ii)  the executable checker run on every *real* graph (T3) is sound;
  (iii) `Closed`/`Ranked` of every modelled layer generator, for all parameters.
  Unambiguity is structural in the model (global keys are (owner, local key)); that real keys embed the
  owner's name is what the exact graph-equality ties (owner tag `@self`) and the per-layer overlap
  check of the harness establish on the code.
-/
import DxModel.Plan
import DxModel.GraphCheck
import DxModel.Lemmas.ShuffleWF
namespace Dx
open Shuffle

theorem C09_merge_closed {κ} [Inhabited κ] (P : Plan κ) (hP : PlanOK P) :
    Closed (merged P) (fun _ => none) := merged_closed P hP

theorem C09_merge_acyclic {κ} [Inhabited κ] (P : Plan κ) (hP : PlanOK P) :
    Ranked (merged P) (globalRank P) := merged_ranked P hP

theorem C09_merge_outputs {κ} [Inhabited κ] (P : Plan κ) (hP : PlanOK P) (n : Nat) (N : PNode κ)
    (hN : P[n]? = some N) (i : Nat) (hi : i < N.layer.nout) :
    (merged P (n, N.layer.out i)).isSome := merged_outputs P hP n N hN i hi

/-- With `C09_merge_acyclic`, the value of every key of a well-formed plan is independent of the fuel
    once it exceeds the key's rank: the graph *defines* a value for every key. -/
theorem C09_merge_values_defined {κ} [Inhabited κ] (I : Interp) (P : Plan κ) (hP : PlanOK P)
    (gk : Nat × κ) (m : Nat) (hm : globalRank P gk < m) :
    run I (merged P) (fun _ => none) m gk = run I (merged P) (fun _ => none) (globalRank P gk + 1) gk :=
  run_stable I (merged P) (fun _ => none) (globalRank P) (merged_ranked P hP) (globalRank P gk + 1) gk
    (by omega) m (by omega)

/-- Soundness of the checker that the harness runs on the real `__dask_graph__()` dicts. -/
theorem C09_checker_sound {κ} [DecidableEq κ] (l : List (κ × List κ)) (h : checkOrder l [] = true) :
    (l.map Prod.fst).Nodup ∧
    (∀ (i : Nat) (hi : i < l.length), ∀ r ∈ (l[i]).2,
        ∃ (j : Nat) (hj : j < l.length), j < i ∧ (l[j]).1 = r) := checkOrder_sound l h

/-! Modelled layer generators: closed and ranked for all parameters. -/

theorem C09_layer_simpleshuffle (p : Params) (rows : Nat → List Row) :
    Closed (simpleTask p) (inputs rows) ∧ Ranked (simpleTask p) simpleRank :=
  ⟨simple_closed p rows, simple_ranked p⟩

theorem C09_layer_diskshuffle (p : Params) (rows : Nat → List Row) :
    Closed (diskTask p) (inputs rows) ∧ Ranked (diskTask p) diskRank :=
  ⟨disk_closed p rows, disk_ranked p⟩

theorem C09_layer_taskshuffle_staged (p : Params) (rows : Nat → List Row)
    (harith : stageArithOK p.nin p.stages p.nsplits = true) (hnin : 0 < p.nin) :
    Closed (stagedTask p) (inputs rows) ∧ Ranked (stagedTask p) (stagedRank p) :=
  ⟨staged_closed p rows harith hnin, staged_ranked p⟩

/-! non-vacuity: a two-node plan (a source with two partitions, a consumer aliasing both) is `PlanOK` -/
namespace C09Example
def src : PNode Nat :=
  { layer := { task := fun k => if k < 2 then some (.const []) else none, nout := 2, out := id,
               rank := fun _ => 0, bound := 0 }, deps := [] }
def cons : PNode Nat :=
  { layer := { task := fun k => if k < 2 then some (.alias (.dep 0 k)) else none, nout := 2, out := id,
               rank := fun _ => 0, bound := 0 }, deps := [0] }
def plan : Plan Nat := [src, cons]

example : (merged plan (1, 1)).isSome = true := by decide
example : checkOrder [((0 : Nat), []), (1, [0]), (2, [0, 1])] [] = true := by decide
end C09Example

end Dx
