/-
  Props/C09.lean — task graphs are closed, acyclic, unambiguous.
  (i)   generic: a plan whose layers are all `LayerOK` merges into a closed, ranked (acyclic) graph in
        which every reported output key is defined — for plans of any size and shape;
  (ii)  the executable checker run on every *real* graph (T3) is sound;
  (iii) `LayerWF` (LayerOK.lean: closed relative to the dependencies' output partitions, ranked, defines exactly
        the output keys `(name, i)`, `i < npartitions`, and no key of another expression) of every modelled layer
        generator, for all parameters — `C09_layer_*`; `C09_plan_of_models` connects (iii) to (i);
  (iv)  the coverage table: every live class of /repo that builds graph structure itself is covered by one of the
        theorems of (iii) or is listed in `knownUnmodelled` (`C09_layer_classes_covered`, over the GENERATED
        table), and the source of every covered class is the one the model was validated against
        (`C09_layer_sources_unchanged`).
  Unambiguity is structural in the model (global keys are (owner, local key)); that real keys embed the
  owner's name is what the exact graph-equality ties (owner tag `@self`) and the per-layer overlap
  check of the harness establish on the code.
-/
import DxModel.Plan
import DxModel.GraphCheck
import DxModel.Lemmas.ShuffleWF
import DxModel.LayerOK
import DxModel.LayerHashes
import DxModel.Lemmas.LayerFlat
import DxModel.Lemmas.LayerModels
import DxModel.Lemmas.LayerRepartition
import DxModel.Lemmas.LayerBoundary
import DxModel.Lemmas.LayerMergeTree
import DxModel.Lemmas.LayerMergeAsof
import DxModel.Generated.LayerClasses
namespace Dx
open Shuffle

theorem C09_merge_closed {κ} [Inhabited κ] (P : Plan κ) (hP : PlanOK P) :
    Closed (merged P) (fun _ => none) := merged_closed P hP

theorem C09_merge_acyclic {κ} [Inhabited κ] (P : Plan κ) (hP : PlanOK P) :
    Ranked (merged P) (globalRank P) := merged_ranked P hP

theorem C09_merge_outputs {κ} [Inhabited κ] (P : Plan κ) (hP : PlanOK P) (n : Nat) (N : PNode κ)
    (hN : P[n]? = some N) (i : Nat) (hi : i < N.layer.nout) :
    (merged P (n, N.layer.out i)).isSome := merged_outputs P hP n N hN i hi

/-- With `C09_merge_acyclic`, the value of every key of a well-formed plan is independent of the fuel
    once it exceeds the key's rank: the graph *defines* a value for every key. -/
theorem C09_merge_values_defined {κ} [Inhabited κ] (I : Interp) (P : Plan κ) (hP : PlanOK P)
    (gk : Nat × κ) (m : Nat) (hm : globalRank P gk < m) :
    run I (merged P) (fun _ => none) m gk = run I (merged P) (fun _ => none) (globalRank P gk + 1) gk :=
  run_stable I (merged P) (fun _ => none) (globalRank P) (merged_ranked P hP) (globalRank P gk + 1) gk
    (by omega) m (by omega)

/-- Soundness of the checker that the harness runs on the real `__dask_graph__()` dicts. -/
theorem C09_checker_sound {κ} [DecidableEq κ] (l : List (κ × List κ)) (h : checkOrder l [] = true) :
    (l.map Prod.fst).Nodup ∧
    (∀ (i : Nat) (hi : i < l.length), ∀ r ∈ (l[i]).2,
        ∃ (j : Nat) (hj : j < l.length), j < i ∧ (l[j]).1 = r) := checkOrder_sound l h

/-! Modelled layer generators: closed and ranked for all parameters. -/

theorem C09_layer_simpleshuffle (p : Params) (rows : Nat → List Row) :
    Closed (simpleTask p) (inputs rows) ∧ Ranked (simpleTask p) simpleRank :=
  ⟨simple_closed p rows, simple_ranked p⟩

theorem C09_layer_diskshuffle (p : Params) (rows : Nat → List Row) :
    Closed (diskTask p) (inputs rows) ∧ Ranked (diskTask p) diskRank :=
  ⟨disk_closed p rows, disk_ranked p⟩

theorem C09_layer_taskshuffle_staged (p : Params) (rows : Nat → List Row)
    (harith : stageArithOK p.nin p.stages p.nsplits = true) (hnin : 0 < p.nin) :
    Closed (stagedTask p) (inputs rows) ∧ Ranked (stagedTask p) (stagedRank p) :=
  ⟨staged_closed p rows harith hnin, staged_ranked p⟩

/-! ## (iii) `LayerWF` of every modelled generator -/

/-- **from layer models to the merged graph**: a plan whose nodes are layer models, each well formed for the
    partition counts of the nodes it depends on, merges into a closed, acyclic graph defining every output key. -/
theorem C09_plan_of_models {κ} [Inhabited κ] (nodes : List (MNode κ)) (h : ModelPlanOK nodes) :
    Closed (merged (nodes.map MNode.toPNode)) (fun _ => none) ∧
    Ranked (merged (nodes.map MNode.toPNode)) (globalRank (nodes.map MNode.toPNode)) ∧
    (∀ (n : Nat) (N : MNode κ), nodes[n]? = some N → ∀ i, i < N.spec.nout →
        (merged (nodes.map MNode.toPNode) (n, N.spec.out i)).isSome) := by
  have hP := modelPlan_planOK nodes h
  refine ⟨merged_closed _ hP, merged_ranked _ hP, ?_⟩
  intro n N hN i hi
  exact merged_outputs _ hP n N.toPNode (by rw [List.getElem?_map, hN]; rfl) i hi

/-- a well-formed layer model is closed over the outputs of its dependencies and acyclic (the form of Graph.lean) -/
theorem C09_layer_wf_closed_ranked {κ} (L : LSpec κ) (depN : List Nat) (h : LayerWF L depN) (vals : Nat → Nat → V) :
    Closed L.task (L.extInputs depN vals) ∧ Ranked L.task L.rank := h.closed_ranked vals

/-- flat layers (one task per output, reading dependency partitions only): in-bounds references suffice;
    the dict listing is exactly the domain of the layer -/
theorem C09_layer_flat (ents : List Flat.Ent) (depN : List Nat) (h : Flat.refsOKb ents depN = true) :
    LayerWF (Flat.spec ents) depN ∧ Listed (Flat.spec ents) (Flat.keys ents) :=
  ⟨Flat.flat_wf ents depN (Flat.refsOKb_sound ents depN h), Flat.flat_listed ents⟩

/-- StackPartition: for ALL partition counts and ALL outcomes of the per-frame meta check — no hypothesis;
    `npartitions = sum of the inputs'` outputs -/
theorem C09_layer_stackpartition (nps : List Nat) (mat : List Bool) :
    LayerWF (Flat.spec (Flat.stackEnts nps mat)) nps ∧ (Flat.spec (Flat.stackEnts nps mat)).nout = Flat.total nps :=
  ⟨Flat.flat_wf _ _ (Flat.stack_refsOK nps mat), Flat.stack_length nps mat⟩

/-- StackPartitionInterleaved: well formed iff no input has fewer partitions than the first
    (they are all `Repartition(df, new_divisions=divs, force=True)` of ONE `divs`) -/
theorem C09_layer_stackpartition_interleaved (nps : List Nat) (h : ∀ nd ∈ nps, nps.headD 0 ≤ nd) :
    LayerWF (Flat.spec (Flat.interleavedEnts nps)) nps :=
  Flat.flat_wf _ _ (Flat.interleaved_refsOK nps h)

theorem C09_layer_stackpartition_interleaved_counterexample :
    ¬ Flat.RefsOK (Flat.interleavedEnts [2, 1]) [2, 1] := by
  intro h
  have := h (Flat.Ent.fn 1 [(0, 1), (1, 1)]) (by decide) (1, 1) (by decide)
  obtain ⟨nd, h1, h2⟩ := this
  simp at h1; omega

theorem C09_layer_partitions (P : List Nat) (n : Nat) (h : ∀ p ∈ P, p < n) :
    LayerWF (Flat.spec (Flat.partitionsEnts P)) [n] := Flat.flat_wf _ _ (Flat.partitions_refsOK P n h)

/-- PartitionsFiltered sources whose `_filtered_task` refers to no key (FromPandas, FromArray, FromMap, ReadCSV,
    ReadParquet*, Timeseries, Literal): any selection `_partitions`, any dependencies -/
theorem C09_layer_filtered_source (P : List Nat) (depN : List Nat) :
    LayerWF (Flat.spec (Flat.filteredEnts P)) depN ∧ (Flat.spec (Flat.filteredEnts P)).nout = P.length :=
  ⟨Flat.flat_wf _ _ (Flat.filtered_refsOK P depN), by simp [Flat.spec, Flat.filteredEnts]⟩

theorem C09_layer_fusedio (P : List Nat) (step : Nat) (depN : List Nat) :
    LayerWF (Flat.spec (Flat.fusedEnts P step)) depN := Flat.flat_wf _ _ (Flat.fused_refsOK P step depN)

theorem C09_layer_fromdelayed (P : List Nat) (ndfs : Nat) (h : ∀ p ∈ P, p < ndfs) :
    LayerWF (Flat.spec (Flat.fromDelayedEnts P)) (List.replicate ndfs 1) :=
  Flat.flat_wf _ _ (Flat.fromDelayed_refsOK P ndfs h)

theorem C09_layer_toparquet_barrier (n : Nat) : LayerWF (Flat.spec (Flat.barrierEnts n)) [n] :=
  Flat.flat_wf _ _ (Flat.barrier_refsOK n)

theorem C09_layer_fromscalars (m : Nat) : LayerWF (Flat.spec (Flat.scalarsEnts m)) (List.replicate m 1) :=
  Flat.flat_wf _ _ (Flat.scalars_refsOK m)

theorem C09_layer_locelement (part n : Nat) (h : part < n) : LayerWF (Flat.spec (Flat.locElementEnts part)) [n] :=
  Flat.flat_wf _ _ (Flat.locElement_refsOK part n h)

theorem C09_layer_loclist (parts : List Nat) (n : Nat) (h : ∀ p ∈ parts, p < n) :
    LayerWF (Flat.spec (Flat.locListEnts parts)) [n] := Flat.flat_wf _ _ (Flat.locList_refsOK parts n h)

theorem C09_layer_locslice (start stop n : Nat) (cnone : Bool) (h1 : start ≤ stop) (h2 : stop < n) :
    LayerWF (Flat.spec (Flat.locSliceEnts start stop cnone)) [n] ∧
    (Flat.spec (Flat.locSliceEnts start stop cnone)).nout = stop - start + 1 :=
  ⟨Flat.flat_wf _ _ (Flat.locSlice_refsOK start stop n cnone h1 h2), Flat.locSlice_length start stop cnone h1⟩

theorem C09_layer_resolve_overlapping (ne overlapIdx : List Nat) (eqNext : Nat → Bool) (n : Nat)
    (hne : ∀ p ∈ ne, p < n) (hn : 1 ≤ n) : LayerWF (Flat.spec (Flat.resolveEnts ne overlapIdx eqNext)) [n] :=
  Flat.flat_wf _ _ (Flat.resolve_refsOK ne overlapIdx eqNext n hne hn)

/-- Lengths, SeriesQuantileDask, SeriesQuantileTdigest -/
theorem C09_layer_gather (n : Nat) : LayerWF (Gather.spec n) [n] ∧ Listed (Gather.spec n) (Gather.keys n) :=
  ⟨Gather.gather_wf n, Gather.gather_listed n⟩

/-- RepartitionQuantiles (with dask's create_merge_tree): for every number of partitions and every tree shape in which
    no level asks for more keys than the level below has (the float-computed `tree_width` / `tree_groups`, T3) -/
theorem C09_layer_repartition_quantiles (p : RQ.Params) (h : RQ.levelsOK p = true) : LayerWF (RQ.spec p) [p.n] :=
  RQ.rq_wf p h

/-- the Blelloch up/down sweep of `prefix_reduction` / `suffix_reduction` (dask_expr/_merge_asof.py), for every
    number of partitions `n ≤ 2^L`: closed over the frame's partitions, and ranked -/
theorem C09_layer_scan (p : Scan.Params) (hn : p.n ≤ 2 ^ p.L) (k : Scan.Key) (t : Tsk Scan.Key) (hk : Scan.layer p k = some t) :
    (∀ r ∈ t.refs, (Scan.layer p r).isSome ∨ ∃ j, r = .src j ∧ j < p.n) ∧ (∀ r ∈ t.refs, Scan.rank p r < Scan.rank p k) :=
  ⟨Scan.scan_closed p hn k t hk, Scan.scan_ranked p k t hk⟩

/-- MergeAsofIndexed: both reductions plus the merge tasks, for every result of dask's `pair_partitions` that names
    existing partitions, one entry per left partition (`paramsOK`, checked on the real values) -/
theorem C09_layer_merge_asof (p : Asof.Params) (h : Asof.paramsOK p = true) : LayerWF (Asof.spec p) [p.nl, p.m] :=
  Asof.asof_wf p h

/-- GroupByCumulativeFinalizer -/
theorem C09_layer_groupby_cumulative (p : CumG.Params) (depN : List Nat) (hn : 1 ≤ p.n) (hd : CumG.DepsOK p depN) :
    LayerWF (CumG.spec p) depN := CumG.cumg_wf p depN hn hd

/-- Blockwise and every class that only changes how the arguments of its one task per partition are written -/
theorem C09_layer_blockwise (p : Blockwise.Params) (depN : List Nat) (hwf : Blockwise.WF p)
    (ha : Blockwise.ArgsOK p depN) : LayerWF (Blockwise.spec p) depN := Blockwise.bw_wf p depN hwf ha

/-- without `WF` (a non-broadcast operand with fewer partitions) a reference dangles -/
theorem C09_layer_blockwise_counterexample :
    ¬ LayerWF (Blockwise.spec { n := 2, ndim := 2, anyNdim := false, args := [.expr 0 1 2] }) [1] := by
  intro h
  rcases h.closed (.out 1) _ rfl (.dep 0 1) (by simp [Tsk.refs, Blockwise.argKey, Blockwise.broadcastDep]) with h1 | h1
  · simp [Blockwise.spec, Blockwise.layer] at h1
  · obtain ⟨d, i, nd, h2, h3, h4⟩ := h1
    simp only [Blockwise.spec, Option.some.injEq, Prod.mk.injEq] at h2
    obtain ⟨rfl, rfl⟩ := h2
    simp at h3; omega

theorem C09_layer_cumulative (n : Nat) (hn : 1 ≤ n) : LayerWF (Cum.spec n) [n, n] := Cum.cum_wf n hn

theorem C09_layer_overlap (p : Overlap.Params) (hn : 1 ≤ p.n) : LayerWF (Overlap.spec p) [p.n] := Overlap.ov_wf p hn

theorem C09_layer_treereduce (p : Tree.Params) : LayerWF (Tree.spec p) [p.n] := Tree.tree_wf p

/-- BroadcastJoin, unfiltered -/
theorem C09_layer_broadcastjoin (p : KJ.Params) (n : Nat) (hP : p.parts = List.range n) :
    LayerWF (KJ.spec p) (KJ.depN p n) := KJ.bj_wf p n hP

/-- full statement (any selection `_partitions`) is FALSE on the current tree (finding D66): with `_partitions = [2]`
    the key `(name, 0)` that `__dask_keys__` asks for is not defined -/
def bjFiltered : KJ.Params := { how := .inner, side := .right, parts := [2], bsize := 1 }

theorem C09_layer_broadcastjoin_filtered_counterexample :
    ¬ LayerWF (KJ.spec bjFiltered) (KJ.depN bjFiltered 3) := by
  intro h
  have := h.outs_defined 0 (by decide)
  simp [KJ.spec, KJ.layer, bjFiltered] at this

theorem C09_layer_simpleshuffle_wf (p : Params) : LayerWF (simpleSpec p) [p.nin] := simple_wf p

theorem C09_layer_diskshuffle_wf (p : Params) : LayerWF (diskSpec p) [p.nin] := disk_wf p

/-- TaskShuffle: the simple graph below the staging threshold, else the staged one (stage arithmetic T3-checked) -/
theorem C09_layer_taskshuffle_wf (p : Params) (harith : isStaged p = true → stageArithOK p.nin p.stages p.nsplits = true)
    (hnin : 0 < p.nin) :
    LayerWF (if isStaged p then stagedSpec p else simpleSpec p) [p.nin] := by
  cases hs : isStaged p with
  | true => simpa using staged_wf p (harith hs) hnin
  | false => simpa using simple_wf p

theorem C09_layer_repartition_fewer (bs : List Nat) (nin : Nat) (h : Repartition.fewerBoundsOK bs nin = true) :
    LayerWF (Repartition.fewerSpec bs) [nin] := Repartition.fewer_wf_of_check bs nin h

/-- the hypothesis of `C13_fewer` implies the one above -/
theorem C09_layer_repartition_fewer_of_boundariesOK (bs : List Nat) (nin : Nat)
    (h : Repartition.boundariesOK bs nin = true) : LayerWF (Repartition.fewerSpec bs) [nin] :=
  Repartition.fewer_wf bs nin (Repartition.boundariesOK_le bs nin h)

theorem C09_layer_repartition_more (ns : List Nat) : LayerWF (Repartition.moreSpec ns) [ns.length] :=
  Repartition.more_wf ns

theorem C09_layer_repartition_size (ns bs : List Nat) (h : Repartition.sizeBoundsOK ns bs = true) :
    LayerWF (Repartition.sizeSpec ns bs) [ns.length] := Repartition.size_wf_of_check ns bs h

theorem C09_layer_repartition_divisions (st : Repartition.DivState) (nin : Nat)
    (h : Repartition.divStateOK st nin = true) : LayerWF (Repartition.divSpec st) [nin] :=
  Repartition.div_wf st nin h

/-- FromGraph, relative to the imported graph (closed without inputs, ranked, bounded, containing `keys`) -/
theorem C09_layer_fromgraph {κ} (L : Graph κ) (keys : List κ) (rank : κ → Nat) (bound : Nat)
    (hc : Closed L (fun _ => none)) (hr : Ranked L rank) (hb : ∀ k, (L k).isSome → rank k ≤ bound)
    (hk : ∀ k ∈ keys, (L k).isSome) : LayerWF (Boundary.fromGraphSpec L keys rank bound) [] :=
  Boundary.fromGraph_wf L keys rank bound hc hr hb hk

/-- _DelayedExpr, relative to the Delayed's graph; `hself`: nothing in that graph reads the Delayed's own key -/
theorem C09_layer_delayedexpr {κ} [DecidableEq κ] (d : Boundary.Delayed κ) (rank : κ → Nat) (bound : Nat)
    (hc : Closed d.graph (fun _ => none)) (hr : Ranked d.graph rank) (hb : ∀ k, (d.graph k).isSome → rank k ≤ bound)
    (hkey : (d.graph d.key).isSome) (hself : ∀ k t, d.graph k = some t → d.key ∉ t.refs) :
    LayerWF (Boundary.delayedSpec d rank bound) [] := Boundary.delayed_wf d rank bound hc hr hb hkey hself

/-! ## (iv) the coverage table (GENERATED from the live classes of /repo on every run) -/

/-- classes that build graph structure themselves and have NO Lean layer model: covered only by the proven checker
    run on their real graphs (T3).  Same list as `PARTIAL` of harness/props/c09.py. -/
def knownUnmodelled : List String :=
  [ "HashJoinP2P"            -- needs `distributed` (not installed): `_layer` cannot even be called here
  , "P2PShuffle"             -- needs `distributed`
  ]

/-- every class of /repo that overrides a graph-building method is covered by a `C09_layer_*` theorem (or is
    abstract), or is explicitly listed as unmodelled: a NEW hand-written layer breaks this theorem -/
theorem C09_layer_classes_covered :
    ∀ c ∈ Generated.layerClasses, c.covered = true ∨ c.name ∈ knownUnmodelled := by
  have h : (Generated.layerClasses.all (fun c => c.covered || knownUnmodelled.contains c.name)) = true := by
    decide +kernel
  intro c hc
  have := List.all_eq_true.mp h c hc
  simp only [Bool.or_eq_true, List.contains_iff_mem] at this
  exact this

/-- nothing is listed as unmodelled that has a model by now (the list does not rot) -/
theorem C09_layer_known_unmodelled_exact :
    ∀ n ∈ knownUnmodelled, ∃ c ∈ Generated.layerClasses, c.name = n ∧ c.covered = false := by
  have h : (knownUnmodelled.all (fun n => Generated.layerClasses.any (fun c => c.name == n && !c.covered))) = true := by
    decide +kernel
  intro n hn
  have := List.all_eq_true.mp h n hn
  simp only [List.any_eq_true, Bool.and_eq_true, beq_iff_eq, Bool.not_eq_true'] at this
  obtain ⟨c, hc, h1, h2⟩ := this
  exact ⟨c, hc, h1, h2⟩

/-- the graph-building methods of every covered class are the ones the model was validated against -/
theorem C09_layer_sources_unchanged :
    ∀ c ∈ Generated.layerClasses, c.covered = true → (c.name, c.srcHash) ∈ committedLayerHashes := by
  have h : (Generated.layerClasses.all (fun c => !c.covered || committedLayerHashes.contains (c.name, c.srcHash))) = true := by
    decide +kernel
  intro c hc hcov
  have := List.all_eq_true.mp h c hc
  simp only [hcov, Bool.not_true, Bool.false_or, List.contains_iff_mem] at this
  exact this

/-! non-vacuity: a two-node plan (a source with two partitions, a consumer aliasing both) is `PlanOK` -/
namespace C09Example
def src : PNode Nat :=
  { layer := { task := fun k => if k < 2 then some (.const []) else none, nout := 2, out := id,
               rank := fun _ => 0, bound := 0 }, deps := [] }
def cons : PNode Nat :=
  { layer := { task := fun k => if k < 2 then some (.alias (.dep 0 k)) else none, nout := 2, out := id,
               rank := fun _ => 0, bound := 0 }, deps := [0] }
def plan : Plan Nat := [src, cons]

example : (merged plan (1, 1)).isSome = true := by decide
example : checkOrder [((0 : Nat), []), (1, [0]), (2, [0, 1])] [] = true := by decide

/-! non-vacuity of (iii): a plan of three LAYER MODELS — two sources with 2 and 1 partitions and their row-wise
    concatenation (the second frame fails the meta check, so its partition goes through `methods.concat`) -/
def stackNodes : List (MNode Flat.Key) :=
  [ ⟨Flat.spec (Flat.filteredEnts [0, 1]), []⟩
  , ⟨Flat.spec (Flat.filteredEnts [0]), []⟩
  , ⟨Flat.spec (Flat.stackEnts [2, 1] [true, false]), [0, 1]⟩ ]

instance : Inhabited Flat.Key := ⟨.out 0⟩

theorem stackNodes_ok : ModelPlanOK stackNodes := by
  intro n N hN
  match n, hN with
  | 0, hN =>
    cases hN
    refine ⟨?_, (C09_layer_filtered_source [0, 1] _).1⟩
    intro m hm; cases hm
  | 1, hN =>
    cases hN
    refine ⟨?_, (C09_layer_filtered_source [0] _).1⟩
    intro m hm; cases hm
  | 2, hN =>
    cases hN
    refine ⟨?_, (C09_layer_stackpartition [2, 1] [true, false]).1⟩
    intro m hm; simp at hm; omega
  | n + 3, hN => simp [stackNodes] at hN

example : (merged (stackNodes.map MNode.toPNode) (2, Flat.Key.out 2)).isSome = true :=
  (C09_plan_of_models stackNodes stackNodes_ok).2.2 2 _ rfl 2 (by decide)

example : Flat.stackEnts [2, 1] [true, false] = [.alias 0 0, .alias 0 1, .fn 0 [(1, 0)]] := by decide
example : Flat.interleavedEnts [2, 2] = [.fn 1 [(0, 0), (1, 0)], .fn 1 [(0, 1), (1, 1)]] := by decide
example : Flat.locSliceEnts 1 3 true = [.fn 3 [(0, 1)], .alias 0 2, .fn 5 [(0, 3)]] := by decide
example : Flat.refsOKb (Flat.locSliceEnts 1 3 true) [4] = true := by decide
example : Flat.fusedEnts [0, 1, 2, 3, 4] 2 = [.lit [0, 1], .lit [2, 3], .lit [4]] := by decide
example : Flat.resolveEnts [0, 2, 3] [1] (fun _ => false) = [.fn 9 [(0, 0)], .fn 9 [(0, 0), (0, 2)], .alias 0 3] := by decide
example : Blockwise.WF { n := 2, ndim := 2, anyNdim := false, args := [.expr 0 2 2, .expr 1 1 1, .lit "x"] } := by
  intro d np nd h hb
  simp at h
  rcases h with ⟨rfl, rfl, rfl⟩ | ⟨rfl, rfl, rfl⟩
  · rfl
  · simp [Blockwise.broadcastDep] at hb
example : CumG.DepsOK { n := 3, dF := 0, dR := 1, dL := 2 } [3, 3, 3] := by
  refine ⟨⟨3, rfl, by decide⟩, ⟨3, rfl, by decide⟩, ⟨3, rfl, by decide⟩⟩
example : Asof.paramsOK { nl := 2, m := 3, L := 2, tails := true, heads := true, pairs := [[0, 1], [1, 2]] } = true := by decide
example : Scan.log2ceil 5 = 3 ∧ Scan.log2ceil 4 = 2 ∧ Scan.log2ceil 1 = 0 := by decide
example : Scan.layer { n := 3, L := 2, rev := false } (.down 0 3) = some (.apply 1 [.down 1 1, .up 0 2]) := rfl
example : RQ.levelsOK { n := 5, levels := [[2, 1, 1, 1], [2, 2], [2]] } = true := by decide
example : RQ.layer { n := 5, levels := [[2, 1, 1, 1], [2, 2], [2]] } (.node 1 1) = some (.apply 2 [.node 0 2, .node 0 3]) := rfl
example : Repartition.fewerBoundsOK [0, 2, 5] 5 = true := by decide
example : Repartition.sizeBoundsOK [1, 3, 1] [0, 2, 5] = true := by decide
end C09Example

end Dx
