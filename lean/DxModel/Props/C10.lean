/-
  Props/C10.lean — execution knobs change performance only.  Corollaries of C02 / C12:

    C10_split_every            the tree reduction's result does not depend on `split_every`
    C10_split_every_value      … at the value level, for any type of partial results
    C10_shuffle_method_branch  SimpleShuffle / staged TaskShuffle (any max_branch ≥ 2, any stage
                               arithmetic satisfying the T3-checked hypothesis) / DiskShuffle produce the
                               same output partitions up to the order of rows inside a partition
  The selection thresholds themselves are not modelled: the theorems hold for both outcomes.
-/
import DxModel.Props.C02
namespace Dx

section
open Tree

theorem C10_split_every_value {α β} (comb : List α → α) (agg : List α → β) (h : HomLaw comb agg)
    (se₁ se₂ : Option Nat) (h₁ : ∀ k, se₁ = some k → 1 ≤ k) (h₂ : ∀ k, se₂ = some k → 1 ≤ k) (xs : List α) :
    treeEval comb agg se₁ xs = treeEval comb agg se₂ xs := by
  rw [C02_tree_value comb agg h se₁ h₁, C02_tree_value comb agg h se₂ h₂]

/-- Two `TreeReduce` layers over the same chunks that differ only in `split_every` (each `False` or
    ≥ 2) evaluate to the same value — whatever the tree depth. -/
theorem C10_split_every (I : Interp) (p₁ p₂ : Params) (hn : p₁.n = p₂.n) (hkw : p₁.kwargs = p₂.kwargs)
    (hse₁ : ∀ k, p₁.splitEvery = some k → 2 ≤ k) (hse₂ : ∀ k, p₂.splitEvery = some k → 2 ≤ k)
    (h : HomLaw (I (combFn p₁)) (I aggFn)) (vals : Nat → V) (F : Nat) (hF : p₁.n + 2 ≤ F) :
    run I (layer p₁) (inputs vals) F .out = run I (layer p₂) (inputs vals) F .out := by
  have hc : combFn p₂ = combFn p₁ := by simp [combFn, hkw]
  rw [C02_tree I p₁ hse₁ h vals F hF, C02_tree I p₂ hse₂ (hc ▸ h) vals F (hn ▸ hF), hn]

open C02Ex in
example : run ISum (layer ⟨5, some 2, false⟩) (inputs (fun i => chunkSum (parts5 i))) 7 .out =
    run ISum (layer ⟨5, none, false⟩) (inputs (fun i => chunkSum (parts5 i))) 7 .out :=
  C10_split_every ISum ⟨5, some 2, false⟩ ⟨5, none, false⟩ rfl rfl (by intro k h; cases h; decide)
    (by intro k h; cases h) (ISum_hom _) _ 7 (by decide)

example : treeEval List.sum List.sum (some 2) [1, 2, 3, 4, 5, 6, 7] = treeEval List.sum List.sum (some 3) [1, 2, 3, 4, 5, 6, 7] := by
  decide
end

section
open Shuffle

/-- The three shuffle implementations — and the staged one for every `max_branch`, stage count and
    fan-out satisfying the arithmetic hypothesis — put the same rows into output partition `j`. -/
theorem C10_shuffle_method_branch (I : Interp) (p ps : Params) (rows : Nat → List Row)
    (hnin : ps.nin = p.nin) (hnout : ps.nout = p.nout) (hparts : ps.parts = p.parts)
    (harith : stageArithOK ps.nin ps.stages ps.nsplits = true) (hpos : 0 < p.nin)
    (hp : ∀ o ∈ p.parts, o < p.nout) (hrows : ∀ i, ∀ r ∈ rows i, r.tgt < p.nout)
    (j : Nat) (hj : j < p.parts.length) (fuel : Nat) (hfuel : 3 * ps.stages + 3 ≤ fuel) :
    ∃ l₁ l₂ l₃,
      run I (simpleTask p) (inputs rows) 3 (.out .self j) = .frame l₁ ∧
      run I (stagedTask ps) (inputs rows) fuel (.out .self j) = .frame l₂ ∧
      run I (diskTask p) (inputs rows) 3 (.out .self j) = .frame l₃ ∧
      l₂.Perm l₁ ∧ l₃ = l₁ := by
  have hj' : j < ps.parts.length := by rw [hparts]; exact hj
  obtain ⟨l₂, e₂, perm₂⟩ := C12_staged I ps rows harith (by omega) (by rw [hparts, hnout]; exact hp)
    (by rw [hnout]; exact hrows) j hj' fuel hfuel
  refine ⟨_, l₂, _, C12_simple I p rows j hj hp hrows, e₂, C12_disk I p rows j hj 3 (by omega), ?_, rfl⟩
  have : sem ps rows ps.parts[j] = sem p rows p.parts[j] := by
    simp only [sem, hnin, hparts]
  rw [← this]
  exact perm₂

open C12Ex in
example : ∃ l₁ l₂ l₃,
      run I0 (simpleTask pEq) (inputs (rowsMod 5)) 3 (.out .self 1) = .frame l₁ ∧
      run I0 (stagedTask pEq) (inputs (rowsMod 5)) 12 (.out .self 1) = .frame l₂ ∧
      run I0 (diskTask pEq) (inputs (rowsMod 5)) 3 (.out .self 1) = .frame l₃ ∧
      l₂.Perm l₁ ∧ l₃ = l₁ :=
  C10_shuffle_method_branch I0 pEq pEq (rowsMod 5) rfl rfl rfl (by decide) (by decide) (by decide)
    (rowsMod_lt 5 (by decide)) 1 (by decide) 12 (by decide)
end

end Dx
