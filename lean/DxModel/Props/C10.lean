/-
  Props/C10.lean — execution knobs change performance only.  Corollaries of C02 / C12:

    C10_split_every            the tree reduction's result does not depend on `split_every`
    C10_split_every_value      … at the value level, for any type of partial results
    C10_shuffle_method_branch  SimpleShuffle / staged TaskShuffle (any max_branch ≥ 2, any stage
                               arithmetic satisfying the T3-checked hypothesis) / DiskShuffle produce the
                               same output partitions up to the order of rows inside a partition
  The selection thresholds themselves are not modelled: the theorems hold for both outcomes.

  Join strategy (`Merge._lower`, models in Layers/KnobJoin.lean, lemmas in Lemmas/Knobs.lean):
    C10_join_hash_spec / C10_join_hash_partitioned / C10_join_hash_run   hash join = join of the concatenated inputs, every `how`
    C10_join_broadcast_spec / C10_join_broadcast_run BroadcastJoin (plan / real `_layer` graph) = the same join,
                                                     for the `how × broadcast side` pairs in `allowed`
    C10_join_single_spec                             single-partition broadcast (BlockwiseMerge)
    C10_join_strategy                                hence hash plan ~ broadcast plan, all partitionings/counts
    C10_join_not_allowed_wrong                       every pair outside `allowed` is refuted by a witness
    C10_join_lower_legal                             the decision code of `Merge._lower` only picks legal plans
    C10_join_lower_leftsemi_counterexample           … which needs the (leftsemi, left) exclusion added by D87
    C10_join_broadcast_wf                            the BroadcastJoin layer is closed and acyclic
  Sort / set_index partition count (Layers/KnobSort.lean):
    C10_sort_perm / C10_sort_sorted / C10_sort_npartitions / C10_sort_divsOK_sound / C10_sort_shuffle_run
    C10_sort_below_first_division_counterexample / C10_sort_presorted (the no-shuffle fast path)
  split_out (Layers/KnobReduce.lean):
    C10_split_out / C10_split_out_npartitions / C10_split_out_run
-/
import DxModel.Props.C02
import DxModel.Lemmas.Knobs
namespace Dx

section
open Tree

theorem C10_split_every_value {α β} (comb : List α → α) (agg : List α → β) (h : HomLaw comb agg)
    (se₁ se₂ : Option Nat) (h₁ : ∀ k, se₁ = some k → 1 ≤ k) (h₂ : ∀ k, se₂ = some k → 1 ≤ k) (xs : List α) :
    treeEval comb agg se₁ xs = treeEval comb agg se₂ xs := by
  rw [C02_tree_value comb agg h se₁ h₁, C02_tree_value comb agg h se₂ h₂]

/-- Two `TreeReduce` layers over the same chunks that differ only in `split_every` (each `False` or
    ≥ 2) evaluate to the same value — whatever the tree depth. -/
theorem C10_split_every (I : Interp) (p₁ p₂ : Params) (hn : p₁.n = p₂.n) (hkw : p₁.kwargs = p₂.kwargs)
    (hse₁ : ∀ k, p₁.splitEvery = some k → 2 ≤ k) (hse₂ : ∀ k, p₂.splitEvery = some k → 2 ≤ k)
    (h : HomLaw (I (combFn p₁)) (I aggFn)) (vals : Nat → V) (F : Nat) (hF : p₁.n + 2 ≤ F) :
    run I (layer p₁) (inputs vals) F .out = run I (layer p₂) (inputs vals) F .out := by
  have hc : combFn p₂ = combFn p₁ := by simp [combFn, hkw]
  rw [C02_tree I p₁ hse₁ h vals F hF, C02_tree I p₂ hse₂ (hc ▸ h) vals F (hn ▸ hF), hn]

open C02Ex in
example : run ISum (layer ⟨5, some 2, false⟩) (inputs (fun i => chunkSum (parts5 i))) 7 .out =
    run ISum (layer ⟨5, none, false⟩) (inputs (fun i => chunkSum (parts5 i))) 7 .out :=
  C10_split_every ISum ⟨5, some 2, false⟩ ⟨5, none, false⟩ rfl rfl (by intro k h; cases h; decide)
    (by intro k h; cases h) (ISum_hom _) _ 7 (by decide)

example : treeEval List.sum List.sum (some 2) [1, 2, 3, 4, 5, 6, 7] = treeEval List.sum List.sum (some 3) [1, 2, 3, 4, 5, 6, 7] := by
  decide
end

section
open Shuffle

/-- The three shuffle implementations — and the staged one for every `max_branch`, stage count and
    fan-out satisfying the arithmetic hypothesis — put the same rows into output partition `j`. -/
theorem C10_shuffle_method_branch (I : Interp) (p ps : Params) (rows : Nat → List Row)
    (hnin : ps.nin = p.nin) (hnout : ps.nout = p.nout) (hparts : ps.parts = p.parts)
    (harith : stageArithOK ps.nin ps.stages ps.nsplits = true) (hpos : 0 < p.nin)
    (hp : ∀ o ∈ p.parts, o < p.nout) (hrows : ∀ i, ∀ r ∈ rows i, r.tgt < p.nout)
    (j : Nat) (hj : j < p.parts.length) (fuel : Nat) (hfuel : 3 * ps.stages + 3 ≤ fuel) :
    ∃ l₁ l₂ l₃,
      run I (simpleTask p) (inputs rows) 3 (.out .self j) = .frame l₁ ∧
      run I (stagedTask ps) (inputs rows) fuel (.out .self j) = .frame l₂ ∧
      run I (diskTask p) (inputs rows) 3 (.out .self j) = .frame l₃ ∧
      l₂.Perm l₁ ∧ l₃ = l₁ := by
  have hj' : j < ps.parts.length := by rw [hparts]; exact hj
  obtain ⟨l₂, e₂, perm₂⟩ := C12_staged I ps rows harith (by omega) (by rw [hparts, hnout]; exact hp)
    (by rw [hnout]; exact hrows) j hj' fuel hfuel
  refine ⟨_, l₂, _, C12_simple I p rows j hj hp hrows, e₂, C12_disk I p rows j hj 3 (by omega), ?_, rfl⟩
  have : sem ps rows ps.parts[j] = sem p rows p.parts[j] := by
    simp only [sem, hnin, hparts]
  rw [← this]
  exact perm₂

open C12Ex in
example : ∃ l₁ l₂ l₃,
      run I0 (simpleTask pEq) (inputs (rowsMod 5)) 3 (.out .self 1) = .frame l₁ ∧
      run I0 (stagedTask pEq) (inputs (rowsMod 5)) 12 (.out .self 1) = .frame l₂ ∧
      run I0 (diskTask pEq) (inputs (rowsMod 5)) 3 (.out .self 1) = .frame l₃ ∧
      l₂.Perm l₁ ∧ l₃ = l₁ :=
  C10_shuffle_method_branch I0 pEq pEq (rowsMod 5) rfl rfl rfl (by decide) (by decide) (by decide)
    (rowsMod_lt 5 (by decide)) 1 (by decide) 12 (by decide)
end

/-! ## join strategy -/
section Join
open Shuffle GJ KJ

/-- Hash join (two `RearrangeByColumn` to `n` partitions + `BlockwiseMerge`; `HashJoinP2P` produces the
    same buckets): for every `how`, every `n ≥ 1` (the `npartitions` hint or `max(nl, nr)`) and every hash
    function, the partition-wise `merge_chunk` results are a permutation of the join of the whole frames. -/
theorem C10_join_hash_spec {κ} [DecidableEq κ] (how : How) (kL kR : Row → κ) (h : κ → Nat) (n : Nat)
    (hn : 0 < n) (L R : List Row) :
    (hashPlan how kL kR h n L R).Perm (joinSpec how kL kR L R) :=
  joinSpec_split how kL kR (fun k => h k % n) n (fun _ => Nat.mod_lt _ hn) L R

/-- …stated on the output partitions of the two shuffles (C12's `sem`), for ANY partitioning of both
    inputs (`rows₁`, `rows₂`, `nin` arbitrary, empty partitions included). -/
theorem C10_join_hash_partitioned {κ} [DecidableEq κ] (how : How) (p₁ p₂ : Shuffle.Params)
    (rows₁ rows₂ : Nat → List Row) (kL kR : Row → κ) (h : κ → Nat) (hn : p₁.nout = p₂.nout) (hpos : 0 < p₁.nout)
    (ha₁ : ∀ i, ∀ r ∈ rows₁ i, r.tgt = h (kL r) % p₁.nout)
    (ha₂ : ∀ i, ∀ r ∈ rows₂ i, r.tgt = h (kR r) % p₂.nout) :
    ((List.range p₁.nout).flatMap (fun o => joinSpec how kL kR (sem p₁ rows₁ o) (sem p₂ rows₂ o))).Perm
      (joinSpec how kL kR (allRows p₁.nin rows₁) (allRows p₂.nin rows₂)) := by
  refine List.Perm.trans (List.Perm.of_eq ?_)
    (C10_join_hash_spec how kL kR h p₁.nout hpos (allRows p₁.nin rows₁) (allRows p₂.nin rows₂))
  unfold hashPlan bucket
  apply flatMap_congr'
  intro o _
  rw [sem_eq_filter, sem_eq_filter]
  congr 1
  · apply List.filter_congr
    intro r hr
    obtain ⟨i, _, hri⟩ := List.mem_flatMap.mp hr
    rw [ha₁ i r hri]
  · apply List.filter_congr
    intro r hr
    obtain ⟨i, _, hri⟩ := List.mem_flatMap.mp hr
    rw [ha₂ i r hri, hn]

/-- …and through the two real SimpleShuffle graphs (`C12_simple`): `merge_chunk` of the evaluated output
    partitions `o` of both shuffles, concatenated over `o`. -/
theorem C10_join_hash_run {κ} [DecidableEq κ] (how : How) (I : Interp) (p₁ p₂ : Shuffle.Params)
    (rows₁ rows₂ : Nat → List Row) (kL kR : Row → κ) (h : κ → Nat) (hn : p₁.nout = p₂.nout) (hpos : 0 < p₁.nout)
    (ha₁ : ∀ i, ∀ r ∈ rows₁ i, r.tgt = h (kL r) % p₁.nout)
    (ha₂ : ∀ i, ∀ r ∈ rows₂ i, r.tgt = h (kR r) % p₂.nout)
    (hp₁ : p₁.parts = List.range p₁.nout) (hp₂ : p₂.parts = List.range p₂.nout) :
    ((List.range p₁.nout).flatMap (fun o =>
        match run I (simpleTask p₁) (inputs rows₁) 3 (.out .self o), run I (simpleTask p₂) (inputs rows₂) 3 (.out .self o) with
        | .frame a, .frame b => joinSpec how kL kR a b
        | _, _ => [])).Perm
      (joinSpec how kL kR (allRows p₁.nin rows₁) (allRows p₂.nin rows₂)) := by
  refine List.Perm.trans (List.Perm.of_eq ?_) (C10_join_hash_partitioned how p₁ p₂ rows₁ rows₂ kL kR h hn hpos ha₁ ha₂)
  apply flatMap_congr'
  intro o ho
  have ho₁ := List.mem_range.mp ho
  obtain ⟨hl₁, e₁⟩ := parts_range p₁ hp₁ o ho₁
  obtain ⟨hl₂, e₂⟩ := parts_range p₂ hp₂ o (hn ▸ ho₁)
  rw [C12_simple I p₁ rows₁ o hl₁ (parts_range_lt p₁ hp₁)
      (fun i r hr => by rw [ha₁ i r hr]; exact Nat.mod_lt _ hpos),
    C12_simple I p₂ rows₂ o hl₂ (parts_range_lt p₂ hp₂)
      (fun i r hr => by rw [ha₂ i r hr]; exact Nat.mod_lt _ (hn ▸ hpos)), e₁, e₂]

/-- the join of the whole frames with the sides in left/right order -/
abbrev specFor {κ} [DecidableEq κ] (how : How) (side : Side) (kL kR : Row → κ) (other B : List Row) : List JRow :=
  match side with
  | .right => joinSpec how kL kR other B
  | .left => joinSpec how kL kR B other

/-- BroadcastJoin: for the allowed `how × broadcast side` pairs, ANY partitioning of the other side
    (`nother` partitions — after the optional `Repartition` to the `npartitions` hint), any number
    `m ≥ 1` of partitions of the broadcast side:
      * `inner`: the broadcast side in ANY partitioning (`B` = its concatenation);
      * otherwise its partition `j` holds a permutation of hash bucket `j` of `B` (what
        `RearrangeByColumn(npartitions_out = m)` delivers by C12) and the other side's partitions are
        split by the same hash.
    The concatenated output is a permutation of the join of the whole frames. -/
theorem C10_join_broadcast_spec {κ} [DecidableEq κ] (how : How) (side : Side) (hallow : allowed how side = true)
    (kL kR : Row → κ) (h : κ → Nat) (nother m : Nat) (hm : 0 < m) (other bc : Nat → List Row) (B : List Row)
    (hB : if how = .inner then B = catRows m bc
          else ∀ j, j < m → (bc j).Perm (bucket h (bcastKey side kL kR) m j B)) :
    (bcastPlan how side kL kR h nother m other bc).Perm (specFor how side kL kR (catRows nother other) B) := by
  have := bcastPlan_spec how side hallow kL kR h nother m hm other bc B hB
  cases side <;> exact this

/-- Single-partition broadcast (`_is_single_partition_broadcast` → `BlockwiseMerge` whose one-partition
    operand is a broadcast dependency): every partition of the other side is merged with the whole
    one-partition side, no hashing at all. -/
theorem C10_join_single_spec {κ} [DecidableEq κ] (how : How) (side : Side) (hallow : allowed how side = true)
    (kL kR : Row → κ) (n : Nat) (other : Nat → List Row) (B : List Row) :
    ((List.range n).flatMap (fun i => specFor how side kL kR (other i) B)).Perm
      (specFor how side kL kR (catRows n other) B) := by
  have := mergePiece_concat_other how side hallow kL kR n other B
  cases side <;> exact this

/-- The same through the transliterated `BroadcastJoin._layer` (no partition selection): task
    `(name, i)` evaluates to `bcastPart` of partition `i`, and the concatenation of all output partitions
    is a permutation of the join of the whole frames (`mk` turns a matched pair into a result row). -/
theorem C10_join_broadcast_run {κ : Type} [DecidableEq κ] (p : KJ.Params) (hallow : allowed p.how p.side = true)
    (kL kR : Row → κ) (h : κ → Nat) (mk : JRow → Row) (nother : Nat) (hparts : p.parts = List.range nother)
    (hm : 0 < p.bsize) (other bc : Nat → List Row) (B : List Row)
    (hB : if p.how = .inner then B = catRows p.bsize bc
          else ∀ j, j < p.bsize → (bc j).Perm (bucket h (bcastKey p.side kL kR) p.bsize j B))
    (F : Nat) (hF : 3 ≤ F) :
    ∃ l, concatV ((List.range nother).map (fun i =>
          run (KJ.interp p kL kR h mk) (KJ.layer p) (KJ.inputs other bc) F (.out i))) = .frame l ∧
      l.Perm ((specFor p.how p.side kL kR (catRows nother other) B).map mk) := by
  refine ⟨(bcastPlan p.how p.side kL kR h nother p.bsize other bc).map mk, ?_, ?_⟩
  · rw [concatV_map_frames (List.range nother) _
      (fun i => (bcastPart p.how p.side kL kR h p.bsize bc (other i)).map mk)
      (fun i hi => bj_run_out p kL kR h mk other bc i (by rw [hparts]; exact hi) F hF)]
    rw [bcastPlan, List.map_flatMap]
  · exact (C10_join_broadcast_spec p.how p.side hallow kL kR h nother p.bsize hm other bc B hB).map mk

/-- `BroadcastJoin._layer` is closed over its inputs and acyclic -/
theorem C10_join_broadcast_wf (p : KJ.Params) (other bc : Nat → List Row) :
    Closed (KJ.layer p) (KJ.inputs other bc) ∧ Ranked (KJ.layer p) bjRank :=
  ⟨bj_closed p other bc, bj_ranked p⟩

/-- Join strategy is a performance knob: for an allowed pair the hash plan (any `n`) and the broadcast
    plan (any `nother`, `m`, any partitioning) are permutations of each other — whatever the thresholds
    `n_low < log2(n_high) * bias`, `broadcast=True/False/float`, the `npartitions` hint decide. -/
theorem C10_join_strategy {κ} [DecidableEq κ] (how : How) (side : Side) (hallow : allowed how side = true)
    (kL kR : Row → κ) (h h' : κ → Nat) (n nother m : Nat) (hn : 0 < n) (hm : 0 < m)
    (other bc : Nat → List Row) (B : List Row)
    (hB : if how = .inner then B = catRows m bc
          else ∀ j, j < m → (bc j).Perm (bucket h (bcastKey side kL kR) m j B)) :
    (bcastPlan how side kL kR h nother m other bc).Perm
      (match side with
       | .right => hashPlan how kL kR h' n (catRows nother other) B
       | .left => hashPlan how kL kR h' n B (catRows nother other)) := by
  have hb := C10_join_broadcast_spec how side hallow kL kR h nother m hm other bc B hB
  cases side
  · exact hb.trans (C10_join_hash_spec how kL kR h' n hn B (catRows nother other)).symm
  · exact hb.trans (C10_join_hash_spec how kL kR h' n hn (catRows nother other) B).symm

namespace C10Ex
/-- key = payload -/
def kp (r : Row) : Nat := r.pay
def row (k : Nat) (i : Int) : Row := ⟨i, 0, k⟩
/-- the replicated side: one matched key (1) and one unmatched key (7), a single partition -/
def wB : List Row := [row 1 0, row 7 1]
/-- the other side: key 1 occurs in both partitions -/
def wOther (i : Nat) : List Row := match i with | 0 => [row 1 10] | 1 => [row 1 11, row 2 12] | _ => []
/-- large side for the positive examples: 3 partitions, one empty -/
def big (i : Nat) : List Row := match i with | 0 => [row 1 0, row 2 1] | 2 => [row 3 2, row 1 3, row 9 4] | _ => []
/-- small side in 2 arbitrary partitions / hash-bucketed into 2 partitions (h = id) -/
def small (j : Nat) : List Row := match j with | 0 => [row 1 20, row 4 21] | 1 => [row 2 22, row 1 23] | _ => []
def smallB (j : Nat) : List Row := bucket id kp 2 j (catRows 2 small)
def mkRow (jr : JRow) : Row :=
  ⟨0, 0, (match jr.1 with | some l => l.pay + 1 | none => 0) * 100 + (match jr.2 with | some r => r.pay + 1 | none => 0)⟩
end C10Ex
open C10Ex

example : (hashPlan .outer kp kp id 3 (catRows 3 big) (catRows 2 small)).Perm
    (joinSpec .outer kp kp (catRows 3 big) (catRows 2 small)) :=
  C10_join_hash_spec .outer kp kp id 3 (by decide) _ _
example : (joinSpec .outer kp kp (catRows 3 big) (catRows 2 small)).length = 8 := by decide

open C02Ex in
example : ((List.range 7).flatMap (fun o =>
      match run C12Ex.I0 (simpleTask C12Ex.pNeAll) (inputs jrows₁) 3 (.out .self o),
            run C12Ex.I0 (simpleTask C12Ex.pNeAll) (inputs jrows₂) 3 (.out .self o) with
      | .frame a, .frame b => joinSpec .outer (fun r => r.pay) (fun r => r.pay) a b
      | _, _ => [])).Perm
    (joinSpec .outer (fun r => r.pay) (fun r => r.pay) (allRows 3 jrows₁) (allRows 3 jrows₂)) :=
  C10_join_hash_run .outer C12Ex.I0 C12Ex.pNeAll C12Ex.pNeAll jrows₁ jrows₂ (fun r => r.pay) (fun r => r.pay)
    (fun k => 3 * k) rfl (by decide)
    (by
      intro i r hr
      simp only [jrows₁, List.mem_cons, List.not_mem_nil, or_false] at hr
      rcases hr with rfl | rfl <;> rfl)
    (by
      intro i r hr
      simp only [jrows₂, List.mem_singleton] at hr
      subst hr; rfl) (by decide) (by decide)

example : (bcastPlan .inner .right kp kp id 3 2 big small).Perm
    (joinSpec .inner kp kp (catRows 3 big) (catRows 2 small)) :=
  C10_join_broadcast_spec .inner .right rfl kp kp id 3 2 (by decide) big small _ rfl
example : (bcastPlan .left .right kp kp id 3 2 big smallB).Perm
    (joinSpec .left kp kp (catRows 3 big) (catRows 2 small)) :=
  C10_join_broadcast_spec .left .right rfl kp kp id 3 2 (by decide) big smallB (catRows 2 small)
    (fun _ _ => List.Perm.refl _)
example : (bcastPlan .right .left kp kp id 3 2 big smallB).Perm
    (joinSpec .right kp kp (catRows 2 small) (catRows 3 big)) :=
  C10_join_broadcast_spec .right .left rfl kp kp id 3 2 (by decide) big smallB (catRows 2 small)
    (fun _ _ => List.Perm.refl _)
example : (joinSpec .left kp kp (catRows 3 big) (catRows 2 small)).length = 7 ∧
    (bcastPlan .left .right kp kp id 3 2 big smallB).length = 7 := by decide
example : (bcastPlan .left .right kp kp id 3 2 big smallB).Perm
    (hashPlan .left kp kp (fun k => 3 * k) 5 (catRows 3 big) (catRows 2 small)) :=
  C10_join_strategy .left .right rfl kp kp id _ 5 3 2 (by decide) (by decide) big smallB (catRows 2 small)
    (fun _ _ => List.Perm.refl _)
example : ((List.range 3).flatMap (fun i => specFor .leftsemi .right kp kp (big i) (catRows 2 small))).Perm
    (joinSpec .leftsemi kp kp (catRows 3 big) (catRows 2 small)) :=
  C10_join_single_spec .leftsemi .right rfl kp kp 3 big _

/-- the graph of a left join broadcasting the (bucketed) right side, evaluated: 7 result rows -/
example : ∃ l, concatV ((List.range 3).map (fun i =>
      run (KJ.interp ⟨.left, .right, [0, 1, 2], 2⟩ kp kp id mkRow) (KJ.layer ⟨.left, .right, [0, 1, 2], 2⟩)
        (KJ.inputs big smallB) 3 (.out i))) = .frame l ∧
    l.Perm ((joinSpec .left kp kp (catRows 3 big) (catRows 2 small)).map mkRow) :=
  C10_join_broadcast_run ⟨.left, .right, [0, 1, 2], 2⟩ rfl kp kp id mkRow 3 rfl (by decide) big smallB
    (catRows 2 small) (fun _ _ => List.Perm.refl _) 3 (by decide)
example : run (KJ.interp ⟨.left, .right, [0, 1, 2], 2⟩ kp kp id mkRow) (KJ.layer ⟨.left, .right, [0, 1, 2], 2⟩)
    (KJ.inputs big smallB) 3 (.out 0) = .frame [⟨0, 0, 303⟩, ⟨0, 0, 202⟩, ⟨0, 0, 202⟩] := by decide

/-- Every `how × side` pair outside `allowed` is WRONG: replicating that side changes the result (here
    with one broadcast partition, two partitions on the other side; the hypothesis on the broadcast
    side's layout holds).  E.g. broadcasting the left side of a left join repeats its unmatched rows
    once per partition of the right side. -/
theorem C10_join_not_allowed_wrong (how : How) (side : Side) (hna : allowed how side = false) :
    (if how = .inner then wB = catRows 1 (fun _ => wB)
      else ∀ j, j < 1 → ((fun _ => wB) j).Perm (bucket id (bcastKey side kp kp) 1 j wB)) ∧
    (bcastPlan how side kp kp id 2 1 wOther (fun _ => wB)).length ≠
      (specFor how side kp kp (catRows 2 wOther) wB).length := by
  refine ⟨?_, ?_⟩
  · cases how <;> simp only [allowed, Bool.true_eq_false] at hna <;> simp only [reduceCtorEq, if_false] <;>
      intro j hj <;> (have : j = 0 := by omega) <;> subst this <;> rw [bucket_one] <;> exact List.Perm.refl _
  · cases how <;> cases side <;> simp only [allowed, Bool.true_eq_false] at hna <;> decide

example : (bcastPlan .left .left kp kp id 2 1 wOther (fun _ => wB)).length = 4 ∧
    (joinSpec .left kp kp wB (catRows 2 wOther)).length = 3 := by decide

/-- The decisions of `Merge._lower` (`_is_single_partition_broadcast`, `is_broadcast_join`,
    `broadcast_side`, the `npartitions` hint), for BOTH outcomes of the float threshold test, every
    `broadcast` knob value, every shuffle method and all partition counts, only ever choose a plan that is
    legal for `how`: a single-partition broadcast or BroadcastJoin of an `allowed` side (hash-shuffled
    unless `inner`), or a hash join into ≥ 1 partitions. -/
theorem C10_join_lower_legal (x : LowerIn) (hl : 1 ≤ x.nl) (hr : 1 ≤ x.nr)
    (hh : ∀ n, x.hint = some n → 1 ≤ n) :
    planLegal x.how x.nl x.nr (lowerPlan x) = true := by
  obtain ⟨how, nl, nr, bc, method, hint, thr⟩ := x
  simp only at hl hr hh
  simp only [lowerPlan]
  split
  · rename_i hs
    cases how <;> simp [isSingle, planLegal, allowed, max_eq_one nl nr hl hr] at hs ⊢ <;> omega
  · split
    · rename_i _ hb
      by_cases hlt : nl < nr
      · cases how <;> simp [isBroadcast, broadcastSide, howName, hlt] at hb ⊢ <;>
          simp [planLegal, allowed]
      · cases how <;> simp [isBroadcast, broadcastSide, howName, hlt] at hb ⊢ <;>
          simp [planLegal, allowed]
    · cases hint with
      | none =>
        simp only [planLegal, KJ.npartitions]
        exact decide_eq_true (Nat.le_trans hl (Nat.le_max_left _ _))
      | some n =>
        simp only [planLegal, KJ.npartitions]
        exact decide_eq_true (hh n rfl)

example : lowerPlan ⟨.left, 40, 2, .yes, .tasks, some 6, false⟩ = .broadcast .right 6 2 true ∧
    lowerPlan ⟨.left, 2, 40, .yes, .tasks, none, true⟩ = .hash 40 false ∧
    lowerPlan ⟨.inner, 2, 40, .none, .tasks, none, true⟩ = .broadcast .left 40 2 false ∧
    lowerPlan ⟨.inner, 2, 40, .none, .tasks, none, false⟩ = .hash 40 false ∧
    lowerPlan ⟨.right, 1, 4, .no, .disk, some 6, false⟩ = .single := by decide
example : planLegal .left 40 2 (lowerPlan ⟨.left, 40, 2, .yes, .tasks, some 6, false⟩) = true :=
  C10_join_lower_legal ⟨.left, 40, 2, .yes, .tasks, some 6, false⟩ (by decide) (by decide)
    (by intro n h; cases h; decide)

/-- Why `is_broadcast_join` has to exclude (leftsemi, left) explicitly (D87, `fix:` 14bac10 — before it
    the test `how != broadcast_side` compared the strings "leftsemi" and "left", so a leftsemi join with 1
    left and 8 right partitions automatically broadcast its LEFT side): that plan returns a left row once
    per right partition holding its key.  The decision as it is now picks the hash join for that input. -/
theorem C10_join_lower_leftsemi_counterexample :
    (bcastPlan .leftsemi .left kp kp id 2 1 wOther (fun _ => wB)).length = 2 ∧
    (joinSpec .leftsemi kp kp wB (catRows 2 wOther)).length = 1 ∧
    planLegal .leftsemi 1 8 (.broadcast .left 8 1 true) = false ∧
    lowerPlan ⟨.leftsemi, 1, 8, .none, .tasks, none, true⟩ = .hash 8 false ∧
    lowerPlan ⟨.leftsemi, 2, 4, .yes, .tasks, none, false⟩ = .hash 4 false ∧
    lowerPlan ⟨.leftsemi, 4, 2, .yes, .tasks, none, false⟩ = .broadcast .right 4 2 true := by decide

end Join

/-! ## sort / set_index: the divisions only influence the layout -/
section SortSec
open Shuffle KS

/-- For ANY divisions vector with at least two entries (any `npartitions`, any `upsample`, sorted or
    not, covering the data or not) and any permutation-preserving per-partition sort, the pipeline
    returns every input row exactly once. -/
theorem C10_sort_perm (srt : List Row → List Row) (hperm : ∀ l, (srt l).Perm l) (d : List Int) (asc : Bool)
    (hd : 2 ≤ d.length) (l : List Row) : (sortPlan srt d asc l).Perm l :=
  sortPlan_perm srt hperm d asc hd l

/-- If moreover no key lies below every division (the first division produced by the quantile
    sampling is the minimum of the data; T3-checked) the concatenated output is in the requested order. -/
theorem C10_sort_sorted (srt : List Row → List Row) (hperm : ∀ l, (srt l).Perm l) (d : List Int) (asc : Bool)
    (hsorted : ∀ l, (srt l).Pairwise (before asc)) (hd : 2 ≤ d.length) (l : List Row)
    (hcov : ∀ r ∈ l, ∃ c ∈ d, c ≤ r.idx) : (sortPlan srt d asc l).Pairwise (before asc) :=
  sortPlan_sorted srt hperm d asc hsorted hd l hcov

/-- `npartitions` / `upsample` / the sampled quantiles are performance knobs: two runs with different
    divisions vectors (and even different sort kernels) return permutations of each other with the SAME
    key sequence — the sorted permutation of the input; only the partition layout differs. -/
theorem C10_sort_npartitions (srt₁ srt₂ : List Row → List Row) (asc : Bool)
    (hp₁ : ∀ l, (srt₁ l).Perm l) (hp₂ : ∀ l, (srt₂ l).Perm l)
    (hs₁ : ∀ l, (srt₁ l).Pairwise (before asc)) (hs₂ : ∀ l, (srt₂ l).Pairwise (before asc))
    (d₁ d₂ : List Int) (hd₁ : 2 ≤ d₁.length) (hd₂ : 2 ≤ d₂.length) (l : List Row)
    (hc₁ : ∀ r ∈ l, ∃ c ∈ d₁, c ≤ r.idx) (hc₂ : ∀ r ∈ l, ∃ c ∈ d₂, c ≤ r.idx) :
    (sortPlan srt₁ d₁ asc l).Perm (sortPlan srt₂ d₂ asc l) ∧
    (sortPlan srt₁ d₁ asc l).map (·.idx) = (sortPlan srt₂ d₂ asc l).map (·.idx) ∧
    (sortPlan srt₁ d₁ asc l).map (·.idx) = (stableSort asc l).map (·.idx) := by
  have p₁ := C10_sort_perm srt₁ hp₁ d₁ asc hd₁ l
  have p₂ := C10_sort_perm srt₂ hp₂ d₂ asc hd₂ l
  have s₁ := C10_sort_sorted srt₁ hp₁ d₁ asc hs₁ hd₁ l hc₁
  have s₂ := C10_sort_sorted srt₂ hp₂ d₂ asc hs₂ hd₂ l hc₂
  exact ⟨p₁.trans p₂.symm, sorted_perm_keys_eq asc (p₁.trans p₂.symm) s₁ s₂,
    sorted_perm_keys_eq asc (p₁.trans (stableSort_perm asc l).symm) s₁ (stableSort_sorted asc l)⟩

/-- soundness of the checker run on the real `_calculate_divisions` output -/
theorem C10_sort_divsOK_sound (d keys : List Int) (h : divsOK d keys = true) :
    2 ≤ d.length ∧ d.Pairwise (· ≤ ·) ∧ ∀ k ∈ keys, ∃ c ∈ d, c ≤ k := by
  simp only [divsOK, Bool.and_eq_true, decide_eq_true_eq] at h
  obtain ⟨⟨h2, hs⟩, hc⟩ := h
  refine ⟨h2, sortedInts_pairwise d hs, ?_⟩
  cases d with
  | nil => cases hc
  | cons d0 t =>
    intro k hk
    simp only [List.all_eq_true, decide_eq_true_eq] at hc
    exact ⟨d0, by simp, hc k hk⟩

/-- the partitions the sort kernel receives are the outputs of the real shuffle graph: with the
    `_partitions` column computed by `set_partitions_pre`, output `j` of the SimpleShuffle layer is the
    sub-list of the concatenated input assigned to `j` -/
theorem C10_sort_shuffle_run (I : Interp) (p : Shuffle.Params) (rows : Nat → List Row) (d : List Int) (asc : Bool)
    (hd : 2 ≤ d.length) (hnout : p.nout = d.length - 1) (hparts : p.parts = List.range p.nout)
    (ha : ∀ i, ∀ r ∈ rows i, r.tgt = setPartitionsPre d asc r.idx) (j : Nat) (hj : j < p.nout) :
    run I (simpleTask p) (inputs rows) 3 (.out .self j) = .frame (assigned d asc j (allRows p.nin rows)) := by
  obtain ⟨hlen, hpj⟩ := parts_range p hparts j hj
  rw [C12_simple I p rows j hlen (parts_range_lt p hparts)
    (fun i r hr => by rw [ha i r hr, hnout]; exact setPartitionsPre_lt d asc r.idx hd), hpj, sem_eq_filter]
  congr 1
  apply List.filter_congr
  intro r hr
  obtain ⟨i, _, hri⟩ := List.mem_flatMap.mp hr
  rw [ha i r hri]

/-- Why the coverage hypothesis is needed — the code's clamp `partitions < 0 → len(divisions) - 2` sends
    a key below the first division to the LAST partition: with divisions `[5, 10, 15]` the key 1 ends up
    after 7 (in the last partition, next to 12).  (Divisions computed by the library start at the minimum; user-supplied ones need not.) -/
theorem C10_sort_below_first_division_counterexample :
    (sortPlan (stableSort true) [5, 10, 15] true [⟨12, 0, 0⟩, ⟨1, 0, 1⟩, ⟨7, 0, 2⟩]).map (·.idx) = [7, 1, 12] := by
  decide

/-- Presorted fast path (`SortValues._lower` / `SetIndex._lower` skip the shuffle when
    `_calculate_divisions` reports `presorted` and the partition count is unchanged): if the flag computed from
    the per-partition minima and maxima is true — minima in order, maxima in order, and each partition's
    maximum strictly before its successor's minimum — then sorting every input partition in place returns a
    permutation of the input in the requested order, with the same key sequence as the shuffle path. -/
theorem C10_sort_presorted (srt : List Row → List Row) (hperm : ∀ l, (srt l).Perm l) (asc : Bool)
    (hsorted : ∀ l, (srt l).Pairwise (before asc)) (ps : List (List Row × Int × Int))
    (hb : ∀ q ∈ ps, ∀ r ∈ q.1, q.2.1 ≤ r.idx ∧ r.idx ≤ q.2.2)
    (hg : presorted asc (ps.map (·.2)) = true) :
    (presortedPlan srt (ps.map (·.1))).Perm (ps.flatMap (·.1)) ∧
    (presortedPlan srt (ps.map (·.1))).Pairwise (before asc) ∧
    (presortedPlan srt (ps.map (·.1))).map (·.idx) = (stableSort asc (ps.flatMap (·.1))).map (·.idx) := by
  have e : presortedPlan srt (ps.map (·.1)) = ps.flatMap (fun q => srt q.1) := by
    unfold presortedPlan; rw [List.flatMap_map]
  have hp : (presortedPlan srt (ps.map (·.1))).Perm (ps.flatMap (·.1)) := by
    rw [e]; exact perm_flatMap_congr ps _ _ (fun q _ => hperm q.1)
  have hs : (presortedPlan srt (ps.map (·.1))).Pairwise (before asc) := by
    rw [e, List.pairwise_flatMap]
    refine ⟨fun q _ => hsorted _, ?_⟩
    have hno := List.pairwise_map.mp (presorted_nonoverlap asc (ps.map (·.2)) hg)
    refine List.Pairwise.imp_of_mem ?_ hno
    intro q₁ q₂ h₁ h₂ hsep x hx y hy
    have bx := hb q₁ h₁ x ((hperm _).mem_iff.mp hx)
    have b_y := hb q₂ h₂ y ((hperm _).mem_iff.mp hy)
    cases asc
    · simp only [Bool.false_eq_true, if_false] at hsep
      show y.idx ≤ x.idx
      omega
    · simp only [if_true] at hsep
      show x.idx ≤ y.idx
      omega
  exact ⟨hp, hs, sorted_perm_keys_eq asc (hp.trans (stableSort_perm asc _).symm) hs (stableSort_sorted asc _)⟩

namespace C10Ex
/-- a descending presorted layout `30..26 | 25..20 | 12` and a staggered one (ranges overlap) -/
def pparts : List (List Row × Int × Int) :=
  [([⟨26, 0, 0⟩, ⟨30, 0, 1⟩], 26, 30), ([⟨20, 0, 2⟩, ⟨25, 0, 3⟩, ⟨21, 0, 4⟩], 20, 25), ([⟨12, 0, 5⟩], 12, 12)]
end C10Ex

example : (presortedPlan (stableSort false) (C10Ex.pparts.map (·.1))).map (·.idx) =
    (stableSort false (C10Ex.pparts.flatMap (·.1))).map (·.idx) :=
  (C10_sort_presorted (stableSort false) (stableSort_perm false) false (stableSort_sorted false) C10Ex.pparts
    (by decide) (by decide)).2.2
example : (presortedPlan (stableSort false) (C10Ex.pparts.map (·.1))).map (·.idx) = [30, 26, 25, 21, 20, 12] := by decide
/-- staggered descending chunks 30..20 | 25..15 | 20..10: minima and maxima both decrease but the ranges
    overlap — the flag must be (and is) false, the shuffle path is taken -/
example : presorted false [(20, 30), (15, 25), (10, 20)] = false ∧ presorted false [(26, 30), (20, 25), (12, 12)] = true ∧
    presorted true [(0, 3), (3, 5)] = false ∧ presorted true [(0, 3), (4, 5)] = true := by decide

namespace C10Ex
def srows : List Row := [⟨12, 0, 0⟩, ⟨5, 0, 1⟩, ⟨7, 0, 2⟩, ⟨5, 0, 3⟩, ⟨30, 0, 4⟩, ⟨9, 0, 5⟩]
theorem srows_cov (d0 : Int) (t : List Int) (h : d0 ≤ 5) : ∀ r ∈ srows, ∃ c ∈ d0 :: t, c ≤ r.idx := by
  intro r hr
  refine ⟨d0, by simp, ?_⟩
  simp only [srows, List.mem_cons, List.not_mem_nil, or_false] at hr
  rcases hr with rfl | rfl | rfl | rfl | rfl | rfl <;> simp <;> omega
end C10Ex
open C10Ex

example : (sortPlan (stableSort true) [5, 9, 30] true srows).map (·.idx) =
    (sortPlan (stableSort true) [5, 6, 7, 8, 8, 40] true srows).map (·.idx) :=
  (C10_sort_npartitions (stableSort true) (stableSort true) true (stableSort_perm true) (stableSort_perm true)
    (stableSort_sorted true) (stableSort_sorted true) [5, 9, 30] [5, 6, 7, 8, 8, 40] (by decide) (by decide) srows
    (srows_cov 5 _ (by decide)) (srows_cov 5 _ (by decide))).2.1
example : (sortPlan (stableSort true) [5, 9, 30] true srows).map (·.idx) = [5, 5, 7, 9, 12, 30] := by decide
example : (sortPlan (stableSort false) [5, 9, 30] false srows).map (·.idx) = [30, 12, 9, 7, 5, 5] := by decide
example : (sortPlan (stableSort false) [5, 9, 30] false srows).Pairwise (before false) :=
  C10_sort_sorted (stableSort false) (stableSort_perm false) [5, 9, 30] false (stableSort_sorted false) (by decide)
    srows (srows_cov 5 _ (by decide))
example : divsOK [5, 9, 30] (srows.map (·.idx)) = true ∧ divsOK [6, 9, 30] (srows.map (·.idx)) = false := by decide
example : 2 ≤ ([5, 9, 30] : List Int).length ∧ ([5, 9, 30] : List Int).Pairwise (· ≤ ·) ∧
    ∀ k ∈ srows.map (·.idx), ∃ c ∈ ([5, 9, 30] : List Int), c ≤ k :=
  C10_sort_divsOK_sound [5, 9, 30] (srows.map (·.idx)) (by decide)
example : (sortPlan (stableSort true) [100, 3] true srows).Perm srows :=
  C10_sort_perm (stableSort true) (stableSort_perm true) [100, 3] true (by decide) srows

end SortSec

/-! ## split_out -/
section SplitOut
open Shuffle GJ KR

/-- `split_out` (and `split_every`, which enters `shuffle_npartitions`) is a performance knob: hashing the
    group keys into ANY number `n ≥ 1` of partitions with ANY hash function and aggregating every
    partition group-wise yields the same groups — every group once, aggregated over exactly its rows
    in frame order — as the tree reduction used for `split_out = 1`, up to the order of the groups. -/
theorem C10_split_out {κ β} [DecidableEq κ] (key : Row → κ) (agg : κ → List Row → List β)
    (h₁ h₂ : κ → Nat) (n₁ n₂ : Nat) (hn₁ : 0 < n₁) (hn₂ : 0 < n₂) (chunks : List Row) :
    (shufflePlan key agg h₁ n₁ chunks).Perm (treePlan key agg chunks) ∧
    (shufflePlan key agg h₁ n₁ chunks).Perm (shufflePlan key agg h₂ n₂ chunks) ∧
    shufflePlan key agg h₁ 1 chunks = treePlan key agg chunks :=
  ⟨shufflePlan_perm_tree key agg h₁ n₁ hn₁ chunks,
   (shufflePlan_perm_tree key agg h₁ n₁ hn₁ chunks).trans (shufflePlan_perm_tree key agg h₂ n₂ hn₂ chunks).symm,
   shufflePlan_one key agg h₁ chunks⟩

/-- the partition count `ShuffleReduce._lower` computes is ≥ 1 for every `split_every`, so the theorem
    applies to every knob combination with `split_out ≥ 1` -/
theorem C10_split_out_npartitions (nin splitEvery splitOut : Nat) (h : 1 ≤ splitOut) :
    1 ≤ shuffleNpartitions nin splitEvery splitOut := by
  unfold shuffleNpartitions
  exact Nat.le_trans h (Nat.le_max_right _ _)

/-- …through the real SimpleShuffle graph: the chunks get their `_partitions` column from
    `AssignPartitioningIndex` (`hash(key) % nout`), are shuffled, the column is dropped, every output
    partition is aggregated group-wise. -/
theorem C10_split_out_run {κ β} [DecidableEq κ] (I : Interp) (p : Shuffle.Params) (chunks : Nat → List Row)
    (key : Row → κ) (hkey : ∀ r t, key { r with tgt := t } = key r)
    (agg : κ → List Row → List β) (h : κ → Nat) (hpos : 0 < p.nout) (hp : p.parts = List.range p.nout) :
    ((List.range p.nout).flatMap (fun j =>
        match run I (simpleTask p) (inputs (fun i => (chunks i).map (assignTgt key h p.nout))) 3 (.out .self j) with
        | .frame l => groupApply key agg (l.map dropTgt)
        | _ => [])).Perm
      (treePlan key agg ((allRows p.nin chunks).map dropTgt)) := by
  have hdrop : ∀ r, key (dropTgt r) = key r := fun r => hkey r 0
  have hasg : ∀ r, key (assignTgt key h p.nout r) = key r := fun r => hkey r _
  have main := C02_shuffle_reduce_run I p (fun i => (chunks i).map (assignTgt key h p.nout)) key
    (fun k rows => agg k (rows.map dropTgt)) (fun k => h k % p.nout) (fun _ => Nat.mod_lt _ hpos)
    (by
      intro i r hr
      obtain ⟨r0, _, rfl⟩ := List.mem_map.mp hr
      rw [hasg r0]; rfl) hp
  refine List.Perm.trans (List.Perm.of_eq ?_) (main.trans (List.Perm.of_eq ?_))
  · apply flatMap_congr'
    intro j _
    cases run I (simpleTask p) (inputs (fun i => (chunks i).map (assignTgt key h p.nout))) 3 (.out .self j) with
    | frame l => exact groupApply_map key agg dropTgt hdrop l
    | _ => rfl
  · have e : allRows p.nin (fun i => (chunks i).map (assignTgt key h p.nout)) =
        (allRows p.nin chunks).map (assignTgt key h p.nout) := by
      unfold allRows; rw [List.map_flatMap]
    rw [e, groupApply_map key _ _ hasg, treePlan, groupApply_map key agg dropTgt hdrop]
    congr 1
    funext k rows
    rw [List.map_map]
    rfl

/-- unique / drop_duplicates: the distinct keys; value_counts: (key, number of rows) — for every split_out -/
example (h : Nat → Nat) (n : Nat) (hn : 0 < n) :
    (shufflePlan (fun r => r.pay) (fun k _ => [k]) h n (allRows 3 C02Ex.jrows₁)).Perm [0, 1, 2, 3] := by
  have e : treePlan (fun r => r.pay) (fun k _ => [k]) (allRows 3 C02Ex.jrows₁) = [0, 1, 2, 3] := by decide
  exact e ▸ (C10_split_out (fun r => r.pay) (fun k _ => [k]) h h n n hn hn (allRows 3 C02Ex.jrows₁)).1
example : shufflePlan (fun r : Row => r.pay) (fun k g => [(k, g.length)]) (fun k => 5 * k) 4 (allRows 3 C02Ex.jrows₁) =
    [(0, 1), (1, 2), (2, 2), (3, 1)] := by decide
example : (shufflePlan (fun r => r.pay) (fun k g => [(k, g.length)]) (fun k => 7 * k) 3 (allRows 3 C02Ex.jrows₁)).Perm
    (shufflePlan (fun r => r.pay) (fun k g => [(k, g.length)]) (fun k => k) 2 (allRows 3 C02Ex.jrows₁)) :=
  (C10_split_out _ _ _ _ 3 2 (by decide) (by decide) _).2.1
example : 1 ≤ shuffleNpartitions 20 8 3 ∧ shuffleNpartitions 20 8 1 = 2 ∧ shuffleNpartitions 20 0 3 = 3 :=
  ⟨C10_split_out_npartitions 20 8 3 (by decide), by decide, by decide⟩
example : ((List.range 7).flatMap (fun j =>
      match run C12Ex.I0 (simpleTask C12Ex.pNeAll) (inputs (fun i => (C02Ex.jrows₁ i).map (assignTgt (fun r => r.pay) (fun k => 3 * k) 7)))
          3 (.out .self j) with
      | .frame l => groupApply (fun r => r.pay) (fun k g => [(k, g.length)]) (l.map dropTgt)
      | _ => [])).Perm
    (treePlan (fun r => r.pay) (fun k g => [(k, g.length)]) ((allRows 3 C02Ex.jrows₁).map dropTgt)) :=
  C10_split_out_run C12Ex.I0 C12Ex.pNeAll C02Ex.jrows₁ (fun r => r.pay) (fun _ _ => rfl) _ (fun k => 3 * k) (by decide) (by decide)

end SplitOut

end Dx
