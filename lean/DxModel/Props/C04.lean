/-
  Props/C04.lean — "Column pruning never changes a result".

  Model: DxModel/Cols.lean (determine_column_projection, plain_column_projection, every projection rule of the
  code as it is in /repo, and the column semantics of the operator classes as structures of laws).
  Every theorem holds for ANY dependents list `deps` (stale, partial, duplicated dependents cannot matter)
  and for all schemas.  For a rule `r`:

    C04_<r>_wf      the pruned input is a duplicate-free sub-schema that still holds the operator's own key columns
                    and everything requested
    C04_<r>_labels  the rewritten expression has the parent's labels in the parent's order
    C04_<r>_values  every requested column has the value it had

  Rules that are wrong on the current tree keep the full statement in a comment, a `_partial` theorem with the
  excluding hypothesis and a `_counterexample` theorem (decide) with the concrete witness; the harness reports the
  corresponding failing inputs of the real code (harness/props/c04.py).
-/
import DxModel.Cols
import DxModel.Lemmas.Cols
import DxModel.Lemmas.ColsRules
import DxModel.Lemmas.ColsSem
import DxModel.Lemmas.ColsMerge
import DxModel.Lemmas.ColsAssign
import DxModel.Lemmas.ColsInst
import DxModel.Generated.ProjFlags
namespace Dx
open Dx.Cols

variable {γ : Type}

/-! ### 0. determine_column_projection -/

/-- the union contains the parent's own columns, every listed dependent's columns and the additional columns,
    whatever else `deps` holds; `columns.has c` is the python test `c in columns` used by the rules -/
theorem C04_detproj_covers (p : Parent) (deps : List Dep) (extra : List Name) (c : Name)
    (h : c ∈ p.cols ∨ (∃ d, d ∈ deps ∧ c ∈ d.cols) ∨ c ∈ extra) :
    (detProj p deps extra).has c = true ∧ c ∈ (detProj p deps extra).toList := by
  have hu : c ∈ unionCols p deps extra := mem_unionCols.mpr h
  exact ⟨detProj_has hu, by rw [detProj_toList]; exact hu⟩

/-- and nothing else -/
theorem C04_detproj_exact (p : Parent) (deps : List Dep) (extra : List Name) (c : Name) :
    c ∈ (detProj p deps extra).toList ↔ c ∈ p.cols ∨ (∃ d, d ∈ deps ∧ c ∈ d.cols) ∨ c ∈ extra := by
  rw [detProj_toList]; exact mem_unionCols

/-- the scalar collapse only ever happens for a scalar selection of that very column -/
theorem C04_detproj_collapse (p : Parent) (hp : p.overFrame) (deps : List Dep) (extra : List Name) (s : Name)
    (h : detProj p deps extra = .one s) : p = .scalar s ∧ ∀ d, d ∈ deps → d.ndim1 = true := by
  obtain ⟨hu, hn⟩ := detProj_one h
  refine ⟨?_, ?_⟩
  · cases p with
    | list cs => cases hn
    | scalar c' =>
      have : c' ∈ unionCols (.scalar c') deps extra := parent_mem_union (by simp [Parent.cols])
      rw [hu] at this
      have : c' = s := by simpa using this
      subst this; rfl
    | listS cs => cases hp
    | scalarS c' => cases hp
    | index => cases hp
  · unfold detProj at h
    rw [hu] at h
    simp only at h
    split at h
    · rename_i hc
      simp only [Bool.and_eq_true, List.all_eq_true] at hc
      exact hc.2
    · cases h

example : detProj (.scalar "a") [⟨["a"], true⟩] [] = .one "a" := by decide
example : detProj (.scalar "a") [⟨["a", "b"], false⟩] [] = .many ["a", "b"] := by decide
example : detProj (.list ["b", "a"]) [⟨["c"], false⟩, ⟨[], true⟩] ["k"] = .many ["a", "b", "c", "k"] := by decide

/-- a parent that is not a Projection (nor, for Merge, an Index) never triggers a column rewrite — e.g. the groupby
    above a dropna(subset=…) keeps all the columns it will ask for later (D17) -/
theorem C04_other_parent (rule : Parent → Option Rw) : onProjection rule .other = none := rfl

/-! ### 1. single-input operators whose rows are decided by key columns (generic part)

`KeyedOp` covers the Elemwise/Blockwise pass-through classes, Filter, dropna, drop_duplicates, sort_values,
shuffle, set_index, nlargest/nsmallest, groupby aggregations, cumulative aggregations, repartition. -/

/-- labels: a rewrite that re-applies the parent has the parent's labels -/
theorem C04_keep1_labels (op : Frame γ → Frame γ) (P : List Name) (rw : Rw) (child : List Name) (F : Frame γ)
    (h : rw.isKeep1 child) : (evalRw op P rw F).cols = P := by
  rw [evalRw_keep1 op P rw F child h]; rfl

/-- values: with an adequate child every requested column is unchanged -/
theorem C04_keep1_values (K : KeyedOp γ) (F : Frame γ) (keys' P child : List Name) (rw : Rw)
    (h : rw.isKeep1 child) (had : Adequate F.cols keys' P child)
    (hk : ∀ k, k ∈ K.keys → k ∈ keys' ∧ k ∈ F.cols) (c : Name) (hc : c ∈ P) :
    (evalRw K.op P rw F).val c = (evalOrig K.op P F).val c := by
  rw [evalRw_keep1 K.op P rw F child h]
  exact keyed_values K F keys' P child had hk c hc

/-- well-formedness: the operator still finds its keys, nothing is invented or duplicated, and the re-applied
    parent finds every label it asks for -/
theorem C04_keep1_wf (K : KeyedOp γ) (hm : OutMono K) (F : Frame γ) (keys' P child : List Name)
    (had : Adequate F.cols keys' P child) (hk : ∀ k, k ∈ K.keys → k ∈ keys' ∧ k ∈ F.cols)
    (hP : ∀ c, c ∈ P → c ∈ K.outCols F.cols) :
    (∀ k, k ∈ K.keys → k ∈ child) ∧ (∀ c, c ∈ child → c ∈ F.cols) ∧ (F.cols.Nodup → child.Nodup) ∧
    (∀ c, c ∈ P → c ∈ (K.op (F.select child)).cols) :=
  keyed_wf K hm F keys' P child had hk hP

/-! ### 2. plain_column_projection (pass-through classes, Filter, Clip, Unaryop, cumulative, explode, repartition) -/

/-- the shape of what `plain` builds: one child selection; the parent is dropped exactly when the child selection
    *is* the parent's; a scalar child only for the scalar selection of that column -/
theorem C04_plain_wf (frame : List Name) (p : Parent) (hp : p.overFrame) (deps : List Dep) (extra : List Name) (rw : Rw)
    (h : plain frame p deps extra = some rw) :
    ∃ s, rw.childs = [some s] ∧ rw.gone = false ∧ Adequate frame extra p.cols s.toList ∧
      (rw.keep = false → s = p.operand) ∧ (∀ c, s = .one c → p = .scalar c ∧ rw.keep = false) := by
  obtain ⟨hrw, _⟩ := plain_spec h
  refine ⟨plainSel frame (detProj p deps extra), by rw [hrw], by rw [hrw], plainSel_adequate frame p deps extra,
    plain_nokeep h, ?_⟩
  intro c hc
  have hpc := plain_collapse hp hc
  refine ⟨hpc, ?_⟩
  rw [hrw, hc, hpc]
  simp [Parent.operand]

/-- classes with a column-keyed dict parameter (D112): the input is never collapsed to a series, and the kept
    sub-schema still has everything requested -/
theorem C04_plain_dict_wf (frame : List Name) (p : Parent) (deps : List Dep) (rw : Rw)
    (h : plainDict frame p deps = some rw) :
    ∃ s, rw.childs = [some s] ∧ Adequate frame [] p.cols s.toList ∧ ∀ c, s ≠ .one c := by
  unfold plainDict at h
  cases hsel : plainSel frame (detProj p deps []) with
  | one c =>
    rw [hsel] at h
    simp only at h
    split at h
    · cases h
    · cases h
      have had := plainSel_adequate frame p deps []
      rw [hsel] at had
      exact ⟨.many [c], rfl, by simpa [Sel.toList] using had, fun c' => by simp⟩
  | many l =>
    rw [hsel] at h
    simp only at h
    obtain ⟨hrw, _⟩ := plain_spec h
    have had := plainSel_adequate frame p deps []
    rw [hsel] at had
    exact ⟨.many l, by rw [hrw, hsel], had, fun c' => by simp⟩

/-- … in particular a scalar selection never turns the input of such a class into a series -/
theorem C04_plain_dict_no_collapse (frame : List Name) (p : Parent) (deps : List Dep) (rw : Rw) (c : Name)
    (hsel : plainSel frame (detProj p deps []) = .one c) (h : plainDict frame p deps = some rw) :
    rw.childs = [some (.many [c])] ∧ rw.keep = true := by
  unfold plainDict at h
  rw [hsel] at h
  simp only at h
  split at h
  · cases h
  · cases h; exact ⟨rfl, rfl⟩

example : plainDict ["a", "b", "c"] (.scalar "c") [] = some { childs := [some (.many ["c"])], keep := true } ∧
    plain ["a", "b", "c"] (.scalar "c") [] = some { childs := [some (.one "c")], keep := false } ∧
    plainDict ["a", "b", "c"] (.list ["c", "a"]) [] = plain ["a", "b", "c"] (.list ["c", "a"]) [] := by decide

theorem C04_plain_labels (K : KeyedOp γ) (hid : ∀ l, K.outCols l = l) (F : Frame γ) (p : Parent) (deps : List Dep)
    (extra : List Name) (rw : Rw) (h : plain F.cols p deps extra = some rw) :
    (evalRw K.op p.cols rw F).cols = p.cols := by
  rcases plain_cases h with ⟨he, hrw⟩ | ⟨_, hrw⟩
  · rw [hrw, evalRw_nokeep, K.op_cols, hid, select_cols, he, Parent.operand_toList]
  · rw [hrw, evalRw_keep]; rfl

theorem C04_plain_values (K : KeyedOp γ) (F : Frame γ) (p : Parent) (deps : List Dep)
    (extra : List Name) (rw : Rw) (h : plain F.cols p deps extra = some rw)
    (hk : ∀ k, k ∈ K.keys → k ∈ extra ∧ k ∈ F.cols) (c : Name) (hc : c ∈ p.cols) :
    (evalRw K.op p.cols rw F).val c = (evalOrig K.op p.cols F).val c := by
  have had := plainSel_adequate F.cols p deps extra
  rcases plain_cases h with ⟨_, hrw⟩ | ⟨_, hrw⟩
  · rw [hrw, evalRw_nokeep]
    unfold evalOrig
    rw [select_val_mem hc]
    apply keyed_core K F _ had.sub (fun k hkk => had.keys k (hk k hkk).1 (hk k hkk).2)
    by_cases hcF : c ∈ F.cols
    · exact Or.inl (had.req c hc hcF)
    · exact Or.inr hcF
  · rw [hrw, evalRw_keep]
    exact keyed_values K F extra p.cols _ had hk c hc

/-- Filter: when the filter-push-down guard fires nothing happens, otherwise the rule is `plain` -/
theorem C04_filter_wf (blocked : Bool) (frame : List Name) (p : Parent) (hp : p.overFrame) (deps : List Dep) (rw : Rw)
    (h : filterRule blocked frame p deps = some rw) :
    blocked = false ∧ ∃ s, rw.childs = [some s] ∧ rw.gone = false ∧ Adequate frame [] p.cols s.toList ∧
      (rw.keep = false → s = p.operand) ∧ (∀ c, s = .one c → p = .scalar c ∧ rw.keep = false) := by
  cases blocked with
  | true => cases h
  | false => exact ⟨rfl, C04_plain_wf frame p hp deps [] rw h⟩

theorem C04_filter_labels (K : KeyedOp γ) (hid : ∀ l, K.outCols l = l) (F : Frame γ) (p : Parent) (deps : List Dep)
    (rw : Rw) (h : filterRule false F.cols p deps = some rw) : (evalRw K.op p.cols rw F).cols = p.cols :=
  C04_plain_labels K hid F p deps [] rw h

theorem C04_filter_values (K : KeyedOp γ) (hk : K.keys = []) (F : Frame γ) (p : Parent) (deps : List Dep)
    (rw : Rw) (h : filterRule false F.cols p deps = some rw) (c : Name) (hc : c ∈ p.cols) :
    (evalRw K.op p.cols rw F).val c = (evalOrig K.op p.cols F).val c :=
  C04_plain_values K F p deps [] rw h (fun k hkk => by rw [hk] at hkk; cases hkk) c hc

/-- ExplodeFrame passes its `column` as an additional column: it is kept -/
theorem C04_explode_wf (frame : List Name) (column : Name) (hc : column ∈ frame) (p : Parent) (hp : p.overFrame)
    (deps : List Dep) (rw : Rw) (h : plain frame p deps [column] = some rw) :
    ∃ s, rw.childs = [some s] ∧ column ∈ s.toList := by
  obtain ⟨s, hs, _, had, _, _⟩ := C04_plain_wf frame p hp deps [column] rw h
  exact ⟨s, hs, had.keys column (by simp) hc⟩

/-- FULL STATEMENT (false on the current tree): `C04_plain_wf` for every Projection parent.
    Over a 1-d input (`df.sum()[['a']]`: the labels of a reduction result) the parent has `ndim == 1` although its
    operand is a list, determine_column_projection collapses to the scalar `'a'`, and the rule builds
    `Sum(frame['a'])[['a']]` — a list selection of a scalar (N5: IndexError). -/
theorem C04_reduction_counterexample :
    plain ["a", "b", "c"] (.listS ["a"]) [] [] = some { childs := [some (.one "a")], keep := true } := by decide

-- non-vacuity: pruning below a pass-through operator; parent dropped when the order matches; scalar collapse
example : plain ["a", "b", "c"] (.list ["c", "a"]) [] [] = some { childs := [some (.many ["a", "c"])], keep := true } := by decide
example : plain ["a", "b", "c"] (.list ["a", "c"]) [] [] = some { childs := [some (.many ["a", "c"])], keep := false } := by decide
example : plain ["a", "b", "c"] (.scalar "b") [⟨["b"], true⟩] [] = some { childs := [some (.one "b")], keep := false } := by decide
example : plain ["a", "b", "c"] (.scalar "b") [⟨["c"], true⟩] [] = some { childs := [some (.many ["b", "c"])], keep := true } := by decide
example : plain ["a", "b"] (.list ["b", "a"]) [] [] = none := by decide

/-! ### 3. keys kept implicitly: groupby, sort_values, set_index, nlargest; dropna, drop_duplicates, shuffle,
        SetIndexBlockwise -/

theorem C04_keyed_wf (frame keys : List Name) (p : Parent) (deps : List Dep) (rw : Rw)
    (h : keyed frame keys p deps = some rw) :
    ∃ child, rw.isKeep1 child ∧ Adequate frame keys p.cols child := by
  obtain ⟨hk, _⟩ := keyed_spec h
  exact ⟨_, hk, adequate_union_contains frame p deps keys⟩

theorem C04_keyed_labels (K : KeyedOp γ) (F : Frame γ) (p : Parent) (deps : List Dep) (rw : Rw)
    (h : keyed F.cols K.keys p deps = some rw) : (evalRw K.op p.cols rw F).cols = p.cols := by
  obtain ⟨child, hk, _⟩ := C04_keyed_wf F.cols K.keys p deps rw h
  exact C04_keep1_labels K.op p.cols rw child F hk

theorem C04_keyed_values (K : KeyedOp γ) (F : Frame γ) (p : Parent) (deps : List Dep) (rw : Rw)
    (h : keyed F.cols K.keys p deps = some rw) (hkeys : ∀ k, k ∈ K.keys → k ∈ F.cols) (c : Name) (hc : c ∈ p.cols) :
    (evalRw K.op p.cols rw F).val c = (evalOrig K.op p.cols F).val c := by
  obtain ⟨child, hk, had⟩ := C04_keyed_wf F.cols K.keys p deps rw h
  exact C04_keep1_values K F K.keys p.cols child rw hk had (fun k hkk => ⟨hkk, hkeys k hkk⟩) c hc

/-- the full well-formedness statement for the keyed rules, on the semantic side -/
theorem C04_keyed_wf_sem (K : KeyedOp γ) (hm : OutMono K) (F : Frame γ) (p : Parent) (deps : List Dep) (rw : Rw)
    (h : keyed F.cols K.keys p deps = some rw) (hkeys : ∀ k, k ∈ K.keys → k ∈ F.cols)
    (hP : ∀ c, c ∈ p.cols → c ∈ K.outCols F.cols) :
    ∃ child, rw.isKeep1 child ∧ (∀ k, k ∈ K.keys → k ∈ child) ∧ (∀ c, c ∈ child → c ∈ F.cols) ∧
      (F.cols.Nodup → child.Nodup) ∧ (∀ c, c ∈ p.cols → c ∈ (K.op (F.select child)).cols) := by
  obtain ⟨child, hk, had⟩ := C04_keyed_wf F.cols K.keys p deps rw h
  exact ⟨child, hk, C04_keep1_wf K hm F K.keys p.cols child had (fun k hkk => ⟨hkk, hkeys k hkk⟩) hP⟩

-- groupby('k').sum()[['a']] over [a,b,k]: key kept although not requested (D17/D23/D24 class of defects)
example : keyed ["a", "b", "k"] ["k"] (.list ["a"]) [] = some { childs := [some (.many ["a", "k"])], keep := true } := by decide
-- a dependent that renames reports labels that do not exist in the input: ignored (D24)
example : keyed ["a", "b", "k"] ["k"] (.list ["a"]) [⟨["p_a", "p_b"], false⟩] = some { childs := [some (.many ["a", "k"])], keep := true } := by decide

theorem C04_dropna_wf (frame : List Name) (subset : Option (List Name)) (p : Parent) (deps : List Dep) (rw : Rw)
    (h : dropna frame subset p deps = some rw) :
    ∃ s child, subset = some s ∧ rw.isKeep1 child ∧ Adequate frame s p.cols child := by
  obtain ⟨s, hs, hk⟩ := dropna_spec h
  exact ⟨s, _, hs, hk, adequate_union_has frame p deps s⟩

theorem C04_dropna_labels (K : KeyedOp γ) (F : Frame γ) (subset : Option (List Name)) (p : Parent) (deps : List Dep)
    (rw : Rw) (h : dropna F.cols subset p deps = some rw) : (evalRw K.op p.cols rw F).cols = p.cols := by
  obtain ⟨s, child, _, hk, _⟩ := C04_dropna_wf F.cols subset p deps rw h
  exact C04_keep1_labels K.op p.cols rw child F hk

theorem C04_dropna_values (K : KeyedOp γ) (F : Frame γ) (p : Parent) (deps : List Dep)
    (rw : Rw) (h : dropna F.cols (some K.keys) p deps = some rw) (hkeys : ∀ k, k ∈ K.keys → k ∈ F.cols)
    (c : Name) (hc : c ∈ p.cols) : (evalRw K.op p.cols rw F).val c = (evalOrig K.op p.cols F).val c := by
  obtain ⟨s, child, hs, hk, had⟩ := C04_dropna_wf F.cols (some K.keys) p deps rw h
  cases hs
  exact C04_keep1_values K F K.keys p.cols child rw hk had (fun k hkk => ⟨hkk, hkeys k hkk⟩) c hc

-- dropna(subset=['c'])[['a']]: the subset column stays
example : dropna ["a", "b", "c"] (some ["c"]) (.list ["a"]) [] = some { childs := [some (.many ["a", "c"])], keep := true } := by decide

theorem C04_dropdup_wf (frame : List Name) (subset : Option (List Name)) (p : Parent) (deps : List Dep) (rw : Rw)
    (h : dropDup frame subset p deps = some rw) :
    ∃ s child, subset = some s ∧ rw.isKeep1 child ∧ Adequate frame s p.cols child := by
  obtain ⟨s, hs, hk⟩ := dropDup_spec h
  exact ⟨s, _, hs, hk, adequate_union_has frame p deps s⟩

theorem C04_dropdup_labels (K : KeyedOp γ) (F : Frame γ) (subset : Option (List Name)) (p : Parent) (deps : List Dep)
    (rw : Rw) (h : dropDup F.cols subset p deps = some rw) : (evalRw K.op p.cols rw F).cols = p.cols := by
  obtain ⟨s, child, _, hk, _⟩ := C04_dropdup_wf F.cols subset p deps rw h
  exact C04_keep1_labels K.op p.cols rw child F hk

theorem C04_dropdup_values (K : KeyedOp γ) (F : Frame γ) (p : Parent) (deps : List Dep)
    (rw : Rw) (h : dropDup F.cols (some K.keys) p deps = some rw) (hkeys : ∀ k, k ∈ K.keys → k ∈ F.cols)
    (c : Name) (hc : c ∈ p.cols) : (evalRw K.op p.cols rw F).val c = (evalOrig K.op p.cols F).val c := by
  obtain ⟨s, child, hs, hk, had⟩ := C04_dropdup_wf F.cols (some K.keys) p deps rw h
  cases hs
  exact C04_keep1_values K F K.keys p.cols child rw hk had (fun k hkk => ⟨hkk, hkeys k hkk⟩) c hc

example : dropDup ["a", "b", "c"] (some ["b"]) (.scalar "a") [] = some { childs := [some (.many ["a", "b"])], keep := true } := by decide

theorem C04_shuffle_wf (frame pidx : List Name) (p : Parent) (deps : List Dep) (rw : Rw)
    (h : shuffle frame pidx p deps = some rw) : ∃ child, rw.isKeep1 child ∧ Adequate frame pidx p.cols child :=
  ⟨_, shuffle_spec h, shuffle_adequate frame pidx p deps⟩

theorem C04_shuffle_labels (K : KeyedOp γ) (F : Frame γ) (p : Parent) (deps : List Dep)
    (rw : Rw) (h : shuffle F.cols K.keys p deps = some rw) : (evalRw K.op p.cols rw F).cols = p.cols := by
  obtain ⟨child, hk, _⟩ := C04_shuffle_wf F.cols K.keys p deps rw h
  exact C04_keep1_labels K.op p.cols rw child F hk

theorem C04_shuffle_values (K : KeyedOp γ) (F : Frame γ) (p : Parent) (deps : List Dep)
    (rw : Rw) (h : shuffle F.cols K.keys p deps = some rw) (hkeys : ∀ k, k ∈ K.keys → k ∈ F.cols)
    (c : Name) (hc : c ∈ p.cols) : (evalRw K.op p.cols rw F).val c = (evalOrig K.op p.cols F).val c := by
  obtain ⟨child, hk, had⟩ := C04_shuffle_wf F.cols K.keys p deps rw h
  exact C04_keep1_values K F K.keys p.cols child rw hk had (fun k hkk => ⟨hkk, hkeys k hkk⟩) c hc

example : shuffle ["a", "b", "k"] ["k"] (.list ["b"]) [] = some { childs := [some (.many ["b", "k"])], keep := true } := by decide

theorem C04_sib_wf (frame other : List Name) (p : Parent) (deps : List Dep) (rw : Rw)
    (h : setIndexBlockwise frame other p deps = some rw) : ∃ child, rw.isKeep1 child ∧ Adequate frame other p.cols child :=
  ⟨_, sib_spec h, adequate_union_has frame p deps other⟩

theorem C04_sib_labels (K : KeyedOp γ) (F : Frame γ) (p : Parent) (deps : List Dep)
    (rw : Rw) (h : setIndexBlockwise F.cols K.keys p deps = some rw) : (evalRw K.op p.cols rw F).cols = p.cols := by
  obtain ⟨child, hk, _⟩ := C04_sib_wf F.cols K.keys p deps rw h
  exact C04_keep1_labels K.op p.cols rw child F hk

theorem C04_sib_values (K : KeyedOp γ) (F : Frame γ) (p : Parent) (deps : List Dep)
    (rw : Rw) (h : setIndexBlockwise F.cols K.keys p deps = some rw) (hkeys : ∀ k, k ∈ K.keys → k ∈ F.cols)
    (c : Name) (hc : c ∈ p.cols) : (evalRw K.op p.cols rw F).val c = (evalOrig K.op p.cols F).val c := by
  obtain ⟨child, hk, had⟩ := C04_sib_wf F.cols K.keys p deps rw h
  exact C04_keep1_values K F K.keys p.cols child rw hk had (fun k hkk => ⟨hkk, hkeys k hkk⟩) c hc

/-- NLargest / NSmallest / NFirst / NLast: with ordering columns it is a keyed rule (D23), without it is `plain` -/
theorem C04_nlargest_wf (frame cols : List Name) (p : Parent) (deps : List Dep) (rw : Rw)
    (h : nlargest frame (some cols) p deps = some rw) : ∃ child, rw.isKeep1 child ∧ Adequate frame cols p.cols child :=
  C04_keyed_wf frame cols p deps rw h

example : nlargest ["a", "b", "c"] (some ["b"]) (.list ["a"]) [] = some { childs := [some (.many ["a", "b"])], keep := true } := by decide

/-- `GroupbyAggregationBase._simplify_down` (dict spec): group keys and aggregated columns stay -/
theorem C04_gbdown_wf (frame byCols argKeys child : List Name) (h : gbDown frame byCols argKeys = some child) :
    Adequate frame byCols argKeys child := by
  unfold gbDown at h
  simp only at h
  split at h
  · cases h
  · cases h
    exact adequate_filter frame byCols argKeys _
      (fun k hk => by rw [Bool.or_eq_true]; exact Or.inl (List.contains_iff_mem.mpr hk))
      (fun c hc => by rw [Bool.or_eq_true]; exact Or.inr (List.contains_iff_mem.mpr hc))

theorem C04_gbdown_values (K : KeyedOp γ) (F : Frame γ) (argKeys child : List Name)
    (h : gbDown F.cols K.keys argKeys = some child) (hkeys : ∀ k, k ∈ K.keys → k ∈ F.cols)
    (c : Name) (hc : c ∈ argKeys) (hcF : c ∈ F.cols) :
    (K.op (F.select child)).val c = (K.op F).val c := by
  have had := C04_gbdown_wf F.cols K.keys argKeys child h
  exact keyed_core K F child had.sub (fun k hk => had.keys k hk (hkeys k hk)) c (Or.inl (had.req c hc hcF))

example : gbDown ["a", "b", "c", "k"] ["k"] ["b"] = some ["b", "k"] := by decide

-- KeyedOp is inhabited by a non-trivial operator: "keep the rows whose key column k is non-null" on Option-columns
example : ∃ K : KeyedOp Nat, K.keys = ["k"] ∧ OutMono K :=
  ⟨{ keys := ["k"], outCols := id, op := fun F => ⟨F.cols, fun c => if F.cols.contains c then
        (match F.val "k" with | some _ => F.val c | none => none) else none⟩,
     T := fun v _ x => match v "k" with | some _ => x | none => none, fresh := fun _ => none,
     T_keys := by
       intro v v' h
       have : v "k" = v' "k" := h "k" (by decide)
       funext c x; simp only [this],
     op_cols := fun _ => rfl,
     op_val := by intro F c hc; simp only [hc, if_true],
     op_fresh := by intro F c hc; simp only [hc, Bool.false_eq_true, if_false] },
   rfl, fun l l' c _ hc hin => by
     rcases hc with h | h
     · exact h
     · exact absurd hin h⟩

/-! ### 4. ResetIndex (frame input): the label guard (D25) and the switch to `drop=True` -/

theorem C04_resetindex_wf (frame : List Name) (drop named : Bool) (p : Parent) (hp : p.overFrame) (deps : List Dep) (rw : Rw)
    (h : resetIndex frame drop named p deps = some rw) :
    (drop = true ∨ named = true ∨ "index" ∉ frame) ∧
    ∃ s, rw.childs = [some s] ∧ Adequate frame [] p.cols s.toList ∧ (rw.keep = true → rw.drop = drop) ∧
      (rw.keep = false → rw.drop = true ∧ s = p.operand) ∧ (∀ c, s = .one c → p = .scalar c ∧ rw.keep = false) := by
  obtain ⟨hg, rw0, h0, hrw⟩ := resetIndex_spec h
  obtain ⟨s, hs, _, had, hnk, hone⟩ := C04_plain_wf frame p hp deps [] rw0 h0
  refine ⟨hg, s, by rw [hrw]; exact hs, had, ?_, ?_, ?_⟩
  · intro hk; rw [hrw] at hk ⊢; simp only at hk ⊢; rw [if_pos hk]
  · intro hk; rw [hrw] at hk ⊢; simp only at hk ⊢
    exact ⟨by rw [hk]; rfl, hnk hk⟩
  · intro c hc; rw [hrw]; exact hone c hc

/-- the label of the former index is the same before and after pruning — what the guard of the rule protects -/
theorem C04_resetindex_label (indexName : Option Name) (frame child : List Name)
    (hsub : ∀ c, c ∈ child → c ∈ frame) (hg : indexName.isSome = true ∨ "index" ∉ frame) :
    resetLabel indexName child = resetLabel indexName frame := by
  cases indexName with
  | some n => rfl
  | none =>
    rcases hg with hg | hg
    · cases hg
    · have h1 : frame.contains "index" = false := by simpa using hg
      have h2 : child.contains "index" = false := by
        by_cases hh : child.contains "index" = true
        · exact absurd (hsub _ (List.contains_iff_mem.mp hh)) hg
        · simpa using hh
      simp only [resetLabel, h1, h2]

/-- FULL labels/values statement for `reset_index` under a Projection: every requested label — a data column or
    the former index — is present with its value, and a dropped parent leaves exactly the requested labels -/
theorem C04_resetindex_values (R : ResetOp γ) (indexName : Option Name) (hlab : R.label = resetLabel indexName)
    (F : Frame γ) (drop : Bool) (p : Parent) (hp : p.overFrame) (deps : List Dep) (rw : Rw)
    (h : resetIndex F.cols drop indexName.isSome p deps = some rw)
    (hfresh : F.cols.contains (R.label F.cols) = false)
    (c : Name) (hc : c ∈ p.cols) (hwf : c ∈ (R.op drop F).cols) :
    (evalReset R p.cols rw F).val c = ((R.op drop F).select p.cols).val c := by
  obtain ⟨hg, s, hs, had, hkd, hnk, _⟩ := C04_resetindex_wf F.cols drop indexName.isSome p hp deps rw h
  rw [select_val_mem hc]
  have hin : (F.select s.toList).cols = s.toList := rfl
  by_cases hcF : c ∈ F.cols
  · -- a data column passes through
    have hcs : c ∈ s.toList := had.req c hc hcF
    have : (R.op rw.drop (F.select s.toList)).val c = (R.op drop F).val c := by
      rw [R.op_val _ _ c (by rw [hin]; exact List.contains_iff_mem.mpr hcs),
          R.op_val _ _ c (List.contains_iff_mem.mpr hcF), select_val_mem hcs]
    by_cases hk : rw.keep = true
    · simp only [evalReset, hs, hk, if_true]; rw [select_val_mem hc]; exact this
    · have hk' : rw.keep = false := by simpa using hk
      simp only [evalReset, hs, hk', Bool.false_eq_true, if_false]; exact this
  · -- the former index: only with drop = False, and then the parent is kept and the label is stable
    have hdrop : drop = false := by
      cases drop with
      | false => rfl
      | true => rw [R.op_cols] at hwf; simp only [if_true] at hwf; exact absurd hwf hcF
    subst hdrop
    rw [R.op_cols] at hwf
    simp only [Bool.false_eq_true, if_false, List.mem_cons] at hwf
    have hcl : c = R.label F.cols := by
      rcases hwf with h1 | h1
      · exact h1
      · exact absurd h1 hcF
    have hk : rw.keep = true := by
      by_cases hk : rw.keep = true
      · exact hk
      · exfalso
        have hk' : rw.keep = false := by simpa using hk
        have := (hnk hk').2
        have hcs : c ∈ s.toList := by rw [this, Parent.operand_toList]; exact hc
        exact hcF (had.sub c hcs)
    have hd := hkd hk
    have hguard : indexName.isSome = true ∨ "index" ∉ F.cols := by
      rcases hg with h1 | h1 | h1
      · cases h1
      · exact Or.inl h1
      · exact Or.inr h1
    have hsame : R.label s.toList = R.label F.cols := by
      rw [hlab]; exact C04_resetindex_label indexName F.cols s.toList had.sub hguard
    simp only [evalReset, hs, hk, if_true, hd]
    rw [select_val_mem hc, hcl, ← hsame]
    have hfresh' : (F.select s.toList).cols.contains (R.label (F.select s.toList).cols) = false := by
      rw [hin, hsame]
      by_cases hh : s.toList.contains (R.label F.cols) = true
      · have := had.sub _ (List.contains_iff_mem.mp hh)
        rw [List.contains_iff_mem.mpr this] at hfresh; cases hfresh
      · simpa using hh
    have e1 := R.op_idx (F.select s.toList) hfresh'
    rw [hin] at e1
    rw [e1, hsame, R.op_idx F hfresh]

theorem C04_resetindex_labels (R : ResetOp γ) (F : Frame γ) (drop named : Bool) (p : Parent) (hp : p.overFrame)
    (deps : List Dep) (rw : Rw) (h : resetIndex F.cols drop named p deps = some rw) :
    (evalReset R p.cols rw F).cols = p.cols := by
  obtain ⟨_, s, hs, _, _, hnk, _⟩ := C04_resetindex_wf F.cols drop named p hp deps rw h
  by_cases hk : rw.keep = true
  · simp only [evalReset, hs, hk, if_true]; rfl
  · have hk' : rw.keep = false := by simpa using hk
    obtain ⟨hd, hso⟩ := hnk hk'
    simp only [evalReset, hs, hk', Bool.false_eq_true, if_false, hd]
    rw [R.op_cols]; simp only [if_true]
    rw [select_cols, hso, Parent.operand_toList]

-- the guard: with an unnamed index and a column called 'index' nothing is pushed (the label would change)
example : resetIndex ["b", "index", "a"] false false (.list ["a"]) [] = none := by decide
example : resetIndex ["a", "b"] false false (.list ["index", "a"]) [] =
    some { childs := [some (.many ["a"])], keep := true, drop := false } := by decide
example : resetIndex ["a", "b"] false false (.list ["a"]) [] =
    some { childs := [some (.many ["a"])], keep := false, drop := true } := by decide
/-- without the guard the label changes: 'level_0' before, 'index' after pruning the column 'index' away (D25) -/
theorem C04_resetindex_unguarded_counterexample :
    resetLabel none ["b", "index", "a"] = "level_0" ∧ resetLabel none ["a"] = "index" := by decide

/-! ### 5. sources absorbing the projection -/

theorem C04_io_wf (selfCols : List Name) (p : Parent) (deps : List Dep) (rw : Rw) (h : ioAbsorb selfCols p deps = some rw) :
    ∃ child, rw.childs = [some (.many child)] ∧ Adequate selfCols [] p.cols child ∧
      (rw.keep = false → Sel.many child = p.operand) := by
  obtain ⟨hc, hk, _⟩ := ioAbsorb_spec h
  refine ⟨_, hc, adequate_union_contains selfCols p deps [], ?_⟩
  intro hf; rw [hk] at hf; simpa using hf

theorem C04_io_labels (S : SourceOp γ) (selfCols : List Name) (p : Parent) (deps : List Dep) (rw : Rw)
    (h : ioAbsorb selfCols p deps = some rw) : (evalSource S p.cols rw).cols = p.cols := by
  obtain ⟨child, hc, _, hnk⟩ := C04_io_wf selfCols p deps rw h
  by_cases hk : rw.keep = true
  · simp only [evalSource, hc, hk, if_true]; rfl
  · have hk' : rw.keep = false := by simpa using hk
    simp only [evalSource, hc, hk', Bool.false_eq_true, if_false, Sel.toList]
    rw [S.read_cols]
    have := hnk hk'
    have h2 : (Sel.many child).toList = p.operand.toList := by rw [this]
    rw [Parent.operand_toList] at h2
    exact h2

theorem C04_io_values (S : SourceOp γ) (selfCols : List Name) (p : Parent) (deps : List Dep) (rw : Rw)
    (h : ioAbsorb selfCols p deps = some rw) (c : Name) (hc : c ∈ p.cols) (hwf : c ∈ selfCols) :
    (evalSource S p.cols rw).val c = ((S.read selfCols).select p.cols).val c := by
  obtain ⟨child, hch, had, _⟩ := C04_io_wf selfCols p deps rw h
  have hcc : c ∈ child := had.req c hc hwf
  rw [select_val_mem hc, S.read_val selfCols c (List.contains_iff_mem.mpr hwf)]
  by_cases hk : rw.keep = true
  · simp only [evalSource, hch, hk, if_true, Sel.toList]
    rw [select_val_mem hc, S.read_val child c (List.contains_iff_mem.mpr hcc)]
  · have hk' : rw.keep = false := by simpa using hk
    simp only [evalSource, hch, hk', Bool.false_eq_true, if_false, Sel.toList]
    rw [S.read_val child c (List.contains_iff_mem.mpr hcc)]

example : ioAbsorb ["a", "b", "c"] (.list ["c", "a"]) [] = some { childs := [some (.many ["a", "c"])], keep := true } := by decide
example : ioAbsorb ["a", "b", "c"] (.scalar "b") [] = some { childs := [some (.many ["b"])], keep := true } := by decide
example : ioAbsorb ["a", "b", "c"] (.list ["a", "c"]) [] = some { childs := [some (.many ["a", "c"])], keep := false } := by decide

/-! ### 6. relabelling operators: rename, add_prefix, add_suffix -/

/-- rename: the source column of every requested label is kept (reverse mapping restricted to existing columns, D21) -/
theorem C04_rename_wf (frame : List Name) (mapping : List (Name × Name)) (hnd : (mapping.map (·.1)).Nodup)
    (p : Parent) (deps : List Dep) (rw : Rw) (h : rename frame mapping p deps = some rw) :
    ∃ child, rw.isKeep1 child ∧ (∀ c, c ∈ child → c ∈ frame) ∧ (frame.Nodup → child.Nodup) ∧
      ∀ c, c ∈ frame → (∀ c', c' ∈ frame → renameFwd mapping c' = renameFwd mapping c → c' = c) →
        renameFwd mapping c ∈ p.cols → c ∈ child := by
  refine ⟨_, rename_spec h, fun c hc => (List.mem_filter.mp hc).1,
    fun hn => List.Nodup.sublist List.filter_sublist hn, ?_⟩
  intro c hc hinj hreq
  exact rename_sources hnd hc hinj hreq

theorem C04_rename_labels (R : RelabelOp γ) (F : Frame γ) (mapping : List (Name × Name)) (p : Parent) (deps : List Dep)
    (rw : Rw) (h : rename F.cols mapping p deps = some rw) : (evalRw R.op p.cols rw F).cols = p.cols :=
  C04_keep1_labels R.op p.cols rw _ F (rename_spec h)

/-- every requested label that the rename produces from exactly one input column keeps its value -/
theorem C04_rename_values (R : RelabelOp γ) (mapping : List (Name × Name)) (hf : R.f = renameFwd mapping)
    (hnd : (mapping.map (·.1)).Nodup) (F : Frame γ) (p : Parent) (deps : List Dep) (rw : Rw)
    (h : rename F.cols mapping p deps = some rw) (c : Name) (hc : c ∈ F.cols)
    (hinj : ∀ c', c' ∈ F.cols → R.f c' = R.f c → c' = c) (hreq : R.f c ∈ p.cols) :
    (evalRw R.op p.cols rw F).val (R.f c) = (evalOrig R.op p.cols F).val (R.f c) := by
  obtain ⟨child, hk, hsub, _, hsrc⟩ := C04_rename_wf F.cols mapping hnd p deps rw h
  have hcc : c ∈ child := hsrc c hc (by rw [← hf]; exact hinj) (by rw [← hf]; exact hreq)
  rw [evalRw_keep1 R.op p.cols rw F child hk]
  unfold evalOrig
  rw [select_val_mem hreq, select_val_mem hreq]
  exact relabel_values R F child hsub c hcc hinj

-- rename chain / swap / a mapping key that is not a column (D21)
example : rename ["a", "b", "c"] [("a", "b"), ("b", "a")] (.list ["a"]) [] = some { childs := [some (.many ["b"])], keep := true } := by decide
example : rename ["a", "b", "c"] [("a", "A"), ("zz", "a")] (.list ["A"]) [] = some { childs := [some (.many ["a"])], keep := true } := by decide
example : rename ["a", "b", "c"] [("zz", "b"), ("b", "B")] (.list ["B", "a"]) [] = some { childs := [some (.many ["a", "b"])], keep := true } := by decide

theorem C04_prefix_wf (pre : String) (frame : List Name) (p : Parent) (deps : List Dep) (rw : Rw)
    (h : affix false pre.length frame p deps = some rw) :
    ∃ child, rw.isKeep1 child ∧ (∀ c, c ∈ child → c ∈ frame) ∧ (frame.Nodup → child.Nodup) ∧
      ∀ c, c ∈ frame → pre ++ c ∈ p.cols → c ∈ child := by
  have hs := affix_spec h
  simp only [Bool.false_eq_true, if_false] at hs
  exact ⟨_, hs, fun c hc => (List.mem_filter.mp hc).1, fun hn => List.Nodup.sublist List.filter_sublist hn,
    fun c hc hreq => prefix_sources hc hreq⟩

theorem C04_prefix_labels (R : RelabelOp γ) (F : Frame γ) (n : Nat) (p : Parent) (deps : List Dep)
    (rw : Rw) (h : affix false n F.cols p deps = some rw) : (evalRw R.op p.cols rw F).cols = p.cols :=
  C04_keep1_labels R.op p.cols rw _ F (affix_spec h)

theorem C04_prefix_values (R : RelabelOp γ) (pre : String) (hf : R.f = fun c => pre ++ c) (F : Frame γ) (p : Parent)
    (deps : List Dep) (rw : Rw) (h : affix false pre.length F.cols p deps = some rw)
    (c : Name) (hc : c ∈ F.cols) (hreq : pre ++ c ∈ p.cols) :
    (evalRw R.op p.cols rw F).val (pre ++ c) = (evalOrig R.op p.cols F).val (pre ++ c) := by
  obtain ⟨child, hk, hsub, _, hsrc⟩ := C04_prefix_wf pre F.cols p deps rw h
  have hcc : c ∈ child := hsrc c hc hreq
  rw [evalRw_keep1 R.op p.cols rw F child hk]
  unfold evalOrig
  rw [select_val_mem hreq, select_val_mem hreq]
  have hfc : R.f c = pre ++ c := by rw [hf]
  rw [← hfc]
  apply relabel_values R F child hsub c hcc
  intro c' _ he
  rw [hf] at he
  exact append_left_inj' he

/-- the suffix theorems hold for every suffix, the empty one included (full since D38) -/
theorem C04_suffix_wf (suf : String) (frame : List Name) (p : Parent) (deps : List Dep) (rw : Rw)
    (h : affix true suf.length frame p deps = some rw) :
    ∃ child, rw.isKeep1 child ∧ (∀ c, c ∈ child → c ∈ frame) ∧ (frame.Nodup → child.Nodup) ∧
      ∀ c, c ∈ frame → c ++ suf ∈ p.cols → c ∈ child := by
  have hsp := affix_spec h
  simp only [if_true] at hsp
  exact ⟨_, hsp, fun c hc => (List.mem_filter.mp hc).1, fun hn => List.Nodup.sublist List.filter_sublist hn,
    fun c hc hreq => suffix_sources hc hreq⟩

theorem C04_suffix_labels (R : RelabelOp γ) (F : Frame γ) (n : Nat) (p : Parent) (deps : List Dep)
    (rw : Rw) (h : affix true n F.cols p deps = some rw) : (evalRw R.op p.cols rw F).cols = p.cols :=
  C04_keep1_labels R.op p.cols rw _ F (affix_spec h)

theorem C04_suffix_values (R : RelabelOp γ) (suf : String) (hf : R.f = fun c => c ++ suf)
    (F : Frame γ) (p : Parent) (deps : List Dep) (rw : Rw) (h : affix true suf.length F.cols p deps = some rw)
    (c : Name) (hc : c ∈ F.cols) (hreq : c ++ suf ∈ p.cols) :
    (evalRw R.op p.cols rw F).val (c ++ suf) = (evalOrig R.op p.cols F).val (c ++ suf) := by
  obtain ⟨child, hk, hsub, _, hsrc⟩ := C04_suffix_wf suf F.cols p deps rw h
  have hcc : c ∈ child := hsrc c hc hreq
  rw [evalRw_keep1 R.op p.cols rw F child hk]
  unfold evalOrig
  rw [select_val_mem hreq, select_val_mem hreq]
  have hfc : R.f c = c ++ suf := by rw [hf]
  rw [← hfc]
  apply relabel_values R F child hsub c hcc
  intro c' _ he
  rw [hf] at he
  exact append_right_inj' he

-- the empty suffix (D38): the requested column stays
example : affix true 0 ["a", "b"] (.list ["a"]) [] = some { childs := [some (.many ["a"])], keep := true } := by decide

-- prefix + set_index: add_prefix('p_') then set_index('p_k')[['p_a']] — each rule keeps what the next one needs
example : keyed ["p_a", "p_b", "p_k"] ["p_k"] (.list ["p_a"]) [] = some { childs := [some (.many ["p_a", "p_k"])], keep := true } := by decide
example : affix false 2 ["a", "b", "k"] (.list ["p_a", "p_k"]) [] = some { childs := [some (.many ["a", "k"])], keep := true } := by decide
example : affix true 2 ["a", "b", "k"] (.list ["k_s"]) [⟨["b_s"], true⟩] = some { childs := [some (.many ["b", "k"])], keep := true } := by decide

/-! ### 7. Assign -/

theorem C04_assign_wf (frame keys : List Name) (p : Parent) (deps : List Dep) (rw : Rw)
    (h : assign frame keys p deps = some rw) :
    rw.keep = true ∧
    ((rw.gone = true ∧ ∀ k, k ∈ keys → k ∉ p.cols) ∨
     (rw.gone = false ∧ ∃ newKeys child, rw.keys = some newKeys ∧ rw.childs = [some (.many child)] ∧
        (∀ k, k ∈ newKeys → k ∈ keys) ∧ (∀ k, k ∈ keys → k ∈ p.cols → k ∈ newKeys) ∧
        Adequate frame [] (p.cols.filter (fun c => !keys.contains c)) child)) := by
  cases assign_spec h with
  | gone hg hc hk hno =>
    exact ⟨hk, Or.inl ⟨hg, fun k hk1 hk2 => hno k hk1 (parent_mem_union hk2)⟩⟩
  | pruned newKeys hg hk hkeys hc hnew =>
    exact ⟨hk, Or.inr ⟨hg, newKeys, _, hkeys, hc, fun k hk1 => ((hnew k).mp hk1).1,
      fun k hk1 hk2 => (hnew k).mpr ⟨hk1, parent_mem_union hk2⟩, assign_child_adequate frame keys p deps⟩⟩

theorem C04_assign_labels (A : AssignOp γ) (kv : List (Name × γ)) (F : Frame γ) (p : Parent) (deps : List Dep) (rw : Rw)
    (_h : assign F.cols (kv.map (·.1)) p deps = some rw) : (evalAssign A kv p.cols rw F).cols = p.cols := by
  unfold evalAssign
  split <;> rfl

theorem C04_assign_values (A : AssignOp γ) (kv : List (Name × γ)) (F : Frame γ) (p : Parent) (deps : List Dep) (rw : Rw)
    (h : assign F.cols (kv.map (·.1)) p deps = some rw) (c : Name) (hc : c ∈ p.cols) (hwf : c ∈ (A.op kv F).cols) :
    (evalAssign A kv p.cols rw F).val c = ((A.op kv F).select p.cols).val c :=
  assign_values A kv F p deps rw h c hc hwf

-- keys vs inputs; the input projection is sorted; the "same projection twice" guard
example : assign ["b", "a", "c"] ["z"] (.list ["z", "c", "b"]) [] =
    some { childs := [some (.many ["b", "c"])], keep := true, keys := some ["z"] } := by decide
example : assign ["a", "b", "c"] ["z", "y"] (.list ["y", "a"]) [] =
    some { childs := [some (.many ["a"])], keep := true, keys := some ["y"] } := by decide
example : assign ["a", "b", "c"] ["z"] (.list ["a"]) [] = some { childs := [none], keep := true, gone := true } := by decide
example : assign ["a", "b"] ["z"] (.list ["b", "z", "a"]) [] = none := by decide

/-! ### 8. column-wise binary operators: combine_first, Binop -/

theorem C04_combinefirst_wf (frame other : List Name) (p : Parent) (deps : List Dep) (rw : Rw)
    (h : combineFirst frame other p deps = some rw) :
    ∃ fc oc, rw.childs = [some (.many fc), some (.many oc)] ∧ rw.keep = true ∧
      Adequate frame [] p.cols fc ∧ Adequate other [] p.cols oc := by
  obtain ⟨hc, hk⟩ := combineFirst_spec h
  exact ⟨_, _, hc, hk, adequate_union_has frame p deps [], adequate_union_has other p deps []⟩

theorem C04_combinefirst_labels (B : BinOp γ) (X Y : Frame γ) (p : Parent) (deps : List Dep) (rw : Rw)
    (h : combineFirst X.cols Y.cols p deps = some rw) : (evalBin B p.cols rw X Y).cols = p.cols := by
  obtain ⟨hc, _⟩ := combineFirst_spec h
  simp only [evalBin, hc]; rfl

theorem C04_combinefirst_values (B : BinOp γ) (X Y : Frame γ) (p : Parent) (deps : List Dep) (rw : Rw)
    (h : combineFirst X.cols Y.cols p deps = some rw) (c : Name) (hc : c ∈ p.cols) :
    (evalBin B p.cols rw X Y).val c = ((B.op X Y).select p.cols).val c := by
  obtain ⟨hch, _⟩ := combineFirst_spec h
  simp only [evalBin, hch, selOpt, Sel.toList]
  rw [select_val_mem hc, select_val_mem hc]
  have hh : (detProj p deps []).has c = true := detProj_has (parent_mem_union hc)
  exact binop_values B X Y _ _ c (filter_contains_of_pred hh) (filter_contains_of_pred hh)

example : combineFirst ["a", "b", "c"] ["b", "c", "k"] (.list ["k", "b"]) [] =
    some { childs := [some (.many ["b"]), some (.many ["b", "k"])], keep := true } := by decide

/-- OpAlignPartitions / MethodOperatorAlign (binary operators on frames that are not co-aligned): BOTH operands are
    projected, each onto the requested columns it has (D32) -/
theorem C04_opalign_wf (frame : List Name) (other : Option (List Name)) (p : Parent) (deps : List Dep) (rw : Rw)
    (h : opAlign frame other p deps = some rw) :
    ∃ oc0 fc oc, other = some oc0 ∧ rw.childs = [some (.many fc), some (.many oc)] ∧ rw.keep = true ∧
      Adequate frame [] p.cols fc ∧ Adequate oc0 [] p.cols oc := by
  obtain ⟨oc0, ho, hrw⟩ := opAlign_spec h
  exact ⟨oc0, _, _, ho, by rw [hrw], by rw [hrw], adequate_union_contains frame p deps [], adequate_union_contains oc0 p deps []⟩

theorem C04_opalign_labels (B : BinOp γ) (X Y : Frame γ) (p : Parent) (deps : List Dep) (rw : Rw)
    (h : opAlign X.cols (some Y.cols) p deps = some rw) : (evalBin B p.cols rw X Y).cols = p.cols := by
  obtain ⟨_, _, hrw⟩ := opAlign_spec h
  rw [hrw]; rfl

theorem C04_opalign_values (B : BinOp γ) (X Y : Frame γ) (p : Parent) (deps : List Dep) (rw : Rw)
    (h : opAlign X.cols (some Y.cols) p deps = some rw) (c : Name) (hc : c ∈ p.cols) :
    (evalBin B p.cols rw X Y).val c = ((B.op X Y).select p.cols).val c := by
  obtain ⟨oc0, ho, hrw⟩ := opAlign_spec h
  cases ho
  rw [hrw]
  simp only [evalBin, selOpt_many]
  rw [select_val_mem hc, select_val_mem hc]
  have hh : (fun x => (detProj p deps []).toList.contains x) c = true := detProj_contains.mpr (parent_mem_union hc)
  exact binop_values B X Y _ _ c (filter_contains_of_pred hh) (filter_contains_of_pred hh)

example : opAlign ["a", "b"] (some ["a", "b"]) (.list ["a"]) [] =
    some { childs := [some (.many ["a"]), some (.many ["a"])], keep := true } := by decide
example : opAlign ["a", "b"] (some ["b", "c"]) (.list ["a"]) [] =
    some { childs := [some (.many ["a"]), some (.many [])], keep := true } := by decide

/-- FULL STATEMENT (false on the current tree): every projection `Binop._simplify_up` places on an operand selects
    columns that operand has.
    The rule projects BOTH frame operands onto the requested *output* columns; an operand that lacks one of them
    (frames with different column sets: `(df[['a','b']] + df[['b','c']])[['a']]`) gets an impossible projection
    (N7: AssertionError / KeyError). -/
theorem C04_binop_wf_partial (selfCols : List Name) (left right : Option (List Name)) (p : Parent) (deps : List Dep) (rw : Rw)
    (h : binop selfCols left right p deps = some rw)
    (hl : ∀ lc, left = some lc → ∀ c, c ∈ selfCols → c ∈ lc) (hr : ∀ rc, right = some rc → ∀ c, c ∈ selfCols → c ∈ rc) :
    rw.keep = true ∧ ∃ l r, rw.childs = [l, r] ∧
      (∀ s, l = some s → ∃ cs lc, s = .many cs ∧ left = some lc ∧ (∀ c, c ∈ cs → c ∈ lc) ∧ (selfCols.Nodup → cs.Nodup) ∧
          ∀ c, c ∈ p.cols → c ∈ selfCols → c ∈ cs) ∧
      (∀ s, r = some s → ∃ cs rc, s = .many cs ∧ right = some rc ∧ (∀ c, c ∈ cs → c ∈ rc) ∧ (selfCols.Nodup → cs.Nodup) ∧
          ∀ c, c ∈ p.cols → c ∈ selfCols → c ∈ cs) := by
  have had := adequate_union_contains selfCols p deps []
  have hrw := binop_spec h
  refine ⟨by rw [hrw], _, _, by rw [hrw], ?_, ?_⟩
  · intro s hs
    obtain ⟨hs1, lc, hlc⟩ := binopSide_some hs
    exact ⟨_, lc, hs1, hlc, fun c hc => hl lc hlc c (had.sub c hc), had.nodup, had.req⟩
  · intro s hs
    obtain ⟨hs1, rc, hrc⟩ := binopSide_some hs
    exact ⟨_, rc, hs1, hrc, fun c hc => hr rc hrc c (had.sub c hc), had.nodup, had.req⟩

theorem C04_binop_counterexample :
    binop ["a", "b", "c"] (some ["a", "b"]) (some ["b", "c"]) (.list ["a"]) [] =
      some { childs := [some (.many ["a"]), some (.many ["a"])], keep := true } := by decide

theorem C04_binop_values_partial (B : BinOp γ) (X Y : Frame γ) (selfCols : List Name) (p : Parent) (deps : List Dep) (rw : Rw)
    (h : binop selfCols (some X.cols) (some Y.cols) p deps = some rw)
    (c : Name) (hc : c ∈ p.cols) (hcs : c ∈ selfCols) (hx : c ∈ X.cols) (hy : c ∈ Y.cols) :
    (evalBin B p.cols rw X Y).val c = ((B.op X Y).select p.cols).val c := by
  have hmem : c ∈ selfCols.filter ((detProj p deps []).toList.contains ·) :=
    (adequate_union_contains selfCols p deps []).req c hc hcs
  have hrw := binop_spec h
  rw [hrw]
  simp only [evalBin]
  rw [select_val_mem hc, select_val_mem hc]
  have side : ∀ (Z : Frame γ), c ∈ Z.cols →
      (selOpt (binopSide (selfCols.filter ((detProj p deps []).toList.contains ·)) (some Z.cols)) Z).cols.contains c
          = Z.cols.contains c ∧
      (selOpt (binopSide (selfCols.filter ((detProj p deps []).toList.contains ·)) (some Z.cols)) Z).val c = Z.val c := by
    intro Z hz
    cases hs : binopSide (selfCols.filter ((detProj p deps []).toList.contains ·)) (some Z.cols) with
    | none => exact ⟨rfl, rfl⟩
    | some s =>
      obtain ⟨hs1, _⟩ := binopSide_some hs
      subst hs1
      refine ⟨?_, ?_⟩
      · show (selfCols.filter ((detProj p deps []).toList.contains ·)).contains c = Z.cols.contains c
        rw [List.contains_iff_mem.mpr hmem, List.contains_iff_mem.mpr hz]
      · exact select_val_mem hmem
  exact binop_values' B X Y _ _ c (side X hx).1 (fun _ => (side X hx).2) (side Y hy).1 (fun _ => (side Y hy).2)

theorem C04_binop_labels (B : BinOp γ) (X Y : Frame γ) (selfCols : List Name) (left right : Option (List Name))
    (p : Parent) (deps : List Dep) (rw : Rw) (h : binop selfCols left right p deps = some rw) :
    (evalBin B p.cols rw X Y).cols = p.cols := by
  rw [binop_spec h]; rfl

example : binop ["a", "b", "c"] (some ["a", "b", "c"]) none (.list ["c", "a"]) [] =
    some { childs := [some (.many ["a", "c"]), none], keep := true } := by decide

/-! ### 9. AsType -/

theorem C04_astype_labels (A : AsTypeOp γ) (F : Frame γ) (dkeys : Option (List Name)) (p : Parent) (hp : p.overFrame)
    (deps : List Dep) (rw : Rw) (h : astype F.cols dkeys p deps = some rw) : (evalAsType A p.cols rw F).cols = p.cols := by
  rcases astype_spec h with ⟨_, hrw⟩ | ⟨_, ⟨l, _, hrw⟩ | ⟨s, hs, hrw⟩⟩
  · rw [hrw]; rfl
  · rw [hrw]; rfl
  · rw [hrw]
    simp only [evalAsType, Bool.false_eq_true, if_false, Sel.toList]
    rw [A.op_cols, select_cols]
    have := (C04_detproj_collapse p hp deps [] s hs).1
    rw [this]; rfl

/-- every requested column is cast exactly when it was cast before -/
theorem C04_astype_values (A : AsTypeOp γ) (F : Frame γ) (dkeys : Option (List Name)) (p : Parent)
    (deps : List Dep) (rw : Rw) (h : astype F.cols dkeys p deps = some rw)
    (c : Name) (hc : c ∈ p.cols) (hcF : c ∈ F.cols) :
    (evalAsType A p.cols rw F).val c = ((A.op dkeys F).select p.cols).val c := by
  have hhas : (detProj p deps []).has c = true := detProj_has (parent_mem_union hc)
  have hcF' : F.cols.contains c = true := List.contains_iff_mem.mpr hcF
  rw [select_val_mem hc, A.op_val dkeys F c hcF']
  -- the cast flag of `c` survives the filtering of the dtype dict
  have hflag : castFlag (dkeys.map (·.filter ((detProj p deps []).toList.contains ·))) c = castFlag dkeys c := by
    cases dkeys with
    | none => rfl
    | some l => exact filter_contains_of_pred (detProj_contains.mpr (parent_mem_union hc))
  rcases astype_spec h with ⟨hg, hrw⟩ | ⟨_, ⟨l, hl, hrw⟩ | ⟨s, hs, hrw⟩⟩
  · -- no requested column is cast
    rw [hrw]
    simp only [evalAsType, if_true]
    rw [select_val_mem hc, ← hflag, hg]
    show F.val c = A.cast false c (F.val c)
    rw [A.cast_false]
  · rw [hrw]
    simp only [evalAsType, Bool.false_eq_true, if_false, if_true, Sel.toList_many]
    have hcl : c ∈ F.cols.filter (l.contains ·) := by
      rw [List.mem_filter]; refine ⟨hcF, ?_⟩
      rw [hl] at hhas; exact hhas
    rw [select_val_mem hc, A.op_val _ _ c (by rw [select_cols]; exact List.contains_iff_mem.mpr hcl),
      select_val_mem hcl, hflag]
  · rw [hrw]
    simp only [evalAsType, Bool.false_eq_true, if_false, Sel.toList_one]
    obtain ⟨hu, _⟩ := detProj_one hs
    have hcs : c = s := by
      have := parent_mem_union (deps := deps) (extra := []) hc
      rw [hu] at this; simpa using this
    subst hcs
    have hcl : c ∈ [c] := by simp
    rw [A.op_val _ _ c (by rw [select_cols]; exact List.contains_iff_mem.mpr hcl), select_val_mem hcl, hflag]

/-- the surviving dtype keys are columns of the pruned input (pandas refuses other keys), for every request —
    dtype keys are matched against the labels of the request, also when it collapsed to one label (D33) -/
theorem C04_astype_wf (frame : List Name) (dkeys : Option (List Name)) (p : Parent) (hp : p.overFrame)
    (deps : List Dep) (rw : Rw)
    (h : astype frame dkeys p deps = some rw) (hd : ∀ l, dkeys = some l → ∀ k, k ∈ l → k ∈ frame)
    (hreq : ∀ c, c ∈ p.cols → c ∈ frame) :
    rw.gone = true ∨
    ∃ s, rw.childs = [some s] ∧ Adequate frame [] p.cols s.toList ∧ ∀ l, rw.keys = some l → ∀ k, k ∈ l → k ∈ s.toList := by
  rcases astype_spec h with ⟨_, hrw⟩ | ⟨_, ⟨l, hl, hrw⟩ | ⟨s, hs, hrw⟩⟩
  · left; rw [hrw]
  · right
    have ht := detProj_toList p deps []
    rw [hl] at ht; simp only [Sel.toList] at ht
    refine ⟨_, by rw [hrw], ?_, ?_⟩
    · have := adequate_union_contains frame p deps []
      rw [detProj_toList, ← ht] at this
      exact this
    · intro l' hl' k hk
      rw [hrw] at hl'
      simp only at hl'
      cases dkeys with
      | none => cases hl'
      | some dl =>
        simp only [Option.map_some, Option.some.injEq] at hl'
        subst hl'
        rw [List.mem_filter, hl] at hk
        simp only [Sel.toList, List.mem_filter]
        exact ⟨hd dl rfl k hk.1, hk.2⟩
  · right
    obtain ⟨hu, _⟩ := detProj_one hs
    have hps := (C04_detproj_collapse p hp deps [] s hs).1
    have hsf : s ∈ frame := hreq s (by rw [hps]; simp [Parent.cols])
    refine ⟨_, by rw [hrw], ?_, ?_⟩
    · refine ⟨?_, ?_, ?_, ?_⟩
      · intro c hc
        have : c = s := by simpa [Sel.toList] using hc
        rw [this]; exact hsf
      · intro _; simp [Sel.toList]
      · intro k hk _; cases hk
      · intro c hc _
        have := parent_mem_union (deps := deps) (extra := []) hc
        rw [hu] at this
        simpa [Sel.toList] using this
    · intro l' hl' k hk
      rw [hrw] at hl'
      simp only at hl'
      cases dkeys with
      | none => cases hl'
      | some dl =>
        simp only [Option.map_some, Option.some.injEq] at hl'
        subst hl'
        rw [List.mem_filter, hs] at hk
        simpa [Sel.toList] using hk.2

-- D33: a dtype key that is a substring of the selected label is not kept; here no selected column is cast at all
example : astype ["a", "ab"] (some ["a"]) (.scalar "ab") [] = some { childs := [none], keep := true, gone := true } := by decide
example : astype ["a", "ab"] (some ["a", "ab"]) (.scalar "ab") [] =
    some { childs := [some (.one "ab")], keep := false, keys := some ["ab"] } := by decide
example : astype ["a", "b", "c"] (some ["a", "b"]) (.list ["c", "a"]) [] =
    some { childs := [some (.many ["a", "c"])], keep := true, keys := some ["a"] } := by decide
example : astype ["a", "b", "c"] (some ["a"]) (.list ["c"]) [] = some { childs := [none], keep := true, gone := true } := by decide

/-! ### 10. Merge (Projection / Index parent) -/

/-- what holds for EVERY merge: both pushed lists are duplicate-free sub-schemas (D1) and keep the join keys -/
theorem C04_merge_wf (m : MergeP) (L R : List Name) (hL : L.Nodup) (hR : R.Nodup) (p : Parent) (deps : List Dep) (rw : Rw)
    (h : merge m L R p deps = some rw) :
    ∃ pl pr, rw.childs = [some (.many pl), some (.many pr)] ∧ rw.keep = true ∧
      (∀ c, c ∈ pl → c ∈ L) ∧ (∀ c, c ∈ pr → c ∈ R) ∧ pl.Nodup ∧ pr.Nodup ∧
      (∀ k, k ∈ m.leftOn → k ∈ L → k ∈ pl) ∧ (∀ k, k ∈ m.rightOn → k ∈ R → k ∈ pr) := by
  have hrw := merge_spec h
  refine ⟨_, _, by rw [hrw], by rw [hrw], merge_left_sub m L R _ hR, merge_right_sub m L R _ hR,
    merge_left_nodup m L R _ hL hR, merge_right_nodup m L R _ hL hR,
    fun k hk hkL => merge_left_keys m L R _ hR hk hkL, fun k hk hkR => merge_right_keys m L R _ hR hk hkR⟩

/-- FULL STATEMENT (false on the current tree): `∀ m L R …, ℓ ∈ p.cols → ℓ ∈ mergeLabels m L R → ℓ ∈ mergeLabels m pl pr`
    (every requested label is still produced, with its suffix).
    With `left_on != right_on`, a key column that also exists on the other side is kept through `col in left_on`
    without its collision partner, so the suffixed label disappears:
    `L.merge(R, left_on='b', right_on='k2')[['b_x']]` raises KeyError (N1). -/
theorem C04_merge_labels_partial (m : MergeP) (L R : List Name) (hR : R.Nodup) (hkeys : KeysDoNotCollide m L R)
    (p : Parent) (deps : List Dep) (rw : Rw) (h : merge m L R p deps = some rw) :
    ∃ pl pr, rw.childs = [some (.many pl), some (.many pr)] ∧
      ∀ l, l ∈ p.cols → l ∈ mergeLabels m L R → l ∈ mergeLabels m pl pr := by
  have hrw := merge_spec h
  refine ⟨_, _, by rw [hrw], ?_⟩
  intro l hl hml
  have hproj : (detProj p deps []).toList.contains l = true := detProj_contains.mpr (parent_mem_union hl)
  unfold mergeLabels at hml ⊢
  rw [List.mem_append] at hml ⊢
  rcases hml with hml | hml
  · left
    rw [List.mem_map] at hml ⊢
    obtain ⟨c, hc, hcl⟩ := hml
    have hsrc := merge_left_source m L R _ hR hkeys.1 hc (by rw [hcl]; exact hproj)
    exact ⟨c, hsrc.1, by rw [← hcl]; exact labelL_pruned m R _ c (merge_right_sub m L R _ hR) hsrc.2⟩
  · right
    rw [List.mem_map] at hml ⊢
    obtain ⟨c, hc, hcl⟩ := hml
    rw [List.mem_filter] at hc
    have hsrc := merge_right_source m L R _ hR hkeys.2 hc.1 (by rw [hcl]; exact hproj)
    exact ⟨c, List.mem_filter.mpr ⟨hsrc.1, hc.2⟩,
      by rw [← hcl]; exact labelR_pruned m L _ c (merge_left_sub m L R _ hR) hsrc.2⟩

theorem C04_merge_labels (M : MergeOp γ) (X Y : Frame γ) (p : Parent) (deps : List Dep) (rw : Rw)
    (h : merge M.m X.cols Y.cols p deps = some rw) : (evalMerge M p.cols rw X Y).cols = p.cols := by
  rw [merge_spec h]; rfl

/-- values, left side: a requested label that carries a left column still carries it, matched by the same keys.
    (`MergeOp` speaks about joins with duplicate-free result labels: `hlnd`; the pruned join has them too,
    `mergeLabels_pruned_nodup`.) -/
theorem C04_merge_values_left_partial (M : MergeOp γ) (X Y : Frame γ) (hL : X.cols.Nodup) (hR : Y.cols.Nodup)
    (hlnd : (mergeLabels M.m X.cols Y.cols).Nodup)
    (hkeys : KeysDoNotCollide M.m X.cols Y.cols) (hlo : ∀ k, k ∈ M.m.leftOn → k ∈ X.cols) (hro : ∀ k, k ∈ M.m.rightOn → k ∈ Y.cols)
    (p : Parent) (deps : List Dep) (rw : Rw) (h : merge M.m X.cols Y.cols p deps = some rw)
    (c : Name) (hc : c ∈ X.cols) (hreq : labelL M.m Y.cols c ∈ p.cols) :
    (evalMerge M p.cols rw X Y).val (labelL M.m Y.cols c) = ((M.op X Y).select p.cols).val (labelL M.m Y.cols c) := by
  have hrw := merge_spec h
  have hproj : (detProj p deps []).toList.contains (labelL M.m Y.cols c) = true := detProj_contains.mpr (parent_mem_union hreq)
  have hsrc := merge_left_source M.m X.cols Y.cols _ hR hkeys.1 hc hproj
  have hlab := labelL_pruned M.m Y.cols _ c (merge_right_sub M.m X.cols Y.cols _ hR) hsrc.2
  have hlnd' := mergeLabels_pruned_nodup (proj := (detProj p deps []).toList) hL hR hkeys hlnd
  rw [hrw]
  simp only [evalMerge, selOpt_many]
  rw [select_val_mem hreq, select_val_mem hreq, M.op_left X Y c hlnd (List.contains_iff_mem.mpr hc)]
  rw [← hlab]
  have e := M.op_left (X.select (mergeLists M.m X.cols Y.cols (detProj p deps []).toList).1)
      (Y.select (mergeLists M.m X.cols Y.cols (detProj p deps []).toList).2) c hlnd'
      (by rw [select_cols]; exact List.contains_iff_mem.mpr hsrc.1)
  rw [select_cols] at e
  rw [e, select_val_mem hsrc.1]
  have hT := M.T_keys (X.select (mergeLists M.m X.cols Y.cols (detProj p deps []).toList).1).val X.val
      (Y.select (mergeLists M.m X.cols Y.cols (detProj p deps []).toList).2).val Y.val
      (fun k hk => select_val_mem (merge_left_keys M.m X.cols Y.cols _ hR (List.contains_iff_mem.mp hk)
        (hlo k (List.contains_iff_mem.mp hk))))
      (fun k hk => select_val_mem (merge_right_keys M.m X.cols Y.cols _ hR (List.contains_iff_mem.mp hk)
        (hro k (List.contains_iff_mem.mp hk))))
  rw [hT.1]

/-- values, right side -/
theorem C04_merge_values_right_partial (M : MergeOp γ) (X Y : Frame γ) (hL : X.cols.Nodup) (hR : Y.cols.Nodup)
    (hlnd : (mergeLabels M.m X.cols Y.cols).Nodup)
    (hkeys : KeysDoNotCollide M.m X.cols Y.cols) (hlo : ∀ k, k ∈ M.m.leftOn → k ∈ X.cols) (hro : ∀ k, k ∈ M.m.rightOn → k ∈ Y.cols)
    (p : Parent) (deps : List Dep) (rw : Rw) (h : merge M.m X.cols Y.cols p deps = some rw)
    (c : Name) (hc : c ∈ Y.cols) (hck : commonKey M.m c = false) (hreq : labelR M.m X.cols c ∈ p.cols) :
    (evalMerge M p.cols rw X Y).val (labelR M.m X.cols c) = ((M.op X Y).select p.cols).val (labelR M.m X.cols c) := by
  have hrw := merge_spec h
  have hproj : (detProj p deps []).toList.contains (labelR M.m X.cols c) = true := detProj_contains.mpr (parent_mem_union hreq)
  have hsrc := merge_right_source M.m X.cols Y.cols _ hR hkeys.2 hc hproj
  have hlab := labelR_pruned M.m X.cols _ c (merge_left_sub M.m X.cols Y.cols _ hR) hsrc.2
  have hlnd' := mergeLabels_pruned_nodup (proj := (detProj p deps []).toList) hL hR hkeys hlnd
  rw [hrw]
  simp only [evalMerge, selOpt_many]
  rw [select_val_mem hreq, select_val_mem hreq, M.op_right X Y c hlnd (List.contains_iff_mem.mpr hc) hck]
  rw [← hlab]
  have e := M.op_right (X.select (mergeLists M.m X.cols Y.cols (detProj p deps []).toList).1)
      (Y.select (mergeLists M.m X.cols Y.cols (detProj p deps []).toList).2) c hlnd'
      (by rw [select_cols]; exact List.contains_iff_mem.mpr hsrc.1) hck
  rw [select_cols] at e
  rw [e, select_val_mem hsrc.1]
  have hT := M.T_keys (X.select (mergeLists M.m X.cols Y.cols (detProj p deps []).toList).1).val X.val
      (Y.select (mergeLists M.m X.cols Y.cols (detProj p deps []).toList).2).val Y.val
      (fun k hk => select_val_mem (merge_left_keys M.m X.cols Y.cols _ hR (List.contains_iff_mem.mp hk)
        (hlo k (List.contains_iff_mem.mp hk))))
      (fun k hk => select_val_mem (merge_right_keys M.m X.cols Y.cols _ hR (List.contains_iff_mem.mp hk)
        (hro k (List.contains_iff_mem.mp hk))))
  rw [hT.2]

/-- the pruned join is again a join `MergeOp` speaks about: duplicate-free result labels, keys present -/
theorem C04_merge_pruned_wf (m : MergeP) (L R : List Name) (hL : L.Nodup) (hR : R.Nodup) (hkeys : KeysDoNotCollide m L R)
    (hlnd : (mergeLabels m L R).Nodup) (proj : List Name) :
    (mergeLabels m (mergeLists m L R proj).1 (mergeLists m L R proj).2).Nodup ∧
    KeysDoNotCollide m (mergeLists m L R proj).1 (mergeLists m L R proj).2 :=
  ⟨mergeLabels_pruned_nodup hL hR hkeys hlnd,
   fun c hc hcr => hkeys.1 c hc (merge_right_sub m L R proj hR c hcr),
   fun c hc hcl => hkeys.2 c hc (merge_left_sub m L R proj hR c hcl)⟩

/-- N1: the key 'b' of the left side collides with the non-key 'b' of the right side; 'b_x' is requested and the
    pruned merge (left [b], right [k2]) no longer produces it -/
theorem C04_merge_counterexample :
    merge ⟨["b"], ["k2"], "_x", "_y"⟩ ["b", "v"] ["k2", "b"] (.list ["b_x"]) [] =
        some { childs := [some (.many ["b"]), some (.many ["k2"])], keep := true } ∧
    "b_x" ∈ mergeLabels ⟨["b"], ["k2"], "_x", "_y"⟩ ["b", "v"] ["k2", "b"] ∧
    "b_x" ∉ mergeLabels ⟨["b"], ["k2"], "_x", "_y"⟩ ["b"] ["k2"] := by decide

-- both suffixed twins requested: each side keeps 'b' once (the D1 shape); keys needed only implicitly
example : merge ⟨["k"], ["k"], "_x", "_y"⟩ ["k", "b", "c"] ["k", "b", "d"] (.list ["b_x", "b_y"]) [] =
    some { childs := [some (.many ["k", "b"]), some (.many ["b", "k"])], keep := true } := by decide
example : merge ⟨["k"], ["k"], "_x", "_y"⟩ ["k", "b", "c"] ["k", "b", "d"] (.list ["d"]) [] =
    some { childs := [some (.many ["k"]), some (.many ["k", "d"])], keep := true } := by decide
example : KeysDoNotCollide ⟨["k"], ["k"], "_x", "_y"⟩ ["k", "b", "c"] ["k", "b", "d"] := by
  constructor <;> intro c hc _ <;> simp at hc <;> subst hc <;> decide
example : mergeLabels ⟨["k"], ["k"], "_x", "_y"⟩ ["k", "b", "c"] ["k", "b", "d"] = ["k", "b_x", "c", "b_y", "d"] := by decide

/-! ### 11. Concat -/

/-- stacking rows (`axis=0`): no input is ever removed (D31), every input is left alone or pruned to a sub-schema that
    still has all requested columns it had, and an input that has columns keeps at least one of them (D85: an input
    without any requested column still contributes rows of missing values, which decide the dtypes of the result) -/
theorem C04_concat_wf (inner : Bool) (frames : List (List Name)) (p : Parent) (deps : List Dep) (rw : Rw)
    (h : concat false inner frames p deps = some rw) :
    (∀ b, b ∈ rw.dropped → b = false) ∧
    rw.childs = frames.map (concatChild false (detProj p deps []).toList) ∧
    ∀ f, f ∈ frames → (concatChild false (detProj p deps []).toList f = none ∨
      ∃ cs, concatChild false (detProj p deps []).toList f = some (.many cs) ∧ Adequate f [] p.cols cs ∧
        (f ≠ [] → cs ≠ [])) := by
  obtain ⟨hc, hd⟩ := concat_spec h
  refine ⟨?_, hc, ?_⟩
  · intro b hb
    rw [hd, List.mem_map] at hb
    obtain ⟨f, _, hf⟩ := hb
    rw [← hf]; rfl
  · intro f _
    rcases concatChild_cases false (detProj p deps []).toList f with h1 | h1
    · exact Or.inl h1
    · exact Or.inr ⟨_, h1, concatKeepCols_adequate false f p deps, concatKeepCols_ne_nil _ f⟩

/-- labels: the parent projection is dropped only when the labels the new Concat DECLARES (`Concat._meta` leaves inputs
    without columns out) are exactly the requested list (and the parent is a frame selection); otherwise it is re-applied -/
theorem C04_concat_labels (axis1 inner : Bool) (frames : List (List Name)) (p : Parent) (deps : List Dep) (rw : Rw)
    (h : concat axis1 inner frames p deps = some rw) (hk : rw.keep = false) :
    concatLabels axis1 inner (((frames.filter (fun f => !concatDropped axis1 (detProj p deps []).toList f)).map
        (concatKeepCols axis1 (detProj p deps []).toList))) = p.cols ∧ p.ndim1 = false :=
  concat_nokeep h hk

/-- inputs without columns do not matter for the declared labels when rows are stacked with `join="outer"`, and there
    are none when every input has a column (an input that has columns keeps one, `C04_concat_wf`) -/
theorem C04_concat_declared (axis1 inner : Bool) (fs : List (List Name)) :
    concatLabels false false fs = concatCols false false fs ∧
    ((∀ f, f ∈ fs → f ≠ []) → concatLabels axis1 inner fs = concatCols axis1 inner fs) :=
  ⟨concatLabels_outer fs, concatLabels_of_nonempty axis1 inner⟩

/-- with `join="inner"` an input without columns is NOT part of the declared intersection (D111: dask-expr declares and
    computes the labels of the other inputs, pandas computes none) -/
theorem C04_concat_inner_zero_columns :
    concatLabels false true [["b", "k"], []] = ["b", "k"] ∧ concatCols false true [["b", "k"], []] = [] := by decide

/-- values (`axis=0`): every input's block of a requested column is what it was — an input that has none of the
    requested columns still contributes its (null) block -/
theorem C04_concat_values (C : ConcatOp γ) (Fs : List (Frame γ)) (columns : List Name) (c : Name) (hc : c ∈ columns) :
    (C.op (Fs.map (fun F => selOpt (concatChild false columns F.cols) F))).val c = (C.op Fs).val c := by
  rw [C.op_val, C.op_val, List.map_map]
  congr 1
  apply List.map_congr_left
  intro F _
  show (if (selOpt (concatChild false columns F.cols) F).cols.contains c = true then
      (selOpt (concatChild false columns F.cols) F).val c else none) = _
  have hpc : (fun x => columns.contains x) c = true := List.contains_iff_mem.mpr hc
  rcases concatChild_cases false columns F.cols with hcc | hcc
  · rw [hcc]; rfl
  · rw [hcc, selOpt_many, select_cols]
    rcases concatKeepCols_cases false columns F.cols with hk | ⟨_, hnil, hk⟩
    · rw [hk, filter_contains_of_pred (l := F.cols) hpc]
      by_cases hin : F.cols.contains c = true
      · rw [if_pos hin, if_pos hin]
        exact select_val_mem (List.mem_filter.mpr ⟨List.contains_iff_mem.mp hin, hpc⟩)
      · rw [if_neg hin, if_neg hin]
    · -- the input has none of the requested columns: neither the kept first column nor the input has `c`
      have hnot : ¬ c ∈ F.cols := fun hm => by
        have : c ∈ F.cols.filter (fun x => columns.contains x) := List.mem_filter.mpr ⟨hm, hpc⟩
        rw [hnil] at this; cases this
      have h1 : ¬ (F.cols.contains c = true) := fun hh => hnot (List.contains_iff_mem.mp hh)
      have h2 : ¬ ((F.cols.take 1).contains c = true) := fun hh =>
        hnot (List.mem_of_mem_take (List.contains_iff_mem.mp hh))
      rw [hk, if_neg h1, if_neg h2]

/-- FULL STATEMENT (false on the current tree): `C04_concat_wf` for `axis=1` as well — no input is removed.
    With `axis=1` an input that contributes no selected column is removed from the Concat although it takes part in
    the index join (D35, open: pinned by the repository's own tests).
    PARTIAL: when every input contributes a requested column nothing is removed. -/
theorem C04_concat_axis1_wf_partial (inner : Bool) (frames : List (List Name)) (p : Parent) (deps : List Dep) (rw : Rw)
    (h : concat true inner frames p deps = some rw)
    (hall : ∀ f, f ∈ frames → ∃ c, c ∈ f ∧ c ∈ unionCols p deps []) :
    (∀ b, b ∈ rw.dropped → b = false) ∧
    rw.childs = frames.map (concatChild true (detProj p deps []).toList) := by
  obtain ⟨hc, hd⟩ := concat_spec h
  refine ⟨?_, hc⟩
  intro b hb
  rw [hd, List.mem_map] at hb
  obtain ⟨f, hf, hfb⟩ := hb
  obtain ⟨c, hcf, hcu⟩ := hall f hf
  rw [← hfb]
  unfold concatDropped
  have : (f.filter ((detProj p deps []).toList.contains ·)).isEmpty = false := by
    have hm : c ∈ f.filter ((detProj p deps []).toList.contains ·) :=
      List.mem_filter.mpr ⟨hcf, detProj_contains.mpr hcu⟩
    cases hl : f.filter ((detProj p deps []).toList.contains ·) with
    | nil => rw [hl] at hm; cases hm
    | cons _ _ => rfl
  rw [this]; rfl

/-- D35: concat([A(a,b), B(c,d)], axis=1)[['a']] removes B from the index join -/
theorem C04_concat_axis1_counterexample :
    concat true false [["a", "b"], ["c", "d"]] (.list ["a"]) [] =
      some { childs := [some (.many ["a"]), some (.many [])], keep := false, dropped := [false, true] } := by decide

-- D31/D85: with axis=0 the second input stays, with one of its columns (it still contributes its rows and their
-- missing values), and the parent selection is re-applied
example : concat false false [["a", "b"], ["c", "d"]] (.list ["a"]) [] =
    some { childs := [some (.many ["a"]), some (.many ["c"])], keep := true, dropped := [false, false] } := by decide
example : concat false false [["a", "b"], ["b", "c"]] (.list ["b"]) [] =
    some { childs := [some (.many ["b"]), some (.many ["b"])], keep := false, dropped := [false, false] } := by decide

/-! ### 12. RollingReduction -/

/-- (full since D43) the rule re-applies the parent for grouped AND ungrouped rollings — except for the scalar
    collapse — and keeps a sub-schema with the grouping columns and everything requested -/
theorem C04_rolling_wf (frame : List Name) (gb : Option (List Name)) (p : Parent) (deps : List Dep) (rw : Rw)
    (h : rolling frame gb p deps = some rw) :
    (∃ child, rw.isKeep1 child ∧ Adequate frame (gb.getD []) p.cols child) ∨
    (gb = none ∧ p.ndim1 = true ∧ ∃ c, rw.childs = [some (.one c)] ∧ rw.keep = false ∧ c ∈ frame ∧
      frame.filter ((detProj p deps []).toList.contains ·) = [c]) := by
  unfold rolling at h
  simp only at h
  by_cases h1 : frame.filter ((detProj p deps (gb.getD [])).toList.contains ·) = frame
  · rw [if_pos h1] at h; cases h
  · rw [if_neg h1] at h
    by_cases h2 : (gb.isNone && p.ndim1) = true
    · rw [if_pos h2] at h
      have hgb : gb = none := by
        cases gb with
        | none => rfl
        | some b => simp at h2
      subst hgb
      have hnd : p.ndim1 = true := by simpa using h2
      simp only [Option.getD_none] at h
      generalize hc : frame.filter ((detProj p deps []).toList.contains ·) = cols at h
      match cols, h with
      | [c], h =>
        cases h
        refine Or.inr ⟨rfl, hnd, c, rfl, rfl, ?_, rfl⟩
        have : c ∈ frame.filter ((detProj p deps []).toList.contains ·) := by rw [hc]; exact List.mem_singleton.mpr rfl
        exact (List.mem_filter.mp this).1
      | [], h =>
        cases h
        have had := adequate_union_contains frame p deps []
        rw [hc] at had
        exact Or.inl ⟨_, ⟨rfl, rfl, rfl⟩, had⟩
      | _ :: _ :: _, h =>
        cases h
        have had := adequate_union_contains frame p deps []
        rw [hc] at had
        exact Or.inl ⟨_, ⟨rfl, rfl, rfl⟩, had⟩
    · rw [if_neg h2] at h
      cases h
      exact Or.inl ⟨_, ⟨rfl, rfl, rfl⟩, adequate_union_contains frame p deps (gb.getD [])⟩

-- the witnesses of the former finding D43: the list selections are re-applied (order, frame-ness); a scalar collapses
example :
    rolling ["a", "b", "c"] none (.list ["c", "a"]) [] = some { childs := [some (.many ["a", "c"])], keep := true } ∧
    rolling ["a", "b", "c"] none (.list ["a"]) [] = some { childs := [some (.many ["a"])], keep := true } ∧
    rolling ["a", "b", "c"] none (.scalar "a") [] = some { childs := [some (.one "a")], keep := false } := by decide

/-! ### 13. `_simplify_down`: squashing projections, identity elimination, Drop -/

theorem C04_projdown_squash (frameCols : List Name) (same : Bool) (self : Sel) (a : List Name) (b : Sel)
    (h : projDown frameCols same self (some (.many a)) = .squash b) : b = self ∧ ∀ c, c ∈ self.toList → c ∈ a := by
  unfold projDown at h
  split at h
  · cases h
  · cases self with
    | many bs =>
      simp only at h
      split at h
      · rename_i hall
        cases h
        refine ⟨rfl, ?_⟩
        intro c hc
        rw [List.all_eq_true] at hall
        exact List.contains_iff_mem.mp (hall c hc)
      · cases h
    | one c0 =>
      simp only at h
      split at h
      · rename_i hin
        cases h
        refine ⟨rfl, ?_⟩
        intro c hc
        have : c = c0 := by simpa [Sel.toList] using hc
        rw [this]; exact List.contains_iff_mem.mp hin
      · cases h

/-- `df[a][b]` = `df[b]` whenever `b ⊆ a`, which is what the rule asserts before squashing -/
theorem C04_projdown_squash_values (F : Frame γ) (a b : List Name) (h : ∀ c, c ∈ b → c ∈ a) :
    ((F.select a).select b).cols = (F.select b).cols ∧ ∀ c, ((F.select a).select b).val c = (F.select b).val c :=
  ⟨rfl, select_select F a b h⟩

theorem C04_projdown_ident (F : Frame γ) (same : Bool) (self : Sel) (inner : Option Sel)
    (h : projDown F.cols same self inner = .ident) :
    (F.select self.toList).cols = F.cols ∧ ∀ c, c ∈ F.cols → (F.select self.toList).val c = F.val c := by
  unfold projDown at h
  split at h
  · rename_i hc
    simp only [Bool.and_eq_true, decide_eq_true_eq] at hc
    refine ⟨by rw [select_cols, ← hc.1], ?_⟩
    intro c hcF
    exact select_val_mem (by rw [← hc.1]; exact hcF)
  · cases inner with
    | none => cases h
    | some i =>
      cases i with
      | one _ => cases h
      | many a =>
        cases self with
        | many b => simp only at h; split at h <;> cases h
        | one c => simp only at h; split at h <;> cases h

example : projDown ["a", "b"] true (.many ["b"]) (some (.many ["a", "b"])) = .squash (.many ["b"]) := by decide
example : projDown ["a", "b"] true (.many ["a", "b"]) none = .ident := by decide
example : projDown ["b"] false (.one "b") none = .none := by decide

theorem C04_drop (D : DropOp γ) (F : Frame γ) (colOp : List Name) :
    (D.op colOp F).cols = (F.select (dropDown F.cols colOp)).cols ∧
    ∀ c, c ∈ dropDown F.cols colOp → (D.op colOp F).val c = (F.select (dropDown F.cols colOp)).val c := by
  refine ⟨by rw [D.op_cols]; rfl, ?_⟩
  intro c hc
  rw [select_val_mem hc]
  unfold dropDown at hc
  rw [List.mem_filter] at hc
  exact D.op_val colOp F c (List.contains_iff_mem.mpr hc.1) (by simpa using hc.2)

example : dropDown ["a", "b", "c"] ["b", "zz"] = ["a", "c"] := by decide

/-! ### 14. shared intermediates -/

/-- every column a *listed* dependent reports and the input has is in the child built for the parent —
    for ANY dependents list; the child serves all listed consumers that later rewrite the same way -/
theorem C04_shared_plain (frame : List Name) (p : Parent) (deps : List Dep) (extra : List Name) (rw : Rw)
    (h : plain frame p deps extra = some rw) (d : Dep) (hd : d ∈ deps) (c : Name) (hc : c ∈ d.cols) (hf : c ∈ frame) :
    ∃ s, rw.childs = [some s] ∧ c ∈ s.toList := by
  obtain ⟨hrw, _⟩ := plain_spec h
  exact ⟨_, by rw [hrw], plainSel_mem frame p deps extra c (dep_mem_union hd hc) hf⟩

theorem C04_shared_keyed (frame keys : List Name) (p : Parent) (deps : List Dep) (rw : Rw)
    (h : keyed frame keys p deps = some rw) (d : Dep) (hd : d ∈ deps) (c : Name) (hc : c ∈ d.cols) (hf : c ∈ frame) :
    ∃ child, rw.childs = [some (.many child)] ∧ c ∈ child := by
  obtain ⟨hk, _⟩ := keyed_spec h
  exact ⟨_, hk.1, shared_contains frame p deps keys d hd c hc hf⟩

/-- the same for every rule whose child is `[col for col in frame.columns if col in columns]`
    (dropna, drop_duplicates, SetIndexBlockwise, combine_first, grouped rolling; shuffle with its keys) -/
theorem C04_shared (frame : List Name) (p : Parent) (deps : List Dep) (extra : List Name)
    (d : Dep) (hd : d ∈ deps) (c : Name) (hc : c ∈ d.cols) (hf : c ∈ frame) :
    c ∈ frame.filter (detProj p deps extra).has ∧ c ∈ frame.filter ((detProj p deps extra).toList.contains ·) :=
  ⟨shared_has frame p deps extra d hd c hc hf, shared_contains frame p deps extra d hd c hc hf⟩

/-- a dependent that renames (AddPrefix, RenameFrame, Merge suffixes) reports OUTPUT labels; what it really reads may
    be missing from the child — harmless, because a rewrite builds a NEW parent expression and every other consumer
    (listed or not, alive or stale) keeps referring to the original node: only entry `i` of the consumers changes -/
theorem C04_shared_original {β : Type} (consumers : List (Frame γ → β)) (X : Frame γ) (i : Nat) (rewritten : β)
    (j : Nat) (hj : j ≠ i) :
    ((consumers.map (· X)).set i rewritten)[j]? = (consumers.map (· X))[j]? :=
  List.getElem?_set_ne (Ne.symm hj)

-- a renaming dependent reports 'p_a': not a column of the input, ignored; the consumer itself is untouched
example : plain ["a", "b", "c"] (.list ["b"]) [⟨["p_a", "p_b", "p_c"], false⟩] [] =
    some { childs := [some (.many ["b"])], keep := false } := by decide
example : plain ["a", "b", "c"] (.list ["b"]) [⟨["c"], true⟩, ⟨["c"], true⟩] [] =
    some { childs := [some (.many ["b", "c"])], keep := true } := by decide

/-! ### 15. widening: unrequested input columns do not influence the pruned plan -/

/-- a schema `wide` that extends `frame` by columns nobody asks for is pruned to exactly the same child -/
theorem C04_widening (frame wide : List Name) (pred : Name → Bool)
    (hw : wide.filter (frame.contains ·) = frame) (hun : ∀ c, c ∈ wide → c ∉ frame → pred c = false) :
    wide.filter pred = frame.filter pred := by
  conv => rhs; rw [← hw]
  rw [List.filter_filter]
  apply List.filter_congr
  intro c hc
  by_cases hf : c ∈ frame
  · rw [List.contains_iff_mem.mpr hf, Bool.and_true]
  · rw [hun c hc hf]; rfl

theorem C04_widening_keyed (frame wide keys : List Name) (p : Parent) (deps : List Dep)
    (hw : wide.filter (frame.contains ·) = frame) (hun : ∀ c, c ∈ wide → c ∉ frame → c ∉ unionCols p deps keys) :
    wide.filter ((detProj p deps keys).toList.contains ·) = frame.filter ((detProj p deps keys).toList.contains ·) := by
  apply C04_widening frame wide _ hw
  intro c hc hf
  have := hun c hc hf
  by_cases hh : (detProj p deps keys).toList.contains c = true
  · exact absurd (detProj_contains.mp hh) this
  · simpa using hh

/-- a widened source read with the same child list yields the same frame -/
theorem C04_widening_source (S S' : SourceOp γ) (child : List Name)
    (hsame : ∀ c, c ∈ child → S'.data c = S.data c) :
    (S'.read child).cols = (S.read child).cols ∧ ∀ c, c ∈ child → (S'.read child).val c = (S.read child).val c := by
  refine ⟨by rw [S.read_cols, S'.read_cols], ?_⟩
  intro c hc
  rw [S.read_val child c (List.contains_iff_mem.mpr hc), S'.read_val child c (List.contains_iff_mem.mpr hc), hsame c hc]

example : ["a", "u", "b", "w", "k"].filter ((detProj (.list ["a"]) [] ["k"]).toList.contains ·)
    = ["a", "b", "k"].filter ((detProj (.list ["a"]) [] ["k"]).toList.contains ·) := by decide

/-! ### 16. T1: which live classes hand a Projection to plain_column_projection -/

/-- classes that reach `plain_column_projection` although pruning their `frame` operand alone is not sound;
    each is a reported failing input (N8 Categorize, N9 Corr/Cov, N10 Mode) -/
def knownUnsoundPlain : List String :=
  ["dask_expr._categorical.Categorize", "dask_expr._reductions.Corr", "dask_expr._reductions.Cov",
   "dask_expr._reductions.Mode"]

def projEntryOk (e : Generated.ProjEntry) : Bool :=
  (!e.plainUser || e.cat == .columnLocal || knownUnsoundPlain.contains e.name) && (!e.absorb || e.cat == .source)

/-- FULL STATEMENT (false on the current tree): every class handing a Projection to `plain_column_projection` is
    column-local.  PARTIAL: every such class is column-local or one of the four listed exceptions; every class with
    `_absorb_projections` is a source.  Re-decided by the kernel against the live class table on every run. -/
theorem C04_passthrough_table_partial : ∀ e, e ∈ Generated.projFlags → projEntryOk e = true := by
  have h : Generated.projFlags.all projEntryOk = true := by decide +kernel
  exact fun e he => List.all_eq_true.mp h e he

/-- … hence the `plain` theorems (C04_plain_wf / _labels / _values, stated for every `KeyedOp`) apply to it -/
theorem C04_passthrough_sound (e : Generated.ProjEntry) (he : e ∈ Generated.projFlags) (hp : e.plainUser = true)
    (hk : knownUnsoundPlain.contains e.name = false) : e.cat = .columnLocal := by
  have h := C04_passthrough_table_partial e he
  simp only [projEntryOk, hp, hk, Bool.not_true, Bool.false_or, Bool.or_false, Bool.and_eq_true, beq_iff_eq] at h
  exact h.1

/-- why an operator with a second frame operand must not use the generic pass-through (D32, fixed: OpAlignPartitions
    now has its own rule, `C04_opalign_*`): pruning only `frame` of a union-schema operator leaves the other operand's
    labels in the result -/
theorem C04_plain_unsound_for_binary :
    let unionSchema : List Name → List Name → List Name := fun a b => a ++ b.filter (fun c => !a.contains c)
    plain ["a", "b"] (.list ["a"]) [] [] = some { childs := [some (.many ["a"])], keep := false } ∧
    unionSchema ["a"] ["a", "b"] ≠ ["a"] := by decide

example : (Generated.projFlags.filter (·.plainUser)).length > 60 := by decide +kernel
example : (Generated.projFlags.filter (·.absorb)).length > 5 := by decide +kernel

/-! ### 17. the operator structures are inhabited by real, non-degenerate operators

Every theorem above that quantifies over `KeyedOp`, `RelabelOp`, `AssignOp`, `BinOp`, `MergeOp`, `ConcatOp`, `ResetOp`,
`SourceOp`, `AsTypeOp`, `DropOp` speaks about a non-empty class: Lemmas/ColsInst.lean builds each structure from the
column-level functions an operator is made of, with all laws proven.  Here: list-valued columns (`none` = null). -/
namespace C04Inst

def colsOf (F : Frame LCol) : List (Name × Option LCol) := F.cols.map (fun c => (c, F.val c))

def tblL : Name → Option LCol
  | "k" => some [some 1, some 2, some 2]
  | "v" => some [some 10, some 20, some 30]
  | "u" => some [some 5, some 6, some 7]
  | _ => none
def tblR : Name → Option LCol
  | "k" => some [some 2, some 2, some 3]
  | "w" => some [some 7, some 8, some 9]
  | _ => none

def Lf : Frame LCol := (SourceOp.ofData tblL).read ["k", "v", "u"]
def Rf : Frame LCol := (SourceOp.ofData tblR).read ["k", "w"]
def onK : MergeP := ⟨["k"], ["k"], "_x", "_y"⟩

/-- an inner join with duplicate keys on both sides: 4 result rows, left and right values distinct -/
example : colsOf ((listMerge false onK).op Lf Rf) =
    [("k", some [some 2, some 2, some 2, some 2]), ("v", some [some 20, some 20, some 30, some 30]),
     ("u", some [some 6, some 6, some 7, some 7]), ("w", some [some 7, some 8, some 7, some 8])] := by decide +kernel
/-- the left join keeps the unmatched left row, padded with a null on the right -/
example : colsOf ((listMerge true onK).op Lf Rf) =
    [("k", some [some 1, some 2, some 2, some 2, some 2]), ("v", some [some 10, some 20, some 20, some 30, some 30]),
     ("u", some [some 5, some 6, some 6, some 7, some 7]), ("w", some [none, some 7, some 8, some 7, some 8])] := by decide +kernel
/-- not degenerate: a result column depends on the data of the input column it carries -/
example : (listMerge false onK).TL Lf.val Rf.val (some [some 10, some 20, some 30]) ≠
    (listMerge false onK).TL Lf.val Rf.val (some [some 10, some 21, some 30]) := by decide +kernel

/-- the hypotheses of `C04_merge_values_left_partial` / `_right_partial` on this join: the rule prunes `u`, and both
    requested columns keep their values -/
example : merge onK Lf.cols Rf.cols (.list ["w", "v"]) [] =
    some { childs := [some (.many ["k", "v"]), some (.many ["k", "w"])], keep := true } := by decide +kernel
example : (evalMerge (listMerge false onK) ["w", "v"] { childs := [some (.many ["k", "v"]), some (.many ["k", "w"])], keep := true } Lf Rf).val "v"
    = (((listMerge false onK).op Lf Rf).select ["w", "v"]).val "v" :=
  C04_merge_values_left_partial (listMerge false onK) Lf Rf (by decide) (by decide) (by decide)
    (by constructor <;> intro c hc _ <;> simp [listMerge, MergeOp.ofJoin, onK] at hc <;> subst hc <;> decide)
    (by intro k hk; simp [listMerge, MergeOp.ofJoin, onK] at hk; subst hk; decide)
    (by intro k hk; simp [listMerge, MergeOp.ofJoin, onK] at hk; subst hk; decide)
    (.list ["w", "v"]) [] _ (by decide +kernel) "v" (by decide) (by decide)

/-- `KeyedOp`: keep the rows whose key column `k` is > 1 -/
def keepBig : KeyedOp LCol := KeyedOp.ofFun ["k"] (fun ks x => match ks with
  | [some k] => (x.zip k).filterMap (fun xk => match xk.2 with
      | some kv => if kv > 1 then some xk.1 else none
      | none => none)
  | _ => x)
example : colsOf (keepBig.op Lf) = [("k", some [some 2, some 2]), ("v", some [some 20, some 30]), ("u", some [some 6, some 7])] := by
  decide +kernel
example : OutMono keepBig := fun l l' c _ hc hin => by
  rcases hc with h | h
  · exact h
  · exact absurd hin h

/-- `RelabelOp`: rename -/
example : colsOf ((RelabelOp.ofFun (renameFwd [("v", "V")])).op Lf) =
    [("k", some [some 1, some 2, some 2]), ("V", some [some 10, some 20, some 30]), ("u", some [some 5, some 6, some 7])] := by
  decide +kernel

/-- `AssignOp`: a repeated key keeps its FIRST position and its LAST value (`df.assign(z=, y=).assign(z=)` → `[…, z, y]`),
    an existing key is overwritten in place -/
example : colsOf (AssignOp.std.op [("z", [some 1]), ("y", [some 2]), ("z", [some 3]), ("v", [some 4])] Lf) =
    [("k", some [some 1, some 2, some 2]), ("v", some [some 4]), ("u", some [some 5, some 6, some 7]),
     ("z", some [some 3]), ("y", some [some 2])] := by decide +kernel
example : assignLabels ["a", "b"] ["z", "y", "z"] = ["a", "b", "z", "y"] := by decide

/-- `BinOp`: cell-wise sum (null if either is null) -/
def addCols (x y : LCol) : LCol := List.zipWith (fun a b => match a, b with
  | some a, some b => some (a + b)
  | _, _ => none) x y
example : ((BinOp.ofFun addCols).op Lf Lf).val "v" = some [some 20, some 40, some 60] := by decide +kernel

/-- `ConcatOp`: rows stacked; the labels are those `Concat._meta` declares -/
def stackCols (blocks : List (Option LCol)) : Option LCol :=
  if blocks.all Option.isNone then none else some (blocks.flatMap (fun b => b.getD []))
example : colsOf ((ConcatOp.ofStack (concatLabels false false) stackCols).op [Lf.select ["k", "v"], Rf]) =
    [("k", some [some 1, some 2, some 2, some 2, some 2, some 3]), ("v", some [some 10, some 20, some 30]),
     ("w", some [some 7, some 8, some 9])] := by decide +kernel

/-- `ResetOp`: the former index becomes the first column -/
example : colsOf ((ResetOp.ofIndex (some [some 0, some 1, some 2]) (resetLabel none)).op false (Lf.select ["v"])) =
    [("index", some [some 0, some 1, some 2]), ("v", some [some 10, some 20, some 30])] := by decide +kernel

/-- `AsTypeOp`: only the flagged columns are cast; `DropOp` -/
example : colsOf ((AsTypeOp.ofCast (fun x : LCol => x.map (fun c => c.map (· * 2)))).op (some ["v"]) (Lf.select ["k", "v"])) =
    [("k", some [some 1, some 2, some 2]), ("v", some [some 20, some 40, some 60])] := by decide +kernel
example : colsOf (DropOp.std.op ["u", "zz"] Lf) = [("k", some [some 1, some 2, some 2]), ("v", some [some 10, some 20, some 30])] := by
  decide +kernel

end C04Inst

end Dx
