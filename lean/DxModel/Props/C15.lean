/-
  Props/C15.lean — planner caches are transparent.  Helper lemmas live in Lemmas/Cache.lean.
  Model: DxModel/Cache.lean (LRU of dask_expr/_util.py, the get-or-compute patterns, `Expr._instances`).
  Table: DxModel/Generated/CacheSites.lean (regenerated from /repo on every run).
-/
import DxModel.Lemmas.Cache
import DxModel.Generated.CacheSites
namespace Dx
open Cache

section LRU
variable {κ ν : Type} [DecidableEq κ]

/-- An `LRU(cap)` that started empty never holds more than `cap` entries, for every history of
    reads, writes, membership tests (all keys, all values, all lengths).
    (For `cap = 0` every write raises, the state stays empty; the code only uses `LRU(10)`.) -/
theorem C15_lru_size (cap : Nat) (ops : List (Op κ ν)) :
    (finalState cap ([] : LRU κ ν) ops).length ≤ cap :=
  length_runOps cap ops [] (Nat.zero_le _)

/-- … and from an arbitrary state it never grows beyond `max (current size) cap`
    (a write into a full cache first evicts the oldest entry — also when it overwrites). -/
theorem C15_lru_write_bound {cap : Nat} {c c' : LRU κ ν} {k : κ} {v : ν} (h : set cap c k v = some c') :
    c'.length ≤ max c.length cap :=
  length_set_le h

/-- the model state is a dict: keys stay pairwise distinct -/
theorem C15_lru_keys_unique (cap : Nat) (ops : List (Op κ ν)) :
    (keys (finalState cap ([] : LRU κ ν) ops)).Nodup := by
  have key : ∀ (ops : List (Op κ ν)) (c : LRU κ ν), (keys c).Nodup → (keys (runOps cap c ops).2).Nodup := by
    intro ops
    induction ops with
    | nil => intro c h; exact h
    | cons op rest ih => intro c h; simp only [runOps]; exact ih _ (nodup_step op h)
  exact key ops [] (by simp [keys])

/-- Refinement: if every `cache[k] = v` in the history stores the value of one function of the key
    (`f k = some v`), then every successful `cache[k]` returns `f k` — a hit never returns the value
    of another key nor a stale value, whatever was evicted or re-inserted in between. -/
theorem C15_lru_refines (f : κ → Option ν) (cap : Nat) (ops : List (Op κ ν)) (hs : SetsAre f ops)
    (k : κ) (v : ν) (h : (Op.get k, Obs.hit v) ∈ ops.zip (runOps cap ([] : LRU κ ν) ops).1) : f k = some v :=
  hits_runOps cap ops [] (inv_nil f) hs k v h

/-- The memoisation pattern of `_get_divisions` (dask_expr/_shuffle.py) and `_get_mem_usages`
    (_repartition.py), and the pattern of `FromPandas._divisions_and_locations` /
    `FromPandasDivisions._divisions_and_locations` (io/io.py), return `f k` from *every* cache state
    reachable by any interleaving of such calls (and of assert-on-miss reads) over any keys:
    observationally they are the pure function `f` (including its failures). -/
theorem C15_get_or_compute (f : κ → Option ν) {cap : Nat} (hcap : 0 < cap) {c : LRU κ ν} (hr : Reach cap f c) (k : κ) :
    (getOrComputeA cap f c k).1 = f k ∧ (getOrComputeB cap f c k).1 = f k :=
  ⟨(goA_spec hcap k (reach_inv hcap hr)).1, (goB_spec hcap k (reach_inv hcap hr)).1⟩

/-- A failing computation writes nothing: the cache is exactly what it was. -/
theorem C15_failure_leaves_nothing (f : κ → Option ν) (cap : Nat) (c : LRU κ ν) (k : κ)
    (hmiss : has c k = false) (hfail : f k = none) :
    getOrComputeA cap f c k = (none, c) ∧ getOrComputeB cap f c k = (none, c) := by
  simp [getOrComputeA, getOrComputeB, hmiss, hfail]

/-- The assert-on-miss read (`_SetIndexPost._divisions`) is *not* transparent: on a reachable state
    that lost the key (eviction, or a fresh process) it fails although `f k` is defined. -/
theorem C15_assert_on_miss_not_transparent :
    ∃ (f : Nat → Option Nat) (c : LRU Nat Nat) (k : Nat), Reach 1 f c ∧ f k = some 7 ∧ (assertHit c k).1 = none :=
  ⟨fun _ => some 7, [], 0, Reach.empty, rfl, rfl⟩

end LRU

/-- `Expr._instances` (`Expr.__new__`): for every history of constructions interleaved with garbage
    collections that drop *any* subset of entries at *any* time, every construction hands back an
    object with exactly the requested (class, operands) — provided names are injective (C08). -/
theorem C15_singleton {η α : Type} [DecidableEq η] (name : α → η) (hinj : ∀ a b, name a = name b → a = b)
    (ops : List (TOp η α)) :
    (trun name [] 0 ops).1.map (·.val) = requested ops :=
  trun_vals hinj ops [] 0 (by intro p hp; cases hp)

/-- without injective names the table does hand out the wrong expression -/
theorem C15_singleton_needs_injective :
    ∃ (name : Nat → Nat) (ops : List (TOp Nat Nat)), (trun name [] 0 ops).1.map (·.val) ≠ requested ops :=
  ⟨fun _ => 0, [.new 1, .new 2], by decide⟩

/-! ### table obligations over Generated/CacheSites.lean -/

/-- every read of the cache is protected by recompute-on-miss, or cannot be reached at all -/
def readsGuarded (s : Site) : Bool := !s.reads || s.guarded || s.unreachable

/-- Every read of a process-global cache anywhere in dask_expr recomputes on a miss, or sits in a branch no
    constructor call can reach.  (Until /repo 53e3171 this was false for `_SetIndexPost._divisions`, D10: the lowered
    `set_index` plan now carries its divisions as the `user_divisions` operand; the scan checks that *every* call
    `_SetIndexPost(…)` passes a value that is syntactically never `None`.) -/
theorem C15_no_assert_on_miss : ∀ s ∈ Generated.cacheSites, readsGuarded s = true := by decide

/-- the former D10 site: its `assert key in divisions_lru` read is still in the source, but dead -/
def assertSite : String := "_shuffle.py:_SetIndexPost._divisions"

theorem C15_assert_site_is_dead :
    ∀ s ∈ Generated.cacheSites, s.asserts = true → s.func = assertSite ∧ s.unreachable = true := by decide

/-- Inputs of a memoised computation that its key does not mention, with the reason each is harmless. -/
def justifiedUncovered : List (String × String) :=
  [ -- `frame` is used for an error message only; `other._name` (in the key) determines `other`'s whole subtree
    ("_shuffle.py:_get_divisions", "frame"),
    -- the LRU belongs to one `_BackendData` wrapper, created per `from_pandas` call; every expression derived
    -- from it (`substitute_parameters` for projections / partition selection) keeps `chunksize`
    ("io/io.py:FromPandas._divisions_and_locations", "self.chunksize"),
    -- `dataset_info` (the key) is produced by this engine with these filters and records both
    ("io/parquet.py:ReadParquetFSSpec._plan", "self.engine"),
    ("io/parquet.py:ReadParquetFSSpec._plan", "self.filters") ]

def keyComplete (s : Site) : Bool := s.uncovered.all (fun u => justifiedUncovered.contains (s.func, u))

/- Full statement — FALSE on the current tree: `ReadParquetFSSpec._plan` stores `parts = [self._meta]`
   (which depends on the projected columns) under a key that does not mention the columns; a later read of
   the same dataset with other columns gets the first one's columns when every row group is filtered out.

theorem C15_keys_complete : ∀ s ∈ Generated.cacheSites, keyComplete s = true := by decide
-/

/-- Every get-or-compute site's key mentions every input of the memoised computation, up to the justified
    list above — except `ReadParquetFSSpec._plan`, whose value depends on `self._meta`. -/
theorem C15_keys_complete_partial :
    ∀ s ∈ Generated.cacheSites, s.func ≠ "io/parquet.py:ReadParquetFSSpec._plan" → keyComplete s = true := by decide

theorem C15_keys_incomplete_site :
    ∃ s ∈ Generated.cacheSites, s.func = "io/parquet.py:ReadParquetFSSpec._plan" ∧ s.cache = "_cached_plan" ∧
      s.uncovered.contains "self._meta" = true ∧ keyComplete s = false := by decide

/-- The token of a parquet file (dataset checksum in `ReadParquetPyarrowFS._name`, key of `_STATS_CACHE`) mentions
    everything that can tell two states of a file apart without reading it: path, size *and* modification time
    (an in-place rewrite to the same byte size changes nothing else). -/
theorem C15_fileinfo_token_complete :
    ["path", "size", "mtime_ns"].all (fun f => Generated.fileinfoTokenFields.contains f) = true := by decide

/-! ### non-vacuity -/

/-- a capacity-2 history over 3 keys with an overwrite of the oldest key, a hit that reorders, and evictions -/
example : runOps 2 ([] : LRU Nat Nat) [.set 0 10, .set 1 11, .get 0, .set 2 12, .get 1, .get 0, .set 0 10, .len]
    = ([.ok, .ok, .hit 10, .ok, .miss, .hit 10, .ok, .nat 1], [(0, 10)]) := by decide

/-- `SetsAre` is satisfiable by that history with `f k = k + 10` -/
example : SetsAre (fun k => some (k + 10)) ([.set 0 10, .set 1 11, .get 0, .set 2 12] : List (Op Nat Nat)) := by
  intro k v h
  simp at h
  rcases h with ⟨rfl, rfl⟩ | ⟨rfl, rfl⟩ | ⟨rfl, rfl⟩ <;> rfl

/-- reachable non-empty state; a partial `f` (key 3 fails) -/
example : Reach 2 (fun k => if k = 3 then none else some (k * 2)) ([(1, 2), (5, 10)] : LRU Nat Nat) := by
  have h := Reach.stepB (cap := 2) (f := fun k => if k = 3 then none else some (k * 2)) _ 5
    (Reach.stepA (cap := 2) (f := fun k => if k = 3 then none else some (k * 2)) _ 3
      (Reach.stepA (cap := 2) (f := fun k => if k = 3 then none else some (k * 2)) _ 1 Reach.empty))
  exact h

/-- a construction history with a collection in between: the second `new 5` finds the entry gone and re-inserts -/
example : (trun (fun x : Nat => x) [] 0 [.new 5, .new 5, .gc (fun _ => false), .new 5, .new 6]).1
    = [⟨0, 5⟩, ⟨0, 5⟩, ⟨2, 5⟩, ⟨3, 6⟩] := by decide

end Dx
