/-
  Props/C02.lean — results equal the pandas meaning of the query for every partitioning.

  One theorem family per partitioned algorithm, each of the shape `alg(parts) = spec(concat parts)`
  for ALL partitionings (any number of partitions, any boundaries, empty partitions; induction, no
  bounds).  Helper lemmas: Lemmas/{TreeReduce,Cumulative,Overlap,Blockwise,GroupJoin}.lean.

    1. TreeReduce            C02_tree_value / C02_tree / C02_tree_spec / C02_tree_each_once
                             C02_tree_terminates / C02_tree_split_every_one_no_progress /
                             C02_tree_split_every_guard / C02_tree_dict / C02_tree_wf
    2. CumulativeFinalize    C02_scan_partition / C02_scan / C02_scan_wf   (+ pre-fix counterexample)
    3. map_overlap           C02_overlap_partition / C02_overlap / C02_overlap_refuses_before/_after /
                             C02_overlap_dichotomy / C02_overlap_wf
    4. Blockwise             C02_blockwise_task / C02_blockwise / C02_blockwise_map / _zip / _wf
    5. shuffle consumers     C02_shuffle_reduce / C02_groupby_apply / C02_shuffle_reduce_run /
                             C02_join_hash / C02_join_left_hash / C02_join_broadcast
-/
import DxModel.Lemmas.TreeReduce
import DxModel.Lemmas.Cumulative
import DxModel.Lemmas.Overlap
import DxModel.Lemmas.Blockwise
import DxModel.Lemmas.GroupJoin
import DxModel.Props.C12
namespace Dx

/-! ## 1. TreeReduce -/
section Tree
open Tree

/-- Value level, any type of partial results.  If `combine` and `aggregate` satisfy the homomorphism
    law (`aggregate` of combined non-empty batches = `aggregate` of the flattened batches) the level
    loop computes `aggregate` of ALL chunk results, whatever `split_every` (False or any k ≥ 1) and
    whatever the number of chunks. -/
theorem C02_tree_value {α β} (comb : List α → α) (agg : List α → β) (h : HomLaw comb agg)
    (se : Option Nat) (hse : ∀ k, se = some k → 1 ≤ k) (xs : List α) :
    treeEval comb agg se xs = agg xs := by
  cases se with
  | none => rfl
  | some k => exact treeVal_agg comb agg h k (hse k rfl) _ xs

example : treeEval List.sum List.sum (some 2) [1, 2, 3, 4, 5, 6, 7] = 28 := by decide

/-- Free instance (partial results = lists, combine = aggregate = concatenation): the tree hands every
    chunk result to the aggregation exactly once and in order. -/
theorem C02_tree_each_once {γ} (se : Option Nat) (hse : ∀ k, se = some k → 1 ≤ k) (xs : List γ) :
    treeEval List.flatten List.flatten se (xs.map (fun x => [x])) = xs := by
  rw [C02_tree_value List.flatten List.flatten (fun bs _ _ => List.flatten_flatten.symm) se hse]
  induction xs with
  | nil => rfl
  | cons a t ih => simp only [List.map_cons, List.flatten_cons, List.singleton_append, ih]

example : treeEval List.flatten List.flatten (some 3) ((List.range 11).map (fun x => [x])) = List.range 11 :=
  C02_tree_each_once (some 3) (by intro k h; cases h; decide) (List.range 11)

/-- Graph level.  For every number `n` of chunks and every value of the `split_every` property
    (`False`, or `k ≥ 2`), the task `(name, 0)` of `TreeReduce._layer` evaluates to `aggregate` applied to
    the `n` chunk results in order — provided the triple satisfies the homomorphism law. -/
theorem C02_tree (I : Interp) (p : Params) (hse : ∀ k, p.splitEvery = some k → 2 ≤ k)
    (h : HomLaw (I (combFn p)) (I aggFn)) (vals : Nat → V) (F : Nat) (hF : p.n + 2 ≤ F) :
    run I (layer p) (inputs vals) F .out = I aggFn ((List.range p.n).map vals) := by
  rw [run_tree I p vals F hF]
  exact C02_tree_value _ _ h _ (fun k hk => by have := hse k hk; omega) _

/-- …hence, when `aggregate ∘ map chunk` is the reduction of the concatenation (the law of the triple,
    T4-checked per reduction), the layer computes the reduction of the concatenated input. -/
theorem C02_tree_spec (I : Interp) (p : Params) (hse : ∀ k, p.splitEvery = some k → 2 ≤ k)
    (h : HomLaw (I (combFn p)) (I aggFn)) (chunk : List Row → V) (spec : List Row → V)
    (hspec : ∀ ps : List (List Row), ps ≠ [] → I aggFn (ps.map chunk) = spec ps.flatten)
    (parts : Nat → List Row) (hn : 1 ≤ p.n) (F : Nat) (hF : p.n + 2 ≤ F) :
    run I (layer p) (inputs (fun i => chunk (parts i))) F .out =
      spec ((List.range p.n).flatMap parts) := by
  rw [C02_tree I p hse h _ F hF]
  have := hspec ((List.range p.n).map parts) (by
    intro e
    have := congrArg List.length e
    simp at this; omega)
  rw [List.map_map] at this
  rw [List.flatten_eq_flatMap, List.flatMap_map] at this
  exact this

namespace C02Ex
/-- example interpretation: a partial result is a one-row frame holding a sum -/
def payOf : V → Nat
  | .frame [r] => r.pay
  | _ => 0
def ISum : Interp := fun _ vs => .frame [⟨0, 0, (vs.map payOf).sum⟩]
def chunkSum (rows : List Row) : V := .frame [⟨0, 0, (rows.map (·.pay)).sum⟩]

theorem sum_flatten (bs : List (List Nat)) : (bs.map List.sum).sum = bs.flatten.sum := by
  induction bs with
  | nil => rfl
  | cons b t ih => simp [List.sum_append, ih]

theorem ISum_hom (f : Nat) : HomLaw (ISum f) (ISum aggFn) := by
  intro bs _ _
  have e : (bs.map (ISum f)).map payOf = (bs.map (List.map payOf)).map List.sum := by
    rw [List.map_map, List.map_map]
    apply List.map_congr_left
    intro b _
    rfl
  show V.frame [⟨0, 0, ((bs.map (ISum f)).map payOf).sum⟩] = V.frame [⟨0, 0, (bs.flatten.map payOf).sum⟩]
  rw [e, sum_flatten, List.map_flatten]

def parts5 (i : Nat) : List Row := if i = 2 then [] else [⟨i, 0, i + 1⟩, ⟨i + 10, 0, 10 * i⟩]
end C02Ex
open C02Ex

example : run ISum (layer ⟨5, some 2, false⟩) (inputs (fun i => chunkSum (parts5 i))) 7 .out =
    ISum aggFn ((List.range 5).map (fun i => chunkSum (parts5 i))) :=
  C02_tree ISum ⟨5, some 2, false⟩ (by intro k h; cases h; decide) (ISum_hom _) _ 7 (by decide)

theorem C02Ex.chunkSum_spec (ps : List (List Row)) :
    ISum aggFn (ps.map chunkSum) = chunkSum ps.flatten := by
  have e : (ps.map chunkSum).map payOf = (ps.map (List.map (·.pay))).map List.sum := by
    rw [List.map_map, List.map_map]
    apply List.map_congr_left
    intro b _
    rfl
  show V.frame [⟨0, 0, ((ps.map chunkSum).map payOf).sum⟩] = V.frame [⟨0, 0, (ps.flatten.map (·.pay)).sum⟩]
  rw [e, sum_flatten, List.map_flatten]

/-- the sum of the concatenation, for every layout and every split_every -/
example (se : Option Nat) (hse : ∀ k, se = some k → 2 ≤ k) (n : Nat) (hn : 1 ≤ n) (parts : Nat → List Row) :
    run ISum (layer ⟨n, se, false⟩) (inputs (fun i => chunkSum (parts i))) (n + 2) .out =
      chunkSum ((List.range n).flatMap parts) :=
  C02_tree_spec ISum ⟨n, se, false⟩ hse (ISum_hom _) chunkSum chunkSum (fun ps _ => chunkSum_spec ps) parts hn
    (n + 2) (Nat.le_refl _)

/-- the conclusion on a concrete instance, by evaluation: 5 partitions (one empty), `split_every=2` ⇒
    three combine levels; the total 1+0+2+10+4+30+5+40 = 92 -/
example : run ISum (layer ⟨5, some 2, false⟩) (inputs (fun i => chunkSum (parts5 i))) 7 .out =
    .frame [⟨0, 0, 92⟩] := by decide
example : run ISum (layer ⟨5, none, false⟩) (inputs (fun i => chunkSum (parts5 i))) 7 .out =
    .frame [⟨0, 0, 92⟩] := by decide
example : (dict ⟨5, some 2, false⟩).length = 6 := by decide

/-- Termination of the level loop for `split_every ≥ 2`: the iteration bound of the model is never the
    reason the loop stops — a larger bound gives the same graph, the same value, and the final key
    list has at most `split_every` entries (the `while` condition is false). -/
theorem C02_tree_terminates (p : Params) (k : Nat) (hk : 2 ≤ k) :
    (∀ j keys, keys.length ≤ p.n → graphLoop p k (p.n + 1) j keys = graphLoop p k p.n j keys) ∧
    (∀ {α} (comb : List α → α) (xs : List α), xs.length ≤ p.n →
        treeVal comb k (p.n + 1) xs = treeVal comb k p.n xs ∧ (treeVal comb k p.n xs).length ≤ k) := by
  refine ⟨fun j keys h => graphLoop_stable p k hk p.n j keys (by omega), fun comb xs h => ?_⟩
  exact ⟨treeVal_stable comb k hk p.n xs (by omega), treeVal_length_le comb k hk p.n xs (by omega)⟩

example : (treeVal List.sum 2 7 [1, 2, 3, 4, 5, 6, 7]).length ≤ 2 :=
  ((C02_tree_terminates ⟨7, some 2, false⟩ 2 (by decide)).2 List.sum [1, 2, 3, 4, 5, 6, 7] (by decide)).2

/-- Why `split_every = 1` is rejected: a level of `m > 1` keys is followed by a level of `m` keys
    again, so the loop condition `len(keys) > 1` stays true — for every bound the model loop runs
    until the bound, whereas for `k ≥ 2` the number of levels is bounded by `m`. -/
theorem C02_tree_split_every_one_no_progress (f m : Nat) (hm : 1 < m) :
    nchunks 1 m = m ∧ sizes 1 f m = List.replicate (f+1) m ∧
    (∀ k, 2 ≤ k → (sizes k f m).length ≤ m + 1) :=
  ⟨nchunks_one m, sizes_one f m hm, fun k hk => sizes_length_le k hk f m⟩

example : sizes 1 5 3 = [3, 3, 3, 3, 3, 3] ∧ sizes 2 5 3 = [3, 2] := by decide

/-- the `split_every` property accepts exactly `None` (→ 8), `False` and integers ≥ 2 -/
theorem C02_tree_split_every_guard (s : SE) :
    (splitEveryProp s = none ↔ ∃ k, s = .int k ∧ k < 2) ∧
    (∀ k, splitEveryProp s = some (some k) → 2 ≤ k) := by
  cases s with
  | dflt =>
    refine ⟨⟨?_, ?_⟩, ?_⟩
    · intro e; cases e
    · rintro ⟨_, e, _⟩; cases e
    · intro k e
      simp only [splitEveryProp, Option.some.injEq] at e
      omega
  | off =>
    refine ⟨⟨?_, ?_⟩, ?_⟩
    · intro e; cases e
    · rintro ⟨_, e, _⟩; cases e
    · intro k e
      simp [splitEveryProp] at e
  | int k =>
    simp only [splitEveryProp]
    by_cases h : k ≥ 2
    · simp only [h, if_true]
      refine ⟨⟨?_, ?_⟩, ?_⟩
      · intro e; cases e
      · rintro ⟨k', e, hk'⟩; cases e; omega
      · intro k' e
        simp only [Option.some.injEq] at e
        omega
    · simp only [h, if_false]
      refine ⟨⟨?_, ?_⟩, ?_⟩
      · intro _; exact ⟨k, rfl, by omega⟩
      · intro _; trivial
      · intro k' e; cases e

example : splitEveryProp (.int 1) = none ∧ splitEveryProp (.int 2) = some (some 2) ∧
    splitEveryProp .dflt = some (some 8) ∧ splitEveryProp .off = some none := by decide

/-- the graph function used by the theorems defines exactly the tasks of the transliterated dict
    (the text compared with the real `_layer()` output) -/
theorem C02_tree_dict (p : Params) (q : Key) (t : Tsk Key) : (q, t) ∈ dict p ↔ layer p q = some t :=
  dict_iff p q t

example : (Key.node 2 0, Tsk.apply 0 [Key.node 1 0, Key.node 1 1]) ∈ dict ⟨5, some 2, false⟩ :=
  (C02_tree_dict _ _ _).mpr rfl

/-- the layer is closed over its inputs and acyclic -/
theorem C02_tree_wf (p : Params) (vals : Nat → V) :
    Closed (layer p) (inputs vals) ∧ Ranked (layer p) (treeRank p.n) :=
  ⟨tree_closed p vals, tree_ranked p⟩

end Tree

/-! ## 2. CumulativeFinalize -/
section Scan
open Cum

/-- Output partition `i` of `CumulativeFinalize` is the running accumulation over input partition `i`
    started from the accumulated value of all rows before it — for every partition count and every
    partitioning, empty partitions included (they contribute `None`, which `_cum_aggregate_apply`
    treats as "nothing so far"). -/
theorem C02_scan_partition (op : Nat → Nat → Nat) (h : CumOp op) (n : Nat) (parts : Nat → List Row)
    (i : Nat) (hi : i < n) (F : Nat) (hF : i + 1 ≤ F) :
    run (interp op) (layer n) (inputs op parts) F (.out i) =
      .frame (scanFrom op (acc op none (before parts i)) (parts i)) :=
  cum_run_out op h n parts i hi F hF

/-- The concatenation of the outputs is the cumulative operation on the concatenation of the inputs. -/
theorem C02_scan (op : Nat → Nat → Nat) (h : CumOp op) (n : Nat) (parts : Nat → List Row) (F : Nat) (hF : n ≤ F) :
    concatV ((List.range n).map (fun i => run (interp op) (layer n) (inputs op parts) F (.out i))) =
      .frame (cum op ((List.range n).flatMap parts)) := by
  rw [concatV_map_frames (List.range n) _ (fun i => scanFrom op (acc op none (before parts i)) (parts i))
    (fun i hi => cum_run_out op h n parts i (List.mem_range.mp hi) F (by have := List.mem_range.mp hi; omega))]
  rw [scan_concat]
  rfl

theorem C02_scan_wf (op : Nat → Nat → Nat) (n : Nat) (parts : Nat → List Row) :
    Closed (layer n) (inputs op parts) ∧ Ranked (layer n) cumRank :=
  ⟨cum_closed op n parts, cum_ranked n⟩

namespace C02Ex
theorem addOp : CumOp (· + ·) := ⟨Nat.add_assoc, Nat.add_comm⟩
theorem maxOp : CumOp Nat.max := ⟨Nat.max_assoc, Nat.max_comm⟩
/-- layout `[2 rows | empty | 1 row | empty | 2 rows]` -/
def cparts (i : Nat) : List Row :=
  match i with
  | 0 => [⟨0, 0, 3⟩, ⟨1, 0, 4⟩]
  | 2 => [⟨2, 0, 5⟩]
  | 4 => [⟨3, 0, 1⟩, ⟨4, 0, 2⟩]
  | _ => []
end C02Ex
open C02Ex

example : concatV ((List.range 5).map (fun i => run (interp (· + ·)) (layer 5) (inputs (· + ·) cparts) 5 (.out i))) =
    .frame (cum (· + ·) ((List.range 5).flatMap cparts)) :=
  C02_scan (· + ·) addOp 5 cparts 5 (by decide)

example : cum (· + ·) ((List.range 5).flatMap cparts) =
    [⟨0, 0, 3⟩, ⟨1, 0, 7⟩, ⟨2, 0, 12⟩, ⟨3, 0, 13⟩, ⟨4, 0, 15⟩] := by decide
example : run (interp (· + ·)) (layer 5) (inputs (· + ·) cparts) 5 (.out 4) = .frame [⟨3, 0, 13⟩, ⟨4, 0, 15⟩] := by
  decide

/- Pre-fix counterexample (D19, fixed by 7fd4a29).  `TakeLast.operation` returned the *empty* frame for an
   empty partition and `_cum_aggregate_apply` combined it like a value: with the layout above,
   `df.cumsum()` returned NaN for every row after the first empty partition (cummax/cummin raised).
   In the model the pre-fix `TakeLast` makes the intermediate key of partition 2 ill-defined: -/
example : run (interp (· + ·)) (layer 5) (inputsPreFix (· + ·) cparts) 5 (.out 2) = .err := by decide
example : run (interp (· + ·)) (layer 5) (inputs (· + ·) cparts) 5 (.out 2) = .frame [⟨2, 0, 12⟩] := by decide

end Scan

/-! ## 3. map_overlap with integer windows -/
section Ov
open Overlap

/-- Under the guard the code checks (every partition with a successor has ≥ `before` rows, every
    partition with a predecessor ≥ `after` rows) output partition `i` of
    `MapPartitions(CreateOverlappingPartitions(frame, before, after), _overlap_chunk, func)` is the
    windowed operation evaluated on partition `i` *in the context of the whole frame*. -/
theorem C02_overlap_partition (p : Params) (g : List Row → Row → List Row → Row) (parts : Nat → List Row)
    (hg : guardOK p parts) (i : Nat) (hi : i < p.n) (F : Nat) (hF : 3 ≤ F) :
    run (interp p (win g p.before p.after)) (layer p) (inputs parts) F (.res i) =
      .frame (winAux g p.before p.after (beforeRows parts i).reverse (parts i) (afterRows parts p.n i)) := by
  obtain ⟨F', rfl⟩ : ∃ F', F = F' + 3 := ⟨F - 3, by omega⟩
  exact ov_run_res p g parts hg F' i hi

/-- …and the concatenation of the outputs is the windowed operation on the concatenated input. -/
theorem C02_overlap (p : Params) (g : List Row → Row → List Row → Row) (parts : Nat → List Row)
    (hg : guardOK p parts) (F : Nat) (hF : 3 ≤ F) :
    concatV ((List.range p.n).map (fun i =>
        run (interp p (win g p.before p.after)) (layer p) (inputs parts) F (.res i))) =
      .frame (win g p.before p.after ((List.range p.n).flatMap parts)) := by
  rw [concatV_map_frames (List.range p.n) _
    (fun i => winAux g p.before p.after (beforeRows parts i).reverse (parts i) (afterRows parts p.n i ++ []))
    (fun i hi => by
      rw [List.append_nil]
      exact C02_overlap_partition p g parts hg i (List.mem_range.mp hi) F hF)]
  rw [win_concat g p.before p.after parts p.n []]
  rfl

/-- Refusal, `before` side: a partition with a successor and fewer than `before` rows makes
    `_combined_parts` of the successor raise the explicit NotImplementedError (`none`), and nothing
    else is returned for that partition. -/
theorem C02_overlap_refuses_before (p : Params) (func : List Row → List Row) (parts : Nat → List Row)
    (j : Nat) (hb : p.before ≠ 0) (hj : j + 1 < p.n) (hlen : (parts j).length < p.before)
    (F : Nat) (hF : 3 ≤ F) :
    combinedParts p.before p.after (prevRows p parts (j+1)) (parts (j+1)) (nextRows p parts (j+1)) = none ∧
    run (interp p func) (layer p) (inputs parts) F (.res (j+1)) = .err := by
  obtain ⟨F', rfl⟩ : ∃ F', F = F' + 3 := ⟨F - 3, by omega⟩
  exact ov_refuse_before p func parts F' j hb hj hlen

/-- Refusal, `after` side. -/
theorem C02_overlap_refuses_after (p : Params) (func : List Row → List Row) (parts : Nat → List Row)
    (j : Nat) (ha : p.after ≠ 0) (hj : j + 1 < p.n) (hlen : (parts (j+1)).length < p.after)
    (F : Nat) (hF : 3 ≤ F) :
    combinedParts p.before p.after (prevRows p parts j) (parts j) (nextRows p parts j) = none ∧
    run (interp p func) (layer p) (inputs parts) F (.res j) = .err := by
  obtain ⟨F', rfl⟩ : ∃ F', F = F' + 3 := ⟨F - 3, by omega⟩
  exact ov_refuse_after p func parts F' j ha hj hlen

/-- "Either the exact answer or an explicit refusal": for every partitioning, either the guard holds
    (and `C02_overlap` gives the windowed operation on the concatenation) or some output partition is
    the refusal — never a frame with different content. -/
theorem C02_overlap_dichotomy (p : Params) (g : List Row → Row → List Row → Row) (parts : Nat → List Row)
    (F : Nat) (hF : 3 ≤ F) :
    (concatV ((List.range p.n).map (fun i =>
        run (interp p (win g p.before p.after)) (layer p) (inputs parts) F (.res i))) =
      .frame (win g p.before p.after ((List.range p.n).flatMap parts))) ∨
    (∃ i, i < p.n ∧ run (interp p (win g p.before p.after)) (layer p) (inputs parts) F (.res i) = .err) := by
  by_cases hg : guardOK p parts
  · exact Or.inl (C02_overlap p g parts hg F hF)
  · right
    unfold guardOK at hg
    rw [Classical.not_and_iff_not_or_not] at hg
    rcases hg with h | h
    · simp only [Classical.not_imp, Classical.not_forall, Nat.not_le] at h
      obtain ⟨hb, j, hj, hlen⟩ := h
      exact ⟨j + 1, hj, (C02_overlap_refuses_before p _ parts j hb hj hlen F hF).2⟩
    · simp only [Classical.not_imp, Classical.not_forall, Nat.not_le] at h
      obtain ⟨ha, j, h1, hj, hlen⟩ := h
      obtain ⟨j', rfl⟩ : ∃ j', j = j' + 1 := ⟨j - 1, by omega⟩
      exact ⟨j', by omega, (C02_overlap_refuses_after p _ parts j' ha hj hlen F hF).2⟩

theorem C02_overlap_wf (p : Params) (parts : Nat → List Row) :
    Closed (layer p) (inputs parts) ∧ Ranked (layer p) ovRank :=
  ⟨ov_closed p parts, ov_ranked p⟩

namespace C02Ex
/-- `shift(1) - shift(-1)`-like window: previous payload + 100 × next payload (0 where missing) -/
def gShift (pre : List Row) (r : Row) (post : List Row) : Row :=
  { r with pay := (match pre with | [] => 0 | q :: _ => q.pay) + 100 * (match post with | [] => 0 | q :: _ => q.pay) }
/-- layout `[2 | 1 | 3]` -/
def oparts (i : Nat) : List Row :=
  match i with
  | 0 => [⟨0, 0, 1⟩, ⟨1, 0, 2⟩]
  | 1 => [⟨2, 0, 3⟩]
  | 2 => [⟨3, 0, 4⟩, ⟨4, 0, 5⟩, ⟨5, 0, 6⟩]
  | _ => []
/-- layout `[2 | 0 | 3]`: the empty middle partition is shorter than the window -/
def opartsE (i : Nat) : List Row := if i = 1 then [] else oparts i
theorem oparts_guard : guardOK ⟨3, 1, 1⟩ oparts := by
  refine ⟨fun _ i hi => ?_, fun _ i h1 hi => ?_⟩
  · have : i = 0 ∨ i = 1 := by simp only at hi; omega
    rcases this with rfl | rfl <;> decide
  · have : i = 1 ∨ i = 2 := by simp only at hi; omega
    rcases this with rfl | rfl <;> decide
end C02Ex
open C02Ex

example : concatV ((List.range 3).map (fun i =>
    run (interp ⟨3, 1, 1⟩ (win gShift 1 1)) (layer ⟨3, 1, 1⟩) (inputs oparts) 3 (.res i))) =
    .frame (win gShift 1 1 ((List.range 3).flatMap oparts)) :=
  C02_overlap ⟨3, 1, 1⟩ gShift oparts oparts_guard 3 (by decide)

example : win gShift 1 1 ((List.range 3).flatMap oparts) =
    [⟨0, 0, 200⟩, ⟨1, 0, 301⟩, ⟨2, 0, 402⟩, ⟨3, 0, 503⟩, ⟨4, 0, 604⟩, ⟨5, 0, 5⟩] := by decide
example : run (interp ⟨3, 1, 1⟩ (win gShift 1 1)) (layer ⟨3, 1, 1⟩) (inputs oparts) 3 (.res 1) =
    .frame [⟨2, 0, 402⟩] := by decide
/-- an empty middle partition: both neighbours refuse -/
example : run (interp ⟨3, 1, 1⟩ (win gShift 1 1)) (layer ⟨3, 1, 1⟩) (inputs opartsE) 3 (.res 2) = .err :=
  (C02_overlap_refuses_before ⟨3, 1, 1⟩ _ opartsE 1 (by decide) (by decide) (by decide) 3 (by decide)).2
example : run (interp ⟨3, 1, 1⟩ (win gShift 1 1)) (layer ⟨3, 1, 1⟩) (inputs opartsE) 3 (.res 0) = .err :=
  (C02_overlap_refuses_after ⟨3, 1, 1⟩ _ opartsE 0 (by decide) (by decide) (by decide) 3 (by decide)).2

example : (concatV ((List.range 3).map (fun i =>
        run (interp ⟨3, 1, 1⟩ (win gShift 1 1)) (layer ⟨3, 1, 1⟩) (inputs opartsE) 3 (.res i))) =
      .frame (win gShift 1 1 ((List.range 3).flatMap opartsE))) ∨
    (∃ i, i < 3 ∧ run (interp ⟨3, 1, 1⟩ (win gShift 1 1)) (layer ⟨3, 1, 1⟩) (inputs opartsE) 3 (.res i) = .err) :=
  C02_overlap_dichotomy ⟨3, 1, 1⟩ gShift opartsE 3 (by decide)

end Ov

/-! ## 4. Blockwise -/
section BW
open Blockwise

/-- `Blockwise._task(i)`: the operation receives partition `i` of every partitioned operand and
    partition 0 of every broadcast operand (single partition and lower ndim), literals in place. -/
theorem C02_blockwise_task (I : Interp) (p : Params) (vals : Nat → Nat → V) (i : Nat) (hi : i < p.n)
    (F : Nat) (hF : 1 ≤ F) :
    run I (layer p) (inputs vals) F (.out i) = I opFn (p.args.filterMap (argVal p vals i)) := by
  obtain ⟨F', rfl⟩ : ∃ F', F = F' + 1 := ⟨F - 1, by omega⟩
  exact bw_run_out I p vals F' i hi

/-- If the operation, as a function `G` of its partitioned operands (broadcast operands and literals
    fixed), distributes over concatenation of co-partitioned pieces — row-local functions, row filters,
    zips of aligned operands — then concatenating the output partitions gives `G` of the concatenated
    operands, for every number of partitions and all partition sizes (empty ones included). -/
theorem C02_blockwise (I : Interp) (p : Params) (vals : Nat → Nat → V) (rows : Nat → Nat → List Row)
    (G : (Nat → List Row) → List Row) (hG : Additive G)
    (hco : ∀ i, CoLen (fun d => rows d i))
    (hvals : ∀ i d np nd, Arg.expr d np nd ∈ p.args → broadcastDep p np nd = false → vals d i = .frame (rows d i))
    (hI : ∀ xs, CoLen xs → I opFn (p.args.filterMap (argVec p (fun d => vals d 0) xs)) = .frame (G xs))
    (F : Nat) (hF : 1 ≤ F) :
    concatV ((List.range p.n).map (fun i => run I (layer p) (inputs vals) F (.out i))) =
      .frame (G (fun d => (List.range p.n).flatMap (rows d))) := by
  rw [concatV_map_frames (List.range p.n) _ (fun i => G (fun d => rows d i)) (fun i hi => by
    rw [C02_blockwise_task I p vals i (List.mem_range.mp hi) F hF,
      bw_argVal_eq_argVec p vals rows i p.args (hvals i)]
    exact hI _ (hco i))]
  rw [additive_concat G hG rows hco]

/-- row-local function `f` of one partitioned operand (all non-broadcast arguments are that
    operand) with any broadcast operands and literals:
    `concat (parts.map (map f)) = (concat parts).map f` through the real task structure -/
theorem C02_blockwise_map (I : Interp) (p : Params) (vals : Nat → Nat → V) (parts : Nat → List Row)
    (f : Row → Row)
    (hvals : ∀ i d np nd, Arg.expr d np nd ∈ p.args → broadcastDep p np nd = false → vals d i = .frame (parts i))
    (hI : ∀ xs, I opFn (p.args.filterMap (argVec p (fun d => vals d 0) xs)) = .frame ((xs 0).map f))
    (F : Nat) (hF : 1 ≤ F) :
    concatV ((List.range p.n).map (fun i => run I (layer p) (inputs vals) F (.out i))) =
      .frame (((List.range p.n).flatMap parts).map f) :=
  C02_blockwise I p vals (fun _ => parts) (fun xs => (xs 0).map f) (additive_map f)
    (fun _ _ _ => rfl) hvals (fun xs _ => hI xs) F hF

/-- binary row-wise operation of two co-partitioned operands (dependencies 0 and 1 with equal
    partition sizes — what alignment establishes), e.g. `df.a + df.b` -/
theorem C02_blockwise_zip (I : Interp) (p : Params) (vals : Nat → Nat → V) (l r : Nat → List Row)
    (g : Row → Row → Row) (hlen : ∀ i, (l i).length = (r i).length)
    (hvals : ∀ i d np nd, Arg.expr d np nd ∈ p.args → broadcastDep p np nd = false →
      vals d i = .frame (if d = 0 then l i else r i))
    (hI : ∀ xs, (xs 0).length = (xs 1).length →
      I opFn (p.args.filterMap (argVec p (fun d => vals d 0) xs)) = .frame (List.zipWith g (xs 0) (xs 1)))
    (F : Nat) (hF : 1 ≤ F) :
    concatV ((List.range p.n).map (fun i => run I (layer p) (inputs vals) F (.out i))) =
      .frame (List.zipWith g ((List.range p.n).flatMap l) ((List.range p.n).flatMap r)) := by
  have := C02_blockwise I p vals (fun d i => if d = 0 then l i else r i)
    (fun xs => List.zipWith g (xs 0) (xs 1)) (additive_zipWith g)
    (fun i d d' => by
      show (if d = 0 then l i else r i).length = (if d' = 0 then l i else r i).length
      by_cases h : d = 0 <;> by_cases h' : d' = 0 <;> simp [h, h', hlen i])
    hvals (fun xs hx => hI xs (hx 0 1)) F hF
  simpa using this

theorem C02_blockwise_wf (p : Params) (vals : Nat → Nat → V) :
    Closed (layer p) (inputs vals) ∧ Ranked (layer p) bwRank :=
  ⟨bw_closed p vals, bw_ranked p⟩

namespace C02Ex
/-- `series + series.sum()`: operand 0 partitioned (ndim 1), operand 1 a single-partition scalar (ndim 0),
    plus a literal -/
def bwp : Params := ⟨3, 1, false, [.expr 0 3 1, .expr 1 1 0, .lit "fill_value=None"]⟩
def IAdd : Interp := fun _ vs =>
  match vs with
  | [.frame x, s] => .frame (x.map (fun r => { r with pay := r.pay + payOf s }))
  | _ => .err
def bvals (d i : Nat) : V := if d = 0 then .frame (parts5 i) else .frame [⟨0, 0, 92⟩]
end C02Ex
open C02Ex

example : concatV ((List.range 3).map (fun i => run IAdd (layer bwp) (inputs bvals) 1 (.out i))) =
    .frame (((List.range 3).flatMap parts5).map (fun r => { r with pay := r.pay + 92 })) :=
  C02_blockwise_map IAdd bwp bvals parts5 _
    (by
      intro i d np nd hm hb
      simp only [bwp, List.mem_cons, Arg.expr.injEq, List.not_mem_nil, or_false, reduceCtorEq] at hm
      rcases hm with ⟨rfl, rfl, rfl⟩ | ⟨rfl, rfl, rfl⟩
      · rfl
      · exact absurd hb (by decide))
    (fun xs => rfl) 1 (by decide)

/-- `df.a + df.b` on aligned operands with partition sizes 2, 0, 2 -/
example : concatV ((List.range 3).map (fun i =>
      run (fun _ vs => match vs with
          | [.frame x, .frame y] => .frame (List.zipWith (fun r q => { r with pay := r.pay + q.pay }) x y)
          | _ => .err)
        (layer ⟨3, 1, false, [.expr 0 3 1, .expr 1 3 1]⟩)
        (inputs (fun _ i => .frame (parts5 i))) 1 (.out i))) =
    .frame (List.zipWith (fun r q => { r with pay := r.pay + q.pay })
      ((List.range 3).flatMap parts5) ((List.range 3).flatMap parts5)) :=
  C02_blockwise_zip _ ⟨3, 1, false, [.expr 0 3 1, .expr 1 3 1]⟩ _ parts5 parts5 _ (fun _ => rfl)
    (by
      intro i d np nd hm _
      simp only [List.mem_cons, Arg.expr.injEq, List.not_mem_nil, or_false] at hm
      rcases hm with ⟨rfl, _, _⟩ | ⟨rfl, _, _⟩ <;> rfl)
    (fun xs _ => rfl) 1 (by decide)

/-- the broadcast operand is read at partition 0 by every output partition -/
example : layer bwp (.out 2) = some (.apply opFn [.dep 0 2, .dep 1 0]) := rfl

end BW

/-! ## 5. consumers of a shuffle -/
section Consumers
open Shuffle GJ

/-- all rows of a frame given by its partitions -/
abbrev allRows (n : Nat) (rows : Nat → List Row) : List Row := (List.range n).flatMap rows

/-- ShuffleReduce / groupby-aggregate with `split_out`: after a shuffle that assigns partition
    `tgt(key)` (one function of the key: `hash(key) % nout`), aggregating every output partition
    group-wise and concatenating gives exactly the groups of the whole frame — every group once, with
    exactly its rows in frame order — up to the order of the groups. -/
theorem C02_shuffle_reduce {κ β} [DecidableEq κ] (p : Params) (rows : Nat → List Row) (key : Row → κ)
    (f : κ → List Row → List β) (tgt : κ → Nat) (htgt : ∀ k, tgt k < p.nout)
    (hassign : ∀ i, ∀ r ∈ rows i, r.tgt = tgt (key r)) :
    ((List.range p.nout).flatMap (fun o => groupApply key f (sem p rows o))).Perm
      (groupApply key f (allRows p.nin rows)) := by
  refine List.Perm.trans (List.Perm.of_eq ?_) (groupApply_split key f tgt p.nout htgt (allRows p.nin rows))
  apply flatMap_congr'
  intro o _
  rw [sem_eq_filter]
  congr 1
  apply List.filter_congr
  intro r hr
  obtain ⟨i, _, hri⟩ := List.mem_flatMap.mp hr
  rw [hassign i r hri]

/-- `groupby(key).apply(func)` after a key shuffle: every group lives in one partition, so applying
    `func` group-wise per partition equals applying it to the groups of the whole frame. -/
theorem C02_groupby_apply {κ} [DecidableEq κ] (p : Params) (rows : Nat → List Row) (key : Row → κ)
    (func : List Row → List Row) (tgt : κ → Nat) (htgt : ∀ k, tgt k < p.nout)
    (hassign : ∀ i, ∀ r ∈ rows i, r.tgt = tgt (key r)) :
    ((List.range p.nout).flatMap (fun o => groupApply key (fun _ g => func g) (sem p rows o))).Perm
      (groupApply key (fun _ g => func g) (allRows p.nin rows)) :=
  C02_shuffle_reduce p rows key _ tgt htgt hassign

/-- the same through the real SimpleShuffle graph (`C12_simple`): the per-partition aggregation of the
    evaluated output partitions -/
theorem C02_shuffle_reduce_run {κ β} [DecidableEq κ] (I : Interp) (p : Params) (rows : Nat → List Row)
    (key : Row → κ) (f : κ → List Row → List β) (tgt : κ → Nat) (htgt : ∀ k, tgt k < p.nout)
    (hassign : ∀ i, ∀ r ∈ rows i, r.tgt = tgt (key r)) (hp : p.parts = List.range p.nout) :
    ((List.range p.nout).flatMap (fun j =>
        match run I (simpleTask p) (inputs rows) 3 (.out .self j) with
        | .frame l => groupApply key f l
        | _ => [])).Perm
      (groupApply key f (allRows p.nin rows)) := by
  refine List.Perm.trans (List.Perm.of_eq ?_) (C02_shuffle_reduce p rows key f tgt htgt hassign)
  apply flatMap_congr'
  intro j hj
  have hj' := List.mem_range.mp hj
  have hlen : j < p.parts.length := by rw [hp]; simpa using hj'
  have hrows : ∀ i, ∀ r ∈ rows i, r.tgt < p.nout := fun i r hr => by rw [hassign i r hr]; exact htgt _
  have hparts : ∀ o ∈ p.parts, o < p.nout := by
    intro o ho; rw [hp] at ho; exact List.mem_range.mp ho
  rw [C12_simple I p rows j hlen hparts hrows]
  have : p.parts[j] = j := by simp [hp]
  rw [this]

/-- Hash join: both sides shuffled to the same number of partitions with the partition number one
    function of the (cast) key value.  Joining partition-wise and concatenating is a permutation of
    joining the whole frames.  (`C12_cross_frame` is the reason a left row finds all its partners in the
    partition with its own number.) -/
theorem C02_join_hash {κ} [DecidableEq κ] (p₁ p₂ : Params) (rows₁ rows₂ : Nat → List Row)
    (key₁ key₂ : Row → κ) (h : κ → Nat) (hn : p₁.nout = p₂.nout) (hpos : 0 < p₁.nout)
    (ha₁ : ∀ i, ∀ r ∈ rows₁ i, r.tgt = h (key₁ r) % p₁.nout)
    (ha₂ : ∀ i, ∀ r ∈ rows₂ i, r.tgt = h (key₂ r) % p₂.nout) :
    ((List.range p₁.nout).flatMap (fun o => joinInner key₁ key₂ (sem p₁ rows₁ o) (sem p₂ rows₂ o))).Perm
      (joinInner key₁ key₂ (allRows p₁.nin rows₁) (allRows p₂.nin rows₂)) := by
  refine List.Perm.trans (List.Perm.of_eq ?_)
    (joinInner_split key₁ key₂ (fun k => h k % p₁.nout) p₁.nout (fun k => Nat.mod_lt _ hpos) _ _)
  apply flatMap_congr'
  intro o _
  rw [sem_eq_filter, sem_eq_filter]
  congr 1
  · apply List.filter_congr
    intro r hr
    obtain ⟨i, _, hri⟩ := List.mem_flatMap.mp hr
    rw [ha₁ i r hri]
  · apply List.filter_congr
    intro r hr
    obtain ⟨i, _, hri⟩ := List.mem_flatMap.mp hr
    rw [ha₂ i r hri, hn]

/-- co-location across the two frames, as used above, stated with `C12_cross_frame`: matching rows
    are in output partitions with the same number -/
theorem C02_join_partners_colocated {κ : Type} (p₁ p₂ : Params) (rows₁ rows₂ : Nat → List Row)
    (key₁ key₂ : Row → κ) (h : κ → Nat) (hn : p₁.nout = p₂.nout)
    (ha₁ : ∀ i, ∀ r ∈ rows₁ i, r.tgt = h (key₁ r) % p₁.nout)
    (ha₂ : ∀ i, ∀ r ∈ rows₂ i, r.tgt = h (key₂ r) % p₂.nout)
    (o₁ o₂ : Nat) (l r : Row) (hl : l ∈ sem p₁ rows₁ o₁) (hr : r ∈ sem p₂ rows₂ o₂)
    (hmatch : key₁ l = key₂ r) : o₁ = o₂ :=
  C12_cross_frame p₁ p₂ rows₁ rows₂ key₁ key₂ h hn ha₁ ha₂ o₁ o₂ l r hl hr hmatch

/-- left join (unmatched left rows kept once) -/
theorem C02_join_left_hash {κ} [DecidableEq κ] (p₁ p₂ : Params) (rows₁ rows₂ : Nat → List Row)
    (key₁ key₂ : Row → κ) (h : κ → Nat) (hn : p₁.nout = p₂.nout) (hpos : 0 < p₁.nout)
    (ha₁ : ∀ i, ∀ r ∈ rows₁ i, r.tgt = h (key₁ r) % p₁.nout)
    (ha₂ : ∀ i, ∀ r ∈ rows₂ i, r.tgt = h (key₂ r) % p₂.nout) :
    ((List.range p₁.nout).flatMap (fun o => joinLeft key₁ key₂ (sem p₁ rows₁ o) (sem p₂ rows₂ o))).Perm
      (joinLeft key₁ key₂ (allRows p₁.nin rows₁) (allRows p₂.nin rows₂)) := by
  refine List.Perm.trans (List.Perm.of_eq ?_)
    (joinLeft_split key₁ key₂ (fun k => h k % p₁.nout) p₁.nout (fun k => Nat.mod_lt _ hpos) _ _)
  apply flatMap_congr'
  intro o _
  rw [sem_eq_filter, sem_eq_filter]
  congr 1
  · apply List.filter_congr
    intro r hr
    obtain ⟨i, _, hri⟩ := List.mem_flatMap.mp hr
    rw [ha₁ i r hri]
  · apply List.filter_congr
    intro r hr
    obtain ⟨i, _, hri⟩ := List.mem_flatMap.mp hr
    rw [ha₂ i r hri, hn]

/-- Broadcast join (inner, large side on the left): the small side is concatenated into one frame and
    joined with every partition of the large side; the concatenation is the join of the whole frames,
    rows in the order of the large side. -/
theorem C02_join_broadcast {κ} [DecidableEq κ] (key₁ key₂ : Row → κ) (n : Nat) (big : Nat → List Row)
    (small : List Row) :
    (List.range n).flatMap (fun i => joinInner key₁ key₂ (big i) small) =
      joinInner key₁ key₂ (allRows n big) small := by
  unfold joinInner allRows
  rw [List.flatMap_assoc]

namespace C02Ex
open C12Ex
/-- key = payload, partition number = 3 * key % 7 -/
def jrows₁ (i : Nat) : List Row := [⟨i, (3 * i) % 7, i⟩, ⟨i + 10, (3 * (i + 1)) % 7, i + 1⟩]
def jrows₂ (i : Nat) : List Row := [⟨0, (3 * (i + 1)) % 7, i + 1⟩]
end C02Ex
open C02Ex

example : ((List.range 7).flatMap (fun o => groupApply (fun r => r.pay) (fun k g => [(k, g.length)])
      (sem C12Ex.pNe jrows₁ o))).Perm
    (groupApply (fun r => r.pay) (fun k g => [(k, g.length)]) (allRows 3 jrows₁)) :=
  C02_shuffle_reduce C12Ex.pNe jrows₁ (fun r => r.pay) _ (fun k => 3 * k % 7) (fun k => Nat.mod_lt _ (by decide))
    (by
      intro i r hr
      simp only [jrows₁, List.mem_cons, List.not_mem_nil, or_false] at hr
      rcases hr with rfl | rfl <;> rfl)

example : groupApply (fun r => r.pay) (fun k g => [(k, g.length)]) (allRows 3 jrows₁) =
    [(0, 1), (1, 2), (2, 2), (3, 1)] := by decide

example : ((List.range 7).flatMap (fun o => joinInner (fun r => r.pay) (fun r => r.pay)
      (sem C12Ex.pNe jrows₁ o) (sem C12Ex.pNeAll jrows₂ o))).Perm
    (joinInner (fun r => r.pay) (fun r => r.pay) (allRows 3 jrows₁) (allRows 3 jrows₂)) :=
  C02_join_hash C12Ex.pNe C12Ex.pNeAll jrows₁ jrows₂ (fun r => r.pay) (fun r => r.pay) (fun k => 3 * k) rfl
    (by decide)
    (by
      intro i r hr
      simp only [jrows₁, List.mem_cons, List.not_mem_nil, or_false] at hr
      rcases hr with rfl | rfl <;> rfl)
    (by
      intro i r hr
      simp only [jrows₂, List.mem_singleton] at hr
      subst hr; rfl)

example : (joinInner (fun r => r.pay) (fun r => r.pay) (allRows 3 jrows₁) (allRows 3 jrows₂)).length = 5 := by
  decide

example : ((List.range 7).flatMap (fun o => joinLeft (fun r => r.pay) (fun r => r.pay)
      (sem C12Ex.pNe jrows₁ o) (sem C12Ex.pNeAll jrows₂ o))).Perm
    (joinLeft (fun r => r.pay) (fun r => r.pay) (allRows 3 jrows₁) (allRows 3 jrows₂)) :=
  C02_join_left_hash C12Ex.pNe C12Ex.pNeAll jrows₁ jrows₂ (fun r => r.pay) (fun r => r.pay) (fun k => 3 * k) rfl
    (by decide)
    (by
      intro i r hr
      simp only [jrows₁, List.mem_cons, List.not_mem_nil, or_false] at hr
      rcases hr with rfl | rfl <;> rfl)
    (by
      intro i r hr
      simp only [jrows₂, List.mem_singleton] at hr
      subst hr; rfl)

/-- one left row (key 0) has no partner and is kept once -/
example : (joinLeft (fun r => r.pay) (fun r => r.pay) (allRows 3 jrows₁) (allRows 3 jrows₂)).length = 6 := by
  decide

example : (List.range 3).flatMap (fun i => joinInner (fun r => r.pay) (fun r => r.pay) (jrows₁ i) (allRows 3 jrows₂)) =
    joinInner (fun r => r.pay) (fun r => r.pay) (allRows 3 jrows₁) (allRows 3 jrows₂) :=
  C02_join_broadcast _ _ 3 jrows₁ _

end Consumers
end Dx
