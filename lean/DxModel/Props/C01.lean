/-
  Props/C01.lean — "Optimization never changes what a query computes".

  The drivers of dask_expr/_core.py (`rewrite`, `simplify_once`, `simplify`, `lower_once`,
  `lower_completely`) and the pipeline `optimize_until` / `optimize` of dask_expr/_expr.py
  (model: DxModel/Drivers.lean) return an expression that denotes the same as their input

    * for ALL expression trees, ALL rule systems, ALL amounts of fuel,
    * for ALL dependents maps handed to the `_simplify_up` rules (`RulesSound` asks a rule to be sound
      for an arbitrary map: stale, incomplete, thinned by dead weak references, polluted by the
      "bandaid" appends) and ALL contents of the `simplified` cache that are sound (`CacheSound`),
    * up to ANY equivalence `≈` on values that the operators respect (`Congruence`: row order and index
      labels may be left unspecified),
    * whatever the status of the run (`ok`, `nonconverge`, `fuel`): every expression a driver can hold
      at any moment denotes the same as the input.

  What is *assumed* (hypothesis, never an axiom): `RulesSound` — every single rule output denotes the
  same as the expression the driver replaces by it.  For the rule families that are modelled this is
  proven in C03 (filters), C04 (projections), C11 (head/tail/partitions), C06 (len); firings of all
  other rules are listed by the harness (`unmodelled_rule_firings`) and covered by the differential
  search only.  Whether `simplify` converges at all is C19, not C01: `nonconverge` is an outcome here.

  `C01_deps_sensitive*`: for rules whose soundness needs a fact about the REAL consumers of the child
  (side condition `P child parent deps`), the drivers are sound provided every `_simplify_up` firing
  of the run saw a map satisfying `P` — the T3 tie checks exactly that on the traced firings.

  `C01_fragment_*` (last section): for the fragment of real classes of DxModel/Fragment.lean — FromPandas,
  Projection, Abs/Neg/Pos/Invert, Binop with a scalar, Binop of two expressions (incl. And/Or), Assign,
  RenameFrame, Filter, Merge on columns, row-wise Concat — with the rule system `fragRules` that is DEFINED by
  the rule functions of Dx.Cols / Dx.Pred, the hypothesis `RulesSound` is a THEOREM (derived from the C04 / C03
  theorems about those functions), so every driver statement above holds there without hypothesis.
-/
import DxModel.Lemmas.Drivers
import DxModel.Lemmas.FragSound
namespace Dx

variable {V U : Type}

/-- `a ≈ b`: the two expressions compute equivalent values -/
def Equiv (C : Congruence V) (a b : Expr) : Prop := C.r (denote C.toSem a) (denote C.toSem b)

/-- the denotation is compositional: class, non-expression operands, meanings of the operands -/
theorem C01_denote_compositional (C : Congruence V) (c l : Nat) (as : List Expr) :
    denote C.toSem (.node c l as) = C.sem c l (as.map (denote C.toSem)) := by
  simp only [denote, denoteList_eq_map]
  rfl

/-- `Expr.rewrite(kind="tune")` -/
theorem C01_rewrite_sound (C : Congruence V) (R : Rules) (hR : RulesSound C.toSem R)
    (fuel : Nat) (e : Expr) : Equiv C (rewrite R fuel e).expr e :=
  rewriteWith_sound C.toSem _ _ hR.tuneDown_ok hR.tuneUp_ok fuel e

/-- `Expr.simplify_once(dependents, simplified)`: for every dependents map and every sound cache the
    result denotes the same as `self`, and the cache stays sound. -/
theorem C01_simplifyOnce_sound (C : Congruence V) (R : Rules) (hR : RulesSound C.toSem R)
    (fuel : Nat) (e : Expr) (s : SState) (hc : CacheSound C.toSem s.cache) :
    Equiv C (simplifyOnce R fuel e s).1 e ∧ CacheSound C.toSem (simplifyOnce R fuel e s).2.cache :=
  simplifyOnce_sound C.toSem R _ hR fuel e s (TraceGood.trivial _) hc

/-- `Expr.simplify()`, whatever its outcome (converged, "Optimizer does not converge", out of fuel) -/
theorem C01_simplify_sound (C : Congruence V) (R : Rules) (hR : RulesSound C.toSem R)
    (fuel : Nat) (e : Expr) : Equiv C (simplify R fuel e).expr e :=
  simplifyT_sound C.toSem R _ hR fuel e [] (TraceGood.trivial _)

/-- `Expr.lower_once()` -/
theorem C01_lowerOnce_sound (C : Congruence V) (R : Rules) (hR : RulesSound C.toSem R)
    (fuel : Nat) (e : Expr) : Equiv C (lowerOnce R fuel e).expr e :=
  lowerOnce_sound C.toSem R hR.lower_ok fuel e

/-- `Expr.lower_completely()` -/
theorem C01_lowerCompletely_sound (C : Congruence V) (R : Rules) (hR : RulesSound C.toSem R)
    (fuel : Nat) (e : Expr) : Equiv C (lowerCompletely R fuel e).expr e :=
  lowerLoop_sound C.toSem R hR.lower_ok fuel fuel e

/-- `optimize_until(expr, stage)` for every stage: logical, simplified-logical, tuned-logical,
    physical, simplified-physical, fused. -/
theorem C01_optimizeUntil_sound (C : Congruence V) (R : Rules) (hR : RulesSound C.toSem R)
    (fuel : Nat) (stage : Stage) (e : Expr) : Equiv C (optimizeUntil R fuel stage e).expr e :=
  optimizeUntilT_sound C.toSem R _ hR fuel stage e (TraceGood.trivial _)

/-- `optimize(expr, fuse)` -/
theorem C01_optimize_sound (C : Congruence V) (R : Rules) (hR : RulesSound C.toSem R)
    (fuel : Nat) (fuse : Bool) (e : Expr) : Equiv C (optimize R fuel fuse e).expr e :=
  C01_optimizeUntil_sound C R hR fuel _ e

/-- the optimized and the unoptimized plan are interchangeable in both directions and inside any
    larger query (`≈` is symmetric and a congruence) -/
theorem C01_optimize_in_context (C : Congruence V) (R : Rules) (hR : RulesSound C.toSem R)
    (fuel : Nat) (stage : Stage) (e : Expr) (c l : Nat) (pre post : List Expr) :
    Equiv C (.node c l (pre ++ e :: post)) (.node c l (pre ++ (optimizeUntil R fuel stage e).expr :: post)) := by
  apply Ref.rebuild C.toSem
  induction pre with
  | nil =>
    refine .cons (C.symm (C01_optimizeUntil_sound C R hR fuel stage e)) ?_
    exact forall2_refl C.toSem post
  | cons a t ih => exact .cons (Ref.refl _ a) ih

/-- The same statements for an arbitrary *preorder* "may replace" (the form used for definedness). -/
theorem C01_optimizeUntil_refines (S : Sem V) (R : Rules) (hR : RulesSound S R)
    (fuel : Nat) (stage : Stage) (e : Expr) : Ref S (optimizeUntil R fuel stage e).expr e :=
  optimizeUntilT_sound S R _ hR fuel stage e (TraceGood.trivial _)

/-- **An optimized query never fails where the unoptimized one succeeds**: with partial operators
    (`denoteP : Expr → Option U`), if the rules are sound for partial semantics (a rule output is
    defined, with an equivalent value, whenever the expression it replaces is) and the original query
    denotes `some v`, the plan of every stage denotes some `v' ≈ v`. -/
theorem C01_no_new_failure (P : PSem U) (R : Rules) (hR : RulesSound P.toSem R)
    (fuel : Nat) (stage : Stage) (e : Expr) (v : U) (h : denoteP P e = some v) :
    ∃ v', denoteP P (optimizeUntil R fuel stage e).expr = some v' ∧ P.eqv v' v :=
  C01_optimizeUntil_refines P.toSem R hR fuel stage e v h

/-- no new failure for each single driver -/
theorem C01_no_new_failure_drivers (P : PSem U) (R : Rules) (hR : RulesSound P.toSem R)
    (fuel : Nat) (e : Expr) (v : U) (h : denoteP P e = some v) :
    (∃ v', denoteP P (simplify R fuel e).expr = some v' ∧ P.eqv v' v) ∧
    (∃ v', denoteP P (rewrite R fuel e).expr = some v' ∧ P.eqv v' v) ∧
    (∃ v', denoteP P (lowerOnce R fuel e).expr = some v' ∧ P.eqv v' v) ∧
    (∃ v', denoteP P (lowerCompletely R fuel e).expr = some v' ∧ P.eqv v' v) :=
  ⟨simplifyT_sound P.toSem R _ hR fuel e [] (TraceGood.trivial _) v h,
   rewriteWith_sound P.toSem _ _ hR.tuneDown_ok hR.tuneUp_ok fuel e v h,
   lowerOnce_sound P.toSem R hR.lower_ok fuel e v h,
   lowerLoop_sound P.toSem R hR.lower_ok fuel fuel e v h⟩

/-- **Rules that need to know the real consumers.**  If `_simplify_up` is sound only for dependents
    maps satisfying `P child parent deps`, `simplify_once` is sound for every run in which every
    firing saw such a map (the trace records exactly the arguments the rule was called with). -/
theorem C01_deps_sensitive_simplifyOnce (C : Congruence V) (R : Rules) (P : Expr → Expr → Deps → Prop)
    (hR : RulesSoundUnder C.toSem R P) (fuel : Nat) (e : Expr) (s : SState)
    (hc : CacheSound C.toSem s.cache) (ht : TraceGood P (simplifyOnce R fuel e s).2.trace) :
    Equiv C (simplifyOnce R fuel e s).1 e ∧ CacheSound C.toSem (simplifyOnce R fuel e s).2.cache :=
  simplifyOnce_sound C.toSem R P hR fuel e s ht hc

theorem C01_deps_sensitive_simplify (C : Congruence V) (R : Rules) (P : Expr → Expr → Deps → Prop)
    (hR : RulesSoundUnder C.toSem R P) (fuel : Nat) (e : Expr)
    (ht : TraceGood P (simplifyT R fuel e []).2) : Equiv C (simplify R fuel e).expr e :=
  simplifyT_sound C.toSem R P hR fuel e [] ht

/-- the whole pipeline (both `simplify` passes contribute to the trace) -/
theorem C01_deps_sensitive (C : Congruence V) (R : Rules) (P : Expr → Expr → Deps → Prop)
    (hR : RulesSoundUnder C.toSem R P) (fuel : Nat) (stage : Stage) (e : Expr)
    (ht : TraceGood P (optimizeUntilT R fuel stage e).2) :
    Equiv C (optimizeUntil R fuel stage e).expr e :=
  optimizeUntilT_sound C.toSem R P hR fuel stage e ht

/-- `collect_dependents(expr)` only records real (operand, consumer) pairs; what can make the map the
    rules see *untruthful about the current tree* is staleness (consumers that were rewritten away) and
    the bandaid appends — which is why `RulesSound` quantifies over every map. -/
theorem C01_collectDependents_truthful (e : Expr) : DepsTruthful (collectDependents e) :=
  collectLoop_truthful _ _ _ _ (fun _ _ h => by cases h)

/-- a firing is only ever recorded for a rule call that really happened with these arguments -/
theorem C01_trace_monotone (R : Rules) (fuel : Nat) (e : Expr) (s : SState) (f : Firing)
    (hf : f ∈ s.trace) : f ∈ (simplifyOnce R fuel e s).2.trace :=
  simplifyOnce_trace_mono R fuel e s f hf

/-! ## Non-vacuity: a concrete three-class rule system

  class 0 = source frame (three columns), class 1 = elementwise "add `lit` to every cell",
  class 2 = projection "keep column number `lit`".  Rules: projection pushed through the elementwise
  operator (`_simplify_up` of the elementwise child, as `Elemwise._simplify_up[Projection]`),
  `Projection[0]` of a one-column projection squashed (`_simplify_down`), `+0` lowered away. -/
namespace C01Ex

abbrev Frame := List (List Nat)

def toySem : Nat → Nat → List Frame → Frame
  | 0, l, [] => [[l, l + 1, l + 2], [10, 20, 30], [7, 7, 7]]
  | 1, k, [f] => f.map (fun col => col.map (· + k))
  | 2, l, [f] => match f[l]? with
    | some col => [col]
    | none => []
  | _, _, _ => []

def toyC : Congruence Frame := Congruence.ofEq toySem

def toyRules : Rules where
  down := fun e => match e with
    | .node 2 0 [.node 2 l [x]] => some (.node 2 l [x])
    | _ => none
  up := fun c p _ => match c, p with
    | .node 1 k [x], .node 2 l [c'] => if c' == c then some (.node 1 k [.node 2 l [x]]) else none
    | _, _ => none
  tuneDown := fun _ => none
  tuneUp := fun _ _ => none
  lower := fun e => match e with
    | .node 1 0 [x] => some x
    | _ => none
  fuse := id

theorem toy_unary (c l : Nat) (x : Expr) :
    denote toyC.toSem (.node c l [x]) = toySem c l [denote toyC.toSem x] := rfl

theorem toyRules_sound : RulesSound toyC.toSem toyRules where
  down_ok := by
    intro e o h
    simp only [toyRules] at h
    split at h
    · next l x =>
      have ho : Expr.node 2 l [x] = o := Option.some.inj h
      subst ho
      show denote toyC.toSem _ = denote toyC.toSem _
      rw [toy_unary, toy_unary, toy_unary]
      generalize denote toyC.toSem x = f
      simp only [toySem]
      cases f[l]? <;> simp
    · cases h
  up_ok := by
    intro c p d o _ h
    simp only [toyRules] at h
    split at h
    · next k x l c' =>
      split at h
      · next hc =>
        have hc' : c' = .node 1 k [x] := by simpa using hc
        have ho : Expr.node 1 k [.node 2 l [x]] = o := Option.some.inj h
        subst ho
        subst hc'
        show denote toyC.toSem _ = denote toyC.toSem _
        rw [toy_unary, toy_unary, toy_unary, toy_unary]
        generalize denote toyC.toSem x = f
        simp only [toySem, List.getElem?_map]
        cases f[l]? <;> simp
      · cases h
    · cases h
  tuneDown_ok := by intro e o h; cases h
  tuneUp_ok := by intro c p o h; cases h
  lower_ok := by
    intro e o h
    simp only [toyRules] at h
    split at h
    · next x =>
      have ho : x = o := Option.some.inj h
      subst ho
      show denote toyC.toSem _ = denote toyC.toSem _
      rw [toy_unary]
      generalize denote toyC.toSem x = f
      simp [toySem]
    · cases h
  fuse_ok := fun e => rfl

/-- `src[1] + 5` written as `((src + 0) + 5)[1]` -/
def q : Expr := .node 2 1 [.node 1 5 [.node 1 0 [.node 0 3 []]]]

/-- the driver output is computed by the kernel: projection pushed to the source, `+0` lowered away -/
example : (optimizeUntil toyRules 8 .fused q).expr = .node 1 5 [.node 2 1 [.node 0 3 []]] := by decide +kernel
example : (optimizeUntil toyRules 8 .fused q).st = .ok := by decide +kernel
example : (simplify toyRules 8 q).expr = .node 1 5 [.node 1 0 [.node 2 1 [.node 0 3 []]]] := by decide +kernel
/-- … and by the theorem it computes the same frame, here `[[15, 25, 35]]` -/
example : denote toyC.toSem (optimizeUntil toyRules 8 .fused q).expr = denote toyC.toSem q :=
  C01_optimizeUntil_sound toyC toyRules toyRules_sound 8 .fused q
example : denote toyC.toSem q = [[15, 25, 35]] := by decide +kernel
/-- the hypotheses of `C01_simplifyOnce_sound`: a non-empty sound cache and a stale dependents map -/
example : CacheSound toyC.toSem [(.node 2 1 [.node 1 0 [.node 0 3 []]], .node 2 1 [.node 0 3 []])] := by
  intro k v h
  simp only [List.mem_singleton, Prod.mk.injEq] at h
  obtain ⟨h1, h2⟩ := h
  subst h1; subst h2
  show denote toyC.toSem _ = denote toyC.toSem _
  decide
example : (simplifyOnce toyRules 8 q
    ⟨[(.node 0 9 [], q)], [(.node 2 1 [.node 1 0 [.node 0 3 []]], .node 2 1 [.node 0 3 []])], [], false⟩).1
    = .node 1 5 [.node 2 1 [.node 0 3 []]] := by decide +kernel

/-! ### partial semantics: a projection of a missing column fails -/

def toyP : PSem Frame where
  psem := fun c l vs => match c, l, vs with
    | 0, l, [] => some [[l, l + 1, l + 2], [10, 20, 30], [7, 7, 7]]
    | 1, k, [f] => some (f.map (fun col => col.map (· + k)))
    | 2, l, [f] => match f[l]? with
      | some col => some [col]
      | none => none
    | _, _, _ => none
  eqv := Eq
  refl := fun _ => rfl
  symm := Eq.symm
  trans := Eq.trans
  congr := by
    intro c l vs ws v h
    have : vs = ws := by
      induction h with
      | nil => rfl
      | cons h _ ih => rw [h, ih]
    subst this
    intro hv
    exact ⟨v, hv, rfl⟩

theorem toyP_unary (c l : Nat) (x : Expr) :
    denoteP toyP (.node c l [x]) = match denoteP toyP x with
      | some f => toyP.psem c l [f]
      | none => none := by
  rw [denoteP_node]
  simp only [List.map_cons, List.map_nil]
  cases denoteP toyP x <;> simp [allSome]

theorem toyRules_soundP : RulesSound toyP.toSem toyRules where
  down_ok := by
    intro e o h
    simp only [toyRules] at h
    split at h
    · next l x =>
      have ho : Expr.node 2 l [x] = o := Option.some.inj h
      subst ho
      intro v hv
      refine ⟨v, ?_, rfl⟩
      change denoteP toyP _ = some v at hv
      change denoteP toyP _ = some v
      rw [toyP_unary, toyP_unary] at hv
      rw [toyP_unary]
      cases hx : denoteP toyP x with
      | none => rw [hx] at hv; cases hv
      | some f =>
        rw [hx] at hv
        simp only [toyP] at hv ⊢
        cases hl : f[l]? with
        | none => rw [hl] at hv; cases hv
        | some col => rw [hl] at hv; simpa using hv
    · cases h
  up_ok := by
    intro c p d o _ h
    simp only [toyRules] at h
    split at h
    · next k x l c' =>
      split at h
      · next hc =>
        have hc' : c' = .node 1 k [x] := by simpa using hc
        have ho : Expr.node 1 k [.node 2 l [x]] = o := Option.some.inj h
        subst ho
        subst hc'
        intro v hv
        refine ⟨v, ?_, rfl⟩
        change denoteP toyP _ = some v at hv
        change denoteP toyP _ = some v
        rw [toyP_unary, toyP_unary] at hv
        rw [toyP_unary, toyP_unary]
        cases hx : denoteP toyP x with
        | none => rw [hx] at hv; cases hv
        | some f =>
          rw [hx] at hv
          simp only [toyP, List.getElem?_map] at hv ⊢
          cases hl : f[l]? with
          | none => rw [hl] at hv; cases hv
          | some col => rw [hl] at hv; simpa using hv
      · cases h
    · cases h
  tuneDown_ok := by intro e o h; cases h
  tuneUp_ok := by intro c p o h; cases h
  lower_ok := by
    intro e o h
    simp only [toyRules] at h
    split at h
    · next x =>
      have ho : x = o := Option.some.inj h
      subst ho
      intro v hv
      refine ⟨v, ?_, rfl⟩
      change denoteP toyP _ = some v at hv
      change denoteP toyP _ = some v
      rw [toyP_unary] at hv
      cases hx : denoteP toyP x with
      | none => rw [hx] at hv; cases hv
      | some f =>
        rw [hx] at hv
        simp only [toyP] at hv
        simpa using hv
    · cases h
  fuse_ok := fun e => toyP.toSem.refl _

/-- the query is defined, hence so is its optimized plan (with the same value) -/
example : denoteP toyP q = some [[15, 25, 35]] := by decide +kernel
example : ∃ v', denoteP toyP (optimizeUntil toyRules 8 .fused q).expr = some v' ∧ v' = [[15, 25, 35]] :=
  C01_no_new_failure toyP toyRules toyRules_soundP 8 .fused q _ (by decide +kernel)
/-- a query that fails (column 7 does not exist) is outside the hypothesis -/
example : denoteP toyP (.node 2 7 [.node 0 3 []]) = none := by decide +kernel

/-! ### a rule that is sound only for truthful dependents

  "replace the parent by the first recorded consumer of the child" is sound exactly when that
  recorded consumer computes the same as the parent — a statement about the dependents map. -/

def reuseRules : Rules where
  down := fun _ => none
  up := fun c _ d => (d.of c).head?
  tuneDown := fun _ => none
  tuneUp := fun _ _ => none
  lower := fun _ => none
  fuse := id

def reuseOK (c p : Expr) (d : Deps) : Prop := ∀ q, q ∈ d.of c → Ref toyC.toSem q p

theorem reuseRules_sound : RulesSoundUnder toyC.toSem reuseRules reuseOK where
  down_ok := by intro e o h; cases h
  up_ok := by
    intro c p d o hP h
    simp only [reuseRules] at h
    exact hP o (List.mem_of_mem_head? h)
  tuneDown_ok := by intro e o h; cases h
  tuneUp_ok := by intro c p o h; cases h
  lower_ok := by intro e o h; cases h
  fuse_ok := fun e => rfl

/-- it is NOT sound for arbitrary maps: a stale map makes it return something else -/
example : ¬ RulesSound toyC.toSem reuseRules := by
  intro h
  have := h.up_ok (.node 0 3 []) (.node 2 1 [.node 0 3 []]) [(.node 0 3 [], .node 0 3 [])]
    (.node 0 3 []) True.intro (by decide +kernel)
  revert this
  show ¬ (denote toyC.toSem _ = denote toyC.toSem _)
  decide

/-- one column `x = src[1]`, consumed by `x[0]` and by `x + 0`: both equal `x` -/
def x1 : Expr := .node 2 1 [.node 0 3 []]
def shared : Expr := .node 3 0 [.node 2 0 [x1], .node 1 0 [x1]]

/-- the run fires the rule once (`x[0]` is replaced by the other consumer `x + 0`) … -/
example : (simplifyT reuseRules 8 shared []).1.expr = .node 3 0 [.node 1 0 [x1], .node 1 0 [x1]] := by decide +kernel
example : (simplifyT reuseRules 8 shared []).2.length = 1 := by decide +kernel
/-- … and every recorded firing saw a truthful map, so `C01_deps_sensitive_simplify` applies -/
example : Equiv toyC (simplify reuseRules 8 shared).expr shared := by
  apply C01_deps_sensitive_simplify toyC reuseRules reuseOK reuseRules_sound
  intro f hf
  have h : (simplifyT reuseRules 8 shared []).2.all
      (fun f => (f.deps.of f.child).all (fun q => decide (denote toyC.toSem q = denote toyC.toSem f.parent))) = true := by
    decide +kernel
  intro q hq
  have := List.all_eq_true.mp (List.all_eq_true.mp h f hf) q hq
  exact (of_decide_eq_true this : denote toyC.toSem q = denote toyC.toSem f.parent)

/-! ### a rule of the real code that is NOT value-preserving (known finding D47)

  `SortValues._simplify_up[Head]` / `[Tail]` and `SetIndex._simplify_up[Head]` / `[Tail]` replace
  `Head(SortValues(x), n)` — "the first n rows of the FIRST partition of the sorted frame" — by
  `NFirst(x, n)` — "the n smallest rows of the whole frame".  Values here are partition lists. -/

abbrev Parts := List (List Nat)

def insertNat (x : Nat) : List Nat → List Nat
  | [] => [x]
  | y :: t => if x ≤ y then x :: y :: t else y :: insertNat x t

def isort : List Nat → List Nat
  | [] => []
  | x :: t => insertNat x (isort t)

/-- range partitioning of a sorted list into partitions of two rows -/
def chunk2 : List Nat → Parts
  | a :: b :: t => [a, b] :: chunk2 t
  | [] => []
  | [a] => [[a]]

def partSem : Nat → Nat → List Parts → Parts
  | 0, _, [] => [[4, 1], [3, 2]]                        -- source: two partitions
  | 1, _, [p] => chunk2 (isort p.flatten)               -- sort_values
  | 2, n, [p] => [(p.headD []).take n]                  -- head(n): first partition only
  | 3, n, [p] => [(isort p.flatten).take n]             -- NFirst(n)
  | _, _, _ => []

def headSortRules : Rules where
  down := fun _ => none
  up := fun c p _ => match c, p with
    | .node 1 _ [x], .node 2 n [_] => some (.node 3 n [x])
    | _, _ => none
  tuneDown := fun _ => none
  tuneUp := fun _ _ => none
  lower := fun _ => none
  fuse := id

/-- `df.sort_values().head(3)` on two partitions of two rows -/
def sortedHead : Expr := .node 2 3 [.node 1 0 [.node 0 0 []]]

/-- the driver applies the rule faithfully, and the plans compute different results: the hypothesis
    `RulesSound` of the C01 theorems is necessary, not decorative -/
example : (simplify headSortRules 6 sortedHead).expr = .node 3 3 [.node 0 0 []] := by decide +kernel
example : denote (Congruence.ofEq partSem).toSem sortedHead = [[1, 2]] := by decide +kernel
example : denote (Congruence.ofEq partSem).toSem (simplify headSortRules 6 sortedHead).expr = [[1, 2, 3]] := by
  decide +kernel

end C01Ex

/-- **Counterexample (known finding D47).**  Replacing "head n of the first partition of the sorted
    frame" by "the n smallest rows" is not value-preserving: the rule system consisting of that one
    rewrite is not `RulesSound`, for plain equality of partition lists (row count 2 versus 3). -/
theorem C01_head_of_sorted_counterexample :
    ¬ RulesSound (Congruence.ofEq C01Ex.partSem).toSem C01Ex.headSortRules := by
  intro h
  have := h.up_ok (.node 1 0 [.node 0 0 []]) C01Ex.sortedHead [] (.node 3 3 [.node 0 0 []]) True.intro rfl
  revert this
  show ¬ (denote (Congruence.ofEq C01Ex.partSem).toSem _ = denote (Congruence.ofEq C01Ex.partSem).toSem _)
  decide +kernel

/-! ## The fragment of real classes: `RulesSound` discharged

  Model: DxModel/Fragment.lean.  `fragP I` is the partial denotation of the fragment over abstract columns `γ`
  and ANY interpretation `I` of the column-level operations (what pandas does to the rows) that satisfies
  `MaskLaws` (`&` / `|` act row by row, a mask is determined by its truth values); an ill-formed expression —
  a missing or duplicated label, a Binop of frames with different labels (open finding D39), a Merge whose key
  collides with a non-key column of the other side (open finding D34) or whose result labels collide — denotes
  nothing, and the statements say nothing about it.  `fragRules` calls `Cols.ioAbsorb / plain / binop / assign /
  rename / filterRule / merge / concat / projDown` (with `detProj` over the dependents recorded in the map) and
  `Pred.rewriteFilters`, and re-assembles the expression as the real `_simplify_up` / `_simplify_down` do.

  Soundness is for an ARBITRARY dependents map (`RulesSound`, not `RulesSoundUnder`): the union taken by
  `determine_column_projection` always contains the firing parent's own columns, so a stale, incomplete or
  polluted map only makes a rule keep more columns. -/

section Fragment
open Dx.Frag Dx.Cols
variable {γ ι : Type}

/-- **Every rule firing of the fragment replaces an expression by one that is defined whenever the replaced one
    is, with the same value** — for every dependents map.  Derived from `C04_plain_wf/_values`, `C04_filter_*`,
    `C04_io_labels/_values`, `C04_assign_wf/_values`, `C04_rename_wf/_values`, `C04_binop_*`, `C04_merge_pruned_wf`,
    `C04_merge_labels_partial`, `C04_merge_values_left/right_partial`, `C04_concat_labels/_declared/_values`, `C04_projdown_*` and `C03_or_factoring`
    (Lemmas/FragRules, FragAssign, FragConcat, FragMerge, FragPred). -/
theorem C01_fragment_rules_sound (I : Interp γ ι) (hI : MaskLaws I) : RulesSound (fragP I).toSem fragRules where
  down_ok := fun _ _ h v hv => ⟨v, fragDown_sound I h v hv, rfl⟩
  up_ok := fun _ _ _ _ _ h v hv => ⟨v, fragUp_sound I hI h v hv, rfl⟩
  tuneDown_ok := by intro e o h; cases h
  tuneUp_ok := by intro c p o h; cases h
  lower_ok := by intro e o h; cases h
  fuse_ok := fun e => Ref.refl _ e

/-- `Expr.simplify_once(dependents, simplified)` on the fragment: ANY dependents map, any sound cache -/
theorem C01_fragment_simplifyOnce_sound (I : Interp γ ι) (hI : MaskLaws I) (fuel : Nat) (e : Expr) (s : SState)
    (hc : CacheSound (fragP I).toSem s.cache) (v : FVal γ) (h : denoteP (fragP I) e = some v) :
    denoteP (fragP I) (simplifyOnce fragRules fuel e s).1 = some v := by
  obtain ⟨v', hv', he⟩ := (simplifyOnce_sound (fragP I).toSem fragRules _ (C01_fragment_rules_sound I hI) fuel e s
    (TraceGood.trivial _) hc).1 v h
  have : v' = v := he
  rw [← this]; exact hv'

/-- `Expr.simplify()` on the fragment, whatever its outcome -/
theorem C01_fragment_simplify_sound (I : Interp γ ι) (hI : MaskLaws I) (fuel : Nat) (e : Expr) (v : FVal γ)
    (h : denoteP (fragP I) e = some v) : denoteP (fragP I) (simplify fragRules fuel e).expr = some v := by
  obtain ⟨v', hv', he⟩ := (C01_no_new_failure_drivers (fragP I) fragRules (C01_fragment_rules_sound I hI) fuel e v h).1
  have : v' = v := he
  rw [← this]; exact hv'

/-- **No hypothesis on the rules**: for every expression of the fragment, every fuel, with or without the final
    fusion stage, `optimize` returns an expression that denotes the same frame. -/
theorem C01_fragment_optimize_sound (I : Interp γ ι) (hI : MaskLaws I) (fuel : Nat) (fuse : Bool) (e : Expr) (v : FVal γ)
    (h : denoteP (fragP I) e = some v) : denoteP (fragP I) (optimize fragRules fuel fuse e).expr = some v := by
  obtain ⟨v', hv', he⟩ := C01_no_new_failure (fragP I) fragRules (C01_fragment_rules_sound I hI) fuel _ e v h
  have : v' = v := he
  rw [← this]; exact hv'

/-- … and the plan of every stage of `optimize_until` is defined, with the same value, when the query is -/
theorem C01_fragment_no_new_failure (I : Interp γ ι) (hI : MaskLaws I) (fuel : Nat) (stage : Stage) (e : Expr) (v : FVal γ)
    (h : denoteP (fragP I) e = some v) :
    ∃ v', denoteP (fragP I) (optimizeUntil fragRules fuel stage e).expr = some v' ∧ v' = v :=
  C01_no_new_failure (fragP I) fragRules (C01_fragment_rules_sound I hI) fuel stage e v h

/-- … also inside any larger query -/
theorem C01_fragment_optimize_in_context (I : Interp γ ι) (hI : MaskLaws I) (fuel : Nat) (stage : Stage) (e : Expr)
    (c l : Nat) (pre post : List Expr) (v : FVal γ) (h : denoteP (fragP I) (.node c l (pre ++ e :: post)) = some v) :
    denoteP (fragP I) (.node c l (pre ++ (optimizeUntil fragRules fuel stage e).expr :: post)) = some v := by
  have hF : ∀ pre' : List Expr, Forall2 (Ref (fragP I).toSem)
      (pre' ++ (optimizeUntil fragRules fuel stage e).expr :: post) (pre' ++ e :: post) := by
    intro pre'
    induction pre' with
    | nil => exact .cons (C01_optimizeUntil_refines _ _ (C01_fragment_rules_sound I hI) fuel stage e) (forall2_refl _ post)
    | cons a t ih => exact .cons (Ref.refl _ a) ih
  obtain ⟨v', hv', he⟩ := Ref.rebuild (fragP I).toSem c l (hF pre) v h
  have : v' = v := he
  rw [← this]; exact hv'

/-- the side conditions are decidable on the expression: a query denotes something iff its labels are defined
    (`schemaOf` = the real `columns` / `ndim`, tied by the family `fragment`) -/
def fragWF (e : Expr) : Bool := (schemaOf e).isSome

theorem C01_fragment_defined_iff (I : Interp γ ι) (e : Expr) : (denoteP (fragP I) e).isSome = fragWF e :=
  den_isSome I e

/-- … so for every well-formed query of the fragment the optimized plan computes what the query computes -/
theorem C01_fragment_optimize_wf (I : Interp γ ι) (hI : MaskLaws I) (fuel : Nat) (fuse : Bool) (e : Expr)
    (hwf : fragWF e = true) :
    ∃ v, denoteP (fragP I) e = some v ∧ denoteP (fragP I) (optimize fragRules fuel fuse e).expr = some v := by
  have hd : (denoteP (fragP I) e).isSome = true := by rw [C01_fragment_defined_iff]; exact hwf
  cases hv : denoteP (fragP I) e with
  | none => rw [hv] at hd; cases hd
  | some v => exact ⟨v, rfl, C01_fragment_optimize_sound I hI fuel fuse e v hv⟩

/-- the optimizer keeps the declared labels and dimension of a well-formed query of the fragment -/
theorem C01_fragment_schema_preserved (fuel : Nat) (fuse : Bool) (e : Expr) (s : Schema) (h : schemaOf e = some s) :
    schemaOf (optimize fragRules fuel fuse e).expr = some s := by
  have hwf : fragWF e = true := by unfold fragWF; rw [h]; rfl
  obtain ⟨v, hv, hv'⟩ := C01_fragment_optimize_wf (listI (fun _ _ => none)) (listI_laws _) fuel fuse e hwf
  have h1 := den_schema hv
  have h2 := den_schema hv'
  rw [h] at h1
  rw [h2, ← Option.some.inj h1]

/-! ### non-vacuity: the model's `optimize` on concrete queries of the fragment -/
namespace C01Frag

def L : Expr := mk (.src ⟨0, ["a", "b", "c"], none⟩) []
def R : Expr := mk (.src ⟨1, ["b", "k", "d"], none⟩) []
/-- `FromPandas(columns=cs)` -/
def Lc (cs : List Name) : Expr := mk (.src ⟨0, ["a", "b", "c"], some cs⟩) []
def Rc (cs : List Name) : Expr := mk (.src ⟨1, ["b", "k", "d"], some cs⟩) []
def addk (k : Nat) (x : Expr) : Expr := mk (.bink 0 k) [x]
def gtk (k : Nat) (x : Expr) : Expr := mk (.bink 1 k) [x]
def mOn : MergeP := ⟨["b"], ["b"], "_x", "_y"⟩

/-- source data: two tables of four rows -/
def tabs : Nat → Name → Option (List Int)
  | 0, "a" => some [1, 2, 3, 4]
  | 0, "b" => some [3, 1, 2, 5]
  | 0, "c" => some [0, 1, 0, 1]
  | 1, "b" => some [1, 2, 3, 9]
  | 1, "k" => some [7, 8, 9, 6]
  | 1, "d" => some [10, 20, 30, 40]
  | _, _ => none

/-- labels and columns of what a query computes under the list interpretation -/
def cells (e : Expr) : Option (List Name × List (Option (List Int))) :=
  (denoteP (fragP (listI tabs)) e).map (fun v => (v.fr.cols, v.fr.cols.map v.fr.val))

/-- `x = L.rename(columns={'c': 'C'}).merge(R, on='b')`; `x.assign(z = x.a + 1)[['z', 'd']]`: the merge is shared by the
    Assign and by its value expression -/
def x (l r : Expr) : Expr := mk (.merge 0 mOn) [mk (.rename [("c", "C")]) [l], r]
def q1 : Expr := proj (.many ["z", "d"]) (mk (.assign ["z"]) [x L R, addk 1 (proj (.one "a") (x L R))])
/-- the projection went through Assign, Merge and RenameFrame down into both sources -/
def q1' : Expr := proj (.many ["z", "d"]) (mk (.assign ["z"])
  [proj (.many ["d"]) (x (Lc ["a", "b"]) (Rc ["b", "d"])), addk 1 (proj (.one "a") (x (Lc ["a", "b"]) (Rc ["b", "d"])))])

set_option maxRecDepth 100000 in
example : (optimize fragRules 12 true q1).expr = q1' ∧ (optimize fragRules 12 true q1).st = .ok := by decide +kernel
example : q1' ≠ q1 := by decide +kernel
example : cells q1 = some (["z", "d"], [some [2, 3, 4], some [30, 10, 20]]) := by decide +kernel
/-- by the theorem the rewritten plan computes the same; here it is, computed -/
example : cells q1' = some (["z", "d"], [some [2, 3, 4], some [30, 10, 20]]) := by decide +kernel
example : denoteP (fragP (listI tabs)) (optimize fragRules 12 true q1).expr = denoteP (fragP (listI tabs)) q1 := by
  cases h : denoteP (fragP (listI tabs)) q1 with
  | none => exact absurd (by rw [cells, h]; rfl : cells q1 = none) (by decide +kernel)
  | some v => exact C01_fragment_optimize_sound _ (listI_laws _) 12 true q1 v h

/-- a shared sub-expression with two consumers: `y = L.assign(z = L.b + 1)`, `y[['a']] + y[['a']].abs()` -/
def y : Expr := mk (.assign ["z"]) [L, addk 1 (proj (.one "b") L)]
def q2 : Expr := mk (.bin 2) [proj (.many ["a"]) y, mk (.elem 0) [proj (.many ["a"]) y]]
def q2' : Expr := mk (.bin 2) [Lc ["a"], mk (.elem 0) [Lc ["a"]]]

set_option maxRecDepth 100000 in
example : (optimize fragRules 12 true q2).expr = q2' ∧ q2' ≠ q2 := by decide +kernel
example : fragWF q2 = true ∧ cells q2 = some (["a"], [some [2, 4, 6, 8]]) ∧ cells q2' = cells q2 := by decide +kernel
/-- one `simplify_once` with a stale, polluted dependents map and a non-empty cache: still the same frame -/
example (s : SState) (hc : CacheSound (fragP (listI tabs)).toSem s.cache) :
    (denoteP (fragP (listI tabs)) (simplifyOnce fragRules 9 q2 s).1).isSome = true := by
  cases h : denoteP (fragP (listI tabs)) q2 with
  | none => exact absurd (by rw [cells, h]; rfl : cells q2 = none) (by decide +kernel)
  | some v => rw [C01_fragment_simplifyOnce_sound _ (listI_laws _) 9 q2 s hc v h]; rfl

/-- a filter with an OR of ANDs: `L[((L.a > 2) & (L.b > 1)) | ((L.a > 2) & (L.c > 0))][['b']]` — `rewrite_filters`
    factors `L.a > 2` out, the projection goes below the filter -/
def p3 : Expr := mk (.bin 1) [mk (.bin 0) [gtk 2 (proj (.one "a") L), gtk 1 (proj (.one "b") L)],
  mk (.bin 0) [gtk 2 (proj (.one "a") L), gtk 0 (proj (.one "c") L)]]
def q3 : Expr := proj (.many ["b"]) (mk .filter [L, p3])
def q3' : Expr := mk .filter [proj (.many ["b"]) L,
  mk (.bin 0) [gtk 2 (proj (.one "a") L), mk (.bin 1) [gtk 1 (proj (.one "b") L), gtk 0 (proj (.one "c") L)]]]

set_option maxRecDepth 100000 in
example : (optimize fragRules 12 true q3).expr = q3' := by decide +kernel
example : cells q3 = some (["b"], [some [2, 5]]) ∧ cells q3' = cells q3 := by decide +kernel

/-- an ill-formed query denotes nothing: outside the hypothesis of the theorems -/
example : fragWF (proj (.many ["zz"]) L) = false := by decide +kernel

end C01Frag

/-- **Side condition of Merge (open finding D34) — counterexample.**  `Lb.merge(Rb, left_on='b', right_on='k2')[['b_x']]`
    with `Lb = {b, v}`, `Rb = {k2, b}`: the left key `b` collides with the non-key column `b` of the right side, which
    `mergeOK` (part of definedness) excludes.  pandas produces the label `b_x`; the rule fires on the model exactly as
    on the code, and the pruned merge no longer produces `b_x`. -/
theorem C01_fragment_merge_collision_counterexample :
    let m : MergeP := ⟨["b"], ["k2"], "_x", "_y"⟩
    let Lb : Expr := mk (.src ⟨0, ["b", "v"], none⟩) []
    let Rb : Expr := mk (.src ⟨1, ["k2", "b"], none⟩) []
    let q : Expr := proj (.many ["b_x"]) (mk (.merge 0 m) [Lb, Rb])
    fragWF q = false ∧ mergeOK m ["b", "v"] ["k2", "b"] = false ∧
    "b_x" ∈ mergeLabels m ["b", "v"] ["k2", "b"] ∧
    fragUp (mk (.merge 0 m) [Lb, Rb]) q (collectDependents q) =
      some (proj (.many ["b_x"]) (mk (.merge 0 m) [proj (.many ["b"]) Lb, proj (.many ["k2"]) Rb])) ∧
    "b_x" ∉ mergeLabels m ["b"] ["k2"] := by decide +kernel

/-- **Side condition of Binop (open finding D39) — counterexample.**  For `(L[['a','b']] + L[['b','c']])[['a']]` the rule
    function that `Binop._simplify_up` is puts the projection `['a']` on BOTH operands; the right operand has no
    column `a`: the projection is ill-formed.  A Binop of frames with different labels denotes nothing in `fragP`. -/
theorem C01_fragment_binop_labels_counterexample :
    binop ["a", "b", "c"] (some ["a", "b"]) (some ["b", "c"]) (.list ["a"]) [] =
      some { childs := [some (.many ["a"]), some (.many ["a"])], keep := true } ∧
    schOp (.proj (.many ["a"])) [⟨["b", "c"], false⟩] = none ∧
    schOp (.bin 2) [⟨["a", "b"], false⟩, ⟨["b", "c"], false⟩] = none := by decide +kernel

end Fragment

end Dx
