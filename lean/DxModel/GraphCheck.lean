/-
  GraphCheck.lean — an executable checker for *real* task graphs (T3) with a soundness proof.
  The harness lists the graph's keys in a claimed topological order, each with the keys its
  task refers to; `checkOrder` accepts iff no key repeats and every reference points to an
  earlier key.  Soundness: acceptance implies the graph is unambiguous (no duplicate key),
  closed (every reference is a listed key) and acyclic (position is a strictly decreasing rank).
-/
namespace Dx

def checkOrder {κ} [DecidableEq κ] : List (κ × List κ) → List κ → Bool
  | [], _ => true
  | (k, rs) :: t, seen => !seen.contains k && rs.all (fun r => seen.contains r) && checkOrder t (k :: seen)

/-- position of a key in the listing (its rank) -/
def posOf {κ} [DecidableEq κ] (l : List (κ × List κ)) (k : κ) : Nat :=
  (l.map Prod.fst).idxOf k

theorem checkOrder_sound_aux {κ} [DecidableEq κ] :
    ∀ (l : List (κ × List κ)) (seen : List κ), checkOrder l seen = true →
      (l.map Prod.fst).Nodup ∧ (∀ k ∈ l.map Prod.fst, k ∉ seen) ∧
      (∀ (i : Nat) (h : i < l.length), ∀ r ∈ (l[i]).2,
          r ∈ seen ∨ ∃ (j : Nat) (hj : j < l.length), j < i ∧ (l[j]).1 = r) := by
  intro l
  induction l with
  | nil =>
    intro seen _
    refine ⟨List.nodup_nil, ?_, ?_⟩
    · intro k hk; cases hk
    · intro i h; cases h
  | cons p t ih =>
    intro seen h
    obtain ⟨k, rs⟩ := p
    simp only [checkOrder, Bool.and_eq_true, Bool.not_eq_true', List.all_eq_true] at h
    obtain ⟨⟨hk, hrs⟩, ht⟩ := h
    obtain ⟨hnd, hdis, hrefs⟩ := ih (k :: seen) ht
    have hkns : k ∉ seen := by
      intro hm
      have : seen.contains k = true := by simpa using hm
      rw [this] at hk; cases hk
    refine ⟨?_, ?_, ?_⟩
    · simp only [List.map_cons, List.nodup_cons]
      refine ⟨?_, hnd⟩
      intro hm; exact hdis k hm (by simp)
    · intro k' hk'
      simp only [List.map_cons, List.mem_cons] at hk'
      cases hk' with
      | inl h => subst h; exact hkns
      | inr h => intro hs; exact hdis k' h (by simp [hs])
    · intro i hi r hr
      cases i with
      | zero =>
        left
        have := hrs r (by simpa using hr)
        simpa using this
      | succ i =>
        have hi' : i < t.length := by simpa using hi
        have := hrefs i hi' r (by simpa using hr)
        cases this with
        | inl hm =>
          simp only [List.mem_cons] at hm
          cases hm with
          | inl he => right; exact ⟨0, by simp, by omega, by simp [he]⟩
          | inr hs => left; exact hs
        | inr hex =>
          obtain ⟨j, hj, hji, hjr⟩ := hex
          right
          exact ⟨j + 1, by simp; omega, by omega, by simpa using hjr⟩

/-- **Soundness of the graph checker**: an accepted listing has no duplicate key, and every
    reference of the `i`-th task is the key of a strictly earlier entry (closed + acyclic). -/
theorem checkOrder_sound {κ} [DecidableEq κ] (l : List (κ × List κ)) (h : checkOrder l [] = true) :
    (l.map Prod.fst).Nodup ∧
    (∀ (i : Nat) (hi : i < l.length), ∀ r ∈ (l[i]).2,
        ∃ (j : Nat) (hj : j < l.length), j < i ∧ (l[j]).1 = r) := by
  obtain ⟨h1, _, h3⟩ := checkOrder_sound_aux l [] h
  refine ⟨h1, ?_⟩
  intro i hi r hr
  cases h3 i hi r hr with
  | inl h => cases h
  | inr h => exact h

end Dx
